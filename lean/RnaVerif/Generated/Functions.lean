-- GENERATED on every run by /verif/tools/gen_tables.py from /repo/src/rnapolis — do not edit
import RnaVerif.Model.Py
/-! Whole functions of rnapolis translated from the current source by tools/py2lean.py (whitelist in
tools/gen/functions_py.py).  `-- BEGIN <key>` … `-- END <key>` delimit one whitelist entry; a block headed
`PINNED` is the translation of the verified tree, emitted because the present source of that function is
outside the subset (anchor `py2lean:<key>` lost). -/
set_option linter.unusedVariables false
namespace RnaVerif.Gen.Fn
open RnaVerif

-- BEGIN enum:LeontisWesthof
inductive LeontisWesthof where
  | cWW
  | cWH
  | cWS
  | cHW
  | cHH
  | cHS
  | cSW
  | cSH
  | cSS
  | tWW
  | tWH
  | tWS
  | tHW
  | tHH
  | tHS
  | tSW
  | tSH
  | tSS
deriving DecidableEq, Repr, Inhabited

def LeontisWesthof.all : List LeontisWesthof := [.cWW, .cWH, .cWS, .cHW, .cHH, .cHS, .cSW, .cSH, .cSS, .tWW, .tWH, .tWS, .tHW, .tHH, .tHS, .tSW, .tSH, .tSS]

/-- `.name` of the member -/
def LeontisWesthof.name : LeontisWesthof → String
  | .cWW => "cWW"
  | .cWH => "cWH"
  | .cWS => "cWS"
  | .cHW => "cHW"
  | .cHH => "cHH"
  | .cHS => "cHS"
  | .cSW => "cSW"
  | .cSH => "cSH"
  | .cSS => "cSS"
  | .tWW => "tWW"
  | .tWH => "tWH"
  | .tWS => "tWS"
  | .tHW => "tHW"
  | .tHH => "tHH"
  | .tHS => "tHS"
  | .tSW => "tSW"
  | .tSH => "tSH"
  | .tSS => "tSS"

/-- `.value` of the member -/
def LeontisWesthof.value : LeontisWesthof → String
  | .cWW => "cWW"
  | .cWH => "cWH"
  | .cWS => "cWS"
  | .cHW => "cHW"
  | .cHH => "cHH"
  | .cHS => "cHS"
  | .cSW => "cSW"
  | .cSH => "cSH"
  | .cSS => "cSS"
  | .tWW => "tWW"
  | .tWH => "tWH"
  | .tWS => "tWS"
  | .tHW => "tHW"
  | .tHH => "tHH"
  | .tHS => "tHS"
  | .tSW => "tSW"
  | .tSH => "tSH"
  | .tSS => "tSS"

/-- `LeontisWesthof[s]`: lookup by member NAME, `none` = KeyError -/
def LeontisWesthof.ofName? (s : String) : Option LeontisWesthof :=
  LeontisWesthof.all.find? (fun m => m.name == s)

theorem LeontisWesthof.mem_all (m : LeontisWesthof) : m ∈ LeontisWesthof.all := by cases m <;> decide
-- END enum:LeontisWesthof

-- BEGIN enum:Saenger
inductive Saenger where
  | I
  | II
  | III
  | IV
  | V
  | VI
  | VII
  | VIII
  | IX
  | X
  | XI
  | XII
  | XIII
  | XIV
  | XV
  | XVI
  | XVII
  | XVIII
  | XIX
  | XX
  | XXI
  | XXII
  | XXIII
  | XXIV
  | XXV
  | XXVI
  | XXVII
  | XXVIII
deriving DecidableEq, Repr, Inhabited

def Saenger.all : List Saenger := [.I, .II, .III, .IV, .V, .VI, .VII, .VIII, .IX, .X, .XI, .XII, .XIII, .XIV, .XV, .XVI, .XVII, .XVIII, .XIX, .XX, .XXI, .XXII, .XXIII, .XXIV, .XXV, .XXVI, .XXVII, .XXVIII]

/-- `.name` of the member -/
def Saenger.name : Saenger → String
  | .I => "I"
  | .II => "II"
  | .III => "III"
  | .IV => "IV"
  | .V => "V"
  | .VI => "VI"
  | .VII => "VII"
  | .VIII => "VIII"
  | .IX => "IX"
  | .X => "X"
  | .XI => "XI"
  | .XII => "XII"
  | .XIII => "XIII"
  | .XIV => "XIV"
  | .XV => "XV"
  | .XVI => "XVI"
  | .XVII => "XVII"
  | .XVIII => "XVIII"
  | .XIX => "XIX"
  | .XX => "XX"
  | .XXI => "XXI"
  | .XXII => "XXII"
  | .XXIII => "XXIII"
  | .XXIV => "XXIV"
  | .XXV => "XXV"
  | .XXVI => "XXVI"
  | .XXVII => "XXVII"
  | .XXVIII => "XXVIII"

/-- `.value` of the member -/
def Saenger.value : Saenger → String
  | .I => "I"
  | .II => "II"
  | .III => "III"
  | .IV => "IV"
  | .V => "V"
  | .VI => "VI"
  | .VII => "VII"
  | .VIII => "VIII"
  | .IX => "IX"
  | .X => "X"
  | .XI => "XI"
  | .XII => "XII"
  | .XIII => "XIII"
  | .XIV => "XIV"
  | .XV => "XV"
  | .XVI => "XVI"
  | .XVII => "XVII"
  | .XVIII => "XVIII"
  | .XIX => "XIX"
  | .XX => "XX"
  | .XXI => "XXI"
  | .XXII => "XXII"
  | .XXIII => "XXIII"
  | .XXIV => "XXIV"
  | .XXV => "XXV"
  | .XXVI => "XXVI"
  | .XXVII => "XXVII"
  | .XXVIII => "XXVIII"

/-- `Saenger[s]`: lookup by member NAME, `none` = KeyError -/
def Saenger.ofName? (s : String) : Option Saenger :=
  Saenger.all.find? (fun m => m.name == s)

theorem Saenger.mem_all (m : Saenger) : m ∈ Saenger.all := by cases m <;> decide
-- END enum:Saenger

-- BEGIN enum:StackingTopology
inductive StackingTopology where
  | upward
  | downward
  | inward
  | outward
deriving DecidableEq, Repr, Inhabited

def StackingTopology.all : List StackingTopology := [.upward, .downward, .inward, .outward]

/-- `.name` of the member -/
def StackingTopology.name : StackingTopology → String
  | .upward => "upward"
  | .downward => "downward"
  | .inward => "inward"
  | .outward => "outward"

/-- `.value` of the member -/
def StackingTopology.value : StackingTopology → String
  | .upward => "upward"
  | .downward => "downward"
  | .inward => "inward"
  | .outward => "outward"

/-- `StackingTopology[s]`: lookup by member NAME, `none` = KeyError -/
def StackingTopology.ofName? (s : String) : Option StackingTopology :=
  StackingTopology.all.find? (fun m => m.name == s)

theorem StackingTopology.mem_all (m : StackingTopology) : m ∈ StackingTopology.all := by cases m <;> decide
-- END enum:StackingTopology

-- BEGIN enum:GlycosidicBond
inductive GlycosidicBond where
  | anti
  | syn
deriving DecidableEq, Repr, Inhabited

def GlycosidicBond.all : List GlycosidicBond := [.anti, .syn]

/-- `.name` of the member -/
def GlycosidicBond.name : GlycosidicBond → String
  | .anti => "anti"
  | .syn => "syn"

/-- `.value` of the member -/
def GlycosidicBond.value : GlycosidicBond → String
  | .anti => "anti"
  | .syn => "syn"

/-- `GlycosidicBond[s]`: lookup by member NAME, `none` = KeyError -/
def GlycosidicBond.ofName? (s : String) : Option GlycosidicBond :=
  GlycosidicBond.all.find? (fun m => m.name == s)

theorem GlycosidicBond.mem_all (m : GlycosidicBond) : m ∈ GlycosidicBond.all := by cases m <;> decide
-- END enum:GlycosidicBond

-- BEGIN enum:Molecule
inductive Molecule where
  | DNA
  | RNA
  | Other
deriving DecidableEq, Repr, Inhabited

def Molecule.all : List Molecule := [.DNA, .RNA, .Other]

/-- `.name` of the member -/
def Molecule.name : Molecule → String
  | .DNA => "DNA"
  | .RNA => "RNA"
  | .Other => "Other"

/-- `.value` of the member -/
def Molecule.value : Molecule → String
  | .DNA => "DNA"
  | .RNA => "RNA"
  | .Other => "Other"

/-- `Molecule[s]`: lookup by member NAME, `none` = KeyError -/
def Molecule.ofName? (s : String) : Option Molecule :=
  Molecule.all.find? (fun m => m.name == s)

theorem Molecule.mem_all (m : Molecule) : m ∈ Molecule.all := by cases m <;> decide
-- END enum:Molecule

-- BEGIN enum:AtomType
inductive AtomType where
  | C
  | N
  | O
  | P
deriving DecidableEq, Repr, Inhabited

def AtomType.all : List AtomType := [.C, .N, .O, .P]

/-- `.name` of the member -/
def AtomType.name : AtomType → String
  | .C => "C"
  | .N => "N"
  | .O => "O"
  | .P => "P"

/-- `.value` of the member -/
def AtomType.value : AtomType → String
  | .C => "C"
  | .N => "N"
  | .O => "O"
  | .P => "P"

/-- `AtomType[s]`: lookup by member NAME, `none` = KeyError -/
def AtomType.ofName? (s : String) : Option AtomType :=
  AtomType.all.find? (fun m => m.name == s)

theorem AtomType.mem_all (m : AtomType) : m ∈ AtomType.all := by cases m <;> decide
-- END enum:AtomType

-- BEGIN struct:ResidueLabel
structure ResidueLabel where
  chain : String
  number : Int
  name : String
deriving DecidableEq, Repr
-- END struct:ResidueLabel

-- BEGIN struct:ResidueAuth
structure ResidueAuth where
  chain : String
  number : Int
  icode : Option String
  name : String
deriving DecidableEq, Repr
-- END struct:ResidueAuth

-- BEGIN struct:Residue
structure Residue where
  label : Option ResidueLabel
  auth : Option ResidueAuth
deriving DecidableEq, Repr
-- END struct:Residue

-- BEGIN struct:Atom
structure Atom where
  name : String
  x : Py.PyFloat
  y : Py.PyFloat
  z : Py.PyFloat
deriving DecidableEq, Repr
-- END struct:Atom

-- BEGIN struct:Residue3D
structure Residue3D extends Residue where
  model : Int
  one_letter_name : String
  atoms : List Atom
  chi : Py.PyFloat
deriving DecidableEq, Repr
-- END struct:Residue3D

-- BEGIN struct:BasePair3D
structure BasePair3D where
  nt1 : Residue
  nt2 : Residue
  lw : LeontisWesthof
  saenger : Option Saenger
  nt1_3d : Residue3D
  nt2_3d : Residue3D
deriving DecidableEq, Repr
-- END struct:BasePair3D

-- BEGIN lwReverse
/-- `common.LeontisWesthof.reverse` — translated by tools/py2lean.py; serves C11; f-string of three indexed characters of the member name, looked up by name
AST sha256/16: 2980a243955df2a9
```python
@property
def reverse(self):
    return LeontisWesthof[f'{self.name[0]}{self.name[2]}{self.name[1]}']
```
-/
def lwReverse (self : LeontisWesthof) : Option LeontisWesthof :=
  (((((Py.index? ((self).name) (0 : Int))).bind fun t1 => ((Py.index? ((self).name) (2 : Int))).bind fun t2 => ((Py.index? ((self).name) (1 : Int))).bind fun t3 => some ((t1 ++ t2 ++ t3)))).bind fun t4 => (LeontisWesthof.ofName? t4))
-- END lwReverse

-- BEGIN lwLt
/-- `common.LeontisWesthof.__lt__` — translated by tools/py2lean.py; serves C11
AST sha256/16: 8d5654582a971445
```python
def __lt__(self, other):
    return tuple(self.value) < tuple(other.value)
```
-/
def lwLt (self : LeontisWesthof) (other : LeontisWesthof) : Bool :=
  decide (((self).value).toList < ((other).value).toList)
-- END lwLt

-- BEGIN saengerIsCanonical
/-- `common.Saenger.is_canonical` — translated by tools/py2lean.py; serves C06
AST sha256/16: f900c34ba3cbcb4a
```python
@property
def is_canonical(self) -> bool:
    return self == Saenger.XIX or self == Saenger.XX or self == Saenger.XXVIII
```
-/
def saengerIsCanonical (self : Saenger) : Bool :=
  ((self == Saenger.XIX) || ((self == Saenger.XX) || (self == Saenger.XXVIII)))
-- END saengerIsCanonical

-- BEGIN stackingReverse
/-- `common.StackingTopology.reverse` — translated by tools/py2lean.py; serves C04
AST sha256/16: 883d81eb3e72279a
```python
@property
def reverse(self):
    if self == StackingTopology.upward:
        return StackingTopology.downward
    elif self == StackingTopology.downward:
        return StackingTopology.upward
    return self
```
-/
def stackingReverse (self : StackingTopology) : StackingTopology :=
  (if (self == StackingTopology.upward) then
    StackingTopology.downward
  else
    (if (self == StackingTopology.downward) then
      StackingTopology.upward
    else
      self))
-- END stackingReverse

-- BEGIN residueChain
/-- `common.Residue.chain` — translated by tools/py2lean.py; serves C11
AST sha256/16: b5a33f48d1e4a09d
```python
@property
def chain(self) -> Optional[str]:
    if self.auth is not None:
        return self.auth.chain
    if self.label is not None:
        return self.label.chain
    return None
```
-/
def residueChain (self : Residue) : Option String :=
  (match (self).auth with
    | some auth_2 =>
      (some ((auth_2).chain))
    | none =>
      (match (self).label with
        | some label_4 =>
          (some ((label_4).chain))
        | none =>
          (none : Option String)))
-- END residueChain

-- BEGIN residueNumber
/-- `common.Residue.number` — translated by tools/py2lean.py; serves C11
AST sha256/16: ffbb724c87544ac9
```python
@property
def number(self) -> Optional[int]:
    if self.auth is not None:
        return self.auth.number
    if self.label is not None:
        return self.label.number
    return None
```
-/
def residueNumber (self : Residue) : Option Int :=
  (match (self).auth with
    | some auth_2 =>
      (some ((auth_2).number))
    | none =>
      (match (self).label with
        | some label_4 =>
          (some ((label_4).number))
        | none =>
          (none : Option Int)))
-- END residueNumber

-- BEGIN residueIcode
/-- `common.Residue.icode` — translated by tools/py2lean.py; serves C11
AST sha256/16: 418d719bc621f338
```python
@property
def icode(self) -> Optional[str]:
    if self.auth is not None:
        return self.auth.icode if self.auth.icode not in (' ', '?') else None
    return None
```
-/
def residueIcode (self : Residue) : Option String :=
  (match (self).auth with
    | some auth_2 =>
      (if (!(match (auth_2).icode with | some v3 => (([" ", "?"] : List String).contains v3) | none => false)) then
        (auth_2).icode
      else
        (none : Option String))
    | none =>
      (none : Option String))
-- END residueIcode

-- BEGIN residueName
/-- `common.Residue.name` — translated by tools/py2lean.py; serves C11
AST sha256/16: 20e3bca41f675735
```python
@property
def name(self) -> Optional[str]:
    if self.auth is not None:
        return self.auth.name
    if self.label is not None:
        return self.label.name
    return None
```
-/
def residueName (self : Residue) : Option String :=
  (match (self).auth with
    | some auth_2 =>
      (some ((auth_2).name))
    | none =>
      (match (self).label with
        | some label_4 =>
          (some ((label_4).name))
        | none =>
          (none : Option String)))
-- END residueName

-- BEGIN residueLt
/-- `common.Residue.__lt__` — translated by tools/py2lean.py; serves C11; tuple comparison; `None < x` is a TypeError (residue without auth and label)
AST sha256/16: 86305d411f1847c6
```python
def __lt__(self, other):
    return (self.chain, self.number, self.icode or ' ') < (other.chain, other.number, other.icode or ' ')
```
-/
def residueLt (self : Residue) (other : Residue) : Option Bool :=
  (if (!((residueChain self) == (residueChain other))) then (Py.optCmp (fun (x y : String) => decide (x < y)) (residueChain self) (residueChain other)) else (if (!((residueNumber self) == (residueNumber other))) then (Py.optCmp (fun (x y : Int) => decide (x < y)) (residueNumber self) (residueNumber other)) else some (decide ((Py.orStr (residueIcode self) " ") < (Py.orStr (residueIcode other) " ")))))
-- END residueLt

-- BEGIN moleculeType
/-- `common.Residue.molecule_type` — translated by tools/py2lean.py; serves C11
AST sha256/16: 9d6df5ccf2e3bddb
```python
@property
def molecule_type(self) -> Molecule:
    if self.name is not None:
        if self.name.upper() in ('A', 'C', 'G', 'U'):
            return Molecule.RNA
        if self.name.upper() in ('DA', 'DC', 'DG', 'DT'):
            return Molecule.DNA
    return Molecule.Other
```
-/
def moleculeType (self : Residue) : Molecule :=
  (match (residueName self) with
    | some name_2 =>
      (if ((["A", "C", "G", "U"] : List String).contains (Py.upper name_2)) then
        Molecule.RNA
      else
        (if ((["DA", "DC", "DG", "DT"] : List String).contains (Py.upper name_2)) then
          Molecule.DNA
        else
          Molecule.Other))
    | none =>
      Molecule.Other)
-- END moleculeType

-- BEGIN residue3dLt
/-- `tertiary.Residue3D.__lt__` — translated by tools/py2lean.py; serves C03
AST sha256/16: 7c74893cefb36cf7
```python
def __lt__(self, other):
    return (self.model, self.chain, self.number, self.icode or ' ') < (other.model, other.chain, other.number, other.icode or ' ')
```
-/
def residue3dLt (self : Residue3D) (other : Residue3D) : Option Bool :=
  (if (!((self).model == (other).model)) then some (decide ((self).model < (other).model)) else (if (!((residueChain ((self).toResidue)) == (residueChain ((other).toResidue)))) then (Py.optCmp (fun (x y : String) => decide (x < y)) (residueChain ((self).toResidue)) (residueChain ((other).toResidue))) else (if (!((residueNumber ((self).toResidue)) == (residueNumber ((other).toResidue)))) then (Py.optCmp (fun (x y : Int) => decide (x < y)) (residueNumber ((self).toResidue)) (residueNumber ((other).toResidue))) else some (decide ((Py.orStr (residueIcode ((self).toResidue)) " ") < (Py.orStr (residueIcode ((other).toResidue)) " "))))))
-- END residue3dLt

-- BEGIN chiClass
/-- `tertiary.Residue3D.chi_class` — translated by tools/py2lean.py; serves C18; `self.chi` (a cached property computed from coordinates) is taken as data
AST sha256/16: 13a6881d51393a88
```python
@cached_property
def chi_class(self) -> Optional[GlycosidicBond]:
    if math.isnan(self.chi):
        return None
    if math.radians(-30) < self.chi < math.radians(120):
        return GlycosidicBond.syn
    return GlycosidicBond.anti
```
-/
def chiClass (radians : Py.PyFloat → Py.PyFloat) (self : Residue3D) : Option GlycosidicBond :=
  (if (Py.isNan ((self).chi)) then
    (none : Option GlycosidicBond)
  else
    (if ((Py.fLt (radians (Py.fOfInt (-30 : Int))) ((self).chi)) && (Py.fLt ((self).chi) (radians (Py.fOfInt (120 : Int))))) then
      (some GlycosidicBond.syn)
    else
      (some GlycosidicBond.anti)))
-- END chiClass

-- BEGIN findAtom
/-- `tertiary.Residue3D.find_atom` — translated by tools/py2lean.py; serves C03, C11
AST sha256/16: a21bddee5ecfd2ac
```python
def find_atom(self, atom_name: str) -> Optional[Atom]:
    for atom in self.atoms:
        if atom.name == atom_name:
            return atom
    return None
```
-/
def findAtom (self : Residue3D) (atom_name : String) : Option Atom :=
  (match (((self).atoms)).findSome? (fun atom =>
      (if ((atom).name == atom_name) then
        some (some atom)
      else
        none)) with
    | some r2 => r2
    | none =>
      (none : Option Atom))
-- END findAtom

-- BEGIN bpScore
/-- live value of `self.score_table` -/
def bpScore_c1 : List (LeontisWesthof × Int) :=
  [(LeontisWesthof.cWW, (1 : Int)),
   (LeontisWesthof.tWW, (2 : Int)),
   (LeontisWesthof.cWH, (3 : Int)),
   (LeontisWesthof.tWH, (4 : Int)),
   (LeontisWesthof.cWS, (5 : Int)),
   (LeontisWesthof.tWS, (6 : Int)),
   (LeontisWesthof.cHW, (7 : Int)),
   (LeontisWesthof.tHW, (8 : Int)),
   (LeontisWesthof.cHH, (9 : Int)),
   (LeontisWesthof.tHH, (10 : Int)),
   (LeontisWesthof.cHS, (11 : Int)),
   (LeontisWesthof.tHS, (12 : Int)),
   (LeontisWesthof.cSW, (13 : Int)),
   (LeontisWesthof.tSW, (14 : Int)),
   (LeontisWesthof.cSH, (15 : Int)),
   (LeontisWesthof.tSH, (16 : Int)),
   (LeontisWesthof.cSS, (17 : Int)),
   (LeontisWesthof.tSS, (18 : Int))]

/-- `tertiary.BasePair3D.score` — translated by tools/py2lean.py; serves C06
AST sha256/16: ce6ae9e171342c84
```python
@cached_property
def score(self) -> int:
    return self.score_table.get(self.lw, 20)
```
-/
def bpScore (self : BasePair3D) : Int :=
  (((bpScore_c1).lookup ((self).lw)).getD (20 : Int))
-- END bpScore

-- BEGIN bpIsCanonical
/-- `tertiary.BasePair3D.is_canonical` — translated by tools/py2lean.py; serves C06
AST sha256/16: e118bc8f592ed314
```python
@cached_property
def is_canonical(self) -> bool:
    if self.saenger is not None:
        return self.saenger.is_canonical
    nts = ''.join(sorted([self.nt1_3d.one_letter_name.upper(), self.nt2_3d.one_letter_name.upper()]))
    return self.lw == LeontisWesthof.cWW and (nts == 'AU' or nts == 'AT' or nts == 'CG' or (nts == 'GU'))
```
-/
def bpIsCanonical (self : BasePair3D) : Bool :=
  (match (self).saenger with
    | some saenger_2 =>
      (saengerIsCanonical saenger_2)
    | none =>
      let nts := (Py.join "" (Py.sortedStr [(Py.upper (((self).nt1_3d).one_letter_name)), (Py.upper (((self).nt2_3d).one_letter_name))]))
      (((self).lw == LeontisWesthof.cWW) && ((nts == "AU") || ((nts == "AT") || ((nts == "CG") || (nts == "GU"))))))
-- END bpIsCanonical

-- BEGIN pairScoreBpseq
/-- `tertiary.Mapping2D3D.bpseq.pair_scoring_function` — translated by tools/py2lean.py; serves C06
AST sha256/16: 69cf403456de2d06
```python
def pair_scoring_function(pair: BasePair3D) -> int:
    if pair.saenger is not None:
        if pair.saenger in (Saenger.XIX, Saenger.XX):
            return (0, pair.nt1, pair.nt2)
        else:
            return (1, pair.nt1, pair.nt2)
    sequence = ''.join(sorted([pair.nt1_3d.one_letter_name.upper(), pair.nt2_3d.one_letter_name.upper()]))
    if sequence in ('AU', 'AT', 'CG'):
        return (0, pair.nt1, pair.nt2)
    return (1, pair.nt1, pair.nt2)
```
-/
def pairScoreBpseq (pair : BasePair3D) : Int × Residue × Residue :=
  (match (pair).saenger with
    | some saenger_2 =>
      (if (([Saenger.XIX, Saenger.XX] : List Saenger).contains saenger_2) then
        ((0 : Int), (pair).nt1, (pair).nt2)
      else
        ((1 : Int), (pair).nt1, (pair).nt2))
    | none =>
      let sequence := (Py.join "" (Py.sortedStr [(Py.upper (((pair).nt1_3d).one_letter_name)), (Py.upper (((pair).nt2_3d).one_letter_name))]))
      (if ((["AU", "AT", "CG"] : List String).contains sequence) then
        ((0 : Int), (pair).nt1, (pair).nt2)
      else
        ((1 : Int), (pair).nt1, (pair).nt2)))
-- END pairScoreBpseq

-- BEGIN pairScoreData
/-- `tertiary.Mapping2D3D._generated_bpseq_data.pair_scoring_function` — translated by tools/py2lean.py; serves C06
AST sha256/16: 69cf403456de2d06
```python
def pair_scoring_function(pair: BasePair3D) -> int:
    if pair.saenger is not None:
        if pair.saenger in (Saenger.XIX, Saenger.XX):
            return (0, pair.nt1, pair.nt2)
        else:
            return (1, pair.nt1, pair.nt2)
    sequence = ''.join(sorted([pair.nt1_3d.one_letter_name.upper(), pair.nt2_3d.one_letter_name.upper()]))
    if sequence in ('AU', 'AT', 'CG'):
        return (0, pair.nt1, pair.nt2)
    return (1, pair.nt1, pair.nt2)
```
-/
def pairScoreData (pair : BasePair3D) : Int × Residue × Residue :=
  (match (pair).saenger with
    | some saenger_2 =>
      (if (([Saenger.XIX, Saenger.XX] : List Saenger).contains saenger_2) then
        ((0 : Int), (pair).nt1, (pair).nt2)
      else
        ((1 : Int), (pair).nt1, (pair).nt2))
    | none =>
      let sequence := (Py.join "" (Py.sortedStr [(Py.upper (((pair).nt1_3d).one_letter_name)), (Py.upper (((pair).nt2_3d).one_letter_name))]))
      (if ((["AU", "AT", "CG"] : List String).contains sequence) then
        ((0 : Int), (pair).nt1, (pair).nt2)
      else
        ((1 : Int), (pair).nt1, (pair).nt2)))
-- END pairScoreData

-- BEGIN cisTrans
/-- `annotator.detect_cis_trans` — translated by tools/py2lean.py; serves C03
AST sha256/16: b74079a85be2bbb1
```python
def detect_cis_trans(residue_i: Residue3D, residue_j: Residue3D) -> Optional[str]:
    c1p_i = residue_i.find_atom("C1'")
    c1p_j = residue_j.find_atom("C1'")
    if residue_i.one_letter_name in 'AG':
        n9n1_i = residue_i.find_atom('N9')
    else:
        n9n1_i = residue_i.find_atom('N1')
    if residue_j.one_letter_name in 'AG':
        n9n1_j = residue_j.find_atom('N9')
    else:
        n9n1_j = residue_j.find_atom('N1')
    if c1p_i is None or c1p_j is None or n9n1_i is None or (n9n1_j is None):
        return None
    torsion = math.degrees(torsion_angle(c1p_i, n9n1_i, n9n1_j, c1p_j))
    return 'c' if -90.0 < torsion < 90.0 else 't'
```
-/
def cisTrans (torsionAngle : Atom → Atom → Atom → Atom → Py.PyFloat) (degrees : Py.PyFloat → Py.PyFloat) (residue_i : Residue3D) (residue_j : Residue3D) : Option String :=
  let c1p_i := (findAtom residue_i "C1'")
  let c1p_j := (findAtom residue_j "C1'")
  let n9n1_i : Option Atom := (if (Py.strIn ((residue_i).one_letter_name) "AG") then
    let n9n1_i := (findAtom residue_i "N9")
    n9n1_i
  else
    let n9n1_i := (findAtom residue_i "N1")
    n9n1_i)
  let n9n1_j : Option Atom := (if (Py.strIn ((residue_j).one_letter_name) "AG") then
    let n9n1_j := (findAtom residue_j "N9")
    n9n1_j
  else
    let n9n1_j := (findAtom residue_j "N1")
    n9n1_j)
  (match c1p_i with
    | some c1p_i_2 =>
      (match c1p_j with
        | some c1p_j_3 =>
          (match n9n1_i with
            | some n9n1_i_4 =>
              (match n9n1_j with
                | some n9n1_j_5 =>
                  let torsion := (degrees (torsionAngle c1p_i_2 n9n1_i_4 n9n1_j_5 c1p_j_3))
                  (some (if ((Py.fLt (some (-90 : Rat) : Py.PyFloat) torsion) && (Py.fLt torsion (some (90 : Rat) : Py.PyFloat))) then
                    "c"
                  else
                    "t"))
                | none =>
                  (none : Option String))
            | none =>
              (none : Option String))
        | none =>
          (none : Option String))
    | none =>
      (none : Option String))
-- END cisTrans

-- BEGIN bphClass
/-- `annotator.detect_bph_br_classification` — translated by tools/py2lean.py; serves C11
AST sha256/16: 8885cac82cee1a77
```python
def detect_bph_br_classification(donor_residue: Residue3D, donor: Atom, acceptor: Atom) -> Optional[int]:
    if donor_residue.one_letter_name == 'A':
        if donor.name == 'C2':
            return 2
        if donor.name == 'N6':
            n1 = donor_residue.find_atom('N1')
            c6 = donor_residue.find_atom('C6')
            if n1 is not None and c6 is not None:
                torsion = math.degrees(torsion_angle(n1, c6, donor, acceptor))
                return 6 if -90.0 < torsion < 90.0 else 7
        if donor.name == 'C8':
            return 0
    if donor_residue.one_letter_name == 'G':
        if donor.name == 'N1':
            return 5
        if donor.name == 'N2':
            n3 = donor_residue.find_atom('N3')
            c2 = donor_residue.find_atom('C2')
            if n3 is not None and c2 is not None:
                torsion = math.degrees(torsion_angle(n3, c2, donor, acceptor))
                return 1 if -90.0 < torsion < 90.0 else 3
        if donor.name == 'C8':
            return 0
    if donor_residue.one_letter_name == 'C':
        if donor.name == 'N4':
            n3 = donor_residue.find_atom('N3')
            c4 = donor_residue.find_atom('C4')
            if n3 is not None and c4 is not None:
                torsion = math.degrees(torsion_angle(n3, c4, donor, acceptor))
                return 6 if -90.0 < torsion < 90.0 else 7
        if donor.name == 'C5':
            return 9
        if donor.name == 'C6':
            return 0
    if donor_residue.one_letter_name == 'U':
        if donor.name == 'N3':
            return 5
        if donor.name == 'C5':
            return 9
        if donor.name == 'C6':
            return 0
    if donor_residue.one_letter_name == 'T':
        if donor.name == 'N3':
            return 5
        if donor.name == 'C6':
            return 0
        if donor.name == 'C7':
            return 9
    return None
```
-/
def bphClass (torsionAngle : Atom → Atom → Atom → Atom → Py.PyFloat) (degrees : Py.PyFloat → Py.PyFloat) (donor_residue : Residue3D) (donor : Atom) (acceptor : Atom) : Option Int :=
  let k1 := fun (_ : Unit) =>
    let k8 := fun (_ : Unit) =>
      let k15 := fun (_ : Unit) =>
        let k22 := fun (_ : Unit) =>
          (if ((donor_residue).one_letter_name == "T") then
            (if ((donor).name == "N3") then
              (some (5 : Int))
            else
              (if ((donor).name == "C6") then
                (some (0 : Int))
              else
                (if ((donor).name == "C7") then
                  (some (9 : Int))
                else
                  (none : Option Int))))
          else
            (none : Option Int))
        (if ((donor_residue).one_letter_name == "U") then
          (if ((donor).name == "N3") then
            (some (5 : Int))
          else
            (if ((donor).name == "C5") then
              (some (9 : Int))
            else
              (if ((donor).name == "C6") then
                (some (0 : Int))
              else
                k22 ())))
        else
          k22 ())
      (if ((donor_residue).one_letter_name == "C") then
        let k16 := fun (_ : Unit) =>
          (if ((donor).name == "C5") then
            (some (9 : Int))
          else
            (if ((donor).name == "C6") then
              (some (0 : Int))
            else
              k15 ()))
        (if ((donor).name == "N4") then
          let n3 := (findAtom donor_residue "N3")
          let c4 := (findAtom donor_residue "C4")
          (match n3 with
            | some n3_18 =>
              (match c4 with
                | some c4_19 =>
                  let torsion := (degrees (torsionAngle n3_18 c4_19 donor acceptor))
                  (some (if ((Py.fLt (some (-90 : Rat) : Py.PyFloat) torsion) && (Py.fLt torsion (some (90 : Rat) : Py.PyFloat))) then
                    (6 : Int)
                  else
                    (7 : Int)))
                | none =>
                  k16 ())
            | none =>
              k16 ())
        else
          k16 ())
      else
        k15 ())
    (if ((donor_residue).one_letter_name == "G") then
      (if ((donor).name == "N1") then
        (some (5 : Int))
      else
        let k10 := fun (_ : Unit) =>
          (if ((donor).name == "C8") then
            (some (0 : Int))
          else
            k8 ())
        (if ((donor).name == "N2") then
          let n3 := (findAtom donor_residue "N3")
          let c2 := (findAtom donor_residue "C2")
          (match n3 with
            | some n3_12 =>
              (match c2 with
                | some c2_13 =>
                  let torsion := (degrees (torsionAngle n3_12 c2_13 donor acceptor))
                  (some (if ((Py.fLt (some (-90 : Rat) : Py.PyFloat) torsion) && (Py.fLt torsion (some (90 : Rat) : Py.PyFloat))) then
                    (1 : Int)
                  else
                    (3 : Int)))
                | none =>
                  k10 ())
            | none =>
              k10 ())
        else
          k10 ()))
    else
      k8 ())
  (if ((donor_residue).one_letter_name == "A") then
    (if ((donor).name == "C2") then
      (some (2 : Int))
    else
      let k3 := fun (_ : Unit) =>
        (if ((donor).name == "C8") then
          (some (0 : Int))
        else
          k1 ())
      (if ((donor).name == "N6") then
        let n1 := (findAtom donor_residue "N1")
        let c6 := (findAtom donor_residue "C6")
        (match n1 with
          | some n1_5 =>
            (match c6 with
              | some c6_6 =>
                let torsion := (degrees (torsionAngle n1_5 c6_6 donor acceptor))
                (some (if ((Py.fLt (some (-90 : Rat) : Py.PyFloat) torsion) && (Py.fLt torsion (some (90 : Rat) : Py.PyFloat))) then
                  (6 : Int)
                else
                  (7 : Int)))
              | none =>
                k3 ())
          | none =>
            k3 ())
      else
        k3 ()))
  else
    k1 ())
-- END bphClass

-- BEGIN angleClamp
/-- `annotator.angle_between_vectors` — translated by tools/py2lean.py; serves C03, C04; fragment: the returned expression as a function of the local `cosine` (the float arithmetic producing it is not translated)
AST sha256/16: 3b126effd32eaef3
```python
return math.acos(min(1.0, max(-1.0, cosine)))
```
-/
def angleClamp (acos : Py.PyFloat → Py.PyFloat) (cosine : Py.PyFloat) : Py.PyFloat :=
  (acos (Py.fMin (some (1 : Rat) : Py.PyFloat) (Py.fMax (some (-1 : Rat) : Py.PyFloat) cosine)))
-- END angleClamp

-- BEGIN detectSaenger
/-- live value of `Saenger.table()` -/
def detectSaenger_c1 : List ((String × String) × String) :=
  [(("AA", "tWW"), "I"),
   (("AA", "tHH"), "II"),
   (("GG", "tWW"), "III"),
   (("GG", "tSS"), "IV"),
   (("AA", "tWH"), "V"),
   (("AA", "tHW"), "V"),
   (("GG", "cWH"), "VI"),
   (("GG", "cHW"), "VI"),
   (("GG", "tWH"), "VII"),
   (("GG", "tHW"), "VII"),
   (("AG", "cWW"), "VIII"),
   (("GA", "cWW"), "VIII"),
   (("AG", "cHW"), "IX"),
   (("GA", "cWH"), "IX"),
   (("AG", "tWS"), "X"),
   (("GA", "tSW"), "X"),
   (("AG", "tHS"), "XI"),
   (("GA", "tSH"), "XI"),
   (("UU", "tWW"), "XII"),
   (("TT", "tWW"), "XII"),
   (("UU", "cWW"), "XVI"),
   (("TT", "cWW"), "XVI"),
   (("CU", "tWW"), "XVII"),
   (("UC", "tWW"), "XVII"),
   (("CU", "cWW"), "XVIII"),
   (("UC", "cWW"), "XVIII"),
   (("CG", "cWW"), "XIX"),
   (("GC", "cWW"), "XIX"),
   (("AU", "cWW"), "XX"),
   (("UA", "cWW"), "XX"),
   (("AT", "cWW"), "XX"),
   (("TA", "cWW"), "XX"),
   (("AU", "tWW"), "XXI"),
   (("UA", "tWW"), "XXI"),
   (("AT", "tWW"), "XXI"),
   (("TA", "tWW"), "XXI"),
   (("CG", "tWW"), "XXII"),
   (("GC", "tWW"), "XXII"),
   (("AU", "cHW"), "XXIII"),
   (("UA", "cWH"), "XXIII"),
   (("AT", "cHW"), "XXIII"),
   (("TA", "cWH"), "XXIII"),
   (("AU", "tHW"), "XXIV"),
   (("UA", "tWH"), "XXIV"),
   (("AT", "tHW"), "XXIV"),
   (("TA", "tWH"), "XXIV"),
   (("AC", "tHW"), "XXV"),
   (("CA", "tWH"), "XXV"),
   (("AC", "tWW"), "XXVI"),
   (("CA", "tWW"), "XXVI"),
   (("GU", "tWW"), "XXVII"),
   (("UG", "tWW"), "XXVII"),
   (("GT", "tWW"), "XXVII"),
   (("TG", "tWW"), "XXVII"),
   (("GU", "cWW"), "XXVIII"),
   (("UG", "cWW"), "XXVIII"),
   (("GT", "cWW"), "XXVIII"),
   (("TG", "cWW"), "XXVIII")]

/-- `annotator.detect_saenger` — translated by tools/py2lean.py; serves C11
AST sha256/16: a63d0dafe00b2c36
```python
def detect_saenger(residue_i: Residue3D, residue_j: Residue3D, lw: LeontisWesthof) -> Optional[Saenger]:
    key = (f'{residue_i.one_letter_name}{residue_j.one_letter_name}', lw.value)
    if key in Saenger.table():
        return Saenger[Saenger.table()[key]]
    return None
```
-/
def detectSaenger (residue_i : Residue3D) (residue_j : Residue3D) (lw : LeontisWesthof) : Option (Option Saenger) :=
  let key := (((residue_i).one_letter_name ++ (residue_j).one_letter_name), (lw).value)
  (if ((detectSaenger_c1).lookup key).isSome then
    ((((((detectSaenger_c1).lookup key)).bind fun t2 => (Saenger.ofName? t2))).bind fun t3 => some ((some t3)))
  else
    some (none : Option Saenger))
-- END detectSaenger

-- BEGIN matchDssrLw
/-- `adapter.match_dssr_lw` — translated by tools/py2lean.py; serves C19
AST sha256/16: ab20d7a515285308
```python
def match_dssr_lw(lw: Optional[str]) -> Optional[LeontisWesthof]:
    return LeontisWesthof[lw] if lw in LeontisWesthof.__members__ else None
```
-/
def matchDssrLw (lw : Option String) : Option (Option LeontisWesthof) :=
  (if (match lw with | some v1 => (LeontisWesthof.ofName? v1).isSome | none => false) then
    ((((lw).bind LeontisWesthof.ofName?)).bind fun t2 => some ((some t2)))
  else
    some ((none : Option LeontisWesthof)))
-- END matchDssrLw

-- BEGIN atomRadius
/-- `clashfinder.AtomType.radius` — translated by tools/py2lean.py; serves C17
AST sha256/16: 7ce6a0879798e11c
```python
@cached_property
def radius(self) -> float:
    if self.value == 'C':
        return CARBON_RADIUS
    elif self.value == 'N':
        return NITROGEN_RADIUS
    elif self.value == 'O':
        return OXYGEN_RADIUS
    elif self.value == 'P':
        return PHOSPHORUS_RADIUS
    raise RuntimeError(f'Unknown atom type: {self}')
```
-/
def atomRadius (self : AtomType) : Option Py.PyFloat :=
  (if ((self).value == "C") then
    some (some (3 / 5 : Rat) : Py.PyFloat)
  else
    (if ((self).value == "N") then
      some (some (27 / 50 : Rat) : Py.PyFloat)
    else
      (if ((self).value == "O") then
        some (some (53 / 100 : Rat) : Py.PyFloat)
      else
        (if ((self).value == "P") then
          some (some (47 / 50 : Rat) : Py.PyFloat)
        else
          none))))
-- END atomRadius

-- BEGIN atomMatches
/-- `clashfinder.AtomType.matches` — translated by tools/py2lean.py; serves C17
AST sha256/16: 4afff17a29365919
```python
def matches(self, atom: Atom):
    return atom.name.strip().startswith(self.value)
```
-/
def atomMatches (self : AtomType) (atom : Atom) : Bool :=
  (Py.startsWith (Py.strip ((atom).name)) ((self).value))
-- END atomMatches

-- BEGIN classifyClash
/-- `clashfinder.classify_clash` — translated by tools/py2lean.py; serves C17
AST sha256/16: 6418abc49db5e944
```python
def classify_clash(atom_i: Atom, atom_j: Atom, occupancy: float) -> Optional[str]:
    if atom_i.name == "O3'" and atom_j.name in ('OP1', 'OP2', 'OP3', 'O1P', 'O2P', 'O3P'):
        return "O3'"
    return None
```
-/
def classifyClash (atom_i : Atom) (atom_j : Atom) (occupancy : Py.PyFloat) : Option String :=
  (if (((atom_i).name == "O3'") && ((["OP1", "OP2", "OP3", "O1P", "O2P", "O3P"] : List String).contains ((atom_j).name))) then
    (some "O3'")
  else
    (none : Option String))
-- END classifyClash

-- BEGIN pdbAtomName
/-- `parser_v2._format_pdb_atom_line` — translated by tools/py2lean.py; serves C09; fragment: the rule that places the atom name in columns 13-16 (`atom_name_fmt` from `atom_name`)
AST sha256/16: ce135a06089898e4
```python
if len(atom_name) < 4 and atom_name[:1].isalpha():
    atom_name_fmt = (' ' + atom_name).ljust(4)
else:
    atom_name_fmt = atom_name.ljust(4)
return atom_name_fmt
```
-/
def pdbAtomName (atom_name : String) : String :=
  let atom_name_fmt : String := (if (decide ((Py.len atom_name) < (4 : Int)) && (Py.isAlpha (Py.slice atom_name none (some (1 : Int))))) then
    let atom_name_fmt := (Py.ljust (" " ++ atom_name) (4 : Int))
    atom_name_fmt
  else
    let atom_name_fmt := (Py.ljust atom_name (4 : Int))
    atom_name_fmt)
  atom_name_fmt
-- END pdbAtomName

end RnaVerif.Gen.Fn

-- GENERATED on every run by /verif/tools/gen_tables.py from /repo/src/rnapolis — do not edit

namespace RnaVerif.Gen

/-- `STACKING_MAX_DISTANCE` (angstrom) -/
def stackingMaxDistance : Rat := (6 : Rat)

/-- `STACKING_MAX_ANGLE_BETWEEN_NORMALS` (degrees) -/
def stackingMaxAngleNormals : Rat := (35 : Rat)

/-- `STACKING_MAX_ANGLE_BETWEEN_VECTOR_AND_NORMAL` (degrees) -/
def stackingMaxAngleVector : Rat := (45 : Rat)

/-- rational enclosure of cos^2(stackingMaxAngleNormals degrees), computed by the translator -/
def cosSqNormalsLo : Rat := (335505035831417183 / 500000000000000000 : Rat)
def cosSqNormalsHi : Rat := (671010071662834367 / 1000000000000000000 : Rat)

/-- rational enclosure of cos^2(stackingMaxAngleVector degrees), computed by the translator -/
def cosSqVectorLo : Rat := (499999999999999999 / 1000000000000000000 : Rat)
def cosSqVectorHi : Rat := (500000000000000001 / 1000000000000000000 : Rat)

/-- `tertiary.BASE_ATOMS`: atoms averaged into the base centroid, per one-letter name -/
def baseAtoms : List (String × List String) :=
  [("A", ["N1", "C2", "N3", "C4", "C5", "C6", "N6", "N7", "C8", "N9"]),
   ("G", ["N1", "C2", "N2", "N3", "C4", "C5", "C6", "O6", "N7", "C8", "N9"]),
   ("C", ["N1", "C2", "O2", "N3", "C4", "N4", "C5", "C6"]),
   ("U", ["N1", "C2", "O2", "N3", "C4", "O4", "C5", "C6"]),
   ("T", ["N1", "C2", "O2", "N3", "C4", "O4", "C5", "C6", "C7"])]

/-- `Residue3D.nucleobase_heavy_atoms` (sorted) -/
def nucleobaseHeavyAtoms : List (String × List String) :=
  [("A", ["C2", "C4", "C5", "C6", "C8", "N1", "N3", "N6", "N7", "N9"]),
   ("G", ["C2", "C4", "C5", "C6", "C8", "N1", "N2", "N3", "N7", "N9", "O6"]),
   ("C", ["C2", "C4", "C5", "C6", "N1", "N3", "N4", "O2"]),
   ("U", ["C2", "C4", "C5", "C6", "N1", "N3", "O2", "O4"]),
   ("T", ["C2", "C4", "C5", "C5M", "C6", "N1", "N3", "O2", "O4"])]

/-- `one_letter_name in 'AG'` selects the first triple, anything else the second;
    a triple is (origin, first, second): normal = (first - origin) x (second - origin) -/
def purineLetters : String := "AG"
def purineNormalAtoms : String × String × String := ("N9", "N7", "N3")
def otherNormalAtoms : String × String × String := ("N1", "C4", "O2")

/-- `AtomType` members with `AtomType.radius` (live objects) -/
def clashRadii : List (String × Rat) :=
  [("C", (3 / 5 : Rat)), ("N", (27 / 50 : Rat)),
   ("O", (53 / 100 : Rat)), ("P", (47 / 50 : Rat))]

/-- addend of the MolProbity mode / of the default mode -/
def molprobityOn : Rat := (1 / 2 : Rat)
def molprobityOff : Rat := (0 : Rat)

/-- factor in the KD-tree query radius `factor * max_radius + molprobity_factor` -/
def kdQueryFactor : Rat := (2 : Rat)

/-- occupancy used for a missing value; whether a zero occupancy is *also* replaced by it
    (`x or 1.0` does, `1.0 if x is None else x` does not) -/
def occDefault : Rat := (1 : Rat)
def occZeroIsMissing : Bool := false

/-- `math.isclose` tolerances in force at the call site -/
def iscloseRelTol : Rat := (1 / 1000000000 : Rat)
def iscloseAbsTol : Rat := (0 : Rat)

/-- does the running per-chain (per-residue) maximum in `main` read the dictionary it writes? -/
def chainMaxReadsOwnDict : Bool := true
def residueMaxReadsOwnDict : Bool := true

end RnaVerif.Gen

-- GENERATED on every run by /verif/tools/gen_tables.py from /repo/src/rnapolis — do not edit

namespace RnaVerif.Gen

/-- `LeontisWesthof` in definition order (the order of the rows of the extended dot-bracket) -/
def mapLwNames : List String := ["cWW", "cWH", "cWS", "cHW", "cHH", "cHS", "cSW", "cSH", "cSS",
   "tWW", "tWH", "tWS", "tHW", "tHH", "tHS", "tSW", "tSH", "tSS"]

def mapLwValues : List String := ["cWW", "cWH", "cWS", "cHW", "cHH", "cHS", "cSW", "cSH", "cSS",
   "tWW", "tWH", "tWS", "tHW", "tHH", "tHS", "tSW", "tSH", "tSS"]

/-- index of `lw.reverse` -/
def mapLwRev : List Nat := [0, 3, 6, 1, 4, 7, 2, 5, 8, 9, 12, 15, 10, 13, 16, 11, 14, 17]

def mapSaengerNames : List String := ["I", "II", "III", "IV", "V", "VI", "VII", "VIII",
   "IX", "X", "XI", "XII", "XIII", "XIV", "XV", "XVI",
   "XVII", "XVIII", "XIX", "XX", "XXI", "XXII", "XXIII", "XXIV",
   "XXV", "XXVI", "XXVII", "XXVIII"]

/-- `Saenger.is_canonical` per member -/
def mapSaengerCanonical : List Bool := [false, false, false, false, false, false, false, false, false, false,
   false, false, false, false, false, false, false, false, true, true,
   false, false, false, false, false, false, false, true]

/-- `BasePair3D.score_table.get(lw, 20)` per member (the `score` property) -/
def mapScoreTable : List Nat := [1, 3, 5, 7, 9, 11, 13, 15, 17, 2, 4, 6, 8, 10, 12, 14, 16, 18]

/-- `BasePair3D.is_canonical` without Saenger class: `lw` must be one of these … -/
def mapCanonLw : List Nat := [0]

/-- … and the sorted upper-cased one-letter names one of these -/
def mapCanonLetters : List (Char × Char) := [('A', 'U'), ('A', 'T'), ('C', 'G'), ('G', 'U')]

/-- first component of the sort key of `pair_scoring_function` in `Mapping2D3D.bpseq` (then `nt1`, `nt2`);
`sa` = index of the Saenger class if any, `(lo, hi)` = sorted upper-cased letters -/
def mapPairScore1 (sa : Option Nat) (lo hi : Char) : Nat :=
  match sa with
  | some s => if [18, 19].contains s then 0 else 1
  | none => if ([('A', 'U'), ('A', 'T'), ('C', 'G')] : List (Char × Char)).contains (lo, hi) then 0 else 1

/-- first component of the sort key of `pair_scoring_function` in `Mapping2D3D._generated_bpseq_data` (then `nt1`, `nt2`);
`sa` = index of the Saenger class if any, `(lo, hi)` = sorted upper-cased letters -/
def mapPairScore2 (sa : Option Nat) (lo hi : Char) : Nat :=
  match sa with
  | some s => if [18, 19].contains s then 0 else 1
  | none => if ([('A', 'U'), ('A', 'T'), ('C', 'G')] : List (Char × Char)).contains (lo, hi) then 0 else 1

/-- `__generate_bpseq`: placeholders are written before a nucleotide iff … (`fg` = find_gaps,
`notFirst` = `j > 0`, `conn` = `previous.is_connected(residue)`, `same` = equal chains) -/
def mapGapCondBpseq (fg notFirst conn same : Bool) : Bool :=
  ((fg && notFirst) && ((!conn) && same))

/-- … `range(count)` of them -/
def mapGapCountBpseq (prev cur : Int) : Int :=
  ((cur - prev) - (1))

def mapGapCharBpseq : Char := '?'

/-- `strands_sequences`: a new strand is opened iff … -/
def mapNewStrand (same : Bool) : Bool :=
  (!same)

/-- … otherwise placeholders are written iff … -/
def mapGapCondStrands (fg conn same : Bool) : Bool :=
  ((!(!same)) && fg && (!conn))

def mapGapCountStrands (prev cur : Int) : Int :=
  ((cur - prev) - (1))

def mapGapCharStrands : Char := '?'

/-- `is_connected`: O3'…P distance `<` (strict = True) `mapConnFactor * mapConnOP` -/
def mapConnFactor : Rat := (3 / 2 : Rat)
def mapConnOP : Rat := (8 / 5 : Rat)
def mapConnStrict : Bool := true

/-- rows per Leontis-Westhof class in `extended_dot_bracket`: `some k` = the first k-1 rows are filled
greedily and the k-th takes everything left; `none` = greedy, as many rows as needed -/
def mapExtRowLimit : Option Nat := none

end RnaVerif.Gen

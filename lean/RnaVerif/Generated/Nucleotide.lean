-- GENERATED on every run by /verif/tools/gen_tables.py from /repo/src/rnapolis — do not edit

namespace RnaVerif.Gen

/-- `distance_threshold` of `Residue3D.is_nucleotide` (comparisons are `<=`) -/
def nuclConnThreshold : Rat := (2 : Rat)

/-- the atom pairs whose distance `is_nucleotide` may compare with it -/
def nuclConnPairs : List (String × String) := [("P", "O5'"), ("C1'", "N9"), ("C1'", "N1")]

/-- `is_connected(next)`: atom of this residue, atom of the next one -/
def linkAtoms : String × String := ("O3'", "P")

end RnaVerif.Gen

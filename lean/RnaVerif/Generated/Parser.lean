-- GENERATED on every run by /verif/tools/gen_tables.py from /repo/src/rnapolis — do not edit

namespace RnaVerif.Gen.Parser

/-- `line.startswith(..)` tests of `parse_pdb`, in the order of the if/elif chain -/
def pdbRecordTests : List String := ["MODEL", "ATOM", "HETATM", "MODRES"]

/-! column slices `line[lo:hi]` of the ATOM/HETATM branch (single index `line[i]` = `(i, i+1)`, and
`…IsIndex` tells that a too short line raises IndexError instead of giving an empty slice) -/
def pdbAtomName : Nat × Nat := (12, 16)
def pdbResName : Nat × Nat := (17, 20)
def pdbChain : Nat × Nat := (21, 22)
def pdbResNum : Nat × Nat := (22, 26)
def pdbIcode : Nat × Nat := (26, 27)
def pdbX : Nat × Nat := (30, 38)
def pdbY : Nat × Nat := (38, 46)
def pdbZ : Nat × Nat := (46, 54)
def pdbOcc : Nat × Nat := (54, 60)
def pdbChainIsIndex : Bool := true
def pdbIcodeIsIndex : Bool := true
/-- the insertion-code column value that means "no insertion code" -/
def pdbIcodeBlank : String := " "
def pdbModelNum : Nat × Nat := (10, 14)

/-! MODRES branch: original name, chain (index), number, insertion code (index), standard name -/
def modresName : Nat × Nat := (12, 15)
def modresChain : Nat × Nat := (16, 17)
def modresNum : Nat × Nat := (18, 22)
def modresIcode : Nat × Nat := (23, 24)
def modresStd : Nat × Nat := (24, 27)

/-- default of `filter_clashing_atoms(clash_distance=…)` -/
def clashDistance : Rat := (1 / 2 : Rat)
/-- the same value as numerator / denominator (repr-exact) -/
def clashNum : Nat := 1
def clashDen : Nat := 2
/-- attributes of `Atom` in the tuple used as de-duplication key -/
def dedupKey : List String := ["model", "label", "auth", "name"]
/-- clashing pairs are only considered inside one model -/
def clashSameModel : Bool := true
/-- comparing occupancies of two copies tolerates an absent occupancy (else: TypeError) -/
def occNoneSafe : Bool := true

/-- `_atom_site` attributes read by `parse_cif`, in source order -/
def cifAttrs : List String := ["label_entity_id", "label_asym_id", "label_seq_id", "label_comp_id",
   "auth_asym_id", "auth_seq_id", "auth_comp_id", "pdbx_PDB_ins_code",
   "pdbx_PDB_model_num", "label_atom_id", "Cartn_x", "Cartn_y",
   "Cartn_z", "occupancy"]
/-- values of `pdbx_PDB_ins_code` read as "no insertion code" -/
def cifIcodeNull : List String := ["?", "."]
/-- values of `occupancy` read as "no occupancy" -/
def cifOccNull : List String := ["?", "."]
def cifModelDefault : String := "1"
/-- a row without label_seq_id and without auth_comp_id gets an auth identity named by label_comp_id
(else it is skipped) -/
def cifAuthNameFallback : Bool := true

end RnaVerif.Gen.Parser

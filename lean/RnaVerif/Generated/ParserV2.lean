-- GENERATED on every run by /verif/tools/gen_tables.py from /repo/src/rnapolis — do not edit

import RnaVerif.Model.PdbBase
namespace RnaVerif.Gen.ParserV2
open RnaVerif.Pdb

/-- `parse_pdb_atoms`: half-open column slice `line[a:b]` of every field -/
def readerSlices : List (Field × Nat × Nat) :=
  [(.record, 0, 6), (.serial, 6, 11), (.name, 12, 16), (.altLoc, 16, 17), (.resName, 17, 20),
   (.chain, 21, 22), (.resSeq, 22, 26), (.iCode, 26, 27), (.x, 30, 38), (.y, 38, 46),
   (.z, 46, 54), (.occ, 54, 60), (.b, 60, 66), (.element, 76, 78), (.charge, 78, 80)]

/-- `parse_pdb_atoms`: slice of the model number in a MODEL record -/
def modelSlice : Nat × Nat := (10, 14)

def recordNames : List (List Char) := [['A', 'T', 'O', 'M'], ['H', 'E', 'T', 'A', 'T', 'M']]

/-- fields stored as None when the slice is blank -/
def noneIfBlank : List Field := [.altLoc, .iCode, .element, .charge]

/-- `_format_pdb_atom_line`: rendering of every field -/
def writerFmt : List (Field × Fmt) :=
  [(.record, (.text .left 6 none false)), (.serial, (.int .right 5)), (.name, (.atomName 4 4)),
   (.altLoc, (.text .left 1 (some 1) false)), (.resName, (.text .right 3 none false)), (.chain, (.text .left 1 (some 1) false)),
   (.resSeq, (.int .right 4)), (.iCode, (.text .left 1 (some 1) false)), (.x, (.fixed 8 3)),
   (.y, (.fixed 8 3)), (.z, (.fixed 8 3)), (.occ, (.fixed 6 2)),
   (.b, (.fixed 6 2)), (.element, (.text .right 2 none false)), (.charge, (.charge 2 2))]

/-- `_format_pdb_atom_line`: the f-string the line is assembled from -/
def lineTemplate : List Piece :=
  [(.fld .record), (.fld .serial), (.lit [' ']), (.fld .name),
   (.fld .altLoc), (.fld .resName), (.lit [' ']), (.fld .chain),
   (.fld .resSeq), (.fld .iCode), (.lit [' ', ' ', ' ']), (.fld .x),
   (.fld .y), (.fld .z), (.fld .occ), (.fld .b),
   (.lit [' ', ' ', ' ', ' ', ' ', ' ', ' ', ' ', ' ', ' ']), (.fld .element), (.fld .charge)]

def lineWidth : Nat := 80

/-- `write_pdb`: the TER record (`serial` stands for last serial + 1) -/
def terTemplate : List Piece :=
  [(.lit ['T', 'E', 'R', ' ', ' ', ' ']), (.fld .serial), (.lit [' ', ' ', ' ', ' ', ' ', ' ']), (.fld .resName),
   (.lit [' ']), (.fld .chain), (.fld .resSeq), (.fld .iCode)]

def terFmt : List (Field × Fmt) :=
  [(.serial, (.int .right 5)), (.resName, (.text .right 3 none true)), (.chain, (.text .left 0 none false)),
   (.resSeq, (.int .right 4)), (.iCode, (.text .left 0 none false))]

def terWidth : Nat := 80

def modelPrefix : List Char := ['M', 'O', 'D', 'E', 'L', ' ', ' ', ' ', ' ', ' ']

def modelWidth : Nat := 4

/-- `write_pdb`: on a change of model, is the open chain closed with a TER before ENDMDL is written? -/
def terBeforeEndmdl : Bool := true

/-- `write_pdb` on a mmCIF-derived table: columns each field is taken from, in order of preference -/
def cifReadCols : List (Field × List String) :=
  [(.record, ["group_PDB"]), (.serial, ["id"]),
   (.name, ["auth_atom_id", "label_atom_id"]), (.altLoc, ["label_alt_id"]),
   (.resName, ["auth_comp_id", "label_comp_id"]), (.chain, ["auth_asym_id", "label_asym_id"]),
   (.resSeq, ["auth_seq_id", "label_seq_id"]), (.iCode, ["pdbx_PDB_ins_code"]),
   (.x, ["Cartn_x"]), (.y, ["Cartn_y"]),
   (.z, ["Cartn_z"]), (.occ, ["occupancy"]),
   (.b, ["B_iso_or_equiv"]), (.element, ["type_symbol"]),
   (.charge, ["pdbx_formal_charge"]), (.model, ["pdbx_PDB_model_num"])]

/-- `can_write_pdb`: a mmCIF-derived table fits iff max id ≤ , max chain-id length ≤ , max number ≤ -/
def canWriteMaxSerial : Nat := 99999
def canWriteMaxChainLen : Nat := 1
def canWriteMaxResSeq : Nat := 9999

/-- `can_write_pdb`, branch `format_type == "PDB"`: `true` = it returns True without looking at the table;
`false` = it compares serial / chainID length / resSeq with the three limits below (when the table is assumed to
fit the limits are not in the source and are emitted equal to the mmCIF ones, unused) -/
def pdbAssumedToFit : Bool := false
def canWritePdbMaxSerial : Nat := 99999
def canWritePdbMaxChainLen : Nat := 1
def canWritePdbMaxResSeq : Nat := 9999

/-- `fit_to_pdb` -/
def maxSerial : Nat := 99999
def maxResSeq : Nat := 9999
def chainAlphabet : List Char := ['A', 'B', 'C', 'D', 'E', 'F', 'G', 'H', 'I', 'J', 'K', 'L', 'M', 'N', 'O', 'P', 'Q', 'R', 'S', 'T', 'U', 'V', 'W', 'X', 'Y', 'Z', 'a', 'b', 'c', 'd', 'e', 'f', 'g', 'h', 'i', 'j', 'k', 'l', 'm', 'n', 'o', 'p', 'q', 'r', 's', 't', 'u', 'v', 'w', 'x', 'y', 'z', '0', '1', '2', '3', '4', '5', '6', '7', '8', '9']

/-- the tests of `fit_to_pdb` that raise ValueError (source text; all strict `>`) -/
def fitRaising : List String := ["total_atoms + num_chains > max_pdb_serial",
   "num_chains > max_pdb_chains",
   "max_residues_per_chain > max_pdb_residue",
   "current_serial > max_pdb_serial"]

def fitCifCols : List (Field × String) := [(.serial, "id"), (.chain, "auth_asym_id"), (.resSeq, "auth_seq_id"), (.iCode, "pdbx_PDB_ins_code")]

def renameMap : List (String × String) :=
  [("id", "serial"), ("auth_asym_id", "chainID"), ("auth_seq_id", "resSeq"),
   ("pdbx_PDB_ins_code", "iCode"), ("label_alt_id", "altLoc"), ("label_atom_id", "name"),
   ("label_comp_id", "resName"), ("type_symbol", "element"), ("pdbx_formal_charge", "charge"),
   ("Cartn_x", "x"), ("Cartn_y", "y"), ("Cartn_z", "z"),
   ("B_iso_or_equiv", "tempFactor"), ("group_PDB", "record_type"), ("pdbx_PDB_model_num", "model"),
   ("auth_atom_id", "name"), ("auth_comp_id", "resName")]

/-- `write_cif` on a PDB-derived table: attribute list and where each value comes from -/
def cifAttributes : List String :=
  ["group_PDB", "id", "type_symbol", "label_atom_id",
   "label_alt_id", "label_comp_id", "label_asym_id", "label_entity_id",
   "label_seq_id", "pdbx_PDB_ins_code", "Cartn_x", "Cartn_y",
   "Cartn_z", "occupancy", "B_iso_or_equiv", "pdbx_formal_charge",
   "auth_seq_id", "auth_comp_id", "auth_asym_id", "auth_atom_id",
   "pdbx_PDB_model_num"]

def cifSources : List CifSrc :=
  [(.col .record), (.col .serial), (.col .element), (.col .name), (.col .altLoc), (.col .resName),
   (.col .chain), (.const ['1']), (.col .resSeq), (.col .iCode), (.col .x), (.col .y),
   (.col .z), (.col .occ), (.col .b), (.col .charge), (.col .resSeq), (.col .resName),
   (.col .chain), (.col .name), (.col .model)]

/-- marker written for a missing optional field -/
def cifWriteNull : List (Field × List Char) := [(.altLoc, ['.']), (.iCode, ['.']), (.element, ['?']), (.charge, ['.'])]

/-- `write_cif`: is the PDB charge text (`2+`) rewritten as the signed integer (`2`, `-1`) mmCIF expects? -/
def cifChargeSigned : Bool := true

def cifDecimals : List (Field × Nat) := [(.x, 3), (.y, 3), (.z, 3), (.occ, 2), (.b, 2)]

/-- marker `write_cif` uses for a missing value of a mmCIF-derived table -/
def cifWriteNullCif : List Char := ['?']

/-- `parse_cif_atoms`: tokens read as missing -/
def cifReadNulls : List (List Char) := [['?'], ['.']]

/-- `parse_cif_atoms`: of the columns used here, those converted with `to_numeric(errors=coerce)` to Int64 / float -/
def cifIntCols : List String := ["label_seq_id", "pdbx_PDB_model_num", "pdbx_formal_charge"]

def cifFloatCols : List String := ["B_iso_or_equiv", "Cartn_x", "Cartn_y", "Cartn_z", "occupancy"]

end RnaVerif.Gen.ParserV2

-- GENERATED on every run by /verif/tools/gen_tables.py from /repo/src/rnapolis — do not edit

namespace RnaVerif.Gen.Readers

/-- `tertiary.Residue3D.is_connected`: distance(`v1ConnAtomPrev` of this residue, `v1ConnAtomNext` of the candidate) `<` (strict = True)
`v1ConnFactor * v1ConnOP`; `false` when one of the two atoms is missing -/
def v1ConnFactor : Rat := (3 / 2 : Rat)
def v1ConnOP : Rat := (8 / 5 : Rat)
def v1ConnStrict : Bool := true
def v1ConnAtomPrev : String := "O3'"
def v1ConnAtomNext : String := "P"

/-- `tertiary_v2.Residue.is_connected`: distance(`v2ConnAtomPrev` of this residue, `v2ConnAtomNext` of the candidate) `<` (strict = True)
`v2ConnFactor * v2ConnOP`; `false` when one of the two atoms is missing -/
def v2ConnFactor : Rat := (3 / 2 : Rat)
def v2ConnOP : Rat := (8 / 5 : Rat)
def v2ConnStrict : Bool := true
def v2ConnAtomPrev : String := "O3'"
def v2ConnAtomNext : String := "P"

/-- `tertiary_v2.Structure.residues`: `groupby` columns of a PDB-derived frame -/
def v2GroupPdb : List String := ["chainID", "resSeq", "iCode"]
/-- … of an mmCIF-derived frame that has the auth_* columns (preferred), and the label_* fall-back -/
def v2GroupCifAuth : List String := ["auth_asym_id", "auth_seq_id", "pdbx_PDB_ins_code"]
def v2GroupCifLabel : List String := ["label_asym_id", "label_seq_id", "pdbx_PDB_ins_code"]
/-- groups come out sorted by key (no `sort=False`); rows with a missing key component are kept (`dropna=False`) -/
def v2GroupSorted : Bool := true
def v2GroupDropna : Bool := false

/-- `tertiary_v2.Residue` / `Atom` accessors: (name, column in a PDB-derived frame, columns of an mmCIF-derived
frame in order of preference) -/
def v2Cols : List (String × List String × List String) :=
  [("chain_id", ["chainID"], ["auth_asym_id", "label_asym_id"]),
   ("residue_number", ["resSeq"], ["auth_seq_id", "label_seq_id"]),
   ("insertion_code", ["iCode"], ["pdbx_PDB_ins_code"]),
   ("residue_name", ["resName"], ["auth_comp_id", "label_comp_id"]),
   ("find_atom", ["name"], ["auth_atom_id", "label_atom_id"]),
   ("coordinates", ["x", "y", "z"], ["Cartn_x", "Cartn_y", "Cartn_z"])]

/-- `tertiary_v2.Structure.connected_residues`: a segment is reported iff it has at least this many residues -/
def v2MinSegment : Nat := 2

end RnaVerif.Gen.Readers

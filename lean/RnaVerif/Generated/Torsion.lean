-- GENERATED on every run by /verif/tools/gen_tables.py from /repo/src/rnapolis — do not edit

namespace RnaVerif.Gen.Tor

/-- tertiary.calculate_torsion_angle_coords: `norm(v) > eps` guards of the three normalisations -/
def v1NormEps : Rat := (1 / 1000000 : Rat)
/-- tertiary.calculate_torsion_angle_coords: `norm(t1) < eps or norm(t2) < eps` returns `v1DegenerateValue` -/
def v1CrossEps : Rat := (1 / 1000000 : Rat)
def v1DegenerateValue : Rat := (0 : Rat)
def v1ClipLo : Rat := (-1 : Rat)
def v1ClipHi : Rat := (1 : Rat)
/-- tertiary_v2.calculate_torsion_angle: `n1_norm < eps or n2_norm < eps` returns nan -/
def v2CrossEps : Rat := (1 / 1000000 : Rat)

def v1ChiPurine : List String := ["O4'", "C1'", "N9", "C4"]
def v1ChiPyrimidine : List String := ["O4'", "C1'", "N1", "C2"]
def v1PurineLetters : List String := ["A", "G"]
def v1PyrimidineLetters : List String := ["C", "U", "T"]
/-- Residue3D.chi_class: syn iff radians(lo) < chi < radians(hi) (degrees) -/
def v1SynLoDeg : Rat := (-30 : Rat)
def v1SynHiDeg : Rat := (120 : Rat)

def v2ChiPurine : List String := ["O4'", "C1'", "N9", "C4"]
def v2ChiPyrimidine : List String := ["O4'", "C1'", "N1", "C2"]
def v2PurineNames : List String := ["A", "G", "DA", "DG"]
def v2PyrimidineNames : List String := ["C", "U", "T", "DC", "DT"]
/-- tertiary_v2 torsion_definitions: name, four (atom, residue offset) -/
def v2Definitions : List (String × List (String × Int)) :=
  [("alpha", [("O3'", (-1 : Int)), ("P", (0 : Int)), ("O5'", (0 : Int)), ("C5'", (0 : Int))]),
   ("beta", [("P", (0 : Int)), ("O5'", (0 : Int)), ("C5'", (0 : Int)), ("C4'", (0 : Int))]),
   ("gamma", [("O5'", (0 : Int)), ("C5'", (0 : Int)), ("C4'", (0 : Int)), ("C3'", (0 : Int))]),
   ("delta", [("C5'", (0 : Int)), ("C4'", (0 : Int)), ("C3'", (0 : Int)), ("O3'", (0 : Int))]),
   ("epsilon", [("C4'", (0 : Int)), ("C3'", (0 : Int)), ("O3'", (0 : Int)), ("P", (1 : Int))]),
   ("zeta", [("C3'", (0 : Int)), ("O3'", (0 : Int)), ("P", (1 : Int)), ("O5'", (1 : Int))])]
def v2SeparateAngles : List String := ["chi"]

end RnaVerif.Gen.Tor

-- GENERATED on every run by /verif/tools/gen_tables.py from /repo/src/rnapolis — do not edit

namespace RnaVerif.Gen

/-- default argument of the library function (live object) -/
def trDefaultCopyCategory : String := "atom_site"

/-- default argument of the library function (live object) -/
def trDefaultCopyFrom : String := "label_asym_id"

/-- default argument of the library function (live object) -/
def trDefaultCopyTo : String := "auth_asym_id"

/-- default argument of the library function (live object) -/
def trDefaultReplaceCategory : String := "atom_site"

/-- default argument of the library function (live object) -/
def trDefaultReplaceColumn : String := "auth_asym_id"

/-- default argument of the library function (live object) -/
def trDefaultValues : String := "0123456789abcdefghijklmnopqrstuvwxyzABCDEFGHIJKLMNOPQRSTUVWXYZ!\"#$%&'()*+,-./:;<=>?@[\\]^_`{|}~"

/-- positional arguments and option strings of `main`, in declaration order -/
def cliOptions : List String :=
  ["input", "output", "--category", "--copy-from", "--copy-to", "--replace", "--values"]

/-- `open(args.input …)` precedes the mode dispatch -/
def cliReadsFirst : Bool := true

/-- `copy_from_to` is called with `args.input` (the path) as file content -/
def cliCopyPassesPath : Bool := false

/-- `replace_value` is called with `args.input` (the path) as file content -/
def cliReplacePassesPath : Bool := false

/-- the `(text, mapping)` tuple returned by `replace_value` is given to `write` -/
def cliReplaceWritesTuple : Bool := false

end RnaVerif.Gen

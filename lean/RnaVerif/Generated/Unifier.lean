-- GENERATED on every run by /verif/tools/gen_tables.py from /repo/src/rnapolis — do not edit

namespace RnaVerif.Gen.Unifier

/-- `residue.residue_name not in "…"` (a *substring* test) -/
def nameTest : String := "ACGU"
/-- `valid_names[~valid_names.str.startswith("…")]` -/
def hydrogenPrefix : String := "H"
/-- is the frame handed to `write_pdb` the value of `fit_to_pdb(…)`? -/
def unifierFitsBeforeWrite : Bool := true
def splitterFitsBeforeWrite : Bool := true

/-- `load_components()`: residue name ↦ rows (atom_id, alt_atom_id) of `component_<name>.csv` in file order -/
def components : List (String × List (String × String)) :=
  [("A",
    [("OP3", "O3P"), ("P", "P"), ("OP1", "O1P"), ("OP2", "O2P"), ("O5'", "O5*"), ("C5'", "C5*"),
     ("C4'", "C4*"), ("O4'", "O4*"), ("C3'", "C3*"), ("O3'", "O3*"), ("C2'", "C2*"), ("O2'", "O2*"),
     ("C1'", "C1*"), ("N9", "N9"), ("C8", "C8"), ("N7", "N7"), ("C5", "C5"), ("C6", "C6"),
     ("N6", "N6"), ("N1", "N1"), ("C2", "C2"), ("N3", "N3"), ("C4", "C4"), ("HOP3", "3HOP"),
     ("HOP2", "2HOP"), ("H5'", "1H5*"), ("H5''", "2H5*"), ("H4'", "H4*"), ("H3'", "H3*"), ("HO3'", "H3T"),
     ("H2'", "H2*"), ("HO2'", "2HO*"), ("H1'", "H1*"), ("H8", "H8"), ("H61", "1H6"), ("H62", "2H6"),
     ("H2", "H2")]),
   ("C",
    [("OP3", "O3P"), ("P", "P"), ("OP1", "O1P"), ("OP2", "O2P"), ("O5'", "O5*"), ("C5'", "C5*"),
     ("C4'", "C4*"), ("O4'", "O4*"), ("C3'", "C3*"), ("O3'", "O3*"), ("C2'", "C2*"), ("O2'", "O2*"),
     ("C1'", "C1*"), ("N1", "N1"), ("C2", "C2"), ("O2", "O2"), ("N3", "N3"), ("C4", "C4"),
     ("N4", "N4"), ("C5", "C5"), ("C6", "C6"), ("HOP3", "3HOP"), ("HOP2", "2HOP"), ("H5'", "1H5*"),
     ("H5''", "2H5*"), ("H4'", "H4*"), ("H3'", "H3*"), ("HO3'", "H3T"), ("H2'", "H2*"), ("HO2'", "2HO*"),
     ("H1'", "H1*"), ("H41", "1H4"), ("H42", "2H4"), ("H5", "H5"), ("H6", "H6")]),
   ("G",
    [("OP3", "O3P"), ("P", "P"), ("OP1", "O1P"), ("OP2", "O2P"), ("O5'", "O5*"), ("C5'", "C5*"),
     ("C4'", "C4*"), ("O4'", "O4*"), ("C3'", "C3*"), ("O3'", "O3*"), ("C2'", "C2*"), ("O2'", "O2*"),
     ("C1'", "C1*"), ("N9", "N9"), ("C8", "C8"), ("N7", "N7"), ("C5", "C5"), ("C6", "C6"),
     ("O6", "O6"), ("N1", "N1"), ("C2", "C2"), ("N2", "N2"), ("N3", "N3"), ("C4", "C4"),
     ("HOP3", "3HOP"), ("HOP2", "2HOP"), ("H5'", "1H5*"), ("H5''", "2H5*"), ("H4'", "H4*"), ("H3'", "H3*"),
     ("HO3'", "H3T"), ("H2'", "H2*"), ("HO2'", "2HO*"), ("H1'", "H1*"), ("H8", "H8"), ("H1", "H1"),
     ("H21", "1H2"), ("H22", "2H2")]),
   ("U",
    [("OP3", "O3P"), ("P", "P"), ("OP1", "O1P"), ("OP2", "O2P"), ("O5'", "O5*"), ("C5'", "C5*"),
     ("C4'", "C4*"), ("O4'", "O4*"), ("C3'", "C3*"), ("O3'", "O3*"), ("C2'", "C2*"), ("O2'", "O2*"),
     ("C1'", "C1*"), ("N1", "N1"), ("C2", "C2"), ("O2", "O2"), ("N3", "N3"), ("C4", "C4"),
     ("O4", "O4"), ("C5", "C5"), ("C6", "C6"), ("HOP3", "3HOP"), ("HOP2", "2HOP"), ("H5'", "1H5*"),
     ("H5''", "2H5*"), ("H4'", "H4*"), ("H3'", "H3*"), ("HO3'", "H3T"), ("H2'", "H2*"), ("HO2'", "2HO*"),
     ("H1'", "H1*"), ("H3", "H3"), ("H5", "H5"), ("H6", "H6")])]

end RnaVerif.Gen.Unifier

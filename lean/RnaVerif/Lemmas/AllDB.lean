import RnaVerif.Lemmas.Greedy
import RnaVerif.Lemmas.Perms
/-! # `all_dot_brackets` enumerates exactly the Grundy colourings of the conflict graph
(helper lemmas for C16; core Lean only) -/
namespace RnaVerif.SecStr.AllDB

/-! ### the adjacency built by the code is symmetric and irreflexive, whatever the conflict test -/

theorem adjOf_symm (c : ConfPred) (regs : List Region) (u v : Nat) :
    adjOf c regs u v = adjOf c regs v u := by
  unfold adjOf
  cases regs[u]? <;> cases regs[v]? <;> simp only
  rcases Nat.lt_trichotomy u v with h | h | h
  · have h' : ¬ v < u := by omega
    simp [h, h']
  · subst h; simp
  · have h' : ¬ u < v := by omega
    simp [h, h']

theorem adjOf_irrefl (c : ConfPred) (regs : List Region) (u : Nat) : adjOf c regs u u = false := by
  unfold adjOf
  cases regs[u]? <;> simp

theorem adjOf_lt {c : ConfPred} {regs : List Region} {u v : Nat} (h : adjOf c regs u v = true) :
    u < regs.length ∧ v < regs.length := by
  unfold adjOf at h
  cases hu : regs[u]? with
  | none => rw [hu] at h; simp at h
  | some a =>
    cases hv : regs[v]? with
    | none => rw [hu, hv] at h; simp at h
    | some b =>
      have h1 := (List.getElem?_eq_some_iff.mp hu).1
      have h2 := (List.getElem?_eq_some_iff.mp hv).1
      exact ⟨h1, h2⟩

/-! ### Grundy colourings of an induced subgraph -/

/-- `f` restricted to `part` is a Grundy colouring of the subgraph induced on `part`: proper, and
every level below `f v` occurs at a neighbour of `v` inside `part` -/
def GrundyOn (adj : Nat → Nat → Bool) (part : List Nat) (f : Nat → Nat) : Prop :=
  (∀ u ∈ part, ∀ v ∈ part, adj u v = true → f u ≠ f v) ∧
  (∀ v ∈ part, ∀ d, d < f v → ∃ u ∈ part, adj u v = true ∧ f u = d)

theorem GrundyOn.congr {adj : Nat → Nat → Bool} {part : List Nat} {f g : Nat → Nat}
    (h : ∀ v ∈ part, f v = g v) (hf : GrundyOn adj part f) : GrundyOn adj part g := by
  refine ⟨?_, ?_⟩
  · intro u hu v hv ha
    rw [← h u hu, ← h v hv]; exact hf.1 u hu v hv ha
  · intro v hv d hd
    rw [← h v hv] at hd
    obtain ⟨u, hu, ha, he⟩ := hf.2 v hv d hd
    exact ⟨u, hu, ha, by rw [← h u hu]; exact he⟩

theorem GrundyOn.perm {adj : Nat → Nat → Bool} {p q : List Nat} {f : Nat → Nat}
    (h : ∀ v, v ∈ p ↔ v ∈ q) (hf : GrundyOn adj p f) : GrundyOn adj q f := by
  refine ⟨?_, ?_⟩
  · intro u hu v hv ha
    exact hf.1 u ((h u).mpr hu) v ((h v).mpr hv) ha
  · intro v hv d hd
    obtain ⟨u, hu, ha, he⟩ := hf.2 v ((h v).mpr hv) d hd
    exact ⟨u, (h u).mp hu, ha, he⟩

/-- the executable `grundy` test says: Grundy colouring of the whole graph on `0..n-1` -/
theorem grundy_iff (adj : Nat → Nat → Bool) (lv : List Nat) :
    grundy adj lv = true ↔ GrundyOn adj (List.range lv.length) (fun v => lv.getD v 0) := by
  simp only [grundy, proper, GrundyOn, Bool.and_eq_true, List.all_eq_true, List.any_eq_true,
    List.mem_range, Bool.or_eq_true, Bool.not_eq_true', bne_iff_ne, beq_iff_eq, ne_eq]
  constructor
  · rintro ⟨h1, h2⟩
    refine ⟨?_, ?_⟩
    · intro u hu v hv ha
      rcases h1 u hu v hv with h | h
      · rw [ha] at h; cases h
      · exact h
    · intro v hv d hd
      obtain ⟨u, hu, ha, he⟩ := h2 v hv d hd
      exact ⟨u, hu, ha, he⟩
  · rintro ⟨h1, h2⟩
    refine ⟨?_, ?_⟩
    · intro u hu v hv
      cases ha : adj u v
      · left; rfl
      · right; exact h1 u hu v hv ha
    · intro v hv d hd
      obtain ⟨u, hu, ha, he⟩ := h2 v hv d hd
      exact ⟨u, hu, ha, he⟩

/-! ### `lookup` in association lists -/

theorem lookup_cons (p : Nat × Nat) (l : List (Nat × Nat)) (v : Nat) :
    lookup (p :: l) v = if p.1 = v then p.2 else lookup l v := by
  unfold lookup
  rw [List.find?_cons]
  by_cases h : p.1 = v
  · simp [h]
  · have : (p.1 == v) = false := by simpa using h
    simp [this, h]

theorem lookup_of_not_mem : ∀ {l : List (Nat × Nat)} {v : Nat}, v ∉ l.map (·.1) → lookup l v = 0 := by
  intro l
  induction l with
  | nil => intro v _; rfl
  | cons p l ih =>
    intro v h
    simp only [List.map_cons, List.mem_cons, not_or] at h
    rw [lookup_cons, if_neg (fun e => h.1 e.symm)]
    exact ih h.2

theorem lookup_of_mem : ∀ {l : List (Nat × Nat)} {v x : Nat}, (l.map (·.1)).Nodup → (v, x) ∈ l →
    lookup l v = x := by
  intro l
  induction l with
  | nil => intro v x _ h; cases h
  | cons p l ih =>
    intro v x hn h
    simp only [List.map_cons, List.nodup_cons] at hn
    rw [lookup_cons]
    rcases List.mem_cons.mp h with rfl | h
    · simp
    · have : p.1 ≠ v := by
        intro e
        apply hn.1
        rw [e]
        exact List.mem_map.mpr ⟨(v, x), h, rfl⟩
      rw [if_neg this]
      exact ih hn.2 h

theorem lookup_map (f : Nat → Nat) : ∀ {l : List Nat} {v : Nat}, v ∈ l →
    lookup (l.map fun u => (u, f u)) v = f v := by
  intro l
  induction l with
  | nil => intro v h; cases h
  | cons u l ih =>
    intro v h
    rw [List.map_cons, lookup_cons]
    by_cases e : u = v
    · simp [e]
    · simp only [e, if_false]
      rcases List.mem_cons.mp h with rfl | h
      · exact absurd rfl e
      · exact ih h

/-! ### the assignments of one part are exactly its Grundy colourings -/

theorem partAssignments_exact (adj : Nat → Nat → Bool) (hs : ∀ u v, adj u v = adj v u)
    (hi : ∀ u, adj u u = false) (part : List Nat) (hnd : part.Nodup) (a : List (Nat × Nat)) :
    a ∈ partAssignments adj part ↔
      ∃ f : Nat → Nat, GrundyOn adj part f ∧ a = part.map (fun v => (v, f v)) := by
  unfold partAssignments
  rw [mem_dedupFirst, List.mem_map]
  constructor
  · rintro ⟨π, hπ, rfl⟩
    have hperm := mem_perms.mp hπ
    obtain ⟨hP, hG, hK⟩ := greedy_is_grundy adj π
    have hπnd : π.Nodup := (List.Perm.nodup_iff hperm).mpr hnd
    have hknd : ((greedy adj π).map (·.1)).Nodup := by rw [hK]; exact hπnd
    have hlk : ∀ p ∈ greedy adj π, lookup (greedy adj π) p.1 = p.2 := by
      intro p hp; exact lookup_of_mem hknd hp
    have hex : ∀ v ∈ part, ∃ p ∈ greedy adj π, p.1 = v := by
      intro v hv
      have : v ∈ (greedy adj π).map (·.1) := by rw [hK]; exact hperm.symm.subset hv
      obtain ⟨p, hp, e⟩ := List.mem_map.mp this
      exact ⟨p, hp, e⟩
    have hkey : ∀ p ∈ greedy adj π, p.1 ∈ part := by
      intro p hp
      have : p.1 ∈ (greedy adj π).map (·.1) := List.mem_map_of_mem hp
      rw [hK] at this
      exact hperm.subset this
    refine ⟨lookup (greedy adj π), ⟨?_, ?_⟩, rfl⟩
    · intro u hu v hv ha
      obtain ⟨p, hp, rfl⟩ := hex u hu
      obtain ⟨q, hq, rfl⟩ := hex v hv
      rw [hlk p hp, hlk q hq]
      have hall := List.Pairwise.forall_of_forall_of_flip
        (R := fun p q : Nat × Nat => adj p.1 q.1 = true → p.2 ≠ q.2)
        (l := greedy adj π)
        (by intro x _ hx; rw [hi] at hx; cases hx) hP
        (by
          refine List.Pairwise.imp ?_ hP
          intro x y h hyx
          rw [hs] at hyx
          exact fun e => h hyx e.symm)
      exact hall hp hq ha
    · intro v hv d hd
      obtain ⟨p, hp, rfl⟩ := hex v hv
      rw [hlk p hp] at hd
      obtain ⟨q, hq, ha, he⟩ := hG p hp d hd
      exact ⟨q.1, hkey q hq, ha, by rw [hlk q hq]; exact he⟩
  · rintro ⟨f, hf, rfl⟩
    refine ⟨sortBy f part, mem_perms.mpr (sortBy_perm f part), ?_⟩
    have hmem : ∀ v, v ∈ sortBy f part ↔ v ∈ part := fun v => (sortBy_perm f part).mem_iff
    have hf' := GrundyOn.perm (fun v => (hmem v).symm) hf
    have hg := grundy_is_greedy adj f (sortBy f part) (sortBy_sorted f part) hf'.1 hf'.2
    simp only [hg]
    apply List.map_congr_left
    intro v hv
    rw [lookup_map f ((hmem v).mpr hv)]

/-! ### parts: checked, hence closed -/

theorem degree_pos_iff (adj : Nat → Nat → Bool) (n v : Nat) :
    0 < degree adj n v ↔ ∃ u, u < n ∧ adj u v = true := by
  unfold degree
  rw [List.length_pos_iff_exists_mem]
  simp only [List.mem_filter, List.mem_range]

theorem degree_zero_iff (adj : Nat → Nat → Bool) (n v : Nat) :
    degree adj n v = 0 ↔ ∀ u, u < n → adj u v = false := by
  have := degree_pos_iff adj n v
  constructor
  · intro h u hu
    cases ha : adj u v
    · rfl
    · have := this.mpr ⟨u, hu, ha⟩; omega
  · intro h
    apply Nat.eq_zero_of_not_pos
    intro hp
    obtain ⟨u, hu, ha⟩ := this.mp hp
    rw [h u hu] at ha; cases ha

/-- what the model checks about its parts: no edge between different parts, and the flattened
parts list every vertex of positive degree exactly once (and nothing else) -/
structure PartsOK (adj : Nat → Nat → Bool) (n : Nat) (ps : List (List Nat)) : Prop where
  noCross : ∀ p ∈ ps, ∀ q ∈ ps, p ≠ q → ∀ u ∈ p, ∀ v ∈ q, adj u v = false
  mem_iff : ∀ v, v ∈ ps.flatten ↔ v < n ∧ 0 < degree adj n v
  nodup : ps.flatten.Nodup

theorem noCrossEdges_iff (adj : Nat → Nat → Bool) (ps : List (List Nat)) :
    noCrossEdges adj ps = true ↔
      ∀ p ∈ ps, ∀ q ∈ ps, p ≠ q → ∀ u ∈ p, ∀ v ∈ q, adj u v = false := by
  simp only [noCrossEdges, List.all_eq_true, Bool.or_eq_true, beq_iff_eq, Bool.not_eq_true']
  constructor
  · intro h p hp q hq hne u hu v hv
    rcases h p hp q hq with e | e
    · exact absurd e hne
    · exact e u hu v hv
  · intro h p hp q hq
    by_cases e : p = q
    · left; exact e
    · right; exact h p hp q hq e

theorem isPartition_iff (verts : List Nat) (_hv : verts.Nodup) (ps : List (List Nat)) :
    isPartition verts ps = true ↔ (∀ v, v ∈ ps.flatten ↔ v ∈ verts) ∧ ps.flatten.Nodup := by
  simp only [isPartition, Bool.and_eq_true, List.all_eq_true, beq_iff_eq, List.contains_iff_mem]
  constructor
  · rintro ⟨h1, h2⟩
    refine ⟨fun v => ⟨h2 v, fun h => ?_⟩, ?_⟩
    · apply List.count_pos_iff.mp; rw [h1 v h]; exact Nat.one_pos
    · rw [List.nodup_iff_count]
      intro a
      by_cases ha : a ∈ ps.flatten
      · rw [h1 a (h2 a ha)]; exact Nat.le_refl _
      · rw [List.count_eq_zero.mpr ha]; exact Nat.zero_le _
  · rintro ⟨h1, h2⟩
    refine ⟨fun v h => ?_, fun v h => (h1 v).mp h⟩
    rw [h2.count, if_pos ((h1 v).mpr h)]

/-- **parts_closed**: immediate from the decidable checks and the one-part fall-back -/
theorem parts_closed (adj : Nat → Nat → Bool) (n : Nat) : PartsOK adj n (parts adj n) := by
  have hvnd : ((List.range n).filter (fun v => degree adj n v > 0)).Nodup :=
    List.Nodup.sublist List.filter_sublist List.nodup_range
  have hvm : ∀ v, v ∈ (List.range n).filter (fun v => degree adj n v > 0) ↔
      v < n ∧ 0 < degree adj n v := by
    intro v; simp [List.mem_filter]
  unfold parts
  simp only
  split
  · rename_i h
    rw [Bool.and_eq_true, noCrossEdges_iff, isPartition_iff _ hvnd] at h
    exact ⟨h.1, fun v => (h.2.1 v).trans (hvm v), h.2.2⟩
  · split
    · rename_i he
      rw [List.isEmpty_iff] at he
      refine ⟨fun p hp => (by cases hp), ?_, (by simp)⟩
      intro v
      rw [← hvm v, he]; simp
    · refine ⟨?_, ?_, ?_⟩
      · intro p hp q hq hne
        rw [List.mem_singleton] at hp hq
        exact absurd (hp.trans hq.symm) hne
      · intro v; rw [← hvm v]; simp
      · simpa using hvnd

theorem PartsOK.part_nodup {adj : Nat → Nat → Bool} {n : Nat} {ps : List (List Nat)}
    (h : PartsOK adj n ps) {p : List Nat} (hp : p ∈ ps) : p.Nodup := by
  have := h.nodup
  rw [List.Nodup, List.pairwise_flatten] at this
  exact this.1 p hp

/-- a vertex lies in at most one part -/
theorem PartsOK.part_unique {adj : Nat → Nat → Bool} {n : Nat} {ps : List (List Nat)}
    (h : PartsOK adj n ps) {p q : List Nat} (hp : p ∈ ps) (hq : q ∈ ps) {v : Nat}
    (hvp : v ∈ p) (hvq : v ∈ q) : p = q := by
  have hnd := h.nodup
  clear h
  induction ps with
  | nil => cases hp
  | cons r rs ih =>
    rw [List.flatten_cons, List.nodup_append] at hnd
    rcases List.mem_cons.mp hp with rfl | hp' <;> rcases List.mem_cons.mp hq with rfl | hq'
    · rfl
    · exact absurd rfl (hnd.2.2 v hvp v (List.mem_flatten.mpr ⟨q, hq', hvq⟩))
    · exact absurd rfl (hnd.2.2 v hvq v (List.mem_flatten.mpr ⟨p, hp', hvp⟩))
    · exact ih hp' hq' hnd.2.1

/-! ### Grundy colourings factor over closed parts -/

/-- **grundy_product** -/
theorem grundy_product (adj : Nat → Nat → Bool) (hs : ∀ u v, adj u v = adj v u) (n : Nat)
    (ps : List (List Nat)) (hok : PartsOK adj n ps) (lv : List Nat) (hlen : lv.length = n) :
    grundy adj lv = true ↔
      (∀ p ∈ ps, GrundyOn adj p (fun v => lv.getD v 0)) ∧
      (∀ v, v < n → degree adj n v = 0 → lv.getD v 0 = 0) := by
  rw [grundy_iff, hlen]
  have hin : ∀ p ∈ ps, ∀ v ∈ p, v < n ∧ 0 < degree adj n v := fun p hp v hv =>
    (hok.mem_iff v).mp (List.mem_flatten.mpr ⟨p, hp, hv⟩)
  have hpart : ∀ v, v < n → 0 < degree adj n v → ∃ p ∈ ps, v ∈ p := fun v h1 h2 => by
    obtain ⟨p, hp, hv⟩ := List.mem_flatten.mp ((hok.mem_iff v).mpr ⟨h1, h2⟩)
    exact ⟨p, hp, hv⟩
  -- two adjacent vertices in range lie in the same part
  have hsame : ∀ u v, u < n → v < n → adj u v = true → ∀ p ∈ ps, v ∈ p → u ∈ p := by
    intro u v hu hv ha p hp hvp
    have hdu : 0 < degree adj n u := (degree_pos_iff adj n u).mpr ⟨v, hv, by rw [hs]; exact ha⟩
    obtain ⟨q, hq, huq⟩ := hpart u hu hdu
    by_cases e : q = p
    · rw [← e]; exact huq
    · have := hok.noCross q hq p hp e u huq v hvp
      rw [ha] at this; cases this
  constructor
  · rintro ⟨h1, h2⟩
    refine ⟨fun p hp => ⟨?_, ?_⟩, ?_⟩
    · intro u hu v hv ha
      exact h1 u (List.mem_range.mpr (hin p hp u hu).1) v (List.mem_range.mpr (hin p hp v hv).1) ha
    · intro v hv d hd
      obtain ⟨u, hu, ha, he⟩ := h2 v (List.mem_range.mpr (hin p hp v hv).1) d hd
      exact ⟨u, hsame u v (List.mem_range.mp hu) (hin p hp v hv).1 ha p hp hv, ha, he⟩
    · intro v hv hd
      apply Nat.eq_zero_of_not_pos
      intro hpos
      obtain ⟨u, hu, ha, _⟩ := h2 v (List.mem_range.mpr hv) 0 hpos
      rw [(degree_zero_iff adj n v).mp hd u (List.mem_range.mp hu)] at ha; cases ha
  · rintro ⟨h1, h2⟩
    refine ⟨?_, ?_⟩
    · intro u hu v hv ha
      rw [List.mem_range] at hu hv
      have hdv : 0 < degree adj n v := (degree_pos_iff adj n v).mpr ⟨u, hu, ha⟩
      obtain ⟨p, hp, hvp⟩ := hpart v hv hdv
      exact (h1 p hp).1 u (hsame u v hu hv ha p hp hvp) v hvp ha
    · intro v hv d hd
      rw [List.mem_range] at hv
      by_cases hdv : degree adj n v = 0
      · have hd' : d < lv.getD v 0 := hd
        rw [h2 v hv hdv] at hd'; cases hd'
      · obtain ⟨p, hp, hvp⟩ := hpart v hv (Nat.pos_of_ne_zero hdv)
        obtain ⟨u, hu, ha, he⟩ := (h1 p hp).2 v hvp d hd
        exact ⟨u, List.mem_range.mpr (hin p hp u hu).1, ha, he⟩

/-! ### the enumeration is exact -/

/-- `allLevels` for an arbitrary adjacency on `0..n-1` -/
def allLevelsOf (adj : Nat → Nat → Bool) (n : Nat) : List (List Nat) :=
  dedupFirst ((product ((parts adj n).map (partAssignments adj))).map (levelsOfAssignment n))

theorem allLevels_eq (c : ConfPred) (regs : List Region) :
    allLevels c regs = allLevelsOf (adjOf c regs) regs.length := rfl

theorem levelsOfAssignment_length (n : Nat) (a : List (List (Nat × Nat))) :
    (levelsOfAssignment n a).length = n := by simp [levelsOfAssignment]

theorem levelsOfAssignment_getD {n v : Nat} (a : List (List (Nat × Nat))) (hv : v < n) :
    (levelsOfAssignment n a).getD v 0 = lookup a.flatten v := by
  simp [levelsOfAssignment, List.getD_eq_getElem?_getD, hv]

/-- the level vector read off a tuple of per-part Grundy colourings is Grundy -/
theorem levels_of_product_grundy (adj : Nat → Nat → Bool) (hs : ∀ u v, adj u v = adj v u) (n : Nat)
    (ps : List (List Nat)) (hok : PartsOK adj n ps) (a : List (List (Nat × Nat)))
    (hB : All2 (fun x p => ∃ f : Nat → Nat, GrundyOn adj p f ∧ x = p.map (fun v => (v, f v))) a ps) :
    grundy adj (levelsOfAssignment n a) = true := by
  have hkeys : a.flatten.map (·.1) = ps.flatten := by
    rw [List.map_flatten]
    congr 1
    have := All2.map_eq (fun x : List (Nat × Nat) => x.map (·.1)) (fun p : List Nat => p)
      (hB.imp (fun x p h => by
        obtain ⟨f, _, rfl⟩ := h
        simp [List.map_map, Function.comp_def]))
    simpa using this
  have hnd : (a.flatten.map (·.1)).Nodup := by rw [hkeys]; exact hok.nodup
  have hin : ∀ p ∈ ps, ∀ v ∈ p, v < n ∧ 0 < degree adj n v := fun p hp v hv =>
    (hok.mem_iff v).mp (List.mem_flatten.mpr ⟨p, hp, hv⟩)
  rw [grundy_product adj hs n ps hok _ (levelsOfAssignment_length n a)]
  refine ⟨?_, ?_⟩
  · intro p hp
    obtain ⟨x, hx, f, hf, rfl⟩ := hB.exists_left p hp
    apply hf.congr
    intro v hv
    rw [levelsOfAssignment_getD a (hin p hp v hv).1]
    symm
    apply lookup_of_mem hnd
    exact List.mem_flatten.mpr ⟨_, hx, List.mem_map.mpr ⟨v, hv, rfl⟩⟩
  · intro v hv hd
    rw [levelsOfAssignment_getD a hv]
    apply lookup_of_not_mem
    rw [hkeys]
    intro hm
    have := ((hok.mem_iff v).mp hm).2
    omega

/-- **main theorem**, for any symmetric irreflexive adjacency -/
theorem mem_allLevelsOf (adj : Nat → Nat → Bool) (hs : ∀ u v, adj u v = adj v u)
    (hi : ∀ u, adj u u = false) (n : Nat) (lv : List Nat) :
    lv ∈ allLevelsOf adj n ↔ lv.length = n ∧ grundy adj lv = true := by
  have hok := parts_closed adj n
  unfold allLevelsOf
  rw [mem_dedupFirst, List.mem_map]
  constructor
  · rintro ⟨a, ha, rfl⟩
    refine ⟨levelsOfAssignment_length n a, ?_⟩
    have hA := (all2_map_right _).mp (mem_product.mp ha)
    apply levels_of_product_grundy adj hs n _ hok a
    apply hA.imp_mem
    intro x _ p hp hx
    exact (partAssignments_exact adj hs hi p (hok.part_nodup hp) x).mp hx
  · rintro ⟨hlen, hg⟩
    rw [grundy_product adj hs n _ hok lv hlen] at hg
    refine ⟨(parts adj n).map (fun p => p.map (fun v => (v, lv.getD v 0))), ?_, ?_⟩
    · rw [mem_product, all2_map_right, all2_map_iff]
      intro p hp
      exact (partAssignments_exact adj hs hi p (hok.part_nodup hp) _).mpr ⟨_, hg.1 p hp, rfl⟩
    · apply List.ext_getElem
      · rw [levelsOfAssignment_length, hlen]
      · intro i h1 h2
        have hi' : i < n := by rw [← hlen]; exact h2
        have e1 : (levelsOfAssignment n ((parts adj n).map
            (fun p => p.map (fun v => (v, lv.getD v 0)))))[i] = lookup
              ((parts adj n).flatten.map (fun v => (v, lv.getD v 0))) i := by
          simp [levelsOfAssignment]
        have e2 : lv[i] = lv.getD i 0 := by
          simp [List.getD_eq_getElem?_getD, h2]
        rw [e1, e2]
        by_cases hm : i ∈ (parts adj n).flatten
        · exact lookup_map _ hm
        · rw [lookup_of_not_mem (by simpa [List.map_map, Function.comp_def] using hm)]
          symm
          apply hg.2 i hi'
          apply Nat.eq_zero_of_not_pos
          intro hp
          exact hm ((hok.mem_iff i).mpr ⟨hi', hp⟩)

/-- "combined freely across independent groups": the enumerated vectors are exactly the read-offs of
the tuples that pick one assignment per part -/
theorem mem_allLevelsOf_product (adj : Nat → Nat → Bool) (n : Nat) (lv : List Nat) :
    lv ∈ allLevelsOf adj n ↔
      ∃ a, All2 (fun x p => x ∈ partAssignments adj p) a (parts adj n) ∧
        lv = levelsOfAssignment n a := by
  unfold allLevelsOf
  rw [mem_dedupFirst, List.mem_map]
  constructor
  · rintro ⟨a, ha, rfl⟩
    exact ⟨a, (all2_map_right _).mp (mem_product.mp ha), rfl⟩
  · rintro ⟨a, ha, rfl⟩
    exact ⟨a, mem_product.mpr ((all2_map_right _).mpr ha), rfl⟩

theorem allLevelsOf_nodup (adj : Nat → Nat → Bool) (n : Nat) : (allLevelsOf adj n).Nodup :=
  dedupFirst_nodup _

/-! ### corollaries: degree bound, pseudoknot-free case -/

/-- a Grundy colouring puts every vertex on a level ≤ its degree -/
theorem grundy_le_degree (adj : Nat → Nat → Bool) (lv : List Nat) (h : grundy adj lv = true)
    (v : Nat) (hv : v < lv.length) : lv.getD v 0 ≤ degree adj lv.length v := by
  rw [grundy_iff] at h
  have hsub : List.range (lv.getD v 0) ⊆
      ((List.range lv.length).filter (fun u => adj u v)).map (fun u => lv.getD u 0) := by
    intro d hd
    obtain ⟨u, hu, ha, he⟩ := h.2 v (List.mem_range.mpr hv) d (List.mem_range.mp hd)
    exact List.mem_map.mpr ⟨u, List.mem_filter.mpr ⟨hu, ha⟩, he⟩
  have := List.Nodup.length_le_of_subset List.nodup_range hsub
  simpa [degree] using this

theorem le_foldl_max : ∀ (l : List Nat) (init : Nat),
    init ≤ l.foldl max init ∧ ∀ x ∈ l, x ≤ l.foldl max init := by
  intro l
  induction l with
  | nil => intro init; simp
  | cons y ys ih =>
    intro init
    rw [List.foldl_cons]
    obtain ⟨h1, h2⟩ := ih (max init y)
    refine ⟨by omega, ?_⟩
    intro x hx
    rcases List.mem_cons.mp hx with rfl | hx
    · omega
    · exact h2 x hx

theorem degree_le_maxDegree (adj : Nat → Nat → Bool) (n v : Nat) (hv : v < n) :
    degree adj n v ≤ maxDegree adj n := by
  unfold maxDegree
  exact (le_foldl_max _ 0).2 _ (List.mem_map.mpr ⟨v, List.mem_range.mpr hv, rfl⟩)

theorem parts_of_no_edges (adj : Nat → Nat → Bool) (n : Nat)
    (h : ∀ v, v < n → degree adj n v = 0) : parts adj n = [] := by
  have hverts : (List.range n).filter (fun v => degree adj n v > 0) = [] := by
    rw [List.filter_eq_nil_iff]
    intro v hv
    have := h v (List.mem_range.mp hv)
    simp [this]
  unfold parts
  simp only [hverts]
  rfl

/-- without edges the only enumerated level vector is all zeros -/
theorem allLevelsOf_no_edges (adj : Nat → Nat → Bool) (n : Nat)
    (h : ∀ v, v < n → degree adj n v = 0) : allLevelsOf adj n = [List.replicate n 0] := by
  unfold allLevelsOf
  rw [parts_of_no_edges adj n h]
  have : levelsOfAssignment n [] = List.replicate n 0 := by
    have hl : lookup [] = fun _ => 0 := by funext v; rfl
    simp only [levelsOfAssignment, List.flatten_nil, hl, List.map_const', List.length_range]
  simp [product, dedupFirst, dedup, this]

end RnaVerif.SecStr.AllDB

import RnaVerif.Lemmas.FcfsGrundy
import RnaVerif.Lemmas.Decode
/-! # from level vectors to strings: `mkDB` is injective in the levels, and `allDB` lists exactly the
strings of the Grundy colourings (helper lemmas for C16; core Lean only) -/
namespace RnaVerif.SecStr.AllDB

/-! ### `mkDB` -/

theorem mkDB_ok_iff {n : Nat} {regs : List Region} {lvs : List Nat} {s : List Char} :
    mkDB n regs lvs = .ok s ↔
      regs.length ≤ lvs.length ∧ (∀ l ∈ lvs.take regs.length, l < Gen.encBrackets.length) ∧
      s = (List.range n).map (fun k => charOfTok Gen.encBrackets (tokOf (triples regs lvs) k)) := by
  unfold mkDB
  by_cases h1 : lvs.length < regs.length
  · simp only [h1, if_true]
    constructor
    · intro h; cases h
    · rintro ⟨h, _⟩; omega
  · simp only [h1, if_false]
    by_cases h2 : (lvs.take regs.length).any (fun l => decide (Gen.encBrackets.length ≤ l)) = true
    · simp only [h2, if_true]
      constructor
      · intro h; cases h
      · rintro ⟨_, h, _⟩
        rw [List.any_eq_true] at h2
        obtain ⟨l, hl, hd⟩ := h2
        have := h l hl
        simp at hd
        omega
    · simp only [h2]
      constructor
      · intro h
        refine ⟨by omega, ?_, ?_⟩
        · intro l hl
          apply Nat.lt_of_not_le
          intro hle
          apply h2
          rw [List.any_eq_true]
          exact ⟨l, hl, by simpa using hle⟩
        · cases h; rfl
      · rintro ⟨_, _, rfl⟩; rfl

theorem mem_triples_first {regs : List Region} {lvs : List Nat} {u : Nat} (hu : u < regs.length)
    (hl : u < lvs.length) (hpos : 0 < regs[u].len) :
    (regs[u].i - 1, regs[u].j - 1, lvs[u]) ∈ triples regs lvs := by
  unfold triples
  rw [List.mem_flatMap]
  refine ⟨(regs[u], lvs[u]), ?_, ?_⟩
  · exact List.mem_iff_getElem.mpr ⟨u, by rw [List.length_zip]; omega, by simp⟩
  · simp only [expandRegion, List.mem_map, List.mem_range]
    exact ⟨0, hpos, by simp⟩

/-- opening positions are in range and identify their pair -/
def OpenInj (M : List Tr) (n : Nat) : Prop :=
  (∀ m ∈ M, m.1 < n) ∧ (∀ m ∈ M, ∀ m' ∈ M, m.1 = m'.1 → m = m')

theorem openInj_of_WF {M : List Tr} {n : Nat} (h : WF M n) : OpenInj M n :=
  ⟨fun m hm => by have := h.bnd m hm; omega, h.injO⟩

theorem tokOf_open {M : List Tr} (hinj : ∀ m ∈ M, ∀ m' ∈ M, m.1 = m'.1 → m = m') {m : Tr}
    (hm : m ∈ M) : tokOf M m.1 = .op m.2.2 := by
  unfold tokOf
  cases hf : M.find? (fun x => x.1 == m.1) with
  | none =>
    have := List.find?_eq_none.mp hf m hm
    simp at this
  | some x =>
    have h1 := List.find?_some hf
    have h2 := List.mem_of_find?_eq_some hf
    have : x = m := hinj x h2 m hm (by simpa using h1)
    simp [this]

/-- bridge-like finite fact about the (regenerated) bracket table: opening brackets are distinct -/
theorem op_char_inj : ∀ a, a < Gen.encBrackets.length → ∀ b, b < Gen.encBrackets.length →
    (Gen.encBrackets.getD a ('?', '?')).1 = (Gen.encBrackets.getD b ('?', '?')).1 → a = b := by
  decide

/-- **mkDB is injective in the levels** (regions non-empty, opening positions distinct and in range):
two level vectors that give the same string are equal -/
theorem mkDB_injective_in_levels {n : Nat} {regs : List Region} {lv1 lv2 : List Nat} {s : List Char}
    (hpos : ∀ r ∈ regs, 0 < r.len)
    (h1 : OpenInj (triples regs lv1) n) (h2 : OpenInj (triples regs lv2) n)
    (hl1 : lv1.length = regs.length) (hl2 : lv2.length = regs.length)
    (e1 : mkDB n regs lv1 = .ok s) (e2 : mkDB n regs lv2 = .ok s) : lv1 = lv2 := by
  obtain ⟨_, b1, s1⟩ := mkDB_ok_iff.mp e1
  obtain ⟨_, b2, s2⟩ := mkDB_ok_iff.mp e2
  rw [← hl1, List.take_length] at b1
  rw [← hl2, List.take_length] at b2
  have hs := s1.symm.trans s2
  rw [List.map_inj_left] at hs
  apply List.ext_getElem (hl1.trans hl2.symm)
  intro u hu1 hu2
  have hu : u < regs.length := by omega
  have hp := hpos regs[u] (List.getElem_mem hu)
  have m1 := mem_triples_first hu hu1 hp
  have m2 := mem_triples_first hu hu2 hp
  have hlt := h1.1 _ m1
  have := hs (regs[u].i - 1) (List.mem_range.mpr hlt)
  have t1 := tokOf_open h1.2 m1
  have t2 := tokOf_open h2.2 m2
  simp only at t1 t2
  rw [t1, t2] at this
  exact op_char_inj _ (b1 _ (List.getElem_mem hu1)) _ (b2 _ (List.getElem_mem hu2)) this

/-! ### list helpers -/

theorem dedup_of_nodup {α} [BEq α] [LawfulBEq α] : ∀ {l : List α}, l.Nodup → dedup l = l := by
  intro l
  induction l with
  | nil => intro _; rfl
  | cons x xs ih =>
    intro h
    rw [List.nodup_cons] at h
    simp only [dedup, ih h.2]
    simp [h.1]

theorem dedupFirst_of_nodup {α} [BEq α] [LawfulBEq α] {l : List α} (h : l.Nodup) :
    dedupFirst l = l := by
  unfold dedupFirst
  rw [dedup_of_nodup ((List.Perm.nodup_iff (List.reverse_perm l)).mpr h), List.reverse_reverse]

theorem All2.exists_right {α β} {R : α → β → Prop} : ∀ {as : List α} {bs : List β},
    All2 R as bs → ∀ a ∈ as, ∃ b ∈ bs, R a b := by
  intro as bs h
  induction h with
  | nil => intro a ha; cases ha
  | cons h1 _ ih =>
    intro a ha
    rcases List.mem_cons.mp ha with rfl | ha
    · exact ⟨_, by simp, h1⟩
    · obtain ⟨b, hb, hr⟩ := ih a ha
      exact ⟨b, List.mem_cons_of_mem _ hb, hr⟩

theorem All2.nodup_right {α β} {R : α → β → Prop} : ∀ {as : List α} {bs : List β},
    All2 R as bs → as.Nodup → (∀ a ∈ as, ∀ a' ∈ as, ∀ b, R a b → R a' b → a = a') → bs.Nodup := by
  intro as bs h
  induction h with
  | nil => intro _ _; exact List.nodup_nil
  | @cons a b as bs h1 h2 ih =>
    intro hnd hinj
    rw [List.nodup_cons] at hnd ⊢
    refine ⟨?_, ih hnd.2 fun x hx y hy c => hinj x (List.mem_cons_of_mem _ hx) y (List.mem_cons_of_mem _ hy) c⟩
    intro hb
    obtain ⟨a', ha', hr⟩ := h2.exists_left b hb
    have := hinj a (by simp) a' (List.mem_cons_of_mem _ ha') b h1 hr
    exact hnd.1 (this ▸ ha')

/-! ### `allDB` -/

/-- no edges: the only Grundy colouring is all zeros -/
theorem grundy_no_edges (adj : Nat → Nat → Bool) (hs : ∀ u v, adj u v = adj v u)
    (hi : ∀ u, adj u u = false) (n : Nat) (h : ∀ v, v < n → degree adj n v = 0) (lv : List Nat) :
    (lv.length = n ∧ grundy adj lv = true) ↔ lv = List.replicate n 0 := by
  rw [← mem_allLevelsOf adj hs hi n lv, allLevelsOf_no_edges adj n h, List.mem_singleton]

/-- the strings of the Grundy colourings -/
def IsGrundyString (c : ConfPred) (n : Nat) (regs : List Region) (s : List Char) : Prop :=
  ∃ lv : List Nat, lv.length = regs.length ∧ grundy (adjOf c regs) lv = true ∧ mkDB n regs lv = .ok s

/-- the two branches of the model of `all_dot_brackets`, for arbitrary conflict tests that agree up
to the order of their arguments: in the non-error case the result has no repetition and consists
exactly of the strings of the Grundy colourings -/
theorem allDB_exact_gen (es : List Entry) (L : List (List Char))
    (hc : ∀ k l m n, Gen.conflictFcfs k l m n = Gen.conflictAll m n k l) (hcap : 0 < Gen.fcfsAvail)
    (h : allDB es = .ok L) :
    L.Nodup ∧ ∀ s, s ∈ L ↔ IsGrundyString Gen.conflictAll es.length (regions es) s := by
  unfold allDB at h
  simp only at h
  split at h
  · rename_i hdeg
    have hdeg' : ∀ v, v < (regions es).length →
        degree (adjOf Gen.conflictAll (regions es)) (regions es).length v = 0 := by
      intro v hv
      have := List.all_eq_true.mp hdeg v (List.mem_range.mpr hv)
      simpa using this
    have hzero := grundy_no_edges _ (adjOf_symm Gen.conflictAll (regions es))
      (adjOf_irrefl Gen.conflictAll (regions es)) _ hdeg'
    cases hf : fcfs es with
    | error e => rw [hf] at h; cases h
    | ok s0 =>
      rw [hf] at h
      have hL : L = [s0] := by cases h; rfl
      subst hL
      refine ⟨by simp, ?_⟩
      unfold fcfs at hf
      simp only at hf
      split at hf
      · cases hf
      · rename_i lvs hlvs
        obtain ⟨g1, g2, _⟩ := fcfsLevels_grundy Gen.conflictFcfs Gen.conflictAll hc Gen.fcfsAvail hcap
          (regions es) lvs hlvs
        intro s
        rw [List.mem_singleton]
        constructor
        · rintro rfl; exact ⟨lvs, g1, g2, hf⟩
        · rintro ⟨lv, k1, k2, k3⟩
          have e1 := (hzero lv).mp ⟨k1, k2⟩
          have e2 := (hzero lvs).mp ⟨g1, g2⟩
          rw [e1, ← e2, hf] at k3
          cases k3; rfl
  · cases hm : (allLevels Gen.conflictAll (regions es)).mapM (mkDB es.length (regions es)) with
    | error e => rw [hm] at h; cases h
    | ok L0 =>
      rw [hm] at h
      have hL : L = dedupFirst L0 := by cases h; rfl
      subst hL
      refine ⟨dedupFirst_nodup _, ?_⟩
      have hA := (mapM_ok _).mp hm
      intro s
      rw [mem_dedupFirst]
      constructor
      · intro hs
        obtain ⟨lv, hlv, hr⟩ := hA.exists_left s hs
        rw [allLevels_eq, mem_allLevelsOf _ (adjOf_symm _ _) (adjOf_irrefl _ _)] at hlv
        exact ⟨lv, hlv.1, hlv.2, hr⟩
      · rintro ⟨lv, k1, k2, k3⟩
        have hlv : lv ∈ allLevels Gen.conflictAll (regions es) := by
          rw [allLevels_eq, mem_allLevelsOf _ (adjOf_symm _ _) (adjOf_irrefl _ _)]
          exact ⟨k1, k2⟩
        obtain ⟨s', hs', hr⟩ := hA.exists_right lv hlv
        rw [k3] at hr
        cases hr
        exact hs'

/-- with `mkDB` injective on the Grundy colourings, the de-duplication of strings removes nothing:
the strings correspond one-to-one, in order, to the enumerated level vectors -/
theorem allDB_no_collapse (es : List Entry) (L : List (List Char))
    (hinj : ∀ lv1 lv2 s, lv1 ∈ allLevels Gen.conflictAll (regions es) →
      lv2 ∈ allLevels Gen.conflictAll (regions es) →
      mkDB es.length (regions es) lv1 = .ok s → mkDB es.length (regions es) lv2 = .ok s → lv1 = lv2)
    (hne : ¬ (List.range (regions es).length).all (fun v =>
      degree (adjOf Gen.conflictAll (regions es)) (regions es).length v == 0) = true)
    (h : allDB es = .ok L) :
    All2 (fun lv s => mkDB es.length (regions es) lv = .ok s)
      (allLevels Gen.conflictAll (regions es)) L := by
  unfold allDB at h
  simp only at h
  rw [if_neg hne] at h
  cases hm : (allLevels Gen.conflictAll (regions es)).mapM (mkDB es.length (regions es)) with
  | error e => rw [hm] at h; cases h
  | ok L0 =>
    rw [hm] at h
    have hL : L = dedupFirst L0 := by cases h; rfl
    subst hL
    have hA := (mapM_ok _).mp hm
    have hnd : L0.Nodup := hA.nodup_right (allLevelsOf_nodup _ _)
      (fun a ha a' ha' b r1 r2 => hinj a a' b ha ha' r1 r2)
    rw [dedupFirst_of_nodup hnd]
    exact hA

/-- the same with the hypotheses in the form the C01 lemmas provide them for a valid BPSEQ
(`WF (triples …) n` of `Lemmas/Decode.lean`, stems non-empty) -/
theorem allDB_no_collapse_of_WF (es : List Entry) (L : List (List Char))
    (hpos : ∀ r ∈ regions es, 0 < r.len)
    (hwf : ∀ lv : List Nat, lv.length = (regions es).length →
      grundy (adjOf Gen.conflictAll (regions es)) lv = true →
      WF (triples (regions es) lv) es.length)
    (hne : ¬ (List.range (regions es).length).all (fun v =>
      degree (adjOf Gen.conflictAll (regions es)) (regions es).length v == 0) = true)
    (h : allDB es = .ok L) :
    All2 (fun lv s => mkDB es.length (regions es) lv = .ok s)
      (allLevels Gen.conflictAll (regions es)) L := by
  apply allDB_no_collapse es L ?_ hne h
  intro lv1 lv2 s m1 m2 e1 e2
  rw [allLevels_eq, mem_allLevelsOf _ (adjOf_symm _ _) (adjOf_irrefl _ _)] at m1 m2
  exact mkDB_injective_in_levels hpos (openInj_of_WF (hwf lv1 m1.1 m1.2))
    (openInj_of_WF (hwf lv2 m2.1 m2.2)) m1.1 m2.1 e1 e2

/-! ### corollaries: FCFS is listed; the pseudoknot-free case -/

theorem fcfs_mem_allLevels (cF cA : ConfPred) (hc : ∀ k l m n, cF k l m n = cA m n k l) (cap : Nat)
    (hcap : 0 < cap) (regs : List Region) (lv : List Nat) (h : fcfsLevels cF cap regs = some lv) :
    lv ∈ allLevels cA regs := by
  obtain ⟨g1, g2, _⟩ := fcfsLevels_grundy cF cA hc cap hcap regs lv h
  rw [allLevels_eq, mem_allLevelsOf _ (adjOf_symm _ _) (adjOf_irrefl _ _)]
  exact ⟨g1, g2⟩

/-- whenever both succeed, the FCFS string is one of the listed strings -/
theorem fcfs_mem_allDB (es : List Entry) (L : List (List Char)) (s : List Char)
    (hc : ∀ k l m n, Gen.conflictFcfs k l m n = Gen.conflictAll m n k l) (hcap : 0 < Gen.fcfsAvail)
    (h : allDB es = .ok L) (hf : fcfs es = .ok s) : s ∈ L := by
  rw [(allDB_exact_gen es L hc hcap h).2 s]
  unfold fcfs at hf
  simp only at hf
  split at hf
  · cases hf
  · rename_i lvs hlvs
    obtain ⟨g1, g2, _⟩ := fcfsLevels_grundy Gen.conflictFcfs Gen.conflictAll hc Gen.fcfsAvail hcap
      (regions es) lvs hlvs
    exact ⟨lvs, g1, g2, hf⟩

theorem triples_level_mem {regs : List Region} {lvs : List Nat} {m : Tr}
    (h : m ∈ triples regs lvs) : m.2.2 ∈ lvs := by
  unfold triples at h
  obtain ⟨p, hp, hm⟩ := List.mem_flatMap.mp h
  simp only [expandRegion, List.mem_map] at hm
  obtain ⟨t, _, rfl⟩ := hm
  exact (List.of_mem_zip hp).2

theorem tokOf_cases (M : List Tr) (k : Nat) :
    tokOf M k = .dot ∨ ∃ m ∈ M, tokOf M k = .op m.2.2 ∨ tokOf M k = .cl m.2.2 := by
  unfold tokOf
  cases h1 : M.find? (fun m => m.1 == k) with
  | some m => exact Or.inr ⟨m, List.mem_of_find?_eq_some h1, Or.inl rfl⟩
  | none =>
    cases h2 : M.find? (fun m => m.2.1 == k) with
    | some m => exact Or.inr ⟨m, List.mem_of_find?_eq_some h2, Or.inr rfl⟩
    | none => exact Or.inl rfl

/-- finite fact about the (regenerated) bracket table: level 0 is the round bracket -/
theorem level0_round : Gen.encBrackets.getD 0 ('?', '?') = ('(', ')') := by decide

/-- with all levels zero the structure line uses only dots and round brackets -/
theorem mkDB_zero_round {n : Nat} {regs : List Region} {lvs : List Nat} {s : List Char}
    (hz : ∀ l ∈ lvs, l = 0) (h : mkDB n regs lvs = .ok s) :
    ∀ c ∈ s, c = '.' ∨ c = '(' ∨ c = ')' := by
  obtain ⟨_, _, rfl⟩ := mkDB_ok_iff.mp h
  intro c hc
  obtain ⟨k, _, rfl⟩ := List.mem_map.mp hc
  rcases tokOf_cases (triples regs lvs) k with h0 | ⟨m, hm, h1 | h1⟩
  · rw [h0]; left; rfl
  · rw [h1, hz _ (triples_level_mem hm)]; right; left
    simp only [charOfTok, level0_round]
  · rw [h1, hz _ (triples_level_mem hm)]; right; right
    simp only [charOfTok, level0_round]

/-- **pseudoknot-free structures**: no crossing stems ⇒ the early-return branch is taken, the result is
the single FCFS string, it is the string of the all-zero level vector, and it consists of dots and
round brackets only -/
theorem allDB_knot_free (es : List Entry)
    (hc : ∀ k l m n, Gen.conflictFcfs k l m n = Gen.conflictAll m n k l) (hcap : 0 < Gen.fcfsAvail)
    (hdeg : ∀ v, v < (regions es).length →
      degree (adjOf Gen.conflictAll (regions es)) (regions es).length v = 0) :
    allDB es = (fcfs es).map (fun s => [s]) ∧
    ∀ L, allDB es = .ok L → ∃ s, L = [s] ∧ fcfs es = .ok s ∧
      mkDB es.length (regions es) (List.replicate (regions es).length 0) = .ok s ∧
      ∀ c ∈ s, c = '.' ∨ c = '(' ∨ c = ')' := by
  have hb : (List.range (regions es).length).all (fun v =>
      degree (adjOf Gen.conflictAll (regions es)) (regions es).length v == 0) = true := by
    rw [List.all_eq_true]
    intro v hv
    simpa using hdeg v (List.mem_range.mp hv)
  have hbranch : allDB es = (fcfs es).map (fun s => [s]) := by
    unfold allDB
    simp only
    rw [if_pos hb]
  refine ⟨hbranch, ?_⟩
  intro L hL
  have hL' := hL
  rw [hbranch] at hL'
  cases hf : fcfs es with
  | error e => rw [hf] at hL'; cases hL'
  | ok s =>
    rw [hf] at hL'
    have : L = [s] := by cases hL'; rfl
    subst this
    have hs : s ∈ [s] := by simp
    rw [(allDB_exact_gen es [s] hc hcap hL).2 s] at hs
    obtain ⟨lv, k1, k2, k3⟩ := hs
    have hzero := (grundy_no_edges _ (adjOf_symm Gen.conflictAll (regions es))
      (adjOf_irrefl Gen.conflictAll (regions es)) _ hdeg lv).mp ⟨k1, k2⟩
    rw [hzero] at k3
    exact ⟨s, rfl, rfl, k3, mkDB_zero_round (fun l hl => (List.mem_replicate.mp hl).2) k3⟩

end RnaVerif.SecStr.AllDB

import RnaVerif.Model.Clash
import RnaVerif.Lemmas.PairUtil
import Mathlib.Data.Rat.Floor
import Mathlib.Tactic.Ring
import Mathlib.Tactic.Linarith
import Mathlib.Tactic.Positivity
/-!
# Lemmas about the clash model: the KD-tree query radius is sufficient, the grid shortcut is sound,
the list is the filter of the defining predicate, each pair once, the report's maxima and CSV rows.
-/
namespace RnaVerif.Clash
open RnaVerif

/-! ## radii -/

/-- facts about the generated table, checked by evaluation -/
theorem table_facts :
    (∀ p ∈ Gen.clashRadii, ∀ q ∈ Gen.clashRadii, ∀ m ∈ [Gen.molprobityOn, Gen.molprobityOff],
        p.2 + q.2 + m ≤ Gen.kdQueryFactor * maxRadius + m) ∧
    (∀ p ∈ Gen.clashRadii, 0 ≤ p.2) ∧ 0 ≤ Gen.molprobityOn ∧ 0 ≤ Gen.molprobityOff ∧
    0 ≤ Gen.kdQueryFactor * maxRadius := by
  decide +kernel

theorem mp_mem (o : Opts) : mp o ∈ [Gen.molprobityOn, Gen.molprobityOff] := by
  unfold mp; split <;> simp

theorem mp_nonneg (o : Opts) : 0 ≤ mp o := by
  unfold mp; split
  · exact table_facts.2.2.1
  · exact table_facts.2.2.2.1

theorem radius_cases (n : String) : radius n = 0 ∨ ∃ p ∈ Gen.clashRadii, radius n = p.2 := by
  unfold radius
  cases h : List.lookup (String.ofList (List.take 1 n.toList)) Gen.clashRadii with
  | none => left; rfl
  | some v =>
    right
    refine ⟨(String.ofList (List.take 1 n.toList), v), ?_, rfl⟩
    have : ∀ (l : List (String × Rat)) (k : String) (v : Rat), l.lookup k = some v → (k, v) ∈ l := by
      intro l k v
      induction l with
      | nil => simp [List.lookup]
      | cons x xs ih =>
        obtain ⟨a, b⟩ := x
        simp only [List.lookup]
        split
        · rename_i hk; intro e; cases e
          have := beq_iff_eq.1 hk; subst this; exact List.mem_cons_self
        · intro e; exact List.mem_cons_of_mem _ (ih e)
    exact this _ _ _ h

theorem radius_nonneg (n : String) : 0 ≤ radius n := by
  rcases radius_cases n with h | ⟨p, hp, h⟩
  · rw [h]
  · rw [h]; exact table_facts.2.1 p hp

/-- **the KD-tree query radius covers every radius sum** (any two atom names, both modes) -/
theorem radius_sum_le_query (o : Opts) (n₁ n₂ : String) :
    radius n₁ + radius n₂ + mp o ≤ queryRadius o := by
  obtain ⟨h1, h2, _, _, h5⟩ := table_facts
  have hm := mp_mem o
  unfold queryRadius
  rcases radius_cases n₁ with e1 | ⟨p, hp, e1⟩ <;> rcases radius_cases n₂ with e2 | ⟨q, hq, e2⟩ <;> rw [e1, e2]
  · linarith
  · have := h1 q hq q hq _ hm; have := h2 q hq; linarith
  · have := h1 p hp p hp _ hm; have := h2 p hp; linarith
  · exact h1 p hp q hq _ hm

theorem queryRadius_nonneg (o : Opts) : 0 ≤ queryRadius o := by
  have := radius_sum_le_query o "" ""
  have := radius_nonneg ""; have := mp_nonneg o
  linarith

/-! ## the grid shortcut -/

theorem cellSize_pos (o : Opts) : 0 < cellSize o := by
  have := queryRadius_nonneg o
  unfold cellSize margin; linarith [show (0 : Rat) < 1 / 1000000 by norm_num]

theorem floor_eq (q : Rat) : q.floor = ⌊q⌋ := rfl

/-- cells two apart along one axis: the coordinates differ by more than the cell edge -/
theorem coord_far {c x y : Rat} (hc : 0 < c) (h : 1 < (x / c).floor - (y / c).floor) : c < x - y := by
  rw [floor_eq, floor_eq] at h
  have h1 : ((⌊x / c⌋ : Int) : Rat) ≤ x / c := Int.floor_le _
  have h2 : y / c < ((⌊y / c⌋ : Int) : Rat) + 1 := Int.lt_floor_add_one _
  have h3 : ((⌊y / c⌋ : Int) : Rat) + 2 ≤ ((⌊x / c⌋ : Int) : Rat) := by
    have : ⌊y / c⌋ + 2 ≤ ⌊x / c⌋ := by omega
    exact_mod_cast this
  have h4 : 1 < x / c - y / c := by linarith
  have h5 : x / c - y / c = (x - y) / c := by ring
  rw [h5, lt_div_iff₀ hc] at h4
  linarith

theorem sq_lt_of_far {c d : Rat} (hc : 0 ≤ c) (h : c < d ∨ c < -d) : sq c < sq d := by
  unfold sq
  rcases h with h | h <;> nlinarith

theorem dist2_ge (a b : V3 Rat) :
    sq (a.x - b.x) ≤ V3.dist2 a b ∧ sq (a.y - b.y) ≤ V3.dist2 a b ∧ sq (a.z - b.z) ≤ V3.dist2 a b := by
  simp only [sq, V3.dist2, V3.norm2, V3.dot, V3.sub]
  refine ⟨?_, ?_, ?_⟩ <;> nlinarith [mul_self_nonneg (a.x - b.x), mul_self_nonneg (a.y - b.y), mul_self_nonneg (a.z - b.z)]

/-- the shortcut only skips pairs farther apart than the query radius -/
theorem cellFar_sound (o : Opts) (a b : CAtom) (h : cellFar (mkR o a) (mkR o b) = true) :
    sq (queryRadius o) < V3.dist2 a.pos b.pos := by
  have hc := cellSize_pos o
  have hq := queryRadius_nonneg o
  have hqc : queryRadius o < cellSize o := by unfold cellSize margin; linarith [show (0 : Rat) < 1 / 1000000 by norm_num]
  obtain ⟨gx, gy, gz⟩ := dist2_ge a.pos b.pos
  simp only [cellFar, mkR, Bool.or_eq_true] at h
  rcases h with ((((h | h) | h) | h) | h) | h
  · have := coord_far hc (of_decide_eq_true h)
    exact lt_of_lt_of_le (sq_lt_of_far hq (Or.inl (by linarith))) gx
  · have := coord_far hc (of_decide_eq_true h)
    exact lt_of_lt_of_le (sq_lt_of_far hq (Or.inr (by linarith))) gx
  · have := coord_far hc (of_decide_eq_true h)
    exact lt_of_lt_of_le (sq_lt_of_far hq (Or.inl (by linarith))) gy
  · have := coord_far hc (of_decide_eq_true h)
    exact lt_of_lt_of_le (sq_lt_of_far hq (Or.inr (by linarith))) gy
  · have := coord_far hc (of_decide_eq_true h)
    exact lt_of_lt_of_le (sq_lt_of_far hq (Or.inl (by linarith))) gz
  · have := coord_far hc (of_decide_eq_true h)
    exact lt_of_lt_of_le (sq_lt_of_far hq (Or.inr (by linarith))) gz


/-! ## the list is the filter of the defining predicate -/

/-- **The defining predicate of a clash** between two eligible atoms under the options, with `occ`
the reading of occupancies: not the same residue if auto-clashes are ignored; same atom name if that
is required; `d² ≤ (r_a + r_b + mp)²`; occupancy sum (close to) 1 unless occupancy is ignored. -/
def ClashDef (occ : Option Rat → Rat) (o : Opts) (a b : CAtom) : Prop :=
  (o.ignoreAutoclashes = true → a.res ≠ b.res) ∧
  (o.requireSameAtomName = true → a.name = b.name) ∧
  V3.dist2 a.pos b.pos ≤ sq (radius a.name + radius b.name + mp o) ∧
  (o.ignoreOccupancy = true ∨ isclose (occ a.occ + occ b.occ) 1 = true)

instance (occ : Option Rat → Rat) (o : Opts) (a b : CAtom) : Decidable (ClashDef occ o a b) := by
  unfold ClashDef; infer_instance

def mkClash (occ : Option Rat → Rat) (p : CAtom × CAtom) : Clash := ⟨p.1, p.2, occ p.1.occ + occ p.2.occ⟩

theorem sq_le_sq' {x y : Rat} (hx : 0 ≤ x) (h : x ≤ y) : sq x ≤ sq y := by
  unfold sq; nlinarith

theorem test_eq (occ : Option Rat → Rat) (o : Opts) (a b : CAtom) :
    test occ o (sq (queryRadius o)) (mkR o a) (mkR o b) =
      if ClashDef occ o a b then some (mkClash occ (a, b)) else none := by
  have hR : sq (radius a.name + radius b.name + mp o) ≤ sq (queryRadius o) :=
    sq_le_sq' (by have := radius_nonneg a.name; have := radius_nonneg b.name; have := mp_nonneg o; linarith)
      (radius_sum_le_query o a.name b.name)
  unfold test
  split
  · rename_i hfar
    have := cellFar_sound o a b hfar
    rw [if_neg]
    rintro ⟨_, _, hd, _⟩
    exact absurd (lt_of_lt_of_le this hd) (not_lt.2 hR)
  · split
    · rename_i hq
      have hq' : sq (queryRadius o) < V3.dist2 a.pos b.pos := hq
      rw [if_neg]
      rintro ⟨_, _, hd, _⟩
      exact absurd (lt_of_lt_of_le hq' hd) (not_lt.2 hR)
    · split
      · rename_i h1
        have h1' : (o.ignoreAutoclashes && a.res == b.res) = true := h1
        simp only [Bool.and_eq_true, beq_iff_eq] at h1'
        rw [if_neg]
        rintro ⟨hc, _⟩; exact hc h1'.1 h1'.2
      · split
        · rename_i h2
          have h2' : (o.requireSameAtomName && a.name != b.name) = true := h2
          simp only [Bool.and_eq_true, bne_iff_ne] at h2'
          rw [if_neg]
          rintro ⟨_, hc, _⟩; exact h2'.2 (hc h2'.1)
        · split
          · rename_i h3
            have h3' : sq (radius a.name + radius b.name + mp o) < V3.dist2 a.pos b.pos := h3
            rw [if_neg]
            rintro ⟨_, _, hd, _⟩; exact absurd hd (not_le.2 h3')
          · rename_i _ h1 h2 h3
            have h1' : ¬ (o.ignoreAutoclashes && a.res == b.res) = true := h1
            have h2' : ¬ (o.requireSameAtomName && a.name != b.name) = true := h2
            have h3' : ¬ sq (radius a.name + radius b.name + mp o) < V3.dist2 a.pos b.pos := h3
            simp only [Bool.and_eq_true, beq_iff_eq, bne_iff_ne, not_and] at h1' h2'
            simp only
            split
            · rename_i h4
              have h4' : (o.ignoreOccupancy || isclose (occ a.occ + occ b.occ) 1) = true := h4
              simp only [Bool.or_eq_true] at h4'
              rw [if_pos ⟨fun h => h1' h, fun h => not_not.1 (h2' h), not_lt.1 h3', h4'⟩]
              rfl
            · rename_i h4
              have h4' : ¬ (o.ignoreOccupancy || isclose (occ a.occ + occ b.occ) 1) = true := h4
              simp only [Bool.or_eq_true] at h4'
              rw [if_neg]
              rintro ⟨_, _, _, hc⟩; exact h4' hc

theorem scan_eq_pairs (occ : Option Rat → Rat) (o : Opts) (q2 : Rat) (l : List RAtom) :
    scan occ o q2 l = (pairsUp l).filterMap (fun p => test occ o q2 p.1 p.2) := by
  induction l with
  | nil => rfl
  | cons a l ih =>
    simp only [scan, pairsUp, List.filterMap_append, List.filterMap_map, ih]
    rfl

theorem pairsUp_map {α β} (f : α → β) (l : List α) :
    pairsUp (l.map f) = (pairsUp l).map (fun p => (f p.1, f p.2)) := by
  induction l with
  | nil => rfl
  | cons a l ih => simp [pairsUp, ih, List.map_map, Function.comp_def]

/-- **the clash list is the filter of the defining predicate over all (earlier, later) pairs of
eligible atoms** — the KD-tree radius and the grid shortcut drop nothing (`radius_sum_le_query`) -/
theorem clashesWith_eq_filter (occ : Option Rat → Rat) (o : Opts) (atoms : List CAtom) :
    clashesWith occ o atoms =
      ((pairsUp (atoms.filter (eligible o))).filter (fun p => decide (ClashDef occ o p.1 p.2))).map (mkClash occ) := by
  unfold clashesWith refs
  rw [scan_eq_pairs, pairsUp_map, List.filterMap_map]
  rw [← filterMap_eq_map_filter]
  congr 1
  funext p
  simp only [Function.comp]
  rw [test_eq]
  by_cases h : ClashDef occ o p.1 p.2 <;> simp [h]

/-- `|x - y|² = |y - x|²` -/
theorem dist2_comm (a b : V3 Rat) : V3.dist2 a b = V3.dist2 b a := by
  simp only [V3.dist2, V3.norm2, V3.dot, V3.sub]; ring

/-- the defining predicate does not depend on the order of the two atoms: clashes are unordered pairs -/
theorem clashDef_symm (occ : Option Rat → Rat) (o : Opts) (a b : CAtom) :
    ClashDef occ o a b ↔ ClashDef occ o b a := by
  unfold ClashDef
  rw [dist2_comm a.pos b.pos, add_comm (radius a.name) (radius b.name), add_comm (occ a.occ) (occ b.occ)]
  constructor <;> rintro ⟨h1, h2, h3, h4⟩ <;>
    exact ⟨fun h e => h1 h e.symm, fun h => (h2 h).symm, h3, h4⟩

theorem mem_clashesWith {occ : Option Rat → Rat} {o : Opts} {atoms : List CAtom} {c : Clash} :
    c ∈ clashesWith occ o atoms ↔
      ∃ p ∈ pairsUp (atoms.filter (eligible o)), ClashDef occ o p.1 p.2 ∧ c = mkClash occ p := by
  rw [clashesWith_eq_filter]
  simp only [List.mem_map, List.mem_filter, decide_eq_true_eq]
  constructor
  · rintro ⟨p, ⟨hp, hd⟩, rfl⟩; exact ⟨p, hp, hd, rfl⟩
  · rintro ⟨p, hp, hd, rfl⟩; exact ⟨p, ⟨hp, hd⟩, rfl⟩

/-- with atoms numbered in file order, every listed clash has its earlier atom first and no pair of
atom numbers occurs twice — each unordered pair once -/
theorem clashesWith_once (occ : Option Rat → Rat) (o : Opts) (atoms : List CAtom)
    (h : atoms.Pairwise (fun a b => a.idx < b.idx)) :
    ((clashesWith occ o atoms).map (fun c => (c.a.idx, c.b.idx))).Nodup ∧
    ∀ c ∈ clashesWith occ o atoms, c.a.idx < c.b.idx := by
  have hf : (atoms.filter (eligible o)).Pairwise (fun a b => a.idx < b.idx) := h.sublist List.filter_sublist
  constructor
  · rw [clashesWith_eq_filter, List.map_map]
    have : ((fun c : Clash => (c.a.idx, c.b.idx)) ∘ mkClash occ) = fun p : CAtom × CAtom => (p.1.idx, p.2.idx) := by
      funext p; rfl
    rw [this]
    exact List.Nodup.sublist (List.filter_sublist.map _) (pairsUp_tags_nodup CAtom.idx hf)
  · intro c hc
    obtain ⟨p, hp, _, rfl⟩ := mem_clashesWith.1 hc
    exact rel_of_mem_pairsUp hf hp


/-! ## the report: maxima and rows -/

/-- `M` is the maximum of the list `l` -/
def IsMaxOf (M : Rat) (l : List Rat) : Prop := M ∈ l ∧ ∀ x ∈ l, x ≤ M

theorem foldl_max_ge (l : List Rat) (c : Rat) :
    c ≤ l.foldl (fun cur o => max cur o) c ∧ ∀ x ∈ l, x ≤ l.foldl (fun cur o => max cur o) c := by
  induction l generalizing c with
  | nil => simp
  | cons a l ih =>
    simp only [List.foldl_cons, List.mem_cons, forall_eq_or_imp]
    obtain ⟨h1, h2⟩ := ih (max c a)
    exact ⟨le_trans (le_max_left c a) h1, le_trans (le_max_right c a) h1, h2⟩

theorem foldl_max_mem (l : List Rat) (c : Rat) :
    l.foldl (fun cur o => max cur o) c = c ∨ l.foldl (fun cur o => max cur o) c ∈ l := by
  induction l generalizing c with
  | nil => simp
  | cons a l ih =>
    simp only [List.foldl_cons, List.mem_cons]
    rcases ih (max c a) with h | h
    · rcases max_choice c a with h' | h'
      · left; rw [h, h']
      · right; left; rw [h, h']
    · right; right; exact h

/-- a dictionary that reads its own previous value ends with the maximum of the (non-negative) sums -/
theorem finalMax_own {occs : List Rat} (hne : occs ≠ []) (hpos : ∀ x ∈ occs, 0 ≤ x) :
    IsMaxOf (finalMax true occs) occs := by
  unfold finalMax
  simp only [if_true]
  obtain ⟨h1, h2⟩ := foldl_max_ge occs 0
  refine ⟨?_, h2⟩
  rcases foldl_max_mem occs 0 with h | h
  · -- the fold stayed at 0: then some element is 0
    cases occs with
    | nil => exact absurd rfl hne
    | cons a l =>
      have ha := h2 a List.mem_cons_self
      have ha0 := hpos a List.mem_cons_self
      rw [h] at ha ⊢
      have : a = 0 := le_antisymm ha ha0
      rw [← this]; exact List.mem_cons_self
  · exact h

theorem mem_resGroups_atoms {sub : List Clash} {c : Clash} :
    c ∈ (resGroups sub).flatMap (·.atoms) ↔ c ∈ sub := by
  unfold resGroups
  simp only [List.mem_flatMap, List.mem_map, List.mem_eraseDups]
  constructor
  · rintro ⟨g, ⟨rk, _, rfl⟩, hc⟩
    exact (List.mem_filter.1 hc).1
  · intro hc
    exact ⟨_, ⟨resKey c, ⟨c, hc, rfl⟩, rfl⟩, List.mem_filter.2 ⟨hc, beq_self_eq_true _⟩⟩

/-- every residue group lists a non-empty sub-list of the clashes and prints the running value over it -/
theorem resGroup_spec {sub : List Clash} {g : ResGroup} (hg : g ∈ resGroups sub) :
    g.atoms ≠ [] ∧ (∀ c ∈ g.atoms, c ∈ sub) ∧
      g.maxOcc = finalMax Gen.residueMaxReadsOwnDict (g.atoms.map (·.occ)) := by
  unfold resGroups at hg
  simp only [List.mem_map, List.mem_eraseDups] at hg
  obtain ⟨rk, ⟨c, hc, rfl⟩, rfl⟩ := hg
  refine ⟨?_, fun c' hc' => (List.mem_filter.1 hc').1, rfl⟩
  intro he
  have : c ∈ sub.filter (fun c' => resKey c' == resKey c) := List.mem_filter.2 ⟨hc, beq_self_eq_true _⟩
  have he' : sub.filter (fun c' => resKey c' == resKey c) = [] := he
  rw [he'] at this; cases this

theorem chainGroup_spec {cl : List Clash} {cg : ChainGroup} (h : cg ∈ report cl) :
    ∃ sub : List Clash, sub ≠ [] ∧ (∀ c ∈ sub, c ∈ cl) ∧ cg.groups = resGroups sub ∧
      cg.maxOcc = finalMax Gen.chainMaxReadsOwnDict (sub.map (·.occ)) := by
  unfold report at h
  simp only [List.mem_map] at h
  obtain ⟨ck, hck, rfl⟩ := h
  rw [(List.mergeSort_perm _ _).mem_iff, List.mem_eraseDups, List.mem_map] at hck
  obtain ⟨c, hc, rfl⟩ := hck
  refine ⟨cl.filter (fun c' => chainKey c' == chainKey c), ?_, fun c' hc' => (List.mem_filter.1 hc').1, rfl, rfl⟩
  intro he
  have : c ∈ cl.filter (fun c' => chainKey c' == chainKey c) := List.mem_filter.2 ⟨hc, beq_self_eq_true _⟩
  rw [he] at this; cases this

/-! ### grouping is a permutation -/

theorem perm_flatMap_congr {α β} (ks : List α) (g h : α → List β) (e : ∀ k ∈ ks, (g k).Perm (h k)) :
    (ks.flatMap g).Perm (ks.flatMap h) := by
  induction ks with
  | nil => simp
  | cons k ks ih =>
    simp only [List.flatMap_cons]
    exact (e k List.mem_cons_self).append (ih (fun k' hk' => e k' (List.mem_cons_of_mem _ hk')))

/-- grouping a list by a key (keys in first-occurrence order) and concatenating the groups gives a
permutation of the list -/
theorem perm_group {α κ} [BEq κ] [LawfulBEq κ] (f : α → κ) :
    ∀ (n : Nat) (l : List α), l.length ≤ n →
      (((l.map f).eraseDups).flatMap (fun k => l.filter (fun x => f x == k))).Perm l := by
  intro n
  induction n with
  | zero =>
    intro l hl
    have : l = [] := List.eq_nil_of_length_eq_zero (Nat.le_zero.1 hl)
    subst this; simp
  | succ n ih =>
    intro l hl
    cases l with
    | nil => simp
    | cons x l' =>
      simp only [List.map_cons, List.eraseDups_cons, List.flatMap_cons]
      -- the group of `f x`, then the groups of the other keys
      have hfm : (List.filter (fun b => !b == f x) (List.map f l')) =
          List.map f (l'.filter (fun y => !(f y == f x))) := by
        rw [List.filter_map]; rfl
      rw [hfm]
      set l₂ := l'.filter (fun y => !(f y == f x)) with hl₂
      have hlen : l₂.length ≤ n := by
        have h' : l₂.length ≤ l'.length := by rw [hl₂]; exact List.length_filter_le _ _
        simp only [List.length_cons] at hl
        omega
      have hrest : ∀ k ∈ (l₂.map f).eraseDups,
          ((x :: l').filter (fun y => f y == k)).Perm (l₂.filter (fun y => f y == k)) := by
        intro k hk
        rw [List.mem_eraseDups, List.mem_map] at hk
        obtain ⟨y, hy, rfl⟩ := hk
        have hyx : (f y == f x) = false := by
          have := (List.mem_filter.1 hy).2
          simpa using this
        have hxy : (f x == f y) = false := by
          rw [beq_eq_false_iff_ne] at hyx ⊢; exact fun e => hyx e.symm
        rw [List.filter_cons, hxy]
        simp only [Bool.false_eq_true, if_false]
        rw [hl₂, List.filter_filter]
        apply List.Perm.of_eq
        apply List.filter_congr
        intro z _
        by_cases hz : (f z == f y) = true
        · have : (f z == f x) = false := by
            rw [beq_iff_eq] at hz; rw [hz]; exact hyx
          simp [hz, this]
        · simp [hz]
      have h2 := (perm_flatMap_congr _ _ _ hrest).trans (ih l₂ hlen)
      have h1 : ((x :: l').filter (fun y => f y == f x) ++ l₂).Perm (x :: l') := by
        have hx : (x :: l').filter (fun y => !(f y == f x)) = l₂ := by
          rw [List.filter_cons]; simp [hl₂]
        rw [← hx]
        exact List.filter_append_perm _ _
      exact (List.Perm.append_left _ h2).trans h1

theorem resGroups_perm (sub : List Clash) : ((resGroups sub).flatMap (·.atoms)).Perm sub := by
  unfold resGroups
  rw [List.flatMap_map]
  exact perm_group resKey sub.length sub (Nat.le_refl _)

/-- **the CSV rows (and the printed atom lines) are the clash list, each clash once** -/
theorem csvClashes_perm (cl : List Clash) : (csvClashes cl).Perm cl := by
  unfold csvClashes report
  rw [List.flatMap_map]
  refine ((List.mergeSort_perm _ chainLe).flatMap_right _).trans ?_
  refine (perm_flatMap_congr _ _ (fun ck => cl.filter (fun c => chainKey c == ck)) ?_).trans
    (perm_group chainKey cl.length cl (Nat.le_refl _))
  intro ck _
  exact resGroups_perm _

end RnaVerif.Clash

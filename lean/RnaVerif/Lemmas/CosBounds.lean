import Mathlib.Analysis.SpecialFunctions.Trigonometric.Inverse
import Mathlib.Tactic.Ring
import Mathlib.Tactic.Linarith
import Mathlib.Tactic.NormNum
/-!
# Rational enclosure of cos 35° (30 digits), proved through the triple-angle identity

`cos(3·35°) = cos 105° = cos(60° + 45°) = (√2 − √6)/4`, and `x ↦ 4x³ − 3x` is strictly increasing
on `[1/2, ∞)`, where `cos 35° > cos 60° = 1/2` lies.  Rational bounds of `√2`, `√6` (40 digits)
are checked by squaring.
-/
namespace RnaVerif.CosBounds
open Real

/-- 35° in radians -/
noncomputable def x35 : ℝ := 35 * π / 180

noncomputable def a35 : ℝ := 204788011072247947421122096479 / 250000000000000000000000000000
noncomputable def b35 : ℝ := 819152044288991789684488385917 / 1000000000000000000000000000000
noncomputable def s2lo : ℝ := 441941738241592202750527726315530649553 / 312500000000000000000000000000000000000
noncomputable def s2hi : ℝ := 14142135623730950488016887242096980785697 / 10000000000000000000000000000000000000000
noncomputable def s6lo : ℝ := 24494897427831780981972840747058913919659 / 10000000000000000000000000000000000000000
noncomputable def s6hi : ℝ := 1224744871391589049098642037352945695983 / 500000000000000000000000000000000000000

theorem sqrt2_bounds : s2lo ≤ √2 ∧ √2 ≤ s2hi := by
  constructor
  · have h : s2lo = √(s2lo ^ 2) := (sqrt_sq (by unfold s2lo; norm_num)).symm
    rw [h]; exact sqrt_le_sqrt (by unfold s2lo; norm_num)
  · have h : s2hi = √(s2hi ^ 2) := (sqrt_sq (by unfold s2hi; norm_num)).symm
    rw [h]; exact sqrt_le_sqrt (by unfold s2hi; norm_num)

theorem sqrt6_bounds : s6lo ≤ √6 ∧ √6 ≤ s6hi := by
  constructor
  · have h : s6lo = √(s6lo ^ 2) := (sqrt_sq (by unfold s6lo; norm_num)).symm
    rw [h]; exact sqrt_le_sqrt (by unfold s6lo; norm_num)
  · have h : s6hi = √(s6hi ^ 2) := (sqrt_sq (by unfold s6hi; norm_num)).symm
    rw [h]; exact sqrt_le_sqrt (by unfold s6hi; norm_num)

theorem cos_105 : cos (3 * x35) = (√2 - √6) / 4 := by
  have h : 3 * x35 = π / 3 + π / 4 := by unfold x35; ring
  rw [h, cos_add, cos_pi_div_three, cos_pi_div_four, sin_pi_div_three, sin_pi_div_four]
  have h6 : √6 = √3 * √2 := by
    rw [← sqrt_mul (by norm_num : (0 : ℝ) ≤ 3)]; norm_num
  rw [h6]; ring

theorem cubic : 4 * cos x35 ^ 3 - 3 * cos x35 = (√2 - √6) / 4 := by
  rw [← cos_three_mul, cos_105]

theorem half_lt_cos35 : 1 / 2 < cos x35 := by
  rw [← cos_pi_div_three]
  apply cos_lt_cos_of_nonneg_of_le_pi
  · unfold x35; positivity
  · linarith [pi_pos]
  · unfold x35; linarith [pi_pos]

/-- `f x = 4x³ − 3x` is strictly increasing on `[1/2, ∞)` -/
theorem cubic_mono {x y : ℝ} (hx : 1 / 2 ≤ x) (hxy : x < y) : 4 * x ^ 3 - 3 * x < 4 * y ^ 3 - 3 * y := by
  have hy : 1 / 2 < y := lt_of_le_of_lt hx hxy
  have h1 : 0 < y - x := sub_pos.2 hxy
  have h2 : 0 < 4 * (y ^ 2 + y * x + x ^ 2) - 3 := by nlinarith [mul_pos (sub_pos.2 hy) (sub_pos.2 hy), sq_nonneg (x - 1/2)]
  have := mul_pos h1 h2
  nlinarith

theorem cos35_bounds : a35 ≤ cos x35 ∧ cos x35 ≤ b35 := by
  obtain ⟨h2l, h2h⟩ := sqrt2_bounds
  obtain ⟨h6l, h6h⟩ := sqrt6_bounds
  have hc := cubic
  have hh := half_lt_cos35
  constructor
  · by_contra hlt
    rw [not_le] at hlt
    have := cubic_mono hh.le hlt
    have ha : 4 * a35 ^ 3 - 3 * a35 ≤ (s2lo - s6hi) / 4 := by unfold a35 s2lo s6hi; norm_num
    linarith
  · by_contra hlt
    rw [not_le] at hlt
    have hb2 : (1 : ℝ) / 2 ≤ b35 := by unfold b35; norm_num
    have := cubic_mono hb2 hlt
    have hb : (s2hi - s6lo) / 4 ≤ 4 * b35 ^ 3 - 3 * b35 := by unfold b35 s2hi s6lo; norm_num
    linarith

end RnaVerif.CosBounds

import RnaVerif.Model.SecStr
/-!
# Per-type stack decoding of a levelled non-crossing matching (helper lemmas for C01)

`M : List Tr` is a list of levelled pairs `(i, j, level)` (0-based).  If `M` is well-formed (`WF`)
then decoding the token function `tokOf M` over positions `0..n-1` succeeds, leaves every stack
empty, and outputs exactly the pairs of `M`, each once.
-/
namespace RnaVerif.SecStr

structure WF (M : List Tr) (n : Nat) : Prop where
  bnd : ∀ m ∈ M, m.1 < m.2.1 ∧ m.2.1 < n
  injO : ∀ m ∈ M, ∀ m' ∈ M, m.1 = m'.1 → m = m'
  injC : ∀ m ∈ M, ∀ m' ∈ M, m.2.1 = m'.2.1 → m = m'
  oc : ∀ m ∈ M, ∀ m' ∈ M, m.1 ≠ m'.2.1
  nocross : ∀ m ∈ M, ∀ m' ∈ M, m.2.2 = m'.2.2 → ¬ (m.1 < m'.1 ∧ m'.1 < m.2.1 ∧ m.2.1 < m'.2.1)

structure SInv (M : List Tr) (k : Nat) (s : St) : Prop where
  sorted : ∀ t, (s.stacks t).Pairwise (· > ·)
  mem : ∀ t i, i ∈ s.stacks t ↔ ∃ j, (i, j, t) ∈ M ∧ i < k ∧ k ≤ j
  outMem : ∀ p, p ∈ s.out ↔ ∃ t, (p.1, p.2, t) ∈ M ∧ p.2 < k
  outNodup : s.out.Nodup

theorem find_open_some {M : List Tr} {k : Nat} {m : Tr}
    (h : M.find? (fun m => m.1 == k) = some m) : m ∈ M ∧ m.1 = k := by
  have h1 := List.mem_of_find?_eq_some h
  have h2 := List.find?_some h
  exact ⟨h1, by simpa using h2⟩

theorem find_open_none {M : List Tr} {k : Nat}
    (h : M.find? (fun m => m.1 == k) = none) : ∀ m ∈ M, m.1 ≠ k := by
  intro m hm
  have := List.find?_eq_none.mp h m hm
  simpa using this

theorem find_close_some {M : List Tr} {k : Nat} {m : Tr}
    (h : M.find? (fun m => m.2.1 == k) = some m) : m ∈ M ∧ m.2.1 = k := by
  have h1 := List.mem_of_find?_eq_some h
  have h2 := List.find?_some h
  exact ⟨h1, by simpa using h2⟩

theorem find_close_none {M : List Tr} {k : Nat}
    (h : M.find? (fun m => m.2.1 == k) = none) : ∀ m ∈ M, m.2.1 ≠ k := by
  intro m hm
  have := List.find?_eq_none.mp h m hm
  simpa using this

theorem step_dot {M : List Tr} {n k : Nat} {s : St} (wf : WF M n) (inv : SInv M k s)
    (ho : ∀ m ∈ M, m.1 ≠ k) (hc : ∀ m ∈ M, m.2.1 ≠ k) : SInv M (k+1) s := by
  refine ⟨inv.sorted, ?_, ?_, inv.outNodup⟩
  · intro t i
    rw [inv.mem]
    constructor
    · rintro ⟨j, hm, h1, h2⟩
      have := hc _ hm
      exact ⟨j, hm, by omega, by simp at this; omega⟩
    · rintro ⟨j, hm, h1, h2⟩
      have := ho _ hm
      exact ⟨j, hm, by simp at this; omega, by omega⟩
  · intro p
    rw [inv.outMem]
    constructor
    · rintro ⟨t, hm, h⟩; exact ⟨t, hm, by omega⟩
    · rintro ⟨t, hm, h⟩
      have := hc _ hm
      exact ⟨t, hm, by simp at this; omega⟩

theorem step_op {M : List Tr} {n k : Nat} {s : St} (wf : WF M n) (inv : SInv M k s)
    {m : Tr} (hm : m ∈ M) (hk : m.1 = k) :
    SInv M (k+1) { s with stacks := fun u => if u = m.2.2 then k :: s.stacks u else s.stacks u } := by
  obtain ⟨i0, j0, t0⟩ := m
  simp only at hk; subst hk
  have hb := wf.bnd _ hm
  simp only at hb
  refine ⟨?_, ?_, ?_, inv.outNodup⟩
  · intro t
    by_cases ht : t = t0
    · subst ht
      simp only [if_true]
      rw [List.pairwise_cons]
      refine ⟨?_, inv.sorted t⟩
      intro a ha
      obtain ⟨j, _, h1, _⟩ := (inv.mem t a).mp ha
      exact h1
    · simp only [ht, if_false]; exact inv.sorted t
  · intro t i
    by_cases ht : t = t0
    · subst ht
      simp only [if_true, List.mem_cons]
      rw [inv.mem]
      constructor
      · rintro (rfl | ⟨j, hm', h1, h2⟩)
        · exact ⟨j0, hm, by omega, by omega⟩
        · refine ⟨j, hm', by omega, ?_⟩
          have := wf.oc _ hm _ hm'
          simp only at this
          omega
      · rintro ⟨j, hm', h1, h2⟩
        by_cases hi : i = i0
        · exact Or.inl hi
        · exact Or.inr ⟨j, hm', by omega, by omega⟩
    · simp only [ht, if_false]
      rw [inv.mem]
      constructor
      · rintro ⟨j, hm', h1, h2⟩
        have := wf.oc _ hm _ hm'
        simp only at this
        exact ⟨j, hm', by omega, by omega⟩
      · rintro ⟨j, hm', h1, h2⟩
        have hne : i ≠ i0 := by
          intro h; subst h
          have := wf.injO _ hm _ hm' rfl
          simp at this
          exact ht this.2.symm
        exact ⟨j, hm', by omega, by omega⟩
  · intro p
    simp only
    rw [inv.outMem]
    constructor
    · rintro ⟨t, hm', h⟩; exact ⟨t, hm', by omega⟩
    · rintro ⟨t, hm', h⟩
      have := wf.oc _ hm _ hm'
      simp only at this
      exact ⟨t, hm', by omega⟩

theorem step_cl {M : List Tr} {n k : Nat} {s : St} (wf : WF M n) (inv : SInv M k s)
    (ho : ∀ m ∈ M, m.1 ≠ k) {m : Tr} (hm : m ∈ M) (hk : m.2.1 = k) :
    ∃ rest, s.stacks m.2.2 = m.1 :: rest ∧
      SInv M (k+1) { stacks := fun u => if u = m.2.2 then rest else s.stacks u,
                     out := s.out ++ [(m.1, k)] } := by
  obtain ⟨i0, j0, t0⟩ := m
  simp only at hk; subst hk
  have hb := wf.bnd _ hm
  simp only at hb
  have hmem0 : i0 ∈ s.stacks t0 := (inv.mem t0 i0).mpr ⟨j0, hm, by omega, by omega⟩
  -- the stack is nonempty and its head is i0
  cases hst : s.stacks t0 with
  | nil => rw [hst] at hmem0; simp at hmem0
  | cons h rest =>
    have hsorted := inv.sorted t0
    rw [hst] at hsorted hmem0
    rw [List.pairwise_cons] at hsorted
    have hh : h ∈ s.stacks t0 := by rw [hst]; simp
    obtain ⟨j', hm', h1, h2⟩ := (inv.mem t0 h).mp hh
    have hhead : h = i0 := by
      rcases List.mem_cons.mp hmem0 with e | e
      · exact e.symm
      · have hgt := hsorted.1 _ e
        -- h > i0, so (i0,j0) and (h,j') cross unless j' = j0
        by_cases hj : j' = j0
        · subst hj
          have := wf.injC _ hm _ hm' rfl
          simp at this
          omega
        · exfalso
          exact wf.nocross _ hm _ hm' rfl ⟨by simpa using hgt, by simpa using h1, by simp; omega⟩
    subst hhead
    refine ⟨rest, rfl, ?_, ?_, ?_, ?_⟩
    · intro t
      by_cases ht : t = t0
      · subst ht; simp only [if_true]; exact hsorted.2
      · simp only [ht, if_false]; exact inv.sorted t
    · intro t i
      by_cases ht : t = t0
      · subst ht
        simp only [if_true]
        constructor
        · intro hi
          have hi' : i ∈ s.stacks t := by rw [hst]; exact List.mem_cons_of_mem _ hi
          obtain ⟨j, hmi, a, b⟩ := (inv.mem t i).mp hi'
          have hlt := hsorted.1 _ hi
          refine ⟨j, hmi, by omega, ?_⟩
          by_cases hj : j = j0
          · subst hj
            have := wf.injC _ hm _ hmi rfl
            simp at this
            omega
          · omega
        · rintro ⟨j, hmi, a, b⟩
          have hik : i ≠ j0 := fun e => ho _ hmi (by simpa using e)
          have hi' : i ∈ s.stacks t := (inv.mem t i).mpr ⟨j, hmi, by omega, by omega⟩
          rw [hst] at hi'
          rcases List.mem_cons.mp hi' with e | e
          · subst e
            have := wf.injO _ hm _ hmi rfl
            simp at this
            omega
          · exact e
      · simp only [ht, if_false]
        rw [inv.mem]
        constructor
        · rintro ⟨j, hmi, a, b⟩
          refine ⟨j, hmi, by omega, ?_⟩
          by_cases hj : j = j0
          · subst hj
            have := wf.injC _ hm _ hmi rfl
            simp at this
            exact absurd this.2.symm ht
          · omega
        · rintro ⟨j, hmi, a, b⟩
          have hik : i ≠ j0 := fun e => ho _ hmi (by simpa using e)
          exact ⟨j, hmi, by omega, by omega⟩
    · intro p
      simp only [List.mem_append, List.mem_singleton]
      rw [inv.outMem]
      constructor
      · rintro (⟨t, hmp, h⟩ | rfl)
        · exact ⟨t, hmp, by omega⟩
        · exact ⟨t0, hm, by simp⟩
      · rintro ⟨t, hmp, h⟩
        by_cases hp : p.2 = j0
        · right
          have := wf.injC _ hm _ hmp (by simpa using hp.symm)
          simp at this
          ext <;> simp [this.1, hp]
        · left; exact ⟨t, hmp, by omega⟩
    · simp only
      rw [List.nodup_append]
      refine ⟨inv.outNodup, by simp, ?_⟩
      intro a ha b hb'
      simp at hb'
      subst hb'
      obtain ⟨t, _, h⟩ := (inv.outMem a).mp ha
      intro e; subst e; simp at h

theorem step_any {M : List Tr} {n k : Nat} {s : St} (wf : WF M n) (inv : SInv M k s) :
    ∃ s', stepTok s k (tokOf M k) = some s' ∧ SInv M (k+1) s' := by
  unfold tokOf
  cases ho : M.find? (fun m => m.1 == k) with
  | some m =>
    obtain ⟨hm, hk⟩ := find_open_some ho
    exact ⟨_, rfl, step_op wf inv hm hk⟩
  | none =>
    have ho' := find_open_none ho
    cases hc : M.find? (fun m => m.2.1 == k) with
    | some m =>
      obtain ⟨hm, hk⟩ := find_close_some hc
      obtain ⟨rest, hst, hinv⟩ := step_cl wf inv ho' hm hk
      refine ⟨_, ?_, hinv⟩
      simp only [stepTok, hst]
    | none =>
      exact ⟨s, rfl, step_dot wf inv ho' (find_close_none hc)⟩

theorem decode_range {M : List Tr} {n : Nat} (wf : WF M n) :
    ∀ (len k : Nat) (s : St), SInv M k s →
      ∃ s', decodeFrom (tokOf M) (List.range' k len) s = some s' ∧ SInv M (k+len) s' := by
  intro len
  induction len with
  | zero => intro k s inv; exact ⟨s, rfl, by simpa using inv⟩
  | succ len ih =>
    intro k s inv
    obtain ⟨s1, h1, inv1⟩ := step_any wf inv
    obtain ⟨s2, h2, inv2⟩ := ih (k+1) s1 inv1
    refine ⟨s2, ?_, by rw [show k + (len + 1) = k + 1 + len by omega]; exact inv2⟩
    simp only [List.range'_succ, decodeFrom, h1, Option.bind_some, h2]

theorem init_inv (M : List Tr) : SInv M 0 ⟨fun _ => [], []⟩ := by
  refine ⟨fun _ => List.Pairwise.nil, ?_, ?_, List.nodup_nil⟩
  · intro t i; simp
  · intro p; simp

/-- Main spike theorem: decoding the token string of a well-formed levelled matching succeeds,
    leaves all stacks empty and returns exactly the pairs of the matching, each once. -/
theorem decode_correct {M : List Tr} {n : Nat} (wf : WF M n) :
    ∃ s', decodeFrom (tokOf M) (List.range n) ⟨fun _ => [], []⟩ = some s' ∧
      (∀ t, s'.stacks t = []) ∧ s'.out.Nodup ∧
      (∀ p, p ∈ s'.out ↔ ∃ t, (p.1, p.2, t) ∈ M) := by
  obtain ⟨s', h, inv⟩ := decode_range wf n 0 _ (init_inv M)
  refine ⟨s', by simpa [List.range_eq_range'] using h, ?_, inv.outNodup, ?_⟩
  · intro t
    apply List.eq_nil_iff_forall_not_mem.mpr
    intro i hi
    obtain ⟨j, hm, _, h2⟩ := (inv.mem t i).mp hi
    have := (wf.bnd _ hm).2
    simp at this h2
    omega
  · intro p
    rw [inv.outMem]
    constructor
    · rintro ⟨t, hm, _⟩; exact ⟨t, hm⟩
    · rintro ⟨t, hm⟩
      have := (wf.bnd _ hm).2
      exact ⟨t, hm, by simpa using this⟩

end RnaVerif.SecStr

import RnaVerif.Model.ElementsSpec
import RnaVerif.Lemmas.Regions
/-!
# C07 helper lemmas, part 1: generic list facts used by the `BpSeq.elements` proofs

* `sortDedup` returns a strictly increasing list with the same members;
* `consec` of a strictly increasing list: membership = "neighbours", and every point strictly
  between head and last that is not a member lies strictly inside exactly one neighbour pair;
* `slice` of a valid BPSEQ, `strandOf` of a slice, and the filter of a valid BPSEQ by an index
  interval is a slice;
* "exactly one" from pairwise exclusion + existence.
-/
namespace RnaVerif.SecStr

/-! ### sortDedup -/

theorem mem_insertSorted {x y : Nat} {l : List Nat} : y ∈ insertSorted x l ↔ y = x ∨ y ∈ l := by
  induction l with
  | nil => simp [insertSorted]
  | cons z zs ih =>
    simp only [insertSorted]
    split
    · simp
    · split
      · rename_i h; subst h; simp
      · simp only [List.mem_cons, ih]
        constructor
        · rintro (h | h | h) <;> simp [h]
        · rintro (h | h | h) <;> simp [h]

theorem insertSorted_sorted {x : Nat} {l : List Nat} (h : l.Pairwise (· < ·)) :
    (insertSorted x l).Pairwise (· < ·) := by
  induction l with
  | nil => simp [insertSorted]
  | cons z zs ih =>
    rw [List.pairwise_cons] at h
    simp only [insertSorted]
    split
    · rename_i hxz
      refine List.pairwise_cons.mpr ⟨?_, List.pairwise_cons.mpr h⟩
      intro a ha
      rcases List.mem_cons.mp ha with rfl | ha
      · exact hxz
      · exact Nat.lt_trans hxz (h.1 a ha)
    · split
      · exact List.pairwise_cons.mpr h
      · refine List.pairwise_cons.mpr ⟨?_, ih h.2⟩
        intro a ha
        rcases mem_insertSorted.mp ha with rfl | ha
        · omega
        · exact h.1 a ha

theorem mem_sortDedup {y : Nat} {l : List Nat} : y ∈ sortDedup l ↔ y ∈ l := by
  induction l with
  | nil => simp [sortDedup]
  | cons z zs ih =>
    have : sortDedup (z :: zs) = insertSorted z (sortDedup zs) := rfl
    rw [this, mem_insertSorted, ih]; simp

theorem sortDedup_sorted (l : List Nat) : (sortDedup l).Pairwise (· < ·) := by
  induction l with
  | nil => simp [sortDedup]
  | cons z zs ih =>
    have : sortDedup (z :: zs) = insertSorted z (sortDedup zs) := rfl
    rw [this]; exact insertSorted_sorted ih

/-! ### head / last of a strictly increasing list -/

theorem headD_le_of_sorted {l : List Nat} (hs : l.Pairwise (· < ·)) {x : Nat} (hx : x ∈ l) :
    l.headD 0 ≤ x := by
  cases l with
  | nil => simp at hx
  | cons a t =>
    rw [List.pairwise_cons] at hs
    rcases List.mem_cons.mp hx with rfl | h
    · simp
    · have := hs.1 x h; simp; omega

theorem le_getLastD_of_sorted {l : List Nat} (hs : l.Pairwise (· < ·)) {x : Nat} (hx : x ∈ l) :
    x ≤ l.getLastD 0 := by
  induction l generalizing x with
  | nil => simp at hx
  | cons a t ih =>
    rw [List.pairwise_cons] at hs
    cases t with
    | nil =>
      have : x = a := by simpa using hx
      subst this; simp
    | cons b t' =>
      have hl : (a :: b :: t').getLastD 0 = (b :: t').getLastD 0 := by simp [List.getLastD]
      rw [hl]
      rcases List.mem_cons.mp hx with rfl | h
      · have h1 := hs.1 b (by simp)
        have h2 := ih hs.2 (x := b) (by simp)
        omega
      · exact ih hs.2 h

theorem headD_mem {l : List Nat} (h : l ≠ []) : l.headD 0 ∈ l := by
  cases l with
  | nil => exact absurd rfl h
  | cons a t => simp

theorem getLastD_mem {l : List Nat} (h : l ≠ []) : l.getLastD 0 ∈ l := by
  cases l with
  | nil => exact absurd rfl h
  | cons a t =>
    have : (a :: t).getLastD 0 = (a :: t).getLast (by simp) := by
      simp [List.getLastD]
    rw [this]; exact List.getLast_mem _

/-! ### consec -/

theorem consec_cons_cons {α} (a b : α) (rest : List α) :
    consec (a :: b :: rest) = (a, b) :: consec (b :: rest) := rfl

/-- for a strictly increasing list, the consecutive pairs are exactly the pairs of members with no
member strictly between -/
theorem mem_consec_sorted {l : List Nat} (hs : l.Pairwise (· < ·)) {a b : Nat} :
    (a, b) ∈ consec l ↔ a ∈ l ∧ b ∈ l ∧ a < b ∧ ∀ x ∈ l, ¬ (a < x ∧ x < b) := by
  induction l with
  | nil => simp [consec]
  | cons x t ih =>
    cases t with
    | nil =>
      simp only [consec, List.not_mem_nil, List.mem_singleton, false_iff]
      rintro ⟨rfl, rfl, h, _⟩; omega
    | cons y rest =>
      rw [List.pairwise_cons] at hs
      have ih := ih hs.2
      have hxy : x < y := hs.1 y (by simp)
      have hxall : ∀ z ∈ y :: rest, x < z := hs.1
      have hyall : ∀ z ∈ y :: rest, y ≤ z := by
        intro z hz
        rcases List.mem_cons.mp hz with rfl | hz
        · exact Nat.le_refl _
        · exact Nat.le_of_lt ((List.pairwise_cons.mp hs.2).1 z hz)
      rw [consec_cons_cons, List.mem_cons, ih]
      constructor
      · rintro (h | ⟨ha, hb, hab, hno⟩)
        · simp only [Prod.mk.injEq] at h
          obtain ⟨rfl, rfl⟩ := h
          refine ⟨by simp, by simp, hxy, ?_⟩
          intro z hz
          rcases List.mem_cons.mp hz with rfl | hz
          · omega
          · have := hyall z hz; omega
        · refine ⟨List.mem_cons_of_mem _ ha, List.mem_cons_of_mem _ hb, hab, ?_⟩
          intro z hz
          rcases List.mem_cons.mp hz with rfl | hz
          · have := hxall a ha; omega
          · exact hno z hz
      · rintro ⟨ha, hb, hab, hno⟩
        rcases List.mem_cons.mp ha with hax | ha'
        · left
          rcases List.mem_cons.mp hb with hbx | hb'
          · omega
          · have hby := hyall b hb'
            have := hno y (by simp)
            have : b = y := by omega
            rw [hax, this]
        · right
          have hb' : b ∈ y :: rest := by
            rcases List.mem_cons.mp hb with hbx | hb'
            · have := hxall a ha'; omega
            · exact hb'
          exact ⟨ha', hb', hab, fun z hz => hno z (List.mem_cons_of_mem _ hz)⟩

/-- a point that is not a member lies strictly inside exactly one consecutive pair iff it lies
strictly between head and last -/
theorem consec_count {l : List Nat} (hs : l.Pairwise (· < ·)) {p : Nat} (hp : p ∉ l) :
    ((consec l).filter (fun ab => decide (ab.1 < p) && decide (p < ab.2))).length =
      if l.headD 0 < p ∧ p < l.getLastD 0 then 1 else 0 := by
  induction l with
  | nil => simp [consec]
  | cons x t ih =>
    cases t with
    | nil => simp [consec]; omega
    | cons y rest =>
      rw [List.pairwise_cons] at hs
      have hxy : x < y := hs.1 y (by simp)
      have hp' : p ∉ y :: rest := fun h => hp (List.mem_cons_of_mem _ h)
      have hpx : p ≠ x := fun h => hp (by simp [h])
      have hpy : p ≠ y := fun h => hp (by simp [h])
      have ih := ih hs.2 hp'
      have hl : (x :: y :: rest).getLastD 0 = (y :: rest).getLastD 0 := by simp [List.getLastD]
      have hylast : y ≤ (y :: rest).getLastD 0 := le_getLastD_of_sorted hs.2 (by simp)
      have hh : (y :: rest).headD 0 = y := rfl
      have hh' : (x :: y :: rest).headD 0 = x := rfl
      rw [hh] at ih
      rw [consec_cons_cons, List.filter_cons, hl, hh']
      by_cases h1 : x < p ∧ p < y
      · -- inside the first pair; no later pair contains p
        have hnone : (consec (y :: rest)).filter
            (fun ab => decide (ab.1 < p) && decide (p < ab.2)) = [] := by
          rw [List.filter_eq_nil_iff]
          rintro ⟨a, b⟩ hab
          have := ((mem_consec_sorted hs.2).mp hab).1
          have hya : y ≤ a := by
            rcases List.mem_cons.mp this with rfl | h
            · exact Nat.le_refl _
            · exact Nat.le_of_lt ((List.pairwise_cons.mp hs.2).1 a h)
          simp; omega
        rw [if_pos (show x < p ∧ p < (y :: rest).getLastD 0 from ⟨h1.1, by omega⟩)]
        simp only [h1.1, h1.2, decide_true, Bool.and_self, if_true, hnone, List.length_cons,
          List.length_nil]
      · have hc : (decide (x < p) && decide (p < y)) = false := by
          simp only [Bool.and_eq_false_iff, decide_eq_false_iff_not]; omega
        simp only [hc, Bool.false_eq_true, if_false]
        rw [ih]
        by_cases h2 : y < p ∧ p < (y :: rest).getLastD 0
        · rw [if_pos h2, if_pos ⟨by omega, h2.2⟩]
        · rw [if_neg h2, if_neg]
          omega

/-- the first components of the consecutive pairs of a strictly increasing list increase -/
theorem consec_pairwise {l : List Nat} (hs : l.Pairwise (· < ·)) :
    (consec l).Pairwise (fun p q => p.1 < q.1) := by
  induction l with
  | nil => simp [consec]
  | cons x t ih =>
    cases t with
    | nil => simp [consec]
    | cons y rest =>
      rw [List.pairwise_cons] at hs
      rw [consec_cons_cons, List.pairwise_cons]
      refine ⟨?_, ih hs.2⟩
      rintro ⟨a, b⟩ hab
      have := ((mem_consec_sorted hs.2).mp hab).1
      exact hs.1 a this

/-! ### "exactly one" -/

theorem filter_length_one {α} {P : α → Bool} {l : List α}
    (hpw : l.Pairwise (fun x y => ¬ (P x = true ∧ P y = true))) (hex : ∃ x ∈ l, P x = true) :
    (l.filter P).length = 1 := by
  induction l with
  | nil => simp at hex
  | cons a t ih =>
    rw [List.pairwise_cons] at hpw
    rw [List.filter_cons]
    by_cases ha : P a = true
    · have : t.filter P = [] := by
        rw [List.filter_eq_nil_iff]
        intro b hb hPb
        exact hpw.1 b hb ⟨ha, hPb⟩
      simp [ha, this]
    · simp only [ha, if_false, Bool.false_eq_true]
      apply ih hpw.2
      obtain ⟨x, hx, hPx⟩ := hex
      rcases List.mem_cons.mp hx with rfl | hx
      · exact absurd hPx ha
      · exact ⟨x, hx, hPx⟩

/-! ### slices of a valid BPSEQ -/

theorem slice_length {α} (l : List α) (a b : Nat) (hb : b ≤ l.length) :
    (slice l a b).length = b - a := by
  simp [slice]; omega

theorem slice_getElem {α} (l : List α) (a b t : Nat) (h : t < (slice l a b).length)
    (h' : a + t < l.length) : (slice l a b)[t] = l[a + t] := by
  simp [slice]

theorem mem_slice {α} {l : List α} {a b : Nat} {x : α} :
    x ∈ slice l a b ↔ ∃ k, ∃ (h : k < l.length), a ≤ k ∧ k < b ∧ l[k] = x := by
  unfold slice
  rw [List.mem_take_iff_getElem]
  constructor
  · rintro ⟨j, hj, rfl⟩
    simp only [List.length_drop] at hj
    refine ⟨a + j, by omega, by omega, by omega, ?_⟩
    simp
  · rintro ⟨k, hk, h1, h2, rfl⟩
    refine ⟨k - a, by simp only [List.length_drop]; omega, ?_⟩
    simp only [List.getElem_drop]
    congr 1; omega

theorem slice_map {α β} (f : α → β) (l : List α) (a b : Nat) :
    (slice l a b).map f = slice (l.map f) a b := by
  simp [slice, List.map_take, List.map_drop]

/-- numbers and texts of the strand built from a slice of a valid BPSEQ -/
theorem strandOf_slice {es : List Entry} (v : ValidP es) (db : List Char) {a b : Nat}
    (hab : a < b) (hb : b ≤ es.length) :
    strandOf (slice es a b) db = ⟨a + 1, b, slice (sequence es) a b, slice db a b⟩ := by
  have hlen : (slice es a b).length = b - a := slice_length es a b hb
  have hne : slice es a b ≠ [] := by
    intro h; rw [h] at hlen; simp at hlen; omega
  obtain ⟨e, rest, heq⟩ := List.exists_cons_of_ne_nil hne
  have he : e = es[a] := by
    have h0 : 0 < (slice es a b).length := by omega
    have := slice_getElem es a b 0 h0 (by omega)
    simp only [heq, List.getElem_cons_zero, Nat.add_zero] at this
    exact this
  have hidx : e.idx = a + 1 := by rw [he]; exact v.idx_get a (by omega)
  have hl2 : (e :: rest).length = b - a := by rw [← heq]; exact hlen
  unfold strandOf
  simp only [heq, List.headD_cons, hidx, hl2]
  have h1 : a + 1 + (b - a) - 1 = b := by omega
  have h2 : a + 1 - 1 = a := by omega
  rw [h1, h2, ← heq, sequence]
  congr 1
  exact slice_map _ es a b

/-- the entries of a valid BPSEQ whose index lies in `[lo, hi]` form the slice `[lo-1, hi)` -/
theorem filter_idx_range {es : List Entry} (v : ValidP es) {lo hi : Nat} (h1 : 1 ≤ lo)
    (_h3 : hi ≤ es.length) (P : Entry → Bool)
    (hP : ∀ e ∈ es, P e = true ↔ lo ≤ e.idx ∧ e.idx ≤ hi) :
    es.filter P = slice es (lo - 1) hi := by
  have hsplit : es = es.take (lo - 1) ++ (slice es (lo - 1) hi ++ es.drop (lo - 1 + (hi - (lo - 1)))) := by
    unfold slice
    conv => lhs; rw [← List.take_append_drop (lo - 1) es]
    congr 1
    conv => lhs; rw [← List.take_append_drop (hi - (lo - 1)) (es.drop (lo - 1))]
    rw [List.drop_drop]
  conv => lhs; rw [hsplit]
  rw [List.filter_append, List.filter_append]
  have e1 : (es.take (lo - 1)).filter P = [] := by
    rw [List.filter_eq_nil_iff]
    intro e he
    obtain ⟨j, hj, rfl⟩ := List.mem_take_iff_getElem.mp he
    have hj' : j < es.length := by omega
    rw [hP _ (List.getElem_mem hj'), v.idx_get j hj']
    omega
  have e2 : (slice es (lo - 1) hi).filter P = slice es (lo - 1) hi := by
    rw [List.filter_eq_self]
    intro e he
    obtain ⟨k, hk, h1', h2', rfl⟩ := mem_slice.mp he
    rw [hP _ (List.getElem_mem hk), v.idx_get k hk]
    omega
  have e3 : (es.drop (lo - 1 + (hi - (lo - 1)))).filter P = [] := by
    rw [List.filter_eq_nil_iff]
    intro e he
    obtain ⟨j, hj, hje⟩ := List.mem_drop_iff_getElem.mp he
    have : ∃ k, ∃ (h : k < es.length), lo - 1 + (hi - (lo - 1)) ≤ k ∧ es[k] = e :=
      ⟨lo - 1 + (hi - (lo - 1)) + j, by omega, by omega, hje⟩
    obtain ⟨k, hk, hge, rfl⟩ := this
    rw [hP _ (List.getElem_mem hk), v.idx_get k hk]
    omega
  rw [e1, e2, e3]; simp

/-! ### partner lookups -/

theorem getD_default_pair (es : List Entry) (k : Nat) :
    (es.getD k default).pair = (es.getD k ⟨0, '?', 0⟩).pair := by
  simp only [List.getD_eq_getElem?_getD]
  cases es[k]? <;> rfl

theorem partnerOf_get {es : List Entry} (v : ValidP es) {k : Nat} (hk : k < es.length) :
    partnerOf es es[k].idx = es[k].pair := by
  rw [v.idx_get k hk, partnerOf_eq hk]

/-- partners are symmetric -/
theorem partnerOf_symm {es : List Entry} (v : ValidP es) {x y : Nat} (hx : 1 ≤ x)
    (h : partnerOf es x = y) (hy : y ≠ 0) : partnerOf es y = x ∧ 1 ≤ y ∧ y ≤ es.length ∧
      x ≤ es.length ∧ x ≠ y := by
  have hxl : x - 1 < es.length := by
    apply Decidable.byContradiction
    intro hc
    have : partnerOf es x = 0 := by
      simp [partnerOf, List.getD_eq_getElem?_getD, List.getElem?_eq_none (Nat.le_of_not_lt hc)]
    omega
  have hx' : x = (x - 1) + 1 := by omega
  rw [hx', partnerOf_eq hxl] at h
  rcases v.pair_get (x - 1) hxl with h0 | ⟨a, b, c⟩
  · omega
  · rw [h] at a b c
    exact ⟨by omega, by omega, a, by omega, by omega⟩

end RnaVerif.SecStr

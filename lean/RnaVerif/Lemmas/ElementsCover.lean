import RnaVerif.Lemmas.ElementsLoops
/-!
# C07 helper lemmas, part 6: every unpaired nucleotide lies in exactly one interior

Counting argument.  For an unpaired nucleotide at 0-based position `p` the number of interiors
containing it is
`[p < first stop] + [last stop < p] + #left-over candidates + #hairpins + #loop strands`;
left-over candidates and loop strands together are a permutation of all candidates (the `used`
list is duplicate-free and consists of candidates); hairpins and candidates together are a
permutation of the consecutive-stop intervals with an unpaired interior; and exactly one
consecutive-stop interval contains `p` when `p` lies between the first and the last stop.
-/
namespace RnaVerif.SecStr

def inside (k : Nat) (q : Nat × Nat) : Bool := decide (q.1 ≤ k) && decide (k ≤ q.2)

/-- number of intervals of the list that contain `k` -/
def cnt (k : Nat) (L : List (Nat × Nat)) : Nat := (L.filter (inside k)).length

theorem cnt_append (k : Nat) (A B : List (Nat × Nat)) : cnt k (A ++ B) = cnt k A + cnt k B := by
  simp [cnt, List.filter_append]

theorem cnt_perm (k : Nat) {A B : List (Nat × Nat)} (h : A.Perm B) : cnt k A = cnt k B :=
  (h.filter _).length_eq

theorem inside_iff {k : Nat} {q : Nat × Nat} : inside k q = true ↔ q.1 ≤ k ∧ k ≤ q.2 := by
  simp [inside]

theorem cnt_nil (k : Nat) : cnt k [] = 0 := rfl

theorem specCover_iff (es : List Entry) (el : ElemNums) :
    specCover es el = true ↔ ∀ e ∈ es, e.pair = 0 → cnt e.idx (interiors el) = 1 := by
  unfold specCover
  simp only [List.all_eq_true, Bool.or_eq_true, bne_iff_ne, beq_iff_eq]
  have hfun : ∀ k : Nat, (fun (x : Nat × Nat) =>
      match x with | (lo, hi) => decide (lo ≤ k) && decide (k ≤ hi)) = inside k := by
    intro k; funext ⟨lo, hi⟩; rfl
  constructor
  · intro h e he hp
    rcases h e he with h | h
    · exact absurd hp h
    · unfold cnt; rw [← hfun]; exact h
  · intro h e he
    by_cases hp : e.pair = 0
    · right
      have := h e he hp
      unfold cnt at this; rw [← hfun] at this; exact this
    · left; exact hp

/-- the interior of a strand with paired ends -/
def innerOf (s : Strand) : Nat × Nat := (s.first + 1, s.last - 1)

/-! ### left-over candidates and loop strands together are all candidates -/

theorem perm_split {cands used : List Strand} (hn : cands.Nodup) (hu : used.Nodup)
    (hsub : ∀ c ∈ used, c ∈ cands) :
    (cands.filter (fun c => !used.contains c) ++ used).Perm cands := by
  have h1 : used.Perm (cands.filter (fun c => used.contains c)) := by
    rw [List.perm_ext_iff_of_nodup hu (List.filter_sublist.nodup hn)]
    intro c
    rw [List.mem_filter, List.contains_iff_mem]
    exact ⟨fun h => ⟨hsub c h, h⟩, fun h => h.2⟩
  have h2 := List.filter_append_perm (fun c => used.contains c) cands
  exact ((List.Perm.append_left _ h1).trans List.perm_append_comm).trans h2

/-! ### hairpins and candidates together are the open intervals -/

def openIvs (es : List Entry) (db : List Char) : List (Nat × Nat) :=
  (consec (stopsOf es db)).filter (openIv es)

theorem ivs_perm (es : List Entry) (db : List Char) :
    (hpIvs es db ++ cdIvs es db).Perm (openIvs es db) := by
  have h := List.filter_append_perm (hpIv es) (openIvs es db)
  unfold openIvs at h ⊢
  rw [List.filter_filter, List.filter_filter] at h
  exact h

/-- 0-based open interval → 1-based interior -/
def ivInner (ab : Nat × Nat) : Nat × Nat := (ab.1 + 2, ab.2)

theorem innerOf_strandIv (es : List Entry) (db : List Char) (ab : Nat × Nat) :
    innerOf (strandIv es db ab) = ivInner ab := by
  simp [innerOf, strandIv, ivInner]

/-- for an unpaired position strictly inside the stop range, exactly one open interval contains it;
outside, none -/
theorem cnt_openIvs {es : List Entry} (v : ValidP es) (db : List Char) {p : Nat}
    (hp : partnerOf es (p + 1) = 0) :
    cnt (p + 1) ((openIvs es db).map ivInner) =
      if (stopsOf es db).headD 0 < p ∧ p < (stopsOf es db).getLastD 0 then 1 else 0 := by
  have hns : p ∉ stopsOf es db := fun h => (stop_paired v db h).2 hp
  rw [← consec_count (stopsOf_sorted es db) hns]
  unfold cnt openIvs
  rw [List.filter_map, List.length_map, List.filter_filter]
  congr 1
  apply List.filter_congr
  rintro ⟨a, b⟩ hab
  rw [Bool.eq_iff_iff]
  simp only [Function.comp, Bool.and_eq_true, inside_iff, decide_eq_true_eq, ivInner]
  constructor
  · intro h; omega
  · intro hin
    exact ⟨by omega, openIv_iff.mpr (interval_open_of_unpaired v db hab hin.1 hin.2 hp)⟩

/-! ### the tails -/

theorem stopsOf_ne_nil {es : List Entry} (v : ValidP es) (db : List Char)
    (h : (stemsEntries es).isEmpty = false) : stopsOf es db ≠ [] := by
  have : regions es ≠ [] := by
    intro hr
    have : (regions es).length = 0 := by rw [hr]; rfl
    rw [regions_length] at this
    have : stemsEntries es = [] := List.eq_nil_of_length_eq_zero this
    rw [this] at h; simp at h
  obtain ⟨r, rest, hr⟩ := List.exists_cons_of_ne_nil this
  have hm : r.i - 1 ∈ stopsOf es db :=
    (mem_stopsOf v db).mpr ⟨r, by rw [hr]; simp, Or.inl rfl⟩
  intro hnil; rw [hnil] at hm; simp at hm

theorem fiveOf_eq {es : List Entry} (v : ValidP es) (db : List Char)
    (hl : (stopsOf es db).headD 0 < es.length) :
    fiveOf es db = if (stopsOf es db).headD 0 > 0 then
      [(⟨1, (stopsOf es db).headD 0 + 1, slice (sequence es) 0 ((stopsOf es db).headD 0 + 1),
          slice db 0 ((stopsOf es db).headD 0 + 1)⟩, SSKind.five)] else [] := by
  unfold fiveOf
  have : es.take ((stopsOf es db).headD 0 + 1) = slice es 0 ((stopsOf es db).headD 0 + 1) := by
    simp [slice]
  rw [this, strandOf_slice v db (by omega) (by omega)]

theorem threeOf_eq {es : List Entry} (v : ValidP es) (db : List Char)
    (hl : (stopsOf es db).getLastD 0 < es.length) :
    threeOf es db = if (stopsOf es db).getLastD 0 + 1 < es.length then
      [(⟨(stopsOf es db).getLastD 0 + 1, es.length,
          slice (sequence es) ((stopsOf es db).getLastD 0) es.length,
          slice db ((stopsOf es db).getLastD 0) es.length⟩, SSKind.three)] else [] := by
  unfold threeOf
  have : es.drop ((stopsOf es db).getLastD 0) = slice es ((stopsOf es db).getLastD 0) es.length := by
    unfold slice
    rw [List.take_of_length_le (by simp)]
  rw [this, strandOf_slice v db hl (Nat.le_refl _)]

/-! ### the interiors of the model's elements -/

theorem interiors_eq (es : List Entry) (db : List Char) (h : (stemsEntries es).isEmpty = false) :
    interiors (elements es db).nums =
      (fiveOf es db).map (fun sk => (sk.1.first, sk.1.last - 1)) ++
      ((threeOf es db).map (fun sk => (sk.1.first + 1, sk.1.last)) ++
      (((candsOf es db).filter (fun c => !(chainFold es (candsOf es db)).2.contains c)).map innerOf ++
      ((hairpinsOf es db).map innerOf ++
      (chainFold es (candsOf es db)).1.flatten.map innerOf))) := by
  rw [elements_eq es db h]
  simp only [Elements.nums, interiors, leftOf, List.map_append, List.map_map, List.append_assoc]
  congr 1
  · apply List.map_congr_left
    intro sk hsk
    unfold fiveOf at hsk
    split at hsk
    · rw [List.mem_singleton] at hsk
      rw [hsk]; rfl
    · simp at hsk
  congr 1
  · apply List.map_congr_left
    intro sk hsk
    unfold threeOf at hsk
    split at hsk
    · rw [List.mem_singleton] at hsk
      rw [hsk]; rfl
    · simp at hsk
  congr 1
  congr 1
  rw [← List.map_flatten, List.map_map]
  rfl

theorem cnt_singleton (k : Nat) (q : Nat × Nat) :
    cnt k [q] = if q.1 ≤ k ∧ k ≤ q.2 then 1 else 0 := by
  unfold cnt
  rw [List.filter_cons]
  by_cases h : inside k q = true
  · rw [if_pos h, if_pos (inside_iff.mp h)]; rfl
  · rw [if_neg h, if_neg (fun h' => h (inside_iff.mpr h'))]; rfl

/-- **cover** for a structure with at least one base pair -/
theorem specCover_pairs {es : List Entry} (v : ValidP es) (db : List Char)
    (h : (stemsEntries es).isEmpty = false) : specCover es (elements es db).nums = true := by
  rw [specCover_iff]
  intro e he hp0
  have hidx := v.idx_pos he
  obtain ⟨p, hpe⟩ : ∃ p, e.idx = p + 1 := ⟨e.idx - 1, by omega⟩
  have hpl : p < es.length := by omega
  have hpp : partnerOf es (p + 1) = 0 := by rw [← hpe, v.partner_idx he]; exact hp0
  rw [hpe, interiors_eq es db h]
  simp only [cnt_append]
  have hc := candsOf_ok v db
  have inv := chainFold_inv v hc
  -- left-overs + loop strands = all candidates
  have h34 : cnt (p + 1) (((candsOf es db).filter
        (fun c => !(chainFold es (candsOf es db)).2.contains c)).map innerOf) +
      (cnt (p + 1) ((hairpinsOf es db).map innerOf) +
       cnt (p + 1) ((chainFold es (candsOf es db)).1.flatten.map innerOf)) =
      cnt (p + 1) ((hairpinsOf es db).map innerOf) + cnt (p + 1) ((candsOf es db).map innerOf) := by
    have : cnt (p + 1) (((candsOf es db).filter
        (fun c => !(chainFold es (candsOf es db)).2.contains c)).map innerOf) +
       cnt (p + 1) ((chainFold es (candsOf es db)).1.flatten.map innerOf) =
       cnt (p + 1) ((candsOf es db).map innerOf) := by
      rw [← cnt_append, ← List.map_append]
      apply cnt_perm
      apply List.Perm.map
      rw [inv.used_eq]
      exact perm_split hc.nodup inv.nodup (fun c hc' => by
        obtain ⟨l, hl, hcl⟩ := List.mem_flatten.mp hc'
        exact inv.sub l hl c hcl)
    omega
  -- hairpins + candidates = open intervals
  have h45 : cnt (p + 1) ((hairpinsOf es db).map innerOf) +
      cnt (p + 1) ((candsOf es db).map innerOf) = cnt (p + 1) ((openIvs es db).map ivInner) := by
    rw [hairpinsOf_eq v db, candsOf_eq v db, List.map_map, List.map_map, ← cnt_append,
      ← List.map_append]
    have : (innerOf ∘ strandIv es db) = ivInner := funext (innerOf_strandIv es db)
    rw [this]
    exact cnt_perm _ ((ivs_perm es db).map _)
  have hmid := cnt_openIvs v db hpp
  -- first and last stop
  have hne := stopsOf_ne_nil v db h
  have hs0 := headD_mem hne
  have hsN := getLastD_mem hne
  have hs0p := stop_paired v db hs0
  have hsNp := stop_paired v db hsN
  have hle : (stopsOf es db).headD 0 ≤ (stopsOf es db).getLastD 0 :=
    headD_le_of_sorted (stopsOf_sorted es db) hsN
  have hp0' : p ≠ (stopsOf es db).headD 0 := by
    intro hh; rw [← hh] at hs0p; exact hs0p.2 hpp
  have hpN : p ≠ (stopsOf es db).getLastD 0 := by
    intro hh; rw [← hh] at hsNp; exact hsNp.2 hpp
  have h1 : cnt (p + 1) ((fiveOf es db).map (fun sk => (sk.1.first, sk.1.last - 1))) =
      if p < (stopsOf es db).headD 0 then 1 else 0 := by
    rw [fiveOf_eq v db hs0p.1]
    by_cases hpos : (stopsOf es db).headD 0 > 0
    · rw [if_pos hpos, List.map_cons, List.map_nil, cnt_singleton]
      simp only [Nat.add_sub_cancel]
      by_cases hc1 : p < (stopsOf es db).headD 0
      · rw [if_pos hc1, if_pos (by omega)]
      · rw [if_neg hc1, if_neg (by omega)]
    · rw [if_neg hpos, if_neg (by omega)]; rfl
  have h2 : cnt (p + 1) ((threeOf es db).map (fun sk => (sk.1.first + 1, sk.1.last))) =
      if (stopsOf es db).getLastD 0 < p then 1 else 0 := by
    rw [threeOf_eq v db hsNp.1]
    by_cases hpos : (stopsOf es db).getLastD 0 + 1 < es.length
    · rw [if_pos hpos, List.map_cons, List.map_nil, cnt_singleton]
      by_cases hc1 : (stopsOf es db).getLastD 0 < p
      · rw [if_pos hc1, if_pos (by simp only; omega)]
      · rw [if_neg hc1, if_neg (by simp only; omega)]
    · rw [if_neg hpos, if_neg (by omega)]; rfl
  rw [h1, h2, h34, h45, hmid]
  split <;> split <;> split <;> omega

end RnaVerif.SecStr

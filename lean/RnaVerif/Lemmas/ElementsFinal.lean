import RnaVerif.Lemmas.ElementsCover
/-!
# C07 helper lemmas, part 7: the case without base pairs, strand texts, assembly

* a structure without stems has no 5'→3' pair; `elements` then reports one single strand covering
  the whole sequence (or nothing for the empty sequence);
* the four clauses of the specification for every valid BPSEQ;
* `StrandOk`: sequence and structure text of every reported strand are the slices `[first-1, last)`
  of the sequence and of the dot-bracket line.
-/
namespace RnaVerif.SecStr

/-! ### no base pairs -/

theorem paired5to3_nil_of_noStems {es : List Entry} (h : (stemsEntries es).isEmpty = true) :
    paired5to3 es = [] := by
  rw [← stemsEntries_flatten, List.isEmpty_iff.mp h]; rfl

theorem strandOf_all {es : List Entry} (v : ValidP es) (db : List Char) (hne : es ≠ []) :
    strandOf es db = ⟨1, es.length, slice (sequence es) 0 es.length, slice db 0 es.length⟩ := by
  have hpos : 0 < es.length := List.length_pos_iff.mpr hne
  have : es = slice es 0 es.length := by simp [slice]
  conv => lhs; rw [this]
  rw [strandOf_slice v db hpos (Nat.le_refl _)]

theorem nums_nopairs {es : List Entry} (v : ValidP es) (db : List Char)
    (h : (stemsEntries es).isEmpty = true) :
    (elements es db).nums =
      if es.isEmpty then ⟨[], [], [], []⟩ else ⟨[], [(1, es.length, 53)], [], []⟩ := by
  rw [elements_eq_nopairs es db h]
  by_cases he : es.isEmpty = true
  · rw [if_pos he, if_pos he]; rfl
  · rw [if_neg he, if_neg he]
    have hne : es ≠ [] := fun hh => he (by rw [hh]; rfl)
    rw [strandOf_all v db hne]; rfl

/-! ### the four clauses -/

theorem specStems_model {es : List Entry} (v : ValidP es) (db : List Char) :
    specStems es (elements es db).nums = true := by
  by_cases h : (stemsEntries es).isEmpty = true
  · have h5 := paired5to3_nil_of_noStems h
    rw [nums_nopairs v db h]
    unfold specStems
    split <;> simp [h5]
  · have h' : (stemsEntries es).isEmpty = false := by simpa using h
    exact specStems_regions v _ (nums_stems_eq v db h')

theorem specHairpins_model {es : List Entry} (v : ValidP es) (db : List Char) :
    specHairpins es (elements es db).nums = true := by
  by_cases h : (stemsEntries es).isEmpty = true
  · have h5 := paired5to3_nil_of_noStems h
    rw [nums_nopairs v db h]
    unfold specHairpins
    split <;> simp [h5]
  · have h' : (stemsEntries es).isEmpty = false := by simpa using h
    apply specHairpins_of v db
    rw [elements_eq es db h']
    simp only [Elements.nums, hairpinsOf_eq v db, List.map_map]
    rfl

theorem specLoops_model {es : List Entry} (v : ValidP es) (db : List Char) :
    specLoops es (elements es db).nums = true := by
  by_cases h : (stemsEntries es).isEmpty = true
  · rw [nums_nopairs v db h]
    unfold specLoops
    split <;> rfl
  · have h' : (stemsEntries es).isEmpty = false := by simpa using h
    have hc := candsOf_ok v db
    have inv := chainFold_inv v hc
    apply specLoops_of hc inv.sub inv.ok
    rw [elements_eq es db h']
    rfl

theorem specCover_model {es : List Entry} (v : ValidP es) (db : List Char) :
    specCover es (elements es db).nums = true := by
  by_cases h : (stemsEntries es).isEmpty = true
  · rw [nums_nopairs v db h, specCover_iff]
    intro e he _
    have hne : es ≠ [] := fun hh => by rw [hh] at he; simp at he
    have hemp : es.isEmpty = false := by
      cases es with
      | nil => exact absurd rfl hne
      | cons a t => rfl
    rw [hemp]
    simp only [Bool.false_eq_true, if_false]
    have : interiors ⟨[], [(1, es.length, 53)], [], []⟩ = [(1, es.length)] := rfl
    rw [this, cnt_singleton]
    have := v.idx_pos he
    rw [if_pos (by simp only; omega)]
  · have h' : (stemsEntries es).isEmpty = false := by simpa using h
    exact specCover_pairs v db h'

theorem specAll_model {es : List Entry} (v : ValidP es) (db : List Char) :
    specAll es (elements es db).nums = "ok" := by
  unfold specAll
  rw [specStems_model v db, specHairpins_model v db, specLoops_model v db, specCover_model v db]
  rfl

/-! ### strand texts -/

/-- sequence and structure text of the strand are the slices `[first-1, last)` -/
def StrandOk (es : List Entry) (db : List Char) (s : Strand) : Prop :=
  s.seq = slice (sequence es) (s.first - 1) s.last ∧ s.str = slice db (s.first - 1) s.last

/-- every strand of every element, in the order stems (5' then 3'), singles, hairpins, loops -/
def Elements.allStrands (e : Elements) : List Strand :=
  e.stems.flatMap (fun s => [s.s5, s.s3]) ++ e.singles.map (·.1) ++ e.hairpins ++ e.loops.flatten

theorem strandIv_ok (es : List Entry) (db : List Char) (ab : Nat × Nat) :
    StrandOk es db (strandIv es db ab) := ⟨rfl, rfl⟩

theorem cands_strandOk {es : List Entry} (v : ValidP es) (db : List Char) :
    ∀ c ∈ candsOf es db, StrandOk es db c := by
  intro c hc
  rw [candsOf_eq v db] at hc
  obtain ⟨ab, _, rfl⟩ := List.mem_map.mp hc
  exact strandIv_ok es db ab

theorem strand_text_model {es : List Entry} (v : ValidP es) (db : List Char) :
    ∀ s ∈ (elements es db).allStrands, StrandOk es db s := by
  by_cases h : (stemsEntries es).isEmpty = true
  · rw [elements_eq_nopairs es db h]
    by_cases he : es.isEmpty = true
    · rw [if_pos he]; intro s hs; simp [Elements.allStrands] at hs
    · rw [if_neg he]
      have hne : es ≠ [] := fun hh => he (by rw [hh]; rfl)
      intro s hs
      have : s = strandOf es db := by simpa [Elements.allStrands] using hs
      rw [this, strandOf_all v db hne]
      exact ⟨rfl, rfl⟩
  · have h' : (stemsEntries es).isEmpty = false := by simpa using h
    rw [elements_eq es db h']
    have hne := stopsOf_ne_nil v db h'
    have hs0p := stop_paired v db (headD_mem hne)
    have hsNp := stop_paired v db (getLastD_mem hne)
    have hc := candsOf_ok v db
    have inv := chainFold_inv v hc
    intro s hs
    simp only [Elements.allStrands, List.mem_append, List.mem_flatMap, List.mem_map] at hs
    rcases hs with ((hs | hs) | hs) | hs
    · -- stems
      obtain ⟨st, hst, hs⟩ := hs
      rw [stemsOf_eq v db] at hst
      obtain ⟨r, hr, rfl⟩ := List.mem_map.mp hst
      have hb := (stemFacts_regions v hr).bounds
      rcases List.mem_cons.mp hs with rfl | hs
      · exact ⟨rfl, rfl⟩
      · have : s = (stemElOf es db r).s3 := by simpa using hs
        rw [this]
        simp only [StrandOk, stemElOf]
        rw [show r.j - r.len + 1 - 1 = r.j - r.len by omega]
        exact ⟨rfl, rfl⟩
    · -- singles
      obtain ⟨sk, hsk, rfl⟩ := hs
      rcases hsk with hsk | hsk
      · rcases hsk with hsk | hsk
        · rw [fiveOf_eq v db hs0p.1] at hsk
          split at hsk
          · rw [List.mem_singleton] at hsk
            rw [hsk]; exact ⟨rfl, rfl⟩
          · simp at hsk
        · rw [threeOf_eq v db hsNp.1] at hsk
          split at hsk
          · rw [List.mem_singleton] at hsk
            rw [hsk]
            simp only [StrandOk, Nat.add_sub_cancel, and_self]
          · simp at hsk
      · unfold leftOf at hsk
        obtain ⟨c, hcm, rfl⟩ := List.mem_map.mp hsk
        exact cands_strandOk v db c (List.mem_filter.mp hcm).1
    · -- hairpins
      rw [hairpinsOf_eq v db] at hs
      obtain ⟨ab, _, rfl⟩ := List.mem_map.mp hs
      exact strandIv_ok es db ab
    · -- loops
      obtain ⟨l, hl, hcl⟩ := List.mem_flatten.mp hs
      exact cands_strandOk v db s (inv.sub l hl s hcl)

end RnaVerif.SecStr

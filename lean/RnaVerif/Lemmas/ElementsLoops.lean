import RnaVerif.Lemmas.ElementsStops
/-!
# C07 helper lemmas, part 5: loop candidates, chain following, loops

* `CandsOk` — what the loop candidates of a valid BPSEQ satisfy (proved for `candsOf`);
* `followChain` only appends fresh, unused candidates, each linked to its predecessor;
* the fold over the start indices keeps the invariant `LoopInv`: `used` is the concatenation of the
  reported loops, without repetition; every reported loop consists of candidates, is closed under
  the successor relation (so a start inside an already reported loop cannot move and is rejected by
  the closing test), has at least two strands, linked and closed;
* `specLoops` holds for the model.
-/
namespace RnaVerif.SecStr

theorem pairAt_eq (es : List Entry) (x : Nat) : pairAt es x = partnerOf es x :=
  getD_default_pair es (x - 1)

/-! ### candidates -/

structure CandsOk (es : List Entry) (cands : List Strand) : Prop where
  first_pos : ∀ c ∈ cands, 1 ≤ c.first
  lt : ∀ c ∈ cands, c.first < c.last
  last_le : ∀ c ∈ cands, c.last ≤ es.length
  opn : ∀ c ∈ cands, unpairedBetween es c.first c.last = true
  not_hp : ∀ c ∈ cands, partnerOf es c.first ≠ c.last
  inj : ∀ c ∈ cands, ∀ d ∈ cands, c.first = d.first → c = d
  nodup : cands.Nodup

theorem cdIvs_pairwise (es : List Entry) (db : List Char) :
    (cdIvs es db).Pairwise (fun p q => p.1 < q.1) :=
  (consec_pairwise (stopsOf_sorted es db)).sublist List.filter_sublist

theorem candsOf_ok {es : List Entry} (v : ValidP es) (db : List Char) :
    CandsOk es (candsOf es db) := by
  rw [candsOf_eq v db]
  have key : ∀ c ∈ (cdIvs es db).map (strandIv es db), ∃ a b, (a, b) ∈ consec (stopsOf es db) ∧
      hpIv es (a, b) = false ∧ openIv es (a, b) = true ∧ c = strandIv es db (a, b) := by
    intro c hc
    obtain ⟨⟨a, b⟩, hab, rfl⟩ := List.mem_map.mp hc
    obtain ⟨h1, h2, h3⟩ := mem_cdIvs.mp hab
    exact ⟨a, b, h1, h2, h3, rfl⟩
  have hpw : ((cdIvs es db).map (strandIv es db)).Pairwise (fun c d => c.first < d.first) := by
    rw [List.pairwise_map]
    apply (cdIvs_pairwise es db).imp
    intro p q hpq
    simp only [strandIv]; omega
  refine ⟨?_, ?_, ?_, ?_, ?_, ?_, ?_⟩
  · intro c hc
    obtain ⟨a, b, _, _, _, rfl⟩ := key c hc
    simp [strandIv]
  · intro c hc
    obtain ⟨a, b, h1, _, _, rfl⟩ := key c hc
    have := (consec_stops v db h1).1
    simp only [strandIv]; omega
  · intro c hc
    obtain ⟨a, b, h1, _, _, rfl⟩ := key c hc
    have := (consec_stops v db h1).2.1
    simp only [strandIv]; omega
  · intro c hc
    obtain ⟨a, b, _, _, h3, rfl⟩ := key c hc
    exact h3
  · intro c hc
    obtain ⟨a, b, _, h2, _, rfl⟩ := key c hc
    simp only [hpIv, beq_eq_false_iff_ne, ne_eq] at h2
    exact h2
  · intro c hc d hd hcd
    obtain ⟨u, hu, rfl⟩ := List.mem_iff_getElem.mp hc
    obtain ⟨w, hw, rfl⟩ := List.mem_iff_getElem.mp hd
    rw [List.pairwise_iff_getElem] at hpw
    rcases Nat.lt_trichotomy u w with h | h | h
    · have := hpw u w hu hw h; omega
    · subst h; rfl
    · have := hpw w u hw hu h; omega
  · apply hpw.imp
    intro c d hcd heq
    rw [heq] at hcd; omega

/-! ### consecutive pairs and links -/

theorem consecPairs_append_singleton {α} (l : List α) (x : α) :
    consecPairs (l ++ [x]) =
      consecPairs l ++ (match l.getLast? with | some a => [(a, x)] | none => []) := by
  induction l with
  | nil => simp [consecPairs]
  | cons a t ih =>
    cases t with
    | nil => simp [consecPairs]
    | cons b rest =>
      have h1 : consecPairs ((a :: b :: rest) ++ [x]) = (a, b) :: consecPairs ((b :: rest) ++ [x]) := rfl
      have h2 : consecPairs (a :: b :: rest) = (a, b) :: consecPairs (b :: rest) := rfl
      have h3 : (a :: b :: rest).getLast? = (b :: rest).getLast? := by simp [List.getLast?_cons_cons]
      rw [h1, h2, h3, ih, List.cons_append]

theorem consecPairs_map {α β} (f : α → β) (l : List α) :
    consecPairs (l.map f) = (consecPairs l).map (fun p => (f p.1, f p.2)) := by
  induction l with
  | nil => rfl
  | cons a t ih =>
    cases t with
    | nil => rfl
    | cons b rest =>
      have h2 : consecPairs (a :: b :: rest) = (a, b) :: consecPairs (b :: rest) := rfl
      have h1 : consecPairs ((a :: b :: rest).map f) = (f a, f b) :: consecPairs ((b :: rest).map f) := rfl
      rw [h1, h2, ih]; rfl

/-- every member of a list is its last element or has a right neighbour in the list -/
theorem mem_last_or_next {α} {l : List α} {c : α} (hc : c ∈ l) :
    l.getLast? = some c ∨ ∃ d, (c, d) ∈ consecPairs l ∧ d ∈ l := by
  induction l with
  | nil => simp at hc
  | cons a t ih =>
    cases t with
    | nil =>
      left
      have : c = a := by simpa using hc
      simp [this]
    | cons b rest =>
      have h2 : consecPairs (a :: b :: rest) = (a, b) :: consecPairs (b :: rest) := rfl
      have h3 : (a :: b :: rest).getLast? = (b :: rest).getLast? := by simp [List.getLast?_cons_cons]
      rw [h2, h3]
      rcases List.mem_cons.mp hc with rfl | hc'
      · right; exact ⟨b, by simp, by simp⟩
      · rcases ih hc' with h | ⟨d, hd, hd'⟩
        · left; exact h
        · right; exact ⟨d, List.mem_cons_of_mem _ hd, List.mem_cons_of_mem _ hd'⟩

/-- consecutive strands are linked: the last nucleotide of one is paired with the first of the next -/
def LinkedBy (es : List Entry) (l : List Strand) : Prop :=
  ∀ p ∈ consecPairs l, partnerOf es p.1.last = p.2.first

/-! ### followChain -/

structure ChainInv (es : List Entry) (cands used : List Strand) (start : Strand) (cur : Nat)
    (chain : List Strand) : Prop where
  shape : ∃ ext, chain = start :: ext ∧ ∀ c ∈ ext, c ∉ used
  linked : LinkedBy es chain
  nodup : chain.Nodup
  sub : ∀ c ∈ chain, c ∈ cands
  last : chain.getLast? = some (cands.getD cur default)

theorem mem_succOf {es : List Entry} {cands : List Strand} {i j : Nat} :
    j ∈ succOf es cands i ↔ j < cands.length ∧ j ≠ i ∧
      partnerOf es (cands.getD i default).last = (cands.getD j default).first := by
  simp [succOf, List.mem_filter, pairAt_eq]

theorem getD_mem {cands : List Strand} {j : Nat} (hj : j < cands.length) :
    cands.getD j default ∈ cands := by
  rw [List.getD_eq_getElem?_getD, List.getElem?_eq_getElem hj]
  exact List.getElem_mem hj

theorem followChain_inv (es : List Entry) (cands used : List Strand) (start : Strand) :
    ∀ (fuel cur : Nat) (chain : List Strand), ChainInv es cands used start cur chain →
      ∃ cur', ChainInv es cands used start cur'
        (followChain cands (succOf es cands) used fuel cur chain) := by
  intro fuel
  induction fuel with
  | zero => intro cur chain h; exact ⟨cur, h⟩
  | succ fuel ih =>
    intro cur chain h
    rw [followChain]
    split
    · rename_i j hj
      have hp := List.find?_some hj
      have hm := List.mem_of_find?_eq_some hj
      obtain ⟨hjl, _, hlink⟩ := mem_succOf.mp hm
      simp only [Bool.and_eq_true, Bool.not_eq_true', ← Bool.not_eq_true,
        List.contains_iff_mem] at hp
      apply ih
      obtain ⟨ext, hext, hfresh⟩ := h.shape
      refine ⟨⟨ext ++ [cands.getD j default], by rw [hext]; rfl, ?_⟩, ?_, ?_, ?_, ?_⟩
      · intro c hc
        rcases List.mem_append.mp hc with hc | hc
        · exact hfresh c hc
        · have : c = cands.getD j default := by simpa using hc
          rw [this]; exact hp.1
      · intro p hp'
        rw [consecPairs_append_singleton, h.last] at hp'
        rcases List.mem_append.mp hp' with hp' | hp'
        · exact h.linked p hp'
        · have : p = (cands.getD cur default, cands.getD j default) := by simpa using hp'
          rw [this]; exact hlink
      · rw [List.nodup_append]
        refine ⟨h.nodup, by simp, ?_⟩
        intro a ha b hb hab
        have : b = cands.getD j default := by simpa using hb
        rw [hab, this] at ha
        exact hp.2 ha
      · intro c hc
        rcases List.mem_append.mp hc with hc | hc
        · exact h.sub c hc
        · have : c = cands.getD j default := by simpa using hc
          rw [this]; exact getD_mem hjl
      · simp
    · exact ⟨cur, h⟩

/-- if every successor of the current candidate is used (or already in the chain), the chain does
not grow -/
theorem followChain_stuck (cands used : List Strand) (succ : Nat → List Nat) (fuel cur : Nat)
    (chain : List Strand)
    (h : ∀ j ∈ succ cur, cands.getD j default ∈ used ∨ cands.getD j default ∈ chain) :
    followChain cands succ used fuel cur chain = chain := by
  cases fuel with
  | zero => rfl
  | succ fuel =>
    rw [followChain]
    have : (succ cur).find? (fun j => !used.contains (cands.getD j default) &&
        !chain.contains (cands.getD j default)) = none := by
      rw [List.find?_eq_none]
      intro j hj
      simp only [Bool.and_eq_true, Bool.not_eq_true', ← Bool.not_eq_true, List.contains_iff_mem]
      rintro ⟨h1, h2⟩
      rcases h j hj with h | h
      · exact h1 h
      · exact h2 h
    rw [this]

/-! ### the fold over the start indices -/

/-- the loop is closed under the successor relation among the candidates -/
def ClosedUnder (es : List Entry) (cands l : List Strand) : Prop :=
  ∀ c ∈ l, ∀ d ∈ cands, partnerOf es c.last = d.first → d ∈ l

/-- a well-formed loop: at least two strands, linked, and the first nucleotide of the first strand
is paired with the last nucleotide of the last strand -/
structure LoopOk (es : List Entry) (l : List Strand) : Prop where
  two : 2 ≤ l.length
  linked : LinkedBy es l
  closing : ∃ a b, l.head? = some a ∧ l.getLast? = some b ∧ partnerOf es a.first = b.last

structure LoopInv (es : List Entry) (cands : List Strand)
    (acc : List (List Strand) × List Strand) : Prop where
  used_eq : acc.2 = acc.1.flatten
  nodup : acc.1.flatten.Nodup
  sub : ∀ l ∈ acc.1, ∀ c ∈ l, c ∈ cands
  closed : ∀ l ∈ acc.1, ClosedUnder es cands l
  ok : ∀ l ∈ acc.1, LoopOk es l

theorem foldl_inv {α β} (P : α → Prop) (f : α → β → α) (l : List β) (init : α) (h0 : P init)
    (hstep : ∀ a, ∀ b ∈ l, P a → P (f a b)) : P (l.foldl f init) := by
  induction l generalizing init with
  | nil => exact h0
  | cons b t ih =>
    rw [List.foldl_cons]
    exact ih _ (hstep init b (by simp) h0) (fun a b' hb' => hstep a b' (List.mem_cons_of_mem _ hb'))

theorem chainStep_inv {es : List Entry} (v : ValidP es) {cands : List Strand}
    (hc : CandsOk es cands) (acc : List (List Strand) × List Strand) (i : Nat)
    (hi : i < cands.length) (h : LoopInv es cands acc) : LoopInv es cands (chainStep es cands acc i) := by
  unfold chainStep
  have hci : cands.getD i default ∈ cands := getD_mem hi
  have hinit : ChainInv es cands acc.2 (cands.getD i default) i [cands.getD i default] :=
    ⟨⟨[], rfl, by simp⟩, by intro p hp; simp [consecPairs] at hp, by simp,
      by intro c hc'; have : c = cands.getD i default := by simpa using hc'
         rw [this]; exact hci, by simp⟩
  -- the stuck case: the start already belongs to a reported loop
  have hstuck : cands.getD i default ∈ acc.2 →
      followChain cands (succOf es cands) acc.2 cands.length i [cands.getD i default] =
        [cands.getD i default] := by
    intro hu
    apply followChain_stuck
    intro j hj
    left
    obtain ⟨hjl, _, hlink⟩ := mem_succOf.mp hj
    rw [h.used_eq] at hu ⊢
    obtain ⟨l, hl, hcl⟩ := List.mem_flatten.mp hu
    exact List.mem_flatten.mpr ⟨l, hl, h.closed l hl _ hcl _ (getD_mem hjl) hlink⟩
  obtain ⟨cur', hch⟩ := followChain_inv es cands acc.2 (cands.getD i default) cands.length i _ hinit
  generalize followChain cands (succOf es cands) acc.2 cands.length i [cands.getD i default] = chain
    at hch hstuck ⊢
  generalize cands.getD i default = start at hch hstuck hci
  simp only
  split
  · rename_i hclose
    split
    · -- the chain closes and is reported
      obtain ⟨ext, hext, hfresh⟩ := hch.shape
      have hbmem : cands.getD cur' default ∈ chain := List.mem_of_getLast? hch.last
      have hb := hch.sub _ hbmem
      have hlast := hch.last
      generalize cands.getD cur' default = b at hlast hbmem hb
      have hclose' : partnerOf es start.first = b.last := by
        rw [beq_iff_eq, pairAt_eq, List.getLastD_eq_getLast?, hlast, hext] at hclose
        exact hclose
      have hne : ext ≠ [] := by
        intro he
        rw [he] at hext
        rw [hext] at hlast
        have : start = b := by simpa using hlast
        rw [← this] at hclose'
        exact hc.not_hp start hci hclose'
      have hnotused : start ∉ acc.2 := by
        intro hu
        have := hstuck hu
        rw [hext] at this
        exact hne (by simpa using this)
      have hsymm : partnerOf es b.last = start.first :=
        (partnerOf_symm v (hc.first_pos start hci) hclose'
          (by have := hc.lt b hb; omega)).1
      refine ⟨?_, ?_, ?_, ?_, ?_⟩
      · simp only [List.flatten_append, List.flatten_cons, List.flatten_nil, List.append_nil,
          h.used_eq]
      · simp only [List.flatten_append, List.flatten_cons, List.flatten_nil, List.append_nil]
        rw [List.nodup_append]
        refine ⟨h.nodup, hch.nodup, ?_⟩
        intro a ha c hcc hac
        rw [← h.used_eq] at ha
        rw [hext] at hcc
        rcases List.mem_cons.mp hcc with rfl | hcc
        · rw [hac] at ha; exact hnotused ha
        · rw [hac] at ha; exact hfresh c hcc ha
      · intro l hl
        rcases List.mem_append.mp hl with hl | hl
        · exact h.sub l hl
        · have : l = chain := by simpa using hl
          rw [this]; exact hch.sub
      · intro l hl
        rcases List.mem_append.mp hl with hl | hl
        · exact h.closed l hl
        · have : l = chain := by simpa using hl
          rw [this]
          intro c hcc d hd hlink
          rcases mem_last_or_next hcc with hl' | ⟨d', hd', hd'mem⟩
          · have hcb : c = b := by rw [hlast] at hl'; exact (Option.some.inj hl').symm
            rw [hcb, hsymm] at hlink
            have : start = d := hc.inj start hci d hd hlink
            rw [← this, hext]; simp
          · have := hch.linked _ hd'
            simp only at this
            rw [this] at hlink
            have : d' = d := hc.inj d' (hch.sub d' hd'mem) d hd hlink
            rw [← this]; exact hd'mem
      · intro l hl
        rcases List.mem_append.mp hl with hl | hl
        · exact h.ok l hl
        · have : l = chain := by simpa using hl
          rw [this]
          refine ⟨?_, hch.linked, start, b, by rw [hext]; rfl, hlast, hclose'⟩
          rw [hext]
          cases ext with
          | nil => exact absurd rfl hne
          | cons x xs => simp
    · exact h
  · exact h

theorem chainFold_inv {es : List Entry} (v : ValidP es) {cands : List Strand}
    (hc : CandsOk es cands) : LoopInv es cands (chainFold es cands) := by
  unfold chainFold
  apply foldl_inv (LoopInv es cands)
  · exact ⟨rfl, by simp, by simp, by simp, by simp⟩
  · intro acc i hi h
    exact chainStep_inv v hc acc i (List.mem_range.mp hi) h

/-! ### the loop clause of the specification -/

def strandNums (s : Strand) : Nat × Nat := (s.first, s.last)

theorem specLoops_of {es : List Entry} {cands : List Strand} (hc : CandsOk es cands)
    {loops : List (List Strand)} (hsub : ∀ l ∈ loops, ∀ c ∈ l, c ∈ cands)
    (hok : ∀ l ∈ loops, LoopOk es l) (el : ElemNums)
    (hel : el.loops = loops.map (fun l => l.map strandNums)) : specLoops es el = true := by
  unfold specLoops
  rw [hel, List.all_eq_true]
  intro q hq
  obtain ⟨l, hl, rfl⟩ := List.mem_map.mp hq
  have ok := hok l hl
  simp only [Bool.and_eq_true, decide_eq_true_eq, List.length_map]
  refine ⟨⟨⟨ok.two, ?_⟩, ?_⟩, ?_⟩
  · rw [List.all_eq_true]
    intro x hx
    obtain ⟨c, hcl, rfl⟩ := List.mem_map.mp hx
    have hcc := hsub l hl c hcl
    simp only [strandNums, Bool.and_eq_true]
    exact ⟨decide_eq_true (hc.lt c hcc), hc.opn c hcc⟩
  · rw [consecPairs_map, List.all_eq_true]
    intro x hx
    obtain ⟨p, hp, rfl⟩ := List.mem_map.mp hx
    simp only [strandNums, beq_iff_eq]
    exact ok.linked p hp
  · obtain ⟨a, b, ha, hb, hab⟩ := ok.closing
    rw [List.head?_map, List.getLast?_map, ha, hb]
    simp only [Option.map_some, strandNums, beq_iff_eq]
    exact hab

end RnaVerif.SecStr

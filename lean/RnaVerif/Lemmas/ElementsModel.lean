import RnaVerif.Lemmas.ElementsBasic
/-!
# C07 helper lemmas, part 2: the pieces of `elements` as separate definitions

`elements` (Model/Elements.lean) is one long `let` chain.  Here every intermediate value gets a
name (`stemsOf`, `stopsOf`, `clsOf`, `hairpinsOf`, `candsOf`, `succOf`, `chainStep`, `chainFold`,
`leftOf`, `fiveOf`, `threeOf`), and `elements_eq` shows — by unfolding only — that the model is
exactly their combination.  All later lemmas talk about the named pieces.
-/
namespace RnaVerif.SecStr

def stemsOf (es : List Entry) (db : List Char) : List StemEl :=
  (stemsEntries es).map (fun g => stemOf g es db)

def stopsOf (es : List Entry) (db : List Char) : List Nat :=
  sortDedup ((stemsOf es db).flatMap
    (fun s => [s.s5.first - 1, s.s5.last - 1, s.s3.first - 1, s.s3.last - 1]))

def fiveOf (es : List Entry) (db : List Char) : List (Strand × SSKind) :=
  if (stopsOf es db).headD 0 > 0 then [(strandOf (es.take ((stopsOf es db).headD 0 + 1)) db, .five)]
  else []

def threeOf (es : List Entry) (db : List Char) : List (Strand × SSKind) :=
  if (stopsOf es db).getLastD 0 + 1 < es.length then
    [(strandOf (es.drop ((stopsOf es db).getLastD 0)) db, .three)] else []

def clsOf (es : List Entry) (db : List Char) : List (Bool × Strand) :=
  (consec (stopsOf es db)).filterMap (fun (a, b) =>
    let cand := slice es a (b + 1)
    let interior := (cand.drop 1).dropLast
    if interior.all (fun e => e.pair == 0) then
      if (cand.headD default).pair == (cand.getLastD default).idx then some (true, strandOf cand db)
      else some (false, strandOf cand db)
    else none)

def hairpinsOf (es : List Entry) (db : List Char) : List Strand :=
  ((clsOf es db).filter (·.1)).map (·.2)

def candsOf (es : List Entry) (db : List Char) : List Strand :=
  ((clsOf es db).filter (fun c => !c.1)).map (·.2)

def pairAt (es : List Entry) (pos : Nat) : Nat := (es.getD (pos - 1) default).pair

def succOf (es : List Entry) (cands : List Strand) (i : Nat) : List Nat :=
  (List.range cands.length).filter
    (fun j => j != i && pairAt es (cands.getD i default).last == (cands.getD j default).first)

def chainStep (es : List Entry) (cands : List Strand)
    (acc : List (List Strand) × List Strand) (i : Nat) : List (List Strand) × List Strand :=
  let chain := followChain cands (succOf es cands) acc.2 cands.length i [cands.getD i default]
  if pairAt es (chain.headD default).first == (chain.getLastD default).last then
    if !(chain.all (fun s => s.last - s.first ≤ 1)) then (acc.1 ++ [chain], acc.2 ++ chain)
    else acc
  else acc

def chainFold (es : List Entry) (cands : List Strand) : List (List Strand) × List Strand :=
  (List.range cands.length).foldl (chainStep es cands) ([], [])

def leftOf (es : List Entry) (db : List Char) : List (Strand × SSKind) :=
  ((candsOf es db).filter (fun c => !(chainFold es (candsOf es db)).2.contains c)).map
    (fun c => (c, SSKind.plain))

/-- the model is the combination of the named pieces -/
theorem elements_eq (es : List Entry) (db : List Char) (h : (stemsEntries es).isEmpty = false) :
    elements es db =
      ⟨stemsOf es db, fiveOf es db ++ threeOf es db ++ leftOf es db, hairpinsOf es db,
        (chainFold es (candsOf es db)).1⟩ := by
  unfold elements
  simp only [h, Bool.false_eq_true, if_false]
  rfl

theorem elements_eq_nopairs (es : List Entry) (db : List Char)
    (h : (stemsEntries es).isEmpty = true) :
    elements es db =
      if es.isEmpty then ⟨[], [], [], []⟩ else ⟨[], [(strandOf es db, .both)], [], []⟩ := by
  unfold elements
  simp only [h, if_true]

end RnaVerif.SecStr

import RnaVerif.Lemmas.ElementsModel
/-!
# C07 helper lemmas, part 3: stems

* every group of `stemsEntries` is a slice of the entries, and the 3' strand that `stemOf` finds by
  filtering all entries is the mirrored slice — so the numbers of every stem are a function
  (`stemNums`) of its region;
* `groupStems` never leaves two directly stacked runs next to each other (maximality);
* `specStems` holds for the model.
-/
namespace RnaVerif.SecStr

/-- arithmetic facts of a region of a valid BPSEQ -/
theorem StemFacts.bounds {es : List Entry} {r : Region} (hr : StemFacts es r) :
    1 ≤ r.i ∧ 0 < r.len ∧ r.i + 2 * r.len ≤ r.j + 1 ∧ r.j ≤ es.length := by
  have hl := hr.len_pos
  obtain ⟨e, _, e1, e2, e3, e4, e5⟩ := hr.pairs 0 hl
  obtain ⟨f, _, f1, f2, f3, f4, f5⟩ := hr.pairs (r.len - 1) (by omega)
  omega

/-- the `t`-th pair of a region, as partner lookups in both directions -/
theorem StemFacts.partners {es : List Entry} (v : ValidP es) {r : Region} (hr : StemFacts es r)
    {t : Nat} (ht : t < r.len) :
    partnerOf es (r.i + t) = r.j - t ∧ partnerOf es (r.j - t) = r.i + t := by
  obtain ⟨e, he, e1, e2, e3, e4, e5⟩ := hr.pairs t ht
  have h1 := v.partner_idx he
  have h2 := (v.pair_ok he (by omega)).2.2
  have hp : e.pair = r.j - t := by omega
  rw [e1, hp] at h1
  rw [e1, hp] at h2
  exact ⟨h1, h2⟩

/-- a group of `stemsEntries` is the slice of the entries starting at its first index -/
theorem group_eq_slice {es : List Entry} (v : ValidP es) {g : List Entry}
    (hg : g ∈ stemsEntries es) :
    g = slice es ((regionOf g).i - 1) ((regionOf g).i - 1 + (regionOf g).len) := by
  have hf := stemFacts_of_stem v hg
  have hb := hf.bounds
  obtain ⟨e, rest, rfl, hs⟩ := stemsEntries_isStem es g hg
  have hlen : (regionOf (e :: rest)).len = (e :: rest).length := rfl
  have hi : (regionOf (e :: rest)).i = e.idx := rfl
  apply List.ext_getElem
  · rw [slice_length _ _ _ (by omega)]; omega
  · intro t h1 h2
    have hk : (regionOf (e :: rest)).i - 1 + t < es.length := by omega
    rw [slice_getElem _ _ _ _ h2 hk]
    apply v.idx_inj (mem_paired5to3.mp (mem_of_mem_stem hg (List.getElem_mem h1))).1
      (List.getElem_mem hk)
    rw [(hs t h1).1, v.idx_get _ hk, hi]
    omega

/-- the 3' strand found by filtering all entries is the mirrored slice -/
theorem stem3_eq_slice {es : List Entry} (v : ValidP es) {g : List Entry}
    (hg : g ∈ stemsEntries es) :
    es.filter (fun e => (g.map (·.pair)).contains e.idx) =
      slice es ((regionOf g).j - (regionOf g).len) (regionOf g).j := by
  have hf := stemFacts_of_stem v hg
  have hb := hf.bounds
  obtain ⟨e, rest, rfl, hs⟩ := stemsEntries_isStem es g hg
  have hlen : (regionOf (e :: rest)).len = (e :: rest).length := rfl
  have hj : (regionOf (e :: rest)).j = e.pair := rfl
  have := filter_idx_range v (lo := (regionOf (e :: rest)).j - (regionOf (e :: rest)).len + 1)
    (hi := (regionOf (e :: rest)).j) (by omega) hb.2.2.2
    (fun x => ((e :: rest).map (·.pair)).contains x.idx) ?_
  · rw [this]; congr 1
  · intro x _
    rw [List.contains_iff_mem, List.mem_map]
    constructor
    · rintro ⟨y, hy, hyx⟩
      obtain ⟨t, ht, rfl⟩ := List.mem_iff_getElem.mp hy
      have := (hs t ht).2
      omega
    · intro hx
      have ht : e.pair - x.idx < (e :: rest).length := by omega
      refine ⟨(e :: rest)[e.pair - x.idx], List.getElem_mem ht, ?_⟩
      have := (hs _ ht).2
      omega

/-- the four numbers of the stem of a region -/
def stemNums (r : Region) : Nat × Nat × Nat × Nat :=
  (r.i, r.i + r.len - 1, r.j - r.len + 1, r.j)

/-- the stem element of a region: numbers and the slices of sequence and dot-bracket -/
def stemElOf (es : List Entry) (db : List Char) (r : Region) : StemEl :=
  ⟨⟨r.i, r.i + r.len - 1, slice (sequence es) (r.i - 1) (r.i + r.len - 1),
      slice db (r.i - 1) (r.i + r.len - 1)⟩,
   ⟨r.j - r.len + 1, r.j, slice (sequence es) (r.j - r.len) r.j, slice db (r.j - r.len) r.j⟩⟩

theorem stemNums_cases (r : Region) : ∃ f5 l5 f3 l3, stemNums r = (f5, l5, f3, l3) ∧ f5 = r.i ∧
    l5 = r.i + r.len - 1 ∧ f3 = r.j - r.len + 1 ∧ l3 = r.j :=
  ⟨_, _, _, _, rfl, rfl, rfl, rfl, rfl⟩

theorem stemOf_eq {es : List Entry} (v : ValidP es) (db : List Char) {g : List Entry}
    (hg : g ∈ stemsEntries es) : stemOf g es db = stemElOf es db (regionOf g) := by
  have hf := stemFacts_of_stem v hg
  have hb := hf.bounds
  unfold stemOf
  simp only
  rw [stem3_eq_slice v hg]
  conv => lhs; arg 1; rw [group_eq_slice v hg]
  rw [strandOf_slice v db (by omega) (by omega), strandOf_slice v db (by omega) (by omega)]
  unfold stemElOf
  have h1 : (regionOf g).i - 1 + 1 = (regionOf g).i := by omega
  have h2 : (regionOf g).i - 1 + (regionOf g).len = (regionOf g).i + (regionOf g).len - 1 := by
    omega
  have h3 : (regionOf g).j - (regionOf g).len + 1 = (regionOf g).j - (regionOf g).len + 1 := rfl
  rw [h1, h2]

theorem stemsOf_eq {es : List Entry} (v : ValidP es) (db : List Char) :
    stemsOf es db = (regions es).map (stemElOf es db) := by
  unfold stemsOf regions
  rw [List.map_map]
  apply List.map_congr_left
  intro g hg
  exact stemOf_eq v db hg

/-! ### maximality of the runs -/

/-- `h` is directly stacked inside `g` (would extend the run `g`) -/
def Stacked (g h : List Entry) : Prop :=
  (regionOf h).i = (regionOf g).i + (regionOf g).len ∧
  (regionOf h).j + (regionOf g).len = (regionOf g).j

def NoStackL : List (List Entry) → Prop
  | g :: h :: rest => ¬ Stacked g h ∧ NoStackL (h :: rest)
  | _ => True

theorem groupStems_noStack (l : List Entry) : NoStackL (groupStems l) := by
  induction l with
  | nil => simp [groupStems, NoStackL]
  | cons e rest ih =>
    rw [groupStems]
    cases hgs : groupStems rest with
    | nil => simp [NoStackL]
    | cons g0 gs =>
      rw [hgs] at ih
      cases g0 with
      | nil => simp [NoStackL]
      | cons f g =>
        simp only
        split
        · rename_i hc
          simp only [Bool.and_eq_true, beq_iff_eq] at hc
          cases gs with
          | nil => simp [NoStackL]
          | cons h gs' =>
            simp only [NoStackL] at ih ⊢
            refine ⟨?_, ih.2⟩
            intro hst
            apply ih.1
            simp only [Stacked, regionOf, List.length_cons] at hst ⊢
            omega
        · rename_i hc
          simp only [Bool.and_eq_true, beq_iff_eq] at hc
          simp only [NoStackL]
          refine ⟨?_, ih⟩
          intro hst
          apply hc
          simp only [Stacked, regionOf, List.length_cons, List.length_nil] at hst
          omega

theorem noStackL_index {G : List (List Entry)} (h : NoStackL G) (u : Nat)
    (hu : u + 1 < G.length) : ¬ Stacked G[u] G[u + 1] := by
  induction G generalizing u with
  | nil => simp at hu
  | cons g t ih =>
    cases t with
    | nil => simp at hu
    | cons h' rest =>
      simp only [NoStackL] at h
      cases u with
      | zero => exact h.1
      | succ u =>
        have := ih h.2 u (by simpa using hu)
        simpa using this

/-- two consecutive regions are never directly stacked -/
theorem regions_noStack (es : List Entry) (u : Nat) (hu : u + 1 < (regions es).length) :
    ¬ ((regions es)[u + 1].i = (regions es)[u].i + (regions es)[u].len ∧
       (regions es)[u + 1].j + (regions es)[u].len = (regions es)[u].j) := by
  have hu' : u + 1 < (stemsEntries es).length := by simpa [regions] using hu
  have := noStackL_index (groupStems_noStack (paired5to3 es)) u hu'
  rw [regions_getElem es u (by omega), regions_getElem es (u + 1) hu]
  exact this

/-- no two regions at all are directly stacked -/
theorem regions_noStack_any {es : List Entry} (v : ValidP es) {r s : Region}
    (hr : r ∈ regions es) (hs : s ∈ regions es) :
    ¬ (s.i = r.i + r.len ∧ s.j + r.len = r.j) := by
  obtain ⟨u, hu, rfl⟩ := List.mem_iff_getElem.mp hr
  obtain ⟨w, hw, rfl⟩ := List.mem_iff_getElem.mp hs
  intro hst
  have fu := (stemFacts_regions v (List.getElem_mem hu)).bounds
  have fw := (stemFacts_regions v (List.getElem_mem hw)).bounds
  have huw : u < w := by
    apply Decidable.byContradiction
    intro hc
    rcases Nat.lt_or_ge w u with h | h
    · have := regions_sorted v w u hw hu h; omega
    · have : u = w := by omega
      subst this; omega
  have hw1 : w = u + 1 := by
    apply Decidable.byContradiction
    intro hc
    have hm : u + 1 < (regions es).length := by omega
    have fm := (stemFacts_regions v (List.getElem_mem hm)).bounds
    have h1 := regions_sorted v u (u + 1) hu hm (by omega)
    have h2 := regions_sorted v (u + 1) w hm hw (by omega)
    omega
  subst hw1
  exact regions_noStack es u hw hst

/-! ### the stems clause of the specification -/

theorem nums_stems_eq {es : List Entry} (v : ValidP es) (db : List Char)
    (h : (stemsEntries es).isEmpty = false) :
    (elements es db).nums.stems = (regions es).map stemNums := by
  rw [elements_eq es db h]
  simp only [Elements.nums, stemsOf_eq v db, List.map_map]
  rfl

theorem specStems_regions {es : List Entry} (v : ValidP es) (el : ElemNums)
    (hel : el.stems = (regions es).map stemNums) : specStems es el = true := by
  unfold specStems
  rw [hel]
  simp only [Bool.and_eq_true, List.all_eq_true]
  refine ⟨⟨?_, ?_⟩, ?_⟩
  · -- mirrored strands of stacked pairs
    intro q hq
    obtain ⟨r, hr, rfl⟩ := List.mem_map.mp hq
    have hf := stemFacts_regions v hr
    have hb := hf.bounds
    obtain ⟨f5, l5, f3, l3, hq, h1, h2, h3, h4⟩ := stemNums_cases r
    rw [hq]
    simp only [decide_eq_true_eq, beq_iff_eq, List.mem_range]
    refine ⟨⟨⟨⟨by omega, by omega⟩, by omega⟩, by omega⟩, ?_⟩
    intro t ht
    have := hf.partners v (t := t) (by omega)
    rw [h1, h4]; exact this
  · -- every 5'→3' pair lies in exactly one stem
    intro e he
    rw [beq_iff_eq]
    apply filter_length_one
    · rw [List.pairwise_map, List.pairwise_iff_getElem]
      intro u w hu hw huw
      have fu := (stemFacts_regions v (List.getElem_mem hu)).bounds
      have fw := (stemFacts_regions v (List.getElem_mem hw)).bounds
      have := regions_sorted v u w hu hw huw
      obtain ⟨f5, l5, f3, l3, hq, h1, h2, h3, h4⟩ := stemNums_cases (regions es)[u]
      obtain ⟨f5', l5', f3', l3', hq', h1', h2', h3', h4'⟩ := stemNums_cases (regions es)[w]
      rw [hq, hq']
      simp only [Bool.and_eq_true, decide_eq_true_eq, beq_iff_eq]
      omega
    · have : e ∈ (stemsEntries es).flatten := by rw [stemsEntries_flatten]; exact he
      obtain ⟨g, hg, heg⟩ := List.mem_flatten.mp this
      refine ⟨stemNums (regionOf g), List.mem_map.mpr ⟨regionOf g, List.mem_map.mpr ⟨g, hg, rfl⟩, rfl⟩, ?_⟩
      have hb := (stemFacts_of_stem v hg).bounds
      obtain ⟨e0, rest, rfl, hs⟩ := stemsEntries_isStem es g hg
      obtain ⟨t, ht, rfl⟩ := List.mem_iff_getElem.mp heg
      have := hs t ht
      have hlen : (regionOf (e0 :: rest)).len = (e0 :: rest).length := rfl
      have hi : (regionOf (e0 :: rest)).i = e0.idx := rfl
      have hj : (regionOf (e0 :: rest)).j = e0.pair := rfl
      obtain ⟨f5, l5, f3, l3, hq, h1, h2, h3, h4⟩ := stemNums_cases (regionOf (e0 :: rest))
      rw [hq]
      simp only [Bool.and_eq_true, decide_eq_true_eq, beq_iff_eq]
      omega
  · -- maximality
    intro q hq q' hq'
    obtain ⟨r, hr, rfl⟩ := List.mem_map.mp hq
    obtain ⟨s, hs, rfl⟩ := List.mem_map.mp hq'
    have := regions_noStack_any v hr hs
    have fr := (stemFacts_regions v hr).bounds
    have fs := (stemFacts_regions v hs).bounds
    obtain ⟨f5, l5, f3, l3, hq, h1, h2, h3, h4⟩ := stemNums_cases r
    obtain ⟨f5', l5', f3', l3', hq', h1', h2', h3', h4'⟩ := stemNums_cases s
    rw [hq, hq']
    simp only [Bool.not_eq_true', Bool.and_eq_false_iff, beq_eq_false_iff_ne, ne_eq]
    omega

end RnaVerif.SecStr

import RnaVerif.Lemmas.ElementsStems
/-!
# C07 helper lemmas, part 4: stops, intervals between consecutive stops, hairpins

* the stops are exactly the (0-based) ends of the stem strands; every stop is paired; every paired
  position lies in a stem strand, whose two ends are stops;
* hence between two consecutive stops the nucleotides are all unpaired or all paired
  (`interval_uniform`);
* `clsOf` (the classification of the consecutive-stop intervals) in closed form, and from it
  `hairpinsOf` / `candsOf` as filtered interval lists;
* `specHairpins` holds for the model.
-/
namespace RnaVerif.SecStr

/-! ### generic -/

theorem filterMap_congr' {α β} {f g : α → Option β} {l : List α} (h : ∀ x ∈ l, f x = g x) :
    l.filterMap f = l.filterMap g := by
  induction l with
  | nil => rfl
  | cons a t ih =>
    rw [List.filterMap_cons, List.filterMap_cons, h a (by simp),
      ih (fun x hx => h x (List.mem_cons_of_mem _ hx))]

theorem filterMap_ite {α β} (c : α → Bool) (g : α → β) (l : List α) :
    l.filterMap (fun x => if c x = true then some (g x) else none) = (l.filter c).map g := by
  induction l with
  | nil => rfl
  | cons a t ih =>
    rw [List.filterMap_cons, List.filter_cons]
    by_cases h : c a = true
    · simp [h, ih]
    · simp [h, ih]

/-! ### every 5'→3' pair lies in a region -/

theorem pair_in_region {es : List Entry} {e : Entry} (he : e ∈ paired5to3 es) :
    ∃ r ∈ regions es, ∃ t, t < r.len ∧ e.idx = r.i + t ∧ e.pair + t = r.j := by
  have : e ∈ (stemsEntries es).flatten := by rw [stemsEntries_flatten]; exact he
  obtain ⟨g, hg, heg⟩ := List.mem_flatten.mp this
  refine ⟨regionOf g, List.mem_map.mpr ⟨g, hg, rfl⟩, ?_⟩
  obtain ⟨e0, rest, rfl, hs⟩ := stemsEntries_isStem es g hg
  obtain ⟨t, ht, rfl⟩ := List.mem_iff_getElem.mp heg
  exact ⟨t, ht, (hs t ht).1, (hs t ht).2⟩

/-- every paired position (1-based `x`) lies in a stem strand: either on the 5' side of a region
(`x = r.i + t`) or on its 3' side (`x = r.j - t`) -/
theorem paired_in_region {es : List Entry} (v : ValidP es) {x : Nat} (hx1 : 1 ≤ x)
    (hp : partnerOf es x ≠ 0) :
    ∃ r ∈ regions es, ∃ t, t < r.len ∧ (x = r.i + t ∨ x = r.j - t) := by
  obtain ⟨hs1, hs2, hs3, hs4, hs5⟩ := partnerOf_symm v hx1 rfl hp
  have hk : x - 1 < es.length := by omega
  have hidx : es[x - 1].idx = x := by rw [v.idx_get _ hk]; omega
  have hpr : es[x - 1].pair = partnerOf es x := by
    have := partnerOf_eq hk
    rw [show x - 1 + 1 = x by omega] at this
    exact this.symm
  rcases Nat.lt_or_ge x (partnerOf es x) with hlt | hge
  · have hm : es[x - 1] ∈ paired5to3 es :=
      mem_paired5to3.mpr ⟨List.getElem_mem hk, by rw [hpr]; exact hp, by rw [hidx, hpr]; exact hlt⟩
    obtain ⟨r, hr, t, ht, h1, h2⟩ := pair_in_region hm
    exact ⟨r, hr, t, ht, Or.inl (by omega)⟩
  · -- the partner is the 5' end
    have hk' : partnerOf es x - 1 < es.length := by omega
    have hidx' : es[partnerOf es x - 1].idx = partnerOf es x := by rw [v.idx_get _ hk']; omega
    have hpr' : es[partnerOf es x - 1].pair = x := by
      have := partnerOf_eq hk'
      rw [show partnerOf es x - 1 + 1 = partnerOf es x by omega, hs1] at this
      exact this.symm
    have hm : es[partnerOf es x - 1] ∈ paired5to3 es :=
      mem_paired5to3.mpr ⟨List.getElem_mem hk', by rw [hpr']; omega, by rw [hidx', hpr']; omega⟩
    obtain ⟨r, hr, t, ht, h1, h2⟩ := pair_in_region hm
    exact ⟨r, hr, t, ht, Or.inr (by omega)⟩

/-! ### stops -/

theorem mem_stopsOf {es : List Entry} (v : ValidP es) (db : List Char) {x : Nat} :
    x ∈ stopsOf es db ↔ ∃ r ∈ regions es,
      x = r.i - 1 ∨ x = r.i + r.len - 1 - 1 ∨ x = r.j - r.len + 1 - 1 ∨ x = r.j - 1 := by
  unfold stopsOf
  rw [mem_sortDedup, stemsOf_eq v db, List.mem_flatMap]
  constructor
  · rintro ⟨s, hs, hx⟩
    obtain ⟨r, hr, rfl⟩ := List.mem_map.mp hs
    refine ⟨r, hr, ?_⟩
    simpa [stemElOf] using hx
  · rintro ⟨r, hr, hx⟩
    refine ⟨stemElOf es db r, List.mem_map.mpr ⟨r, hr, rfl⟩, ?_⟩
    simpa [stemElOf] using hx

theorem stopsOf_sorted (es : List Entry) (db : List Char) : (stopsOf es db).Pairwise (· < ·) :=
  sortDedup_sorted _

/-- every stop is a position of the sequence and is paired -/
theorem stop_paired {es : List Entry} (v : ValidP es) (db : List Char) {x : Nat}
    (hx : x ∈ stopsOf es db) : x < es.length ∧ partnerOf es (x + 1) ≠ 0 := by
  obtain ⟨r, hr, h⟩ := (mem_stopsOf v db).mp hx
  have hf := stemFacts_regions v hr
  have hb := hf.bounds
  have p0 := hf.partners v (t := 0) hb.2.1
  have pl := hf.partners v (t := r.len - 1) (by omega)
  rcases h with h | h | h | h
  · have : x + 1 = r.i + 0 := by omega
    rw [this, p0.1]; omega
  · have : x + 1 = r.i + (r.len - 1) := by omega
    rw [this, pl.1]; omega
  · have : x + 1 = r.j - (r.len - 1) := by omega
    rw [this, pl.2]; omega
  · have : x + 1 = r.j - 0 := by omega
    rw [this, p0.2]; omega

/-- every paired position lies between two stops `f ≤ p ≤ l` such that the whole range `[f, l]`
is paired (the stem strand it belongs to) -/
theorem paired_between_stops {es : List Entry} (v : ValidP es) (db : List Char) {p : Nat}
    (hp : partnerOf es (p + 1) ≠ 0) :
    ∃ f l, f ∈ stopsOf es db ∧ l ∈ stopsOf es db ∧ f ≤ p ∧ p ≤ l ∧
      ∀ q, f ≤ q → q ≤ l → partnerOf es (q + 1) ≠ 0 := by
  obtain ⟨r, hr, t, ht, h⟩ := paired_in_region v (x := p + 1) (by omega) hp
  have hf := stemFacts_regions v hr
  have hb := hf.bounds
  rcases h with h | h
  · refine ⟨r.i - 1, r.i + r.len - 1 - 1, (mem_stopsOf v db).mpr ⟨r, hr, Or.inl rfl⟩,
      (mem_stopsOf v db).mpr ⟨r, hr, Or.inr (Or.inl rfl)⟩, by omega, by omega, ?_⟩
    intro q h1 h2
    have := (hf.partners v (t := q + 1 - r.i) (by omega)).1
    rw [show r.i + (q + 1 - r.i) = q + 1 by omega] at this
    rw [this]; omega
  · refine ⟨r.j - r.len + 1 - 1, r.j - 1, (mem_stopsOf v db).mpr ⟨r, hr, Or.inr (Or.inr (Or.inl rfl))⟩,
      (mem_stopsOf v db).mpr ⟨r, hr, Or.inr (Or.inr (Or.inr rfl))⟩, by omega, by omega, ?_⟩
    intro q h1 h2
    have := (hf.partners v (t := r.j - (q + 1)) (by omega)).2
    rw [show r.j - (r.j - (q + 1)) = q + 1 by omega] at this
    rw [this]; omega

/-- facts about a pair of consecutive stops -/
theorem consec_stops {es : List Entry} (v : ValidP es) (db : List Char) {a b : Nat}
    (h : (a, b) ∈ consec (stopsOf es db)) :
    a < b ∧ b < es.length ∧ a ∈ stopsOf es db ∧ b ∈ stopsOf es db ∧
      ∀ x ∈ stopsOf es db, ¬ (a < x ∧ x < b) := by
  obtain ⟨ha, hb, hab, hno⟩ := (mem_consec_sorted (stopsOf_sorted es db)).mp h
  exact ⟨hab, (stop_paired v db hb).1, ha, hb, hno⟩

/-- **candidates_tile, second half**: between two consecutive stops the nucleotides are all
unpaired or all paired -/
theorem interval_uniform {es : List Entry} (v : ValidP es) (db : List Char) {a b : Nat}
    (h : (a, b) ∈ consec (stopsOf es db)) :
    (∀ k, a < k → k < b → partnerOf es (k + 1) = 0) ∨
    (∀ k, a < k → k < b → partnerOf es (k + 1) ≠ 0) := by
  obtain ⟨hab, hbl, ha, hb, hno⟩ := consec_stops v db h
  by_cases hall : ∀ k, a < k → k < b → partnerOf es (k + 1) = 0
  · exact Or.inl hall
  · right
    have : ∃ q, a < q ∧ q < b ∧ partnerOf es (q + 1) ≠ 0 := by
      apply Classical.byContradiction
      intro hc
      apply hall
      intro k h1 h2
      apply Decidable.byContradiction
      intro hk
      exact hc ⟨k, h1, h2, hk⟩
    obtain ⟨q, hq1, hq2, hq⟩ := this
    obtain ⟨f, l, hf, hl, hfq, hql, hall'⟩ := paired_between_stops v db hq
    have hfa : f ≤ a := by
      have := hno f hf; omega
    have hlb : b ≤ l := by
      have := hno l hl; omega
    intro k h1 h2
    exact hall' k (by omega) (by omega)

/-- if one nucleotide strictly between two consecutive stops is unpaired, all are -/
theorem interval_open_of_unpaired {es : List Entry} (v : ValidP es) (db : List Char) {a b : Nat}
    (h : (a, b) ∈ consec (stopsOf es db)) {p : Nat} (h1 : a < p) (h2 : p < b)
    (hp : partnerOf es (p + 1) = 0) : ∀ k, a < k → k < b → partnerOf es (k + 1) = 0 := by
  rcases interval_uniform v db h with hu | hu
  · exact hu
  · exact absurd hp (hu p h1 h2)

/-! ### the classification of the intervals in closed form -/

/-- all nucleotides strictly inside the 0-based interval are unpaired -/
def openIv (es : List Entry) (ab : Nat × Nat) : Bool := unpairedBetween es (ab.1 + 1) (ab.2 + 1)

/-- the two ends of the 0-based interval are paired with each other -/
def hpIv (es : List Entry) (ab : Nat × Nat) : Bool := partnerOf es (ab.1 + 1) == ab.2 + 1

/-- the strand of the 0-based closed interval `[a, b]` -/
def strandIv (es : List Entry) (db : List Char) (ab : Nat × Nat) : Strand :=
  ⟨ab.1 + 1, ab.2 + 1, slice (sequence es) ab.1 (ab.2 + 1), slice db ab.1 (ab.2 + 1)⟩

theorem openIv_iff {es : List Entry} {a b : Nat} :
    openIv es (a, b) = true ↔ ∀ k, a < k → k < b → partnerOf es (k + 1) = 0 := by
  simp only [openIv, unpairedBetween, List.all_eq_true, List.mem_range, beq_iff_eq]
  constructor
  · intro h k h1 h2
    have := h (k - a - 1) (by omega)
    rw [show a + 1 + 1 + (k - a - 1) = k + 1 by omega] at this
    exact this
  · intro h t ht
    have := h (a + 1 + t) (by omega) (by omega)
    rw [show a + 1 + 1 + t = a + 1 + t + 1 by omega]
    exact this

theorem interior_eq_slice {es : List Entry} {a b : Nat} (hab : a < b) (hb : b < es.length) :
    ((slice es a (b + 1)).drop 1).dropLast = slice es (a + 1) b := by
  apply List.ext_getElem
  · simp only [List.length_dropLast, List.length_drop]
    rw [slice_length _ _ _ (by omega), slice_length _ _ _ (by omega)]
    omega
  · intro t h1 h2
    rw [List.getElem_dropLast, List.getElem_drop]
    have hl2 : (slice es (a + 1) b).length = b - (a + 1) := slice_length _ _ _ (by omega)
    rw [slice_getElem _ _ _ _ _ (by omega), slice_getElem _ _ _ _ h2 (by omega)]
    congr 1; omega

theorem interior_all {es : List Entry} {a b : Nat} (hab : a < b) (hb : b < es.length) :
    (((slice es a (b + 1)).drop 1).dropLast.all (fun e => e.pair == 0)) = openIv es (a, b) := by
  rw [interior_eq_slice hab hb, Bool.eq_iff_iff, openIv_iff, List.all_eq_true]
  constructor
  · intro h k h1 h2
    have hk : k < es.length := by omega
    have := h es[k] (mem_slice.mpr ⟨k, hk, by omega, h2, rfl⟩)
    rw [partnerOf_eq hk]
    simpa using this
  · intro h e he
    obtain ⟨k, hk, h1, h2, rfl⟩ := mem_slice.mp he
    have := h k (by omega) h2
    rw [partnerOf_eq hk] at this
    simpa using this

theorem slice_head_last {es : List Entry} {a b : Nat} (hab : a < b) (hb : b < es.length) :
    (slice es a (b + 1)).headD default = es[a] ∧ (slice es a (b + 1)).getLastD default = es[b] := by
  have hlen : (slice es a (b + 1)).length = b + 1 - a := slice_length _ _ _ (by omega)
  constructor
  · rw [List.headD_eq_head?_getD, List.head?_eq_getElem?,
      List.getElem?_eq_getElem (by omega), slice_getElem _ _ _ _ _ (by omega)]
    simp
  · rw [List.getLastD_eq_getLast?, List.getLast?_eq_getElem?,
      List.getElem?_eq_getElem (by omega), slice_getElem _ _ _ _ _ (by omega)]
    simp only [Option.getD_some]
    congr 1; omega

theorem clsOf_eq {es : List Entry} (v : ValidP es) (db : List Char) :
    clsOf es db = ((consec (stopsOf es db)).filter (openIv es)).map
      (fun ab => (hpIv es ab, strandIv es db ab)) := by
  unfold clsOf
  rw [← filterMap_ite]
  apply filterMap_congr'
  rintro ⟨a, b⟩ hab
  obtain ⟨h1, h2, _, _, _⟩ := consec_stops v db hab
  simp only
  rw [interior_all h1 h2, (slice_head_last h1 h2).1, (slice_head_last h1 h2).2,
    strandOf_slice v db (by omega) (by omega)]
  have e1 : es[a].pair = partnerOf es (a + 1) := (partnerOf_eq (by omega)).symm
  have e2 : es[b].idx = b + 1 := v.idx_get b h2
  rw [e1, e2]
  by_cases ho : openIv es (a, b) = true
  · simp only [ho, if_true, hpIv, strandIv]
    by_cases hh : partnerOf es (a + 1) = b + 1
    · simp [hh]
    · simp [hh]
  · simp only [ho, Bool.false_eq_true, if_false]

/-- the hairpin intervals: consecutive stops with an unpaired interior whose ends are paired -/
def hpIvs (es : List Entry) (db : List Char) : List (Nat × Nat) :=
  (consec (stopsOf es db)).filter (fun ab => hpIv es ab && openIv es ab)

/-- the loop-candidate intervals -/
def cdIvs (es : List Entry) (db : List Char) : List (Nat × Nat) :=
  (consec (stopsOf es db)).filter (fun ab => !hpIv es ab && openIv es ab)

theorem hairpinsOf_eq {es : List Entry} (v : ValidP es) (db : List Char) :
    hairpinsOf es db = (hpIvs es db).map (strandIv es db) := by
  unfold hairpinsOf hpIvs
  rw [clsOf_eq v db, List.filter_map, List.map_map, List.filter_filter]
  rfl

theorem candsOf_eq {es : List Entry} (v : ValidP es) (db : List Char) :
    candsOf es db = (cdIvs es db).map (strandIv es db) := by
  unfold candsOf cdIvs
  rw [clsOf_eq v db, List.filter_map, List.map_map, List.filter_filter]
  rfl

theorem mem_hpIvs {es : List Entry} {db : List Char} {ab : Nat × Nat} :
    ab ∈ hpIvs es db ↔ ab ∈ consec (stopsOf es db) ∧ hpIv es ab = true ∧ openIv es ab = true := by
  simp [hpIvs, List.mem_filter]

theorem mem_cdIvs {es : List Entry} {db : List Char} {ab : Nat × Nat} :
    ab ∈ cdIvs es db ↔ ab ∈ consec (stopsOf es db) ∧ hpIv es ab = false ∧ openIv es ab = true := by
  simp [cdIvs, List.mem_filter]

/-! ### the hairpin clause of the specification -/

theorem specHairpins_of {es : List Entry} (v : ValidP es) (db : List Char) (el : ElemNums)
    (hel : el.hairpins = (hpIvs es db).map (fun ab => (ab.1 + 1, ab.2 + 1))) :
    specHairpins es el = true := by
  unfold specHairpins
  rw [hel]
  simp only [Bool.and_eq_true, List.all_eq_true]
  refine ⟨⟨?_, ?_⟩, ?_⟩
  · intro q hq
    obtain ⟨⟨a, b⟩, hab, rfl⟩ := List.mem_map.mp hq
    obtain ⟨hc, hh, ho⟩ := mem_hpIvs.mp hab
    obtain ⟨h1, _⟩ := consec_stops v db hc
    simp only [decide_eq_true_eq]
    exact ⟨⟨by omega, hh⟩, ho⟩
  · intro e he
    rw [Bool.or_eq_true, Bool.not_eq_true', ← Bool.not_eq_true]
    by_cases hu : unpairedBetween es e.idx e.pair = true
    · right
      rw [List.contains_iff_mem]
      obtain ⟨hm, hp0, hlt⟩ := mem_paired5to3.mp he
      obtain ⟨r, hr, t, ht, h1, h2⟩ := pair_in_region he
      have hf := stemFacts_regions v hr
      have hb := hf.bounds
      have hidx := v.idx_pos hm
      have hu' : ∀ k, e.idx - 1 < k → k < e.pair - 1 → partnerOf es (k + 1) = 0 := by
        have : openIv es (e.idx - 1, e.pair - 1) = true := by
          unfold openIv
          simp only
          rw [show e.idx - 1 + 1 = e.idx by omega, show e.pair - 1 + 1 = e.pair by omega]
          exact hu
        exact openIv_iff.mp this
      -- `e` is the innermost pair of its stem
      have hlast : t + 1 = r.len := by
        apply Decidable.byContradiction
        intro hc
        have hp := (hf.partners v (t := t + 1) (by omega)).1
        have := hu' (e.idx) (by omega) (by omega)
        rw [h1, show r.i + t + 1 = r.i + (t + 1) by omega, hp] at this
        omega
      have hsa : e.idx - 1 ∈ stopsOf es db :=
        (mem_stopsOf v db).mpr ⟨r, hr, Or.inr (Or.inl (by omega))⟩
      have hsb : e.pair - 1 ∈ stopsOf es db :=
        (mem_stopsOf v db).mpr ⟨r, hr, Or.inr (Or.inr (Or.inl (by omega)))⟩
      have hcons : (e.idx - 1, e.pair - 1) ∈ consec (stopsOf es db) := by
        rw [mem_consec_sorted (stopsOf_sorted es db)]
        refine ⟨hsa, hsb, by omega, ?_⟩
        intro x hx hbt
        have := (stop_paired v db hx).2
        exact this (hu' x hbt.1 hbt.2)
      have hmem : (e.idx - 1, e.pair - 1) ∈ hpIvs es db := by
        rw [mem_hpIvs]
        refine ⟨hcons, ?_, openIv_iff.mpr hu'⟩
        unfold hpIv
        simp only [beq_iff_eq]
        rw [show e.idx - 1 + 1 = e.idx by omega, show e.pair - 1 + 1 = e.pair by omega]
        exact v.partner_idx hm
      refine List.mem_map.mpr ⟨_, hmem, ?_⟩
      simp only [Prod.mk.injEq]
      omega
    · left; exact hu
  · intro q hq
    rw [beq_iff_eq, List.Nodup.count, if_pos hq]
    have hpw : (hpIvs es db).Pairwise (fun p q => p.1 < q.1) :=
      (consec_pairwise (stopsOf_sorted es db)).sublist List.filter_sublist
    rw [List.Nodup, List.pairwise_map]
    apply hpw.imp
    intro p q hpq heq
    simp only [Prod.mk.injEq] at heq
    omega

end RnaVerif.SecStr

import RnaVerif.Lemmas.AllDB
/-! # the first-come-first-served level vector is greedy along the identity order, hence Grundy
(helper lemmas for C16 / C02; core Lean only) -/
namespace RnaVerif.SecStr.AllDB

/-- every vertex sits on the least level not used by an *earlier* neighbour
(= the result of greedy colouring along `0,1,…,n-1`) -/
def PrefixMex (adj : Nat → Nat → Bool) (L : List Nat) : Prop :=
  ∀ v, v < L.length →
    (∀ u, u < v → adj u v = true → L.getD u 0 ≠ L.getD v 0) ∧
    (∀ d, d < L.getD v 0 → ∃ u, u < v ∧ adj u v = true ∧ L.getD u 0 = d)

theorem prefixMex_grundy (adj : Nat → Nat → Bool) (hs : ∀ u v, adj u v = adj v u)
    (hi : ∀ u, adj u u = false) (L : List Nat) (h : PrefixMex adj L) : grundy adj L = true := by
  rw [grundy_iff]
  refine ⟨?_, ?_⟩
  · intro u hu v hv ha
    rw [List.mem_range] at hu hv
    rcases Nat.lt_trichotomy u v with hlt | heq | hgt
    · exact (h v hv).1 u hlt ha
    · subst heq; rw [hi] at ha; cases ha
    · have := (h u hu).1 v hgt (by rw [hs]; exact ha)
      exact fun e => this e.symm
  · intro v hv d hd
    rw [List.mem_range] at hv
    obtain ⟨u, hu, ha, he⟩ := (h v hv).2 d hd
    exact ⟨u, List.mem_range.mpr (by omega), ha, he⟩

theorem find?_range_some (p : Nat → Bool) : ∀ (cap o : Nat), (List.range cap).find? p = some o →
    p o = true ∧ o < cap ∧ ∀ d, d < o → p d = false := by
  intro cap
  induction cap with
  | zero => intro o h; simp at h
  | succ cap ih =>
    intro o h
    rw [List.range_succ, List.find?_append] at h
    cases hf : (List.range cap).find? p with
    | some x =>
      rw [hf] at h
      simp only [Option.some_or, Option.some.injEq] at h
      subst h
      obtain ⟨h1, h2, h3⟩ := ih x hf
      exact ⟨h1, by omega, h3⟩
    | none =>
      rw [hf] at h
      simp only [Option.none_or] at h
      have hnone := List.find?_eq_none.mp hf
      have hpo := List.find?_some h
      have hmem := List.mem_of_find?_eq_some h
      simp only [List.mem_singleton] at hmem
      subst hmem
      refine ⟨hpo, by omega, ?_⟩
      intro d hd
      have := hnone d (List.mem_range.mpr hd)
      simpa using this

theorem firstAvail_some_mex {cap : Nat} {used : List Nat} {o : Nat} (h : firstAvail cap used = some o) :
    o ∉ used ∧ o < cap ∧ ∀ d, d < o → d ∈ used := by
  obtain ⟨h1, h2, h3⟩ := find?_range_some _ cap o h
  refine ⟨by simpa using h1, h2, ?_⟩
  intro d hd
  simpa using h3 d hd

/-- the conflict test of `fcfs` (later region first) against the adjacency of `all_dot_brackets`
(earlier region first) -/
theorem adjOf_prefix (cA : ConfPred) (acc : List (Region × Nat)) (r : Region) (rs : List Region)
    (u : Nat) (hu : u < acc.length) :
    adjOf cA (acc.map (·.1) ++ r :: rs) u acc.length = cA (acc[u].1).i (acc[u].1).j r.i r.j := by
  have e1 : (acc.map (·.1) ++ r :: rs)[u]? = some acc[u].1 := by
    rw [List.getElem?_append_left (by simpa using hu)]
    simp [hu]
  have e2 : (acc.map (·.1) ++ r :: rs)[acc.length]? = some r := by
    rw [List.getElem?_append_right (by simp)]
    simp
  unfold adjOf
  rw [e1, e2]
  simp [hu, Region.conf]

theorem mem_used_iff (cF cA : ConfPred) (hc : ∀ k l m n, cF k l m n = cA m n k l)
    (acc : List (Region × Nat)) (r : Region) (rs : List Region) (d : Nat) :
    d ∈ (acc.filter (fun q => cF r.i r.j q.1.i q.1.j)).map (·.2) ↔
      ∃ u, u < acc.length ∧ adjOf cA (acc.map (·.1) ++ r :: rs) u acc.length = true ∧
        (acc.map (·.2)).getD u 0 = d := by
  simp only [List.mem_map, List.mem_filter]
  constructor
  · rintro ⟨q, ⟨hq, hcq⟩, rfl⟩
    obtain ⟨u, hu, rfl⟩ := List.mem_iff_getElem.mp hq
    refine ⟨u, hu, ?_, ?_⟩
    · rw [adjOf_prefix cA acc r rs u hu, ← hc]; exact hcq
    · simp [List.getD_eq_getElem?_getD, hu]
  · rintro ⟨u, hu, ha, rfl⟩
    refine ⟨acc[u], ⟨List.getElem_mem hu, ?_⟩, ?_⟩
    · rw [adjOf_prefix cA acc r rs u hu, ← hc] at ha; exact ha
    · simp [List.getD_eq_getElem?_getD, hu]

theorem fcfsAux_inv (cF cA : ConfPred) (hc : ∀ k l m n, cF k l m n = cA m n k l) (cap : Nat)
    (regs : List Region) :
    ∀ (suf : List Region) (acc res : List (Region × Nat)), regs = acc.map (·.1) ++ suf →
      PrefixMex (adjOf cA regs) (acc.map (·.2)) → fcfsAux cF cap suf acc = some res →
      res.map (·.1) = regs ∧ PrefixMex (adjOf cA regs) (res.map (·.2)) ∧
        ∀ q ∈ res, q ∈ acc ∨ q.2 < cap := by
  intro suf
  induction suf with
  | nil =>
    intro acc res hregs hpm h
    simp only [fcfsAux, Option.some.injEq] at h
    subst h
    exact ⟨by simp [hregs], hpm, fun q hq => Or.inl hq⟩
  | cons r rs ih =>
    intro acc res hregs hpm h
    unfold fcfsAux at h
    simp only at h
    split at h
    · rename_i o ho
      obtain ⟨ho1, hocap, ho2⟩ := firstAvail_some_mex ho
      have hL : ∀ x, x < acc.length →
          (List.map (·.2) (acc ++ [(r, o)])).getD x 0 = (acc.map (·.2)).getD x 0 := by
        intro x hx
        simp [List.getD_eq_getElem?_getD, List.getElem?_append_left, hx]
      have hK : (List.map (·.2) (acc ++ [(r, o)])).getD acc.length 0 = o := by
        simp [List.getD_eq_getElem?_getD]
      have hpm' : PrefixMex (adjOf cA regs) (List.map (·.2) (acc ++ [(r, o)])) := by
        intro v hv
        simp only [List.map_append, List.map_cons, List.map_nil, List.length_append,
          List.length_map, List.length_cons, List.length_nil] at hv
        by_cases hvk : v < acc.length
        · obtain ⟨h1, h2⟩ := hpm v (by simpa using hvk)
          refine ⟨?_, ?_⟩
          · intro u hu ha
            rw [hL u (by omega), hL v hvk]; exact h1 u hu ha
          · intro d hd
            rw [hL v hvk] at hd
            obtain ⟨u, hu, ha, he⟩ := h2 d hd
            exact ⟨u, hu, ha, by rw [hL u (by omega)]; exact he⟩
        · have hveq : v = acc.length := by omega
          subst hveq
          refine ⟨?_, ?_⟩
          · intro u hu ha
            rw [hL u hu, hK]
            intro e
            apply ho1
            rw [hregs] at ha
            exact (mem_used_iff cF cA hc acc r rs o).mpr ⟨u, hu, ha, e⟩
          · intro d hd
            rw [hK] at hd
            obtain ⟨u, hu, ha, he⟩ := (mem_used_iff cF cA hc acc r rs d).mp (ho2 d hd)
            rw [← hregs] at ha
            exact ⟨u, hu, ha, by rw [hL u hu]; exact he⟩
      obtain ⟨r1, r2, r3⟩ := ih (acc ++ [(r, o)]) res (by simp [hregs]) hpm' h
      refine ⟨r1, r2, ?_⟩
      intro q hq
      rcases r3 q hq with h' | h'
      · rcases List.mem_append.mp h' with h'' | h''
        · exact Or.inl h''
        · simp only [List.mem_singleton] at h''; subst h''; exact Or.inr hocap
      · exact Or.inr h'
    · cases h

/-- FCFS puts every stem on the least level not used by an earlier crossing stem; all levels `< cap` -/
theorem fcfsLevels_prefixMex (cF cA : ConfPred) (hc : ∀ k l m n, cF k l m n = cA m n k l) (cap : Nat)
    (hcap : 0 < cap) (regs : List Region) (lv : List Nat) (h : fcfsLevels cF cap regs = some lv) :
    lv.length = regs.length ∧ PrefixMex (adjOf cA regs) lv ∧ ∀ l ∈ lv, l < cap := by
  unfold fcfsLevels at h
  cases regs with
  | nil =>
    simp only [Option.some.injEq] at h
    subst h
    exact ⟨rfl, fun v hv => by simp at hv, by simp⟩
  | cons r rs =>
    simp only [Option.map_eq_some_iff] at h
    obtain ⟨res, hres, rfl⟩ := h
    have hpm0 : PrefixMex (adjOf cA (r :: rs)) (List.map (·.2) [(r, 0)]) := by
      intro v hv
      simp only [List.map_cons, List.map_nil, List.length_cons, List.length_nil] at hv
      have : v = 0 := by omega
      subst this
      exact ⟨fun u hu => by omega, fun d hd => by simp at hd⟩
    obtain ⟨r1, r2, r3⟩ := fcfsAux_inv cF cA hc cap (r :: rs) rs [(r, 0)] res (by simp) hpm0 hres
    refine ⟨?_, r2, ?_⟩
    · rw [← r1]; simp
    · intro l hl
      obtain ⟨q, hq, rfl⟩ := List.mem_map.mp hl
      rcases r3 q hq with h' | h'
      · simp only [List.mem_singleton] at h'; subst h'; exact hcap
      · exact h'

/-- **FCFS is Grundy**: whenever `fcfs` does not run out of levels, its level vector is a Grundy
colouring of the conflict graph of `all_dot_brackets`; all its levels are `< cap` -/
theorem fcfsLevels_grundy (cF cA : ConfPred) (hc : ∀ k l m n, cF k l m n = cA m n k l) (cap : Nat)
    (hcap : 0 < cap) (regs : List Region) (lv : List Nat) (h : fcfsLevels cF cap regs = some lv) :
    lv.length = regs.length ∧ grundy (adjOf cA regs) lv = true ∧ ∀ l ∈ lv, l < cap := by
  obtain ⟨h1, h2, h3⟩ := fcfsLevels_prefixMex cF cA hc cap hcap regs lv h
  exact ⟨h1, prefixMex_grundy _ (adjOf_symm cA _) (adjOf_irrefl cA _) _ h2, h3⟩

/-! ### … and it is literally the greedy colouring along the identity order -/

theorem greedyAux_append (adj : Nat → Nat → Bool) : ∀ (a b : List Nat) (acc : List (Nat × Nat)),
    greedyAux adj (a ++ b) acc = greedyAux adj b (greedyAux adj a acc) := by
  intro a
  induction a with
  | nil => intro b acc; rfl
  | cons x xs ih => intro b acc; simp only [List.cons_append, greedyAux]; exact ih b _

theorem greedy_range_of_prefixMex (adj : Nat → Nat → Bool) (L : List Nat) (h : PrefixMex adj L) :
    ∀ k, k ≤ L.length →
      greedy adj (List.range k) = (List.range k).map (fun v => (v, L.getD v 0)) := by
  intro k
  induction k with
  | zero => intro _; rfl
  | succ k ih =>
    intro hk
    have ih' := ih (by omega)
    unfold greedy at ih' ⊢
    rw [List.range_succ, greedyAux_append, ih']
    simp only [greedyAux, List.map_append, List.map_cons, List.map_nil]
    congr 3
    obtain ⟨h1, h2⟩ := h k (by omega)
    apply mex_eq
    · intro hm
      obtain ⟨u, hu, ha, he⟩ := mem_nbrCols_map.mp hm
      exact h1 u (List.mem_range.mp hu) ha he
    · intro d hd
      obtain ⟨u, hu, ha, he⟩ := h2 d hd
      exact mem_nbrCols_map.mpr ⟨u, List.mem_range.mpr hu, ha, he⟩

theorem fcfsLevels_eq_greedy (cF cA : ConfPred) (hc : ∀ k l m n, cF k l m n = cA m n k l) (cap : Nat)
    (hcap : 0 < cap) (regs : List Region) (lv : List Nat) (h : fcfsLevels cF cap regs = some lv) :
    greedy (adjOf cA regs) (List.range regs.length) =
      (List.range regs.length).map (fun v => (v, lv.getD v 0)) := by
  obtain ⟨h1, h2, _⟩ := fcfsLevels_prefixMex cF cA hc cap hcap regs lv h
  rw [← h1]
  exact greedy_range_of_prefixMex _ lv h2 lv.length (Nat.le_refl _)

/-- FCFS never runs out of levels when there are at least as many levels as regions -/
theorem fcfsAux_some (c : ConfPred) (cap : Nat) :
    ∀ (suf : List Region) (acc : List (Region × Nat)), acc.length + suf.length ≤ cap →
      ∃ res, fcfsAux c cap suf acc = some res := by
  intro suf
  induction suf with
  | nil => intro acc _; exact ⟨acc, rfl⟩
  | cons r rs ih =>
    intro acc hlen
    unfold fcfsAux
    simp only
    cases hf : firstAvail cap ((acc.filter (fun q => c r.i r.j q.1.i q.1.j)).map (·.2)) with
    | some o => exact ih _ (by simp at hlen ⊢; omega)
    | none =>
      exfalso
      unfold firstAvail at hf
      rw [List.find?_eq_none] at hf
      have hsub : List.range cap ⊆ (acc.filter (fun q => c r.i r.j q.1.i q.1.j)).map (·.2) := by
        intro d hd
        have := hf d hd
        simpa using this
      have h1 := List.Nodup.length_le_of_subset List.nodup_range hsub
      have h2 : (acc.filter (fun q => c r.i r.j q.1.i q.1.j)).length ≤ acc.length :=
        List.length_filter_le _ _
      rw [List.length_range, List.length_map] at h1
      simp only [List.length_cons] at hlen
      omega

theorem fcfsLevels_some (c : ConfPred) (cap : Nat) (regs : List Region) (h : regs.length ≤ cap) :
    ∃ lv, fcfsLevels c cap regs = some lv := by
  unfold fcfsLevels
  cases regs with
  | nil => exact ⟨[], rfl⟩
  | cons r rs =>
    obtain ⟨res, hres⟩ := fcfsAux_some c cap rs [(r, 0)] (by simp at h ⊢; omega)
    exact ⟨res.map (·.2), by simp [hres]⟩

end RnaVerif.SecStr.AllDB

import RnaVerif.Model.FindPairs
import RnaVerif.Lemmas.InvariancePairs
import Mathlib.Tactic.Linarith
/-!
# The functional model of the `find_pairs` loop: invariance under changes of presentation (C05)

`LoopSim R t s s'` = `StructSim R t s s'` (Lemmas/InvariancePairs.lean) plus equal model numbers position by
position.  For a proper rational rotation `R` and any rational `t`:
* the point list of `s'` is the moved point list of `s` (`points_sim`) — indices do not depend on coordinates;
* the coordinate-keyed dictionaries collide in exactly the same places, because `p ↦ R p + t` is injective
  (`move_inj`, `canonList_move`);
* the candidate list is the same (`candsFrom_move`): squared distances are invariant, and the axis shortcut of
  `distTriPt` is only a shortcut (`distTriPt_eq`);
* every iteration of the loop leaves the same state (`step_sim`) — the state holds indices, names and classes only;
* everything after the loop is a function of base letters, names, `cisTri`, `resLt` (`output_sim`).
-/
namespace RnaVerif.FindPairs
open RnaVerif RnaVerif.Pairs

/-! ## the axis shortcut is only a shortcut -/

theorem dist2_ge_x (p q : Q3) : (p.x - q.x) * (p.x - q.x) ≤ V3.dist2 p q := by
  simp only [V3.dist2, V3.norm2, V3.dot, V3.sub]
  nlinarith [mul_self_nonneg (p.y - q.y), mul_self_nonneg (p.z - q.z)]

theorem dist2_ge_y (p q : Q3) : (p.y - q.y) * (p.y - q.y) ≤ V3.dist2 p q := by
  simp only [V3.dist2, V3.norm2, V3.dot, V3.sub]
  nlinarith [mul_self_nonneg (p.x - q.x), mul_self_nonneg (p.z - q.z)]

theorem distTri_far (P : Params) (d d2 : Rat) (hf : farAxis P d = true) (hge : d * d ≤ d2) :
    distTri P d2 = .no := by
  unfold farAxis at hf
  simp only [Bool.and_eq_true, decide_eq_true_eq] at hf
  unfold distTri
  simp only
  have h1 : ¬ d2 ≤ (P.maxDist - tol) * (P.maxDist - tol) := by
    intro h; linarith [hf.2]
  have h2 : d2 > (P.maxDist + tol) * (P.maxDist + tol) := by linarith [hf.1]
  simp [h1, h2]

/-- **distTriPt_eq**: the candidate test is `distTri` on the squared distance -/
theorem distTriPt_eq (P : Params) (p q : Q3) : distTriPt P p q = distTri P (V3.dist2 p q) := by
  unfold distTriPt
  split
  · next h => exact (distTri_far P _ _ h (dist2_ge_x p q)).symm
  · split
    · next h => exact (distTri_far P _ _ h (dist2_ge_y p q)).symm
    · rfl

/-! ## a rigid motion is injective -/

theorem dist2_self (p : Q3) : V3.dist2 p p = 0 := by
  simp only [V3.dist2, V3.norm2, V3.dot, V3.sub]; ring

theorem eq_of_dist2_eq_zero {p q : Q3} (h : V3.dist2 p q = 0) : p = q := by
  simp only [V3.dist2, V3.norm2, V3.dot, V3.sub] at h
  have hx : (p.x - q.x) * (p.x - q.x) = 0 := by
    nlinarith [mul_self_nonneg (p.x - q.x), mul_self_nonneg (p.y - q.y), mul_self_nonneg (p.z - q.z)]
  have hy : (p.y - q.y) * (p.y - q.y) = 0 := by
    nlinarith [mul_self_nonneg (p.x - q.x), mul_self_nonneg (p.y - q.y), mul_self_nonneg (p.z - q.z)]
  have hz : (p.z - q.z) * (p.z - q.z) = 0 := by
    nlinarith [mul_self_nonneg (p.x - q.x), mul_self_nonneg (p.y - q.y), mul_self_nonneg (p.z - q.z)]
  apply V3.ext'
  · have := mul_self_eq_zero.mp hx; linarith
  · have := mul_self_eq_zero.mp hy; linarith
  · have := mul_self_eq_zero.mp hz; linarith

variable {R : M3 Rat} {t : Q3} {P : Params}

/-- **move_inj**: `p ↦ R p + t` is injective for an orthogonal `R` -/
theorem move_inj (hR : M3.Orthonormal (1 : Rat) 0 R) {p q : Q3} (h : V3.move R t p = V3.move R t q) : p = q := by
  apply eq_of_dist2_eq_zero
  rw [← V3.dist2_move hR t p q, h, dist2_self]

theorem move_beq (hR : M3.Orthonormal (1 : Rat) 0 R) (p q : Q3) :
    (V3.move R t p == V3.move R t q) = (p == q) := by
  by_cases h : p = q
  · subst h; simp
  · have : V3.move R t p ≠ V3.move R t q := fun e => h (move_inj hR e)
    simp [h, this]

/-! ## points -/

/-- a point after the motion -/
def mvPt (R : M3 Rat) (t : Q3) (p : Point) : Point := ⟨p.ri, p.name, V3.move R t p.pos⟩

theorem resPoints_sim {r r' : Res} (h : ResSim R t r r') (i : Nat) :
    resPoints P i r' = (resPoints P i r).map (mvPt R t) := by
  unfold resPoints
  rw [h.base, List.map_filterMap]
  apply filterMap_congr'
  intro n _
  rw [h.atoms n]
  cases findAtom r n <;> simp [mvPt]

/-- `StructSim` plus equal model numbers -/
structure LoopSim (R : M3 Rat) (t : Q3) (s s' : Array Res) : Prop where
  sim : StructSim R t s s'
  model : ∀ (i : Nat) (r r' : Res), s[i]? = some r → s'[i]? = some r' → r'.model = r.model

theorem inModel_congr {r r' : Res} (h : r'.model = r.model) (model : Option Int) :
    inModel model r' = inModel model r := by
  unfold inModel; rw [h]

theorem points_sim {s s' : Array Res} (h : LoopSim R t s s') (model : Option Int) :
    points P model s' = (points P model s).map (mvPt R t) := by
  unfold points
  rw [h.sim.size, List.map_flatMap]
  apply flatMap_congr'
  intro i _
  rcases h.sim.cases i with ⟨e, e'⟩ | ⟨r, r', e, e', hs⟩
  · rw [e, e']; rfl
  · rw [e, e']
    simp only [inModel_congr (h.model i r r' e e') model]
    split
    · exact resPoints_sim hs i
    · rfl

/-! ## the coordinate-keyed dictionaries -/

theorem lastIdxFrom_move (hR : M3.Orthonormal (1 : Rat) 0 R) (x : Q3) (ps : List Point) (k acc : Nat) :
    lastIdxFrom (V3.move R t x) k (ps.map (mvPt R t)) acc = lastIdxFrom x k ps acc := by
  induction ps generalizing k acc with
  | nil => rfl
  | cons p ps ih =>
    simp only [List.map_cons, lastIdxFrom]
    rw [show (mvPt R t p).pos = V3.move R t p.pos from rfl, move_beq hR, ih]

/-- **canonList_move**: two points collide after the motion exactly when they collided before -/
theorem canonList_move (hR : M3.Orthonormal (1 : Rat) 0 R) (pts : List Point) :
    canonList (pts.map (mvPt R t)) = canonList pts := by
  unfold canonList
  rw [List.map_map]
  apply List.map_congr_left
  intro p _
  simp only [Function.comp]
  rw [show (mvPt R t p).pos = V3.move R t p.pos from rfl, lastIdxFrom_move hR]

theorem canonOf_move (hR : M3.Orthonormal (1 : Rat) 0 R) (k : Bool) (pts : List Point) :
    canonOf k (pts.map (mvPt R t)) = canonOf k pts := by
  unfold canonOf
  cases k
  · simp
  · simp only [↓reduceIte]; exact canonList_move hR pts

/-! ## candidates -/

theorem candRow_move (hR : M3.Orthonormal (1 : Rat) 0 R) (i : Nat) (p : Q3) (qs : List Point) (j : Nat) :
    candRow P i (V3.move R t p) j (qs.map (mvPt R t)) = candRow P i p j qs := by
  induction qs generalizing j with
  | nil => rfl
  | cons q qs ih =>
    simp only [List.map_cons, candRow]
    rw [show (mvPt R t q).pos = V3.move R t q.pos from rfl, distTriPt_eq, distTriPt_eq, V3.dist2_move hR, ih]

/-- **candsFrom_move**: the same index pairs, in the same order, with the same three-valued answers -/
theorem candsFrom_move (hR : M3.Orthonormal (1 : Rat) 0 R) (pts : List Point) (i : Nat) :
    candsFrom P i (pts.map (mvPt R t)) = candsFrom P i pts := by
  induction pts generalizing i with
  | nil => rfl
  | cons p ps ih =>
    simp only [List.map_cons, candsFrom]
    rw [show (mvPt R t p).pos = V3.move R t p.pos from rfl, candRow_move hR, ih]

/-! ## the loop body -/

theorem consume_sim (hR : M3.Orthonormal (1 : Rat) 0 R) {rd rd' : Res} (h : ResSim R t rd rd') (st : St)
    (phos : Bool) (ci cj : Nat) (d ac : Point) :
    consume P st phos ci cj (mvPt R t d) rd' (mvPt R t ac) = consume P st phos ci cj d rd ac := by
  unfold consume
  simp only [mvPt, bphClasses_sim hR h]

theorem baseBase_sim (hR : M3.Proper R) {ra rb ra' rb' : Res} (ha : ResSim R t ra ra') (hb : ResSim R t rb rb')
    (st : St) (a b : Point) :
    baseBase P st (mvPt R t a) (mvPt R t b) ra' rb' = baseBase P st a b ra rb := by
  unfold baseBase
  rw [normal_sim hR ha, normal_sim hR hb]
  cases normal P ra with
  | none => rfl
  | some ni =>
    cases normal P rb with
    | none => rfl
    | some nj =>
      simp only [Option.map_some, mvPt, V3.move_sub, angleTri_rot hR.1]

theorem body_sim (hR : M3.Proper R) {ra rb ra' rb' : Res} (ha : ResSim R t ra ra') (hb : ResSim R t rb rb')
    (hs : sameResidue ra' rb' = sameResidue ra rb) (st : St) (ci cj : Nat) (a b : Point) :
    body P st ci cj (mvPt R t a) (mvPt R t b) ra' rb' = body P st ci cj a b ra rb := by
  unfold body
  simp only [ha.base, hb.base, hs, consume_sim hR.1 ha, consume_sim hR.1 hb, baseBase_sim hR ha hb]
  rfl

theorem step_sim (hR : M3.Proper R) {s s' : Array Res} (h : LoopSim R t s s') (pts : List Point)
    (canon : List Nat) (st : St) (c : Nat × Nat × Tri) :
    step P s' (pts.map (mvPt R t)) canon st c = step P s pts canon st c := by
  unfold step
  simp only [List.getElem?_map]
  cases canon[c.1]? with
  | none => rfl
  | some ci =>
    dsimp only
    cases canon[c.2.1]? with
    | none => rfl
    | some cj =>
      dsimp only
      cases pts[ci]? with
      | none => rfl
      | some a =>
        dsimp only [Option.map_some]
        cases pts[cj]? with
        | none => rfl
        | some b =>
          dsimp only [Option.map_some]
          rw [show (mvPt R t a).ri = a.ri from rfl, show (mvPt R t b).ri = b.ri from rfl]
          rcases h.sim.cases a.ri with ⟨ea, ea'⟩ | ⟨ra, ra', ea, ea', ha⟩
          · rw [ea, ea']
          · rcases h.sim.cases b.ri with ⟨eb, eb'⟩ | ⟨rb, rb', eb, eb', hb⟩
            · rw [ea, ea', eb, eb']
            · rw [ea, ea', eb, eb']
              exact body_sim hR ha hb (h.sim.same a.ri b.ri ra rb ra' rb' ea eb ea' eb') _ ci cj a b

/-- **loop_sim**: the final state of the loop — used atoms, hydrogen bonds, recorded donor → oxygen contacts, the
undecided flag and the counters — is the same -/
theorem loop_sim (hR : M3.Proper R) {s s' : Array Res} (h : LoopSim R t s s') (model : Option Int) :
    loop P model s' = loop P model s := by
  unfold loop loopOn
  rw [points_sim h, candsFrom_move hR.1, canonOf_move hR.1]
  congr 1
  funext st c
  exact step_sim hR h _ _ st c

/-! ## after the loop -/

theorem hbContact_sim {s s' : Array Res} (h : LoopSim R t s s') (hb : HB) :
    hbContact P s' hb = hbContact P s hb := by
  unfold hbContact
  rcases h.sim.cases hb.ri with ⟨ei, ei'⟩ | ⟨ri, ri', ei, ei', hi⟩
  · rw [ei, ei']
  · rcases h.sim.cases hb.rj with ⟨ej, ej'⟩ | ⟨rj, rj', ej, ej', hj⟩
    · rw [ei, ei', ej, ej']
    · rw [ei, ei', ej, ej']
      simp only [hi.base, hj.base]

theorem contactUnd_sim (hR : M3.Orthonormal (1 : Rat) 0 R) {s s' : Array Res} (h : LoopSim R t s s') (c : Contact) :
    contactUnd P s' c = contactUnd P s c := by
  unfold contactUnd
  rcases h.sim.cases c.i with ⟨ei, ei'⟩ | ⟨ri, ri', ei, ei', hi⟩
  · rw [ei, ei']
  · rcases h.sim.cases c.j with ⟨ej, ej'⟩ | ⟨rj, rj', ej, ej', hj⟩
    · rw [ei, ei', ej, ej']
    · rw [ei, ei', ej, ej']
      simp only [cisTri_sim hR hi hj]

theorem saengerOf_sim {s s' : Array Res} (h : LoopSim R t s s') (l : Label) :
    saengerOf s' l = saengerOf s l := by
  unfold saengerOf
  rcases h.sim.cases l.lo with ⟨ei, ei'⟩ | ⟨ri, ri', ei, ei', hi⟩
  · rw [ei, ei']
  · rcases h.sim.cases l.hi with ⟨ej, ej'⟩ | ⟨rj, rj', ej, ej', hj⟩
    · rw [ei, ei', ej, ej']
    · rw [ei, ei', ej, ej']
      simp only [hi.base, hj.base]

theorem rankFn_sim {s s' : Array Res} (h : LoopSim R t s s') : rankFn s' = rankFn s := by
  unfold rankFn
  rw [h.sim.size]
  have : (List.range s.size).map (rankOf s') = (List.range s.size).map (rankOf s) :=
    List.map_congr_left (fun i _ => rankOf_sim h.sim i)
  rw [this]

theorem keysDistinct_sim {s s' : Array Res} (h : LoopSim R t s s') (model : Option Int) :
    keysDistinct model s' = keysDistinct model s := by
  unfold keysDistinct
  rw [h.sim.size]
  congr 1
  funext i
  congr 1
  funext j
  rcases h.sim.cases i with ⟨ei, ei'⟩ | ⟨ri, ri', ei, ei', _⟩
  · rw [ei, ei']
  · rcases h.sim.cases j with ⟨ej, ej'⟩ | ⟨rj, rj', ej, ej', _⟩
    · rw [ei, ei', ej, ej']
    · rw [ei, ei', ej, ej']
      simp only [inModel_congr (h.model i ri ri' ei ei') model, inModel_congr (h.model j rj rj' ej ej') model,
        h.sim.lt i j ri rj ri' rj' ei ej ei' ej', h.sim.lt j i rj ri rj' ri' ej ei ej' ei']

theorem output_sim (hR : M3.Orthonormal (1 : Rat) 0 R) {s s' : Array Res} (h : LoopSim R t s s')
    (model : Option Int) (st : St) : output P model s' st = output P model s st := by
  unfold output
  have e1 : hbContact P s' = hbContact P s := funext (hbContact_sim h)
  have e2 : contactUnd P s' = contactUnd P s := funext (contactUnd_sim hR h)
  have e3 : saengerOf s' = saengerOf s := funext (saengerOf_sim h)
  simp only [e1, e2, e3, rankFn_sim h, keysDistinct_sim h, modelPairs_sim hR h.sim, h.sim.size]

/-- **findPairs_sim**: all three lists and both flags are the same for two presentations related by `LoopSim` -/
theorem findPairs_sim (hR : M3.Proper R) {s s' : Array Res} (h : LoopSim R t s s') (model : Option Int) :
    findPairs P model s' = findPairs P model s := by
  unfold findPairs
  rw [loop_sim hR h, output_sim hR.1 h]

/-! ## the three instances -/

theorem loopSim_move (R : M3 Rat) (t : Q3) (s : Array Res) : LoopSim R t s (moveStruct R t s) where
  sim := structSim_move R t s
  model := by
    intro i r r' e e'
    simp only [moveStruct, Array.getElem?_map, e, Option.map_some, Option.some.injEq] at e'
    subst e'
    rfl

theorem loopSim_perm {s s' : Array Res} (h : AtomsPermuted s s') : LoopSim M3.id3 ⟨0, 0, 0⟩ s s' where
  sim := structSim_perm h
  model := by
    intro i r r' e e'
    obtain ⟨_, _, _, rfl⟩ := h.2 i r r' e e'
    rfl

theorem loopSim_relabel {f : Relabel} {s : Array Res} (h : OrderPreserving f s) :
    LoopSim M3.id3 ⟨0, 0, 0⟩ s (relabelStruct f s) where
  sim := structSim_relabel h
  model := by
    intro i r r' e e'
    simp only [relabelStruct, Array.getElem?_map, e, Option.map_some, Option.some.injEq] at e'
    subst e'
    rfl

end RnaVerif.FindPairs

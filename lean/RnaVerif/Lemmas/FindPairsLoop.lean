import RnaVerif.Model.FindPairs
import RnaVerif.Lemmas.Pairs
import RnaVerif.Lemmas.FindPairs
import Mathlib.Data.List.Nodup
import Mathlib.Tactic.Linarith
import Mathlib.Tactic.Ring
/-!
# The functional model of the `find_pairs` loop: what the loop consumes and records (C03 / C11)

* facts about the point list (`points`), the candidates (`candsFrom`) and the coordinate-keyed dictionaries
  (`canonList`);
* a fold principle with the processed prefix (`foldl_inv_split`);
* `RecOK`: every recorded base–phosphate / base–ribose contact is a donor → oxygen contact within the distance band
  between different residues with a class answered by `bphClasses` (`recs_ok`);
* `used_atoms` is exactly the set of atoms of the recorded contacts and no atom is recorded twice (`recs_exclusive`).
-/
namespace RnaVerif.FindPairs
open RnaVerif RnaVerif.Pairs

variable {P : Params}

/-! ## generic helpers -/

/-- fold invariant that may look at the processed prefix -/
theorem foldl_inv_split {α β : Type} (f : β → α → β) (Inv : List α → β → Prop) (l : List α)
    (hstep : ∀ (pre : List α) (a : α) (post : List α) (b : β), l = pre ++ a :: post → Inv pre b → Inv (pre ++ [a]) (f b a))
    (b0 : β) (h0 : Inv [] b0) : Inv l (l.foldl f b0) := by
  suffices h : ∀ (rest pre : List α) (b : β), l = pre ++ rest → Inv pre b → Inv l (rest.foldl f b) from
    h l [] b0 rfl h0
  intro rest
  induction rest with
  | nil =>
    intro pre b e hb
    simp only [List.append_nil] at e
    subst e
    exact hb
  | cons a rest ih =>
    intro pre b e hb
    simp only [List.foldl_cons]
    exact ih (pre ++ [a]) (f b a) (by simp [e]) (hstep pre a rest b e hb)

/-- plain fold invariant with membership -/
theorem foldl_inv_mem {α β : Type} (f : β → α → β) (Inv : β → Prop) (l : List α)
    (hstep : ∀ (a : α) (b : β), a ∈ l → Inv b → Inv (f b a)) (b0 : β) (h0 : Inv b0) : Inv (l.foldl f b0) := by
  induction l generalizing b0 with
  | nil => exact h0
  | cons a rest ih =>
    simp only [List.foldl_cons]
    exact ih (fun a' b ha hb => hstep a' b (List.mem_cons_of_mem _ ha) hb) _ (hstep a b0 List.mem_cons_self h0)

/-! ## `dedup` -/

theorem mem_dedup {x : String} : ∀ {l : List String}, x ∈ dedup l ↔ x ∈ l
  | [] => by simp [dedup]
  | y :: ys => by
    simp only [dedup, List.mem_cons, List.mem_filter, mem_dedup (l := ys)]
    by_cases h : x = y
    · simp [h]
    · simp [h]

theorem nodup_dedup : ∀ (l : List String), (dedup l).Nodup
  | [] => by simp [dedup]
  | x :: xs => by
    simp only [dedup, List.nodup_cons, List.mem_filter]
    exact ⟨by simp, (nodup_dedup xs).filter _⟩

theorem codePointNames_nodup (hd : P.dedupPoints = true) (base : String) : (codePointNames P base).Nodup := by
  unfold codePointNames
  rw [hd]
  exact nodup_dedup _

theorem codePointNames_eq (hd : P.dedupPoints = true) (base : String) : codePointNames P base = pointNames P base := by
  unfold codePointNames pointNames
  rw [hd]; rfl

/-! ## kinds -/

theorem kindOf_phosphate (base n : String) (h : P.phosphateAcceptors.contains n = true) :
    kindOf P base n = .acceptor := by
  unfold kindOf acceptorsOf
  have : (((P.baseAcceptors.lookup base).getD [] ++ P.riboseAcceptors ++ P.phosphateAcceptors).contains n) = true := by
    simp only [List.contains_eq_mem, List.mem_append, decide_eq_true_eq] at h ⊢
    exact Or.inr h
  rw [this]; rfl

theorem kindOf_ribose (base n : String) (h : P.riboseAcceptors.contains n = true) :
    kindOf P base n = .acceptor := by
  unfold kindOf acceptorsOf
  have : (((P.baseAcceptors.lookup base).getD [] ++ P.riboseAcceptors ++ P.phosphateAcceptors).contains n) = true := by
    simp only [List.contains_eq_mem, List.mem_append, decide_eq_true_eq] at h ⊢
    exact Or.inl (Or.inr h)
  rw [this]; rfl

theorem kind_ne_acceptor {k : Kind} (h : k ≠ .acceptor) : k = .donor := by
  cases k
  · rfl
  · exact absurd rfl h

theorem beq_comm_str (x y : String) : (x == y) = (y == x) := by
  by_cases h : x = y
  · subst h; rfl
  · have h' : ¬ y = x := fun e => h e.symm
    simp [h, h']

theorem sameResidue_comm (a b : Res) : sameResidue a b = sameResidue b a := by
  unfold sameResidue
  cases ha : a.lab <;> cases hb : b.lab <;> cases ha' : a.auth <;> cases hb' : b.auth <;>
    simp [beq_comm_str]

/-! ## points -/

theorem mem_resPoints {i : Nat} {r : Res} {p : Point} :
    p ∈ resPoints P i r ↔ p.ri = i ∧ p.name ∈ codePointNames P r.base ∧ findAtom r p.name = some p.pos := by
  unfold resPoints
  simp only [List.mem_filterMap, Option.map_eq_some_iff]
  constructor
  · rintro ⟨n, hn, x, hx, rfl⟩
    exact ⟨rfl, hn, hx⟩
  · rintro ⟨h1, h2, h3⟩
    refine ⟨p.name, h2, p.pos, h3, ?_⟩
    cases p; simp_all

/-- **mem_points**: a point of the KD-tree is an atom of an analysed residue named in the code's name list -/
theorem mem_points {model : Option Int} {s : Array Res} {p : Point} :
    p ∈ points P model s ↔
      ∃ r, s[p.ri]? = some r ∧ inModel model r = true ∧ p.name ∈ codePointNames P r.base ∧
        findAtom r p.name = some p.pos := by
  unfold points
  simp only [List.mem_flatMap, List.mem_range]
  constructor
  · rintro ⟨i, hi, hp⟩
    cases e : s[i]? with
    | none => simp [e] at hp
    | some r =>
      simp only [e] at hp
      by_cases hm : inModel model r = true
      · simp only [hm, ↓reduceIte] at hp
        obtain ⟨h1, h2, h3⟩ := mem_resPoints.mp hp
        subst h1
        exact ⟨r, e, hm, h2, h3⟩
      · simp [hm] at hp
  · rintro ⟨r, e, hm, h2, h3⟩
    have hi : p.ri < s.size := by
      rcases Nat.lt_or_ge p.ri s.size with h | h
      · exact h
      · rw [Array.getElem?_eq_none h] at e; cases e
    refine ⟨p.ri, hi, ?_⟩
    simp only [e, hm, ↓reduceIte]
    exact mem_resPoints.mpr ⟨rfl, h2, h3⟩

/-- points follow the residue order; inside a residue the names are pairwise different -/
theorem points_ordered (hd : P.dedupPoints = true) (model : Option Int) (s : Array Res) :
    (points P model s).Pairwise (fun p q => p.ri < q.ri ∨ (p.ri = q.ri ∧ p.name ≠ q.name)) := by
  unfold points
  rw [List.pairwise_flatMap]
  constructor
  · intro i _
    cases e : s[i]? with
    | none => exact List.Pairwise.nil
    | some r =>
      simp only
      split
      · unfold resPoints
        have hn := codePointNames_nodup hd r.base
        rw [List.nodup_iff_pairwise_ne] at hn
        refine List.Pairwise.filterMap _ ?_ hn
        intro a a' hne b hb b' hb'
        simp only [Option.map_eq_some_iff] at hb hb'
        obtain ⟨_, _, rfl⟩ := hb
        obtain ⟨_, _, rfl⟩ := hb'
        exact Or.inr ⟨rfl, hne⟩
      · exact List.Pairwise.nil
  · have hr : (List.range s.size).Pairwise (· < ·) := List.pairwise_lt_range
    refine hr.imp ?_
    intro i j hij x hx y hy
    have hxi : x.ri = i := by
      cases e : s[i]? with
      | none => simp [e] at hx
      | some r =>
        simp only [e] at hx
        split at hx
        · exact (mem_resPoints.mp hx).1
        · cases hx
    have hyj : y.ri = j := by
      cases e : s[j]? with
      | none => simp [e] at hy
      | some r =>
        simp only [e] at hy
        split at hy
        · exact (mem_resPoints.mp hy).1
        · cases hy
    left; omega

/-- index form -/
theorem points_ordered_idx (hd : P.dedupPoints = true) (model : Option Int) (s : Array Res) {m n : Nat} {p q : Point}
    (hm : (points P model s)[m]? = some p) (hn : (points P model s)[n]? = some q) (hlt : m < n) :
    p.ri < q.ri ∨ (p.ri = q.ri ∧ p.name ≠ q.name) := by
  have h := List.pairwise_iff_getElem.mp (points_ordered hd model s)
  obtain ⟨h1, e1⟩ := List.getElem_of_getElem? hm
  obtain ⟨h2, e2⟩ := List.getElem_of_getElem? hn
  have := h m n h1 h2 hlt
  rw [e1, e2] at this
  exact this

/-- a point is determined by its residue and name -/
theorem points_index_unique (hd : P.dedupPoints = true) (model : Option Int) (s : Array Res) {m n : Nat} {p q : Point}
    (hm : (points P model s)[m]? = some p) (hn : (points P model s)[n]? = some q)
    (hri : p.ri = q.ri) (hname : p.name = q.name) : m = n := by
  rcases Nat.lt_trichotomy m n with h | h | h
  · rcases points_ordered_idx hd model s hm hn h with h' | ⟨_, h'⟩
    · omega
    · exact absurd hname h'
  · exact h
  · rcases points_ordered_idx hd model s hn hm h with h' | ⟨_, h'⟩
    · omega
    · exact absurd hname.symm h'

/-! ## candidates -/

theorem mem_candRow {i : Nat} {p : Q3} {c : Nat × Nat × Tri} :
    ∀ {qs : List Point} {j : Nat}, c ∈ candRow P i p j qs →
      c.1 = i ∧ ∃ m q, qs[m]? = some q ∧ c.2.1 = j + m ∧ c.2.2 = distTriPt P p q.pos ∧ c.2.2 ≠ .no
  | [], _, h => by simp [candRow] at h
  | q :: qs, j, h => by
    unfold candRow at h
    cases ht : distTriPt P p q.pos with
    | no =>
      simp only [ht] at h
      obtain ⟨h1, m, q', hq, h2, h3⟩ := mem_candRow h
      exact ⟨h1, m + 1, q', by simpa using hq, by omega, h3⟩
    | yes =>
      simp only [ht, List.mem_cons] at h
      rcases h with h | h
      · subst h
        exact ⟨rfl, 0, q, rfl, rfl, ht.symm, by simp⟩
      · obtain ⟨h1, m, q', hq, h2, h3⟩ := mem_candRow h
        exact ⟨h1, m + 1, q', by simpa using hq, by omega, h3⟩
    | undecided =>
      simp only [ht, List.mem_cons] at h
      rcases h with h | h
      · subst h
        exact ⟨rfl, 0, q, rfl, rfl, ht.symm, by simp⟩
      · obtain ⟨h1, m, q', hq, h2, h3⟩ := mem_candRow h
        exact ⟨h1, m + 1, q', by simpa using hq, by omega, h3⟩

theorem candRow_complete {i : Nat} {p : Q3} :
    ∀ {qs : List Point} {j m : Nat} {q : Point}, qs[m]? = some q → distTriPt P p q.pos ≠ .no →
      (i, j + m, distTriPt P p q.pos) ∈ candRow P i p j qs
  | [], _, m, _, h, _ => by simp at h
  | q0 :: qs, j, 0, q, h, hne => by
    simp only [List.getElem?_cons_zero, Option.some.injEq] at h
    subst h
    unfold candRow
    cases ht : distTriPt P p q0.pos with
    | no => exact absurd ht hne
    | yes => simp
    | undecided => simp
  | q0 :: qs, j, m + 1, q, h, hne => by
    simp only [List.getElem?_cons_succ] at h
    have ih := candRow_complete (i := i) (p := p) (j := j + 1) h hne
    have e : j + 1 + m = j + (m + 1) := by omega
    rw [e] at ih
    unfold candRow
    cases ht : distTriPt P p q0.pos with
    | no => exact ih
    | yes => exact List.mem_cons_of_mem _ ih
    | undecided => exact List.mem_cons_of_mem _ ih

/-- a candidate names two points `m < n` of the list, with the answer of the distance test (never `no`) -/
theorem mem_candsFrom {c : Nat × Nat × Tri} :
    ∀ {l : List Point} {k : Nat}, c ∈ candsFrom P k l →
      ∃ m n p q, l[m]? = some p ∧ l[n]? = some q ∧ m < n ∧ c.1 = k + m ∧ c.2.1 = k + n ∧
        c.2.2 = distTriPt P p.pos q.pos ∧ c.2.2 ≠ .no
  | [], _, h => by simp [candsFrom] at h
  | p :: ps, k, h => by
    unfold candsFrom at h
    rcases List.mem_append.mp h with h | h
    · obtain ⟨h1, m, q, hq, h2, h3, h4⟩ := mem_candRow h
      exact ⟨0, m + 1, p, q, rfl, by simpa using hq, by omega, by omega, by omega, h3, h4⟩
    · obtain ⟨m, n, p', q', hp, hq, hlt, h1, h2, h3⟩ := mem_candsFrom h
      exact ⟨m + 1, n + 1, p', q', by simpa using hp, by simpa using hq, by omega, by omega, by omega, h3⟩

theorem candsFrom_complete :
    ∀ {l : List Point} {k m n : Nat} {p q : Point}, l[m]? = some p → l[n]? = some q → m < n →
      distTriPt P p.pos q.pos ≠ .no → (k + m, k + n, distTriPt P p.pos q.pos) ∈ candsFrom P k l
  | [], _, m, _, _, _, h, _, _, _ => by simp at h
  | p0 :: ps, k, 0, n + 1, p, q, hp, hq, _, hne => by
    simp only [List.getElem?_cons_zero, Option.some.injEq] at hp
    subst hp
    simp only [List.getElem?_cons_succ] at hq
    unfold candsFrom
    apply List.mem_append_left
    have := candRow_complete (P := P) (i := k) (p := p0.pos) (j := k + 1) hq hne
    have e : k + 1 + n = k + (n + 1) := by omega
    rw [e] at this
    simpa using this
  | p0 :: ps, k, m + 1, 0, _, _, _, _, hlt, _ => by omega
  | p0 :: ps, k, m + 1, n + 1, p, q, hp, hq, hlt, hne => by
    simp only [List.getElem?_cons_succ] at hp hq
    unfold candsFrom
    apply List.mem_append_right
    have := candsFrom_complete (k := k + 1) hp hq (by omega) hne
    have e1 : k + 1 + m = k + (m + 1) := by omega
    have e2 : k + 1 + n = k + (n + 1) := by omega
    rw [e1, e2] at this
    exact this

/-- the index pairs of the candidates are pairwise different -/
theorem candRow_keys_lt {i : Nat} {p : Q3} :
    ∀ (qs : List Point) (j : Nat), ((candRow P i p j qs).map (fun c => c.2.1)).Pairwise (· < ·)
  | [], _ => by simp [candRow]
  | q :: qs, j => by
    have ih := candRow_keys_lt (i := i) (p := p) qs (j + 1)
    have hge : ∀ x ∈ (candRow P i p (j + 1) qs).map (fun c => c.2.1), j < x := by
      intro x hx
      obtain ⟨c, hc, rfl⟩ := List.mem_map.mp hx
      obtain ⟨_, m, _, _, h2, _⟩ := mem_candRow hc
      omega
    unfold candRow
    cases distTriPt P p q.pos with
    | no => exact ih
    | yes => exact List.pairwise_cons.mpr ⟨hge, ih⟩
    | undecided => exact List.pairwise_cons.mpr ⟨hge, ih⟩

theorem candsFrom_keys_nodup : ∀ (l : List Point) (k : Nat), ((candsFrom P k l).map (fun c => (c.1, c.2.1))).Nodup
  | [], _ => by simp [candsFrom]
  | p :: ps, k => by
    unfold candsFrom
    rw [List.map_append, List.nodup_append]
    refine ⟨?_, candsFrom_keys_nodup ps (k + 1), ?_⟩
    · have h := candRow_keys_lt (P := P) (i := k) (p := p.pos) ps (k + 1)
      rw [List.pairwise_map] at h
      rw [List.nodup_iff_pairwise_ne, List.pairwise_map]
      exact h.imp (fun hab e => by
        have := congrArg Prod.snd e
        simp only at this
        omega)
    · intro x hx y hy e
      subst e
      obtain ⟨c, hc, rfl⟩ := List.mem_map.mp hx
      obtain ⟨c', hc', e'⟩ := List.mem_map.mp hy
      obtain ⟨h1, _⟩ := mem_candRow hc
      obtain ⟨m, n, _, _, _, _, _, h2, _⟩ := mem_candsFrom hc'
      have := congrArg Prod.fst e'
      simp only at this
      omega

/-! ## the coordinate-keyed dictionaries -/

/-- what `lastIdxFrom` returns -/
theorem lastIdxFrom_spec (x : Q3) :
    ∀ (ps : List Point) (k acc : Nat),
      (lastIdxFrom x k ps acc = acc ∧ ∀ p ∈ ps, p.pos ≠ x) ∨
      (∃ m p, ps[m]? = some p ∧ p.pos = x ∧ lastIdxFrom x k ps acc = k + m ∧
        ∀ m' p', m < m' → ps[m']? = some p' → p'.pos ≠ x)
  | [], k, acc => Or.inl ⟨rfl, by simp⟩
  | p :: ps, k, acc => by
    unfold lastIdxFrom
    by_cases hp : p.pos = x
    · simp only [hp, beq_self_eq_true, ↓reduceIte]
      rcases lastIdxFrom_spec x ps (k + 1) k with ⟨h1, h2⟩ | ⟨m, q, hq, hx, h1, h2⟩
      · right
        refine ⟨0, p, rfl, hp, by rw [h1]; rfl, ?_⟩
        intro m' p' hm' hp'
        cases m' with
        | zero => omega
        | succ m' =>
          simp only [List.getElem?_cons_succ] at hp'
          exact h2 p' (List.mem_of_getElem? hp')
      · right
        refine ⟨m + 1, q, by simpa using hq, hx, by rw [h1]; omega, ?_⟩
        intro m' p' hm' hp'
        cases m' with
        | zero => omega
        | succ m' =>
          simp only [List.getElem?_cons_succ] at hp'
          exact h2 m' p' (by omega) hp'
    · have hb : (p.pos == x) = false := by simpa using hp
      simp only [hb, Bool.false_eq_true, ↓reduceIte]
      rcases lastIdxFrom_spec x ps (k + 1) acc with ⟨h1, h2⟩ | ⟨m, q, hq, hx, h1, h2⟩
      · left
        refine ⟨h1, ?_⟩
        intro p' hp'
        rcases List.mem_cons.mp hp' with e | e
        · subst e; exact hp
        · exact h2 p' e
      · right
        refine ⟨m + 1, q, by simpa using hq, hx, by rw [h1]; omega, ?_⟩
        intro m' p' hm' hp'
        cases m' with
        | zero => omega
        | succ m' =>
          simp only [List.getElem?_cons_succ] at hp'
          exact h2 m' p' (by omega) hp'

/-- **canon_spec**: the dictionaries return, for point `i`, a point with the same coordinates — the last one -/
theorem canon_spec {pts : List Point} {i : Nat} {p : Point} (hp : pts[i]? = some p) :
    ∃ ci a, (canonList pts)[i]? = some ci ∧ pts[ci]? = some a ∧ a.pos = p.pos ∧ i ≤ ci ∧
      ∀ m' p', ci < m' → pts[m']? = some p' → p'.pos ≠ p.pos := by
  unfold canonList
  simp only [List.getElem?_map, hp, Option.map_some]
  rcases lastIdxFrom_spec p.pos pts 0 0 with ⟨_, h2⟩ | ⟨m, q, hq, hx, h1, h2⟩
  · exact absurd rfl (h2 p (List.mem_of_getElem? hp))
  · refine ⟨m, q, by rw [h1]; simp, hq, hx, ?_, h2⟩
    rcases Nat.lt_or_ge m i with h | h
    · exact absurd rfl (h2 i p h hp)
    · exact h

/-- without coincident coordinates the dictionaries return the point itself -/
theorem canon_id {pts : List Point} (hnd : (pts.map (·.pos)).Nodup) {i : Nat} {p : Point} (hp : pts[i]? = some p) :
    (canonList pts)[i]? = some i := by
  obtain ⟨ci, a, h1, h2, h3, h4, _⟩ := canon_spec hp
  rcases Nat.lt_or_ge i ci with h | h
  · exfalso
    have hpw := List.pairwise_iff_getElem.mp (List.nodup_iff_pairwise_ne.mp hnd)
    obtain ⟨hi, ei⟩ := List.getElem_of_getElem? hp
    obtain ⟨hc, ec⟩ := List.getElem_of_getElem? h2
    have := hpw i ci (by simpa using hi) (by simpa using hc) h
    simp only [List.getElem_map, ei, ec] at this
    exact this h3.symm
  · have : ci = i := by omega
    rw [this] at h1; exact h1

/-- either way of looking a point up returns a point with the same coordinates -/
theorem canonOf_spec (k : Bool) {pts : List Point} {i : Nat} {p : Point} (hp : pts[i]? = some p) :
    ∃ ci a, (canonOf k pts)[i]? = some ci ∧ pts[ci]? = some a ∧ a.pos = p.pos := by
  unfold canonOf
  cases k
  · have hi : i < pts.length := by
      obtain ⟨h, _⟩ := List.getElem_of_getElem? hp
      exact h
    exact ⟨i, p, by simp [List.getElem?_range hi], hp, rfl⟩
  · obtain ⟨ci, a, h1, h2, h3, _, _⟩ := canon_spec hp
    exact ⟨ci, a, by simpa using h1, h2, h3⟩

/-- a point is looked up as itself when the maps are keyed by index, or when no two points share their coordinates -/
theorem canonOf_id (k : Bool) {pts : List Point} (hnd : k = true → (pts.map (·.pos)).Nodup) {i : Nat} {p : Point}
    (hp : pts[i]? = some p) : (canonOf k pts)[i]? = some i := by
  unfold canonOf
  cases k
  · have hi : i < pts.length := by
      obtain ⟨h, _⟩ := List.getElem_of_getElem? hp
      exact h
    simp [List.getElem?_range hi]
  · simpa using canon_id (hnd rfl) hp

/-! ## case analysis of one iteration -/

/-- the state with the undecided flag of the candidate's distance recorded -/
def flagged (st : St) (c : Nat × Nat × Tri) : St := if c.2.2 == .undecided then { st with und := true } else st

theorem flagged_fields (st : St) (c : Nat × Nat × Tri) :
    (flagged st c).used = st.used ∧ (flagged st c).hb = st.hb ∧ (flagged st c).recs = st.recs := by
  unfold flagged
  split <;> exact ⟨rfl, rfl, rfl⟩

/-- an iteration either leaves the (flagged) state or runs the body on the atoms the dictionaries return -/
theorem step_cases (s : Array Res) (pts : List Point) (canon : List Nat) (st : St) (c : Nat × Nat × Tri) :
    step P s pts canon st c = flagged st c ∨
    ∃ ci cj a b ra rb, canon[c.1]? = some ci ∧ canon[c.2.1]? = some cj ∧ pts[ci]? = some a ∧ pts[cj]? = some b ∧
      s[a.ri]? = some ra ∧ s[b.ri]? = some rb ∧ step P s pts canon st c = body P (flagged st c) ci cj a b ra rb := by
  cases h1 : canon[c.1]? with
  | none => left; unfold step flagged; simp only [h1]
  | some ci =>
    cases h2 : canon[c.2.1]? with
    | none => left; unfold step flagged; simp only [h1, h2]
    | some cj =>
      cases h3 : pts[ci]? with
      | none => left; unfold step flagged; simp only [h1, h2, h3]
      | some a =>
        cases h4 : pts[cj]? with
        | none => left; unfold step flagged; simp only [h1, h2, h3, h4]
        | some b =>
          cases h5 : s[a.ri]? with
          | none => left; unfold step flagged; simp only [h1, h2, h3, h4, h5]
          | some ra =>
            cases h6 : s[b.ri]? with
            | none => left; unfold step flagged; simp only [h1, h2, h3, h4, h5, h6]
            | some rb =>
              right
              refine ⟨ci, cj, a, b, ra, rb, rfl, rfl, h3, h4, h5, h6, ?_⟩
              unfold step flagged; simp only [h1, h2, h3, h4, h5, h6]

theorem consume_cases (st : St) (phos : Bool) (ci cj : Nat) (d : Point) (rd : Res) (ac : Point) :
    ((consume P st phos ci cj d rd ac).recs = st.recs ∧ (consume P st phos ci cj d rd ac).used = st.used ∧
      (consume P st phos ci cj d rd ac).hb = st.hb) ∨
    (∃ k, k ∈ bphClasses P rd d.name d.pos ac.pos ∧
      (consume P st phos ci cj d rd ac).recs = st.recs ++ [⟨phos, ci, cj, d.ri, ac.ri, d.name, ac.name, k⟩] ∧
      (consume P st phos ci cj d rd ac).used = cj :: ci :: st.used ∧ (consume P st phos ci cj d rd ac).hb = st.hb) := by
  unfold consume
  cases h : bphClasses P rd d.name d.pos ac.pos with
  | nil => exact Or.inl ⟨rfl, rfl, rfl⟩
  | cons k rest =>
    cases rest with
    | nil => exact Or.inr ⟨k, by simp, rfl, rfl, rfl⟩
    | cons k2 rest2 => exact Or.inr ⟨k, by simp, rfl, rfl, rfl⟩

theorem baseBase_cases (st : St) (a b : Point) (ra rb : Res) :
    (baseBase P st a b ra rb).recs = st.recs ∧ (baseBase P st a b ra rb).used = st.used ∧
    ((baseBase P st a b ra rb).hb = st.hb ∨
      (∃ ni nj, normal P ra = some ni ∧ normal P rb = some nj ∧
        angleTri P ni (V3.sub a.pos b.pos) = .yes ∧ angleTri P nj (V3.sub a.pos b.pos) = .yes ∧
        (baseBase P st a b ra rb).hb = st.hb ++ [⟨a.ri, a.name, b.ri, b.name⟩])) := by
  unfold baseBase
  cases h1 : normal P ra with
  | none => exact ⟨rfl, rfl, Or.inl rfl⟩
  | some ni =>
    cases h2 : normal P rb with
    | none => exact ⟨rfl, rfl, Or.inl rfl⟩
    | some nj =>
      simp only
      cases h3 : angleTri P ni (V3.sub a.pos b.pos) <;> cases h4 : angleTri P nj (V3.sub a.pos b.pos) <;>
        first
          | exact ⟨rfl, rfl, Or.inl rfl⟩
          | exact ⟨rfl, rfl, Or.inr ⟨ni, nj, rfl, rfl, h3, h4, rfl⟩⟩

/-- the names list of a branch -/
def branchNames (P : Params) (phos : Bool) : List String := if phos then P.phosphateAcceptors else P.riboseAcceptors

theorem kindOf_branch (phos : Bool) (base n : String) (h : (branchNames P phos).contains n = true) :
    kindOf P base n = .acceptor := by
  cases phos
  · exact kindOf_ribose base n h
  · exact kindOf_phosphate base n h

/-- what the body does with a candidate that passes the type test and the same-residue skips -/
theorem body_cases (st : St) (ci cj : Nat) (a b : Point) (ra rb : Res) :
    body P st ci cj a b ra rb = st ∨
    (kindOf P ra.base a.name ≠ kindOf P rb.base b.name ∧ sameResidue ra rb = false ∧
      ((∃ phos d rd ac rac,
          ((d = a ∧ rd = ra ∧ ac = b ∧ rac = rb) ∨ (d = b ∧ rd = rb ∧ ac = a ∧ rac = ra)) ∧
          kindOf P rd.base d.name = .donor ∧ kindOf P rac.base ac.name = .acceptor ∧
          (branchNames P phos).contains ac.name = true ∧
          st.used.contains ci = false ∧ st.used.contains cj = false ∧
          body P st ci cj a b ra rb = consume P st phos ci cj d rd ac) ∨
       (body P st ci cj a b ra rb = baseBase P st a b ra rb ∧
          ((P.phosphateAcceptors.contains a.name = false ∧ P.phosphateAcceptors.contains b.name = false ∧
            P.riboseAcceptors.contains a.name = false ∧ P.riboseAcceptors.contains b.name = false) ∨
           (st.used.contains ci = true ∨ st.used.contains cj = true))))) := by
  unfold body
  by_cases hk : (kindOf P ra.base a.name == kindOf P rb.base b.name) = true
  · left; simp only [hk, ↓reduceIte]
  · have hne : kindOf P ra.base a.name ≠ kindOf P rb.base b.name := by simpa using hk
    by_cases hs : sameResidue ra rb = true
    · left; simp only [hk, hs, Bool.false_eq_true, ↓reduceIte]
    · have hs' : sameResidue ra rb = false := by simpa using hs
      right
      refine ⟨hne, hs', ?_⟩
      simp only [hk, hs', Bool.false_eq_true, ↓reduceIte]
      -- who is the donor
      have hda : kindOf P ra.base a.name = .donor → kindOf P rb.base b.name = .acceptor := by
        intro h
        cases hb : kindOf P rb.base b.name with
        | donor => rw [h, hb] at hne; exact absurd rfl hne
        | acceptor => rfl
      have had : kindOf P ra.base a.name ≠ .donor →
          kindOf P ra.base a.name = .acceptor ∧ kindOf P rb.base b.name = .donor := by
        intro h
        have ha : kindOf P ra.base a.name = .acceptor := by
          cases hq : kindOf P ra.base a.name with
          | donor => exact absurd hq h
          | acceptor => rfl
        refine ⟨ha, ?_⟩
        cases hb : kindOf P rb.base b.name with
        | donor => rfl
        | acceptor => rw [ha, hb] at hne; exact absurd rfl hne
      -- the oxygen of a branch is the atom typed acceptor
      have key : ∀ phos : Bool, ((branchNames P phos).contains a.name || (branchNames P phos).contains b.name) = true →
          (kindOf P ra.base a.name = .donor → (branchNames P phos).contains b.name = true) ∧
          (kindOf P ra.base a.name ≠ .donor → (branchNames P phos).contains a.name = true) := by
        intro phos hor
        simp only [Bool.or_eq_true] at hor
        constructor
        · intro hd
          rcases hor with h | h
          · rw [kindOf_branch phos ra.base a.name h] at hd; cases hd
          · exact h
        · intro hd
          rcases hor with h | h
          · exact h
          · have := (had hd).2
            rw [kindOf_branch phos rb.base b.name h] at this; cases this
      by_cases hu : (!st.used.contains ci && !st.used.contains cj) = true
      · have hu' : st.used.contains ci = false ∧ st.used.contains cj = false := by simpa using hu
        by_cases hp : (P.phosphateAcceptors.contains a.name || P.phosphateAcceptors.contains b.name) = true
        · left
          simp only [hp, hu, Bool.and_self, ↓reduceIte]
          by_cases hd : kindOf P ra.base a.name = .donor
          · refine ⟨true, a, ra, b, rb, Or.inl ⟨rfl, rfl, rfl, rfl⟩, hd, hda hd, (key true hp).1 hd, hu'.1, hu'.2, ?_⟩
            simp [hd]
          · refine ⟨true, b, rb, a, ra, Or.inr ⟨rfl, rfl, rfl, rfl⟩, (had hd).2, (had hd).1, (key true hp).2 hd, hu'.1, hu'.2, ?_⟩
            have : (kindOf P ra.base a.name == Kind.donor) = false := by simpa using hd
            simp [this]
        · have hp' : (P.phosphateAcceptors.contains a.name || P.phosphateAcceptors.contains b.name) = false := by
            simpa using hp
          by_cases hr : (P.riboseAcceptors.contains a.name || P.riboseAcceptors.contains b.name) = true
          · left
            simp only [hp', hr, hu, Bool.false_and, Bool.and_self, Bool.false_eq_true, ↓reduceIte]
            by_cases hd : kindOf P ra.base a.name = .donor
            · refine ⟨false, a, ra, b, rb, Or.inl ⟨rfl, rfl, rfl, rfl⟩, hd, hda hd, (key false hr).1 hd, hu'.1, hu'.2, ?_⟩
              simp [hd]
            · refine ⟨false, b, rb, a, ra, Or.inr ⟨rfl, rfl, rfl, rfl⟩, (had hd).2, (had hd).1, (key false hr).2 hd, hu'.1, hu'.2, ?_⟩
              have : (kindOf P ra.base a.name == Kind.donor) = false := by simpa using hd
              simp [this]
          · have hr' : (P.riboseAcceptors.contains a.name || P.riboseAcceptors.contains b.name) = false := by
              simpa using hr
            right
            simp only [hp', hr', Bool.false_and, Bool.false_eq_true, ↓reduceIte, true_and]
            left
            simp only [Bool.or_eq_false_iff] at hp' hr'
            exact ⟨hp'.1, hp'.2, hr'.1, hr'.2⟩
      · have hu' : (!st.used.contains ci && !st.used.contains cj) = false := by simpa using hu
        right
        simp only [hu', Bool.and_false, Bool.false_eq_true, ↓reduceIte, true_and]
        right
        simp only [Bool.and_eq_false_iff, Bool.not_eq_false'] at hu'
        exact hu'

/-! ## what is recorded by the base–phosphate / base–ribose branches -/

theorem dist2_comm (p q : Q3) : V3.dist2 p q = V3.dist2 q p := by
  simp only [V3.dist2, V3.norm2, V3.dot, V3.sub]; ring

/-- a recorded contact: a donor-typed atom `d` of residue `rd` and an acceptor-typed atom `ac` of residue `rac` — the
atoms the dictionaries returned for the two points of a candidate —, `ac` named in the branch's oxygen list, the two
residues not the same residue, the distance not answered `no`, the class one of those `bphClasses` answers -/
def RecOK (P : Params) (s : Array Res) (pts : List Point) (r : Rec) : Prop :=
  ∃ d ac : Point, ∃ rd rac : Res,
    ((pts[r.ci]? = some d ∧ pts[r.cj]? = some ac) ∨ (pts[r.ci]? = some ac ∧ pts[r.cj]? = some d)) ∧
    s[d.ri]? = some rd ∧ s[ac.ri]? = some rac ∧
    r.d = d.ri ∧ r.a = ac.ri ∧ r.dn = d.name ∧ r.an = ac.name ∧
    kindOf P rd.base d.name = .donor ∧ kindOf P rac.base ac.name = .acceptor ∧
    sameResidue rd rac = false ∧
    (branchNames P r.phos).contains ac.name = true ∧
    distTri P (V3.dist2 d.pos ac.pos) ≠ .no ∧
    r.k ∈ bphClasses P rd d.name d.pos ac.pos ∧ r.ci ≠ r.cj

/-- invariant of the loop about `used_atoms` and the recorded contacts -/
structure RInv (P : Params) (s : Array Res) (pts : List Point) (recs : List Rec) (used : List Nat) : Prop where
  ok : ∀ r ∈ recs, RecOK P s pts r
  used_iff : ∀ x, x ∈ used ↔ ∃ r ∈ recs, x = r.ci ∨ x = r.cj
  nodup : (recs.flatMap (fun r => [r.ci, r.cj])).Nodup

/-- a candidate of the loop: indices of two points, the answer of the distance test on their coordinates -/
def CandOK (P : Params) (pts : List Point) (c : Nat × Nat × Tri) : Prop :=
  ∃ p q, pts[c.1]? = some p ∧ pts[c.2.1]? = some q ∧ c.1 < c.2.1 ∧
    c.2.2 = distTri P (V3.dist2 p.pos q.pos) ∧ c.2.2 ≠ .no

theorem cands_ok {pts : List Point} {c : Nat × Nat × Tri} (h : c ∈ candsFrom P 0 pts) : CandOK P pts c := by
  obtain ⟨m, n, p, q, hp, hq, hlt, h1, h2, h3, h4⟩ := mem_candsFrom h
  simp only [Nat.zero_add] at h1 h2
  refine ⟨p, q, by rw [h1]; exact hp, by rw [h2]; exact hq, by omega, ?_, h4⟩
  rw [h3, distTriPt_eq]

theorem step_rinv (kd : Bool) {s : Array Res} {pts : List Point} {st : St} {c : Nat × Nat × Tri} (hc : CandOK P pts c)
    (h : RInv P s pts st.recs st.used) :
    RInv P s pts (step P s pts (canonOf kd pts) st c).recs (step P s pts (canonOf kd pts) st c).used := by
  have hf := flagged_fields st c
  rcases step_cases (P := P) s pts (canonOf kd pts) st c with e | ⟨ci, cj, a, b, ra, rb, h1, h2, h3, h4, h5, h6, e⟩
  · rw [e, hf.2.2, hf.1]; exact h
  · rw [e]
    rcases body_cases (P := P) (flagged st c) ci cj a b ra rb with e' | ⟨hne, hs, hbr⟩
    · rw [e', hf.2.2, hf.1]; exact h
    · rcases hbr with ⟨phos, d, rd, ac, rac, hwho, hkd, hka, hnm, hu1, hu2, e'⟩ | ⟨e', _⟩
      · rw [e']
        rcases consume_cases (P := P) (flagged st c) phos ci cj d rd ac with ⟨g1, g2, _⟩ | ⟨k, hk, g1, g2, _⟩
        · rw [g1, g2, hf.2.2, hf.1]; exact h
        · rw [g1, g2, hf.2.2, hf.1]
          rw [hf.1] at hu1 hu2
          have hu1' : ci ∉ st.used := by simpa using hu1
          have hu2' : cj ∉ st.used := by simpa using hu2
          -- the two atoms are different atoms
          have hcij : ci ≠ cj := by
            intro e
            subst e
            rw [h3] at h4
            cases h4
            rw [h5] at h6
            cases h6
            exact hne rfl
          -- coordinates of the atoms the dictionaries return
          obtain ⟨p, q, hp, hq, _, htri, hno⟩ := hc
          obtain ⟨ci', a', c1, c2, c3⟩ := canonOf_spec kd hp
          obtain ⟨cj', b', d1, d2, d3⟩ := canonOf_spec kd hq
          rw [h1] at c1; cases c1
          rw [h2] at d1; cases d1
          rw [h3] at c2; cases c2
          rw [h4] at d2; cases d2
          have hdist : distTri P (V3.dist2 a.pos b.pos) ≠ .no := by
            rw [c3, d3, ← htri]; exact hno
          refine ⟨?_, ?_, ?_⟩
          · intro r hr
            rcases List.mem_append.mp hr with hr | hr
            · exact h.ok r hr
            · simp only [List.mem_singleton] at hr
              subst hr
              rcases hwho with ⟨rfl, rfl, rfl, rfl⟩ | ⟨rfl, rfl, rfl, rfl⟩
              · exact ⟨d, ac, rd, rac, Or.inl ⟨h3, h4⟩, h5, h6, rfl, rfl, rfl, rfl, hkd, hka, hs, hnm, hdist, hk, hcij⟩
              · refine ⟨d, ac, rd, rac, Or.inr ⟨h3, h4⟩, h6, h5, rfl, rfl, rfl, rfl, hkd, hka, ?_, hnm, ?_, hk, hcij⟩
                · rw [sameResidue_comm]; exact hs
                · rw [dist2_comm]; exact hdist
          · intro x
            constructor
            · intro hx
              rcases List.mem_cons.mp hx with hx | hx
              · exact ⟨_, List.mem_append_right _ (List.mem_singleton.mpr rfl), Or.inr hx⟩
              · rcases List.mem_cons.mp hx with hx | hx
                · exact ⟨_, List.mem_append_right _ (List.mem_singleton.mpr rfl), Or.inl hx⟩
                · obtain ⟨r, hr, hxr⟩ := (h.used_iff x).mp hx
                  exact ⟨r, List.mem_append_left _ hr, hxr⟩
            · rintro ⟨r, hr, hxr⟩
              rcases List.mem_append.mp hr with hr | hr
              · exact List.mem_cons_of_mem _ (List.mem_cons_of_mem _ ((h.used_iff x).mpr ⟨r, hr, hxr⟩))
              · have hr' := List.mem_singleton.mp hr
                subst hr'
                rcases hxr with hxr | hxr
                · exact List.mem_cons_of_mem _ (List.mem_cons.mpr (Or.inl hxr))
                · exact List.mem_cons.mpr (Or.inl hxr)
          · rw [List.flatMap_append, List.nodup_append]
            refine ⟨h.nodup, by simp [hcij], ?_⟩
            intro x hx y hy exy
            subst exy
            obtain ⟨r, hr, hxr⟩ := List.mem_flatMap.mp hx
            simp only [List.mem_cons, List.not_mem_nil, or_false] at hxr
            have hxu : x ∈ st.used := (h.used_iff x).mpr ⟨r, hr, hxr⟩
            simp only [List.flatMap_cons, List.flatMap_nil, List.append_nil, List.mem_cons, List.not_mem_nil,
              or_false] at hy
            rcases hy with hy | hy
            · exact hu1' (hy ▸ hxu)
            · exact hu2' (hy ▸ hxu)
      · rw [e']
        obtain ⟨g1, g2, _⟩ := baseBase_cases (P := P) (flagged st c) a b ra rb
        rw [g1, g2, hf.2.2, hf.1]; exact h

/-- **recs_inv**: the invariant holds of the final state of the loop -/
theorem recs_inv (P : Params) (model : Option Int) (s : Array Res) :
    RInv P s (points P model s) (loop P model s).recs (loop P model s).used := by
  unfold loop loopOn
  refine foldl_inv_mem _ (fun st : St => RInv P s (points P model s) st.recs st.used) _ ?_ _ ?_
  · intro c st hc hst
    exact step_rinv _ (cands_ok hc) hst
  · exact ⟨by simp [St.init], by simp [St.init], by simp [St.init]⟩

end RnaVerif.FindPairs

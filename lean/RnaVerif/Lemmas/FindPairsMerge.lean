import RnaVerif.Lemmas.FindPairsLoop
/-!
# `merge_and_clean_bph_br(sorted(...))` of the functional model (C11)

`mergeOut` sorts the recorded `(donor residue, acceptor residue, class)` triples, groups them under the dictionary key
`(donor residue, acceptor residue)` (coded `d * n + a`), applies the merge rules, keeps the first class and lists the
result in dictionary order.  Here: the coding is faithful (`decode_encode`), every listed triple comes from a group of
recorded triples of that residue pair (`mem_mergeOut`), and no residue pair is listed twice (`mergeOut_pairs_nodup`).
-/
namespace RnaVerif.FindPairs
open RnaVerif RnaVerif.Pairs

variable {P : Params}

theorem decode_encode {n d a : Nat} (ha : a < n) : ((d * n + a) / n, (d * n + a) % n) = (d, a) := by
  have hn : 0 < n := by omega
  have h1 : (d * n + a) / n = d := by
    rw [Nat.add_comm, Nat.add_mul_div_right _ _ hn, Nat.div_eq_of_lt ha, Nat.zero_add]
  have h2 : (d * n + a) % n = a := by
    rw [Nat.add_comm, Nat.add_mul_mod_self_right, Nat.mod_eq_of_lt ha]
  rw [h1, h2]

theorem decode_inj {n k k' : Nat} (h : (k / n, k % n) = (k' / n, k' % n)) : k = k' := by
  simp only [Prod.mk.injEq] at h
  rw [← Nat.div_add_mod k n, ← Nat.div_add_mod k' n, h.1, h.2]

/-- the rows handed to `mergeClean` -/
def encRows (rank : Nat → Nat) (n : Nat) (l : List (Nat × Nat × Nat)) : List (Nat × Nat) :=
  (isort (tripleLe rank) l).map (fun t => (t.1 * n + t.2.1, t.2.2))

theorem mem_encRows {rank : Nat → Nat} {n : Nat} {l : List (Nat × Nat × Nat)}
    (hb : ∀ t ∈ l, t.2.1 < n) {key c : Nat} (h : (key, c) ∈ encRows rank n l) :
    (key / n, key % n, c) ∈ l := by
  unfold encRows at h
  obtain ⟨t, ht, e⟩ := List.mem_map.mp h
  have ht' : t ∈ l := (isort_perm _ l).mem_iff.mp ht
  simp only [Prod.mk.injEq] at e
  have hd := decode_encode (d := t.1) (hb t ht')
  simp only [Prod.mk.injEq] at hd
  rw [← e.1, ← e.2, hd.1, hd.2]
  exact ht'

/-- a listed triple is `(decoded key, one of the classes kept for that key)` -/
theorem mem_mergeOut {rank : Nat → Nat} {n : Nat} {l : List (Nat × Nat × Nat)} {x : Nat × Nat × Nat}
    (h : x ∈ mergeOut P rank n l) :
    ∃ e ∈ mergeClean P (encRows rank n l), x.2.2 ∈ e.2 ∧ x.1 = e.1 / n ∧ x.2.1 = e.1 % n := by
  unfold mergeOut at h
  obtain ⟨e, he, hx⟩ := List.mem_flatMap.mp h
  obtain ⟨k, hk, rfl⟩ := List.mem_map.mp hx
  exact ⟨e, he, hk, rfl, rfl⟩

/-- **mergeOut_pairs_nodup**: after `merge_and_clean_bph_br` a residue pair is listed at most once -/
theorem mergeOut_pairs_nodup (rank : Nat → Nat) (n : Nat) (l : List (Nat × Nat × Nat)) :
    ((mergeOut P rank n l).map (fun t => (t.1, t.2.1))).Nodup := by
  unfold mergeOut
  have hk := mergeClean_keys_nodup (P := P) (encRows rank n l)
  have hl := mergeClean_len (P := P) (encRows rank n l)
  unfold encRows at hk hl
  generalize mergeClean P ((isort (tripleLe rank) l).map (fun t => (t.1 * n + t.2.1, t.2.2))) = m at hk hl
  induction m with
  | nil => simp
  | cons e rest ih =>
    simp only [List.map_cons, List.nodup_cons] at hk
    have ih' := ih hk.2 (fun e' he' => hl e' (List.mem_cons_of_mem _ he'))
    simp only [List.flatMap_cons, List.map_append, List.map_map]
    rw [List.nodup_append]
    refine ⟨?_, ih', ?_⟩
    · have hlen := hl e List.mem_cons_self
      match hq : e.2 with
      | [] => simp
      | [k] => simp
      | _ :: _ :: _ => rw [hq] at hlen; simp at hlen
    · intro a ha b hb eab
      subst eab
      obtain ⟨k, _, rfl⟩ := List.mem_map.mp ha
      obtain ⟨y, hy, ey⟩ := List.mem_map.mp hb
      obtain ⟨e', he', hy'⟩ := List.mem_flatMap.mp hy
      obtain ⟨k', _, rfl⟩ := List.mem_map.mp hy'
      simp only [Function.comp] at ey
      have : e'.1 = e.1 := decode_inj ey
      exact hk.1 (List.mem_map.mpr ⟨e', he', this⟩)

/-! ## recorded contacts in terms of residues and atoms -/

/-- a recorded contact read on the structure: donor atom `dn` of residue `d` (typed donor, one of the names the code
looks up), oxygen `an` of residue `a` named in the branch's list, both residues analysed and not the same residue,
distance not answered `no`, class one of those `bphClasses` answers for this donor and these coordinates -/
def RecSound (P : Params) (model : Option Int) (s : Array Res) (r : Rec) : Prop :=
  ∃ rd ra dpos apos, s[r.d]? = some rd ∧ s[r.a]? = some ra ∧ inModel model rd = true ∧ inModel model ra = true ∧
    r.dn ∈ codePointNames P rd.base ∧ findAtom rd r.dn = some dpos ∧ findAtom ra r.an = some apos ∧
    kindOf P rd.base r.dn = .donor ∧ (branchNames P r.phos).contains r.an = true ∧
    sameResidue rd ra = false ∧ distTri P (V3.dist2 dpos apos) ≠ .no ∧ r.k ∈ bphClasses P rd r.dn dpos apos

theorem recSound_of_recOK {model : Option Int} {s : Array Res} {r : Rec}
    (h : RecOK P s (points P model s) r) : RecSound P model s r := by
  obtain ⟨d, ac, rd, rac, hpts, ed, ea, g1, g2, g3, g4, hkd, _, hs, hnm, hdist, hk, _⟩ := h
  have hd : d ∈ points P model s := by
    rcases hpts with ⟨h1, _⟩ | ⟨_, h2⟩
    · exact List.mem_of_getElem? h1
    · exact List.mem_of_getElem? h2
  have ha : ac ∈ points P model s := by
    rcases hpts with ⟨_, h2⟩ | ⟨h1, _⟩
    · exact List.mem_of_getElem? h2
    · exact List.mem_of_getElem? h1
  obtain ⟨rd', ed', md, hnd, hfd⟩ := mem_points.mp hd
  obtain ⟨ra', ea', ma, _, hfa⟩ := mem_points.mp ha
  rw [ed] at ed'; cases ed'
  rw [ea] at ea'; cases ea'
  refine ⟨rd, rac, d.pos, ac.pos, ?_, ?_, md, ma, ?_, ?_, ?_, ?_, ?_, hs, hdist, ?_⟩
  · rw [g1]; exact ed
  · rw [g2]; exact ea
  · rw [g3]; exact hnd
  · rw [g3]; exact hfd
  · rw [g4]; exact hfa
  · rw [g3]; exact hkd
  · rw [g4]; exact hnm
  · rw [g3]; exact hk

/-- **recs_sound**: every recorded base–phosphate / base–ribose contact is sound in the above sense -/
theorem recs_sound (P : Params) (model : Option Int) (s : Array Res) :
    ∀ r ∈ (loop P model s).recs, RecSound P model s r :=
  fun r hr => recSound_of_recOK ((recs_inv P model s).ok r hr)

theorem triples_bound (P : Params) (model : Option Int) (s : Array Res) (phos : Bool) :
    ∀ t ∈ (loop P model s).triples phos, t.2.1 < s.size := by
  intro t ht
  unfold St.triples at ht
  obtain ⟨r, hr, rfl⟩ := List.mem_map.mp ht
  obtain ⟨_, ra, _, _, _, ea, _⟩ := recs_sound P model s r (List.mem_of_mem_filter hr)
  simp only
  rcases Nat.lt_or_ge r.a s.size with h | h
  · exact h
  · rw [Array.getElem?_eq_none h] at ea; cases ea

theorem mem_triples {st : St} {phos : Bool} {t : Nat × Nat × Nat} :
    t ∈ st.triples phos ↔ ∃ r ∈ st.recs, r.phos = phos ∧ (r.d, r.a, r.k) = t := by
  unfold St.triples
  simp only [List.mem_map, List.mem_filter, beq_iff_eq]
  constructor
  · rintro ⟨r, ⟨h1, h2⟩, h3⟩; exact ⟨r, h1, h2, h3⟩
  · rintro ⟨r, h1, h2, h3⟩; exact ⟨r, ⟨h1, h2⟩, h3⟩

end RnaVerif.FindPairs

import RnaVerif.Lemmas.FindPairsLoop
import Mathlib.Data.List.Perm.Subperm
/-!
# The functional loop refines the relational contact model (C03)

Under the shape conditions `Regular` (every residue analysed and carrying an identity, every atom listed once, no two
points with identical coordinates):

* `hb_ok`        every hydrogen bond the loop collects comes from a candidate `m < n` of two points of different
                 residues, one donor and one acceptor, both normal angles answered `yes`, distance not answered `no`;
                 the list has no repeats;
* `hb_upper`     hence, as a contact, it is one of `Pairs.contactsAll` (the relational model's reference contact list);
* `hb_lower`     conversely every contact of `contactsAll` answered `yes` neither of whose atoms is a phosphate / ribose
                 oxygen name is collected by the loop, whatever has been consumed before;
* `labels_sandwich`  so the label multiset the code counts lies between the labels of the decided base-to-base
                 contacts and the labels of all contacts — the hypothesis of `Props.C03.spec_of_sandwich`.
-/
namespace RnaVerif.FindPairs
open RnaVerif RnaVerif.Pairs

variable {P : Params}

/-- shape conditions under which the loop is compared with the relational model: every atom listed once; every residue
analysed and carrying an identity; and — only while the source looks points up through the coordinate tuple
(`Gen.Ann.pointsKeyedByCoordinates`) — no two points with identical coordinates -/
def Regular (P : Params) (model : Option Int) (s : Array Res) : Prop :=
  P.dedupPoints = true ∧ (∀ r ∈ s.toList, inModel model r = true ∧ sameResidue r r = true) ∧
    (Gen.Ann.pointsKeyedByCoordinates = true → ((points P model s).map (·.pos)).Nodup)

instance (P : Params) (model : Option Int) (s : Array Res) : Decidable (Regular P model s) := by
  unfold Regular; infer_instance

theorem Regular.res {model : Option Int} {s : Array Res} (h : Regular P model s) {i : Nat} {r : Res}
    (e : s[i]? = some r) : inModel model r = true ∧ sameResidue r r = true :=
  h.2.1 r (Array.mem_toList_iff.mpr (Array.mem_of_getElem? e))

/-! ## the hydrogen bonds the loop collects -/

/-- a collected hydrogen bond and the candidate it came from -/
def HBOK (P : Params) (s : Array Res) (pts : List Point) (c : Nat × Nat) (h : HB) : Prop :=
  ∃ a b ra rb ni nj, pts[c.1]? = some a ∧ pts[c.2]? = some b ∧ c.1 < c.2 ∧
    h = ⟨a.ri, a.name, b.ri, b.name⟩ ∧ s[a.ri]? = some ra ∧ s[b.ri]? = some rb ∧
    kindOf P ra.base a.name ≠ kindOf P rb.base b.name ∧ sameResidue ra rb = false ∧
    normal P ra = some ni ∧ normal P rb = some nj ∧
    angleTri P ni (V3.sub a.pos b.pos) = .yes ∧ angleTri P nj (V3.sub a.pos b.pos) = .yes ∧
    distTri P (V3.dist2 a.pos b.pos) ≠ .no

/-- the hydrogen bonds of one iteration: unchanged, or one appended -/
theorem step_hb (k : Bool) (s : Array Res) {pts : List Point} (hnd : k = true → (pts.map (·.pos)).Nodup) (st : St) {c : Nat × Nat × Tri}
    (hc : CandOK P pts c) :
    (step P s pts (canonOf k pts) st c).hb = st.hb ∨
    ∃ h, HBOK P s pts (c.1, c.2.1) h ∧ (step P s pts (canonOf k pts) st c).hb = st.hb ++ [h] := by
  have hf := flagged_fields st c
  rcases step_cases (P := P) s pts (canonOf k pts) st c with e | ⟨ci, cj, a, b, ra, rb, h1, h2, h3, h4, h5, h6, e⟩
  · left; rw [e, hf.2.1]
  · rw [e]
    obtain ⟨p, q, hp, hq, hlt, htri, hno⟩ := hc
    rw [canonOf_id k hnd hp] at h1; cases h1
    rw [canonOf_id k hnd hq] at h2; cases h2
    have ea : p = a := Option.some.inj (hp.symm.trans h3)
    have eb : q = b := Option.some.inj (hq.symm.trans h4)
    subst ea eb
    rcases body_cases (P := P) (flagged st c) c.1 c.2.1 p q ra rb with e' | ⟨hne, hs, hbr⟩
    · left; rw [e', hf.2.1]
    · rcases hbr with ⟨phos, d, rd, ac, rac, _, _, _, _, _, _, e'⟩ | ⟨e', _⟩
      · left
        rw [e']
        rcases consume_cases (P := P) (flagged st c) phos c.1 c.2.1 d rd ac with ⟨_, _, g⟩ | ⟨_, _, _, _, g⟩ <;>
          rw [g, hf.2.1]
      · rw [e']
        obtain ⟨_, _, g⟩ := baseBase_cases (P := P) (flagged st c) p q ra rb
        rcases g with g | ⟨ni, nj, n1, n2, a1, a2, g⟩
        · left; rw [g, hf.2.1]
        · right
          refine ⟨⟨p.ri, p.name, q.ri, q.name⟩, ⟨p, q, ra, rb, ni, nj, hp, hq, hlt, rfl, h5, h6, hne, hs, n1, n2, a1, a2, ?_⟩, ?_⟩
          · rw [← htri]; exact hno
          · rw [g, hf.2.1]

/-- invariant: every collected hydrogen bond comes from a processed candidate; no repeats -/
structure HInv (P : Params) (s : Array Res) (pts : List Point) (pre : List (Nat × Nat × Tri)) (hb : List HB) : Prop where
  ok : ∀ h ∈ hb, ∃ c ∈ pre, HBOK P s pts (c.1, c.2.1) h
  nodup : hb.Nodup

theorem hbok_inj (hd : P.dedupPoints = true) {model : Option Int} {s : Array Res} {c c' : Nat × Nat} {h : HB}
    (h1 : HBOK P s (points P model s) c h) (h2 : HBOK P s (points P model s) c' h) : c = c' := by
  obtain ⟨a, b, _, _, _, _, ha, hb, _, e, _⟩ := h1
  obtain ⟨a', b', _, _, _, _, ha', hb', _, e', _⟩ := h2
  rw [e] at e'
  simp only [HB.mk.injEq] at e'
  obtain ⟨e1, e2, e3, e4⟩ := e'
  have m1 := points_index_unique hd model s ha ha' e1 e2
  have m2 := points_index_unique hd model s hb hb' e3 e4
  exact Prod.ext m1 m2

theorem hb_inv {model : Option Int} {s : Array Res} (hreg : Regular P model s) :
    HInv P s (points P model s) (candsFrom P 0 (points P model s)) (loop P model s).hb := by
  unfold loop loopOn
  refine foldl_inv_split _ (fun pre (st : St) => HInv P s (points P model s) pre st.hb) _ ?_ _ ?_
  · intro pre c post st hl hst
    have hcmem : c ∈ candsFrom P 0 (points P model s) := by rw [hl]; simp
    have hcok := cands_ok hcmem
    have hkeys := candsFrom_keys_nodup (P := P) (points P model s) 0
    rw [hl] at hkeys
    rcases step_hb (P := P) _ s hreg.2.2 st hcok with e | ⟨h, hok, e⟩
    · rw [e]
      exact ⟨fun h hh => by
        obtain ⟨c0, hc0, hh0⟩ := hst.ok h hh
        exact ⟨c0, List.mem_append_left _ hc0, hh0⟩, hst.nodup⟩
    · rw [e]
      refine ⟨?_, ?_⟩
      · intro h' hh'
        rcases List.mem_append.mp hh' with hh' | hh'
        · obtain ⟨c0, hc0, hh0⟩ := hst.ok h' hh'
          exact ⟨c0, List.mem_append_left _ hc0, hh0⟩
        · simp only [List.mem_singleton] at hh'
          subst hh'
          exact ⟨c, by simp, hok⟩
      · rw [List.nodup_append]
        refine ⟨hst.nodup, by simp, ?_⟩
        intro x hx y hy exy
        simp only [List.mem_singleton] at hy
        subst hy
        subst exy
        obtain ⟨c0, hc0, hh0⟩ := hst.ok x hx
        have hcc : (c0.1, c0.2.1) = (c.1, c.2.1) := hbok_inj hreg.1 hh0 hok
        -- the key of `c` occurs in `pre`: contradiction with the keys being pairwise different
        simp only [List.map_append, List.map_cons] at hkeys
        have hn := (List.nodup_append.mp hkeys).2.2
        exact hn (c0.1, c0.2.1) (List.mem_map.mpr ⟨c0, hc0, rfl⟩) (c.1, c.2.1) (by simp) hcc
  · exact ⟨by simp [St.init], by simp [St.init]⟩

/-! ## membership in the relational model's reference contact list -/

theorem mem_edgePoints {r : Res} {x : String × Q3 × List Char × Kind} :
    x ∈ edgePoints P r ↔ x.1 ∈ pointNames P r.base ∧ findAtom r x.1 = some x.2.1 ∧
      edgesOf P r.base x.1 = some x.2.2.1 ∧ x.2.2.2 = kindOf P r.base x.1 := by
  unfold edgePoints
  simp only [List.mem_filterMap]
  constructor
  · rintro ⟨n, hn, hx⟩
    cases hf : findAtom r n with
    | none => simp [hf] at hx
    | some p =>
      cases he : edgesOf P r.base n with
      | none => simp [hf, he] at hx
      | some e =>
        simp only [hf, he, Option.bind_eq_bind, Option.bind_some, Option.some.injEq] at hx
        subst hx
        exact ⟨hn, hf, he, rfl⟩
  · rintro ⟨h1, h2, h3, h4⟩
    refine ⟨x.1, h1, ?_⟩
    obtain ⟨n, p, e, k⟩ := x
    simp only at h1 h2 h3 h4
    simp [h2, h3, h4]

/-- what it takes to be listed by `contactsBetween` -/
theorem mem_contactsBetween {i j : Nat} {ri rj : Res} {c : Contact} :
    c ∈ contactsBetween P i j ri rj ↔
      sameResidue ri rj = false ∧ ∃ ni nj pa pb,
        normal P ri = some ni ∧ normal P rj = some nj ∧
        (c.a, pa, c.ea, kindOf P ri.base c.a) ∈ edgePoints P ri ∧
        (c.b, pb, c.eb, kindOf P rj.base c.b) ∈ edgePoints P rj ∧
        kindOf P ri.base c.a ≠ kindOf P rj.base c.b ∧
        hbondGeomTri P ni nj pa pb ≠ .no ∧
        c = ⟨i, j, c.a, c.b, c.ea, c.eb, hbondGeomTri P ni nj pa pb,
             sugarPhosphateName P c.a || sugarPhosphateName P c.b⟩ := by
  unfold contactsBetween
  by_cases hs : sameResidue ri rj = true
  · simp [hs]
  · have hs' : sameResidue ri rj = false := by simpa using hs
    simp only [hs', Bool.false_eq_true, ↓reduceIte, true_and]
    cases hni : normal P ri with
    | none => simp
    | some ni =>
      cases hnj : normal P rj with
      | none => simp
      | some nj =>
        simp only [List.mem_flatMap, List.mem_filterMap, Option.some.injEq]
        constructor
        · rintro ⟨⟨a, pa, ea, ka⟩, hxa, ⟨b, pb, eb, kb⟩, hxb, hc⟩
          simp only at hc
          have hka := (mem_edgePoints.mp hxa).2.2.2
          have hkb := (mem_edgePoints.mp hxb).2.2.2
          simp only at hka hkb
          by_cases hk : (ka == kb) = true
          · simp [hk] at hc
          · have hk' : (ka == kb) = false := by simpa using hk
            simp only [hk', Bool.false_eq_true, ↓reduceIte] at hc
            have hne : ka ≠ kb := by simpa using hk
            cases ht : hbondGeomTri P ni nj pa pb with
            | no => simp [ht] at hc
            | yes =>
              simp only [ht, Option.some.injEq] at hc
              subst hc
              subst hka hkb
              exact ⟨ni, nj, pa, pb, rfl, rfl, hxa, hxb, hne, by simp [ht], by simp [ht]⟩
            | undecided =>
              simp only [ht, Option.some.injEq] at hc
              subst hc
              subst hka hkb
              exact ⟨ni, nj, pa, pb, rfl, rfl, hxa, hxb, hne, by simp [ht], by simp [ht]⟩
        · rintro ⟨ni', nj', pa, pb, e1, e2, hxa, hxb, hne, ht, hc⟩
          cases e1; cases e2
          refine ⟨_, hxa, _, hxb, ?_⟩
          have hk' : (kindOf P ri.base c.a == kindOf P rj.base c.b) = false := by simpa using hne
          simp only [hk', Bool.false_eq_true, ↓reduceIte]
          cases ht' : hbondGeomTri P ni nj pa pb with
          | no => exact absurd ht' ht
          | yes => simp only [ht'] at hc; rw [hc]
          | undecided => simp only [ht'] at hc; rw [hc]

theorem mem_contactsAll {s : Array Res} {c : Contact} :
    c ∈ contactsAll P s ↔ ∃ ri rj, c.i < c.j ∧ s[c.i]? = some ri ∧ s[c.j]? = some rj ∧
      c ∈ contactsBetween P c.i c.j ri rj := by
  unfold contactsAll
  simp only [List.mem_flatMap, List.mem_range]
  constructor
  · rintro ⟨i, hi, j, hj, hc⟩
    by_cases hij : i < j
    · simp only [hij, ↓reduceIte] at hc
      cases ei : s[i]? with
      | none => simp [ei] at hc
      | some ri =>
        cases ej : s[j]? with
        | none => simp [ei, ej] at hc
        | some rj =>
          simp only [ei, ej] at hc
          have := (mem_contactsBetween.mp hc).2
          obtain ⟨_, _, _, _, _, _, _, _, _, _, e⟩ := this
          have e1 : c.i = i := by rw [e]
          have e2 : c.j = j := by rw [e]
          rw [e1, e2]
          exact ⟨ri, rj, hij, ei, ej, hc⟩
    · simp [hij] at hc
  · rintro ⟨ri, rj, hij, ei, ej, hc⟩
    have hi : c.i < s.size := by
      rcases Nat.lt_or_ge c.i s.size with h | h
      · exact h
      · rw [Array.getElem?_eq_none h] at ei; cases ei
    have hj : c.j < s.size := by
      rcases Nat.lt_or_ge c.j s.size with h | h
      · exact h
      · rw [Array.getElem?_eq_none h] at ej; cases ej
    refine ⟨c.i, hi, c.j, hj, ?_⟩
    simp only [hij, ↓reduceIte, ei, ej]
    exact hc

/-! ## the loop's hydrogen bonds are contacts of the relational model, and contain all base-to-base ones -/

/-- what a contact contributes to the labels: residues, atom names, edge letters -/
abbrev Core := Nat × Nat × String × String × List Char × List Char

def core (c : Contact) : Core := (c.i, c.j, c.a, c.b, c.ea, c.eb)

theorem triAnd_yes {x y : Tri} : triAnd x y = .yes ↔ x = .yes ∧ y = .yes := by
  cases x <;> cases y <;> simp [triAnd]

theorem triAnd_ne_no {x y : Tri} (hx : x ≠ .no) (hy : y ≠ .no) : triAnd x y ≠ .no := by
  cases x <;> cases y <;> simp_all [triAnd]

theorem hbContact_some {s : Array Res} {h : HB} {c : Contact} (hc : hbContact P s h = some c) :
    ∃ ri rj, s[h.ri]? = some ri ∧ s[h.rj]? = some rj ∧ edgesOf P ri.base h.ni = some c.ea ∧
      edgesOf P rj.base h.nj = some c.eb ∧ c.i = h.ri ∧ c.j = h.rj ∧ c.a = h.ni ∧ c.b = h.nj ∧
      c.sp = (sugarPhosphateName P h.ni || sugarPhosphateName P h.nj) := by
  unfold hbContact at hc
  cases ei : s[h.ri]? with
  | none => simp [ei] at hc
  | some ri =>
    cases ej : s[h.rj]? with
    | none => simp [ei, ej] at hc
    | some rj =>
      cases e1 : edgesOf P ri.base h.ni with
      | none => simp [ei, ej, e1] at hc
      | some ea =>
        cases e2 : edgesOf P rj.base h.nj with
        | none => simp [ei, ej, e1, e2] at hc
        | some eb =>
          simp only [ei, ej, e1, e2, Option.some.injEq] at hc
          subst hc
          exact ⟨ri, rj, rfl, rfl, e1, e2, rfl, rfl, rfl, rfl, rfl⟩

/-- **hb_upper**: a hydrogen bond of the loop that reaches the label stage is (up to the three-valued answer, which is
not `no`) one of the contacts of the relational model's reference list -/
theorem hb_upper {model : Option Int} {s : Array Res} (hreg : Regular P model s) {h : HB}
    (hh : h ∈ (loop P model s).hb) {c : Contact} (hc : hbContact P s h = some c) :
    ∃ c' ∈ contactsAll P s, core c' = core c ∧ c'.sp = c.sp ∧ c'.tri ≠ .no := by
  obtain ⟨cand, _, a, b, ra, rb, ni, nj, ha, hb, hlt, eh, ea, eb, hk, hs, n1, n2, a1, a2, hd⟩ := (hb_inv hreg).ok h hh
  obtain ⟨ri, rj, ei, ej, g1, g2, g3, g4, g5, g6, g7⟩ := hbContact_some hc
  subst eh
  simp only at ei ej g1 g2 g3 g4 g5 g6 g7
  rw [ea] at ei; cases ei
  rw [eb] at ej; cases ej
  -- the two atoms
  obtain ⟨ra', ea', _, hna, hfa⟩ := mem_points.mp (List.mem_of_getElem? ha)
  obtain ⟨rb', eb', _, hnb, hfb⟩ := mem_points.mp (List.mem_of_getElem? hb)
  rw [ea] at ea'; cases ea'
  rw [eb] at eb'; cases eb'
  rw [codePointNames_eq hreg.1] at hna hnb
  -- different residues, in this order
  have hij : a.ri < b.ri := by
    rcases points_ordered_idx hreg.1 model s ha hb hlt with h' | ⟨h', _⟩
    · exact h'
    · exfalso
      rw [h'] at ea
      rw [ea] at eb
      cases eb
      rw [(hreg.res ea).2] at hs
      cases hs
  have hgeom : hbondGeomTri P ni nj a.pos b.pos ≠ .no := by
    unfold hbondGeomTri
    simp only [a1, a2]
    exact triAnd_ne_no hd (by simp [triAnd])
  refine ⟨⟨a.ri, b.ri, a.name, b.name, c.ea, c.eb, hbondGeomTri P ni nj a.pos b.pos,
    sugarPhosphateName P a.name || sugarPhosphateName P b.name⟩, ?_, ?_, ?_, hgeom⟩
  · refine mem_contactsAll.mpr ⟨ra, rb, hij, ea, eb, mem_contactsBetween.mpr ⟨hs, ni, nj, a.pos, b.pos, n1, n2, ?_, ?_, hk, hgeom, rfl⟩⟩
    · exact mem_edgePoints.mpr ⟨hna, hfa, g1, rfl⟩
    · exact mem_edgePoints.mpr ⟨hnb, hfb, g2, rfl⟩
  · simp only [core, g3, g4, g5, g6]
  · rw [g7]

/-- a hydrogen bond once collected stays collected -/
theorem step_hb_mono (k : Bool) (s : Array Res) {pts : List Point} (hnd : k = true → (pts.map (·.pos)).Nodup) (st : St) {c : Nat × Nat × Tri}
    (hc : CandOK P pts c) {h : HB} (hh : h ∈ st.hb) : h ∈ (step P s pts (canonOf k pts) st c).hb := by
  rcases step_hb (P := P) k s hnd st hc with e | ⟨_, _, e⟩
  · rw [e]; exact hh
  · rw [e]; exact List.mem_append_left _ hh

/-- a base-to-base candidate whose angles are answered `yes` is collected whatever the state -/
theorem step_bb (k : Bool) {s : Array Res} {pts : List Point} (hnd : k = true → (pts.map (·.pos)).Nodup) (st : St) {m n : Nat} {t : Tri}
    {a b : Point} {ra rb : Res} {ni nj : Q3}
    (ha : pts[m]? = some a) (hb : pts[n]? = some b) (ea : s[a.ri]? = some ra) (eb : s[b.ri]? = some rb)
    (hk : kindOf P ra.base a.name ≠ kindOf P rb.base b.name) (hs : sameResidue ra rb = false)
    (hsp : (sugarPhosphateName P a.name || sugarPhosphateName P b.name) = false)
    (n1 : normal P ra = some ni) (n2 : normal P rb = some nj)
    (a1 : angleTri P ni (V3.sub a.pos b.pos) = .yes) (a2 : angleTri P nj (V3.sub a.pos b.pos) = .yes) :
    (⟨a.ri, a.name, b.ri, b.name⟩ : HB) ∈ (step P s pts (canonOf k pts) st (m, n, t)).hb := by
  have hk' : (kindOf P ra.base a.name == kindOf P rb.base b.name) = false := by simpa using hk
  simp only [sugarPhosphateName, Bool.or_eq_false_iff] at hsp
  obtain ⟨⟨p1, p2⟩, p3, p4⟩ := hsp
  unfold step
  simp only [canonOf_id k hnd ha, canonOf_id k hnd hb, ha, hb, ea, eb]
  unfold body
  simp only [hk', hs, p1, p2, p3, p4, Bool.or_self, Bool.false_and, Bool.false_eq_true, ↓reduceIte]
  unfold baseBase
  simp only [n1, n2, a1, a2, triAnd]
  simp

theorem fold_hb_mem {α : Type} (f : St → α → St) (l : List α) (c0 : α) (h : HB) (hc0 : c0 ∈ l)
    (hnew : ∀ st, h ∈ (f st c0).hb) (hmono : ∀ st c, c ∈ l → h ∈ st.hb → h ∈ (f st c).hb) (st0 : St) :
    h ∈ (l.foldl f st0).hb := by
  induction l generalizing st0 with
  | nil => cases hc0
  | cons x rest ih =>
    simp only [List.foldl_cons]
    rcases List.mem_cons.mp hc0 with e | e
    · subst e
      have hx : h ∈ (f st0 c0).hb := hnew st0
      exact foldl_inv_mem f (fun st => h ∈ st.hb) rest
        (fun a b ha hb => hmono b a (List.mem_cons_of_mem _ ha) hb) _ hx
    · exact ih e (fun st c hc => hmono st c (List.mem_cons_of_mem _ hc)) _

/-- **hb_lower**: every contact of the relational model answered `yes`, neither of whose atoms bears a phosphate /
ribose oxygen name, is collected by the loop -/
theorem hb_lower {model : Option Int} {s : Array Res} (hreg : Regular P model s) {c : Contact}
    (hc : c ∈ contactsAll P s) (hsp : c.sp = false) (hy : c.tri = .yes) :
    ∃ h ∈ (loop P model s).hb, ∃ c', hbContact P s h = some c' ∧ core c' = core c := by
  obtain ⟨ri, rj, hij, ei, ej, hcb⟩ := mem_contactsAll.mp hc
  obtain ⟨hs, ni, nj, pa, pb, n1, n2, hxa, hxb, hk, _, ec⟩ := mem_contactsBetween.mp hcb
  obtain ⟨ha1, ha2, ha3, _⟩ := mem_edgePoints.mp hxa
  obtain ⟨hb1, hb2, hb3, _⟩ := mem_edgePoints.mp hxb
  simp only at ha1 ha2 ha3 hb1 hb2 hb3
  have htri : hbondGeomTri P ni nj pa pb = .yes := by rw [ec] at hy; exact hy
  have hsp' : (sugarPhosphateName P c.a || sugarPhosphateName P c.b) = false := by rw [ec] at hsp; exact hsp
  unfold hbondGeomTri at htri
  simp only [triAnd_yes] at htri
  obtain ⟨hd, a1, a2⟩ := htri
  -- the two points and their indices
  rw [← codePointNames_eq hreg.1] at ha1 hb1
  have hA : (⟨c.i, c.a, pa⟩ : Point) ∈ points P model s := mem_points.mpr ⟨ri, ei, (hreg.res ei).1, ha1, ha2⟩
  have hB : (⟨c.j, c.b, pb⟩ : Point) ∈ points P model s := mem_points.mpr ⟨rj, ej, (hreg.res ej).1, hb1, hb2⟩
  obtain ⟨m, hm⟩ := List.getElem?_of_mem hA
  obtain ⟨n, hn⟩ := List.getElem?_of_mem hB
  have hmn : m < n := by
    rcases Nat.lt_trichotomy m n with h | h | h
    · exact h
    · subst h
      have e := Option.some.inj (hm.symm.trans hn)
      have e' : c.i = c.j := congrArg Point.ri e
      omega
    · rcases points_ordered_idx hreg.1 model s hn hm h with h' | ⟨h', _⟩ <;> simp only at h' <;> omega
  have hdist : distTriPt P pa pb = .yes := by rw [distTriPt_eq]; exact hd
  have hcand := candsFrom_complete (P := P) (k := 0) hm hn hmn (by simp only []; rw [hdist]; simp)
  simp only [Nat.zero_add] at hcand
  refine ⟨⟨c.i, c.a, c.j, c.b⟩, ?_, ⟨c.i, c.j, c.a, c.b, c.ea, c.eb, .yes, sugarPhosphateName P c.a || sugarPhosphateName P c.b⟩, ?_, rfl⟩
  · unfold loop loopOn
    refine fold_hb_mem _ _ _ _ hcand ?_ ?_ _
    · intro st
      exact step_bb (P := P) _ hreg.2.2 st hm hn ei ej hk hs hsp' n1 n2 a1 a2
    · intro st c' hc' hh
      exact step_hb_mono _ s hreg.2.2 st (cands_ok hc') hh
  · unfold hbContact
    simp only [ei, ej, ha3, hb3]

/-! ## no contact is listed twice by the relational model -/

theorem edgePoints_names (r : Res) : (edgePoints P r).Pairwise (fun x y => x.1 ≠ y.1) := by
  unfold edgePoints
  have hn : (pointNames P r.base).Pairwise (· ≠ ·) := List.nodup_iff_pairwise_ne.mp (nodup_dedup _)
  refine List.Pairwise.filterMap _ ?_ hn
  intro n n' hne x hx x' hx'
  have e1 : x.1 = n := by
    cases hf : findAtom r n with
    | none => simp [hf] at hx
    | some p =>
      cases he : edgesOf P r.base n with
      | none => simp [hf, he] at hx
      | some e =>
        simp only [hf, he, Option.bind_eq_bind, Option.bind_some, Option.some.injEq] at hx
        rw [← hx]
  have e2 : x'.1 = n' := by
    cases hf : findAtom r n' with
    | none => simp [hf] at hx'
    | some p =>
      cases he : edgesOf P r.base n' with
      | none => simp [hf, he] at hx'
      | some e =>
        simp only [hf, he, Option.bind_eq_bind, Option.bind_some, Option.some.injEq] at hx'
        rw [← hx']
  rw [e1, e2]; exact hne

/-- the key of a contact: residues and atom names -/
def ckey (c : Contact) : Nat × Nat × String × String := (c.i, c.j, c.a, c.b)

theorem contactsBetween_keys (i j : Nat) (ri rj : Res) :
    (contactsBetween P i j ri rj).Pairwise (fun c c' => ckey c ≠ ckey c') := by
  unfold contactsBetween
  split
  · exact List.Pairwise.nil
  · split
    · next ni nj _ _ =>
      rw [List.pairwise_flatMap]
      constructor
      · rintro ⟨a, pa, ea, ka⟩ _
        refine List.Pairwise.filterMap _ ?_ (edgePoints_names (P := P) rj)
        rintro ⟨b, pb, eb, kb⟩ ⟨b', pb', eb', kb'⟩ hne c hc c' hc'
        simp only at hc hc' hne
        have e1 : c.b = b := by
          split at hc
          · cases hc
          · split at hc
            · cases hc
            · simp only [Option.some.injEq] at hc; rw [← hc]
        have e2 : c'.b = b' := by
          split at hc'
          · cases hc'
          · split at hc'
            · cases hc'
            · simp only [Option.some.injEq] at hc'; rw [← hc']
        intro e
        have : c.b = c'.b := by
          have := congrArg (fun k => k.2.2.2) e
          simpa [ckey] using this
        rw [e1, e2] at this
        exact hne this
      · refine (edgePoints_names (P := P) ri).imp ?_
        rintro ⟨a, pa, ea, ka⟩ ⟨a', pa', ea', ka'⟩ hne c hc c' hc'
        simp only at hne
        simp only [List.mem_filterMap] at hc hc'
        obtain ⟨⟨b, pb, eb, kb⟩, _, hc⟩ := hc
        obtain ⟨⟨b', pb', eb', kb'⟩, _, hc'⟩ := hc'
        simp only at hc hc'
        have e1 : c.a = a := by
          split at hc
          · cases hc
          · split at hc
            · cases hc
            · simp only [Option.some.injEq] at hc; rw [← hc]
        have e2 : c'.a = a' := by
          split at hc'
          · cases hc'
          · split at hc'
            · cases hc'
            · simp only [Option.some.injEq] at hc'; rw [← hc']
        intro e
        have : c.a = c'.a := by
          have := congrArg (fun k => k.2.2.1) e
          simpa [ckey] using this
        rw [e1, e2] at this
        exact hne this
    · exact List.Pairwise.nil

theorem contactsAll_keys (s : Array Res) : (contactsAll P s).Pairwise (fun c c' => ckey c ≠ ckey c') := by
  have hmem : ∀ (i j : Nat) (c : Contact),
      c ∈ (if i < j then
            match s[i]?, s[j]? with
            | some ri, some rj => contactsBetween P i j ri rj
            | _, _ => []
          else []) → c.i = i ∧ c.j = j := by
    intro i j c hc
    split at hc
    · split at hc
      · obtain ⟨_, _, _, _, _, _, _, _, _, _, _, e⟩ := mem_contactsBetween.mp hc
        constructor <;> rw [e]
      · cases hc
    · cases hc
  unfold contactsAll
  rw [List.pairwise_flatMap]
  constructor
  · intro i _
    rw [List.pairwise_flatMap]
    constructor
    · intro j _
      split
      · split
        · exact contactsBetween_keys _ _ _ _
        · exact List.Pairwise.nil
      · exact List.Pairwise.nil
    · refine (List.pairwise_lt_range (n := s.size)).imp ?_
      intro j j' hjj c hc c' hc'
      have h1 := (hmem i j c hc).2
      have h2 := (hmem i j' c' hc').2
      intro e
      have : c.j = c'.j := by
        have := congrArg (fun k => k.2.1) e
        simpa [ckey] using this
      omega
  · refine (List.pairwise_lt_range (n := s.size)).imp ?_
    intro i i' hii c hc c' hc'
    obtain ⟨j, _, hc⟩ := List.mem_flatMap.mp hc
    obtain ⟨j', _, hc'⟩ := List.mem_flatMap.mp hc'
    have h1 := (hmem i j c hc).1
    have h2 := (hmem i' j' c' hc').1
    intro e
    have : c.i = c'.i := by
      have := congrArg (fun k => k.1) e
      simpa [ckey] using this
    omega

theorem contactsAll_cores_nodup (s : Array Res) : ((contactsAll P s).map core).Nodup := by
  have h := contactsAll_keys (P := P) s
  rw [List.nodup_iff_pairwise_ne, List.pairwise_map]
  refine h.imp ?_
  intro c c' hne e
  apply hne
  simp only [core, Prod.mk.injEq] at e
  simp only [ckey, Prod.mk.injEq]
  exact ⟨e.1, e.2.1, e.2.2.1, e.2.2.2.1⟩

/-! ## labels -/

/-- the labels one contact contributes, as a function of its core -/
def labCore (P : Params) (s : Array Res) (k : Core) : List Label :=
  match s[k.1]?, s[k.2.1]? with
  | some ri, some rj =>
    match cisTri P ri rj with
    | some .yes => k.2.2.2.2.1.flatMap (fun ei => k.2.2.2.2.2.map (fun ej => orient (resLt ri rj) k.1 k.2.1 true ei ej))
    | some .no => k.2.2.2.2.1.flatMap (fun ei => k.2.2.2.2.2.map (fun ej => orient (resLt ri rj) k.1 k.2.1 false ei ej))
    | _ => []
  | _, _ => []

theorem modelLabels_core (s : Array Res) (cs : List Contact) :
    modelLabels P s cs = (cs.map core).flatMap (labCore P s) := by
  unfold modelLabels
  rw [List.flatMap_map]
  apply flatMap_congr'
  intro c _
  simp only [labCore, core]
  cases s[c.i]? with
  | none => rfl
  | some ri =>
    cases s[c.j]? with
    | none => rfl
    | some rj =>
      simp only
      cases cisTri P ri rj with
      | none => rfl
      | some t => cases t <;> rfl

theorem sublist_flatMap {α β : Type} (f : α → List β) {l₁ l₂ : List α} (h : l₁.Sublist l₂) :
    (l₁.flatMap f).Sublist (l₂.flatMap f) := by
  induction h with
  | slnil => exact List.Sublist.refl _
  | cons a _ ih =>
    simp only [List.flatMap_cons]
    exact List.sublist_append_of_sublist_right ih
  | cons_cons a _ ih =>
    simp only [List.flatMap_cons]
    exact List.Sublist.append_left ih _

theorem count_flatMap_le_of_subperm {α β : Type} [DecidableEq β] (f : α → List β) {l₁ l₂ : List α}
    (h : l₁.Subperm l₂) (x : β) : (l₁.flatMap f).count x ≤ (l₂.flatMap f).count x := by
  obtain ⟨l, hp, hs⟩ := h
  rw [← (List.Perm.flatMap_right f hp).count_eq x]
  exact List.Sublist.count_le x (sublist_flatMap f hs)

/-- the contacts behind the labels the code counts -/
theorem loopContacts_cores_nodup {model : Option Int} {s : Array Res} (hreg : Regular P model s) :
    ((loopContacts P model s).map core).Nodup := by
  unfold loopContacts
  rw [List.map_filterMap]
  refine List.Nodup.filterMap ?_ (hb_inv hreg).nodup
  intro h h' k hk hk'
  simp only [Option.mem_def, Option.map_eq_some_iff] at hk hk'
  obtain ⟨c, hc, rfl⟩ := hk
  obtain ⟨c', hc', e⟩ := hk'
  obtain ⟨_, _, _, _, _, _, g3, g4, g5, g6, _⟩ := hbContact_some hc
  obtain ⟨_, _, _, _, _, _, g3', g4', g5', g6', _⟩ := hbContact_some hc'
  simp only [core, Prod.mk.injEq] at e
  cases h; cases h'
  simp only at g3 g4 g5 g6 g3' g4' g5' g6'
  simp only [HB.mk.injEq]
  refine ⟨?_, ?_, ?_, ?_⟩
  · rw [← g3, ← g3', e.1]
  · rw [← g5, ← g5', e.2.2.1]
  · rw [← g4, ← g4', e.2.1]
  · rw [← g6, ← g6', e.2.2.2.1]

/-- **labels_sandwich**: the multiset of labels the code counts lies between the labels of the decided base-to-base
contacts and the labels of all contacts of the relational model -/
theorem labels_sandwich {model : Option Int} {s : Array Res} (hreg : Regular P model s) (l : Label) :
    (modelLabels P s ((contactsAll P s).filter (fun c => !c.sp && c.tri == .yes))).count l ≤
      (modelLabels P s (loopContacts P model s)).count l ∧
    (modelLabels P s (loopContacts P model s)).count l ≤ (modelLabels P s (contactsAll P s)).count l := by
  rw [modelLabels_core, modelLabels_core, modelLabels_core]
  constructor
  · apply count_flatMap_le_of_subperm
    apply List.subperm_of_subset
    · exact List.Nodup.sublist (List.Sublist.map _ List.filter_sublist) (contactsAll_cores_nodup s)
    · intro k hk
      obtain ⟨c, hc, rfl⟩ := List.mem_map.mp hk
      obtain ⟨hc1, hc2⟩ := List.mem_filter.mp hc
      simp only [Bool.and_eq_true, Bool.not_eq_true', beq_iff_eq] at hc2
      obtain ⟨h, hh, c', hc', e⟩ := hb_lower hreg hc1 hc2.1 hc2.2
      rw [← e]
      exact List.mem_map.mpr ⟨c', List.mem_filterMap.mpr ⟨h, hh, hc'⟩, rfl⟩
  · apply count_flatMap_le_of_subperm
    apply List.subperm_of_subset (loopContacts_cores_nodup hreg)
    intro k hk
    obtain ⟨c, hc, rfl⟩ := List.mem_map.mp hk
    obtain ⟨h, hh, hc'⟩ := List.mem_filterMap.mp hc
    obtain ⟨c', hc1, e, _⟩ := hb_upper hreg hh hc'
    rw [← e]
    exact List.mem_map.mpr ⟨c', hc1, rfl⟩

end RnaVerif.FindPairs

/-! `List.find?` does not depend on the order of a list in which at most one element satisfies the predicate
(core Lean only) — the reason why the order of atoms inside a residue is irrelevant (C05). -/
namespace RnaVerif

theorem find?_perm {α} (p : α → Bool) {l l' : List α} (hp : l.Perm l')
    (huniq : ∀ a ∈ l, ∀ b ∈ l, p a = true → p b = true → a = b) : l.find? p = l'.find? p := by
  induction hp with
  | nil => rfl
  | cons x _ ih =>
    simp only [List.find?_cons]
    split
    · rfl
    · exact ih (fun a ha b hb => huniq a (List.mem_cons_of_mem _ ha) b (List.mem_cons_of_mem _ hb))
  | swap x y l =>
    simp only [List.find?_cons]
    cases hx : p x <;> cases hy : p y <;> simp only []
    have := huniq x (by simp) y (by simp) hx hy
    rw [this]
  | trans h₁ _ ih₁ ih₂ =>
    rw [ih₁ huniq]
    exact ih₂ (fun a ha b hb => huniq a (h₁.mem_iff.mpr ha) b (h₁.mem_iff.mpr hb))

/-- pairwise different keys: at most one element has a given key -/
theorem uniq_of_nodup_map {α β} [DecidableEq β] (f : α → β) {l : List α} (h : (l.map f).Nodup) (k : β) :
    ∀ a ∈ l, ∀ b ∈ l, (f a == k) = true → (f b == k) = true → a = b := by
  induction l with
  | nil => intro a ha; cases ha
  | cons x xs ih =>
    simp only [List.map_cons, List.nodup_cons, List.mem_map, not_exists, not_and] at h
    intro a ha b hb ea eb
    simp only [beq_iff_eq] at ea eb
    rcases List.mem_cons.mp ha with hax | hax
    · rcases List.mem_cons.mp hb with hbx | hbx
      · rw [hax, hbx]
      · exact absurd (eb.trans (ea.symm.trans (by rw [hax]))) (h.1 b hbx)
    · rcases List.mem_cons.mp hb with hbx | hbx
      · exact absurd (ea.trans (eb.symm.trans (by rw [hbx]))) (h.1 a hax)
      · exact ih h.2 a hax b hbx (by simpa using ea) (by simpa using eb)

end RnaVerif

import RnaVerif.Model.Fit
/-!
# Lemmas about the model of `fit_to_pdb` (`RnaVerif.Model.Fit`) — core only
-/
namespace RnaVerif.Fit
open RnaVerif RnaVerif.Pdb RnaVerif.Gen

/-! ## first-seen order -/

theorem mem_firstSeenAux {α} [DecidableEq α] (l seen : List α) (x : α) :
    x ∈ firstSeenAux seen l ↔ x ∈ l ∧ x ∉ seen := by
  induction l generalizing seen with
  | nil => simp [firstSeenAux]
  | cons y ys ih =>
    unfold firstSeenAux
    by_cases hy : y ∈ seen
    · simp only [hy, if_true, ih, List.mem_cons]
      constructor
      · rintro ⟨h1, h2⟩; exact ⟨Or.inr h1, h2⟩
      · rintro ⟨h1 | h1, h2⟩
        · subst h1; exact absurd hy h2
        · exact ⟨h1, h2⟩
    · simp only [hy, if_false, List.mem_cons, ih]
      constructor
      · rintro (h | ⟨h1, h2⟩)
        · subst h; exact ⟨Or.inl rfl, hy⟩
        · exact ⟨Or.inr h1, fun h => h2 (Or.inr h)⟩
      · rintro ⟨h1 | h1, h2⟩
        · exact Or.inl h1
        · by_cases hxy : x = y
          · exact Or.inl hxy
          · refine Or.inr ⟨h1, ?_⟩
            rintro (h | h)
            · exact hxy h
            · exact h2 h

theorem firstSeenAux_nodup {α} [DecidableEq α] (l seen : List α) : (firstSeenAux seen l).Nodup := by
  induction l generalizing seen with
  | nil => simp [firstSeenAux]
  | cons y ys ih =>
    unfold firstSeenAux
    by_cases hy : y ∈ seen
    · simp only [hy, if_true]; exact ih seen
    · simp only [hy, if_false, List.nodup_cons]
      refine ⟨?_, ih _⟩
      rw [mem_firstSeenAux]
      simp

theorem mem_firstSeen {α} [DecidableEq α] (l : List α) (x : α) : x ∈ firstSeen l ↔ x ∈ l := by
  simp [firstSeen, mem_firstSeenAux]

theorem firstSeen_nodup {α} [DecidableEq α] (l : List α) : (firstSeen l).Nodup :=
  firstSeenAux_nodup l []

theorem firstSeenIndex_lt {α} [DecidableEq α] (l : List α) (x : α) (h : x ∈ l) :
    firstSeenIndex l x < (firstSeen l).length := by
  unfold firstSeenIndex
  exact List.idxOf_lt_length_of_mem ((mem_firstSeen l x).2 h)

/-- `idxOf` is injective on members -/
theorem idxOf_inj {α} [BEq α] [LawfulBEq α] (l : List α) (x y : α) (hx : x ∈ l)
    (h : l.idxOf x = l.idxOf y) : x = y := by
  have hx' : l.idxOf x < l.length := List.idxOf_lt_length_of_mem hx
  have hy' : l.idxOf y < l.length := h ▸ hx'
  have hy : y ∈ l := List.idxOf_lt_length_iff.1 hy'
  have e1 : l[l.idxOf x]'hx' = x := List.getElem_idxOf hx'
  have e2 : l[l.idxOf y]'hy' = y := List.getElem_idxOf hy'
  rw [← e1, ← e2]
  simp only [h]

theorem firstSeen_injective {α} [DecidableEq α] (l : List α) (x y : α) (hx : x ∈ l) (hy : y ∈ l)
    (h : firstSeenIndex l x = firstSeenIndex l y) : x = y :=
  have _ := hy
  idxOf_inj (firstSeen l) x y ((mem_firstSeen l x).2 hx) h

theorem firstSeen_same_iff {α} [DecidableEq α] (l : List α) (x y : α) (hx : x ∈ l) (hy : y ∈ l) :
    firstSeenIndex l x = firstSeenIndex l y ↔ x = y :=
  have _ := hy
  ⟨firstSeen_injective l x y hx hy, fun h => by rw [h]⟩

example : firstSeenIndex [3, 1, 3, 2, 1] 2 = 2 ∧ firstSeen [3, 1, 3, 2, 1] = [3, 1, 2] := by decide

/-! ## serial renumbering -/

/-- chain changes of a list, counting a change against the previous chain `p` -/
def chg : Option Str → Table → Nat
  | _, [] => 0
  | p, a :: rest => (if p.isSome ∧ p ≠ some a.chain then 1 else 0) + chg (some a.chain) rest

theorem chainChanges_cons (a : Atom) (rest : Table) :
    chainChanges (a :: rest) = chg (some a.chain) rest := by
  induction rest generalizing a with
  | nil => simp [chainChanges, chg]
  | cons b r ih => simp [chainChanges, chg, ih]

theorem chg_none (l : Table) : chg none l = chainChanges l := by
  cases l with
  | nil => simp [chg, chainChanges]
  | cons a rest => simp [chg, chainChanges_cons]

theorem length_serialsFrom (p : Option Str) (c : Int) (l : Table) :
    (serialsFrom p c l).length = l.length := by
  induction l generalizing p c with
  | nil => simp [serialsFrom]
  | cons a rest ih => simp [serialsFrom, ih]

theorem serialsFrom_bounds (p : Option Str) (c : Int) (l : Table) :
    ∀ s ∈ serialsFrom p c l, c + 1 ≤ s ∧ s ≤ c + l.length + chg p l := by
  induction l generalizing p c with
  | nil => simp [serialsFrom]
  | cons a rest ih =>
    intro s hs
    simp only [serialsFrom, List.mem_cons] at hs
    simp only [chg, List.length_cons]
    by_cases hp : p.isSome ∧ p ≠ some a.chain
    · simp only [if_pos hp] at hs ⊢
      rcases hs with hs | hs
      · subst hs; omega
      · have := ih _ _ s hs; omega
    · simp only [if_neg hp] at hs ⊢
      rcases hs with hs | hs
      · subst hs; omega
      · have := ih _ _ s hs; omega

theorem serialsFrom_last_mem (p : Option Str) (c : Int) (l : Table) (h : l ≠ []) :
    c + l.length + chg p l ∈ serialsFrom p c l := by
  induction l generalizing p c with
  | nil => exact absurd rfl h
  | cons a rest ih =>
    simp only [serialsFrom, List.mem_cons, chg, List.length_cons]
    cases rest with
    | nil =>
      left
      simp only [chg, List.length_nil]
      split <;> omega
    | cons b r =>
      right
      have := ih (some a.chain) (c + (if p.isSome ∧ p ≠ some a.chain then 2 else 1)) (by simp)
      have e : c + ((b :: r).length + 1 : Nat) + ((if p.isSome ∧ p ≠ some a.chain then 1 else 0) + chg (some a.chain) (b :: r) : Nat)
          = c + (if p.isSome ∧ p ≠ some a.chain then 2 else 1) + ((b :: r).length : Nat) + (chg (some a.chain) (b :: r) : Nat) := by
        split <;> omega
      rw [e]; exact this

/-- "some serial exceeds the limit" iff the last one does -/
theorem any_serial_gt_iff (l : Table) (h : l ≠ []) (m : Nat) :
    (serialsFrom none 0 l).any (fun s => decide (s > (m : Int))) = true ↔ l.length + chainChanges l > m := by
  rw [List.any_eq_true]
  constructor
  · rintro ⟨s, hs, hgt⟩
    have := (serialsFrom_bounds none 0 l s hs).2
    rw [chg_none] at this
    simp only [decide_eq_true_eq] at hgt
    omega
  · intro hgt
    refine ⟨_, serialsFrom_last_mem none 0 l h, ?_⟩
    rw [chg_none]
    simp only [decide_eq_true_eq]
    omega

/-! ## the chain alphabet -/

theorem alphabet_nodup : ParserV2.chainAlphabet.Nodup := by decide

theorem alphabet_graphic : ∀ c ∈ ParserV2.chainAlphabet, graphic c = true := by decide

theorem newChain_eq (chains : List Str) (c : Str) (hc : c ∈ chains)
    (hl : chains.length ≤ ParserV2.chainAlphabet.length) :
    ∃ h : chains.idxOf c < ParserV2.chainAlphabet.length,
      newChain chains c = [ParserV2.chainAlphabet[chains.idxOf c]] := by
  have h1 : chains.idxOf c < chains.length := List.idxOf_lt_length_of_mem hc
  have h2 : chains.idxOf c < ParserV2.chainAlphabet.length := Nat.lt_of_lt_of_le h1 hl
  refine ⟨h2, ?_⟩
  simp [newChain, List.getD_eq_getElem?_getD, List.getElem?_eq_getElem h2]

theorem newChain_mem (chains : List Str) (c : Str) (hc : c ∈ chains)
    (hl : chains.length ≤ ParserV2.chainAlphabet.length) :
    ∃ x ∈ ParserV2.chainAlphabet, newChain chains c = [x] := by
  obtain ⟨h, e⟩ := newChain_eq chains c hc hl
  exact ⟨_, List.getElem_mem h, e⟩

theorem newChain_inj (chains : List Str) (c d : Str) (hc : c ∈ chains) (hd : d ∈ chains)
    (hl : chains.length ≤ ParserV2.chainAlphabet.length) :
    newChain chains c = newChain chains d ↔ c = d := by
  constructor
  · intro h
    obtain ⟨h1, e1⟩ := newChain_eq chains c hc hl
    obtain ⟨h2, e2⟩ := newChain_eq chains d hd hl
    rw [e1, e2] at h
    have h' : ParserV2.chainAlphabet[chains.idxOf c] = ParserV2.chainAlphabet[chains.idxOf d] := by
      simpa using h
    have := (List.getElem_inj alphabet_nodup).1 h'
    exact idxOf_inj chains c d hc this
  · intro h; rw [h]

/-! ## chains, residues -/

theorem chain_mem_chainsOf (t : Table) (a : Atom) (ha : a ∈ t) : a.chain ∈ chainsOf t := by
  unfold chainsOf
  rw [mem_firstSeen]
  exact List.mem_map.2 ⟨a, ha, rfl⟩

theorem resKey_mem_residuesOf (t : Table) (a : Atom) (ha : a ∈ t) :
    resKey a ∈ residuesOf t a.chain := by
  unfold residuesOf
  rw [mem_firstSeen]
  exact List.mem_map.2 ⟨a, List.mem_filter.2 ⟨ha, by simp⟩, rfl⟩

theorem lookup_map_self {β} (chains : List Str) (f : Str → β) (c : Str) (hc : c ∈ chains) :
    List.lookup c (chains.map (fun c => (c, f c))) = some (f c) := by
  induction chains with
  | nil => simp at hc
  | cons d ds ih =>
    simp only [List.map_cons, List.lookup_cons]
    by_cases h : c = d
    · subst h; simp
    · have : (c == d) = false := by simp [h]
      rw [this]
      simp only [List.mem_cons, h, false_or] at hc
      exact ih hc

theorem le_foldl_max {α} (f : α → Nat) (l : List α) (init : Nat) :
    init ≤ l.foldl (fun m c => max m (f c)) init ∧
    ∀ c ∈ l, f c ≤ l.foldl (fun m c => max m (f c)) init := by
  induction l generalizing init with
  | nil => simp
  | cons d ds ih =>
    simp only [List.foldl_cons, List.mem_cons]
    have := ih (max init (f d))
    refine ⟨by omega, ?_⟩
    rintro c (h | h)
    · subst h; omega
    · exact this.2 c h

theorem residuesOf_length_le (t : Table) (c : Str) (hc : c ∈ chainsOf t) :
    (residuesOf t c).length ≤ maxResidues t :=
  (le_foldl_max (fun c => (residuesOf t c).length) (chainsOf t) 0).2 c hc

theorem newResSeq_eq (t : Table) (a : Atom) (ha : a ∈ t) :
    newResSeq ((chainsOf t).map (fun c => (c, residuesOf t c))) a =
      (((residuesOf t a.chain).idxOf (resKey a) : Nat) : Int) + 1 := by
  unfold newResSeq
  rw [lookup_map_self (chainsOf t) (residuesOf t) a.chain (chain_mem_chainsOf t a ha)]
  rfl

/-- a renaming of chains that is injective on the chains present keeps the number of chain changes -/
theorem chainChanges_map (f : Atom → Atom) (t : Table)
    (hf : ∀ a ∈ t, ∀ b ∈ t, ((f a).chain = (f b).chain ↔ a.chain = b.chain)) :
    chainChanges (t.map f) = chainChanges t := by
  induction t with
  | nil => rfl
  | cons a rest ih =>
    cases rest with
    | nil => rfl
    | cons b r =>
      have ih' := ih (fun x hx y hy => hf x (List.mem_cons_of_mem _ hx) y (List.mem_cons_of_mem _ hy))
      have hab := hf a (by simp) b (by simp)
      simp only [List.map_cons] at ih' ⊢
      simp only [chainChanges, ih', ne_eq, hab]

/-! ## `fitToPdb`: identity branch, errors, inversion -/

theorem fit_id (fmt : Format) (t : Table) (h : canWritePdb fmt t = true) : fitToPdb fmt t = .ok t := by
  simp [fitToPdb, h]

theorem fit_error_valueError (fmt : Format) (t : Table) (e : Err) (h : fitToPdb fmt t = .error e) :
    e = .valueError := by
  unfold fitToPdb at h
  split at h
  · cases h
  simp only at h
  split at h
  · cases h; rfl
  split at h
  · cases h; rfl
  split at h
  · cases h; rfl
  split at h
  · cases h; rfl
  · cases h

theorem fit_inv (fmt : Format) (t t' : Table) (h : fitToPdb fmt t = .ok t')
    (hc : canWritePdb fmt t = false) :
    t' = setSerials (renameRows t) (serialsFrom none 0 (renameRows t)) ∧
    t.length + (chainsOf t).length ≤ ParserV2.maxSerial ∧
    (chainsOf t).length ≤ ParserV2.chainAlphabet.length ∧
    maxResidues t ≤ ParserV2.maxResSeq ∧
    (∀ s ∈ serialsFrom none 0 (renameRows t), s ≤ (ParserV2.maxSerial : Int)) := by
  unfold fitToPdb at h
  simp only [hc, Bool.false_eq_true, if_false] at h
  split at h
  · cases h
  split at h
  · cases h
  split at h
  · cases h
  split at h
  · cases h
  rename_i h1 h2 h3 h4
  injection h with h
  refine ⟨h.symm, by omega, by omega, by omega, ?_⟩
  intro s hs
  rw [List.any_eq_true] at h4
  apply Int.not_lt.1
  intro hlt
  exact h4 ⟨s, hs, by simpa using hlt⟩

theorem fit_of_canWrite (fmt : Format) (t t' : Table) (h : fitToPdb fmt t = .ok t')
    (hc : canWritePdb fmt t = true) : t' = t := by
  rw [fit_id fmt t hc] at h
  injection h with h
  exact h.symm

theorem ne_nil_of_not_canWrite (fmt : Format) (t : Table) (hc : canWritePdb fmt t = false) : t ≠ [] := by
  intro h
  subst h
  cases fmt <;> simp [canWritePdb] at hc

/-- one renamed row -/
def newRow (t : Table) (a : Atom) (s : Int) : Atom :=
  { a with
    serial := s
    chain := newChain (chainsOf t) a.chain
    resSeq := newResSeq ((chainsOf t).map (fun c => (c, residuesOf t c))) a
    iCode := [] }

theorem length_renameRows (t : Table) : (renameRows t).length = t.length := by
  simp [renameRows]

theorem fit_rows (fmt : Format) (t t' : Table) (h : fitToPdb fmt t = .ok t')
    (hc : canWritePdb fmt t = false) :
    t'.length = t.length ∧
    ∀ i (hi : i < t.length) (hi' : i < t'.length),
      ∃ s ∈ serialsFrom none 0 (renameRows t), t'[i] = newRow t t[i] s := by
  obtain ⟨e, -, -, -, -⟩ := fit_inv fmt t t' h hc
  subst e
  have hl : (setSerials (renameRows t) (serialsFrom none 0 (renameRows t))).length = t.length := by
    simp [setSerials, length_serialsFrom, length_renameRows]
  refine ⟨hl, ?_⟩
  intro i hi hi'
  have hs : i < (serialsFrom none 0 (renameRows t)).length := by
    rw [length_serialsFrom, length_renameRows]; exact hi
  refine ⟨(serialsFrom none 0 (renameRows t))[i], List.getElem_mem hs, ?_⟩
  simp [setSerials, renameRows, newRow]

theorem fit_mem (fmt : Format) (t t' : Table) (h : fitToPdb fmt t = .ok t')
    (hc : canWritePdb fmt t = false) (a' : Atom) (ha' : a' ∈ t') :
    ∃ a ∈ t, ∃ s ∈ serialsFrom none 0 (renameRows t), a' = newRow t a s := by
  obtain ⟨hl, hr⟩ := fit_rows fmt t t' h hc
  obtain ⟨i, hi', e⟩ := List.mem_iff_getElem.1 ha'
  have hi : i < t.length := hl ▸ hi'
  obtain ⟨s, hs, e'⟩ := hr i hi hi'
  exact ⟨t[i], List.getElem_mem hi, s, hs, e ▸ e'⟩

/-! ## the main theorems -/

theorem sameOtherFields_refl (a : Atom) : sameOtherFields a a = true := by
  simp [sameOtherFields]

/-- the result has as many rows, in the same order, and every field other than serial / chain /
number / insertion code is unchanged -/
theorem fit_ok_preserves_rows (fmt : Format) (t t' : Table) (h : fitToPdb fmt t = .ok t') :
    t'.length = t.length ∧
    ∀ i (hi : i < t.length) (hi' : i < t'.length), sameOtherFields t[i] t'[i] = true := by
  cases hc : canWritePdb fmt t with
  | true =>
    have := fit_of_canWrite fmt t t' h hc
    subst this
    exact ⟨rfl, fun i hi _ => sameOtherFields_refl _⟩
  | false =>
    obtain ⟨hl, hr⟩ := fit_rows fmt t t' h hc
    refine ⟨hl, fun i hi hi' => ?_⟩
    obtain ⟨s, -, e⟩ := hr i hi hi'
    rw [e]
    simp [sameOtherFields, newRow]

theorem fit_chain_map_injective (fmt : Format) (t t' : Table) (h : fitToPdb fmt t = .ok t')
    (i j : Nat) (hi : i < t.length) (hj : j < t.length) (hi' : i < t'.length) (hj' : j < t'.length) :
    (t'[i].chain = t'[j].chain ↔ t[i].chain = t[j].chain) := by
  cases hc : canWritePdb fmt t with
  | true =>
    have := fit_of_canWrite fmt t t' h hc
    subst this
    exact Iff.rfl
  | false =>
    obtain ⟨-, -, hch, -, -⟩ := fit_inv fmt t t' h hc
    obtain ⟨-, hr⟩ := fit_rows fmt t t' h hc
    obtain ⟨s, -, e⟩ := hr i hi hi'
    obtain ⟨s', -, e'⟩ := hr j hj hj'
    rw [e, e']
    exact newChain_inj (chainsOf t) _ _ (chain_mem_chainsOf t _ (List.getElem_mem hi))
      (chain_mem_chainsOf t _ (List.getElem_mem hj)) hch

theorem newRow_resSeq (t : Table) (a : Atom) (ha : a ∈ t) (s : Int) :
    (newRow t a s).resSeq = (((residuesOf t a.chain).idxOf (resKey a) : Nat) : Int) + 1 :=
  newResSeq_eq t a ha

/-- limits in the renaming branch -/
theorem fit_ok_satisfies_limits (fmt : Format) (t t' : Table) (h : fitToPdb fmt t = .ok t')
    (hc : canWritePdb fmt t = false) :
    ∀ a ∈ t', 1 ≤ a.serial ∧ a.serial ≤ (ParserV2.maxSerial : Int) ∧
              (∃ c ∈ ParserV2.chainAlphabet, a.chain = [c]) ∧
              1 ≤ a.resSeq ∧ a.resSeq ≤ (ParserV2.maxResSeq : Int) ∧ a.iCode = [] := by
  intro a' ha'
  obtain ⟨-, -, hch, hres, hser⟩ := fit_inv fmt t t' h hc
  obtain ⟨a, ha, s, hs, e⟩ := fit_mem fmt t t' h hc a' ha'
  subst e
  have hb := (serialsFrom_bounds none 0 _ s hs).1
  have hidx : (residuesOf t a.chain).idxOf (resKey a) < (residuesOf t a.chain).length :=
    List.idxOf_lt_length_of_mem (resKey_mem_residuesOf t a ha)
  have hlen := residuesOf_length_le t a.chain (chain_mem_chainsOf t a ha)
  rw [newRow_resSeq t a ha s]
  refine ⟨?_, hser s hs, newChain_mem (chainsOf t) a.chain (chain_mem_chainsOf t a ha) hch,
    by omega, by omega, rfl⟩
  show 1 ≤ s
  omega

theorem fit_residue_map_injective_per_chain (fmt : Format) (t t' : Table) (h : fitToPdb fmt t = .ok t')
    (hc : canWritePdb fmt t = false)
    (i j : Nat) (hi : i < t.length) (hj : j < t.length) (hi' : i < t'.length) (hj' : j < t'.length)
    (hch : t[i].chain = t[j].chain) :
    (t'[i].resSeq = t'[j].resSeq ↔ resKey t[i] = resKey t[j]) := by
  obtain ⟨-, hr⟩ := fit_rows fmt t t' h hc
  obtain ⟨s, -, e⟩ := hr i hi hi'
  obtain ⟨s', -, e'⟩ := hr j hj hj'
  rw [e, e', newRow_resSeq t _ (List.getElem_mem hi), newRow_resSeq t _ (List.getElem_mem hj), hch]
  have hm : resKey t[i] ∈ residuesOf t t[j].chain := hch ▸ resKey_mem_residuesOf t _ (List.getElem_mem hi)
  constructor
  · intro h
    exact idxOf_inj _ _ _ hm (by omega)
  · intro h; rw [h]

/-- two rows share the new (chain, number, icode) iff they shared the old one -/
theorem fit_grouping_preserved (fmt : Format) (t t' : Table) (h : fitToPdb fmt t = .ok t')
    (i j : Nat) (hi : i < t.length) (hj : j < t.length) (hi' : i < t'.length) (hj' : j < t'.length) :
    (resId t'[i] = resId t'[j] ↔ resId t[i] = resId t[j]) := by
  cases hc : canWritePdb fmt t with
  | true =>
    have := fit_of_canWrite fmt t t' h hc
    subst this
    exact Iff.rfl
  | false =>
    have hchain := fit_chain_map_injective fmt t t' h i j hi hj hi' hj'
    have hico : t'[i].iCode = [] ∧ t'[j].iCode = [] := by
      have h1 := fit_ok_satisfies_limits fmt t t' h hc _ (List.getElem_mem hi')
      have h2 := fit_ok_satisfies_limits fmt t t' h hc _ (List.getElem_mem hj')
      exact ⟨h1.2.2.2.2.2, h2.2.2.2.2.2⟩
    simp only [resId, Prod.mk.injEq]
    constructor
    · rintro ⟨h1, h2, -⟩
      have hch := hchain.1 h1
      have := (fit_residue_map_injective_per_chain fmt t t' h hc i j hi hj hi' hj' hch).1 h2
      simp only [resKey, Prod.mk.injEq] at this
      exact ⟨hch, this⟩
    · rintro ⟨h1, h2, h3⟩
      refine ⟨hchain.2 h1, ?_, by rw [hico.1, hico.2]⟩
      exact (fit_residue_map_injective_per_chain fmt t t' h hc i j hi hj hi' hj' h1).2
        (by simp only [resKey, h2, h3])

theorem chainChanges_renameRows (t : Table) (hl : (chainsOf t).length ≤ ParserV2.chainAlphabet.length) :
    chainChanges (renameRows t) = chainChanges t := by
  unfold renameRows
  apply chainChanges_map
  intro a ha b hb
  exact newChain_inj _ _ _ (chain_mem_chainsOf t a ha) (chain_mem_chainsOf t b hb) hl

/-- exact characterisation of the refusals -/
theorem fit_refuses_iff (fmt : Format) (t : Table) :
    (∃ e, fitToPdb fmt t = .error e) ↔ refuses fmt t = true := by
  cases hc : canWritePdb fmt t with
  | true =>
    rw [fit_id fmt t hc]
    simp [refuses, hc]
  | false =>
    have hne := ne_nil_of_not_canWrite fmt t hc
    have hne' : renameRows t ≠ [] := by
      intro h
      apply hne
      have := length_renameRows t
      rw [h] at this
      exact List.eq_nil_of_length_eq_zero this.symm
    unfold fitToPdb refuses
    simp only [hc, Bool.false_eq_true, if_false, Bool.not_false, Bool.true_and, Bool.or_eq_true,
      decide_eq_true_eq]
    by_cases h1 : t.length + (chainsOf t).length > ParserV2.maxSerial
    · simp only [if_pos h1]
      exact ⟨fun _ => Or.inl (Or.inl (Or.inl h1)), fun _ => ⟨_, rfl⟩⟩
    simp only [if_neg h1]
    by_cases h2 : (chainsOf t).length > ParserV2.chainAlphabet.length
    · simp only [if_pos h2]
      exact ⟨fun _ => Or.inl (Or.inl (Or.inr h2)), fun _ => ⟨_, rfl⟩⟩
    simp only [if_neg h2]
    by_cases h3 : maxResidues t > ParserV2.maxResSeq
    · simp only [if_pos h3]
      exact ⟨fun _ => Or.inl (Or.inr h3), fun _ => ⟨_, rfl⟩⟩
    simp only [if_neg h3]
    have key := any_serial_gt_iff (renameRows t) hne' ParserV2.maxSerial
    rw [chainChanges_renameRows t (by omega), length_renameRows] at key
    by_cases h4 : (serialsFrom none 0 (renameRows t)).any (fun s => decide (s > (ParserV2.maxSerial : Int))) = true
    · simp only [if_pos h4]
      exact ⟨fun _ => Or.inr (key.1 h4), fun _ => ⟨_, rfl⟩⟩
    · simp only [if_neg h4]
      constructor
      · rintro ⟨e, he⟩; cases he
      · rintro (((h | h) | h) | h)
        · exact absurd h h1
        · exact absurd h h2
        · exact absurd h h3
        · exact absurd (key.2 h) h4

/-- limits in general for a mmCIF-derived table (identity branch: the fit test itself) -/
theorem fit_ok_rowFits (t t' : Table) (h : fitToPdb .cif t = .ok t') : t'.all rowFits = true := by
  cases hc : canWritePdb .cif t with
  | true =>
    have := fit_of_canWrite .cif t t' h hc
    subst this
    simp only [canWritePdb, Bool.or_eq_true] at hc
    rcases hc with hc | hc
    · rw [List.isEmpty_iff] at hc; subst hc; rfl
    · exact hc
  | false =>
    rw [List.all_eq_true]
    intro a ha
    obtain ⟨-, h2, ⟨c, -, h3⟩, -, h5, -⟩ := fit_ok_satisfies_limits .cif t t' h hc a ha
    have b1 : ParserV2.maxSerial ≤ ParserV2.canWriteMaxSerial := by decide
    have b2 : ParserV2.maxResSeq ≤ ParserV2.canWriteMaxResSeq := by decide
    have b3 : 1 ≤ ParserV2.canWriteMaxChainLen := by decide
    simp only [rowFits, Bool.and_eq_true, decide_eq_true_eq, h3, List.length_singleton]
    omega

/-- the same for a PDB-derived table, **when the source tests such tables** (`pdbAssumedToFit = false`) -/
theorem fit_ok_rowFitsPdb (hb : ParserV2.pdbAssumedToFit = false) (t t' : Table)
    (h : fitToPdb .pdb t = .ok t') : t'.all rowFitsPdb = true := by
  cases hc : canWritePdb .pdb t with
  | true =>
    have := fit_of_canWrite .pdb t t' h hc
    subst this
    simpa [canWritePdb, hb] using hc
  | false =>
    rw [List.all_eq_true]
    intro a ha
    obtain ⟨-, h2, ⟨c, -, h3⟩, -, h5, -⟩ := fit_ok_satisfies_limits .pdb t t' h hc a ha
    have b1 : ParserV2.maxSerial ≤ ParserV2.canWritePdbMaxSerial := by decide
    have b2 : ParserV2.maxResSeq ≤ ParserV2.canWritePdbMaxResSeq := by decide
    have b3 : 1 ≤ ParserV2.canWritePdbMaxChainLen := by decide
    simp only [rowFitsPdb, Bool.and_eq_true, decide_eq_true_eq, h3, List.length_singleton]
    omega

/-- every returned table, either format, satisfies the three limits of the statement — when the source tests
PDB-derived tables too -/
theorem fit_ok_limits (hb : ParserV2.pdbAssumedToFit = false) (fmt : Format) (t t' : Table)
    (h : fitToPdb fmt t = .ok t') :
    ∀ a ∈ t', a.serial ≤ 99999 ∧ a.chain.length ≤ 1 ∧ a.resSeq ≤ 9999 := by
  have c1 : ParserV2.canWriteMaxSerial = 99999 ∧ ParserV2.canWriteMaxChainLen = 1 ∧
      ParserV2.canWriteMaxResSeq = 9999 := by decide
  have c2 : ParserV2.canWritePdbMaxSerial = 99999 ∧ ParserV2.canWritePdbMaxChainLen = 1 ∧
      ParserV2.canWritePdbMaxResSeq = 9999 := by decide
  intro a ha
  cases fmt with
  | cif =>
    have := List.all_eq_true.1 (fit_ok_rowFits t t' h) a ha
    simp only [rowFits, Bool.and_eq_true, decide_eq_true_eq, c1.1, c1.2.1, c1.2.2] at this
    omega
  | pdb =>
    have := List.all_eq_true.1 (fit_ok_rowFitsPdb hb t t' h) a ha
    simp only [rowFitsPdb, Bool.and_eq_true, decide_eq_true_eq, c2.1, c2.2.1, c2.2.2] at this
    omega

theorem within_newRow (a : Atom) (s r : Int) (c : Char)
    (ho : withinPdbLimits { a with serial := 1, chain := ['A'], resSeq := 1, iCode := [] } = true)
    (hs1 : 1 ≤ s) (hs2 : s ≤ (ParserV2.maxSerial : Int)) (hc : c ∈ ParserV2.chainAlphabet)
    (hr1 : 1 ≤ r) (hr2 : r ≤ (ParserV2.maxResSeq : Int)) :
    withinPdbLimits { a with serial := s, chain := [c], resSeq := r, iCode := [] } = true := by
  have hg := alphabet_graphic c hc
  simp only [withinPdbLimits, Bool.and_eq_true, decide_eq_true_eq] at ho ⊢
  simp only [ho, hg, hs2, hr2, List.length_singleton, List.length_nil, List.all_cons,
    Bool.and_self, and_true, true_and, Nat.zero_le]
  omega

/-- the fitted table is within the PDB field widths when the untouched fields are -/
theorem fit_ok_within (fmt : Format) (t t' : Table) (h : fitToPdb fmt t = .ok t')
    (hc : canWritePdb fmt t = false)
    (ho : ∀ a ∈ t, withinPdbLimits { a with serial := 1, chain := ['A'], resSeq := 1, iCode := [] } = true) :
    ∀ a ∈ t', withinPdbLimits a = true := by
  intro a' ha'
  obtain ⟨l1, l2, ⟨c, hcm, l3⟩, l4, l5, -⟩ := fit_ok_satisfies_limits fmt t t' h hc a' ha'
  obtain ⟨a, ha, s, -, e⟩ := fit_mem fmt t t' h hc a' ha'
  have e' : a' = { a with serial := a'.serial, chain := [c], resSeq := a'.resSeq, iCode := [] } := by
    rw [← l3]; subst e; rfl
  rw [e']
  exact within_newRow a _ _ c (ho a ha) l1 l2 hcm l4 l5

/-! ## non-vacuity -/

/-- a row with the given serial, chain, number, insertion code (other fields within the PDB limits) -/
def exRow (serial : Int) (chain : Str) (resSeq : Int) (iCode : Str) : Atom :=
  { record := "ATOM".toList, serial := serial, name := "C1'".toList, altLoc := [], resName := "G".toList,
    chain := chain, resSeq := resSeq, iCode := iCode, x := 1000, y := -2000, z := 3500, occ := 100, b := 2550,
    element := "C".toList, charge := [], model := 1 }

/-- two multi-character chain ids, an insertion code, a return to the first chain -/
def exT : Table :=
  [exRow 100 "AA".toList 10 [], exRow 101 "AA".toList 10 ['A'], exRow 102 "BB".toList 5 [],
   exRow 103 "AA".toList 10 []]

def exT' : Table :=
  [exRow 1 ['A'] 1 [], exRow 2 ['A'] 2 [], exRow 4 ['B'] 1 [], exRow 6 ['A'] 1 []]

instance : DecidableEq (Except Err Table)
  | .ok x, .ok y => if h : x = y then isTrue (h ▸ rfl) else isFalse (fun e => h (by injection e))
  | .error x, .error y => if h : x = y then isTrue (h ▸ rfl) else isFalse (fun e => h (by injection e))
  | .ok _, .error _ => isFalse (fun e => by cases e)
  | .error _, .ok _ => isFalse (fun e => by cases e)

/-- the 63 one-row chains `A`, `AA`, `AAA`, … : more chains than the alphabet has letters -/
def exBig : Table := (List.range 63).map (fun i => exRow 1 (List.replicate (i + 1) 'A') 1 [])

-- hypotheses of `fit_id`
example : canWritePdb .cif exT' = true := by decide
example : fitToPdb .cif exT' = .ok exT' := fit_id _ _ (by decide)
-- hypotheses `h`, `hc` of the `fit_ok_…` / `fit_…_injective…` / `fit_grouping_preserved` theorems
example : canWritePdb .cif exT = false := by decide
example : fitToPdb .cif exT = .ok exT' := by decide
-- hypothesis `hch` of `fit_residue_map_injective_per_chain` (rows 0, 1: same chain, different
-- insertion code; rows 0, 3: same residue)
example : exT[0].chain = exT[1].chain ∧ resKey exT[0] ≠ resKey exT[1] ∧ resKey exT[0] = resKey exT[3] := by
  decide
-- hypothesis `ho` of `fit_ok_within`
example : ∀ a ∈ exT, withinPdbLimits { a with serial := 1, chain := ['A'], resSeq := 1, iCode := [] } = true := by
  decide
example : ∀ a ∈ exT', withinPdbLimits a = true :=
  fit_ok_within .cif exT exT' (by decide) (by decide) (by decide)
-- hypothesis of `fit_error_valueError`, both sides of `fit_refuses_iff`
example : refuses .cif exBig = true := by decide
example : fitToPdb .cif exBig = .error .valueError := by decide
example : refuses .cif exT = false := by decide

/-! ## PDB-derived tables whose identifiers were edited (the two behaviours of `can_write_pdb`) -/

/-- a PDB-derived table after an edit of its identifiers (what `unifier.main` does when it copies the most common
identifiers into every file): one residue, chain `AA` -/
def exEdited : Table := [exRow 1 "AA".toList 1 [], exRow 2 "AA".toList 1 []]

/-- the behaviour up to the fix: a PDB-derived table is returned as it is, whatever it holds -/
theorem fit_pdb_assumed (hb : ParserV2.pdbAssumedToFit = true) (t : Table) : fitToPdb .pdb t = .ok t :=
  fit_id .pdb t (by simp [canWritePdb, hb])

/-- the present behaviour on the edited table: it is renamed -/
theorem fit_pdb_edited (hb : ParserV2.pdbAssumedToFit = false) :
    fitToPdb .pdb exEdited = .ok [exRow 1 ['A'] 1 [], exRow 2 ['A'] 1 []] := by
  have hc : canWritePdb .pdb exEdited = false := by
    simp only [canWritePdb, hb]; decide
  unfold fitToPdb
  rw [hc]
  decide

end RnaVerif.Fit

import RnaVerif.Lemmas.Regions
/-!
# Decoding any dot-bracket and converting it to BPSEQ (helper lemmas for C01, converse direction)

* `DInv` — invariant of the per-type stack decoder on an *arbitrary* token string: every position
  is used at most once, every emitted pair is `(i, k)` with `i < k`;
* `fromDB_valid`, `pairs0_fromDB` — `BpSeq.from_dotbracket` of such a pair list is a valid BPSEQ
  whose 5'→3' pairs are exactly the given pairs.
-/
namespace RnaVerif.SecStr

/-- all positions used by two pairs are different -/
def PosDistinct (p q : Nat × Nat) : Prop := p.1 ≠ q.1 ∧ p.1 ≠ q.2 ∧ p.2 ≠ q.1 ∧ p.2 ≠ q.2

/-- a list of 0-based pairs over positions `< n`: 5' before 3', no position used twice -/
structure PairsOK (n : Nat) (ps : List (Nat × Nat)) : Prop where
  lt : ∀ p ∈ ps, p.1 < p.2 ∧ p.2 < n
  distinct : ps.Pairwise PosDistinct

/-! ### decoder invariant on arbitrary input -/

structure DInv (k : Nat) (s : St) : Prop where
  stk_lt : ∀ t, ∀ i ∈ s.stacks t, i < k
  stk_nodup : ∀ t, (s.stacks t).Nodup
  stk_disj : ∀ t t', t ≠ t' → ∀ i ∈ s.stacks t, i ∉ s.stacks t'
  out_stk : ∀ p ∈ s.out, ∀ t, p.1 ∉ s.stacks t ∧ p.2 ∉ s.stacks t
  out_ok : PairsOK k s.out

theorem dinv_init : DInv 0 St.init := by
  refine ⟨?_, ?_, ?_, ?_, ⟨?_, ?_⟩⟩ <;> simp [St.init]

theorem dinv_step {k : Nat} {s s' : St} (inv : DInv k s) (tk : Tok)
    (h : stepTok s k tk = some s') : DInv (k + 1) s' := by
  cases tk with
  | dot =>
    simp only [stepTok, Option.some.injEq] at h
    subst h
    refine ⟨fun t i hi => Nat.lt_succ_of_lt (inv.stk_lt t i hi), inv.stk_nodup, inv.stk_disj,
      inv.out_stk, ⟨fun p hp => ?_, inv.out_ok.distinct⟩⟩
    have := inv.out_ok.lt p hp; omega
  | op t0 =>
    simp only [stepTok, Option.some.injEq] at h
    subst h
    have hk : ∀ t, k ∉ s.stacks t := fun t hm => Nat.lt_irrefl _ (inv.stk_lt t k hm)
    refine ⟨?_, ?_, ?_, ?_, ⟨fun p hp => ?_, inv.out_ok.distinct⟩⟩
    · intro t i hi
      simp only at hi
      split at hi
      · rcases List.mem_cons.mp hi with rfl | hi
        · omega
        · exact Nat.lt_succ_of_lt (inv.stk_lt _ i hi)
      · exact Nat.lt_succ_of_lt (inv.stk_lt t i hi)
    · intro t
      simp only
      split
      · exact List.nodup_cons.mpr ⟨hk _, inv.stk_nodup _⟩
      · exact inv.stk_nodup t
    · intro t t' hne i hi
      simp only at hi ⊢
      by_cases h1 : t = t0
      · subst h1
        have h2 : ¬ t' = t := fun e => hne e.symm
        simp only [if_true] at hi
        simp only [h2, if_false]
        rcases List.mem_cons.mp hi with rfl | hi
        · exact hk t'
        · exact inv.stk_disj t t' hne i hi
      · simp only [h1, if_false] at hi
        by_cases h2 : t' = t0
        · subst h2
          simp only [if_true, List.mem_cons, not_or]
          exact ⟨fun e => hk t (e ▸ hi), inv.stk_disj t t' hne i hi⟩
        · simp only [h2, if_false]
          exact inv.stk_disj t t' hne i hi
    · intro p hp t
      have h1 := inv.out_stk p hp t
      have h2 := inv.out_ok.lt p hp
      simp only
      split
      · simp only [List.mem_cons, not_or]
        rename_i e; subst e
        exact ⟨⟨by omega, h1.1⟩, ⟨by omega, h1.2⟩⟩
      · exact h1
    · have := inv.out_ok.lt p hp; omega
  | cl t0 =>
    simp only [stepTok] at h
    cases hst : s.stacks t0 with
    | nil => rw [hst] at h; cases h
    | cons i rest =>
      rw [hst] at h
      simp only [Option.some.injEq] at h
      subst h
      have hi0 : i ∈ s.stacks t0 := by rw [hst]; simp
      have hik : i < k := inv.stk_lt t0 i hi0
      have hnd := inv.stk_nodup t0
      rw [hst, List.nodup_cons] at hnd
      have hsub : ∀ t a, a ∈ (if t = t0 then rest else s.stacks t) → a ∈ s.stacks t := by
        intro t a ha
        split at ha
        · rename_i e; subst e; rw [hst]; exact List.mem_cons_of_mem _ ha
        · exact ha
      refine ⟨?_, ?_, ?_, ?_, ⟨?_, ?_⟩⟩
      · intro t a ha
        exact Nat.lt_succ_of_lt (inv.stk_lt t a (hsub t a ha))
      · intro t
        simp only
        split
        · exact hnd.2
        · exact inv.stk_nodup t
      · intro t t' hne a ha ha'
        exact inv.stk_disj t t' hne a (hsub t a ha) (hsub t' a ha')
      · intro p hp t
        simp only at hp
        rcases List.mem_append.mp hp with hp | hp
        · have := inv.out_stk p hp t
          exact ⟨fun hm => this.1 (hsub t _ hm), fun hm => this.2 (hsub t _ hm)⟩
        · have : p = (i, k) := by simpa using hp
          subst this
          refine ⟨?_, fun hm => Nat.lt_irrefl _ (inv.stk_lt t k (hsub t _ hm))⟩
          simp only
          split
          · exact hnd.1
          · rename_i hne
            exact inv.stk_disj t0 t (fun e => hne e.symm) i hi0
      · intro p hp
        simp only at hp
        rcases List.mem_append.mp hp with hp | hp
        · have := inv.out_ok.lt p hp; omega
        · have : p = (i, k) := by simpa using hp
          subst this; simp only; omega
      · simp only
        rw [List.pairwise_append]
        refine ⟨inv.out_ok.distinct, by simp, ?_⟩
        intro p hp q hq
        have : q = (i, k) := by simpa using hq
        subst this
        have h1 := inv.out_stk p hp t0
        have h2 := inv.out_ok.lt p hp
        refine ⟨fun e => h1.1 (e ▸ hi0), by simp only; omega, fun e => h1.2 (e ▸ hi0),
          by simp only; omega⟩

theorem dinv_range (tok : Nat → Tok) :
    ∀ (len k : Nat) (s s' : St), DInv k s → decodeFrom tok (List.range' k len) s = some s' →
      DInv (k + len) s' := by
  intro len
  induction len with
  | zero =>
    intro k s s' inv h
    simp only [List.range'_zero, decodeFrom, Option.some.injEq] at h
    subst h; exact inv
  | succ len ih =>
    intro k s s' inv h
    simp only [List.range'_succ, decodeFrom] at h
    cases hs : stepTok s k (tok k) with
    | none => rw [hs] at h; cases h
    | some s1 =>
      rw [hs] at h
      simp only [Option.bind_some] at h
      have := ih (k + 1) s1 s' (dinv_step inv _ hs) h
      rw [show k + (len + 1) = k + 1 + len by omega]
      exact this

/-- whatever string is decoded, the emitted pairs are `(i, k)` with `i < k < length`, and no
position is used twice -/
theorem decodeChars_pairsOK {s : List Char} {st : St} (h : decodeChars s = some st) :
    PairsOK s.length st.out := by
  unfold decodeChars at h
  rw [List.range_eq_range'] at h
  have := dinv_range _ s.length 0 _ _ dinv_init h
  simpa using this.out_ok

/-! ### `fromDB` -/

/-- the partner written for 0-based position `k` by the loop of `BpSeq.from_dotbracket` -/
def partnerFold (ps : List (Nat × Nat)) (k : Nat) : Nat :=
  ps.foldl (fun acc p => if p.1 = k then p.2 + 1 else if p.2 = k then p.1 + 1 else acc) 0

theorem fromDB_length (seq : List Char) (ps : List (Nat × Nat)) :
    (fromDB seq ps).length = seq.length := by simp [fromDB]

theorem fromDB_getElem (seq : List Char) (ps : List (Nat × Nat)) (k : Nat)
    (h : k < (fromDB seq ps).length) :
    (fromDB seq ps)[k] = ⟨k + 1, seq.getD k '?', partnerFold ps k⟩ := by
  simp [fromDB, partnerFold]

theorem fromDB_sequence (seq : List Char) (ps : List (Nat × Nat)) :
    sequence (fromDB seq ps) = seq := by
  apply List.ext_getElem
  · simp [sequence, fromDB]
  · intro k h1 h2
    simp [sequence, fromDB, List.getD_eq_getElem?_getD, List.getElem?_eq_getElem h2]

theorem foldl_untouched (k : Nat) (ps : List (Nat × Nat)) (acc : Nat)
    (h : ∀ p ∈ ps, p.1 ≠ k ∧ p.2 ≠ k) :
    ps.foldl (fun acc p => if p.1 = k then p.2 + 1 else if p.2 = k then p.1 + 1 else acc) acc
      = acc := by
  induction ps generalizing acc with
  | nil => rfl
  | cons p ps ih =>
    have hp := h p (by simp)
    simp only [List.foldl_cons, hp.1, hp.2, if_false]
    exact ih acc (fun q hq => h q (List.mem_cons_of_mem _ hq))

theorem foldl_touched (k : Nat) (ps : List (Nat × Nat)) (acc : Nat)
    (hd : ps.Pairwise PosDistinct) {q : Nat × Nat} (hq : q ∈ ps) (hk : q.1 = k ∨ q.2 = k) :
    ps.foldl (fun acc p => if p.1 = k then p.2 + 1 else if p.2 = k then p.1 + 1 else acc) acc
      = if q.1 = k then q.2 + 1 else q.1 + 1 := by
  induction ps generalizing acc with
  | nil => cases hq
  | cons p ps ih =>
    rw [List.pairwise_cons] at hd
    rcases List.mem_cons.mp hq with rfl | hq'
    · simp only [List.foldl_cons]
      rw [foldl_untouched]
      · rcases hk with h | h
        · simp [h]
        · by_cases h1 : q.1 = k <;> simp [h1, h]
      · intro p hp
        have := hd.1 p hp
        unfold PosDistinct at this
        rcases hk with h | h <;> subst h <;> exact ⟨fun e => by simp [e] at this, fun e => by simp [e] at this⟩
    · simp only [List.foldl_cons]
      exact ih _ hd.2 hq'

theorem partnerFold_zero {ps : List (Nat × Nat)} {k : Nat} (h : ∀ p ∈ ps, p.1 ≠ k ∧ p.2 ≠ k) :
    partnerFold ps k = 0 := foldl_untouched k ps 0 h

theorem partnerFold_fst {n : Nat} {ps : List (Nat × Nat)} (ok : PairsOK n ps) {q : Nat × Nat}
    (hq : q ∈ ps) : partnerFold ps q.1 = q.2 + 1 := by
  unfold partnerFold
  rw [foldl_touched q.1 ps 0 ok.distinct hq (Or.inl rfl)]; simp

theorem partnerFold_snd {n : Nat} {ps : List (Nat × Nat)} (ok : PairsOK n ps) {q : Nat × Nat}
    (hq : q ∈ ps) : partnerFold ps q.2 = q.1 + 1 := by
  unfold partnerFold
  rw [foldl_touched q.2 ps 0 ok.distinct hq (Or.inr rfl)]
  have := (ok.lt q hq).1
  rw [if_neg (by omega)]

/-- every position is untouched, or the 5' end or the 3' end of exactly one listed pair -/
theorem partnerFold_cases {n : Nat} {ps : List (Nat × Nat)} (ok : PairsOK n ps) (k : Nat) :
    partnerFold ps k = 0 ∨ (∃ q ∈ ps, q.1 = k ∧ partnerFold ps k = q.2 + 1) ∨
      (∃ q ∈ ps, q.2 = k ∧ partnerFold ps k = q.1 + 1) := by
  by_cases h : ∀ p ∈ ps, p.1 ≠ k ∧ p.2 ≠ k
  · exact Or.inl (partnerFold_zero h)
  · have : ∃ q ∈ ps, q.1 = k ∨ q.2 = k := by
      apply Decidable.byContradiction
      intro hc
      apply h
      intro p hp
      exact ⟨fun e => hc ⟨p, hp, Or.inl e⟩, fun e => hc ⟨p, hp, Or.inr e⟩⟩
    obtain ⟨q, hq, hk | hk⟩ := this
    · exact Or.inr (Or.inl ⟨q, hq, hk, hk ▸ partnerFold_fst ok hq⟩)
    · exact Or.inr (Or.inr ⟨q, hq, hk, hk ▸ partnerFold_snd ok hq⟩)

/-- `BpSeq.from_dotbracket` of a well-formed pair list over a sequence of the right length is a
valid BPSEQ -/
theorem fromDB_valid {seq : List Char} {ps : List (Nat × Nat)} (ok : PairsOK seq.length ps) :
    ValidP (fromDB seq ps) := by
  have hlen := fromDB_length seq ps
  have hpart : ∀ k, k < seq.length → partnerOf (fromDB seq ps) (k + 1) = partnerFold ps k := by
    intro k hk
    rw [partnerOf_eq (by omega), fromDB_getElem]
  refine ⟨fun k hk => by rw [fromDB_getElem], fun k hk => ?_⟩
  rw [fromDB_getElem]
  simp only [hlen]
  rcases partnerFold_cases ok k with h0 | ⟨q, hq, rfl, hv⟩ | ⟨q, hq, rfl, hv⟩
  · exact Or.inl h0
  · right
    have := ok.lt q hq
    rw [hv, hpart q.2 this.2, partnerFold_snd ok hq]
    omega
  · right
    have := ok.lt q hq
    rw [hv, hpart q.1 (by omega), partnerFold_fst ok hq]
    omega

/-- … and its 5'→3' pairs are exactly the listed pairs -/
theorem pairs0_fromDB {seq : List Char} {ps : List (Nat × Nat)} (ok : PairsOK seq.length ps)
    (p : Nat × Nat) : p ∈ pairs0 (fromDB seq ps) ↔ p ∈ ps := by
  have hlen := fromDB_length seq ps
  simp only [pairs0, List.mem_map, mem_paired5to3]
  constructor
  · rintro ⟨e, ⟨he, hp0, hlt⟩, rfl⟩
    obtain ⟨k, hk, rfl⟩ := List.mem_iff_getElem.mp he
    rw [fromDB_getElem] at hp0 hlt ⊢
    simp only at hp0 hlt ⊢
    rcases partnerFold_cases ok k with h0 | ⟨q, hq, rfl, hv⟩ | ⟨q, hq, rfl, hv⟩
    · exact absurd h0 hp0
    · rw [hv]; exact hq
    · have := ok.lt q hq
      rw [hv] at hlt; omega
  · intro hp
    have hlt := ok.lt p hp
    have hk : p.1 < (fromDB seq ps).length := by omega
    refine ⟨(fromDB seq ps)[p.1], ⟨List.getElem_mem hk, ?_, ?_⟩, ?_⟩
    · rw [fromDB_getElem]; simp only; rw [partnerFold_fst ok hp]; omega
    · rw [fromDB_getElem]; simp only; rw [partnerFold_fst ok hp]; omega
    · rw [fromDB_getElem]; simp only; rw [partnerFold_fst ok hp]; rfl

end RnaVerif.SecStr

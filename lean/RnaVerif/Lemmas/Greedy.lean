import RnaVerif.Model.Levels
/-! # mex, greedy colouring, Grundy characterisation (helper lemmas for C02 / C16) -/
namespace RnaVerif.SecStr

theorem mexFrom_spec (used : List Nat) : ∀ fuel c,
    (∀ d, c ≤ d → d < mexFrom used fuel c → d ∈ used) ∧ c ≤ mexFrom used fuel c ∧
    (mexFrom used fuel c ∈ used → mexFrom used fuel c = c + fuel) := by
  intro fuel
  induction fuel with
  | zero => intro c; simp [mexFrom]; intro d h1 h2; omega
  | succ fuel ih =>
    intro c
    unfold mexFrom
    split
    · rename_i hc
      obtain ⟨h1, h2, h3⟩ := ih (c+1)
      refine ⟨?_, by omega, ?_⟩
      · intro d hd hlt
        by_cases e : d = c
        · subst e; exact hc
        · exact h1 d (by omega) hlt
      · intro h; have := h3 h; omega
    · rename_i hc
      refine ⟨fun d h1 h2 => by omega, Nat.le_refl _, fun h => absurd h hc⟩

/-- pigeonhole: the numbers 0..len cannot all be in a list of length len -/
theorem not_all_mem (used : List Nat) : ¬ (∀ d, d < used.length + 1 → d ∈ used) := by
  intro h
  have hsub : List.range (used.length + 1) ⊆ used := by
    intro d hd; exact h d (by simpa using hd)
  have := List.Nodup.length_le_of_subset (List.nodup_range) hsub
  simp at this
  omega

theorem mex_not_mem (used : List Nat) : mex used ∉ used := by
  intro hm
  obtain ⟨h1, _, h3⟩ := mexFrom_spec used (used.length + 1) 0
  have e := h3 hm
  apply not_all_mem used
  intro d hd
  apply h1 d (Nat.zero_le _)
  unfold mex at e hm
  omega

theorem mex_lt_mem (used : List Nat) : ∀ d, d < mex used → d ∈ used := by
  intro d hd
  exact (mexFrom_spec used (used.length + 1) 0).1 d (Nat.zero_le _) hd

theorem mex_eq (used : List Nat) (c : Nat) (h1 : c ∉ used) (h2 : ∀ d, d < c → d ∈ used) :
    mex used = c := by
  rcases Nat.lt_trichotomy (mex used) c with h | h | h
  · exact absurd (h2 _ h) (mex_not_mem used)
  · exact h
  · exact absurd (mex_lt_mem used c h) h1


theorem mem_nbrCols_map {adj : Nat → Nat → Bool} {f : Nat → Nat} {pre : List Nat} {v d : Nat} :
    d ∈ nbrCols adj (pre.map fun u => (u, f u)) v ↔ ∃ u ∈ pre, adj u v = true ∧ f u = d := by
  simp only [nbrCols, List.mem_map, List.mem_filter]
  constructor
  · rintro ⟨p, ⟨⟨u, hu, rfl⟩, ha⟩, rfl⟩; exact ⟨u, hu, ha, rfl⟩
  · rintro ⟨u, hu, ha, rfl⟩; exact ⟨(u, f u), ⟨⟨u, hu, rfl⟩, ha⟩, rfl⟩

theorem grundy_is_greedy_aux (adj : Nat → Nat → Bool) (f : Nat → Nat) :
    ∀ (suf pre : List Nat),
      (pre ++ suf).Pairwise (fun a b => f a ≤ f b) →
      (∀ u ∈ pre ++ suf, ∀ v ∈ pre ++ suf, adj u v = true → f u ≠ f v) →
      (∀ v ∈ pre ++ suf, ∀ d, d < f v → ∃ u ∈ pre ++ suf, adj u v = true ∧ f u = d) →
      greedyAux adj suf (pre.map fun u => (u, f u)) = (pre ++ suf).map fun u => (u, f u) := by
  intro suf
  induction suf with
  | nil => intro pre _ _ _; simp [greedyAux]
  | cons v vs ih =>
    intro pre hs hp hg
    have hv : v ∈ pre ++ v :: vs := by simp
    have hmex : mex (nbrCols adj (pre.map fun u => (u, f u)) v) = f v := by
      apply mex_eq
      · intro h
        obtain ⟨u, hu, ha, he⟩ := mem_nbrCols_map.mp h
        exact hp u (by simp [hu]) v hv ha he
      · intro d hd
        obtain ⟨u, hu, ha, he⟩ := hg v hv d hd
        apply mem_nbrCols_map.mpr
        refine ⟨u, ?_, ha, he⟩
        rcases List.mem_append.mp hu with h | h
        · exact h
        · exfalso
          rcases List.mem_cons.mp h with e | e
          · subst e; omega
          · have := (List.pairwise_append.mp hs).2.1
            rw [List.pairwise_cons] at this
            have := this.1 u e
            omega
    unfold greedyAux
    rw [hmex]
    have := ih (pre ++ [v]) (by simpa using hs) (by simpa using hp) (by simpa using hg)
    simpa using this

theorem grundy_is_greedy (adj : Nat → Nat → Bool) (f : Nat → Nat) (π : List Nat)
    (hs : π.Pairwise (fun a b => f a ≤ f b))
    (hp : ∀ u ∈ π, ∀ v ∈ π, adj u v = true → f u ≠ f v)
    (hg : ∀ v ∈ π, ∀ d, d < f v → ∃ u ∈ π, adj u v = true ∧ f u = d) :
    greedy adj π = π.map fun u => (u, f u) := by
  have := grundy_is_greedy_aux adj f π [] (by simpa using hs) (by simpa using hp) (by simpa using hg)
  simpa [greedy] using this

/-! greedy is proper and Grundy (needs symmetric adjacency) -/

def ProperL (adj : Nat → Nat → Bool) (l : List (Nat × Nat)) : Prop :=
  l.Pairwise (fun p q => adj p.1 q.1 = true → p.2 ≠ q.2)

def GrundyL (adj : Nat → Nat → Bool) (l : List (Nat × Nat)) : Prop :=
  ∀ p ∈ l, ∀ d, d < p.2 → ∃ q ∈ l, adj q.1 p.1 = true ∧ q.2 = d

theorem mem_nbrCols {adj : Nat → Nat → Bool} {acc : List (Nat × Nat)} {v d : Nat} :
    d ∈ nbrCols adj acc v ↔ ∃ q ∈ acc, adj q.1 v = true ∧ q.2 = d := by
  simp only [nbrCols, List.mem_map, List.mem_filter]
  constructor
  · rintro ⟨q, ⟨hq, ha⟩, rfl⟩; exact ⟨q, hq, ha, rfl⟩
  · rintro ⟨q, hq, ha, rfl⟩; exact ⟨q, ⟨hq, ha⟩, rfl⟩

theorem greedyAux_inv (adj : Nat → Nat → Bool) :
    ∀ (vs : List Nat) (acc : List (Nat × Nat)), ProperL adj acc → GrundyL adj acc →
      ProperL adj (greedyAux adj vs acc) ∧ GrundyL adj (greedyAux adj vs acc) ∧
      (greedyAux adj vs acc).map (·.1) = acc.map (·.1) ++ vs := by
  intro vs
  induction vs with
  | nil => intro acc hp hg; simp [greedyAux, hp, hg]
  | cons v vs ih =>
    intro acc hp hg
    unfold greedyAux
    have hp' : ProperL adj (acc ++ [(v, mex (nbrCols adj acc v))]) := by
      unfold ProperL
      rw [List.pairwise_append]
      refine ⟨hp, by simp, ?_⟩
      intro p hpm q hq
      simp at hq; subst hq
      intro ha he
      have hm : p.2 ∈ nbrCols adj acc v := mem_nbrCols.mpr ⟨p, hpm, ha, rfl⟩
      simp only at he
      rw [he] at hm
      exact mex_not_mem _ hm
    have hg' : GrundyL adj (acc ++ [(v, mex (nbrCols adj acc v))]) := by
      intro p hpm d hd
      rcases List.mem_append.mp hpm with h | h
      · obtain ⟨q, hq, ha, he⟩ := hg p h d hd
        exact ⟨q, List.mem_append_left _ hq, ha, he⟩
      · simp at h; subst h
        obtain ⟨q, hq, ha, he⟩ := mem_nbrCols.mp (mex_lt_mem _ d hd)
        exact ⟨q, List.mem_append_left _ hq, ha, he⟩
    obtain ⟨a, b, c⟩ := ih _ hp' hg'
    exact ⟨a, b, by simp [c]⟩

theorem greedy_is_grundy (adj : Nat → Nat → Bool) (π : List Nat) :
    ProperL adj (greedy adj π) ∧ GrundyL adj (greedy adj π) ∧ (greedy adj π).map (·.1) = π := by
  have := greedyAux_inv adj π [] (by simp [ProperL]) (by intro p hp; simp at hp)
  simpa [greedy] using this

/-- greedy along an order sorted by a proper colouring f never exceeds f -/
theorem greedy_sorted_le_aux (adj : Nat → Nat → Bool) (f : Nat → Nat) :
    ∀ (suf pre : List Nat) (acc : List (Nat × Nat)),
      acc.map (·.1) = pre →
      (∀ q ∈ acc, q.2 ≤ f q.1) →
      (pre ++ suf).Pairwise (fun a b => f a ≤ f b) →
      (∀ u ∈ pre ++ suf, ∀ v ∈ pre ++ suf, adj u v = true → f u ≠ f v) →
      ∀ q ∈ greedyAux adj suf acc, q.2 ≤ f q.1 := by
  intro suf
  induction suf with
  | nil => intro pre acc _ h _ _; simpa [greedyAux] using h
  | cons v vs ih =>
    intro pre acc hk hle hs hp
    unfold greedyAux
    apply ih (pre ++ [v]) _ (by simp [hk]) _ (by simpa using hs) (by simpa using hp)
    intro q hq
    rcases List.mem_append.mp hq with h | h
    · exact hle q h
    · simp at h; subst h
      simp only
      -- f v is not used by an earlier neighbour, hence mex ≤ f v
      apply Nat.le_of_not_lt
      intro hlt
      obtain ⟨q, hq, ha, he⟩ := mem_nbrCols.mp (mex_lt_mem _ _ hlt)
      have hqpre : q.1 ∈ pre := by rw [← hk]; exact List.mem_map_of_mem hq
      have h1 := hle q hq
      have h2 : f q.1 ≤ f v := by
        have := (List.pairwise_append.mp hs).2.2 q.1 hqpre v (by simp)
        exact this
      have h3 := hp q.1 (by simp [hqpre]) v (by simp) ha
      omega
end RnaVerif.SecStr

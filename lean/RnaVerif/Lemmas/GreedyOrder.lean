import RnaVerif.Lemmas.Pairs
/-! Tie-break independence of the greedy edge occupation (C05): when no two distinct candidates that
compete for a slot have the same count (`noTiedConflicts`), the set of accepted labels is the same for
every processing order that `Counter.most_common()` could produce, and after the assembly sort the
result is literally the same list.  Core Lean only. -/
namespace RnaVerif.Pairs
variable {P : Params}

/-- a processing order that `most_common` could produce for some tie-breaking: no repeats, only labels
that occur, non-increasing count -/
def CountSorted (labels order : List Label) : Prop :=
  order.Nodup ∧ (∀ l ∈ order, l ∈ labels) ∧ order.Pairwise (fun a b => labels.count b ≤ labels.count a)

theorem mostCommon_countSorted (labels : List Label) : CountSorted labels (mostCommonOrder labels) :=
  ⟨nodup_mostCommonOrder labels, fun _ h => mem_mostCommonOrder.mp h, mostCommonOrder_sorted labels⟩

/-! ## the fold only accepts labels it processes -/

theorem occ_foldl_sub (labels L : List Label) (st : List Slot × List Label) :
    ∀ o ∈ (L.foldl (occStep P labels) st).2, o ∈ st.2 ∨ o ∈ L := by
  induction L generalizing st with
  | nil => intro o h; exact Or.inl h
  | cons x rest ih =>
    intro o h
    simp only [List.foldl_cons] at h
    rcases ih (occStep P labels st x) o h with h' | h'
    · rcases occStep_cases (P := P) labels st x with ⟨e, _⟩ | ⟨e, _⟩
      · rw [e] at h'; exact Or.inl h'
      · rw [e] at h'
        simp only [List.mem_append, List.mem_singleton] at h'
        rcases h' with h' | h'
        · exact Or.inl h'
        · exact Or.inr (by simp [h'])
    · exact Or.inr (List.mem_cons_of_mem _ h')

theorem greedy_mem_order {order labels : List Label} {l : Label}
    (h : l ∈ greedyOccupy P order labels) : l ∈ order := by
  rcases occ_foldl_sub (P := P) labels order ([], []) l h with h | h
  · cases h
  · exact h

/-- the state just before `l` is processed determines whether `l` is accepted, and its accepted labels
are exactly the finally accepted labels that come before `l` -/
theorem greedy_split {labels pre post : List Label} {l : Label} (hnd : (pre ++ l :: post).Nodup) :
    let st := pre.foldl (occStep P labels) ([], [])
    (l ∈ greedyOccupy P (pre ++ l :: post) labels ↔
      P.minCount ≤ labels.count l ∧ l.slot1 ∉ st.1 ∧ l.slot2 ∉ st.1) ∧
    (∀ o, o ∈ st.2 ↔ o ∈ greedyOccupy P (pre ++ l :: post) labels ∧ o ∈ pre) := by
  intro st
  have hnd' := List.nodup_append.mp hnd
  have hlpost : l ∉ post := (List.nodup_cons.mp hnd'.2.1).1
  have hlpre : l ∉ pre := fun h => hnd'.2.2 l h l List.mem_cons_self rfl
  have hlst : l ∉ st.2 := by
    intro h
    rcases occ_foldl_sub (P := P) labels pre ([], []) l h with h | h
    · cases h
    · exact hlpre h
  have hG : greedyOccupy P (pre ++ l :: post) labels =
      (post.foldl (occStep P labels) (occStep P labels st l)).2 := by
    unfold greedyOccupy
    rw [List.foldl_append, List.foldl_cons]
  have hG' : greedyOccupy P (pre ++ l :: post) labels =
      ((l :: post).foldl (occStep P labels) st).2 := by
    unfold greedyOccupy
    rw [List.foldl_append]
  refine ⟨?_, ?_⟩
  · rw [hG]
    constructor
    · intro h
      rcases occ_foldl_sub (P := P) labels post _ l h with h | h
      · rcases occStep_cases (P := P) labels st l with ⟨e, _⟩ | ⟨_, hc⟩
        · rw [e] at h; exact absurd h hlst
        · exact hc
      · exact absurd h hlpost
    · rintro ⟨hc, h1, h2⟩
      apply (occ_foldl_mono (P := P) labels post _).2
      rcases occStep_cases (P := P) labels st l with ⟨_, h | h | h⟩ | ⟨e, _⟩
      · exact absurd hc (Nat.not_le_of_lt h)
      · exact absurd h h1
      · exact absurd h h2
      · rw [e]; simp
  · intro o
    constructor
    · intro h
      refine ⟨?_, ?_⟩
      · rw [hG']
        exact (occ_foldl_mono (P := P) labels (l :: post) st).2 o h
      · rcases occ_foldl_sub (P := P) labels pre ([], []) o h with h | h
        · cases h
        · exact h
    · rintro ⟨h, hpre⟩
      rw [hG'] at h
      rcases occ_foldl_sub (P := P) labels (l :: post) st o h with h | h
      · exact h
      · exact absurd rfl (hnd'.2.2 o hpre o h)

/-! ## unfolding `noTiedConflicts` -/

theorem noTiedConflicts_spec {labels : List Label} (hn : noTiedConflicts P labels = true)
    {a b : Label} (ha : a ∈ labels) (hb : b ∈ labels)
    (hca : P.minCount ≤ labels.count a) (hcb : P.minCount ≤ labels.count b)
    (hne : a ≠ b) (hc : labels.count a = labels.count b) :
    ∀ s ∈ a.slots, s ∉ b.slots := by
  unfold noTiedConflicts at hn
  simp only [List.all_eq_true, List.mem_filter, mem_dedupL, decide_eq_true_eq, Bool.or_eq_true,
    beq_iff_eq, bne_iff_ne, Bool.not_eq_true', List.any_eq_false, List.contains_eq_mem,
    ne_eq, ge_iff_le] at hn
  intro s hs hsb
  rcases hn a ⟨ha, hca⟩ b ⟨hb, hcb⟩ with (h | h) | h
  · exact hne h
  · exact h hc
  · exact h s hs hsb

/-! ## order-free characterisation of acceptance -/

/-- characterisation of acceptance that does not mention the position in the order -/
theorem greedy_mem_char {labels : List Label} (hn : noTiedConflicts P labels = true) {σ : List Label}
    (hσ : CountSorted labels σ) (l : Label) :
    l ∈ greedyOccupy P σ labels ↔
      l ∈ σ ∧ P.minCount ≤ labels.count l ∧
        ∀ o ∈ greedyOccupy P σ labels, labels.count l < labels.count o →
          l.slot1 ∉ o.slots ∧ l.slot2 ∉ o.slots := by
  obtain ⟨hnd, hsub, hsorted⟩ := hσ
  constructor
  · intro hl
    have hlσ : l ∈ σ := greedy_mem_order hl
    refine ⟨hlσ, greedy_sound' σ labels l hl, ?_⟩
    obtain ⟨pre, post, rfl⟩ := List.append_of_mem hlσ
    have sp := greedy_split (P := P) (labels := labels) hnd
    have inv := greedy_inv (P := P) pre labels
    obtain ⟨_, h1, h2⟩ := sp.1.mp hl
    intro o ho hlt
    have hoσ := greedy_mem_order ho
    have hps := List.pairwise_append.mp hsorted
    rcases List.mem_append.mp hoσ with hop | hop
    · have host := (sp.2 o).mpr ⟨ho, hop⟩
      exact ⟨fun hs => h1 ((inv.occ _).mpr ⟨o, host, hs⟩),
        fun hs => h2 ((inv.occ _).mpr ⟨o, host, hs⟩)⟩
    · rcases List.mem_cons.mp hop with hop | hop
      · subst hop; exact absurd hlt (Nat.lt_irrefl _)
      · have := (List.pairwise_cons.mp hps.2.1).1 o hop
        exact absurd hlt (Nat.not_lt_of_le this)
  · rintro ⟨hlσ, hc, hall⟩
    obtain ⟨pre, post, rfl⟩ := List.append_of_mem hlσ
    have sp := greedy_split (P := P) (labels := labels) hnd
    have inv := greedy_inv (P := P) pre labels
    have hnd' := List.nodup_append.mp hnd
    have hps := List.pairwise_append.mp hsorted
    -- no accepted label before `l` shares a slot with `l`
    have key : ∀ s ∈ l.slots, s ∉ (pre.foldl (occStep P labels) ([], [])).1 := by
      intro s hs hocc
      obtain ⟨o, host, hso⟩ := (inv.occ s).mp hocc
      obtain ⟨ho, hop⟩ := (sp.2 o).mp host
      have hle : labels.count l ≤ labels.count o := hps.2.2 o hop l List.mem_cons_self
      by_cases hlt : labels.count l < labels.count o
      · have := hall o ho hlt
        simp only [Label.slots, List.mem_cons, List.not_mem_nil, or_false] at hs
        rcases hs with hs | hs
        · exact this.1 (hs ▸ hso)
        · exact this.2 (hs ▸ hso)
      · have heq : labels.count l = labels.count o := by omega
        have hne : l ≠ o := by
          intro e; subst e
          exact hnd'.2.2 l hop l List.mem_cons_self rfl
        exact noTiedConflicts_spec hn (hsub l hlσ) (hsub o (List.mem_append_left _ hop)) hc
          (greedy_sound' _ labels o ho) hne heq s hs hso
    exact sp.1.mpr ⟨hc, key _ (by simp [Label.slots]), key _ (by simp [Label.slots])⟩

/-! ## independence of the tie-breaking -/

theorem greedy_mem_of_sorted_aux {labels : List Label} (hn : noTiedConflicts P labels = true)
    {σ σ' : List Label} (hσ : CountSorted labels σ) (hσ' : CountSorted labels σ')
    (hmem : ∀ l, l ∈ σ ↔ l ∈ σ') (l : Label)
    (ih : ∀ o, labels.count l < labels.count o →
      (o ∈ greedyOccupy P σ labels ↔ o ∈ greedyOccupy P σ' labels))
    (hl : l ∈ greedyOccupy P σ labels) : l ∈ greedyOccupy P σ' labels := by
  obtain ⟨h1, h2, h3⟩ := (greedy_mem_char hn hσ l).mp hl
  refine (greedy_mem_char hn hσ' l).mpr ⟨(hmem l).mp h1, h2, ?_⟩
  intro o ho hlt
  exact h3 o ((ih o hlt).mpr ho) hlt

theorem greedy_mem_iff_of_sorted {labels : List Label} (hn : noTiedConflicts P labels = true)
    {σ σ' : List Label}
    (hσ : CountSorted labels σ) (hσ' : CountSorted labels σ') (hmem : ∀ l, l ∈ σ ↔ l ∈ σ') :
    ∀ l, l ∈ greedyOccupy P σ labels ↔ l ∈ greedyOccupy P σ' labels := by
  have main : ∀ n, ∀ l, labels.length - labels.count l < n →
      (l ∈ greedyOccupy P σ labels ↔ l ∈ greedyOccupy P σ' labels) := by
    intro n
    induction n with
    | zero => intro l h; exact absurd h (Nat.not_lt_zero _)
    | succ n ih =>
      intro l hl
      have ih' : ∀ o, labels.count l < labels.count o →
          (o ∈ greedyOccupy P σ labels ↔ o ∈ greedyOccupy P σ' labels) := by
        intro o hlt
        have := List.count_le_length (a := o) (l := labels)
        exact ih o (by omega)
      exact ⟨greedy_mem_of_sorted_aux hn hσ hσ' hmem l ih',
        greedy_mem_of_sorted_aux hn hσ' hσ (fun l => (hmem l).symm) l
          (fun o h => (ih' o h).symm)⟩
  intro l
  exact main _ l (Nat.lt_succ_self _)

theorem greedy_perm_of_sorted {labels : List Label} (hn : noTiedConflicts P labels = true)
    {σ σ' : List Label}
    (hσ : CountSorted labels σ) (hσ' : CountSorted labels σ') (hmem : ∀ l, l ∈ σ ↔ l ∈ σ') :
    (greedyOccupy P σ labels).Perm (greedyOccupy P σ' labels) :=
  (List.perm_ext_iff_of_nodup (greedy_nodup' σ labels) (greedy_nodup' σ' labels)).mpr
    (greedy_mem_iff_of_sorted hn hσ hσ' hmem)

/-! ## the assembly sort -/

theorem lwLe_antisymm {a b : Label} (h1 : lwLe a b = true) (h2 : lwLe b a = true) :
    a.cis = b.cis ∧ a.e1 = b.e1 ∧ a.e2 = b.e2 := by
  unfold lwLe at h1 h2
  simp only [decide_eq_true_eq] at h1 h2
  have e := List.le_antisymm h1 h2
  simp only [List.map_cons, List.map_nil, List.cons.injEq, and_true, Char.toNat_inj] at e
  obtain ⟨e0, e1, e2⟩ := e
  refine ⟨?_, e1, e2⟩
  cases ha : a.cis <;> cases hb : b.cis <;> simp [ha, hb] at e0 <;> rfl

/-- the sort of the assembly stage removes the remaining order dependence when different residues have
different ranks -/
theorem assemble_eq_of_perm (rank : Nat → Nat) {l₁ l₂ : List Label}
    (hinj : ∀ a ∈ l₁, ∀ b ∈ l₁, rank a.lo = rank b.lo → rank a.hi = rank b.hi →
      a.lo = b.lo ∧ a.hi = b.hi)
    (hp : l₁.Perm l₂) : assemble rank l₁ = assemble rank l₂ := by
  refine List.Perm.eq_of_pairwise (le := fun a b => labelLe rank a b = true) ?_
    (assemble_sorted rank l₁) (assemble_sorted rank l₂)
    ((assemble_perm rank l₁).trans (hp.trans (assemble_perm rank l₂).symm))
  intro a b ha hb hab hba
  have ha' : a ∈ l₁ := (assemble_perm rank l₁).mem_iff.mp ha
  have hb' : b ∈ l₁ := hp.mem_iff.mpr ((assemble_perm rank l₂).mem_iff.mp hb)
  unfold labelLe at hab hba
  simp only [Bool.or_eq_true, Bool.and_eq_true, decide_eq_true_eq, beq_iff_eq] at hab hba
  have hlo : rank a.lo = rank b.lo := by
    rcases hab with h | ⟨h, _⟩ <;> rcases hba with g | ⟨g, _⟩ <;> omega
  have hrest : rank a.hi = rank b.hi ∧ lwLe a b = true ∧ lwLe b a = true := by
    rcases hab with h | ⟨_, h | ⟨h, h'⟩⟩ <;> rcases hba with g | ⟨_, g | ⟨g, g'⟩⟩ <;>
      first | omega | exact ⟨h, h', g'⟩
  obtain ⟨e1, e2⟩ := hinj a ha' b hb' hlo hrest.1
  obtain ⟨e3, e4, e5⟩ := lwLe_antisymm hrest.2.1 hrest.2.2
  cases a; cases b
  simp only at e1 e2 e3 e4 e5
  subst e1 e2 e3 e4 e5
  rfl

/-- **greedy tie-break independence** -/
theorem greedy_order_independent {labels : List Label} (hn : noTiedConflicts P labels = true)
    {σ σ' : List Label}
    (hσ : CountSorted labels σ) (hσ' : CountSorted labels σ') (hmem : ∀ l, l ∈ σ ↔ l ∈ σ')
    (rank : Nat → Nat) (hinj : ∀ i j, rank i = rank j → i = j) :
    assemble rank (greedyOccupy P σ labels) = assemble rank (greedyOccupy P σ' labels) :=
  assemble_eq_of_perm rank (fun _ _ _ _ h1 h2 => ⟨hinj _ _ h1, hinj _ _ h2⟩)
    (greedy_perm_of_sorted hn hσ hσ' hmem)

theorem greedyOccupy_congr_count {labels labels' : List Label}
    (hc : ∀ l, labels'.count l = labels.count l) (σ : List Label) :
    greedyOccupy P σ labels' = greedyOccupy P σ labels := by
  have : occStep P labels' = occStep P labels := by
    funext st l
    unfold occStep
    rw [hc l]
  unfold greedyOccupy
  rw [this]

/-- the base pairs do not depend on the order in which the hydrogen bonds arrive -/
theorem pairs_independent_of_arrival_order {labels labels' : List Label} (hp : labels.Perm labels')
    (hn : noTiedConflicts P labels = true) (rank : Nat → Nat) (hinj : ∀ i j, rank i = rank j → i = j) :
    assemble rank (greedyOccupy P (mostCommonOrder labels) labels) =
      assemble rank (greedyOccupy P (mostCommonOrder labels') labels') := by
  have hc : ∀ l, labels'.count l = labels.count l := fun l => (hp.count_eq l).symm
  rw [greedyOccupy_congr_count hc]
  have hσ' : CountSorted labels (mostCommonOrder labels') := by
    obtain ⟨a, b, c⟩ := mostCommon_countSorted labels'
    refine ⟨a, fun l h => hp.mem_iff.mpr (b l h), c.imp ?_⟩
    intro x y h
    rw [← hc x, ← hc y]; exact h
  refine greedy_order_independent hn (mostCommon_countSorted labels) hσ' ?_ rank hinj
  intro l
  rw [mem_mostCommonOrder, mem_mostCommonOrder]
  exact hp.mem_iff

/-! ## sanity examples -/

/-- a tie among non-conflicting labels is allowed -/
example : noTiedConflicts Params.gen
    [⟨0, 5, true, 'W', 'W'⟩, ⟨0, 5, true, 'W', 'W'⟩, ⟨1, 4, true, 'W', 'W'⟩, ⟨1, 4, true, 'W', 'W'⟩]
    = true := by decide +kernel

/-- with a tied conflict, two count-sorted orders give different results -/
example :
    let a : Label := ⟨0, 5, true, 'W', 'W'⟩
    let b : Label := ⟨0, 7, true, 'W', 'H'⟩
    let labels := [a, a, b, b]
    noTiedConflicts Params.gen labels = false ∧
      greedyOccupy Params.gen [a, b] labels = [a] ∧ greedyOccupy Params.gen [b, a] labels = [b] := by
  decide +kernel

end RnaVerif.Pairs

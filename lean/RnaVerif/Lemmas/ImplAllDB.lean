import RnaVerif.Lemmas.ImplDfs
import RnaVerif.Lemmas.ImplGreedy
import RnaVerif.Lemmas.AllDBStrings
/-! # the step-by-step model of `all_dot_brackets` returns, for every iteration order of every set it
iterates, a permutation of what the specification model `allDB` returns
(helper lemmas for C16Impl; core Lean only) -/
namespace RnaVerif.SecStr.Impl
open RnaVerif.SecStr.AllDB

/-! ### list helpers -/

theorem mapM_ok_of_forall {ε α β} (f : α → Except ε β) (h : α → β) : ∀ (l : List α),
    (∀ a ∈ l, f a = .ok (h a)) → l.mapM f = .ok (l.map h) := by
  intro l
  induction l with
  | nil => intro _; rfl
  | cons a as ih =>
    intro hl
    rw [List.mapM_cons, hl a (by simp), ih (fun x hx => hl x (List.mem_cons_of_mem _ hx))]
    rfl

theorem mapM_ok_or_error {ε α β} (f : α → Except ε β) : ∀ (l : List α),
    (∃ r, l.mapM f = .ok r ∧ All2 (fun a b => f a = .ok b) l r) ∨
    (∃ a ∈ l, ∃ e, f a = .error e ∧ l.mapM f = .error e) := by
  intro l
  induction l with
  | nil => exact Or.inl ⟨[], rfl, All2.nil⟩
  | cons a as ih =>
    rw [List.mapM_cons]
    cases hfa : f a with
    | error e => exact Or.inr ⟨a, by simp, e, hfa, rfl⟩
    | ok b =>
      rcases ih with ⟨r, h1, h2⟩ | ⟨x, hx, e, h1, h2⟩
      · exact Or.inl ⟨b :: r, by rw [h1]; rfl, All2.cons hfa h2⟩
      · exact Or.inr ⟨x, List.mem_cons_of_mem _ hx, e, h1, by rw [h2]; rfl⟩

theorem _root_.RnaVerif.SecStr.AllDB.All2.comp {α β γ} {R : α → β → Prop} {S : β → γ → Prop} : ∀ {as : List α} {bs : List β}
    {cs : List γ}, All2 R as bs → All2 S bs cs → All2 (fun a c => ∃ b, b ∈ bs ∧ R a b ∧ S b c) as cs := by
  intro as bs cs h
  induction h generalizing cs with
  | nil => intro h2; cases h2; exact All2.nil
  | cons h1 _ ih =>
    intro h2
    cases h2 with
    | cons k1 k2 =>
      refine All2.cons ⟨_, by simp, h1, k1⟩ ?_
      exact (ih k2).imp (fun a c ⟨b, hb, r, s⟩ => ⟨b, List.mem_cons_of_mem _ hb, r, s⟩)

theorem _root_.RnaVerif.SecStr.AllDB.All2.flip {α β} {R : α → β → Prop} : ∀ {as : List α} {bs : List β},
    All2 R as bs → All2 (fun b a => R a b) bs as := by
  intro as bs h
  induction h with
  | nil => exact All2.nil
  | cons h1 _ ih => exact All2.cons h1 ih

theorem _root_.RnaVerif.SecStr.AllDB.All2.map_left {α β γ} {R : γ → β → Prop} (f : α → γ) : ∀ {as : List α} {bs : List β},
    All2 (fun a b => R (f a) b) as bs → All2 R (as.map f) bs := by
  intro as bs h
  induction h with
  | nil => exact All2.nil
  | cons h1 _ ih => exact All2.cons h1 ih

theorem _root_.RnaVerif.SecStr.AllDB.All2.map_both {α β γ δ} {R : γ → δ → Prop} (f : α → γ) (k : β → δ) :
    ∀ {as : List α} {bs : List β}, All2 (fun a b => R (f a) (k b)) as bs → All2 R (as.map f) (bs.map k) := by
  intro as bs h
  induction h with
  | nil => exact All2.nil
  | cons h1 _ ih => exact All2.cons h1 ih

theorem _root_.RnaVerif.SecStr.AllDB.All2.refl_of {α} {R : α → α → Prop} : ∀ (l : List α), (∀ a ∈ l, R a a) → All2 R l l := by
  intro l
  induction l with
  | nil => intro _; exact All2.nil
  | cons a as ih => intro h; exact All2.cons (h a (by simp)) (ih fun x hx => h x (List.mem_cons_of_mem _ hx))

theorem all2_perm_flatten {α} : ∀ {as bs : List (List α)}, All2 List.Perm as bs →
    as.flatten.Perm bs.flatten := by
  intro as bs h
  induction h with
  | nil => exact List.Perm.refl _
  | cons h1 _ ih => simp only [List.flatten_cons]; exact List.Perm.append h1 ih

theorem flatten_nodup_unique {α} : ∀ {ps : List (List α)}, ps.flatten.Nodup → ∀ {p q : List α},
    p ∈ ps → q ∈ ps → ∀ {v : α}, v ∈ p → v ∈ q → p = q := by
  intro ps
  induction ps with
  | nil => intro _ p q hp; cases hp
  | cons r rs ih =>
    intro hnd p q hp hq v hvp hvq
    rw [List.flatten_cons, List.nodup_append] at hnd
    rcases List.mem_cons.mp hp with rfl | hp' <;> rcases List.mem_cons.mp hq with rfl | hq'
    · rfl
    · exact absurd rfl (hnd.2.2 v hvp v (List.mem_flatten.mpr ⟨q, hq', hvq⟩))
    · exact absurd rfl (hnd.2.2 v hvq v (List.mem_flatten.mpr ⟨p, hp', hvp⟩))
    · exact ih hnd.2.1 hp' hq' hvp hvq

theorem flatten_nodup_part {α} {ps : List (List α)} (h : ps.flatten.Nodup) {p : List α} (hp : p ∈ ps) :
    p.Nodup := by
  rw [List.Nodup, List.pairwise_flatten] at h
  exact h.1 p hp

/-! ### `keysOf` -/

theorem mem_keysOf {n : Nat} {comp : List Nat} {v : Nat} : v ∈ keysOf n comp ↔ v < n ∧ v ∈ comp := by
  simp [keysOf, List.mem_filter]

theorem keysOf_nodup (n : Nat) (comp : List Nat) : (keysOf n comp).Nodup :=
  List.Nodup.sublist List.filter_sublist List.nodup_range

theorem keysOf_perm {n : Nat} {comp : List Nat} (hnd : comp.Nodup) (hlt : ∀ v ∈ comp, v < n) :
    (keysOf n comp).Perm comp := by
  rw [List.perm_ext_iff_of_nodup (keysOf_nodup n comp) hnd]
  intro v
  rw [mem_keysOf]
  exact ⟨fun h => h.2, fun h => ⟨hlt v h, h⟩⟩

theorem keysOf_congr {n : Nat} {c c' : List Nat} (h : ∀ v, v ∈ c ↔ v ∈ c') : keysOf n c = keysOf n c' := by
  unfold keysOf
  apply List.filter_congr
  intro v _
  have := h v
  by_cases hv : v ∈ c
  · simp [hv, this.mp hv]
  · have hv' : v ∉ c' := fun k => hv (this.mpr k)
    simp [hv, hv']

/-! ### the set `unique[i]` of one component -/

/-- `unique[i]` as the model computes it (members in first-insertion order) -/
def uniqueSet (adj : Nat → Nat → Bool) (n : Nat) (comp : List Nat) : List (List (Nat × Nat)) :=
  dedupFirst ((perms comp).map (fun π => (keysOf n comp).map (fun v => (v, lookup (greedy adj π) v))))

/-- the loop over the permutations of one component never raises -/
theorem uniqueOf_eq (g : Graph) (adj : Nat → Nat → Bool)
    (hadj : ∀ u v, (nbrs g v).contains u = adj u v) (n : Nat) (comp : List Nat) (hnd : comp.Nodup) :
    uniqueOf g n comp = .ok (uniqueSet adj n comp) := by
  unfold uniqueOf uniqueSet
  rw [mapM_ok_of_forall _ (fun π => (keysOf n comp).map (fun v => (v, lookup (greedy adj π) v)))]
  · rfl
  · intro π hπ
    obtain ⟨orders, h1, _, h3⟩ := permOrders_spec g adj hadj comp π hnd (mem_perms.mp hπ)
    rw [h1]
    simp only [Except.map, frozenItems]
    congr 1
    apply List.map_congr_left
    intro v _
    rw [h3 v]

theorem mem_uniqueSet {adj : Nat → Nat → Bool} {n : Nat} {comp : List Nat} {a : List (Nat × Nat)} :
    a ∈ uniqueSet adj n comp ↔
      ∃ π, π.Perm comp ∧ a = (keysOf n comp).map (fun v => (v, lookup (greedy adj π) v)) := by
  unfold uniqueSet
  rw [mem_dedupFirst, List.mem_map]
  constructor
  · rintro ⟨π, hπ, rfl⟩; exact ⟨π, mem_perms.mp hπ, rfl⟩
  · rintro ⟨π, hπ, rfl⟩; exact ⟨π, mem_perms.mpr hπ, rfl⟩

/-- as a set, `unique[i]` is the set of greedy assignments of the component's keys -/
theorem mem_uniqueSet_iff_partAssignments {adj : Nat → Nat → Bool} {n : Nat} {comp : List Nat}
    (hnd : comp.Nodup) (hlt : ∀ v ∈ comp, v < n) (a : List (Nat × Nat)) :
    a ∈ uniqueSet adj n comp ↔ a ∈ partAssignments adj (keysOf n comp) := by
  have hk := keysOf_perm hnd hlt
  rw [mem_uniqueSet]
  unfold partAssignments
  rw [mem_dedupFirst, List.mem_map]
  constructor
  · rintro ⟨π, hπ, rfl⟩
    exact ⟨π, mem_perms.mpr (hπ.trans hk.symm), rfl⟩
  · rintro ⟨π, hπ, rfl⟩
    exact ⟨π, (mem_perms.mp hπ).trans hk, rfl⟩

theorem uniqueSet_nodup (adj : Nat → Nat → Bool) (n : Nat) (comp : List Nat) :
    (uniqueSet adj n comp).Nodup := dedupFirst_nodup _

/-- the *set* does not depend on the order inside the component -/
theorem uniqueSet_perm {adj : Nat → Nat → Bool} {n : Nat} {c c' : List Nat} (h : c.Perm c') :
    (uniqueSet adj n c).Perm (uniqueSet adj n c') := by
  rw [List.perm_ext_iff_of_nodup (uniqueSet_nodup _ _ _) (uniqueSet_nodup _ _ _)]
  intro a
  rw [mem_uniqueSet, mem_uniqueSet, keysOf_congr (fun v => h.mem_iff)]
  constructor
  · rintro ⟨π, hπ, rfl⟩; exact ⟨π, hπ.trans h, rfl⟩
  · rintro ⟨π, hπ, rfl⟩; exact ⟨π, hπ.trans h.symm, rfl⟩

/-! ### the components as parts -/

theorem partsOK_of_components (c : ConfPred) (regs : List Region) (cs : List (List Nat))
    (h : ComponentsOK (buildGraph c regs) cs) :
    PartsOK (adjOf c regs) regs.length (cs.map (keysOf regs.length)) ∧
    (∀ p ∈ cs, p.Nodup ∧ ∀ v ∈ p, v < regs.length) := by
  obtain ⟨g1, _, g3⟩ := buildGraph_spec c regs
  have hfnd : cs.flatten.Nodup := (List.Perm.nodup_iff h.perm).mpr g3
  have hpart : ∀ p ∈ cs, p.Nodup ∧ ∀ v ∈ p, v < regs.length := by
    intro p hp
    refine ⟨flatten_nodup_part hfnd hp, ?_⟩
    intro v hv
    have : v ∈ vertices (buildGraph c regs) := h.perm.subset (List.mem_flatten.mpr ⟨p, hp, hv⟩)
    exact ((mem_vertices_iff_degree c regs v).mp this).1
  refine ⟨⟨?_, ?_, ?_⟩, hpart⟩
  · intro p hp q hq hne u hu v hv
    obtain ⟨c1, hc1, rfl⟩ := List.mem_map.mp hp
    obtain ⟨c2, hc2, rfl⟩ := List.mem_map.mp hq
    cases ha : adjOf c regs u v
    · rfl
    · exfalso
      have hu1 := (mem_keysOf.mp hu).2
      have hv2 := (mem_keysOf.mp hv).2
      have hv1 : v ∈ c1 := h.closed c1 hc1 u hu1 v ((g1 u v).mpr ha)
      have := flatten_nodup_unique hfnd hc1 hc2 hv1 hv2
      exact hne (by rw [this])
  · intro v
    rw [← mem_vertices_iff_degree c regs v]
    constructor
    · intro hv
      obtain ⟨p, hp, hvp⟩ := List.mem_flatten.mp hv
      obtain ⟨c1, hc1, rfl⟩ := List.mem_map.mp hp
      exact h.perm.subset (List.mem_flatten.mpr ⟨c1, hc1, (mem_keysOf.mp hvp).2⟩)
    · intro hv
      obtain ⟨c1, hc1, hv1⟩ := List.mem_flatten.mp (h.perm.symm.subset hv)
      exact List.mem_flatten.mpr ⟨keysOf regs.length c1, List.mem_map_of_mem hc1,
        mem_keysOf.mpr ⟨(hpart c1 hc1).2 v hv1, hv1⟩⟩
  · have hA : All2 List.Perm (cs.map (keysOf regs.length)) cs := by
      apply All2.map_left
      apply All2.refl_of
      intro p hp
      exact keysOf_perm (hpart p hp).1 (hpart p hp).2
    exact (List.Perm.nodup_iff (all2_perm_flatten hA)).mpr hfnd

/-! ### tuples of per-part assignments ↔ Grundy colourings, for arbitrary closed parts -/

theorem mem_product_levels (adj : Nat → Nat → Bool) (hs : ∀ u v, adj u v = adj v u)
    (hi : ∀ u, adj u u = false) (n : Nat) (ps : List (List Nat)) (hok : PartsOK adj n ps)
    (Us : List (List (List (Nat × Nat))))
    (hU : All2 (fun U p => ∀ a, a ∈ U ↔ a ∈ partAssignments adj p) Us ps) (lv : List Nat) :
    lv ∈ (product Us).map (levelsOfAssignment n) ↔ lv.length = n ∧ grundy adj lv = true := by
  rw [List.mem_map]
  constructor
  · rintro ⟨a, ha, rfl⟩
    refine ⟨levelsOfAssignment_length n a, ?_⟩
    have hA := (mem_product.mp ha).comp hU
    apply levels_of_product_grundy adj hs n ps hok a
    apply hA.imp_mem
    intro x _ p hp hx
    obtain ⟨U, _, h1, h2⟩ := hx
    exact (partAssignments_exact adj hs hi p (hok.part_nodup hp) x).mp ((h2 x).mp h1)
  · rintro ⟨hlen, hg⟩
    rw [grundy_product adj hs n ps hok lv hlen] at hg
    refine ⟨ps.map (fun p => p.map (fun v => (v, lv.getD v 0))), ?_, ?_⟩
    · rw [mem_product]
      apply All2.map_left
      apply hU.flip.imp_mem
      intro p hp U _ h
      exact (h _).mpr ((partAssignments_exact adj hs hi p (hok.part_nodup hp) _).mpr ⟨_, hg.1 p hp, rfl⟩)
    · apply List.ext_getElem
      · rw [levelsOfAssignment_length, hlen]
      · intro i h1 h2
        have hi' : i < n := by rw [← hlen]; exact h2
        have e1 : (levelsOfAssignment n (ps.map
            (fun p => p.map (fun v => (v, lv.getD v 0)))))[i] = lookup
              (ps.flatten.map (fun v => (v, lv.getD v 0))) i := by
          simp [levelsOfAssignment]
        have e2 : lv[i] = lv.getD i 0 := by
          simp [List.getD_eq_getElem?_getD, h2]
        rw [e1, e2]
        by_cases hm : i ∈ ps.flatten
        · exact lookup_map _ hm
        · rw [lookup_of_not_mem (by simpa [List.map_map, Function.comp_def] using hm)]
          symm
          apply hg.2 i hi'
          apply Nat.eq_zero_of_not_pos
          intro hp
          exact hm ((hok.mem_iff i).mpr ⟨hi', hp⟩)

/-! ### `orders.update(…)` -/

theorem updateOrders_length (items : List (Nat × Nat)) : ∀ (o : List Nat),
    (updateOrders o items).length = o.length := by
  induction items with
  | nil => intro o; rfl
  | cons p ps ih =>
    intro o
    simp only [updateOrders, List.foldl_cons] at ih ⊢
    rw [ih, List.length_set]

/-- with distinct keys, updating is "look the key up among the items, else keep" — in particular it
does not depend on the order of the items -/
theorem updateOrders_getD (items : List (Nat × Nat)) (hnd : (items.map (·.1)).Nodup) :
    ∀ (o : List Nat) (v : Nat), v < o.length →
      (updateOrders o items).getD v 0 =
        if v ∈ items.map (·.1) then lookup items v else o.getD v 0 := by
  induction items with
  | nil => intro o v _; simp [updateOrders]
  | cons p ps ih =>
    intro o v hv
    simp only [List.map_cons, List.nodup_cons] at hnd
    have := ih hnd.2 (o.set p.1 p.2) v (by rw [List.length_set]; exact hv)
    simp only [updateOrders, List.foldl_cons] at this ⊢
    rw [this, lookup_cons]
    simp only [List.map_cons, List.mem_cons]
    by_cases e : p.1 = v
    · subst e
      have h1 : p.1 ∉ ps.map (·.1) := hnd.1
      simp only [h1, if_false, true_or, if_true]
      rw [List.getD_eq_getElem?_getD, List.getElem?_set]
      simp [hv]
    · have e' : ¬ v = p.1 := fun k => e k.symm
      simp only [e, e', false_or, if_false]
      by_cases hm : v ∈ ps.map (·.1)
      · simp only [hm, if_true]
      · simp only [hm, if_false]
        rw [List.getD_eq_getElem?_getD, List.getD_eq_getElem?_getD, List.getElem?_set]
        simp [e]

theorem assemble_foldl (ρ : List (Nat × Nat) → List (Nat × Nat)) : ∀ (a : List (List (Nat × Nat)))
    (o : List Nat), a.foldl (fun o fs => updateOrders o (ρ fs)) o = updateOrders o (a.map ρ).flatten := by
  intro a
  induction a with
  | nil => intro o; rfl
  | cons x xs ih =>
    intro o
    rw [List.foldl_cons, ih]
    simp only [List.map_cons, List.flatten_cons, updateOrders, List.foldl_append]

/-- **the assembled `orders` is the look-up in the tuple of assignments** whenever the keys of the tuple
are distinct — whatever order `ρ` each frozenset is iterated in -/
theorem assemble_eq (n : Nat) (ρ : List (Nat × Nat) → List (Nat × Nat)) (hρ : ∀ l, (ρ l).Perm l)
    (a : List (List (Nat × Nat))) (hnd : (a.flatten.map (·.1)).Nodup) :
    assemble n ρ a = levelsOfAssignment n a := by
  have hperm : ((a.map ρ).flatten).Perm a.flatten := by
    apply all2_perm_flatten
    apply All2.map_left
    apply All2.refl_of
    intro x _; exact hρ x
  have hnd' : (((a.map ρ).flatten).map (·.1)).Nodup :=
    (List.Perm.nodup_iff (hperm.map _)).mpr hnd
  unfold assemble
  rw [assemble_foldl]
  apply List.ext_getElem
  · rw [updateOrders_length, List.length_replicate, levelsOfAssignment_length]
  · intro i h1 h2
    rw [updateOrders_length, List.length_replicate] at h1
    have e1 : (updateOrders (List.replicate n 0) (a.map ρ).flatten)[i] =
        (updateOrders (List.replicate n 0) (a.map ρ).flatten).getD i 0 := by
      simp [List.getD_eq_getElem?_getD, updateOrders_length, h1]
    have e2 : (levelsOfAssignment n a)[i] = lookup a.flatten i := by
      simp [levelsOfAssignment]
    rw [e1, e2, updateOrders_getD _ hnd' _ i (by rw [List.length_replicate]; exact h1)]
    by_cases hm : i ∈ ((a.map ρ).flatten).map (·.1)
    · simp only [hm, if_true]
      obtain ⟨p, hp, e⟩ := List.mem_map.mp hm
      have hp' : (i, p.2) ∈ (a.map ρ).flatten := by rw [← e]; exact hp
      rw [lookup_of_mem hnd' hp', lookup_of_mem hnd (hperm.subset hp')]
    · simp only [hm, if_false]
      have hm' : i ∉ a.flatten.map (·.1) := fun k => hm ((hperm.map _).symm.subset k)
      rw [lookup_of_not_mem hm']
      simp [List.getD_eq_getElem?_getD, h1]

/-! ### `iterFrom` -/

theorem iterFrom_perm (τ : Nat → List (List (Nat × Nat)) → List (List (Nat × Nat)))
    (hτ : ∀ i l, (τ i l).Perm l) : ∀ (Us : List (List (List (Nat × Nat)))) (i : Nat),
    All2 List.Perm (iterFrom τ i Us) Us := by
  intro Us
  induction Us with
  | nil => intro i; exact All2.nil
  | cons U Us ih => intro i; exact All2.cons (hτ i U) (ih (i + 1))

theorem all2_perm_trans {α} : ∀ {as bs cs : List (List α)}, All2 List.Perm as bs → All2 List.Perm bs cs →
    All2 List.Perm as cs := by
  intro as bs cs h
  induction h generalizing cs with
  | nil => intro h2; cases h2; exact All2.nil
  | cons h1 _ ih => intro h2; cases h2 with | cons k1 k2 => exact All2.cons (h1.trans k1) (ih k2)

theorem all2_perm_symm {α} : ∀ {as bs : List (List α)}, All2 List.Perm as bs → All2 List.Perm bs as := by
  intro as bs h
  induction h with
  | nil => exact All2.nil
  | cons h1 _ ih => exact All2.cons h1.symm ih

/-! ### results up to order -/

/-- both fail with the same error, or both succeed with lists that are permutations of each other -/
def SameAsSet {α} (x y : Except Err (List α)) : Prop :=
  match x, y with
  | .ok L, .ok L' => L.Perm L'
  | .error e, .error e' => e = e'
  | _, _ => False

theorem SameAsSet.refl {α} (x : Except Err (List α)) : SameAsSet x x := by
  cases x with
  | ok L => exact List.Perm.refl L
  | error e => exact rfl

theorem SameAsSet.symm {α} {x y : Except Err (List α)} (h : SameAsSet x y) : SameAsSet y x := by
  cases x <;> cases y <;> simp only [SameAsSet] at h ⊢
  · exact h.symm
  · exact List.Perm.symm h

theorem SameAsSet.trans {α} {x y z : Except Err (List α)} (h1 : SameAsSet x y) (h2 : SameAsSet y z) :
    SameAsSet x z := by
  cases x <;> cases y <;> cases z <;> simp only [SameAsSet] at h1 h2 ⊢
  · exact h1.trans h2
  · exact List.Perm.trans h1 h2

theorem mapM_dedup_sameAsSet {α β} [BEq β] [LawfulBEq β] (f : α → Except Err β)
    (herr : ∀ a b e e', f a = .error e → f b = .error e' → e = e') (l l' : List α)
    (hmem : ∀ x, x ∈ l ↔ x ∈ l') :
    SameAsSet ((l.mapM f).map dedupFirst) ((l'.mapM f).map dedupFirst) := by
  rcases mapM_ok_or_error f l with ⟨r, h1, h2⟩ | ⟨a, ha, e, h1, h2⟩ <;>
    rcases mapM_ok_or_error f l' with ⟨r', k1, k2⟩ | ⟨a', ha', e', k1, k2⟩
  · rw [h1, k1]
    simp only [Except.map, SameAsSet]
    rw [List.perm_ext_iff_of_nodup (dedupFirst_nodup _) (dedupFirst_nodup _)]
    intro y
    rw [mem_dedupFirst, mem_dedupFirst]
    constructor
    · intro hy
      obtain ⟨x, hx, hfx⟩ := h2.exists_left y hy
      obtain ⟨y', hy', hfx'⟩ := k2.exists_right x ((hmem x).mp hx)
      rw [hfx] at hfx'; cases hfx'; exact hy'
    · intro hy
      obtain ⟨x, hx, hfx⟩ := k2.exists_left y hy
      obtain ⟨y', hy', hfx'⟩ := h2.exists_right x ((hmem x).mpr hx)
      rw [hfx] at hfx'; cases hfx'; exact hy'
  · exfalso
    obtain ⟨y, _, hy⟩ := h2.exists_right a' ((hmem a').mpr ha')
    rw [k1] at hy; cases hy
  · exfalso
    obtain ⟨y, _, hy⟩ := k2.exists_right a ((hmem a).mp ha)
    rw [h1] at hy; cases hy
  · rw [h2, k2]
    simp only [Except.map, SameAsSet]
    exact herr a a' e e' h1 k1

theorem mkDB_error (n : Nat) (regs : List Region) (lvs : List Nat) (e : Err)
    (h : mkDB n regs lvs = .error e) : e = .indexError := by
  unfold mkDB at h
  split at h
  · cases h; rfl
  · split at h
    · cases h; rfl
    · cases h

/-! ### the main comparison -/

/-- the ρ-free, σ-free tail of the algorithm: what is returned once the iteration orders `U` of the
sets `unique[i]` are fixed -/
def finishSpec (es : List Entry) (U : List (List (List (Nat × Nat)))) : Except Err (List (List Char)) :=
  (((product U).map (levelsOfAssignment (regions es).length)).mapM
    (mkDB es.length (regions es))).map dedupFirst

/-- the iteration orders of the sets `unique[0]`, `unique[1]`, …: the only thing the order of the
returned list depends on -/
def iterSets (σ : Nat → List Nat → List Nat)
    (τ : Nat → List (List (Nat × Nat)) → List (List (Nat × Nat))) (es : List Entry) :
    List (List (List (Nat × Nat))) :=
  iterFrom τ 0 ((components (buildGraph Gen.conflictAll (regions es)) σ).map
    (uniqueSet (adjOf Gen.conflictAll (regions es)) (regions es).length))

theorem hadj_build (c : ConfPred) (regs : List Region) :
    ∀ u v, (nbrs (buildGraph c regs) v).contains u = adjOf c regs u v := by
  intro u v
  have := (buildGraph_spec c regs).1 v u
  rw [adjOf_symm] at this
  cases h : adjOf c regs u v
  · cases h2 : (nbrs (buildGraph c regs) v).contains u
    · rfl
    · rw [List.contains_iff_mem] at h2
      rw [this.mp h2] at h; cases h
  · rw [List.contains_iff_mem]; exact this.mpr h

/-- facts shared by the theorems below -/
theorem iterSets_facts (σ : Nat → List Nat → List Nat) (hσ : ∀ v l, (σ v l).Perm l)
    (τ : Nat → List (List (Nat × Nat)) → List (List (Nat × Nat))) (hτ : ∀ i l, (τ i l).Perm l)
    (es : List Entry) :
    let adj := adjOf Gen.conflictAll (regions es)
    let n := (regions es).length
    let cs := components (buildGraph Gen.conflictAll (regions es)) σ
    PartsOK adj n (cs.map (keysOf n)) ∧
    All2 (fun U p => ∀ a, a ∈ U ↔ a ∈ partAssignments adj p) (iterSets σ τ es) (cs.map (keysOf n)) ∧
    cs.mapM (uniqueOf (buildGraph Gen.conflictAll (regions es)) n) = .ok (cs.map (uniqueSet adj n)) := by
  intro adj n cs
  have hC := components_ok _ σ (graphHyp_build Gen.conflictAll (regions es) σ hσ)
  obtain ⟨hok, hpart⟩ := partsOK_of_components Gen.conflictAll (regions es) cs hC
  refine ⟨hok, ?_, ?_⟩
  · have h1 := iterFrom_perm τ hτ (cs.map (uniqueSet adj n)) 0
    have h2 : All2 (fun U p => ∀ a, a ∈ U ↔ a ∈ partAssignments adj p)
        (cs.map (uniqueSet adj n)) (cs.map (keysOf n)) := by
      apply All2.map_both
      apply All2.refl_of
      intro p hp a
      exact mem_uniqueSet_iff_partAssignments (hpart p hp).1 (hpart p hp).2 a
    have := h1.comp h2
    apply this.imp
    intro V p ⟨U, _, hVU, hUp⟩ a
    rw [hVU.mem_iff]; exact hUp a
  · apply mapM_ok_of_forall
    intro p hp
    exact uniqueOf_eq _ adj (hadj_build Gen.conflictAll (regions es)) n p (hpart p hp).1

/-- keys of a tuple drawn from the product are the parts, hence distinct -/
theorem product_keys_nodup {adj : Nat → Nat → Bool} {n : Nat} {ps : List (List Nat)}
    (hok : PartsOK adj n ps) {Us : List (List (List (Nat × Nat)))}
    (hU : All2 (fun U p => ∀ a, a ∈ U ↔ a ∈ partAssignments adj p) Us ps)
    {a : List (List (Nat × Nat))} (ha : a ∈ product Us) : (a.flatten.map (·.1)).Nodup := by
  have hA := (mem_product.mp ha).comp hU
  have hkeys : a.flatten.map (·.1) = ps.flatten := by
    rw [List.map_flatten]
    congr 1
    have := All2.map_eq (fun x : List (Nat × Nat) => x.map (·.1)) (fun p : List Nat => p)
      (hA.imp (fun x p h => by
        obtain ⟨U, _, h1, h2⟩ := h
        have hx := (h2 x).mp h1
        unfold partAssignments at hx
        rw [mem_dedupFirst, List.mem_map] at hx
        obtain ⟨π, _, rfl⟩ := hx
        simp [List.map_map, Function.comp_def]))
    simpa using this
  rw [hkeys]; exact hok.nodup

/-- **when the conflict graph is not empty the result is `finishSpec` of the iteration orders of the sets
`unique[i]`** — no other trace of σ, none of ρ -/
theorem impl_eq_finishSpec (σ : Nat → List Nat → List Nat) (hσ : ∀ v l, (σ v l).Perm l)
    (τ : Nat → List (List (Nat × Nat)) → List (List (Nat × Nat))) (hτ : ∀ i l, (τ i l).Perm l)
    (ρ : List (Nat × Nat) → List (Nat × Nat)) (hρ : ∀ l, (ρ l).Perm l) (es : List Entry)
    (hne : (vertices (buildGraph Gen.conflictAll (regions es))).isEmpty = false) :
    allDBImpl σ τ ρ es = finishSpec es (iterSets σ τ es) := by
  obtain ⟨hok, hU, hM⟩ := iterSets_facts σ hσ τ hτ es
  unfold allDBImpl
  simp only [hne, Bool.false_eq_true, if_false, hM]
  unfold finishWith finishSpec iterSets
  simp only
  congr 2
  apply List.map_congr_left
  intro a ha
  exact assemble_eq _ ρ hρ a (product_keys_nodup hok hU ha)

/-- **main comparison**: for all iteration orders the step-by-step model and the specification model
agree up to the order of the returned list (and fail together, with the same error) -/
theorem impl_sameAsSet (σ : Nat → List Nat → List Nat) (hσ : ∀ v l, (σ v l).Perm l)
    (τ : Nat → List (List (Nat × Nat)) → List (List (Nat × Nat))) (hτ : ∀ i l, (τ i l).Perm l)
    (ρ : List (Nat × Nat) → List (Nat × Nat)) (hρ : ∀ l, (ρ l).Perm l) (es : List Entry) :
    SameAsSet (allDBImpl σ τ ρ es) (allDB es) := by
  cases hemp : (vertices (buildGraph Gen.conflictAll (regions es))).isEmpty with
  | true =>
    have h1 : allDBImpl σ τ ρ es = (fcfs es).map (fun s => [s]) := by
      unfold allDBImpl; simp only [hemp, if_true]
    have h2 : allDB es = (fcfs es).map (fun s => [s]) := by
      unfold allDB
      simp only
      rw [if_pos ((vertices_isEmpty_iff Gen.conflictAll (regions es)).mp hemp)]
    rw [h1, h2]; exact SameAsSet.refl _
  | false =>
    rw [impl_eq_finishSpec σ hσ τ hτ ρ hρ es hemp]
    obtain ⟨hok, hU, _⟩ := iterSets_facts σ hσ τ hτ es
    have h2 : allDB es = ((allLevels Gen.conflictAll (regions es)).mapM
        (mkDB es.length (regions es))).map dedupFirst := by
      unfold allDB
      simp only
      rw [if_neg]
      intro h
      rw [(vertices_isEmpty_iff Gen.conflictAll (regions es)).mpr h] at hemp; cases hemp
    rw [h2]
    unfold finishSpec
    apply mapM_dedup_sameAsSet
    · intro a b e e' h1 h2
      rw [mkDB_error _ _ _ _ h1, mkDB_error _ _ _ _ h2]
    · intro lv
      rw [mem_product_levels _ (adjOf_symm _ _) (adjOf_irrefl _ _) _ _ hok _ hU lv, allLevels_eq,
        mem_allLevelsOf _ (adjOf_symm _ _) (adjOf_irrefl _ _)]

/-- the sets `unique[i]` and their sequence do not depend on σ; `τ` only re-orders each of them -/
theorem iterSets_sigma_free (σ σ' : Nat → List Nat → List Nat) (hσ : ∀ v l, (σ v l).Perm l)
    (hσ' : ∀ v l, (σ' v l).Perm l)
    (τ τ' : Nat → List (List (Nat × Nat)) → List (List (Nat × Nat))) (hτ : ∀ i l, (τ i l).Perm l)
    (hτ' : ∀ i l, (τ' i l).Perm l) (es : List Entry) :
    All2 List.Perm (iterSets σ τ es) (iterSets σ' τ' es) := by
  have hC := components_sigma_free (buildGraph Gen.conflictAll (regions es)) σ σ'
    (graphHyp_build _ _ σ hσ) (graphHyp_build _ _ σ' hσ')
  have hmid : All2 List.Perm
      ((components (buildGraph Gen.conflictAll (regions es)) σ).map
        (uniqueSet (adjOf Gen.conflictAll (regions es)) (regions es).length))
      ((components (buildGraph Gen.conflictAll (regions es)) σ').map
        (uniqueSet (adjOf Gen.conflictAll (regions es)) (regions es).length)) := by
    apply All2.map_both
    exact hC.imp (fun c c' h => uniqueSet_perm h)
  unfold iterSets
  exact all2_perm_trans (iterFrom_perm τ hτ _ 0)
    (all2_perm_trans hmid (all2_perm_symm (iterFrom_perm τ' hτ' _ 0)))

end RnaVerif.SecStr.Impl

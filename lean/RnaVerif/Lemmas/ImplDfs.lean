import RnaVerif.Lemmas.ImplGraph
/-! # the iterative depth-first search of `all_dot_brackets` finds exactly the connected components,
whatever the iteration order `σ` of the neighbour sets (helper lemmas for C16Impl; core Lean only)

Invariant of the `while stack:` loop (root `r`, `V0` = vertices visited before `r` was pushed):
`visited = V0 ∪ comp`, `stack ⊆ comp`, every vertex of `comp` that is no longer on the stack has all
its neighbours visited, every vertex of `comp` is reachable from `r`, `comp` is duplicate-free and
disjoint from `V0`.  Measure: `2·#unvisited + len(stack)` drops by one in every turn. -/
namespace RnaVerif.SecStr.Impl
open RnaVerif.SecStr.AllDB

/-- reachability in the graph (reflexive–transitive closure of "is a member of `graph[·]`") -/
inductive Reach (g : Graph) : Nat → Nat → Prop
  | refl (u : Nat) : Reach g u u
  | step {u v w : Nat} : Reach g u v → w ∈ nbrs g v → Reach g u w

theorem Reach.trans {g : Graph} {u v w : Nat} (h1 : Reach g u v) (h2 : Reach g v w) : Reach g u w := by
  induction h2 with
  | refl => exact h1
  | step _ hw ih => exact Reach.step ih hw

theorem Reach.symm {g : Graph} (hsym : ∀ u w, w ∈ nbrs g u → u ∈ nbrs g w) {u v : Nat}
    (h : Reach g u v) : Reach g v u := by
  induction h with
  | refl => exact Reach.refl _
  | step _ hw ih => exact Reach.trans (Reach.step (Reach.refl _) (hsym _ _ hw)) ih

/-- hypotheses about the graph and the iteration order -/
structure GraphHyp (g : Graph) (σ : Nat → List Nat → List Nat) : Prop where
  sym : ∀ u w, w ∈ nbrs g u → u ∈ nbrs g w
  keys : ∀ u w, w ∈ nbrs g u → w ∈ vertices g
  nodup : (vertices g).Nodup
  perm : ∀ v l, (σ v l).Perm l

/-! ### counting unvisited vertices -/

def unvis (V visited : List Nat) : List Nat := V.filter (fun v => !visited.contains v)

theorem filter_length_le_of_imp {p q : Nat → Bool} (h : ∀ x, p x = true → q x = true) :
    ∀ l : List Nat, (l.filter p).length ≤ (l.filter q).length := by
  intro l
  induction l with
  | nil => simp
  | cons x xs ih =>
    rw [List.filter_cons, List.filter_cons]
    cases hp : p x
    · cases hq : q x
      · simpa using ih
      · simp only [Bool.false_eq_true, if_false, if_true, List.length_cons]; omega
    · rw [h x hp]
      simpa using ih

theorem filter_length_lt_of_imp {p q : Nat → Bool} (h : ∀ x, p x = true → q x = true) {w : Nat}
    (hq : q w = true) (hp : p w = false) :
    ∀ l : List Nat, w ∈ l → (l.filter p).length < (l.filter q).length := by
  intro l
  induction l with
  | nil => intro hw; cases hw
  | cons x xs ih =>
    intro hw
    have hle := filter_length_le_of_imp h xs
    rw [List.filter_cons, List.filter_cons]
    by_cases e : x = w
    · subst e
      rw [hq, hp]
      simp only [Bool.false_eq_true, if_false, if_true, List.length_cons]; omega
    · have hw' : w ∈ xs := by
        rcases List.mem_cons.mp hw with e' | e'
        · exact absurd e'.symm e
        · exact e'
      have := ih hw'
      cases hpx : p x
      · cases hqx : q x
        · simpa using this
        · simp only [Bool.false_eq_true, if_false, if_true, List.length_cons]; omega
      · rw [h x hpx]
        simpa using this

theorem unvis_cons_lt (V visited : List Nat) (w : Nat) (hw : w ∈ V) (hv : w ∉ visited) :
    (unvis V (w :: visited)).length < (unvis V visited).length := by
  unfold unvis
  apply filter_length_lt_of_imp (w := w) _ _ _ V hw
  · intro x hx
    have hx' : x ∉ w :: visited := by simpa using hx
    have : x ∉ visited := fun h => hx' (List.mem_cons_of_mem _ h)
    simpa using this
  · simpa using hv
  · simp

theorem unvis_length_le (V visited : List Nat) : (unvis V visited).length ≤ V.length :=
  List.length_filter_le _ _

theorem nextUnvisited_some {visited order : List Nat} {w : Nat}
    (h : nextUnvisited visited order = some w) : w ∈ order ∧ w ∉ visited := by
  unfold nextUnvisited at h
  refine ⟨List.mem_of_find?_eq_some h, ?_⟩
  have := List.find?_some h
  simpa using this

theorem nextUnvisited_none {visited order : List Nat}
    (h : nextUnvisited visited order = none) : ∀ w ∈ order, w ∈ visited := by
  unfold nextUnvisited at h
  intro w hw
  have := List.find?_eq_none.mp h w hw
  simpa using this

/-! ### the `while stack:` loop -/

structure Inv (g : Graph) (V0 : List Nat) (r : Nat) (stack visited comp : List Nat) : Prop where
  vis : ∀ x, x ∈ visited ↔ x ∈ V0 ∨ x ∈ comp
  stk : ∀ x ∈ stack, x ∈ comp
  fin : ∀ x ∈ comp, x ∉ stack → ∀ w ∈ nbrs g x, w ∈ visited
  reach : ∀ x ∈ comp, Reach g r x
  nd : comp.Nodup
  disj : ∀ x ∈ comp, x ∉ V0
  root : r ∈ comp

/-- what the loop returns: `Inv` with an empty stack -/
structure Post (g : Graph) (V0 : List Nat) (r : Nat) (res : List Nat × List Nat) : Prop where
  vis : ∀ x, x ∈ res.1 ↔ x ∈ V0 ∨ x ∈ res.2
  fin : ∀ x ∈ res.2, ∀ w ∈ nbrs g x, w ∈ res.1
  reach : ∀ x ∈ res.2, Reach g r x
  nd : res.2.Nodup
  disj : ∀ x ∈ res.2, x ∉ V0
  root : r ∈ res.2

theorem dfsLoop_spec (g : Graph) (σ : Nat → List Nat → List Nat) (hg : GraphHyp g σ) (V0 : List Nat)
    (r : Nat) : ∀ (fuel : Nat) (stack visited comp : List Nat), Inv g V0 r stack visited comp →
      2 * (unvis (vertices g) visited).length + stack.length ≤ fuel →
      Post g V0 r (dfsLoop g σ fuel stack visited comp) := by
  intro fuel
  induction fuel with
  | zero =>
    intro stack visited comp hI hm
    have hs : stack = [] := List.eq_nil_of_length_eq_zero (by omega)
    subst hs
    unfold dfsLoop
    exact ⟨hI.vis, fun x hx => hI.fin x hx (by simp), hI.reach, hI.nd, hI.disj, hI.root⟩
  | succ fuel ih =>
    intro stack visited comp hI hm
    cases stack with
    | nil =>
      unfold dfsLoop
      exact ⟨hI.vis, fun x hx => hI.fin x hx (by simp), hI.reach, hI.nd, hI.disj, hI.root⟩
    | cons cur rest =>
      unfold dfsLoop
      cases hn : nextUnvisited visited (σ cur (nbrs g cur)) with
      | some w =>
        simp only
        obtain ⟨hwo, hwv⟩ := nextUnvisited_some hn
        have hwn : w ∈ nbrs g cur := (hg.perm cur _).mem_iff.mp hwo
        have hwV : w ∈ vertices g := hg.keys cur w hwn
        have hcur : cur ∈ comp := hI.stk cur (by simp)
        have hwc : w ∉ comp := fun h => hwv ((hI.vis w).mpr (Or.inr h))
        apply ih
        · refine ⟨?_, ?_, ?_, ?_, ?_, ?_, ?_⟩
          · intro x
            simp only [List.mem_cons, List.mem_append, List.not_mem_nil, or_false, hI.vis x]
            constructor
            · rintro (rfl | h | h)
              · exact Or.inr (Or.inr rfl)
              · exact Or.inl h
              · exact Or.inr (Or.inl h)
            · rintro (h | h | rfl)
              · exact Or.inr (Or.inl h)
              · exact Or.inr (Or.inr h)
              · exact Or.inl rfl
          · intro x hx
            rcases List.mem_cons.mp hx with rfl | hx
            · simp
            · exact List.mem_append_left _ (hI.stk x hx)
          · intro x hx hns y hy
            rcases List.mem_append.mp hx with hx | hx
            · have : x ∉ cur :: rest := fun h => hns (List.mem_cons_of_mem _ h)
              exact List.mem_cons_of_mem _ (hI.fin x hx this y hy)
            · simp at hx; subst hx; exact absurd (by simp) hns
          · intro x hx
            rcases List.mem_append.mp hx with hx | hx
            · exact hI.reach x hx
            · simp at hx; subst hx; exact Reach.step (hI.reach cur hcur) hwn
          · rw [List.nodup_append]
            refine ⟨hI.nd, by simp, ?_⟩
            intro a ha b hb
            simp at hb; subst hb
            intro e; subst e; exact hwc ha
          · intro x hx
            rcases List.mem_append.mp hx with hx | hx
            · exact hI.disj x hx
            · simp at hx; subst hx
              exact fun h => hwv ((hI.vis x).mpr (Or.inl h))
          · exact List.mem_append_left _ hI.root
        · have := unvis_cons_lt (vertices g) visited w hwV hwv
          simp only [List.length_cons] at hm ⊢
          omega
      | none =>
        simp only
        have hall := nextUnvisited_none hn
        apply ih
        · refine ⟨hI.vis, fun x hx => hI.stk x (List.mem_cons_of_mem _ hx), ?_, hI.reach, hI.nd,
            hI.disj, hI.root⟩
          intro x hx hns y hy
          by_cases e : x = cur
          · subst e
            exact hall y ((hg.perm x _).mem_iff.mpr hy)
          · have : x ∉ cur :: rest := by
              intro h
              rcases List.mem_cons.mp h with h | h
              · exact e h
              · exact hns h
            exact hI.fin x hx this y hy
        · simp only [List.length_cons] at hm
          omega

/-- **the fuel suffices**: once the fuel covers the measure `2·#unvisited + len(stack)`, more fuel
changes nothing — the loop has run to its natural end (`while stack:` became false) -/
theorem dfsLoop_fuel_irrelevant (g : Graph) (σ : Nat → List Nat → List Nat) (hg : GraphHyp g σ) :
    ∀ (fuel extra : Nat) (stack visited comp : List Nat),
      2 * (unvis (vertices g) visited).length + stack.length ≤ fuel →
      dfsLoop g σ (fuel + extra) stack visited comp = dfsLoop g σ fuel stack visited comp := by
  intro fuel
  induction fuel with
  | zero =>
    intro extra stack visited comp hm
    have hs : stack = [] := List.eq_nil_of_length_eq_zero (by omega)
    subst hs
    cases extra with
    | zero => rfl
    | succ k => rw [Nat.zero_add]; simp only [dfsLoop]
  | succ fuel ih =>
    intro extra stack visited comp hm
    have e : fuel + 1 + extra = (fuel + extra) + 1 := by omega
    rw [e]
    cases stack with
    | nil => simp only [dfsLoop]
    | cons cur rest =>
      simp only [dfsLoop]
      cases hn : nextUnvisited visited (σ cur (nbrs g cur)) with
      | some w =>
        simp only
        obtain ⟨hwo, hwv⟩ := nextUnvisited_some hn
        have hwn : w ∈ nbrs g cur := (hg.perm cur _).mem_iff.mp hwo
        have hwV : w ∈ vertices g := hg.keys cur w hwn
        apply ih
        have := unvis_cons_lt (vertices g) visited w hwV hwv
        simp only [List.length_cons] at hm ⊢
        omega
      | none =>
        simp only
        apply ih
        simp only [List.length_cons] at hm
        omega

/-- the fuel `dfsFuel g = 2·len(graph)` given to every search covers its measure -/
theorem dfsFuel_covers (g : Graph) (v : Nat) (visited : List Nat) (hvV : v ∈ vertices g)
    (hv : v ∉ visited) :
    2 * (unvis (vertices g) (v :: visited)).length + [v].length ≤ dfsFuel g := by
  have h1 := unvis_cons_lt (vertices g) visited v hvV hv
  have h2 := unvis_length_le (vertices g) visited
  have h3 : (vertices g).length = g.length := by simp [vertices]
  simp only [dfsFuel, List.length_singleton]
  omega

/-! ### the loop over `vertices` -/

/-- invariant of `for vertex in vertices:` after the prefix `pre` has been handled -/
structure Outer (g : Graph) (pre visited : List Nat) (comps : List (List Nat)) : Prop where
  vis : ∀ x, x ∈ visited ↔ x ∈ comps.flatten
  closed : ∀ x ∈ visited, ∀ w ∈ nbrs g x, w ∈ visited
  nd : comps.flatten.Nodup
  preVis : ∀ x ∈ pre, x ∈ visited
  sub : ∀ x ∈ visited, x ∈ vertices g
  compClosed : ∀ c ∈ comps, ∀ x ∈ c, ∀ w ∈ nbrs g x, w ∈ c
  compConn : ∀ c ∈ comps, ∃ r ∈ c, ∀ x, x ∈ c ↔ Reach g r x
  rootsIn : ∀ c ∈ comps, ∃ r ∈ c, r ∈ pre ∧ ∀ x, x ∈ c ↔ Reach g r x

theorem closed_reach {g : Graph} {S : List Nat} (hc : ∀ x ∈ S, ∀ w ∈ nbrs g x, w ∈ S) {r x : Nat}
    (hr : r ∈ S) (h : Reach g r x) : x ∈ S := by
  induction h with
  | refl => exact hr
  | step _ hw ih => exact hc _ ih _ hw

/-- one turn of the outer loop for an unvisited root: the DFS returns the class of the root -/
theorem outer_step (g : Graph) (σ : Nat → List Nat → List Nat) (hg : GraphHyp g σ)
    (pre visited : List Nat) (comps : List (List Nat)) (v : Nat) (hO : Outer g pre visited comps)
    (hvV : v ∈ vertices g) (hv : v ∉ visited) :
    let r := dfsLoop g σ (dfsFuel g) [v] (v :: visited) [v]
    Outer g (pre ++ [v]) r.1 (comps ++ [r.2]) ∧ (∀ x, x ∈ r.2 ↔ Reach g v x) ∧ r.2.Nodup ∧
      (∀ x, x ∈ r.1 ↔ x ∈ visited ∨ Reach g v x) := by
  intro r
  have hI : Inv g visited v [v] (v :: visited) [v] := by
    refine ⟨?_, by simp, ?_, ?_, by simp, ?_, by simp⟩
    · intro x; simp only [List.mem_cons, List.not_mem_nil, or_false]
      constructor
      · rintro (h | h)
        · exact Or.inr h
        · exact Or.inl h
      · rintro (h | h)
        · exact Or.inr h
        · exact Or.inl h
    · intro x hx hns; simp at hx; subst hx; simp at hns
    · intro x hx; simp at hx; subst hx; exact Reach.refl _
    · intro x hx; simp at hx; subst hx; exact hv
  have hfuel : 2 * (unvis (vertices g) (v :: visited)).length + [v].length ≤ dfsFuel g := by
    have h1 := unvis_cons_lt (vertices g) visited v hvV hv
    have h2 := unvis_length_le (vertices g) visited
    have h3 : (vertices g).length = g.length := by simp [vertices]
    simp only [dfsFuel, List.length_singleton]
    omega
  have hP := dfsLoop_spec g σ hg visited v (dfsFuel g) [v] (v :: visited) [v] hI hfuel
  -- the component is closed: a neighbour in `visited` would pull its own neighbour into `visited`
  have hcl : ∀ x ∈ r.2, ∀ w ∈ nbrs g x, w ∈ r.2 := by
    intro x hx w hw
    rcases (hP.vis w).mp (hP.fin x hx w hw) with h | h
    · exact absurd (hO.closed w h x (hg.sym x w hw)) (hP.disj x hx)
    · exact h
  have hmem : ∀ x, x ∈ r.2 ↔ Reach g v x :=
    fun x => ⟨hP.reach x, fun h => closed_reach hcl hP.root h⟩
  refine ⟨⟨?_, ?_, ?_, ?_, ?_, ?_, ?_, ?_⟩, hmem, hP.nd, ?_⟩
  · intro x
    rw [hP.vis x, List.flatten_append, List.mem_append, hO.vis x]
    simp [r]
  · intro x hx w hw
    rcases (hP.vis x).mp hx with h | h
    · exact (hP.vis w).mpr (Or.inl (hO.closed x h w hw))
    · exact (hP.vis w).mpr (Or.inr (hcl x h w hw))
  · rw [List.flatten_append, List.nodup_append]
    refine ⟨hO.nd, by simpa using hP.nd, ?_⟩
    intro a ha b hb
    simp at hb
    intro e; subst e
    exact hP.disj a hb ((hO.vis a).mpr ha)
  · intro x hx
    rcases List.mem_append.mp hx with h | h
    · exact (hP.vis x).mpr (Or.inl (hO.preVis x h))
    · simp at h; subst h; exact (hP.vis x).mpr (Or.inr hP.root)
  · intro x hx
    rcases (hP.vis x).mp hx with h | h
    · exact hO.sub x h
    · have := hP.reach x h
      clear hx h
      induction this with
      | refl => exact hvV
      | step _ hw _ => exact hg.keys _ _ hw
  · intro c hc
    rcases List.mem_append.mp hc with h | h
    · exact hO.compClosed c h
    · simp at h; subst h; exact hcl
  · intro c hc
    rcases List.mem_append.mp hc with h | h
    · exact hO.compConn c h
    · simp at h; subst h; exact ⟨v, hP.root, hmem⟩
  · intro c hc
    rcases List.mem_append.mp hc with h | h
    · obtain ⟨r', h1, h2, h3⟩ := hO.rootsIn c h
      exact ⟨r', h1, List.mem_append_left _ h2, h3⟩
    · simp at h; subst h; exact ⟨v, hP.root, by simp, hmem⟩
  · intro x
    rw [hP.vis x, hmem x]

theorem outer_skip {g : Graph} {pre visited : List Nat} {comps : List (List Nat)} {v : Nat}
    (hO : Outer g pre visited comps) (hv : v ∈ visited) : Outer g (pre ++ [v]) visited comps := by
  refine ⟨hO.vis, hO.closed, hO.nd, ?_, hO.sub, hO.compClosed, hO.compConn, ?_⟩
  · intro x hx
    rcases List.mem_append.mp hx with h | h
    · exact hO.preVis x h
    · simp at h; subst h; exact hv
  · intro c hc
    obtain ⟨r', h1, h2, h3⟩ := hO.rootsIn c hc
    exact ⟨r', h1, List.mem_append_left _ h2, h3⟩

theorem compLoop_spec (g : Graph) (σ : Nat → List Nat → List Nat) (hg : GraphHyp g σ) :
    ∀ (vs pre visited : List Nat) (comps : List (List Nat)), pre ++ vs = vertices g →
      Outer g pre visited comps →
      ∃ visited', Outer g (vertices g) visited' (compLoop g σ vs visited comps) := by
  intro vs
  induction vs with
  | nil =>
    intro pre visited comps hpre hO
    rw [List.append_nil] at hpre
    subst hpre
    exact ⟨visited, hO⟩
  | cons v vs ih =>
    intro pre visited comps hpre hO
    have hpre' : (pre ++ [v]) ++ vs = vertices g := by simpa using hpre
    have hvV : v ∈ vertices g := by rw [← hpre]; simp
    unfold compLoop
    by_cases hv : v ∈ visited
    · simp only [List.contains_iff_mem, hv, if_true]
      exact ih _ _ _ hpre' (outer_skip hO hv)
    · simp only [List.contains_iff_mem, hv]
      exact ih _ _ _ hpre' (outer_step g σ hg pre visited comps v hO hvV hv).1

theorem outer_nil (g : Graph) : Outer g [] [] [] :=
  ⟨by simp, by simp, by simp, by simp, by simp, by simp, by simp, by simp⟩

/-- what the depth-first search returns -/
structure ComponentsOK (g : Graph) (cs : List (List Nat)) : Prop where
  /-- the components partition `vertices`: every vertex in exactly one, nothing else -/
  perm : cs.flatten.Perm (vertices g)
  nonempty : ∀ c ∈ cs, c ≠ []
  /-- no edge leaves a component -/
  closed : ∀ c ∈ cs, ∀ x ∈ c, ∀ w ∈ nbrs g x, w ∈ c
  /-- each component is connected: two of its members are joined by a path -/
  connected : ∀ c ∈ cs, ∀ x ∈ c, ∀ y ∈ c, Reach g x y
  /-- each component is the class of its first-discovered vertex -/
  classOf : ∀ c ∈ cs, ∃ r ∈ c, ∀ x, x ∈ c ↔ Reach g r x

theorem components_ok (g : Graph) (σ : Nat → List Nat → List Nat) (hg : GraphHyp g σ) :
    ComponentsOK g (components g σ) := by
  obtain ⟨visited', hO⟩ := compLoop_spec g σ hg (vertices g) [] [] [] (by simp) (outer_nil g)
  have hmem : ∀ x, x ∈ (components g σ).flatten ↔ x ∈ vertices g := by
    intro x
    constructor
    · intro h; exact hO.sub x ((hO.vis x).mpr h)
    · intro h; exact (hO.vis x).mp (hO.preVis x h)
  refine ⟨(List.perm_ext_iff_of_nodup hO.nd hg.nodup).mpr hmem, ?_, hO.compClosed, ?_, hO.compConn⟩
  · intro c hc
    obtain ⟨r, hr, _⟩ := hO.compConn c hc
    intro e; rw [e] at hr; cases hr
  · intro c hc x hx y hy
    obtain ⟨r, _, hr⟩ := hO.compConn c hc
    exact Reach.trans (Reach.symm hg.sym ((hr x).mp hx)) ((hr y).mp hy)

/-- two vertices lie in the same component iff they are joined by a path -/
theorem same_component_iff (g : Graph) (cs : List (List Nat)) (h : ComponentsOK g cs)
    {c : List Nat} (hc : c ∈ cs) {x : Nat} (hx : x ∈ c)
    (y : Nat) : y ∈ c ↔ Reach g x y := by
  obtain ⟨r, _, hr⟩ := h.classOf c hc
  constructor
  · intro hy; exact h.connected c hc x hx y hy
  · intro hxy
    exact (hr y).mpr (Reach.trans ((hr x).mp hx) hxy)

/-! ### the sequence of components, as sets, does not depend on `σ` -/

theorem All2.append_one {α β} {R : α → β → Prop} : ∀ {as : List α} {bs : List β} {a : α} {b : β},
    All2 R as bs → R a b → All2 R (as ++ [a]) (bs ++ [b]) := by
  intro as bs a b h
  induction h with
  | nil => intro hab; exact All2.cons hab All2.nil
  | cons h1 _ ih => intro hab; exact All2.cons h1 (ih hab)

theorem compLoop_lockstep (g : Graph) (σ σ' : Nat → List Nat → List Nat) (hg : GraphHyp g σ)
    (hg' : GraphHyp g σ') :
    ∀ (vs pre visited visited' : List Nat) (comps comps' : List (List Nat)), pre ++ vs = vertices g →
      Outer g pre visited comps → Outer g pre visited' comps' →
      (∀ x, x ∈ visited ↔ x ∈ visited') → All2 List.Perm comps comps' →
      All2 List.Perm (compLoop g σ vs visited comps) (compLoop g σ' vs visited' comps') := by
  intro vs
  induction vs with
  | nil => intro pre visited visited' comps comps' _ _ _ _ hA; exact hA
  | cons v vs ih =>
    intro pre visited visited' comps comps' hpre hO hO' hvis hA
    have hpre' : (pre ++ [v]) ++ vs = vertices g := by simpa using hpre
    have hvV : v ∈ vertices g := by rw [← hpre]; simp
    unfold compLoop
    by_cases hv : v ∈ visited
    · have hv' : v ∈ visited' := (hvis v).mp hv
      simp only [List.contains_iff_mem, hv, hv', if_true]
      exact ih _ _ _ _ _ hpre' (outer_skip hO hv) (outer_skip hO' hv') hvis hA
    · have hv' : v ∉ visited' := fun h => hv ((hvis v).mpr h)
      simp only [List.contains_iff_mem, hv, hv']
      obtain ⟨s1, s2, s3, s4⟩ := outer_step g σ hg pre visited comps v hO hvV hv
      obtain ⟨t1, t2, t3, t4⟩ := outer_step g σ' hg' pre visited' comps' v hO' hvV hv'
      apply ih _ _ _ _ _ hpre' s1 t1
      · intro x; rw [s4, t4, hvis x]
      · apply All2.append_one hA
        exact (List.perm_ext_iff_of_nodup s3 t3).mpr (fun x => by rw [s2, t2])

/-- **the component sequence is independent of σ up to the order inside each component** -/
theorem components_sigma_free (g : Graph) (σ σ' : Nat → List Nat → List Nat) (hg : GraphHyp g σ)
    (hg' : GraphHyp g σ') : All2 List.Perm (components g σ) (components g σ') :=
  compLoop_lockstep g σ σ' hg hg' (vertices g) [] [] [] [] [] (by simp) (outer_nil g) (outer_nil g)
    (fun _ => Iff.rfl) All2.nil

/-- the graph built by the code satisfies the hypotheses -/
theorem graphHyp_build (c : ConfPred) (regs : List Region) (σ : Nat → List Nat → List Nat)
    (hσ : ∀ v l, (σ v l).Perm l) : GraphHyp (buildGraph c regs) σ :=
  ⟨nbrs_symm c regs, nbrs_subset_vertices c regs, (buildGraph_spec c regs).2.2, hσ⟩

end RnaVerif.SecStr.Impl

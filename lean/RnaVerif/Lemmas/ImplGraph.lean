import RnaVerif.Model.AllDBImpl
import RnaVerif.Lemmas.AllDB
/-! # the `defaultdict(set)` conflict graph built by `all_dot_brackets` is the adjacency `adjOf`
(helper lemmas for C16Impl; core Lean only) -/
namespace RnaVerif.SecStr.Impl
open RnaVerif.SecStr.AllDB

/-! ### `gAdd`, `nbrs`, `vertices` -/

theorem nbrs_nil (v : Nat) : nbrs [] v = [] := rfl

theorem nbrs_cons (k : Nat) (ns : List Nat) (rest : Graph) (v : Nat) :
    nbrs ((k, ns) :: rest) v = if k = v then ns else nbrs rest v := by
  unfold nbrs
  rw [List.find?_cons]
  by_cases h : k = v
  · simp [h]
  · have : ((k, ns).1 == v) = false := by simpa using h
    simp [this, h]

theorem mem_nbrs_gAdd (g : Graph) (i j u w : Nat) :
    w ∈ nbrs (gAdd g i j) u ↔ w ∈ nbrs g u ∨ (u = i ∧ w = j) := by
  induction g with
  | nil =>
    simp only [gAdd, nbrs_cons, nbrs_nil]
    by_cases h : i = u
    · subst h; simp
    · simp [h]; intro e; exact absurd e.symm h
  | cons p rest ih =>
    obtain ⟨k, ns⟩ := p
    simp only [gAdd]
    by_cases hk : k = i
    · simp only [hk, if_true, nbrs_cons]
      by_cases hu : i = u
      · subst hu
        simp only [if_true]
        by_cases hj : j ∈ ns
        · simp only [hj, if_true]
          constructor
          · intro h; exact Or.inl h
          · rintro (h | ⟨_, rfl⟩)
            · exact h
            · exact hj
        · simp only [hj, if_false, List.mem_append, List.mem_singleton, true_and]
      · simp only [hu, if_false]
        constructor
        · intro h; exact Or.inl h
        · rintro (h | ⟨e, _⟩)
          · exact h
          · exact absurd e.symm hu
    · simp only [hk, if_false, nbrs_cons]
      by_cases hu : k = u
      · simp only [hu, if_true]
        constructor
        · intro h; exact Or.inl h
        · rintro (h | ⟨e, _⟩)
          · exact h
          · exact absurd (hu.trans e) hk
      · simp only [hu, if_false]
        exact ih

theorem vertices_gAdd (g : Graph) (i j : Nat) :
    vertices (gAdd g i j) = if i ∈ vertices g then vertices g else vertices g ++ [i] := by
  induction g with
  | nil => simp [gAdd, vertices]
  | cons p rest ih =>
    obtain ⟨k, ns⟩ := p
    simp only [gAdd]
    by_cases hk : k = i
    · simp [hk, vertices]
    · simp only [hk, if_false]
      have ih' : List.map (·.1) (gAdd rest i j) =
          if i ∈ List.map (·.1) rest then List.map (·.1) rest else List.map (·.1) rest ++ [i] := ih
      simp only [vertices, List.map_cons, List.mem_cons, ih']
      have hk' : ¬ i = k := fun e => hk e.symm
      by_cases hm : i ∈ List.map (·.1) rest
      · simp [hm]
      · simp [hm, hk']

theorem mem_vertices_gAdd (g : Graph) (i j u : Nat) :
    u ∈ vertices (gAdd g i j) ↔ u ∈ vertices g ∨ u = i := by
  rw [vertices_gAdd]
  by_cases h : i ∈ vertices g
  · simp only [h, if_true]
    constructor
    · intro hu; exact Or.inl hu
    · rintro (hu | rfl)
      · exact hu
      · exact h
  · simp [h]

theorem vertices_gAdd_nodup (g : Graph) (i j : Nat) (h : (vertices g).Nodup) :
    (vertices (gAdd g i j)).Nodup := by
  rw [vertices_gAdd]
  by_cases hm : i ∈ vertices g
  · simp only [hm, if_true]; exact h
  · simp only [hm, if_false]
    rw [List.nodup_append]
    refine ⟨h, by simp, ?_⟩
    intro a ha b hb
    simp at hb
    subst hb
    intro e; subst e; exact hm ha

/-! ### the construction loop -/

/-- what the graph looks like relative to a set `E` of (ordered) edges entered in both directions -/
structure GraphOf (g : Graph) (E : Nat × Nat → Prop) : Prop where
  mem_nbrs : ∀ u w, w ∈ nbrs g u ↔ (E (u, w) ∨ E (w, u))
  mem_vertices : ∀ u, u ∈ vertices g ↔ ∃ w, w ∈ nbrs g u
  nodup : (vertices g).Nodup

theorem graphOf_nil : GraphOf [] (fun _ => False) :=
  ⟨fun u w => by simp [nbrs_nil], fun u => by simp [vertices, nbrs_nil], by simp [vertices]⟩

theorem graphOf_add {g : Graph} {E : Nat × Nat → Prop} (h : GraphOf g E) (i j : Nat) :
    GraphOf (gAdd (gAdd g i j) j i) (fun e => E e ∨ e = (i, j)) := by
  refine ⟨?_, ?_, ?_⟩
  · intro u w
    rw [mem_nbrs_gAdd, mem_nbrs_gAdd, h.mem_nbrs]
    simp only [Prod.mk.injEq]
    constructor
    · rintro ((h1 | h1) | ⟨rfl, rfl⟩)
      · rcases h1 with h1 | h1
        · exact Or.inl (Or.inl h1)
        · exact Or.inr (Or.inl h1)
      · exact Or.inl (Or.inr h1)
      · exact Or.inr (Or.inr ⟨rfl, rfl⟩)
    · rintro ((h1 | h1) | (h1 | h1))
      · exact Or.inl (Or.inl (Or.inl h1))
      · exact Or.inl (Or.inr h1)
      · exact Or.inl (Or.inl (Or.inr h1))
      · exact Or.inr ⟨h1.2, h1.1⟩
  · intro u
    rw [mem_vertices_gAdd, mem_vertices_gAdd, h.mem_vertices]
    constructor
    · rintro ((⟨w, hw⟩ | rfl) | rfl)
      · exact ⟨w, by rw [mem_nbrs_gAdd, mem_nbrs_gAdd]; exact Or.inl (Or.inl hw)⟩
      · exact ⟨j, by rw [mem_nbrs_gAdd, mem_nbrs_gAdd]; exact Or.inl (Or.inr ⟨rfl, rfl⟩)⟩
      · exact ⟨i, by rw [mem_nbrs_gAdd]; exact Or.inr ⟨rfl, rfl⟩⟩
    · rintro ⟨w, hw⟩
      rw [mem_nbrs_gAdd, mem_nbrs_gAdd] at hw
      rcases hw with (hw | ⟨rfl, _⟩) | ⟨rfl, _⟩
      · exact Or.inl (Or.inl ⟨w, hw⟩)
      · exact Or.inl (Or.inr rfl)
      · exact Or.inr rfl
  · exact vertices_gAdd_nodup _ _ _ (vertices_gAdd_nodup _ _ _ h.nodup)

theorem GraphOf.congr {g : Graph} {E E' : Nat × Nat → Prop} (h : GraphOf g E) (he : ∀ e, E e ↔ E' e) :
    GraphOf g E' :=
  ⟨fun u w => by rw [h.mem_nbrs, he, he], h.mem_vertices, h.nodup⟩

/-- the conflict test of one turn -/
def stepCond (c : ConfPred) (regs : List Region) (ij : Nat × Nat) : Prop :=
  ∃ a b, regs[ij.1]? = some a ∧ regs[ij.2]? = some b ∧ a.conf c b = true

theorem graphOf_step (c : ConfPred) (regs : List Region) {g : Graph} {E : Nat × Nat → Prop}
    (h : GraphOf g E) (ij : Nat × Nat) :
    GraphOf (graphStep c regs g ij) (fun e => E e ∨ (e = ij ∧ stepCond c regs ij)) := by
  unfold graphStep
  cases h1 : regs[ij.1]? with
  | none =>
    apply h.congr
    intro e
    simp only [stepCond, h1]
    constructor
    · intro he; exact Or.inl he
    · rintro (he | ⟨_, a, b, hab, _⟩)
      · exact he
      · cases hab
  | some a =>
    cases h2 : regs[ij.2]? with
    | none =>
      apply h.congr
      intro e
      simp only [stepCond, h2]
      constructor
      · intro he; exact Or.inl he
      · rintro (he | ⟨_, a, b, _, hab, _⟩)
        · exact he
        · cases hab
    | some b =>
      simp only
      by_cases hc : a.conf c b = true
      · simp only [hc, if_true]
        apply (graphOf_add h ij.1 ij.2).congr
        intro e
        have : stepCond c regs ij := ⟨a, b, h1, h2, hc⟩
        constructor
        · rintro (he | he)
          · exact Or.inl he
          · exact Or.inr ⟨he, this⟩
        · rintro (he | ⟨he, _⟩)
          · exact Or.inl he
          · exact Or.inr he
      · simp only [hc]
        apply h.congr
        intro e
        constructor
        · intro he; exact Or.inl he
        · rintro (he | ⟨_, a', b', h1', h2', hc'⟩)
          · exact he
          · rw [h1] at h1'; rw [h2] at h2'
            cases h1'; cases h2'
            exact absurd hc' hc

theorem graphOf_foldl (c : ConfPred) (regs : List Region) : ∀ (l : List (Nat × Nat)) (g : Graph)
    (E : Nat × Nat → Prop), GraphOf g E →
    GraphOf (l.foldl (graphStep c regs) g) (fun e => E e ∨ (e ∈ l ∧ stepCond c regs e)) := by
  intro l
  induction l with
  | nil =>
    intro g E h
    apply h.congr
    intro e; simp
  | cons ij l ih =>
    intro g E h
    rw [List.foldl_cons]
    apply (ih _ _ (graphOf_step c regs h ij)).congr
    intro e
    simp only [List.mem_cons]
    constructor
    · rintro ((he | ⟨rfl, hc⟩) | ⟨he, hc⟩)
      · exact Or.inl he
      · exact Or.inr ⟨Or.inl rfl, hc⟩
      · exact Or.inr ⟨Or.inr he, hc⟩
    · rintro (he | ⟨rfl | he, hc⟩)
      · exact Or.inl (Or.inl he)
      · exact Or.inl (Or.inr ⟨rfl, hc⟩)
      · exact Or.inr ⟨he, hc⟩

theorem mem_combos2 (n : Nat) (e : Nat × Nat) : e ∈ combos2 n ↔ e.1 < e.2 ∧ e.2 < n := by
  obtain ⟨a, b⟩ := e
  simp only [combos2, List.mem_flatMap, List.mem_map, List.mem_filter, List.mem_range,
    decide_eq_true_eq, Prod.mk.injEq]
  constructor
  · rintro ⟨i, _, j, ⟨hj, hij⟩, rfl, rfl⟩; exact ⟨hij, hj⟩
  · rintro ⟨h1, h2⟩; exact ⟨a, by omega, b, ⟨h2, h1⟩, rfl, rfl⟩

/-- **the graph the code builds is `adjOf`**: `w ∈ graph[u]` iff `u`, `w` are adjacent; the keys are
the vertices with at least one neighbour, each once -/
theorem buildGraph_spec (c : ConfPred) (regs : List Region) :
    (∀ u w, w ∈ nbrs (buildGraph c regs) u ↔ adjOf c regs u w = true) ∧
    (∀ u, u ∈ vertices (buildGraph c regs) ↔ ∃ w, adjOf c regs u w = true) ∧
    (vertices (buildGraph c regs)).Nodup := by
  have h := graphOf_foldl c regs (combos2 regs.length) [] _ graphOf_nil
  have key : ∀ u w, w ∈ nbrs (buildGraph c regs) u ↔ adjOf c regs u w = true := by
    intro u w
    have := h.mem_nbrs u w
    unfold buildGraph
    rw [this]
    simp only [false_or, mem_combos2, stepCond]
    unfold adjOf
    cases hu : regs[u]? with
    | none => simp
    | some a =>
      cases hw : regs[w]? with
      | none => simp
      | some b =>
        have hul := (List.getElem?_eq_some_iff.mp hu).1
        have hwl := (List.getElem?_eq_some_iff.mp hw).1
        simp only [Option.some.injEq, exists_and_left, exists_eq_left']
        rcases Nat.lt_trichotomy u w with hlt | heq | hgt
        · have h' : ¬ w < u := by omega
          simp [hlt, h', hwl]
        · subst heq; simp
        · have h' : ¬ u < w := by omega
          simp [hgt, h', hul]
  refine ⟨key, ?_, h.nodup⟩
  intro u
  have := h.mem_vertices u
  unfold buildGraph
  rw [this]
  constructor
  · rintro ⟨w, hw⟩; exact ⟨w, (key u w).mp hw⟩
  · rintro ⟨w, hw⟩; exact ⟨w, (key u w).mpr hw⟩

/-- no `KeyError` / no silent insertion into the `defaultdict`: every member of `graph[u]` is a key -/
theorem nbrs_subset_vertices (c : ConfPred) (regs : List Region) (u w : Nat)
    (h : w ∈ nbrs (buildGraph c regs) u) : w ∈ vertices (buildGraph c regs) := by
  obtain ⟨h1, h2, _⟩ := buildGraph_spec c regs
  rw [h2]
  exact ⟨u, by rw [adjOf_symm]; exact (h1 u w).mp h⟩

theorem nbrs_symm (c : ConfPred) (regs : List Region) (u w : Nat)
    (h : w ∈ nbrs (buildGraph c regs) u) : u ∈ nbrs (buildGraph c regs) w := by
  obtain ⟨h1, _, _⟩ := buildGraph_spec c regs
  rw [h1, adjOf_symm]; exact (h1 u w).mp h

/-- the early-return test `if not vertices` is the test of the specification model -/
theorem vertices_isEmpty_iff (c : ConfPred) (regs : List Region) :
    (vertices (buildGraph c regs)).isEmpty = true ↔
      (List.range regs.length).all (fun v => degree (adjOf c regs) regs.length v == 0) = true := by
  obtain ⟨_, h2, _⟩ := buildGraph_spec c regs
  rw [List.isEmpty_iff, List.all_eq_true]
  constructor
  · intro h v _
    rw [beq_iff_eq, degree_zero_iff]
    intro u _
    cases ha : adjOf c regs u v
    · rfl
    · have : u ∈ vertices (buildGraph c regs) := (h2 u).mpr ⟨v, ha⟩
      rw [h] at this; cases this
  · intro h
    apply List.eq_nil_iff_forall_not_mem.mpr
    intro u hu
    obtain ⟨w, hw⟩ := (h2 u).mp hu
    have hlt := adjOf_lt hw
    have := h w (List.mem_range.mpr hlt.2)
    rw [beq_iff_eq, degree_zero_iff] at this
    rw [this u hlt.1] at hw; cases hw

/-- vertices = exactly the regions of positive degree -/
theorem mem_vertices_iff_degree (c : ConfPred) (regs : List Region) (u : Nat) :
    u ∈ vertices (buildGraph c regs) ↔ u < regs.length ∧ 0 < degree (adjOf c regs) regs.length u := by
  obtain ⟨_, h2, _⟩ := buildGraph_spec c regs
  rw [h2, degree_pos_iff]
  constructor
  · rintro ⟨w, hw⟩
    have := adjOf_lt hw
    exact ⟨this.1, w, this.2, by rw [adjOf_symm]; exact hw⟩
  · rintro ⟨_, w, _, hw⟩
    exact ⟨w, by rw [adjOf_symm]; exact hw⟩

end RnaVerif.SecStr.Impl

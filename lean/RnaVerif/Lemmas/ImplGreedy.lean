import RnaVerif.Lemmas.ImplGraph
import RnaVerif.Lemmas.FcfsGrundy
/-! # the `available` / `next(filter(…))` loop of `all_dot_brackets` is the greedy (mex) colouring along
the permutation, and never raises (helper lemmas for C16Impl; core Lean only) -/
namespace RnaVerif.SecStr.Impl
open RnaVerif.SecStr.AllDB

/-! ### small facts -/

theorem mex_le_length (used : List Nat) : mex used ≤ used.length := by
  have hsub : List.range (mex used) ⊆ used := by
    intro d hd
    exact mex_lt_mem used d (List.mem_range.mp hd)
  have := List.Nodup.length_le_of_subset List.nodup_range hsub
  simpa using this

theorem find?_range_eq_some (p : Nat → Bool) (cap o : Nat) (h1 : p o = true) (h2 : o < cap)
    (h3 : ∀ d, d < o → p d = false) : (List.range cap).find? p = some o := by
  cases hf : (List.range cap).find? p with
  | none =>
    have := List.find?_eq_none.mp hf o (List.mem_range.mpr h2)
    exact absurd h1 this
  | some x =>
    obtain ⟨k1, _, k3⟩ := find?_range_some p cap x hf
    rcases Nat.lt_trichotomy x o with h | h | h
    · rw [h3 x h] at k1; cases k1
    · rw [h]
    · rw [k3 o h] at h1; cases h1

theorem getD_replicate_true (k d : Nat) : (List.replicate k true).getD d false = true ↔ d < k := by
  rw [List.getD_eq_getElem?_getD, List.getElem?_replicate]
  by_cases h : d < k <;> simp [h]

theorem getD_set_false (av : List Bool) (idx d : Nat) :
    (av.set idx false).getD d false = true ↔ av.getD d false = true ∧ idx ≠ d := by
  rw [List.getD_eq_getElem?_getD, List.getD_eq_getElem?_getD, List.getElem?_set]
  by_cases h : idx = d
  · subst h
    by_cases h2 : idx < av.length <;> simp [h2]
  · simp [h]

/-! ### `setOrder` -/

theorem setOrder_keys (orders : List (Nat × Nat)) (v o : Nat) :
    (setOrder orders v o).map (·.1) = orders.map (·.1) := by
  unfold setOrder
  rw [List.map_map]
  apply List.map_congr_left
  intro p _
  simp only [Function.comp]
  split <;> rfl

theorem lookup_setOrder_ne (orders : List (Nat × Nat)) (v o u : Nat) (h : u ≠ v) :
    lookup (setOrder orders v o) u = lookup orders u := by
  induction orders with
  | nil => rfl
  | cons p ps ih =>
    simp only [setOrder, List.map_cons] at ih ⊢
    by_cases hp : p.1 = v
    · simp only [hp, if_true]
      rw [lookup_cons, lookup_cons]
      have h1 : ¬ v = u := fun e => h e.symm
      have h2 : ¬ p.1 = u := by rw [hp]; exact h1
      simp only [h1, h2, if_false]
      exact ih
    · simp only [hp, if_false]
      rw [lookup_cons, lookup_cons]
      by_cases hu : p.1 = u
      · simp [hu]
      · simp only [hu, if_false]; exact ih

theorem lookup_setOrder_eq (orders : List (Nat × Nat)) (v o : Nat) (h : v ∈ orders.map (·.1)) :
    lookup (setOrder orders v o) v = o := by
  induction orders with
  | nil => cases h
  | cons p ps ih =>
    simp only [setOrder, List.map_cons] at ih ⊢
    by_cases hp : p.1 = v
    · simp only [hp, if_true]
      rw [lookup_cons]; simp
    · simp only [hp, if_false]
      rw [lookup_cons]
      simp only [hp, if_false]
      apply ih
      simp only [List.map_cons, List.mem_cons] at h
      rcases h with h | h
      · exact absurd h.symm hp
      · exact h

/-! ### the inner loop over `range(i)` -/

theorem blockLoop_spec (g : Graph) (adj : Nat → Nat → Bool)
    (hadj : ∀ u v, (nbrs g v).contains u = adj u v) (orders : List (Nat × Nat)) (v : Nat) :
    ∀ (done : List Nat) (av : List Bool), (∀ u ∈ done, lookup orders u < av.length) →
      ∃ av', blockLoop g orders v done av = .ok av' ∧ av'.length = av.length ∧
        ∀ d, av'.getD d false = true ↔
          (av.getD d false = true ∧ ∀ u ∈ done, adj u v = true → lookup orders u ≠ d) := by
  intro done
  induction done with
  | nil =>
    intro av _
    exact ⟨av, rfl, rfl, fun d => by simp⟩
  | cons u rest ih =>
    intro av hlt
    unfold blockLoop
    rw [hadj u v]
    cases ha : adj u v
    · simp only [Bool.false_eq_true, if_false]
      obtain ⟨av', h1, h2, h3⟩ := ih av (fun x hx => hlt x (List.mem_cons_of_mem _ hx))
      refine ⟨av', h1, h2, ?_⟩
      intro d
      rw [h3 d]
      constructor
      · rintro ⟨k1, k2⟩
        refine ⟨k1, ?_⟩
        intro x hx hax
        rcases List.mem_cons.mp hx with rfl | hx
        · rw [ha] at hax; cases hax
        · exact k2 x hx hax
      · rintro ⟨k1, k2⟩
        exact ⟨k1, fun x hx => k2 x (List.mem_cons_of_mem _ hx)⟩
    · simp only [if_true]
      have hidx : lookup orders u < av.length := hlt u (by simp)
      simp only [setFalse, hidx, if_true]
      obtain ⟨av', h1, h2, h3⟩ := ih (av.set (lookup orders u) false)
        (fun x hx => by rw [List.length_set]; exact hlt x (List.mem_cons_of_mem _ hx))
      refine ⟨av', h1, by rw [h2, List.length_set], ?_⟩
      intro d
      rw [h3 d, getD_set_false]
      constructor
      · rintro ⟨⟨k1, k0⟩, k2⟩
        refine ⟨k1, ?_⟩
        intro x hx hax
        rcases List.mem_cons.mp hx with rfl | hx
        · exact k0
        · exact k2 x hx hax
      · rintro ⟨k1, k2⟩
        exact ⟨⟨k1, k2 u (by simp) ha⟩, fun x hx => k2 x (List.mem_cons_of_mem _ hx)⟩

theorem firstTrue_eq_mex (av : List Bool) (used : List Nat) (hlen : mex used < av.length)
    (h : ∀ d, av.getD d false = true ↔ (d < av.length ∧ d ∉ used)) : firstTrue av = some (mex used) := by
  unfold firstTrue
  apply find?_range_eq_some
  · exact (h _).mpr ⟨hlen, mex_not_mem used⟩
  · exact hlen
  · intro d hd
    cases hv : av.getD d false
    · rfl
    · exact absurd (mex_lt_mem used d hd) ((h d).mp hv).2

/-! ### the loop over `range(1, len(permutation))` -/

theorem mem_keys_of_mem {acc : List (Nat × Nat)} {p : Nat × Nat} (h : p ∈ acc) : p.1 ∈ acc.map (·.1) :=
  List.mem_map_of_mem h

theorem assignLoop_spec (g : Graph) (adj : Nat → Nat → Bool)
    (hadj : ∀ u v, (nbrs g v).contains u = adj u v) (k : Nat) :
    ∀ (todo done : List Nat) (orders acc : List (Nat × Nat)),
      acc.map (·.1) = done →
      (∀ p ∈ acc, lookup orders p.1 = p.2) →
      (∀ p ∈ acc, p.2 < k) →
      (done ++ todo).Nodup → (∀ x ∈ done ++ todo, x ∈ orders.map (·.1)) → (done ++ todo).length ≤ k →
      ∃ orders', assignLoop g k done todo orders = .ok orders' ∧
        orders'.map (·.1) = orders.map (·.1) ∧
        (∀ p ∈ greedyAux adj todo acc, lookup orders' p.1 = p.2) ∧
        (∀ x, x ∉ todo → lookup orders' x = lookup orders x) := by
  intro todo
  induction todo with
  | nil =>
    intro done orders acc _ hlk _ _ _ _
    exact ⟨orders, rfl, rfl, by simpa [greedyAux] using hlk, fun _ _ => rfl⟩
  | cons v rest ih =>
    intro done orders acc hacc hlk hlt hnd hkeys hlen
    have hdone : ∀ u ∈ done, ∃ p ∈ acc, p.1 = u := by
      intro u hu
      rw [← hacc] at hu
      obtain ⟨p, hp, e⟩ := List.mem_map.mp hu
      exact ⟨p, hp, e⟩
    have hltk : ∀ u ∈ done, lookup orders u < (List.replicate k true).length := by
      intro u hu
      obtain ⟨p, hp, rfl⟩ := hdone u hu
      rw [hlk p hp, List.length_replicate]; exact hlt p hp
    obtain ⟨av, hb1, hb2, hb3⟩ := blockLoop_spec g adj hadj orders v done (List.replicate k true) hltk
    rw [List.length_replicate] at hb2
    -- the blocked orders are exactly the colours of the earlier neighbours
    have hav : ∀ d, av.getD d false = true ↔ (d < av.length ∧ d ∉ nbrCols adj acc v) := by
      intro d
      rw [hb3 d, getD_replicate_true, hb2]
      constructor
      · rintro ⟨k1, k2⟩
        refine ⟨k1, ?_⟩
        intro hm
        obtain ⟨q, hq, ha, he⟩ := mem_nbrCols.mp hm
        have hq1 : q.1 ∈ done := by rw [← hacc]; exact mem_keys_of_mem hq
        exact k2 q.1 hq1 ha (by rw [hlk q hq]; exact he)
      · rintro ⟨k1, k2⟩
        refine ⟨k1, ?_⟩
        intro u hu ha he
        obtain ⟨p, hp, rfl⟩ := hdone u hu
        apply k2
        exact mem_nbrCols.mpr ⟨p, hp, ha, by rw [← hlk p hp]; exact he⟩
    have hcols : (nbrCols adj acc v).length ≤ done.length := by
      unfold nbrCols
      rw [List.length_map, ← hacc, List.length_map]
      exact List.length_filter_le _ _
    have hmexk : mex (nbrCols adj acc v) < k := by
      have := mex_le_length (nbrCols adj acc v)
      simp only [List.length_append, List.length_cons] at hlen
      omega
    have hft : firstTrue av = some (mex (nbrCols adj acc v)) :=
      firstTrue_eq_mex av _ (by rw [hb2]; exact hmexk) hav
    unfold assignLoop
    rw [hb1]
    simp only [hft]
    have hvkeys : v ∈ orders.map (·.1) := hkeys v (by simp)
    have hvdone : v ∉ done := by
      intro h
      have := (List.nodup_append.mp hnd).2.2 v h v (by simp)
      exact this rfl
    obtain ⟨orders', r1, r2, r3, r4⟩ := ih (done ++ [v])
      (setOrder orders v (mex (nbrCols adj acc v))) (acc ++ [(v, mex (nbrCols adj acc v))])
      (by simp [hacc])
      (by
        intro p hp
        rcases List.mem_append.mp hp with hp | hp
        · have hne : p.1 ≠ v := by
            intro e
            apply hvdone
            rw [← e, ← hacc]; exact mem_keys_of_mem hp
          rw [lookup_setOrder_ne _ _ _ _ hne]; exact hlk p hp
        · simp at hp; subst hp
          exact lookup_setOrder_eq _ _ _ hvkeys)
      (by
        intro p hp
        rcases List.mem_append.mp hp with hp | hp
        · exact hlt p hp
        · simp at hp; subst hp; exact hmexk)
      (by simpa using hnd)
      (by
        intro x hx
        rw [setOrder_keys]
        exact hkeys x (by simpa using hx))
      (by simpa using hlen)
    refine ⟨orders', r1, by rw [r2, setOrder_keys], ?_, ?_⟩
    · intro p hp
      unfold greedyAux at hp
      exact r3 p hp
    · intro x hx
      have hx1 : x ∉ rest := fun h => hx (List.mem_cons_of_mem _ h)
      have hx2 : x ≠ v := fun e => hx (by simp [e])
      rw [r4 x hx1, lookup_setOrder_ne _ _ _ _ hx2]

theorem lookup_zero_map (comp : List Nat) (x : Nat) : lookup (comp.map (fun r => (r, 0))) x = 0 := by
  by_cases h : x ∈ comp
  · exact lookup_map (fun _ => 0) h
  · apply lookup_of_not_mem
    simpa [List.map_map, Function.comp_def] using h

/-- **the loop over one permutation never raises and computes the greedy colouring along it** -/
theorem permOrders_spec (g : Graph) (adj : Nat → Nat → Bool)
    (hadj : ∀ u v, (nbrs g v).contains u = adj u v) (comp π : List Nat) (hnd : comp.Nodup)
    (hπ : π.Perm comp) :
    ∃ orders, permOrders g comp π = .ok orders ∧ orders.map (·.1) = comp ∧
      ∀ x, lookup orders x = lookup (greedy adj π) x := by
  have hkeys0 : (comp.map (fun r => (r, 0))).map (·.1) = comp := by
    simp [List.map_map, Function.comp_def]
  cases π with
  | nil =>
    have : comp = [] := List.Perm.eq_nil hπ.symm
    subst this
    exact ⟨[], rfl, rfl, fun x => rfl⟩
  | cons p0 rest =>
    have hπnd : (p0 :: rest).Nodup := (List.Perm.nodup_iff hπ).mpr hnd
    have hmex0 : mex (nbrCols adj [] p0) = 0 := by simp [nbrCols, mex, mexFrom]
    obtain ⟨orders', r1, r2, r3, r4⟩ := assignLoop_spec g adj hadj comp.length rest [p0]
      (comp.map (fun r => (r, 0))) [(p0, 0)] rfl
      (by intro p hp; simp at hp; subst hp; exact lookup_zero_map comp p0)
      (by
        intro p hp; simp at hp; subst hp
        have : 0 < (p0 :: rest).length := by simp
        rw [hπ.length_eq] at this; exact this)
      (by simpa using hπnd)
      (by
        intro x hx
        rw [hkeys0]
        exact hπ.subset (by simpa using hx))
      (by rw [← hπ.length_eq]; simp)
    refine ⟨orders', r1, by rw [r2, hkeys0], ?_⟩
    have hgr : greedy adj (p0 :: rest) = greedyAux adj rest [(p0, 0)] := by
      simp [greedy, greedyAux, hmex0]
    obtain ⟨_, _, hK⟩ := greedy_is_grundy adj (p0 :: rest)
    have hknd : ((greedy adj (p0 :: rest)).map (·.1)).Nodup := by rw [hK]; exact hπnd
    intro x
    by_cases hx : x ∈ p0 :: rest
    · have : x ∈ (greedy adj (p0 :: rest)).map (·.1) := by rw [hK]; exact hx
      obtain ⟨p, hp, rfl⟩ := List.mem_map.mp this
      rw [lookup_of_mem hknd hp]
      exact r3 p (by rw [← hgr]; exact hp)
    · have e1 : lookup (greedy adj (p0 :: rest)) x = 0 :=
        lookup_of_not_mem (by rw [hK]; exact hx)
      have hx1 : x ∉ rest := fun h => hx (List.mem_cons_of_mem _ h)
      rw [e1, r4 x hx1]
      exact lookup_zero_map comp x

/-! ### greedy along a permutation, position by position -/

theorem greedyAux_append (adj : Nat → Nat → Bool) : ∀ (a b : List Nat) (acc : List (Nat × Nat)),
    greedyAux adj (a ++ b) acc = greedyAux adj b (greedyAux adj a acc) := by
  intro a
  induction a with
  | nil => intro b acc; rfl
  | cons x xs ih => intro b acc; simp only [List.cons_append, greedyAux]; exact ih b _

theorem greedyAux_prefix (adj : Nat → Nat → Bool) : ∀ (vs : List Nat) (acc : List (Nat × Nat)),
    ∃ t, greedyAux adj vs acc = acc ++ t := by
  intro vs
  induction vs with
  | nil => intro acc; exact ⟨[], by simp [greedyAux]⟩
  | cons v vs ih =>
    intro acc
    obtain ⟨t, ht⟩ := ih (acc ++ [(v, mex (nbrCols adj acc v))])
    exact ⟨(v, mex (nbrCols adj acc v)) :: t, by simp only [greedyAux]; rw [ht]; simp⟩

theorem assoc_eq_map_keys (L : Nat → Nat) : ∀ (l : List (Nat × Nat)), (∀ p ∈ l, L p.1 = p.2) →
    l = (l.map (·.1)).map (fun u => (u, L u)) := by
  intro l
  induction l with
  | nil => intro _; rfl
  | cons p ps ih =>
    intro h
    simp only [List.map_cons]
    rw [h p (by simp), ← ih (fun q hq => h q (List.mem_cons_of_mem _ hq))]

/-- the colour of the element at a position is the least colour not used by an earlier neighbour -/
theorem greedy_at_position (adj : Nat → Nat → Bool) (pre suf : List Nat) (v : Nat)
    (hnd : (pre ++ v :: suf).Nodup) :
    lookup (greedy adj (pre ++ v :: suf)) v =
      mex ((pre.filter (fun u => adj u v)).map (lookup (greedy adj (pre ++ v :: suf)))) := by
  have hsplit : greedy adj (pre ++ v :: suf) =
      greedyAux adj suf (greedy adj pre ++ [(v, mex (nbrCols adj (greedy adj pre) v))]) := by
    unfold greedy
    rw [greedyAux_append]
    rfl
  obtain ⟨t, ht⟩ := greedyAux_prefix adj suf (greedy adj pre ++ [(v, mex (nbrCols adj (greedy adj pre) v))])
  obtain ⟨_, _, hK⟩ := greedy_is_grundy adj (pre ++ v :: suf)
  have hknd : ((greedy adj (pre ++ v :: suf)).map (·.1)).Nodup := by rw [hK]; exact hnd
  obtain ⟨_, _, hKp⟩ := greedy_is_grundy adj pre
  have hmemv : (v, mex (nbrCols adj (greedy adj pre) v)) ∈ greedy adj (pre ++ v :: suf) := by
    rw [hsplit, ht]; simp
  rw [lookup_of_mem hknd hmemv]
  congr 1
  -- the colours of the earlier neighbours, read from the full colouring
  have hpre : ∀ p ∈ greedy adj pre, lookup (greedy adj (pre ++ v :: suf)) p.1 = p.2 := by
    intro p hp
    apply lookup_of_mem hknd
    rw [hsplit, ht]
    simp [hp]
  have hform : greedy adj pre = pre.map (fun u => (u, lookup (greedy adj (pre ++ v :: suf)) u)) := by
    have := assoc_eq_map_keys (lookup (greedy adj (pre ++ v :: suf))) (greedy adj pre) hpre
    rw [hKp] at this
    exact this
  unfold nbrCols
  conv => lhs; rw [hform]
  rw [List.filter_map, List.map_map]
  rfl

end RnaVerif.SecStr.Impl

import RnaVerif.Lemmas.MotionAlgebra
import RnaVerif.Lemmas.FindPerm
/-!
# Invariance of the decision layer of `find_pairs` under changes of presentation (C05)

One relation covers the three presentation changes of the property: `StructSim R t s s'` says that `s'`
lists the same residues as `s`, position by position, such that
* every named atom of `s'[i]` is found at the `R,t`-moved position of the same-named atom of `s[i]`
  (`findAtom s'[i] n = (findAtom s[i] n).map (move R t)`) and the base letter is the same;
* the residue order `resLt` and the same-residue test agree between `s'` and `s` for every two positions.
Rigid motion: keys untouched.  Atom order: `R = 1, t = 0`, `findAtom` unchanged because names are
duplicate-free.  Relabelling: `R = 1, t = 0`, atoms untouched, order preserved by hypothesis.

Every decision function of `Model/Pairs.lean` is shown to give the same answer on `s'` as on `s` for every
proper `R` (rows orthonormal, det 1) with rational entries and every rational `t`.
-/
namespace RnaVerif.Pairs
open RnaVerif

/-! ## small list helpers -/

theorem flatMap_congr' {α β} {f g : α → List β} {l : List α} (h : ∀ a ∈ l, f a = g a) :
    l.flatMap f = l.flatMap g := by
  induction l with
  | nil => rfl
  | cons x xs ih =>
    simp only [List.flatMap_cons]
    rw [h x (by simp), ih (fun a ha => h a (List.mem_cons_of_mem _ ha))]

theorem filterMap_congr' {α β} {f g : α → Option β} {l : List α} (h : ∀ a ∈ l, f a = g a) :
    l.filterMap f = l.filterMap g := by
  induction l with
  | nil => rfl
  | cons x xs ih =>
    simp only [List.filterMap_cons]
    rw [h x (by simp), ih (fun a ha => h a (List.mem_cons_of_mem _ ha))]

/-! ## one residue -/

/-- `r'` presents the residue `r` after the motion `R, t` -/
structure ResSim (R : M3 Rat) (t : Q3) (r r' : Res) : Prop where
  base : r'.base = r.base
  atoms : ∀ n, findAtom r' n = (findAtom r n).map (V3.move R t)

variable {R : M3 Rat} {t : Q3} {P : Params}

theorem findAtom_move (R : M3 Rat) (t : Q3) (r : Res) (n : String) :
    findAtom (moveRes R t r) n = (findAtom r n).map (V3.move R t) := by
  simp only [findAtom, moveRes, List.find?_map, Option.map_map]
  rfl

theorem resSim_move (R : M3 Rat) (t : Q3) (r : Res) : ResSim R t r (moveRes R t r) :=
  ⟨rfl, findAtom_move R t r⟩

theorem normal_sim (hR : M3.Proper R) {r r' : Res} (h : ResSim R t r r') :
    normal P r' = (normal P r).map (M3.apply R) := by
  unfold normal
  rw [h.base]
  simp only []
  split
  · next o a1 a2 _ =>
    rw [h.atoms o, h.atoms a1, h.atoms a2]
    cases findAtom r o <;> cases findAtom r a1 <;> cases findAtom r a2 <;>
      simp [V3.move_sub, M3.cross_rot hR.1 hR.2]
  · rfl

theorem normal_sim_mirror (hR : M3.Mirror R) {r r' : Res} (h : ResSim R t r r') :
    normal P r' = (normal P r).map (fun n => V3.neg (M3.apply R n)) := by
  unfold normal
  rw [h.base]
  simp only []
  split
  · next o a1 a2 _ =>
    rw [h.atoms o, h.atoms a1, h.atoms a2]
    cases findAtom r o <;> cases findAtom r a1 <;> cases findAtom r a2 <;>
      simp [V3.move_sub, M3.cross_mirror hR.1 hR.2]
  · rfl

theorem glycoName_sim {r r' : Res} (h : ResSim R t r r') : glycoName P r' = glycoName P r := by
  unfold glycoName; rw [h.base]

/-! ## the geometric tests -/

theorem angleTri_rot (hR : M3.Orthonormal (1 : Rat) 0 R) (n v : Q3) :
    angleTri P (M3.apply R n) (M3.apply R v) = angleTri P n v := by
  unfold angleTri
  rw [M3.dot_rot hR, M3.norm2_rot hR, M3.norm2_rot hR]

theorem hbondGeomTri_move (hR : M3.Orthonormal (1 : Rat) 0 R) (ni nj pa pb : Q3) :
    hbondGeomTri P (M3.apply R ni) (M3.apply R nj) (V3.move R t pa) (V3.move R t pb) =
      hbondGeomTri P ni nj pa pb := by
  unfold hbondGeomTri
  simp only [V3.move_sub, M3.norm2_rot hR, angleTri_rot hR]

/-- the angle test looks at `(n·v)²` and at the sign of `n·v` only to choose between two enclosures: when
these coincide (as in the source, a window symmetric about 90°) reversing a normal changes nothing -/
theorem angleTri_neg (hsym : P.encLo = P.encHi) (n v : Q3) : angleTri P (V3.neg n) v = angleTri P n v := by
  unfold angleTri
  have e1 : V3.dot (V3.neg n) v = - V3.dot n v := by simp only [V3.dot, V3.neg]; ring
  have e2 : V3.norm2 (V3.neg n) = V3.norm2 n := by simp only [V3.norm2, V3.dot, V3.neg]; ring
  rw [e1, e2, hsym]
  simp only [ite_self, neg_mul_neg]

theorem torsionX_move (hR : M3.Orthonormal (1 : Rat) 0 R) (p1 p2 p3 p4 : Q3) :
    torsionX (V3.move R t p1) (V3.move R t p2) (V3.move R t p3) (V3.move R t p4) = torsionX p1 p2 p3 p4 := by
  unfold torsionX
  simp only [V3.move_sub, V3.binet, M3.dot_rot hR]

/-- the cis/trans test is a function of dot products only (Binet–Cauchy), hence invariant under every
orthogonal matrix — mirror images included -/
theorem torsionCisTri_move (hR : M3.Orthonormal (1 : Rat) 0 R) (p1 p2 p3 p4 : Q3) :
    torsionCisTri (V3.move R t p1) (V3.move R t p2) (V3.move R t p3) (V3.move R t p4) =
      torsionCisTri p1 p2 p3 p4 := by
  unfold torsionCisTri
  simp only [V3.move_sub, V3.binet, V3.norm2_cross, M3.dot_rot hR, M3.norm2_rot hR]

/-- the sine part of a torsion, `[v₁, v₂, v₃]` up to the positive factor |v₂|: the quantity that tells a
structure from its mirror image -/
def torsionY (p1 p2 p3 p4 : Q3) : Rat := V3.triple (V3.sub p2 p1) (V3.sub p3 p2) (V3.sub p4 p3)

theorem torsionY_move (R : M3 Rat) (p1 p2 p3 p4 : Q3) :
    torsionY (V3.move R t p1) (V3.move R t p2) (V3.move R t p3) (V3.move R t p4) =
      M3.det R * torsionY p1 p2 p3 p4 := by
  unfold torsionY
  simp only [V3.move_sub, M3.triple_rot]

theorem cisTri_sim (hR : M3.Orthonormal (1 : Rat) 0 R) {ri rj ri' rj' : Res}
    (hi : ResSim R t ri ri') (hj : ResSim R t rj rj') : cisTri P ri' rj' = cisTri P ri rj := by
  unfold cisTri
  rw [glycoName_sim hi, glycoName_sim hj, hi.atoms, hj.atoms, hi.atoms, hj.atoms]
  cases findAtom ri P.glycoSugar <;> cases findAtom rj P.glycoSugar <;>
    cases findAtom ri (glycoName P ri) <;> cases findAtom rj (glycoName P rj) <;>
    simp [torsionCisTri_move hR]

/-! ## typed points and contacts -/

def movePoint (R : M3 Rat) (t : Q3) (e : String × Q3 × List Char × Kind) : String × Q3 × List Char × Kind :=
  (e.1, V3.move R t e.2.1, e.2.2.1, e.2.2.2)

theorem edgePoints_sim {r r' : Res} (h : ResSim R t r r') :
    edgePoints P r' = (edgePoints P r).map (movePoint R t) := by
  unfold edgePoints
  rw [h.base, List.map_filterMap]
  apply filterMap_congr'
  intro n _
  rw [h.atoms n]
  cases findAtom r n with
  | none => rfl
  | some p =>
    cases h2 : edgesOf P r.base n with
    | none => simp
    | some e => simp [movePoint]

theorem contactsBetween_sim (hR : M3.Proper R) (i j : Nat) {ri rj ri' rj' : Res}
    (hi : ResSim R t ri ri') (hj : ResSim R t rj rj') (hs : sameResidue ri' rj' = sameResidue ri rj) :
    contactsBetween P i j ri' rj' = contactsBetween P i j ri rj := by
  unfold contactsBetween
  rw [hs, normal_sim hR hi, normal_sim hR hj, edgePoints_sim hi, edgePoints_sim hj]
  split
  · rfl
  · cases normal P ri with
    | none => rfl
    | some ni =>
      cases normal P rj with
      | none => rfl
      | some nj =>
        simp only [Option.map_some, List.flatMap_map, List.filterMap_map]
        apply flatMap_congr'
        intro a _
        apply filterMap_congr'
        intro b _
        simp only [movePoint, Function.comp, hbondGeomTri_move hR.1]

theorem allPoints_sim {r r' : Res} (h : ResSim R t r r') :
    allPoints P r' = (allPoints P r).map (V3.move R t) := by
  unfold allPoints
  rw [h.base, List.map_filterMap]
  apply filterMap_congr'
  intro n _
  exact h.atoms n

theorem ballFold_move (hR : M3.Orthonormal (1 : Rat) 0 R) (c : Q3) (ps : List Q3) (m : Rat) :
    (ps.map (V3.move R t)).foldl (fun m p => let d := V3.dist2 (V3.move R t c) p; if d > m then d else m) m =
      ps.foldl (fun m p => let d := V3.dist2 c p; if d > m then d else m) m := by
  induction ps generalizing m with
  | nil => rfl
  | cons p ps ih =>
    simp only [List.map_cons, List.foldl_cons, V3.dist2_move hR]
    exact ih _

def moveBall (R : M3 Rat) (t : Q3) (b : Q3 × Nat) : Q3 × Nat := (V3.move R t b.1, b.2)

theorem ball_sim (hR : M3.Orthonormal (1 : Rat) 0 R) {r r' : Res} (h : ResSim R t r r') :
    ball P r' = (ball P r).map (moveBall R t) := by
  unfold ball
  rw [allPoints_sim h]
  cases allPoints P r with
  | nil => rfl
  | cons c ps =>
    simp only [List.map_cons, Option.map_some, moveBall]
    rw [ballFold_move hR]

theorem near_move (hR : M3.Orthonormal (1 : Rat) 0 R) (bi bj : Option (Q3 × Nat)) (rc : Nat) :
    near (bi.map (moveBall R t)) (bj.map (moveBall R t)) rc = near bi bj rc := by
  cases bi with
  | none => rfl
  | some a =>
    cases bj with
    | none => rfl
    | some b =>
      obtain ⟨ci, ri⟩ := a
      obtain ⟨cj, rj⟩ := b
      simp only [Option.map_some, near, moveBall, V3.dist2_move hR]

/-! ## base–phosphate / base–ribose -/

theorem bphClasses_sim (hR : M3.Orthonormal (1 : Rat) 0 R) {r r' : Res} (h : ResSim R t r r')
    (donor : String) (dp ap : Q3) :
    bphClasses P r' donor (V3.move R t dp) (V3.move R t ap) = bphClasses P r donor dp ap := by
  unfold bphClasses
  rw [h.base]
  cases bphEntry P r.base donor with
  | none => rfl
  | some e =>
    obtain ⟨r1, r2, cin, cout⟩ := e
    simp only []
    split
    · rfl
    · rw [h.atoms r1, h.atoms r2]
      cases findAtom r r1 <;> cases findAtom r r2 <;> simp [torsionCisTri_move hR]

def moveNamed (R : M3 Rat) (t : Q3) (e : String × Q3) : String × Q3 := (e.1, V3.move R t e.2)

theorem donorPoints_sim {r r' : Res} (h : ResSim R t r r') :
    donorPoints P r' = (donorPoints P r).map (moveNamed R t) := by
  unfold donorPoints
  rw [h.base, List.map_filterMap]
  apply filterMap_congr'
  intro n _
  rw [h.atoms n]
  split
  · cases findAtom r n <;> simp [moveNamed]
  · rfl

theorem oxygenPoints_sim {r r' : Res} (h : ResSim R t r r') (names : List String) :
    oxygenPoints r' names = (oxygenPoints r names).map (moveNamed R t) := by
  unfold oxygenPoints
  rw [List.map_filterMap]
  apply filterMap_congr'
  intro n _
  rw [h.atoms n]
  cases findAtom r n <;> simp [moveNamed]

theorem bcontactsBetween_sim (hR : M3.Orthonormal (1 : Rat) 0 R) (names : List String) (d a : Nat)
    {rd ra rd' ra' : Res} (hd : ResSim R t rd rd') (ha : ResSim R t ra ra')
    (hs : sameResidue rd' ra' = sameResidue rd ra) :
    bcontactsBetween P names d a rd' ra' = bcontactsBetween P names d a rd ra := by
  unfold bcontactsBetween
  rw [hs, donorPoints_sim hd, oxygenPoints_sim ha]
  split
  · rfl
  · simp only [List.flatMap_map, List.filterMap_map]
    apply flatMap_congr'
    intro x _
    apply filterMap_congr'
    intro y _
    simp only [moveNamed, Function.comp, V3.dist2_move hR, bphClasses_sim hR hd]

/-! ## whole structures -/

/-- `s'` presents the structure `s` after the motion `R, t`: residues correspond position by position, the
residue order and the same-residue test agree -/
structure StructSim (R : M3 Rat) (t : Q3) (s s' : Array Res) : Prop where
  size : s'.size = s.size
  res : ∀ (i : Nat) (r r' : Res), s[i]? = some r → s'[i]? = some r' → ResSim R t r r'
  lt : ∀ (i j : Nat) (ri rj ri' rj' : Res), s[i]? = some ri → s[j]? = some rj → s'[i]? = some ri' → s'[j]? = some rj' →
    resLt ri' rj' = resLt ri rj
  same : ∀ (i j : Nat) (ri rj ri' rj' : Res), s[i]? = some ri → s[j]? = some rj → s'[i]? = some ri' → s'[j]? = some rj' →
    sameResidue ri' rj' = sameResidue ri rj

theorem StructSim.none_iff {s s' : Array Res} (h : StructSim R t s s') (i : Nat) :
    s'[i]? = none ↔ s[i]? = none := by
  simp only [Array.getElem?_eq_none_iff, h.size]

/-- position by position: both present (and similar) or both absent -/
theorem StructSim.cases {s s' : Array Res} (h : StructSim R t s s') (i : Nat) :
    (s[i]? = none ∧ s'[i]? = none) ∨ ∃ r r', s[i]? = some r ∧ s'[i]? = some r' ∧ ResSim R t r r' := by
  cases e : s[i]? with
  | none => exact Or.inl ⟨rfl, (h.none_iff i).mpr e⟩
  | some r =>
    cases e' : s'[i]? with
    | none => rw [(h.none_iff i).mp e'] at e; cases e
    | some r' => exact Or.inr ⟨r, r', rfl, rfl, h.res i r r' e e'⟩

theorem ballAt (s : Array Res) (i : Nat) : (s.map (ball P)).getD i none = (s[i]?).bind (ball P) := by
  rw [Array.getD_eq_getD_getElem?, Array.getElem?_map]
  cases s[i]? <;> rfl

theorem ballAt_sim (hR : M3.Orthonormal (1 : Rat) 0 R) {s s' : Array Res} (h : StructSim R t s s') (i : Nat) :
    (s'.map (ball P)).getD i none = ((s.map (ball P)).getD i none).map (moveBall R t) := by
  rw [ballAt, ballAt]
  rcases h.cases i with ⟨e, e'⟩ | ⟨r, r', e, e', hs⟩
  · rw [e, e']; rfl
  · rw [e, e']; exact ball_sim hR hs

theorem nearPairs_sim (hR : M3.Orthonormal (1 : Rat) 0 R) {s s' : Array Res} (h : StructSim R t s s') :
    nearPairs P s' = nearPairs P s := by
  unfold nearPairs
  simp only [h.size, ballAt_sim hR h, near_move hR]

theorem contacts_sim (hR : M3.Proper R) {s s' : Array Res} (h : StructSim R t s s') :
    contacts P s' = contacts P s := by
  unfold contacts
  rw [nearPairs_sim hR.1 h]
  apply flatMap_congr'
  rintro ⟨i, j⟩ _
  simp only []
  rcases h.cases i with ⟨ei, ei'⟩ | ⟨ri, ri', ei, ei', hi⟩
  · rw [ei, ei']
  · rcases h.cases j with ⟨ej, ej'⟩ | ⟨rj, rj', ej, ej', hj⟩
    · rw [ei, ei', ej, ej']
    · rw [ei, ei', ej, ej']
      exact contactsBetween_sim hR i j hi hj (h.same i j ri rj ri' rj' ei ej ei' ej')

theorem contactsAll_sim (hR : M3.Proper R) {s s' : Array Res} (h : StructSim R t s s') :
    contactsAll P s' = contactsAll P s := by
  unfold contactsAll
  rw [h.size]
  apply flatMap_congr'
  intro i _
  apply flatMap_congr'
  intro j _
  split
  · rcases h.cases i with ⟨ei, ei'⟩ | ⟨ri, ri', ei, ei', hi⟩
    · rw [ei, ei']
    · rcases h.cases j with ⟨ej, ej'⟩ | ⟨rj, rj', ej, ej', hj⟩
      · rw [ei, ei', ej, ej']
      · rw [ei, ei', ej, ej']
        exact contactsBetween_sim hR i j hi hj (h.same i j ri rj ri' rj' ei ej ei' ej')
  · rfl

theorem bcontacts_sim (hR : M3.Orthonormal (1 : Rat) 0 R) (names : List String) {s s' : Array Res}
    (h : StructSim R t s s') : bcontacts P names s' = bcontacts P names s := by
  unfold bcontacts
  rw [nearPairs_sim hR h]
  apply flatMap_congr'
  rintro ⟨i, j⟩ _
  simp only []
  rcases h.cases i with ⟨ei, ei'⟩ | ⟨ri, ri', ei, ei', hi⟩
  · rw [ei, ei']
  · rcases h.cases j with ⟨ej, ej'⟩ | ⟨rj, rj', ej, ej', hj⟩
    · rw [ei, ei', ej, ej']
    · rw [ei, ei', ej, ej']
      simp only []
      rw [bcontactsBetween_sim hR names i j hi hj (h.same i j ri rj ri' rj' ei ej ei' ej'),
        bcontactsBetween_sim hR names j i hj hi (h.same j i rj ri rj' ri' ej ei ej' ei')]

theorem modelLabels_sim (hR : M3.Orthonormal (1 : Rat) 0 R) {s s' : Array Res} (h : StructSim R t s s')
    (cs : List Contact) : modelLabels P s' cs = modelLabels P s cs := by
  unfold modelLabels
  apply flatMap_congr'
  intro c _
  rcases h.cases c.i with ⟨ei, ei'⟩ | ⟨ri, ri', ei, ei', hi⟩
  · rw [ei, ei']
  · rcases h.cases c.j with ⟨ej, ej'⟩ | ⟨rj, rj', ej, ej', hj⟩
    · rw [ei, ei', ej, ej']
    · rw [ei, ei', ej, ej']
      simp only []
      rw [cisTri_sim hR hi hj, h.lt c.i c.j ri rj ri' rj' ei ej ei' ej']

/-- two lists that answer a test alike position by position have equally many hits -/
theorem filter_length_congr {α β} (p : α → Bool) (q : β → Bool) :
    ∀ (l : List α) (l' : List β), l.length = l'.length →
      (∀ (i : Nat) (a : α) (b : β), l[i]? = some a → l'[i]? = some b → p a = q b) →
      (l.filter p).length = (l'.filter q).length
  | [], [], _, _ => rfl
  | [], _ :: _, h, _ => by simp at h
  | _ :: _, [], h, _ => by simp at h
  | a :: l, b :: l', h, hpq => by
    have h0 : p a = q b := hpq 0 a b rfl rfl
    have ih := filter_length_congr p q l l' (by simpa using h)
      (fun i x y hx hy => hpq (i + 1) x y (by simpa using hx) (by simpa using hy))
    simp only [List.filter_cons, h0]
    split <;> simp [ih]

theorem rankOf_sim {s s' : Array Res} (h : StructSim R t s s') (i : Nat) : rankOf s' i = rankOf s i := by
  unfold rankOf
  rcases h.cases i with ⟨ei, ei'⟩ | ⟨r, r', ei, ei', _⟩
  · rw [ei, ei', h.size]
  · rw [ei, ei']
    simp only []
    apply filter_length_congr
    · simp [h.size]
    · intro j a b ha hb
      have ha' : s'[j]? = some a := by simpa using ha
      have hb' : s[j]? = some b := by simpa using hb
      exact h.lt j i b r a r' hb' ei ha' ei'

theorem modelPairs_sim (hR : M3.Orthonormal (1 : Rat) 0 R) {s s' : Array Res} (h : StructSim R t s s')
    (cs : List Contact) : modelPairs P s' cs = modelPairs P s cs := by
  unfold modelPairs
  simp only [modelLabels_sim hR h, h.size]
  have : (List.range s.size).map (rankOf s') = (List.range s.size).map (rankOf s) :=
    List.map_congr_left (fun i _ => rankOf_sim h i)
  rw [this]

/-! ## the specification predicates evaluated on the implementation's output -/

theorem checkSound_sim (hR : M3.Orthonormal (1 : Rat) 0 R) {s s' : Array Res} (h : StructSim R t s s')
    (cs : List Contact) : checkSound P s' cs = checkSound P s cs := by
  funext v p
  unfold checkSound
  split
  · rfl
  · rcases h.cases p.i with ⟨ei, ei'⟩ | ⟨ri, ri', ei, ei', hi⟩
    · rw [ei, ei']
    · rcases h.cases p.j with ⟨ej, ej'⟩ | ⟨rj, rj', ej, ej', hj⟩
      · rw [ei, ei', ej, ej']
      · rw [ei, ei', ej, ej']
        simp only []
        rw [cisTri_sim hR hi hj]

theorem checkMaximal_sim (hR : M3.Orthonormal (1 : Rat) 0 R) {s s' : Array Res} (h : StructSim R t s s')
    (cs : List Contact) (rep : List Reported) (v : Verdict) :
    checkMaximal P s' cs rep v = checkMaximal P s cs rep v := by
  unfold checkMaximal
  simp only []
  congr 1
  funext v ij
  obtain ⟨i, j⟩ := ij
  simp only []
  rcases h.cases i with ⟨ei, ei'⟩ | ⟨ri, ri', ei, ei', hi⟩
  · rw [ei, ei']
  · rcases h.cases j with ⟨ej, ej'⟩ | ⟨rj, rj', ej, ej', hj⟩
    · rw [ei, ei', ej, ej']
    · rw [ei, ei', ej, ej']
      simp only []
      rw [cisTri_sim hR hi hj, h.lt i j ri rj ri' rj' ei ej ei' ej', h.lt j i rj ri rj' ri' ej ei ej' ei']

/-- **the C03 verdict on a reported pair list does not depend on the presentation** -/
theorem specPairs_sim (hR : M3.Proper R) {s s' : Array Res} (h : StructSim R t s s') (rep : List Reported) :
    specPairs P s' rep = specPairs P s rep := by
  unfold specPairs
  simp only [contacts_sim hR h, checkSound_sim hR.1 h, checkMaximal_sim hR.1 h]

/-- **the C11 verdict on a reported base–phosphate / base–ribose list does not depend on the presentation** -/
theorem specBph_sim (hR : M3.Orthonormal (1 : Rat) 0 R) (kind : String) (names : List String)
    {s s' : Array Res} (h : StructSim R t s s') (rep : List RepB) :
    specBph P kind names s' rep = specBph P kind names s rep := by
  unfold specBph
  simp only [bcontacts_sim hR names h]

/-! ## mirror images: the base-pair layer is achiral when the angle window is symmetric -/

theorem hbondGeomTri_mirror (hR : M3.Orthonormal (1 : Rat) 0 R) (hsym : P.encLo = P.encHi) (ni nj pa pb : Q3) :
    hbondGeomTri P (V3.neg (M3.apply R ni)) (V3.neg (M3.apply R nj)) (V3.move R t pa) (V3.move R t pb) =
      hbondGeomTri P ni nj pa pb := by
  unfold hbondGeomTri
  simp only [V3.move_sub, M3.norm2_rot hR, angleTri_neg hsym, angleTri_rot hR]

theorem contactsBetween_sim_mirror (hR : M3.Mirror R) (hsym : P.encLo = P.encHi) (i j : Nat)
    {ri rj ri' rj' : Res} (hi : ResSim R t ri ri') (hj : ResSim R t rj rj')
    (hs : sameResidue ri' rj' = sameResidue ri rj) :
    contactsBetween P i j ri' rj' = contactsBetween P i j ri rj := by
  unfold contactsBetween
  rw [hs, normal_sim_mirror hR hi, normal_sim_mirror hR hj, edgePoints_sim hi, edgePoints_sim hj]
  split
  · rfl
  · cases normal P ri with
    | none => rfl
    | some ni =>
      cases normal P rj with
      | none => rfl
      | some nj =>
        simp only [Option.map_some, List.flatMap_map, List.filterMap_map]
        apply flatMap_congr'
        intro a _
        apply filterMap_congr'
        intro b _
        simp only [movePoint, Function.comp, hbondGeomTri_mirror hR.1 hsym]

theorem contacts_sim_mirror (hR : M3.Mirror R) (hsym : P.encLo = P.encHi) {s s' : Array Res}
    (h : StructSim R t s s') : contacts P s' = contacts P s := by
  unfold contacts
  rw [nearPairs_sim hR.1 h]
  apply flatMap_congr'
  rintro ⟨i, j⟩ _
  simp only []
  rcases h.cases i with ⟨ei, ei'⟩ | ⟨ri, ri', ei, ei', hi⟩
  · rw [ei, ei']
  · rcases h.cases j with ⟨ej, ej'⟩ | ⟨rj, rj', ej, ej', hj⟩
    · rw [ei, ei', ej, ej']
    · rw [ei, ei', ej, ej']
      exact contactsBetween_sim_mirror hR hsym i j hi hj (h.same i j ri rj ri' rj' ei ej ei' ej')

/-! ## instance 1: rigid motion -/

theorem structSim_move (R : M3 Rat) (t : Q3) (s : Array Res) : StructSim R t s (moveStruct R t s) where
  size := by simp [moveStruct]
  res := by
    intro i r r' e e'
    simp only [moveStruct, Array.getElem?_map, e, Option.map_some, Option.some.injEq] at e'
    subst e'
    exact resSim_move R t r
  lt := by
    intro i j ri rj ri' rj' ei ej ei' ej'
    simp only [moveStruct, Array.getElem?_map, ei, ej, Option.map_some, Option.some.injEq] at ei' ej'
    subst ei' ej'
    rfl
  same := by
    intro i j ri rj ri' rj' ei ej ei' ej'
    simp only [moveStruct, Array.getElem?_map, ei, ej, Option.map_some, Option.some.injEq] at ei' ej'
    subst ei' ej'
    rfl

/-! ## instance 2: another order of the atoms inside residues -/

theorem apply_id3 (p : Q3) : M3.apply M3.id3 p = p := by
  apply V3.ext' <;> simp [M3.apply, M3.id3, V3.dot]

theorem move_id3 (p : Q3) : V3.move M3.id3 ⟨0, 0, 0⟩ p = p := by
  simp only [V3.move, apply_id3]
  apply V3.ext' <;> simp [V3.add]

theorem proper_id3 : M3.Proper M3.id3 := by
  refine ⟨⟨?_, ?_, ?_, ?_, ?_, ?_⟩, ?_⟩ <;> simp [M3.id3, M3.det, V3.triple, V3.dot, V3.cross]

theorem map_move_id3 (o : Option Q3) : o.map (V3.move M3.id3 ⟨0, 0, 0⟩) = o := by
  cases o <;> simp [move_id3]

/-- **findAtom_perm**: with duplicate-free atom names, `find_atom` does not depend on the order of the atoms -/
theorem findAtom_perm {r : Res} {as : List Atom} (hnd : (r.atoms.map (·.name)).Nodup) (hp : r.atoms.Perm as)
    (n : String) : findAtom (withAtoms r as) n = findAtom r n := by
  unfold findAtom withAtoms
  simp only []
  rw [find?_perm (fun a : Atom => a.name == n) hp (uniq_of_nodup_map (fun a : Atom => a.name) hnd n)]

theorem namesNodup_iff (r : Res) : namesNodup r = true → (r.atoms.map (·.name)).Nodup := by
  unfold namesNodup
  generalize r.atoms = l
  induction l with
  | nil => intro _; simp
  | cons a l ih =>
    intro h
    simp only [pairwiseB, Bool.and_eq_true, List.all_eq_true, bne_iff_ne, ne_eq] at h
    simp only [List.map_cons, List.nodup_cons, List.mem_map, not_exists, not_and]
    exact ⟨fun b hb e => h.1 b hb e.symm, ih h.2⟩

/-- `s'` lists the residues of `s` with the atoms of each residue in some other order; atom names inside a
residue are pairwise different -/
def AtomsPermuted (s s' : Array Res) : Prop :=
  s'.size = s.size ∧ ∀ (i : Nat) (r r' : Res), s[i]? = some r → s'[i]? = some r' →
    (r.atoms.map (·.name)).Nodup ∧ ∃ as, r.atoms.Perm as ∧ r' = withAtoms r as

theorem structSim_perm {s s' : Array Res} (h : AtomsPermuted s s') : StructSim M3.id3 ⟨0, 0, 0⟩ s s' where
  size := h.1
  res := by
    intro i r r' e e'
    obtain ⟨hnd, as, hp, rfl⟩ := h.2 i r r' e e'
    exact ⟨rfl, fun n => by rw [findAtom_perm hnd hp, map_move_id3]⟩
  lt := by
    intro i j ri rj ri' rj' ei ej ei' ej'
    obtain ⟨_, _, _, rfl⟩ := h.2 i ri ri' ei ei'
    obtain ⟨_, _, _, rfl⟩ := h.2 j rj rj' ej ej'
    rfl
  same := by
    intro i j ri rj ri' rj' ei ej ei' ej'
    obtain ⟨_, _, _, rfl⟩ := h.2 i ri ri' ei ei'
    obtain ⟨_, _, _, rfl⟩ := h.2 j rj rj' ej ej'
    rfl

/-! ## instance 3: renaming chains, numbers, insertion codes, identities -/

theorem findAtom_relabel (f : Relabel) (r : Res) (n : String) : findAtom (relabelRes f r) n = findAtom r n := rfl

/-- the renaming keeps the residue order and the same-residue test on the residues of `s` -/
structure OrderPreserving (f : Relabel) (s : Array Res) : Prop where
  lt : ∀ (i j : Nat) (ri rj : Res), s[i]? = some ri → s[j]? = some rj →
    resLt (relabelRes f ri) (relabelRes f rj) = resLt ri rj
  same : ∀ (i j : Nat) (ri rj : Res), s[i]? = some ri → s[j]? = some rj →
    sameResidue (relabelRes f ri) (relabelRes f rj) = sameResidue ri rj

theorem structSim_relabel {f : Relabel} {s : Array Res} (h : OrderPreserving f s) :
    StructSim M3.id3 ⟨0, 0, 0⟩ s (relabelStruct f s) where
  size := by simp [relabelStruct]
  res := by
    intro i r r' e e'
    simp only [relabelStruct, Array.getElem?_map, e, Option.map_some, Option.some.injEq] at e'
    subst e'
    exact ⟨rfl, fun n => by rw [findAtom_relabel, map_move_id3]⟩
  lt := by
    intro i j ri rj ri' rj' ei ej ei' ej'
    simp only [relabelStruct, Array.getElem?_map, ei, ej, Option.map_some, Option.some.injEq] at ei' ej'
    subst ei' ej'
    exact h.lt i j ri rj ei ej
  same := by
    intro i j ri rj ri' rj' ei ej ei' ej'
    simp only [relabelStruct, Array.getElem?_map, ei, ej, Option.map_some, Option.some.injEq] at ei' ej'
    subst ei' ej'
    exact h.same i j ri rj ei ej

theorem optMap_beq {g : String → String} (hg : Function.Injective g) (x y : Option String) :
    (x.map g == y.map g) = (x == y) := by
  cases x <;> cases y <;> simp [hg.eq_iff]

/-- injective renamings of the `label` and `auth` identities keep the same-residue test -/
theorem sameResidue_relabel (f : Relabel) (hl : Function.Injective f.lab) (ha : Function.Injective f.auth)
    (a b : Res) : sameResidue (relabelRes f a) (relabelRes f b) = sameResidue a b := by
  simp only [sameResidue, relabelRes, Option.isSome_map, optMap_beq hl, optMap_beq ha]

/-! ## connectivity tests of the 3D → 2D step -/

theorem atomsTri_sim (hR : M3.Orthonormal (1 : Rat) 0 R) (thr : Rat) {r1 r2 r1' r2' : Res}
    (h1 : ResSim R t r1 r1') (h2 : ResSim R t r2 r2') (n1 n2 : String) :
    Connect.atomsTri thr r1' n1 r2' n2 = Connect.atomsTri thr r1 n1 r2 n2 := by
  unfold Connect.atomsTri
  rw [h1.atoms, h2.atoms]
  cases findAtom r1 n1 <;> cases findAtom r2 n2 <;> simp [V3.dist2_move hR]

theorem nuclTests_sim (hR : M3.Orthonormal (1 : Rat) 0 R) (thr : Rat) (pairs : List (String × String))
    {r r' : Res} (h : ResSim R t r r') : Connect.nuclTests thr pairs r' = Connect.nuclTests thr pairs r := by
  unfold Connect.nuclTests
  apply filterMap_congr'
  intro p _
  exact atomsTri_sim hR thr h h p.1 p.2

theorem linkTri_sim (hR : M3.Orthonormal (1 : Rat) 0 R) (thr : Rat) (atoms : String × String)
    {r1 r2 r1' r2' : Res} (h1 : ResSim R t r1 r1') (h2 : ResSim R t r2 r2') :
    Connect.linkTri thr atoms r1' r2' = Connect.linkTri thr atoms r1 r2 :=
  atomsTri_sim hR thr h1 h2 _ _

theorem pairsUp_map' {α β} (f : α → β) : ∀ l : List α, pairsUp (l.map f) = (pairsUp l).map (Prod.map f f)
  | [] => rfl
  | a :: l => by
    simp only [List.map_cons, pairsUp, List.map_append, List.map_map, pairsUp_map' f l]
    rfl

theorem connect_undecided_move (hR : M3.Orthonormal (1 : Rat) 0 R) (t : Q3) (l : List Res) :
    Connect.undecided (l.map (moveRes R t)) = Connect.undecided l := by
  unfold Connect.undecided Connect.undecidedWith
  simp only [List.flatMap_map]
  rw [pairsUp_map', List.filterMap_map]
  have e1 : l.flatMap (fun a => Connect.nuclTests Gen.nuclConnThreshold Gen.nuclConnPairs (moveRes R t a)) =
      l.flatMap (Connect.nuclTests Gen.nuclConnThreshold Gen.nuclConnPairs) :=
    flatMap_congr' (fun r _ => nuclTests_sim hR _ _ (resSim_move R t r))
  have e2 : (pairsUp l).filterMap
        ((fun p : Res × Res => Connect.linkTri (Gen.mapConnFactor * Gen.mapConnOP) Gen.linkAtoms p.1 p.2) ∘
          Prod.map (moveRes R t) (moveRes R t)) =
      (pairsUp l).filterMap
        (fun p => Connect.linkTri (Gen.mapConnFactor * Gen.mapConnOP) Gen.linkAtoms p.1 p.2) :=
    filterMap_congr' (fun p _ => linkTri_sim hR _ _ (resSim_move R t p.1) (resSim_move R t p.2))
  rw [e1, e2]

end RnaVerif.Pairs

import RnaVerif.Lemmas.Stacking
import RnaVerif.Lemmas.MotionAlgebra
import RnaVerif.Lemmas.FindPerm
/-!
# C05 — the stacking annotation does not depend on the presentation of the structure

(A) proper rigid motions with rational rotation matrix, (B) order of atoms inside residues,
(C) re-keying of residues that preserves order and equality of keys.  Mirror images are the
converse sanity check.
-/
namespace RnaVerif.Stacking
open RnaVerif

/-! ## A. rigid motion -/

section move
variable (R : M3 Rat) (t : V3 Rat)

@[simp] theorem moveRes_letter (r : Res) : (moveRes R t r).letter = r.letter := rfl
@[simp] theorem moveRes_model (r : Res) : (moveRes R t r).model = r.model := rfl
@[simp] theorem moveRes_key (r : Res) : (moveRes R t r).key = r.key := rfl
@[simp] theorem moveAtom_pos (a : Atom) : (moveAtom R t a).pos = V3.move R t a.pos := rfl
@[simp] theorem moveAtom_name (a : Atom) : (moveAtom R t a).name = a.name := rfl

theorem findAtom_move (r : Res) (n : String) :
    findAtom (moveRes R t r) n = (findAtom r n).map (moveAtom R t) := by
  simp only [findAtom, moveRes, List.find?_map]
  rfl

theorem apply_zero : M3.apply R (⟨0, 0, 0⟩ : V3 Rat) = ⟨0, 0, 0⟩ := by
  apply V3.ext' <;> simp only [M3.apply, V3.dot] <;> ring

theorem foldl_add_move (a : V3 Rat) (k : Rat) (ps : List (V3 Rat)) :
    List.foldl V3.add (V3.add (M3.apply R a) (V3.smul k t)) (ps.map (V3.move R t)) =
      V3.add (M3.apply R (List.foldl V3.add a ps)) (V3.smul (k + (ps.length : Rat)) t) := by
  induction ps generalizing a k with
  | nil => simp
  | cons p ps ih =>
    simp only [List.map_cons, List.foldl_cons, List.length_cons]
    have e : V3.add (V3.add (M3.apply R a) (V3.smul k t)) (V3.move R t p) =
        V3.add (M3.apply R (V3.add a p)) (V3.smul (k + 1) t) := by
      rw [M3.apply_add]
      apply V3.ext' <;> simp only [V3.add, V3.smul, V3.move] <;> ring
    rw [e, ih]
    congr 2
    push_cast
    ring

theorem vsum_move (ps : List (V3 Rat)) :
    vsum (ps.map (V3.move R t)) = V3.add (M3.apply R (vsum ps)) (V3.smul (ps.length : Rat) t) := by
  have h := foldl_add_move R t ⟨0, 0, 0⟩ 0 ps
  rw [apply_zero] at h
  have z : V3.add (⟨0, 0, 0⟩ : V3 Rat) (V3.smul 0 t) = ⟨0, 0, 0⟩ := by
    apply V3.ext' <;> simp only [V3.add, V3.smul] <;> ring
  rw [z, zero_add] at h
  exact h

theorem basePoints_move (r : Res) (names : List String) :
    names.filterMap (fun n => (findAtom (moveRes R t r) n).map (·.pos)) =
      (names.filterMap (fun n => (findAtom r n).map (·.pos))).map (V3.move R t) := by
  rw [List.map_filterMap]
  congr 1
  funext n
  rw [findAtom_move]
  cases findAtom r n <;> rfl

/-- centroid equivariance (any matrix R, not only orthogonal) -/
theorem centroid_move (r : Res) : centroid (moveRes R t r) = (centroid r).map (V3.move R t) := by
  simp only [centroid, moveRes_letter, basePoints_move]
  generalize (baseAtomNames r.letter).filterMap (fun n => (findAtom r n).map (·.pos)) = ps
  cases ps with
  | nil => rfl
  | cons p ps =>
    simp only [List.map_cons, List.isEmpty_cons, Bool.false_eq_true, if_false, Option.map_some,
      List.length_cons, List.length_map]
    rw [← List.map_cons, vsum_move]
    congr 1
    have hn : (((ps.length + 1 : Nat)) : Rat) ≠ 0 := Nat.cast_ne_zero.mpr (Nat.succ_ne_zero _)
    simp only [List.length_cons]
    generalize ((ps.length + 1 : Nat) : Rat) = k at hn
    generalize vsum (p :: ps) = s
    simp only [V3.move, M3.apply_smul]
    apply V3.ext' <;> simp only [V3.add, V3.smul] <;>
      rw [mul_add, one_div, inv_mul_cancel_left₀ hn]

end move

section proper
variable {R : M3 Rat}

theorem normal_move (hR : M3.Proper R) (t : V3 Rat) (r : Res) :
    normal (moveRes R t r) = (normal r).map (M3.apply R) := by
  unfold normal
  simp only [moveRes_letter, findAtom_move]
  rcases normalAtoms r.letter with ⟨o, a, b⟩
  simp only
  cases findAtom r o <;> cases findAtom r a <;> cases findAtom r b <;>
    simp only [Option.map_none, Option.map_some]
  rw [moveAtom_pos, moveAtom_pos, moveAtom_pos, V3.move_sub, V3.move_sub, M3.cross_rot hR.1 hR.2]

theorem normal_mirror (hR : M3.Mirror R) (t : V3 Rat) (r : Res) :
    normal (moveRes R t r) = (normal r).map (fun n => V3.neg (M3.apply R n)) := by
  unfold normal
  simp only [moveRes_letter, findAtom_move]
  rcases normalAtoms r.letter with ⟨o, a, b⟩
  simp only
  cases findAtom r o <;> cases findAtom r a <;> cases findAtom r b <;>
    simp only [Option.map_none, Option.map_some]
  rw [moveAtom_pos, moveAtom_pos, moveAtom_pos, V3.move_sub, V3.move_sub, M3.cross_mirror hR.1 hR.2]

theorem prepOne_move (hR : M3.Proper R) (t : V3 Rat) (model : Option Int) (i : Nat) (r : Res) :
    prepOne model (i, moveRes R t r) = (prepOne model (i, r)).map (movePrep R t) := by
  unfold prepOne
  simp only [moveRes_model, centroid_move, normal_move hR, moveRes_key]
  split
  · rfl
  · cases centroid r <;> rfl

end proper

theorem enumFrom'_map {α β} (f : α → β) (k : Nat) (l : List α) :
    enumFrom' k (l.map f) = (enumFrom' k l).map (fun p => (p.1, f p.2)) := by
  induction l generalizing k with
  | nil => rfl
  | cons a l ih => simp only [List.map_cons, enumFrom', ih]

theorem pairsUp_map {α β} (f : α → β) (l : List α) :
    pairsUp (l.map f) = (pairsUp l).map (Prod.map f f) := by
  induction l with
  | nil => rfl
  | cons a l ih =>
    simp only [List.map_cons, pairsUp, ih, List.map_append, List.map_map]
    rfl

section proper
variable {R : M3 Rat}

theorem prepare_move (hR : M3.Proper R) (t : V3 Rat) (model : Option Int) (rs : List Res) :
    prepare model (rs.map (moveRes R t)) = (prepare model rs).map (movePrep R t) := by
  unfold prepare
  rw [enumFrom'_map, List.filterMap_map, List.map_filterMap]
  congr 1
  funext p
  exact prepOne_move hR t model p.1 p.2

theorem distTri_move (hR : M3.Proper R) (t p q : V3 Rat) :
    distTri (V3.norm2 (V3.sub (V3.move R t p) (V3.move R t q))) = distTri (V3.norm2 (V3.sub p q)) := by
  rw [V3.move_sub, M3.norm2_rot hR.1]

theorem normTri_rot (hR : M3.Orthonormal (1 : Rat) 0 R) (n m : V3 Rat) :
    normTri (M3.apply R n) (M3.apply R m) = normTri n m := by
  unfold normTri
  rw [M3.dot_rot hR, M3.norm2_rot hR, M3.norm2_rot hR]

theorem vecTri_rot (hR : M3.Orthonormal (1 : Rat) 0 R) (v n : V3 Rat) :
    vecTri (M3.apply R v) (M3.apply R n) = vecTri v n := by
  unfold vecTri
  rw [M3.dot_rot hR, M3.norm2_rot hR, M3.norm2_rot hR]

theorem pairTri_move (hR : M3.Proper R) (t : V3 Rat) (a b : Prep) :
    pairTri (movePrep R t a) (movePrep R t b) = pairTri a b := by
  unfold pairTri
  simp only [movePrep]
  cases a.n <;> cases b.n <;> simp only [Option.map_none, Option.map_some]
  rw [V3.move_sub, M3.norm2_rot hR.1, normTri_rot hR.1, vecTri_rot hR.1, vecTri_rot hR.1]

theorem sameDirection_move (hR : M3.Proper R) (t : V3 Rat) (a b : Prep) :
    sameDirection (movePrep R t a) (movePrep R t b) = sameDirection a b := by
  unfold sameDirection
  simp only [movePrep]
  cases a.n <;> cases b.n <;> simp only [Option.map_none, Option.map_some]
  rw [M3.dot_rot hR.1]

theorem classify_move (hR : M3.Proper R) (t : V3 Rat) (a b : Prep) :
    classify (movePrep R t a) (movePrep R t b) = moveStk R t (classify a b) := by
  unfold classify
  rw [sameDirection_move hR]
  have ka : (movePrep R t a).key = a.key := rfl
  have kb : (movePrep R t b).key = b.key := rfl
  rw [ka, kb]
  split <;> rfl

theorem collect_move (hR : M3.Proper R) (t : V3 Rat) (cs : List (Prep × Prep)) :
    collect (cs.map (Prod.map (movePrep R t) (movePrep R t))) = (collect cs).map (moveStk R t) := by
  induction cs with
  | nil => rfl
  | cons p cs ih =>
    obtain ⟨a, b⟩ := p
    simp only [List.map_cons, Prod.map_apply, collect, pairTri_move hR, classify_move hR, ih]
    cases pairTri a b <;> simp only [List.map_cons]

theorem candidates_move (hR : M3.Proper R) (t : V3 Rat) (model : Option Int) (rs : List Res) :
    candidates model (rs.map (moveRes R t)) =
      (candidates model rs).map (Prod.map (movePrep R t) (movePrep R t)) := by
  unfold candidates
  rw [prepare_move hR, pairsUp_map]

theorem stkLe_move (R : M3 Rat) (t : V3 Rat) (a b : Stk) :
    stkLe (moveStk R t a) (moveStk R t b) = stkLe a b := rfl

/-- **stackings_move**: the stacking annotation of the moved structure is the moved annotation -/
theorem stackings_move (hR : M3.Proper R) (t : V3 Rat) (model : Option Int) (rs : List Res) :
    stackings model (rs.map (moveRes R t)) = (stackings model rs).map (moveStk R t) := by
  unfold stackings
  rw [candidates_move hR, collect_move hR]
  exact (List.map_mergeSort (fun a _ b _ => (stkLe_move R t a b).symm)).symm

theorem keyView_move (R : M3 Rat) (t : V3 Rat) (s : Stk) : (moveStk R t s).keyView = s.keyView := rfl

theorem stackings_move_view (hR : M3.Proper R) (t : V3 Rat) (model : Option Int) (rs : List Res) :
    (stackings model (rs.map (moveRes R t))).map Stk.keyView = (stackings model rs).map Stk.keyView := by
  rw [stackings_move hR, List.map_map]
  rfl

theorem undecided_move_eq (hR : M3.Proper R) (t : V3 Rat) (model : Option Int) (rs : List Res) :
    undecided model (rs.map (moveRes R t)) =
      (undecided model rs).map (Prod.map (movePrep R t) (movePrep R t)) := by
  unfold undecided
  rw [candidates_move hR, List.filter_map]
  congr 2
  funext p
  simp only [Function.comp, Prod.map_fst, Prod.map_snd, pairTri_move hR]

theorem undecided_move (hR : M3.Proper R) (t : V3 Rat) (model : Option Int) (rs : List Res) :
    (undecided model (rs.map (moveRes R t))).map (fun p => (p.1.idx, p.2.idx)) =
      (undecided model rs).map (fun p => (p.1.idx, p.2.idx)) := by
  rw [undecided_move_eq hR, List.map_map]
  rfl

end proper

/-! ### mirror images: the converse sanity check -/

/-- converse sanity check: under a mirror image the signed vector–normal product changes sign
(the normal is a pseudo-vector, `normal_mirror`) … -/
theorem vec_dot_normal_mirror {R : M3 Rat} (hR : M3.Mirror R) (v n : V3 Rat) :
    V3.dot (M3.apply R v) (V3.neg (M3.apply R n)) = - V3.dot v n := by
  rw [← M3.dot_rot hR.1 v n]
  simp only [V3.dot, V3.neg]; ring

/-- … while the normal–normal product and all distances do not -/
theorem normal_dot_mirror {R : M3 Rat} (hR : M3.Mirror R) (n m : V3 Rat) :
    V3.dot (V3.neg (M3.apply R n)) (V3.neg (M3.apply R m)) = V3.dot n m := by
  rw [← M3.dot_rot hR.1 n m]
  simp only [V3.dot, V3.neg]; ring

/-! ## B. order of the atoms inside a residue -/

theorem findAtom_perm {r : Res} {as : List Atom} (hnd : (r.atoms.map (·.name)).Nodup)
    (hp : r.atoms.Perm as) (n : String) : findAtom (withAtoms r as) n = findAtom r n :=
  (find?_perm (fun a : Atom => a.name == n) hp (uniq_of_nodup_map (fun a : Atom => a.name) hnd n)).symm

theorem centroid_perm {r : Res} {as : List Atom} (hnd : (r.atoms.map (·.name)).Nodup)
    (hp : r.atoms.Perm as) : centroid (withAtoms r as) = centroid r := by
  unfold centroid
  simp only [findAtom_perm hnd hp]
  rfl

theorem normal_perm {r : Res} {as : List Atom} (hnd : (r.atoms.map (·.name)).Nodup)
    (hp : r.atoms.Perm as) : normal (withAtoms r as) = normal r := by
  unfold normal
  simp only [findAtom_perm hnd hp]
  rfl

theorem prepOne_perm {r : Res} {as : List Atom} (hnd : (r.atoms.map (·.name)).Nodup)
    (hp : r.atoms.Perm as) (model : Option Int) (i : Nat) :
    prepOne model (i, withAtoms r as) = prepOne model (i, r) := by
  unfold prepOne
  simp only [centroid_perm hnd hp, normal_perm hnd hp]
  rfl

/-- residues listed with permuted atoms: pointwise relation between two residue lists -/
def AtomsPermuted (rs rs' : List Res) : Prop :=
  List.Forall₂ (fun r r' => (r.atoms.map (·.name)).Nodup ∧ ∃ as, r.atoms.Perm as ∧ r' = withAtoms r as) rs rs'

theorem enumFrom'_perm {rs rs' : List Res} (h : AtomsPermuted rs rs') (model : Option Int) (k : Nat) :
    (enumFrom' k rs').filterMap (prepOne model) = (enumFrom' k rs).filterMap (prepOne model) := by
  induction h generalizing k with
  | nil => rfl
  | cons hr _ ih =>
    obtain ⟨hnd, as, hp, rfl⟩ := hr
    simp only [enumFrom', List.filterMap_cons, prepOne_perm hnd hp, ih]

theorem prepare_perm {rs rs' : List Res} (h : AtomsPermuted rs rs') (model : Option Int) :
    prepare model rs' = prepare model rs := enumFrom'_perm h model 0

/-- **stackings_perm**: the order in which the atoms of a residue are listed is irrelevant -/
theorem stackings_perm {rs rs' : List Res} (h : AtomsPermuted rs rs') (model : Option Int) :
    stackings model rs' = stackings model rs := by
  unfold stackings candidates
  rw [prepare_perm h]

theorem undecided_perm {rs rs' : List Res} (h : AtomsPermuted rs rs') (model : Option Int) :
    undecided model rs' = undecided model rs := by
  unfold undecided candidates
  rw [prepare_perm h]

/-! ## C. re-keying (relabelling of chains / numbers / insertion codes) -/

/-- two presentations of the same residues under different keys: same model, letter and atoms
position by position -/
def Rekeyed (rs rs' : List Res) : Prop :=
  List.Forall₂ (fun r r' => r'.model = r.model ∧ r'.letter = r.letter ∧ r'.atoms = r.atoms) rs rs'

/-- key of the residue at file position i -/
def keyAt (rs : List Res) (i : Nat) : Key := (rs[i]?.map Res.key).getD ⟨0, "", 0, ""⟩

theorem keyAt_lt {rs : List Res} {i : Nat} (h : i < rs.length) : keyAt rs i = rs[i].key := by
  simp only [keyAt, List.getElem?_eq_getElem h, Option.map_some, Option.getD_some]

theorem prepOne_rekey {r r' : Res} (h : r'.model = r.model ∧ r'.letter = r.letter ∧ r'.atoms = r.atoms)
    (K : Nat → Key) (k : Nat) (hK : K k = r'.key) (model : Option Int) :
    prepOne model (k, r') = (prepOne model (k, r)).map (rekeyPrep K) := by
  obtain ⟨m, c, n, ic, l, as⟩ := r
  obtain ⟨m', c', n', ic', l', as'⟩ := r'
  simp only at h
  obtain ⟨rfl, rfl, rfl⟩ := h
  have hc : centroid ⟨m', c', n', ic', l', as'⟩ = centroid ⟨m', c, n, ic, l', as'⟩ := rfl
  have hn : normal ⟨m', c', n', ic', l', as'⟩ = normal ⟨m', c, n, ic, l', as'⟩ := rfl
  unfold prepOne
  simp only [hc, hn]
  split
  · rfl
  · cases centroid ⟨m', c, n, ic, l', as'⟩ with
    | none => rfl
    | some c0 =>
      simp only [Option.map_some, rekeyPrep, hK]

theorem enumFrom'_rekey {rs rs' : List Res} (h : Rekeyed rs rs') (model : Option Int) (k : Nat)
    (K : Nat → Key) (hK : ∀ i (hi : i < rs'.length), K (k + i) = rs'[i].key) :
    (enumFrom' k rs').filterMap (prepOne model) =
      ((enumFrom' k rs).filterMap (prepOne model)).map (rekeyPrep K) := by
  induction h generalizing k with
  | nil => rfl
  | @cons r r' l l' hr _ ih =>
    have h0 : K k = r'.key := hK 0 (Nat.succ_pos _)
    have ht : ∀ i (hi : i < l'.length), K (k + 1 + i) = l'[i].key := by
      intro i hi
      have := hK (i + 1) (Nat.succ_lt_succ hi)
      rw [show k + 1 + i = k + (i + 1) by omega]
      simpa using this
    simp only [enumFrom', List.filterMap_cons, prepOne_rekey hr K k h0 model, ih (k + 1) ht]
    cases prepOne model (k, r) <;> simp only [Option.map_none, Option.map_some, List.map_cons]

theorem prepare_rekey {rs rs' : List Res} (h : Rekeyed rs rs') (model : Option Int) :
    prepare model rs' = (prepare model rs).map (rekeyPrep (keyAt rs')) := by
  unfold prepare
  refine enumFrom'_rekey h model 0 (keyAt rs') ?_
  intro i hi
  rw [Nat.zero_add, keyAt_lt hi]

/-! every prepared residue carries the key of its file position -/

theorem mem_enumFrom' {α} {k : Nat} {l : List α} {q : Nat × α} (hq : q ∈ enumFrom' k l) :
    k ≤ q.1 ∧ l[q.1 - k]? = some q.2 := by
  induction l generalizing k with
  | nil => simp [enumFrom'] at hq
  | cons a l ih =>
    simp only [enumFrom', List.mem_cons] at hq
    rcases hq with rfl | hq
    · simp
    · obtain ⟨h1, h2⟩ := ih hq
      refine ⟨by omega, ?_⟩
      rw [show q.1 - k = (q.1 - (k + 1)) + 1 by omega, List.getElem?_cons_succ]
      exact h2

theorem prepOne_key {m : Option Int} {p : Nat × Res} {q : Prep} (h : prepOne m p = some q) :
    q.key = p.2.key := by
  unfold prepOne at h
  split at h
  · cases h
  · split at h
    · cases h
    · cases h; rfl

/-- a prepared residue of `rs`: in range, and its key is the key at its position -/
def Good (rs : List Res) (p : Prep) : Prop := p.idx < rs.length ∧ p.key = keyAt rs p.idx

theorem prepare_good (model : Option Int) (rs : List Res) : ∀ p ∈ prepare model rs, Good rs p := by
  intro p hp
  unfold prepare at hp
  obtain ⟨q, hq, hpq⟩ := List.mem_filterMap.1 hp
  obtain ⟨_, h2⟩ := mem_enumFrom' hq
  rw [Nat.sub_zero] at h2
  obtain ⟨hlt, he⟩ := List.getElem?_eq_some_iff.1 h2
  have hi := prepOne_idx hpq
  have hk := prepOne_key hpq
  refine ⟨by rw [hi]; exact hlt, ?_⟩
  rw [hk, hi, keyAt_lt hlt, he]

theorem candidates_good (model : Option Int) (rs : List Res) :
    ∀ p ∈ candidates model rs, Good rs p.1 ∧ Good rs p.2 := by
  intro p hp
  obtain ⟨h1, h2⟩ := mem_pairsUp hp
  exact ⟨prepare_good model rs _ h1, prepare_good model rs _ h2⟩

theorem pairTri_rekey (K : Nat → Key) (a b : Prep) :
    pairTri (rekeyPrep K a) (rekeyPrep K b) = pairTri a b := rfl

theorem sameDirection_rekey (K : Nat → Key) (a b : Prep) :
    sameDirection (rekeyPrep K a) (rekeyPrep K b) = sameDirection a b := rfl

theorem classify_rekey (K : Nat → Key) (a b : Prep)
    (h : keyLt (K a.idx) (K b.idx) = keyLt a.key b.key) :
    classify (rekeyPrep K a) (rekeyPrep K b) = rekeyStk K (classify a b) := by
  unfold classify
  rw [sameDirection_rekey]
  have ka : (rekeyPrep K a).key = K a.idx := rfl
  have kb : (rekeyPrep K b).key = K b.idx := rfl
  rw [ka, kb, h]
  split <;> rfl

section rekey
variable {rs rs' : List Res}

theorem collect_rekey
    (hlt : ∀ i j, i < rs.length → j < rs.length →
      keyLt (keyAt rs' i) (keyAt rs' j) = keyLt (keyAt rs i) (keyAt rs j))
    (cs : List (Prep × Prep)) (hg : ∀ p ∈ cs, Good rs p.1 ∧ Good rs p.2) :
    collect (cs.map (Prod.map (rekeyPrep (keyAt rs')) (rekeyPrep (keyAt rs')))) =
      (collect cs).map (rekeyStk (keyAt rs')) := by
  induction cs with
  | nil => rfl
  | cons p cs ih =>
    obtain ⟨a, b⟩ := p
    obtain ⟨⟨ha, hka⟩, ⟨hb, hkb⟩⟩ := hg (a, b) List.mem_cons_self
    have hc : classify (rekeyPrep (keyAt rs') a) (rekeyPrep (keyAt rs') b) =
        rekeyStk (keyAt rs') (classify a b) := by
      apply classify_rekey
      rw [hlt _ _ ha hb, ← hka, ← hkb]
    simp only [List.map_cons, Prod.map_apply, collect, pairTri_rekey, hc,
      ih (fun p hp => hg p (List.mem_cons_of_mem _ hp))]
    cases pairTri a b <;> simp only [List.map_cons]

theorem collect_good (cs : List (Prep × Prep)) (hg : ∀ p ∈ cs, Good rs p.1 ∧ Good rs p.2) :
    ∀ s ∈ collect cs, Good rs s.r1 ∧ Good rs s.r2 := by
  intro s hs
  rw [collect_eq] at hs
  obtain ⟨p, hp, rfl⟩ := List.mem_map.1 hs
  obtain ⟨h1, h2⟩ := hg p (List.mem_of_mem_filter hp)
  unfold classify
  split
  · exact ⟨h1, h2⟩
  · exact ⟨h2, h1⟩

theorem stkLe_rekey
    (hlt : ∀ i j, i < rs.length → j < rs.length →
      keyLt (keyAt rs' i) (keyAt rs' j) = keyLt (keyAt rs i) (keyAt rs j))
    (heq : ∀ i j, i < rs.length → j < rs.length →
      (keyAt rs' i == keyAt rs' j) = (keyAt rs i == keyAt rs j))
    {a b : Stk} (ha : Good rs a.r1 ∧ Good rs a.r2) (hb : Good rs b.r1 ∧ Good rs b.r2) :
    stkLe (rekeyStk (keyAt rs') a) (rekeyStk (keyAt rs') b) = stkLe a b := by
  obtain ⟨⟨a1, ka1⟩, ⟨a2, ka2⟩⟩ := ha
  obtain ⟨⟨b1, kb1⟩, ⟨b2, kb2⟩⟩ := hb
  simp only [stkLe, stkLt, rekeyStk, rekeyPrep]
  rw [hlt _ _ b1 a1, hlt _ _ b2 a2, heq _ _ b1 a1, ka1, ka2, kb1, kb2]

/-- **stackings_rekey**: if the renaming preserves the order and the distinctness of the keys, the
stackings are the same up to the renaming -/
theorem stackings_rekey (h : Rekeyed rs rs')
    (hlt : ∀ i j, i < rs.length → j < rs.length →
      keyLt (keyAt rs' i) (keyAt rs' j) = keyLt (keyAt rs i) (keyAt rs j))
    (heq : ∀ i j, i < rs.length → j < rs.length →
      (keyAt rs' i == keyAt rs' j) = (keyAt rs i == keyAt rs j))
    (model : Option Int) :
    stackings model rs' = (stackings model rs).map (rekeyStk (keyAt rs')) := by
  unfold stackings
  have hc : candidates model rs' =
      (candidates model rs).map (Prod.map (rekeyPrep (keyAt rs')) (rekeyPrep (keyAt rs'))) := by
    unfold candidates
    rw [prepare_rekey h, pairsUp_map]
  rw [hc, collect_rekey hlt _ (candidates_good model rs)]
  have hg := collect_good (rs := rs) _ (candidates_good model rs)
  exact (List.map_mergeSort
    (fun a ha b hb => (stkLe_rekey hlt heq (hg a ha) (hg b hb)).symm)).symm

theorem view_rekey (K : Nat → Key) (s : Stk) : (rekeyStk K s).view = s.view := rfl

theorem stackings_rekey_view (h : Rekeyed rs rs')
    (hlt : ∀ i j, i < rs.length → j < rs.length →
      keyLt (keyAt rs' i) (keyAt rs' j) = keyLt (keyAt rs i) (keyAt rs j))
    (heq : ∀ i j, i < rs.length → j < rs.length →
      (keyAt rs' i == keyAt rs' j) = (keyAt rs i == keyAt rs j))
    (model : Option Int) :
    (stackings model rs').map Stk.view = (stackings model rs).map Stk.view := by
  rw [stackings_rekey h hlt heq, List.map_map]
  rfl

/-- the undecided pairs do not depend on the keys at all -/
theorem undecided_rekey (h : Rekeyed rs rs') (model : Option Int) :
    (undecided model rs').map (fun p => (p.1.idx, p.2.idx)) =
      (undecided model rs).map (fun p => (p.1.idx, p.2.idx)) := by
  unfold undecided candidates
  rw [prepare_rekey h, pairsUp_map, List.filter_map, List.map_map]
  rfl

end rekey

theorem rekeyed_relabel (f : String × Int × String → String × Int × String) (rs : List Res) :
    Rekeyed rs (rs.map (relabelRes f)) := by
  induction rs with
  | nil => exact List.Forall₂.nil
  | cons r rs ih => exact List.Forall₂.cons ⟨rfl, rfl, rfl⟩ ih

/-- corollary for a renaming function on (chain, number, icode) -/
theorem stackings_relabel (f : String × Int × String → String × Int × String) (rs : List Res)
    (hlt : ∀ a ∈ rs, ∀ b ∈ rs, keyLt (relabelRes f a).key (relabelRes f b).key = keyLt a.key b.key)
    (heq : ∀ a ∈ rs, ∀ b ∈ rs, ((relabelRes f a).key == (relabelRes f b).key) = (a.key == b.key))
    (model : Option Int) :
    (stackings model (rs.map (relabelRes f))).map Stk.view = (stackings model rs).map Stk.view := by
  have hk : ∀ i (hi : i < rs.length), keyAt (rs.map (relabelRes f)) i = (relabelRes f rs[i]).key := by
    intro i hi
    rw [keyAt_lt (by simpa using hi), List.getElem_map]
  refine stackings_rekey_view (rekeyed_relabel f rs) ?_ ?_ model
  · intro i j hi hj
    rw [hk i hi, hk j hj, keyAt_lt hi, keyAt_lt hj]
    exact hlt _ (List.getElem_mem hi) _ (List.getElem_mem hj)
  · intro i j hi hj
    rw [hk i hi, hk j hj, keyAt_lt hi, keyAt_lt hj]
    exact heq _ (List.getElem_mem hi) _ (List.getElem_mem hj)

/-! ## non-vacuity -/

/-- a rational proper rotation that is not a permutation of the axes -/
def R0 : M3 Rat := ⟨⟨2/3, -1/3, 2/3⟩, ⟨2/3, 2/3, -1/3⟩, ⟨-1/3, 2/3, 2/3⟩⟩

/-- the reflection in the xy-plane -/
def S0 : M3 Rat := ⟨⟨1, 0, 0⟩, ⟨0, 1, 0⟩, ⟨0, 0, -1⟩⟩

example : M3.Proper R0 := by
  simp only [M3.Proper, M3.Orthonormal, M3.det, V3.triple, V3.dot, V3.cross, R0]
  norm_num

example : M3.Mirror S0 := by
  simp only [M3.Mirror, M3.Orthonormal, M3.det, V3.triple, V3.dot, V3.cross, S0]
  norm_num

example : M3.isProper R0 = true := by decide +kernel
example : M3.isMirror S0 = true := by decide +kernel
example : ¬ M3.Proper S0 := by
  simp only [M3.Proper, M3.Orthonormal, M3.det, V3.triple, V3.dot, V3.cross, S0]
  norm_num

end RnaVerif.Stacking

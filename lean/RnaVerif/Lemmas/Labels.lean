import RnaVerif.Model.Labels
/-!
# Lemmas about the FR3D / DSSR label model (core Lean only)

Part 1: the specification vocabulary of C19 (the grammar of recognised labels, well-formed unit ids).
Part 2: `unify` — case folding, the four rules, prefix/suffix stripping, the `other ↔ ¬ Recognised` theorem.
Part 3: unit ids, lines, listings.   Part 4: DSSR.
-/
namespace RnaVerif.Labels

/-! ## Part 1 — specification vocabulary -/

/-- letters accepted for the cis/trans position -/
def orientLetters : List Char := ['c', 't', 'C', 'T']
/-- letters accepted for an edge position -/
def edgeLetters : List Char := ['W', 'H', 'S', 'w', 'h', 's']

/-- a Leontis–Westhof label: orientation letter and two edge letters, any letter case -/
def IsLWCore (cs : List Char) : Prop :=
  ∃ o e₁ e₂, cs = [o, e₁, e₂] ∧ o ∈ orientLetters ∧ e₁ ∈ edgeLetters ∧ e₂ ∈ edgeLetters
/-- the four stacking labels -/
def IsStackCore (cs : List Char) : Prop :=
  cs = ['s', '3', '3'] ∨ cs = ['s', '3', '5'] ∨ cs = ['s', '5', '3'] ∨ cs = ['s', '5', '5']
/-- `0BR … 9BR` -/
def IsBRCore (cs : List Char) : Prop := ∃ d, d ∈ asciiDigits ∧ cs = [d, 'B', 'R']
/-- `0BPh … 9BPh` -/
def IsBPhCore (cs : List Char) : Prop := ∃ d, d ∈ asciiDigits ∧ cs = [d, 'B', 'P', 'h']

def IsCore (cs : List Char) : Prop := IsLWCore cs ∨ IsStackCore cs ∨ IsBRCore cs ∨ IsBPhCore cs

/-- the grammar of the property statement: optional `n`, a core label, optional `a` -/
def RecognisedL (cs : List Char) : Prop :=
  ∃ pre core suf, cs = pre ++ core ++ suf ∧ (pre = [] ∨ pre = ['n']) ∧ (suf = [] ∨ suf = ['a']) ∧ IsCore core

def Recognised (s : String) : Prop := RecognisedL s.toList

def IsAscii (s : String) : Prop := ∀ c ∈ s.toList, c.toNat < 128

instance (s : String) : Decidable (IsAscii s) := inferInstanceAs (Decidable (∀ c ∈ s.toList, c.toNat < 128))

/-! ## Part 2 — `unify` -/

theorem lookup_zip_none {ks vs : List Char} {c : Char} (h : c ∉ ks) : (ks.zip vs).lookup c = none := by
  induction ks generalizing vs with
  | nil => simp
  | cons k ks ih =>
    cases vs with
    | nil => simp
    | cons v vs =>
      simp only [List.mem_cons, not_or] at h
      have hk : (c == k) = false := by simpa using h.1
      simp [List.zip_cons_cons, List.lookup, hk, ih h.2]

theorem pyUpper_of_not_lower {c : Char} (h : c ∉ asciiLower) : pyUpper c = c := by
  simp [pyUpper, lookup_zip_none h]

theorem pyLower_of_not_upper {c : Char} (h : c ∉ asciiUpper) : pyLower c = c := by
  simp [pyLower, lookup_zip_none h]

/-- `b.upper() == x ↔ b ∈ {x, y}` for an upper-case letter `x` with lower-case form `y` -/
theorem pyUpper_eq_iff (b x y : Char) (hy : y ∈ asciiLower) (hyx : pyUpper y = x) (hx : x ∉ asciiLower)
    (huniq : ∀ z ∈ asciiLower, pyUpper z = x → z = y) : pyUpper b = x ↔ b = x ∨ b = y := by
  by_cases h : b ∈ asciiLower
  · constructor
    · intro hb; exact Or.inr (huniq b h hb)
    · rintro (rfl | rfl)
      · exact absurd h hx
      · exact hyx
  · rw [pyUpper_of_not_lower h]
    constructor
    · intro hb; exact Or.inl hb
    · rintro (hb | rfl)
      · exact hb
      · exact absurd hy h

theorem pyLower_eq_iff (b x y : Char) (hy : y ∈ asciiUpper) (hyx : pyLower y = x) (hx : x ∉ asciiUpper)
    (huniq : ∀ z ∈ asciiUpper, pyLower z = x → z = y) : pyLower b = x ↔ b = x ∨ b = y := by
  by_cases h : b ∈ asciiUpper
  · constructor
    · intro hb; exact Or.inr (huniq b h hb)
    · rintro (rfl | rfl)
      · exact absurd h hx
      · exact hyx
  · rw [pyLower_of_not_upper h]
    constructor
    · intro hb; exact Or.inl hb
    · rintro (hb | rfl)
      · exact hb
      · exact absurd hy h

theorem pyUpper_W (b : Char) : pyUpper b = 'W' ↔ b = 'W' ∨ b = 'w' :=
  pyUpper_eq_iff b 'W' 'w' (by decide) (by decide) (by decide) (by decide)
theorem pyUpper_H (b : Char) : pyUpper b = 'H' ↔ b = 'H' ∨ b = 'h' :=
  pyUpper_eq_iff b 'H' 'h' (by decide) (by decide) (by decide) (by decide)
theorem pyUpper_S (b : Char) : pyUpper b = 'S' ↔ b = 'S' ∨ b = 's' :=
  pyUpper_eq_iff b 'S' 's' (by decide) (by decide) (by decide) (by decide)
theorem pyLower_c (b : Char) : pyLower b = 'c' ↔ b = 'c' ∨ b = 'C' :=
  pyLower_eq_iff b 'c' 'C' (by decide) (by decide) (by decide) (by decide)
theorem pyLower_t (b : Char) : pyLower b = 't' ↔ b = 't' ∨ b = 'T' :=
  pyLower_eq_iff b 't' 'T' (by decide) (by decide) (by decide) (by decide)

theorem pyLower_orient (a : Char) : (pyLower a = 'c' ∨ pyLower a = 't') ↔ a ∈ orientLetters := by
  simp only [pyLower_c, pyLower_t, orientLetters, List.mem_cons, List.not_mem_nil, or_false]
  constructor
  · rintro ((h | h) | (h | h)) <;> simp [h]
  · rintro (h | h | h | h) <;> simp [h]

theorem pyUpper_edge (b : Char) : (pyUpper b = 'W' ∨ pyUpper b = 'H' ∨ pyUpper b = 'S') ↔ b ∈ edgeLetters := by
  simp only [pyUpper_W, pyUpper_H, pyUpper_S, edgeLetters, List.mem_cons, List.not_mem_nil, or_false]
  constructor
  · rintro ((h | h) | (h | h) | (h | h)) <;> simp [h]
  · rintro (h | h | h | h | h | h) <;> simp [h]

/-! ### the Leontis–Westhof rule -/

theorem lwNames_mem (x y z : Char) :
    (Gen.lwNames.map String.toList).contains [x, y, z] = true ↔
      (x = 'c' ∨ x = 't') ∧ (y = 'W' ∨ y = 'H' ∨ y = 'S') ∧ (z = 'W' ∨ z = 'H' ∨ z = 'S') := by
  simp only [Gen.lwNames, List.map_cons, List.map_nil, List.contains_eq_mem, List.mem_cons, List.not_mem_nil, decide_eq_true_eq]
  simp
  grind

theorem lwOrient_mem (x : Char) :
    (Gen.lwOrient.map String.toList).contains [x] = true ↔ (x = 'c' ∨ x = 't') := by
  simp [Gen.lwOrient]

theorem lwRule_len {cs : List Char} (h : cs.length ≠ 3) : lwRule cs = .other := by
  simp [lwRule, Gen.lwLen, h]

theorem lwRule_three (a b c : Char) :
    lwRule [a, b, c] =
      if a ∈ orientLetters ∧ b ∈ edgeLetters ∧ c ∈ edgeLetters then
        .basePair (String.ofList [pyLower a, pyUpper b, pyUpper c]) else .other := by
  unfold lwRule
  simp only [List.length_cons, List.length_nil, Gen.lwLen, List.getD_cons_zero, List.getD_cons_succ,
    lwOrient_mem, lwNames_mem, pyLower_orient, pyUpper_edge, beq_self_eq_true, Bool.true_and, Nat.reduceAdd]
  by_cases ha : a ∈ orientLetters <;> by_cases hb : b ∈ edgeLetters <;> by_cases hc : c ∈ edgeLetters <;> simp [ha, hb, hc]

/-! ### the backbone rules -/

theorem pyIsDigit_iff (d : Char) : pyIsDigit d = true ↔ d ∈ asciiDigits := by
  simp [pyIsDigit]

theorem br_key_mem {d : Char} (h : d ∈ asciiDigits) :
    (Gen.brMembers.map (·.1.toList)).contains (Gen.brKeyPrefix.toList ++ [d]) = true := by
  simp only [asciiDigits, List.mem_cons, List.not_mem_nil, or_false] at h
  rcases h with rfl|rfl|rfl|rfl|rfl|rfl|rfl|rfl|rfl|rfl <;> decide

theorem backbone_br_hit {d : Char} (hd : d ∈ asciiDigits) :
    backbone Gen.brLen Gen.brTail Gen.brKeyPrefix Gen.brMembers [d, 'B', 'R'] =
      some (some (String.ofList (Gen.brKeyPrefix.toList ++ [d]))) := by
  unfold backbone
  simp only []
  rw [if_pos (by simp [Gen.brLen, Gen.brTail, pyIsDigit_iff, hd]), if_pos (br_key_mem hd)]

theorem backbone_br_miss {cs : List Char} (h : ¬ IsBRCore cs) :
    backbone Gen.brLen Gen.brTail Gen.brKeyPrefix Gen.brMembers cs = none := by
  unfold backbone
  cases cs with
  | nil => rfl
  | cons d rest =>
    simp only []
    rw [if_neg]
    intro hc
    simp only [Bool.and_eq_true, beq_iff_eq, pyIsDigit_iff, Gen.brTail] at hc
    apply h
    refine ⟨d, hc.2, ?_⟩
    rw [hc.1.2]; simp

theorem bph_key_mem {d : Char} (h : d ∈ asciiDigits) :
    (Gen.bphMembers.map (·.1.toList)).contains (Gen.bphKeyPrefix.toList ++ [d]) = true := by
  simp only [asciiDigits, List.mem_cons, List.not_mem_nil, or_false] at h
  rcases h with rfl|rfl|rfl|rfl|rfl|rfl|rfl|rfl|rfl|rfl <;> decide

theorem backbone_bph_hit {d : Char} (hd : d ∈ asciiDigits) :
    backbone Gen.bphLen Gen.bphTail Gen.bphKeyPrefix Gen.bphMembers [d, 'B', 'P', 'h'] =
      some (some (String.ofList (Gen.bphKeyPrefix.toList ++ [d]))) := by
  unfold backbone
  simp only []
  rw [if_pos (by simp [Gen.bphLen, Gen.bphTail, pyIsDigit_iff, hd]), if_pos (bph_key_mem hd)]

theorem backbone_bph_miss {cs : List Char} (h : ¬ IsBPhCore cs) :
    backbone Gen.bphLen Gen.bphTail Gen.bphKeyPrefix Gen.bphMembers cs = none := by
  unfold backbone
  cases cs with
  | nil => rfl
  | cons d rest =>
    simp only []
    rw [if_neg]
    intro hc
    simp only [Bool.and_eq_true, beq_iff_eq, pyIsDigit_iff, Gen.bphTail] at hc
    apply h
    refine ⟨d, hc.2, ?_⟩
    rw [hc.1.2]; simp

/-! ### the stacking rule -/

theorem stackRule_hit {cs : List Char} (h : IsStackCore cs) : ∃ t, stackRule cs = some t ∧ t ∈ Gen.stackingNames := by
  rcases h with rfl | rfl | rfl | rfl
  · exact ⟨"downward", by decide, by decide⟩
  · exact ⟨"outward", by decide, by decide⟩
  · exact ⟨"inward", by decide, by decide⟩
  · exact ⟨"upward", by decide, by decide⟩

theorem stackRule_miss {cs : List Char} (h : ¬ IsStackCore cs) : stackRule cs = none := by
  unfold stackRule
  rw [if_neg]
  intro hc
  apply h
  rcases cs with _ | ⟨a, _ | ⟨b, _ | ⟨c, _ | ⟨e, r⟩⟩⟩⟩
  · simp [Gen.stackLen] at hc
  · simp [Gen.stackLen] at hc
  · simp [Gen.stackLen] at hc
  · simp [Gen.stackLen, Gen.stackHead, Gen.stackSecond, Gen.stackThird, List.isPrefixOf] at hc
    obtain ⟨⟨rfl, hb⟩, hc'⟩ := hc
    unfold IsStackCore
    rcases hb with rfl | rfl <;> rcases hc' with rfl | rfl <;> simp
  · simp [Gen.stackLen] at hc

/-! ### prefix / suffix -/

theorem stripPrefix_n (r : List Char) : stripPrefix ('n' :: r) = r := by
  simp [stripPrefix, Gen.fr3dPrefix, List.isPrefixOf]

theorem stripPrefix_id {cs : List Char} (h : cs.head? ≠ some 'n') : stripPrefix cs = cs := by
  unfold stripPrefix
  rw [if_neg]
  intro hc
  apply h
  cases cs with
  | nil => simp [Gen.fr3dPrefix] at hc
  | cons a r => simp [Gen.fr3dPrefix] at hc; simp [← hc]

theorem stripPrefix_decomp (cs : List Char) : ∃ pre, (pre = [] ∨ pre = ['n']) ∧ cs = pre ++ stripPrefix cs := by
  by_cases h : cs.head? = some 'n'
  · cases cs with
    | nil => simp at h
    | cons a r =>
      simp at h; subst h
      exact ⟨['n'], Or.inr rfl, by simp [stripPrefix_n]⟩
  · exact ⟨[], Or.inl rfl, by simp [stripPrefix_id h]⟩

theorem stripSuffix_a {r : List Char} (h : 2 ≤ r.length) : stripSuffix (r ++ ['a']) = r := by
  unfold stripSuffix
  rw [if_pos]
  · simp [Gen.fr3dSuffix]
  · simp [Gen.fr3dSuffix, Gen.fr3dSuffixMinLen]; omega

theorem stripSuffix_id {cs : List Char} (h : cs.length < 3 ∨ cs.getLast? ≠ some 'a') : stripSuffix cs = cs := by
  unfold stripSuffix
  rw [if_neg]
  intro hc
  simp only [Bool.and_eq_true, Gen.fr3dSuffixMinLen, Gen.fr3dSuffix, List.isSuffixOf_iff_suffix] at hc
  obtain ⟨hl, t, ht⟩ := hc
  have hl : 3 ≤ cs.length := by simpa using hl
  rcases h with h | h
  · omega
  · apply h; rw [← ht]; simp

theorem stripSuffix_decomp (cs : List Char) : ∃ suf, (suf = [] ∨ suf = ['a']) ∧ cs = stripSuffix cs ++ suf := by
  by_cases h : 3 ≤ cs.length ∧ cs.getLast? = some 'a'
  · obtain ⟨hl, hg⟩ := h
    have : ∃ r, cs = r ++ ['a'] := by
      rcases List.eq_nil_or_concat cs with rfl | ⟨r, b, rfl⟩
      · simp at hl
      · simp at hg; subst hg; exact ⟨r, by simp⟩
    obtain ⟨r, rfl⟩ := this
    refine ⟨['a'], Or.inr rfl, ?_⟩
    rw [stripSuffix_a]
    simp at hl; omega
  · refine ⟨[], Or.inl rfl, ?_⟩
    rw [stripSuffix_id]; simp
    by_cases hl : cs.length < 3
    · exact Or.inl hl
    · exact Or.inr (fun hg => h ⟨by omega, hg⟩)

/-! ### the whole of `unify` -/

theorem lwRule_other_iff (cs : List Char) : lwRule cs = .other ↔ ¬ IsLWCore cs := by
  by_cases hl : cs.length = 3
  · rcases cs with _ | ⟨a, _ | ⟨b, _ | ⟨c, _ | ⟨e, r⟩⟩⟩⟩ <;> simp at hl
    rw [lwRule_three]
    by_cases h : a ∈ orientLetters ∧ b ∈ edgeLetters ∧ c ∈ edgeLetters
    · rw [if_pos h]
      exact ⟨(fun hh => by cases hh), fun hh => absurd ⟨a, b, c, rfl, h.1, h.2.1, h.2.2⟩ hh⟩
    · rw [if_neg h]
      simp only [true_iff]
      rintro ⟨o, e₁, e₂, heq, ho, h1, h2⟩
      simp only [List.cons.injEq, and_true] at heq
      obtain ⟨rfl, rfl, rfl⟩ := heq
      exact h ⟨ho, h1, h2⟩
  · rw [lwRule_len hl]
    simp only [true_iff]
    rintro ⟨o, e₁, e₂, rfl, _⟩
    simp at hl

theorem lwRule_cases (cs : List Char) : lwRule cs = .other ∨ ∃ lw, lw ∈ Gen.lwNames ∧ lwRule cs = .basePair lw := by
  unfold lwRule
  dsimp only
  split
  · split
    · rename_i h
      right
      refine ⟨_, ?_, rfl⟩
      simp only [List.contains_eq_mem, List.mem_map, decide_eq_true_eq] at h
      obtain ⟨n, hn, hnl⟩ := h
      rw [← hnl, String.ofList_toList]; exact hn
    · left; rfl
  · left; rfl

theorem coreL_other_iff (cs : List Char) : coreL cs = .other ↔ ¬ IsCore cs := by
  unfold coreL IsCore
  by_cases hbr : IsBRCore cs
  · obtain ⟨d, hd, rfl⟩ := hbr
    rw [backbone_br_hit hd]
    exact ⟨(fun hh => by cases hh), fun hh => absurd (Or.inr (Or.inr (Or.inl ⟨d, hd, rfl⟩))) hh⟩
  · rw [backbone_br_miss hbr]
    by_cases hbph : IsBPhCore cs
    · obtain ⟨d, hd, rfl⟩ := hbph
      rw [backbone_bph_hit hd]
      exact ⟨(fun hh => by cases hh), fun hh => absurd (Or.inr (Or.inr (Or.inr ⟨d, hd, rfl⟩))) hh⟩
    · rw [backbone_bph_miss hbph]
      by_cases hst : IsStackCore cs
      · obtain ⟨t, ht, _⟩ := stackRule_hit hst
        rw [ht]
        exact ⟨(fun hh => by cases hh), fun hh => absurd (Or.inr (Or.inl hst)) hh⟩
      · rw [stackRule_miss hst]
        simp only [lwRule_other_iff, hbr, hbph, hst, or_false]

theorem IsCore.shape {core : List Char} (h : IsCore core) :
    3 ≤ core.length ∧ core.head? ≠ some 'n' ∧ core.head? ≠ none ∧ core.getLast? ≠ some 'a' := by
  rcases h with ⟨o, e₁, e₂, rfl, ho, _, h2⟩ | h | ⟨d, hd, rfl⟩ | ⟨d, hd, rfl⟩
  · simp only [orientLetters, edgeLetters, List.mem_cons, List.not_mem_nil, or_false] at ho h2
    refine ⟨by simp, ?_, by simp, ?_⟩
    · rcases ho with rfl | rfl | rfl | rfl <;> simp
    · rcases h2 with rfl | rfl | rfl | rfl | rfl | rfl <;> simp
  · rcases h with rfl | rfl | rfl | rfl <;> decide
  · simp only [asciiDigits, List.mem_cons, List.not_mem_nil, or_false] at hd
    refine ⟨by simp, ?_, by simp, by simp⟩
    rcases hd with rfl|rfl|rfl|rfl|rfl|rfl|rfl|rfl|rfl|rfl <;> simp
  · simp only [asciiDigits, List.mem_cons, List.not_mem_nil, or_false] at hd
    refine ⟨by simp, ?_, by simp, by simp⟩
    rcases hd with rfl|rfl|rfl|rfl|rfl|rfl|rfl|rfl|rfl|rfl <;> simp

theorem recognisedL_iff (cs : List Char) : RecognisedL cs ↔ IsCore (stripSuffix (stripPrefix cs)) := by
  constructor
  · rintro ⟨pre, core, suf, rfl, hpre, hsuf, hcore⟩
    obtain ⟨hlen, hn, hne, ha⟩ := hcore.shape
    have h1 : stripPrefix (pre ++ core ++ suf) = core ++ suf := by
      rcases hpre with rfl | rfl
      · apply stripPrefix_id
        cases core with
        | nil => simp at hne
        | cons x xs => simpa using hn
      · simp [stripPrefix_n]
    rw [h1]
    rcases hsuf with rfl | rfl
    · rw [List.append_nil, stripSuffix_id (Or.inr ha)]; exact hcore
    · rw [stripSuffix_a (by omega)]; exact hcore
  · intro h
    obtain ⟨pre, hpre, h1⟩ := stripPrefix_decomp cs
    obtain ⟨suf, hsuf, h2⟩ := stripSuffix_decomp (stripPrefix cs)
    refine ⟨pre, _, suf, ?_, hpre, hsuf, h⟩
    rw [List.append_assoc, ← h2, ← h1]

theorem unifyL_other_iff (cs : List Char) : unifyL cs = .other ↔ ¬ RecognisedL cs := by
  rw [recognisedL_iff]; exact coreL_other_iff _

/-- the classification names an existing enum member (the lookups of the code cannot fail) -/
def Category.WellFormed : Category → Prop
  | .basePair lw => lw ∈ Gen.lwNames
  | .stacking t => t ∈ Gen.stackingNames
  | .baseRibose m => m ∈ Gen.brMembers.map (·.1)
  | .basePhosphate m => m ∈ Gen.bphMembers.map (·.1)
  | .other => True

theorem backbone_member {len : Nat} {tail kp : String} {members : List (String × String)} {cs : List Char}
    {m : String} (h : backbone len tail kp members cs = some (some m)) : m ∈ members.map (·.1) := by
  unfold backbone at h
  cases cs with
  | nil => cases h
  | cons d rest =>
    dsimp only at h
    split at h
    · simp only [Option.some.injEq] at h
      split at h
      · rename_i hc
        simp only [Option.some.injEq] at h
        subst h
        simp only [List.contains_eq_mem, List.mem_map, decide_eq_true_eq] at hc
        obtain ⟨n, hn, hnl⟩ := hc
        rw [← hnl, String.ofList_toList]
        exact List.mem_map.2 ⟨n, hn, rfl⟩
      · cases h
    · cases h

theorem stackRule_member {cs : List Char} {t : String} (h : stackRule cs = some t) : t ∈ Gen.stackingNames := by
  by_cases hs : IsStackCore cs
  · obtain ⟨t', ht', hm⟩ := stackRule_hit hs
    rw [ht'] at h; cases h; exact hm
  · rw [stackRule_miss hs] at h; cases h

theorem coreL_wf (cs : List Char) : (coreL cs).WellFormed := by
  unfold coreL
  split
  · rename_i m h; exact backbone_member h
  · trivial
  · split
    · rename_i m h; exact backbone_member h
    · trivial
    · split
      · rename_i t h; exact stackRule_member h
      · rcases lwRule_cases cs with h | ⟨lw, hm, h⟩
        · rw [h]; trivial
        · rw [h]; exact hm

theorem unifyL_wf (cs : List Char) : (unifyL cs).WellFormed := coreL_wf _

/-- prefix and suffix are removed around a core label -/
theorem unifyL_strip {pre core suf : List Char} (hpre : pre = [] ∨ pre = ['n']) (hsuf : suf = [] ∨ suf = ['a'])
    (hcore : IsCore core) : unifyL (pre ++ core ++ suf) = coreL core := by
  obtain ⟨hlen, hn, hne, ha⟩ := hcore.shape
  have h1 : stripPrefix (pre ++ core ++ suf) = core ++ suf := by
    rcases hpre with rfl | rfl
    · apply stripPrefix_id
      cases core with
      | nil => simp at hne
      | cons x xs => simpa using hn
    · simp [stripPrefix_n]
  unfold unifyL
  rw [h1]
  rcases hsuf with rfl | rfl
  · rw [List.append_nil, stripSuffix_id (Or.inr ha)]
  · rw [stripSuffix_a (by omega)]

theorem coreL_lw {o e₁ e₂ : Char} (ho : o ∈ orientLetters) (h1 : e₁ ∈ edgeLetters) (h2 : e₂ ∈ edgeLetters) :
    coreL [o, e₁, e₂] = .basePair (String.ofList [pyLower o, pyUpper e₁, pyUpper e₂]) := by
  have hbr : ¬ IsBRCore [o, e₁, e₂] := by
    rintro ⟨d, _, heq⟩
    simp only [List.cons.injEq, and_true] at heq
    obtain ⟨_, rfl, _⟩ := heq
    simp [edgeLetters] at h1
  have hbph : ¬ IsBPhCore [o, e₁, e₂] := by
    rintro ⟨d, _, heq⟩; simp at heq
  have hst : ¬ IsStackCore [o, e₁, e₂] := by
    intro h
    have : o = 's' := by rcases h with h | h | h | h <;> simp at h <;> exact h.1
    subst this; simp [orientLetters] at ho
  unfold coreL
  rw [backbone_br_miss hbr, backbone_bph_miss hbph, stackRule_miss hst]
  simp only [lwRule_three, ho, h1, h2, and_self, if_true]

theorem coreL_br {d : Char} (hd : d ∈ asciiDigits) :
    coreL [d, 'B', 'R'] = .baseRibose (String.ofList ['_', d]) := by
  unfold coreL
  rw [backbone_br_hit hd]
  rfl

theorem coreL_bph {d : Char} (hd : d ∈ asciiDigits) :
    coreL [d, 'B', 'P', 'h'] = .basePhosphate (String.ofList ['_', d]) := by
  have hbr : ¬ IsBRCore [d, 'B', 'P', 'h'] := by
    rintro ⟨d', _, heq⟩; simp at heq
  unfold coreL
  rw [backbone_br_miss hbr, backbone_bph_hit hd]
  rfl

theorem coreL_stack :
    coreL ['s', '3', '3'] = .stacking "downward" ∧ coreL ['s', '5', '5'] = .stacking "upward" ∧
    coreL ['s', '3', '5'] = .stacking "outward" ∧ coreL ['s', '5', '3'] = .stacking "inward" := by
  decide

/-! ## Part 3 — unit ids, lines, listings -/

/-- insertion code of a unit id: the 8th field when present and non-empty (`rest` = fields from the 6th on) -/
def icodeSpec : List (List Char) → Option String
  | _ :: _ :: ic :: _ => if ic ≠ [] then some (String.ofList ic) else none
  | _ => none

/-- specification of a unit id `pdb|model|chain|name|number|…|…|icode`: at least five `|`-separated
fields, the fifth a Python integer literal -/
def unitSpec (u : List Char) : Option Residue :=
  match splitOn '|' u with
  | _ :: _ :: chain :: name :: num :: rest =>
    match pyInt num with
    | .ok n => some ⟨String.ofList chain, n, icodeSpec rest, String.ofList name⟩
    | .error _ => none
  | _ => none

/-- `u` is a well-formed unit id denoting residue `r` -/
def WellFormedUnit (u : List Char) (r : Residue) : Prop := unitSpec u = some r

instance (u : List Char) (r : Residue) : Decidable (WellFormedUnit u r) :=
  inferInstanceAs (Decidable (unitSpec u = some r))

theorem pyInt_error {cs : List Char} {e : Err} (h : pyInt cs = .error e) : e = .valueError := by
  unfold pyInt at h
  dsimp only at h
  split at h
  · cases h; rfl
  · split at h
    · cases h; rfl
    · cases h

theorem parseUnitIdL_eq (u : List Char) :
    parseUnitIdL u = match unitSpec u with
      | some r => .ok r
      | none => if (splitOn '|' u).length < 5 then .error .indexError else .error .valueError := by
  unfold parseUnitIdL unitSpec
  have hs : Gen.unitSep = '|' := rfl
  rw [hs]
  generalize splitOn '|' u = f
  rcases f with _ | ⟨a0, _ | ⟨a1, _ | ⟨a2, _ | ⟨a3, _ | ⟨a4, _ | ⟨a5, _ | ⟨a6, _ | ⟨a7, r⟩⟩⟩⟩⟩⟩⟩⟩
  all_goals simp [unitOfFields, getIdx, Gen.unitIcodeMinLen, Gen.unitIcodeIdx, Gen.unitChainIdx,
    Gen.unitNumberIdx, Gen.unitNameIdx, icodeSpec]
  all_goals
    cases h : pyInt a4 with
    | ok n => simp
    | error e => simp [pyInt_error h]


theorem parseUnitIdL_ok_iff (u : List Char) (r : Residue) : parseUnitIdL u = .ok r ↔ WellFormedUnit u r := by
  rw [parseUnitIdL_eq, WellFormedUnit]
  cases unitSpec u with
  | none => simp only [reduceCtorEq, iff_false]; split <;> simp
  | some r' => simp

theorem parseUnitIdL_contained (u : List Char) (e : Err) (h : parseUnitIdL u = .error e) : contained e = true := by
  rw [parseUnitIdL_eq] at h
  cases hu : unitSpec u with
  | some r' => rw [hu] at h; cases h
  | none =>
    rw [hu] at h
    dsimp only at h
    split at h <;> cases h <;> decide

/-- specification of one listing line: at least three tab-separated fields, the first and third
well-formed unit ids; the interaction joins exactly the two parsed residues, classified by the label -/
def lineSpec (line : List Char) : Option Interaction :=
  match splitOn '\t' line with
  | u₁ :: label :: u₂ :: _ =>
    match unitSpec u₁, unitSpec u₂ with
    | some r₁, some r₂ => some ⟨r₁, r₂, unifyL label⟩
    | _, _ => none
  | _ => none

theorem processLineL_eq (line : List Char) :
    processLineL line = match lineSpec line with
      | some i => .added i
      | none => .skipped := by
  unfold processLineL lineSpec
  have hs : Gen.lineSep = '\t' := by decide
  rw [hs]
  generalize splitOn '\t' line = parts
  rcases parts with _ | ⟨u1, _ | ⟨lab, _ | ⟨u2, rest⟩⟩⟩
  · simp [outcomeOfParts, Gen.lineMinParts]
  · simp [outcomeOfParts, Gen.lineMinParts]
  · simp [outcomeOfParts, Gen.lineMinParts]
  · have hlen : ¬ ((u1 :: lab :: u2 :: rest).length < Gen.lineMinParts) := by
      simp [Gen.lineMinParts]
    unfold outcomeOfParts
    rw [if_neg hlen]
    simp only [lineOfParts, getIdx, Gen.lineNt1Idx, Gen.lineLabelIdx, Gen.lineNt2Idx,
      List.getElem?_cons_zero, List.getElem?_cons_succ]
    cases h1 : parseUnitIdL u1 with
    | error e =>
      have hc := parseUnitIdL_contained u1 e h1
      have : unitSpec u1 = none := by
        cases hu : unitSpec u1 with
        | none => rfl
        | some r => rw [(parseUnitIdL_ok_iff u1 r).2 hu] at h1; cases h1
      simp [hc, this]
    | ok r1 =>
      have hu1 : unitSpec u1 = some r1 := (parseUnitIdL_ok_iff u1 r1).1 h1
      cases h2 : parseUnitIdL u2 with
      | error e =>
        have hc := parseUnitIdL_contained u2 e h2
        have : unitSpec u2 = none := by
          cases hu : unitSpec u2 with
          | none => rfl
          | some r => rw [(parseUnitIdL_ok_iff u2 r).2 hu] at h2; cases h2
        simp [hc, this, hu1]
      | ok r2 =>
        have hu2 : unitSpec u2 = some r2 := (parseUnitIdL_ok_iff u2 r2).1 h2
        simp [hu1, hu2]

/-- names of the five result lists -/
inductive ListName where
  | basePairs | stackings | baseRibose | basePhosphate | other
deriving DecidableEq, Repr

def Listing.get (l : Listing) : ListName → List Interaction
  | .basePairs => l.basePairs
  | .stackings => l.stackings
  | .baseRibose => l.baseRibose
  | .basePhosphate => l.basePhosphate
  | .other => l.other

/-- the list a category belongs to, as the property statement has it -/
def listOf : Category → ListName
  | .basePair _ => .basePairs
  | .stacking _ => .stackings
  | .baseRibose _ => .baseRibose
  | .basePhosphate _ => .basePhosphate
  | .other => .other

theorem add_get (l : Listing) (i : Interaction) :
    (l.add i).get (listOf i.cat) = l.get (listOf i.cat) ++ [i] ∧
    ∀ k, k ≠ listOf i.cat → (l.add i).get k = l.get k := by
  obtain ⟨r1, r2, c⟩ := i
  cases c with
  | basePair m =>
    have : fieldOf (.basePair m) = some "basePairs" := by
      show (Gen.fr3dRouting.lookup "base-pair").map (·.1) = some "basePairs"; decide
    refine ⟨by simp [Listing.add, this, listOf, Listing.get], ?_⟩
    intro k hk; cases k <;> simp_all [Listing.add, listOf, Listing.get]
  | stacking m =>
    have : fieldOf (.stacking m) = some "stackings" := by
      show (Gen.fr3dRouting.lookup "stacking").map (·.1) = some "stackings"; decide
    refine ⟨by simp [Listing.add, this, listOf, Listing.get], ?_⟩
    intro k hk; cases k <;> simp_all [Listing.add, listOf, Listing.get]
  | baseRibose m =>
    have : fieldOf (.baseRibose m) = some "baseRiboseInteractions" := by
      show (Gen.fr3dRouting.lookup "base-ribose").map (·.1) = some "baseRiboseInteractions"; decide
    refine ⟨by simp [Listing.add, this, listOf, Listing.get], ?_⟩
    intro k hk; cases k <;> simp_all [Listing.add, listOf, Listing.get]
  | basePhosphate m =>
    have : fieldOf (.basePhosphate m) = some "basePhosphateInteractions" := by
      show (Gen.fr3dRouting.lookup "base-phosphate").map (·.1) = some "basePhosphateInteractions"; decide
    refine ⟨by simp [Listing.add, this, listOf, Listing.get], ?_⟩
    intro k hk; cases k <;> simp_all [Listing.add, listOf, Listing.get]
  | other =>
    have : fieldOf .other = some "otherInteractions" := by decide
    refine ⟨by simp [Listing.add, this, listOf, Listing.get], ?_⟩
    intro k hk; cases k <;> simp_all [Listing.add, listOf, Listing.get]

/-- the lines that are processed: stripped, non-empty, not starting with `#` -/
def keptLines (text : List Char) : List (List Char) := ((fileLines text).map pyStrip).filter keepLine

def addAll (acc : Listing) (is : List Interaction) : Listing := is.foldl Listing.add acc

theorem foldLines_eq (ls : List (List Char)) (acc : Listing) :
    foldLines ls acc = .ok (addAll acc (((ls.map pyStrip).filter keepLine).filterMap lineSpec)) := by
  induction ls generalizing acc with
  | nil => rfl
  | cons l ls ih =>
    unfold foldLines stepLine
    dsimp only
    by_cases hk : keepLine (pyStrip l) = true
    · rw [if_pos hk, processLineL_eq]
      cases hs : lineSpec (pyStrip l) with
      | none => simp [ih, hk, hs, addAll]
      | some i => simp [ih, hk, hs, addAll]
    · rw [if_neg hk]
      simp [ih, hk, addAll]

theorem parseListingL_eq (text : List Char) :
    parseListingL text = .ok (addAll {} ((keptLines text).filterMap lineSpec)) :=
  foldLines_eq _ _

theorem add_size (l : Listing) (i : Interaction) : (l.add i).size = l.size + 1 := by
  obtain ⟨r1, r2, c⟩ := i
  cases c with
  | basePair m =>
    have : fieldOf (.basePair m) = some "basePairs" := by
      show (Gen.fr3dRouting.lookup "base-pair").map (·.1) = some "basePairs"; decide
    simp [Listing.add, this, Listing.size]; omega
  | stacking m =>
    have : fieldOf (.stacking m) = some "stackings" := by
      show (Gen.fr3dRouting.lookup "stacking").map (·.1) = some "stackings"; decide
    simp [Listing.add, this, Listing.size]; omega
  | baseRibose m =>
    have : fieldOf (.baseRibose m) = some "baseRiboseInteractions" := by
      show (Gen.fr3dRouting.lookup "base-ribose").map (·.1) = some "baseRiboseInteractions"; decide
    simp [Listing.add, this, Listing.size]; omega
  | basePhosphate m =>
    have : fieldOf (.basePhosphate m) = some "basePhosphateInteractions" := by
      show (Gen.fr3dRouting.lookup "base-phosphate").map (·.1) = some "basePhosphateInteractions"; decide
    simp [Listing.add, this, Listing.size]; omega
  | other =>
    have : fieldOf .other = some "otherInteractions" := by decide
    simp [Listing.add, this, Listing.size]; omega

theorem addAll_size (acc : Listing) (is : List Interaction) : (addAll acc is).size = acc.size + is.length := by
  induction is generalizing acc with
  | nil => simp [addAll]
  | cons i is ih =>
    have := ih (acc.add i)
    simp only [addAll, List.foldl_cons, List.length_cons] at this ⊢
    rw [this, add_size]; omega

/-! ## Part 4 — DSSR -/

/-- a valid class: one of the 18 Leontis–Westhof names, verbatim -/
def validClass : Option String → Option String
  | some s => if s ∈ Gen.lwNames then some s else none
  | none => none

/-- specification of one DSSR pair: kept iff both names resolve and the class is valid -/
def pairSpec (st : List Residue) (p : DssrPair) : Option PairOut :=
  match resolve st p.nt1, resolve st p.nt2, validClass p.lw with
  | some a, some b, some c => some (a, b, c)
  | _, _, _ => none

/-- the `LW in …` test of `match_dssr_lw` accepts exactly the 18 class names -/
def LwTestExact : Prop := ∀ s, s ∈ Gen.dssrLwAccepted ↔ s ∈ Gen.lwNames

theorem matchLw_eq (h : LwTestExact) (lw : Option String) : matchLw lw = .ok (validClass lw) := by
  cases lw with
  | none => rfl
  | some s =>
    unfold matchLw validClass
    by_cases hs : s ∈ Gen.lwNames
    · have ha : s ∈ Gen.dssrLwAccepted := (h s).2 hs
      simp [hs, ha]
    · have ha : s ∉ Gen.dssrLwAccepted := fun hh => hs ((h s).1 hh)
      simp [hs, ha]

theorem dssrPairs_eq (h : LwTestExact) (st : List Residue) (ps : List DssrPair) :
    dssrPairs st ps = .ok (ps.filterMap (pairSpec st)) := by
  induction ps with
  | nil => rfl
  | cons p ps ih =>
    unfold dssrPairs
    rw [matchLw_eq h, ih]
    dsimp only
    cases h1 : resolve st p.nt1 <;> cases h2 : resolve st p.nt2 <;> cases h3 : validClass p.lw <;>
      simp [pairSpec, h1, h2, h3]

/-- on the present code the test is *not* exact when this fails: the model then raises KeyError -/
theorem matchLw_keyError {s : String} (ha : s ∈ Gen.dssrLwAccepted) (hn : s ∉ Gen.lwNames) :
    matchLw (some s) = .error .keyError := by
  simp [matchLw, ha, hn]

/-- consecutive members of a stack, as the statement has it: adjacent positions, both resolved -/
def stackSpec (ms : List (Option Residue)) : List StackOut :=
  (ms.zip ms.tail).filterMap (fun p => match p with
    | (some x, some y) => some (x, y)
    | _ => none)

theorem consecutive_eq (ms : List (Option Residue)) : consecutive ms = stackSpec ms := by
  induction ms with
  | nil => rfl
  | cons a rest ih =>
    cases rest with
    | nil => rfl
    | cons b rest =>
      unfold consecutive
      rw [ih]
      cases a <;> cases b <;> simp [stackSpec]

theorem dssrStacks_eq (st : List Residue) (stacks : List String) :
    dssrStacks st stacks = stacks.flatMap (fun s => stackSpec (stackMembers st s)) := by
  simp [dssrStacks, consecutive_eq]

theorem parseDssr_eq (h : LwTestExact) (st : List Residue) (doc : DssrDoc) (model : Option Int) :
    parseDssr st doc model = .ok ((selectParams doc model).pairs.filterMap (pairSpec st),
      (selectParams doc model).stacks.flatMap (fun s => stackSpec (stackMembers st s))) := by
  simp [parseDssr, dssrPairs_eq h, dssrStacks_eq]

theorem lwTestExact_of (h1 : ∀ s ∈ Gen.dssrLwAccepted, s ∈ Gen.lwNames)
    (h2 : ∀ s ∈ Gen.lwNames, s ∈ Gen.dssrLwAccepted) : LwTestExact :=
  fun s => ⟨h1 s, h2 s⟩

end RnaVerif.Labels

import RnaVerif.Model.Mapping
import RnaVerif.Lemmas.Decode
/-!
# Lemmas about the 3D → 2D mapping model (helper lemmas for C06) — core Lean only

A. conflict resolution: termination with the given fuel, result is a matching, sub-list of the input,
   unconflicted pairs survive (for *every* victim selection that picks a member of the group).
B. BPSEQ numbering and last-write-wins partner assignment: validity for a matching.
C. strands / slices concatenate.
D. extended rows: greedy allocation yields matchings; rows partition the class records.
-/
namespace RnaVerif.Mapping
open RnaVerif

/-! ## A. conflict resolution -/

/-- every residue is touched by at most one pair of the list -/
def Matching (cs : List BP) : Prop := ∀ r, (group cs r).length ≤ 1

/-- a victim selection is admissible when it picks a member of every non-empty group -/
def PickOk (pick : List BP → BP) : Prop := ∀ g, g ≠ [] → pick g ∈ g

theorem group_sub (cs : List BP) (r : Nat) : ∀ b ∈ group cs r, b ∈ cs ∧ b.touches r = true := by
  intro b hb
  simpa [group] using hb

theorem conflictGroup_none {cs : List BP} (h : conflictGroup cs = none) : Matching cs := by
  intro r
  by_cases hlen : 1 < (group cs r).length
  · exfalso
    have hne : group cs r ≠ [] := by
      intro e; rw [e] at hlen; simp at hlen
    obtain ⟨b, hb⟩ := List.exists_mem_of_ne_nil _ hne
    obtain ⟨hbc, hbt⟩ := group_sub cs r b hb
    have hr : r ∈ cs.flatMap (fun b => [b.i, b.j]) := by
      simp only [List.mem_flatMap]
      refine ⟨b, hbc, ?_⟩
      simp only [BP.touches, Bool.or_eq_true, beq_iff_eq] at hbt
      rcases hbt with e | e <;> simp [e]
    unfold conflictGroup at h
    rw [List.findSome?_eq_none_iff] at h
    have := h r hr
    simp [hlen] at this
  · omega

theorem conflictGroup_some {cs g : List BP} (h : conflictGroup cs = some g) :
    ∃ r, g = group cs r ∧ 1 < g.length := by
  unfold conflictGroup at h
  obtain ⟨r, _, hr⟩ := List.exists_of_findSome?_eq_some h
  by_cases hlen : 1 < (group cs r).length
  · simp only [hlen, if_true, Option.some.injEq] at hr
    exact ⟨r, hr.symm, by rw [← hr]; exact hlen⟩
  · simp [hlen] at hr

theorem pick_mem_cs {pick : List BP → BP} (hp : PickOk pick) {cs g : List BP}
    (h : conflictGroup cs = some g) : pick g ∈ g ∧ pick g ∈ cs := by
  obtain ⟨r, hg, hlen⟩ := conflictGroup_some h
  have hne : g ≠ [] := by intro e; rw [e] at hlen; simp at hlen
  have hm := hp g hne
  refine ⟨hm, ?_⟩
  subst hg
  exact (group_sub cs r _ hm).1

theorem resolveLoop_sublist (pick : List BP → BP) : ∀ (fuel : Nat) (cs : List BP),
    (resolveLoop pick fuel cs).Sublist cs := by
  intro fuel
  induction fuel with
  | zero => intro cs; exact List.Sublist.refl _
  | succ fuel ih =>
    intro cs
    unfold resolveLoop
    split
    · exact List.Sublist.refl _
    · exact (ih _).trans List.erase_sublist

theorem resolveLoop_terminates {pick : List BP → BP} (hp : PickOk pick) : ∀ (fuel : Nat) (cs : List BP),
    cs.length ≤ fuel → conflictGroup (resolveLoop pick fuel cs) = none := by
  intro fuel
  induction fuel with
  | zero =>
    intro cs h
    have : cs = [] := List.eq_nil_of_length_eq_zero (by omega)
    subst this
    rfl
  | succ fuel ih =>
    intro cs h
    unfold resolveLoop
    split
    · assumption
    · rename_i g hg
      apply ih
      have hm := (pick_mem_cs hp hg).2
      rw [List.length_erase_of_mem hm]
      omega

theorem exists_ne_of_nodup {l : List BP} (hn : l.Nodup) (hl : 1 < l.length) (a : BP) :
    ∃ b ∈ l, b ≠ a := by
  match l, hn, hl with
  | x :: y :: t, hn, _ =>
    by_cases e : x = a
    · refine ⟨y, by simp, ?_⟩
      intro e2
      rw [List.nodup_cons] at hn
      apply hn.1
      rw [e, ← e2]; simp
    · exact ⟨x, by simp, e⟩

theorem not_disjoint_of_touch {a b : BP} {r : Nat} (ha : a.touches r = true) (hb : b.touches r = true) :
    a.disjoint b = false := by
  simp only [BP.touches, Bool.or_eq_true, beq_iff_eq] at ha hb
  simp only [BP.disjoint, Bool.and_eq_false_iff, bne_eq_false_iff_eq]
  rcases ha with ha | ha <;> rcases hb with hb | hb <;> simp [ha, hb]

theorem resolveLoop_keeps {pick : List BP → BP} (hp : PickOk pick) : ∀ (fuel : Nat) (cs : List BP) (c : BP),
    cs.Nodup → c ∈ cs → (∀ c' ∈ cs, c' ≠ c → c.disjoint c' = true) → c ∈ resolveLoop pick fuel cs := by
  intro fuel
  induction fuel with
  | zero => intro cs c _ hc _; exact hc
  | succ fuel ih =>
    intro cs c hn hc hd
    unfold resolveLoop
    split
    · exact hc
    · rename_i g hg
      obtain ⟨r, hgr, hlen⟩ := conflictGroup_some hg
      obtain ⟨hvg, _⟩ := pick_mem_cs hp hg
      have hne : pick g ≠ c := by
        intro e
        subst hgr
        have hgn : (group cs r).Nodup := (List.filter_sublist).nodup hn
        obtain ⟨c', hc'g, hc'ne⟩ := exists_ne_of_nodup hgn hlen c
        obtain ⟨hc'cs, hc't⟩ := group_sub cs r c' hc'g
        have hct := (group_sub cs r _ hvg).2
        rw [e] at hct
        have h1 := hd c' hc'cs hc'ne
        have h2 := not_disjoint_of_touch hct hc't
        rw [h1] at h2
        exact Bool.noConfusion h2
      apply ih
      · exact hn.erase _
      · exact (List.mem_erase_of_ne hne.symm).mpr hc
      · intro c' hc' hne'
        exact hd c' (List.mem_of_mem_erase hc') hne'

theorem foldl_pick_mem (p : BP → BP → Bool) : ∀ (g : List BP) (init : BP),
    g.foldl (fun best y => if p y best then best else y) init = init ∨
    g.foldl (fun best y => if p y best then best else y) init ∈ g := by
  intro g
  induction g with
  | nil => intro init; left; rfl
  | cons x t ih =>
    intro init
    simp only [List.foldl_cons]
    by_cases h : p x init
    · simp only [h, if_true]
      rcases ih init with e | m
      · left; exact e
      · right; exact List.mem_cons_of_mem _ m
    · simp only [h]
      rcases ih x with e | m
      · right; simp [e]
      · right; exact List.mem_cons_of_mem _ m

theorem victim_ok (nts : List Nt) : PickOk (victim nts) := by
  intro g hne
  match g, hne with
  | x :: t, _ =>
    unfold victim
    simp only [List.headD_cons]
    rcases foldl_pick_mem (keyLt nts) (x :: t) x with e | m
    · rw [e]; simp
    · exact m

/-! ### lifting yields a duplicate-free list -/

theorem pushNew_nodup {acc : List BP} (b : BP) (h : acc.Nodup) : (pushNew acc b).Nodup := by
  unfold pushNew
  split
  · exact h
  · rename_i hb
    rw [List.nodup_append]
    refine ⟨h, by simp, ?_⟩
    intro a ha c hc
    simp at hc
    subst hc
    intro e; subst e; exact hb ha

theorem liftStep_nodup (n : Nat) {acc : List BP} (p : PairIn) (h : acc.Nodup) : (liftStep n acc p).Nodup := by
  unfold liftStep
  split
  · split
    · exact pushNew_nodup _ (pushNew_nodup _ h)
    · exact h
  · exact h

theorem foldl_liftStep_nodup (n : Nat) : ∀ (inp : List PairIn) (acc : List BP), acc.Nodup →
    (inp.foldl (liftStep n) acc).Nodup := by
  intro inp
  induction inp with
  | nil => intro acc h; exact h
  | cons p t ih => intro acc h; exact ih _ (liftStep_nodup n p h)

theorem liftPairs_nodup (n : Nat) (inp : List PairIn) : (liftPairs n inp).Nodup :=
  foldl_liftStep_nodup n inp [] List.nodup_nil

theorem mem_canonicalPairs {nts : List Nt} {bps : List BP} {c : BP} (h : c ∈ canonicalPairs nts bps) :
    c ∈ bps ∧ isCanonical nts c = true ∧ oriented nts c = true := by
  simpa [canonicalPairs, and_assoc] using h

theorem canonicalPairs_nodup (nts : List Nt) {bps : List BP} (h : bps.Nodup) : (canonicalPairs nts bps).Nodup :=
  (List.filter_sublist).nodup h

/-! ## B. numbering and partner assignment -/

theorem ntLt_irrefl (a : Nt) : ntLt a a = false := by
  unfold ntLt
  simp only [ne_eq, not_true_eq_false, if_false]
  exact decide_eq_false (List.lt_irrefl _)

theorem oriented_ne {nts : List Nt} {b : BP} (h : oriented nts b = true) : b.i ≠ b.j := by
  intro e
  unfold oriented at h
  rw [e, ntLt_irrefl] at h
  exact Bool.noConfusion h

theorem ntAt_append (pre : List Nt) (n : Nt) (rest : List Nt) : ntAt (pre ++ n :: rest) pre.length = n := by
  simp [ntAt, List.getD_eq_getElem?_getD]

/-- the implementation's gap count (generated condition and count) is the property's -/
theorem gapsBpseq_eq (fg : Bool) (p c : Nt) :
    gapsBpseq fg p c = if fg && p.chain == c.chain && !p.conn then (c.number - p.number - 1).toNat else 0 := by
  unfold gapsBpseq
  simp only [Gen.mapGapCondBpseq, Gen.mapGapCountBpseq]
  cases fg <;> cases p.conn <;> cases (p.chain == c.chain) <;> simp

theorem gapSlot_eq : gapSlot = ⟨none, '?'⟩ := rfl

theorem slotsAux_spec (fg : Bool) (nts : List Nt) : ∀ (rest pre : List Nt) (prev : Option Nt),
    nts = pre ++ rest →
    (prev = if pre.length = 0 then none else some (ntAt nts (pre.length - 1))) →
    slotsAux fg prev pre.length rest =
      (List.range' pre.length rest.length).flatMap (fun k =>
        List.replicate (gapsSpec fg nts k) (⟨none, '?'⟩ : Slot) ++ [⟨some k, (ntAt nts k).letter⟩]) := by
  intro rest
  induction rest with
  | nil => intro pre prev _ _; simp [slotsAux]
  | cons n rest ih =>
    intro pre prev hn hprev
    have hk : ntAt nts pre.length = n := by rw [hn]; exact ntAt_append pre n rest
    have ih' := ih (pre ++ [n]) (some n) (by rw [hn]; simp) (by
      simp only [List.length_append, List.length_cons, List.length_nil]
      rw [if_neg (by omega)]
      congr 1
      rw [show pre.length + (0 + 1) - 1 = pre.length by omega]
      exact hk.symm)
    simp only [List.length_append, List.length_cons, List.length_nil, Nat.zero_add] at ih'
    subst hprev
    simp only [slotsAux, List.length_cons, List.range'_succ, List.flatMap_cons]
    rw [ih', hk]
    by_cases h0 : pre.length = 0
    · simp [h0, gapsSpec]
    · simp [h0, gapsSpec, hk, gapsBpseq_eq, gapSlot_eq]

/-- `numbering_ok` core: the slots are, for each nucleotide in file order, its placeholders then itself -/
theorem slots_eq_spec (fg : Bool) (nts : List Nt) : slots fg nts = slotsSpec fg nts := by
  unfold slots slotsSpec
  have := slotsAux_spec fg nts nts [] none (by simp) (by simp)
  simpa [List.range_eq_range'] using this

/-! ### last write wins -/

def pf (pos : Nat) (acc : Nat) (p : Nat × Nat) : Nat := if p.1 = pos then p.2 else if p.2 = pos then p.1 else acc

theorem partner_eq_foldl (ips : List (Nat × Nat)) (pos : Nat) : partner ips pos = ips.foldl (pf pos) 0 := rfl

theorem fold_stable (pos v : Nat) : ∀ (t : List (Nat × Nat)),
    (∀ p ∈ t, (p.1 = pos → p.2 = v) ∧ (p.1 ≠ pos → p.2 = pos → p.1 = v)) → t.foldl (pf pos) v = v := by
  intro t
  induction t with
  | nil => intro _; rfl
  | cons x t ih =>
    intro h
    have hx := h x (by simp)
    have : pf pos v x = v := by
      unfold pf
      by_cases e1 : x.1 = pos
      · rw [if_pos e1]; exact hx.1 e1
      · by_cases e2 : x.2 = pos
        · rw [if_neg e1, if_pos e2]; exact hx.2 e1 e2
        · rw [if_neg e1, if_neg e2]
    simp only [List.foldl_cons, this]
    exact ih (fun p hp => h p (List.mem_cons_of_mem _ hp))

theorem fold_hit (pos v : Nat) : ∀ (l : List (Nat × Nat)),
    (∀ p ∈ l, (p.1 = pos → p.2 = v) ∧ (p.1 ≠ pos → p.2 = pos → p.1 = v)) →
    (∃ p ∈ l, p.1 = pos ∨ p.2 = pos) → ∀ acc, l.foldl (pf pos) acc = v := by
  intro l
  induction l with
  | nil => intro _ ⟨p, hp, _⟩; simp at hp
  | cons x t ih =>
    intro h ⟨p, hp, hpt⟩ acc
    have hx := h x (by simp)
    have ht : ∀ p ∈ t, (p.1 = pos → p.2 = v) ∧ (p.1 ≠ pos → p.2 = pos → p.1 = v) :=
      fun p hp => h p (List.mem_cons_of_mem _ hp)
    simp only [List.foldl_cons]
    by_cases ex : x.1 = pos ∨ x.2 = pos
    · have : pf pos acc x = v := by
        unfold pf
        by_cases e1 : x.1 = pos
        · rw [if_pos e1]; exact hx.1 e1
        · have e2 : x.2 = pos := by
            rcases ex with e | e
            · exact absurd e e1
            · exact e
          rw [if_neg e1, if_pos e2]; exact hx.2 e1 e2
      rw [this]
      exact fold_stable pos v t ht
    · have hpt' : p ∈ t := by
        rcases List.mem_cons.mp hp with e | m
        · subst e; exact absurd hpt ex
        · exact m
      exact ih ht ⟨p, hpt', hpt⟩ _

theorem fold_cases (pos : Nat) : ∀ (l : List (Nat × Nat)) (acc : Nat),
    l.foldl (pf pos) acc = acc ∨
    ∃ p ∈ l, (p.1 = pos ∧ l.foldl (pf pos) acc = p.2) ∨ (p.2 = pos ∧ l.foldl (pf pos) acc = p.1) := by
  intro l
  induction l with
  | nil => intro acc; left; rfl
  | cons x t ih =>
    intro acc
    simp only [List.foldl_cons]
    rcases ih (pf pos acc x) with e | ⟨p, hp, h⟩
    · rw [e]
      unfold pf
      by_cases e1 : x.1 = pos
      · right; exact ⟨x, by simp, Or.inl ⟨e1, by rw [if_pos e1]⟩⟩
      · by_cases e2 : x.2 = pos
        · right; exact ⟨x, by simp, Or.inr ⟨e2, by rw [if_neg e1, if_pos e2]⟩⟩
        · left; rw [if_neg e1, if_neg e2]
    · right; exact ⟨p, List.mem_cons_of_mem _ hp, h⟩

/-- 1-based index pairs forming a matching on `1..N` -/
structure IdxMatching (N : Nat) (ips : List (Nat × Nat)) : Prop where
  rng : ∀ p ∈ ips, 1 ≤ p.1 ∧ p.1 ≤ N ∧ 1 ≤ p.2 ∧ p.2 ≤ N ∧ p.1 ≠ p.2
  uniq : ∀ p ∈ ips, ∀ q ∈ ips, (p.1 = q.1 ∨ p.1 = q.2 ∨ p.2 = q.1 ∨ p.2 = q.2) → p = q

theorem partner_of_mem {N : Nat} {ips : List (Nat × Nat)} (hm : IdxMatching N ips) {p : Nat × Nat} (hp : p ∈ ips) :
    partner ips p.1 = p.2 ∧ partner ips p.2 = p.1 := by
  have hr := hm.rng p hp
  constructor
  · rw [partner_eq_foldl]
    apply fold_hit p.1 p.2 ips _ ⟨p, hp, Or.inl rfl⟩
    intro q hq
    constructor
    · intro e; have := hm.uniq q hq p hp (Or.inl e); rw [this]
    · intro hne e
      have := hm.uniq q hq p hp (Or.inr (Or.inr (Or.inl e)))
      rw [this] at hne
      exact absurd rfl hne
  · rw [partner_eq_foldl]
    apply fold_hit p.2 p.1 ips _ ⟨p, hp, Or.inr rfl⟩
    intro q hq
    constructor
    · intro e
      have := hm.uniq q hq p hp (Or.inr (Or.inl e))
      rw [this] at e
      exact absurd e hr.2.2.2.2
    · intro _ e; have := hm.uniq q hq p hp (Or.inr (Or.inr (Or.inr e))); rw [this]

theorem entriesOf_length (sl : List Slot) (ips : List (Nat × Nat)) : (entriesOf sl ips).length = sl.length := by
  simp [entriesOf]

theorem entriesOf_getD (sl : List Slot) (ips : List (Nat × Nat)) {k : Nat} (hk : k < sl.length) (d : Entry) :
    (entriesOf sl ips).getD k d = ⟨k + 1, (sl.getD k gapSlot).ch, partner ips (k + 1)⟩ := by
  simp [entriesOf, List.getD_eq_getElem?_getD, List.getElem?_map, List.getElem?_range hk]

theorem valid_entriesOf (sl : List Slot) {ips : List (Nat × Nat)} (hm : IdxMatching sl.length ips) :
    SecStr.valid (entriesOf sl ips) = true := by
  unfold SecStr.valid
  rw [List.all_eq_true]
  intro k hk
  rw [entriesOf_length] at hk
  have hk' : k < sl.length := by simpa using hk
  simp only [entriesOf_getD sl ips hk', entriesOf_length, beq_self_eq_true, Bool.true_and]
  rcases fold_cases (k + 1) ips 0 with e | ⟨p, hp, h⟩
  · rw [partner_eq_foldl, e]; simp
  · have hr := hm.rng p hp
    have hpp := partner_of_mem hm hp
    rw [← partner_eq_foldl] at h
    rcases h with ⟨e1, e2⟩ | ⟨e1, e2⟩
    · rw [e2]
      have hlt : p.2 - 1 < sl.length := by omega
      simp only [SecStr.partnerOf, entriesOf_getD sl ips hlt]
      rw [show p.2 - 1 + 1 = p.2 by omega, hpp.2, ← e1]
      simp only [Bool.or_eq_true, Bool.and_eq_true, decide_eq_true_eq, beq_iff_eq, bne_iff_ne, ne_eq]
      right
      exact ⟨⟨hr.2.2.2.1, fun e => hr.2.2.2.2 e.symm⟩, trivial⟩
    · rw [e2]
      have hlt : p.1 - 1 < sl.length := by omega
      simp only [SecStr.partnerOf, entriesOf_getD sl ips hlt]
      rw [show p.1 - 1 + 1 = p.1 by omega, hpp.1, ← e1]
      simp only [Bool.or_eq_true, Bool.and_eq_true, decide_eq_true_eq, beq_iff_eq, bne_iff_ne, ne_eq]
      right
      exact ⟨⟨hr.2.1, hr.2.2.2.2⟩, trivial⟩

/-! ### from a matching on residues to a matching on BPSEQ indices -/

theorem posOf_spec {sl : List Slot} {k x : Nat} (h : posOf sl k = some x) :
    x < sl.length ∧ (sl.getD x gapSlot).res = some k := by
  unfold posOf at h
  rw [List.findIdx?_eq_some_iff_getElem] at h
  obtain ⟨hx, hp, _⟩ := h
  refine ⟨hx, ?_⟩
  simp only [List.getD_eq_getElem?_getD, List.getElem?_eq_getElem hx, Option.getD_some]
  simpa using hp

theorem posOf_inj {sl : List Slot} {a b x : Nat} (ha : posOf sl a = some x) (hb : posOf sl b = some x) : a = b := by
  have h1 := (posOf_spec ha).2
  have h2 := (posOf_spec hb).2
  rw [h1] at h2
  exact Option.some.inj h2

theorem eq_of_length_le_one {l : List BP} (h : l.length ≤ 1) {a b : BP} (ha : a ∈ l) (hb : b ∈ l) : a = b := by
  match l, h, ha, hb with
  | [x], _, ha, hb => simp at ha hb; rw [ha, hb]

theorem matching_unique {cs : List BP} (hm : Matching cs) {c c' : BP} (hc : c ∈ cs) (hc' : c' ∈ cs) {r : Nat}
    (h1 : c.touches r = true) (h2 : c'.touches r = true) : c = c' := by
  apply eq_of_length_le_one (hm r) <;> simp [group, *]

theorem indexPairs_matching (sl : List Slot) {cs : List BP} (hm : Matching cs) (hne : ∀ c ∈ cs, c.i ≠ c.j) :
    IdxMatching sl.length (indexPairs sl (bpPairs cs)) := by
  have key : ∀ p ∈ indexPairs sl (bpPairs cs), ∃ c ∈ cs, ∃ a b, posOf sl c.i = some a ∧ posOf sl c.j = some b ∧
      p = (a + 1, b + 1) := by
    intro p hp
    unfold indexPairs bpPairs at hp
    rw [List.mem_filterMap] at hp
    obtain ⟨q, hq, hf⟩ := hp
    rw [List.mem_map] at hq
    obtain ⟨c, hc, rfl⟩ := hq
    refine ⟨c, hc, ?_⟩
    simp only at hf
    split at hf
    · rename_i a b ha hb
      exact ⟨a, b, ha, hb, (Option.some.inj hf).symm⟩
    · cases hf
  constructor
  · intro p hp
    obtain ⟨c, hc, a, b, ha, hb, rfl⟩ := key p hp
    have h1 := (posOf_spec ha).1
    have h2 := (posOf_spec hb).1
    refine ⟨by simp, by simp; omega, by simp, by simp; omega, ?_⟩
    simp only [ne_eq, Nat.add_right_cancel_iff]
    intro e
    subst e
    exact hne c hc (posOf_inj ha hb)
  · intro p hp q hq hshare
    obtain ⟨c, hc, a, b, ha, hb, rfl⟩ := key p hp
    obtain ⟨c', hc', a', b', ha', hb', rfl⟩ := key q hq
    simp only [Nat.add_right_cancel_iff] at hshare
    have hcc : c = c' := by
      rcases hshare with e | e | e | e
      · subst e
        have := posOf_inj ha ha'
        exact matching_unique hm hc hc' (r := c.i) (by simp [BP.touches]) (by simp [BP.touches, this])
      · subst e
        have := posOf_inj ha hb'
        exact matching_unique hm hc hc' (r := c.i) (by simp [BP.touches]) (by simp [BP.touches, this])
      · subst e
        have := posOf_inj hb ha'
        exact matching_unique hm hc hc' (r := c.j) (by simp [BP.touches]) (by simp [BP.touches, this])
      · subst e
        have := posOf_inj hb hb'
        exact matching_unique hm hc hc' (r := c.j) (by simp [BP.touches]) (by simp [BP.touches, this])
    subst hcc
    rw [ha] at ha'; rw [hb] at hb'
    rw [Option.some.inj ha', Option.some.inj hb']

theorem genBpseq_valid (fg : Bool) (nts : List Nt) {cs : List BP} (hm : Matching cs) (hne : ∀ c ∈ cs, c.i ≠ c.j) :
    SecStr.valid (genBpseq fg nts (bpPairs cs)) = true :=
  valid_entriesOf _ (indexPairs_matching _ hm hne)

/-! ## C. strands and slices -/

theorem range_map_getD {α β} (l : List α) (d : α) (f : α → β) :
    (List.range l.length).map (fun p => f (l.getD p d)) = l.map f := by
  apply List.ext_getElem
  · simp
  · intro i h1 h2
    simp at h1
    simp [List.getD_eq_getElem?_getD, List.getElem?_eq_getElem h1]

theorem sequence_entriesOf (sl : List Slot) (ips : List (Nat × Nat)) :
    SecStr.sequence (entriesOf sl ips) = sl.map (·.ch) := by
  unfold SecStr.sequence entriesOf
  rw [List.map_map]
  exact range_map_getD sl gapSlot (·.ch)

/-- the second copy of the gap rule (in `strands_sequences`) agrees with the first on one chain -/
theorem gapsStrands_eq (fg : Bool) (p c : Nt) (h : Gen.mapNewStrand (p.chain == c.chain) = false) :
    gapsStrands fg p c = gapsBpseq fg p c := by
  unfold gapsStrands gapsBpseq
  simp only [Gen.mapNewStrand, Bool.not_eq_false'] at h
  simp only [Gen.mapGapCondStrands, Gen.mapGapCondBpseq, Gen.mapGapCountStrands, Gen.mapGapCountBpseq, h]
  cases fg <;> cases p.conn <;> simp

/-- the first copy writes no placeholder where the second opens a new strand -/
theorem gapsBpseq_new (fg : Bool) (p c : Nt) (h : Gen.mapNewStrand (p.chain == c.chain) = true) :
    gapsBpseq fg p c = 0 := by
  unfold gapsBpseq
  simp only [Gen.mapNewStrand, Bool.not_eq_true'] at h
  simp [Gen.mapGapCondBpseq, h]

theorem strandsFrom_concat (fg : Bool) : ∀ (rest : List Nt) (p : Nt) (k : Nat),
    (strandsFrom fg p rest).flatMap (·.2) = p.letter :: (slotsAux fg (some p) k rest).map (·.ch) := by
  intro rest
  induction rest with
  | nil => intro p k; simp [strandsFrom, slotsAux]
  | cons n rest ih =>
    intro p k
    have ihn := ih n (k + 1)
    unfold strandsFrom
    simp only [slotsAux, List.map_append, List.map_replicate, List.map_cons]
    by_cases hnew : Gen.mapNewStrand (p.chain == n.chain) = true
    · rw [if_pos hnew, gapsBpseq_new fg p n hnew]
      simp [ihn]
    · have hnew' : Gen.mapNewStrand (p.chain == n.chain) = false := by simpa using hnew
      rw [if_neg hnew]
      split
      · rename_i he
        rw [he] at ihn
        simp at ihn
      · rename_i c s more he
        rw [he] at ihn
        simp only [List.flatMap_cons] at ihn
        simp only [List.flatMap_cons, List.cons_append, List.append_assoc, ihn,
          gapsStrands_eq fg p n hnew']
        rfl

/-- `strands_concat` core: the strand sequences concatenate to the letters of the slots -/
theorem strands_concat_slots (fg : Bool) (nts : List Nt) :
    (strandSequences fg nts).flatMap (·.2) = (slots fg nts).map (·.ch) := by
  unfold strandSequences slots
  match nts with
  | [] => simp [slotsAux]
  | p :: rest =>
    simp only [slotsAux, List.nil_append, List.map_cons]
    exact strandsFrom_concat fg rest p 1

theorem slices_flatten : ∀ (lens : List Nat) (db : List Char), db.length ≤ lens.sum →
    (slices lens db).flatten = db := by
  intro lens
  induction lens with
  | nil =>
    intro db h
    have : db = [] := List.eq_nil_of_length_eq_zero (by simpa using h)
    subst this; rfl
  | cons l ls ih =>
    intro db h
    simp only [slices, List.flatten_cons]
    rw [ih (db.drop l) (by simp only [List.length_drop, List.sum_cons] at *; omega)]
    exact List.take_append_drop l db

theorem strandLens_sum (fg : Bool) (nts : List Nt) : (strandLens fg nts).sum = (slots fg nts).length := by
  have h := congrArg List.length (strands_concat_slots fg nts)
  simp only [List.length_flatMap, List.length_map] at h
  unfold strandLens
  rw [← h]

/-! ## D. rows of the extended dot-bracket -/

theorem place_perm (k : Option Nat) (r : BP) : ∀ (rows : List (List BP)) (t : Nat),
    (place k r t rows).flatten.Perm (r :: rows.flatten) := by
  intro rows
  induction rows with
  | nil => intro t; simp [place]
  | cons row rest ih =>
    intro t
    unfold place
    split
    · simp only [List.flatten_cons, List.append_assoc, List.singleton_append]
      exact List.perm_middle
    · simp only [List.flatten_cons]
      exact ((ih (t + 1)).append_left row).trans List.perm_middle

theorem foldl_place_perm (k : Option Nat) : ∀ (recs : List BP) (rows : List (List BP)),
    (recs.foldl (fun rows r => place k r 0 rows) rows).flatten.Perm (rows.flatten ++ recs) := by
  intro recs
  induction recs with
  | nil => intro rows; simp
  | cons r t ih =>
    intro rows
    simp only [List.foldl_cons]
    refine (ih _).trans ?_
    refine ((place_perm k r rows 0).append_right t).trans ?_
    simp only [List.cons_append]
    exact List.perm_middle.symm

/-- the rows partition the records: every record sits in exactly one row position -/
theorem allocRows_perm (k : Option Nat) (recs : List BP) : (allocRows k recs).flatten.Perm recs := by
  have := foldl_place_perm k recs []
  simpa [allocRows] using this

theorem matching_single (r : BP) : Matching [r] := by
  intro x
  exact Nat.le_trans (List.length_filter_le _ _) (by simp)

theorem matching_append {row : List BP} {r : BP} (hm : Matching row) (hd : disjointRow r row = true) :
    Matching (row ++ [r]) := by
  intro x
  unfold group
  rw [List.filter_append, List.length_append]
  by_cases hr : r.touches x = true
  · have : row.filter (·.touches x) = [] := by
      rw [List.filter_eq_nil_iff]
      intro q hq hqt
      unfold disjointRow at hd
      rw [List.all_eq_true] at hd
      have h1 := hd q hq
      have h2 := not_disjoint_of_touch hqt hr
      rw [h1] at h2
      exact Bool.noConfusion h2
    rw [this]
    exact Nat.le_trans (Nat.add_le_add_left (List.length_filter_le _ _) _) (by simp)
  · have : [r].filter (·.touches x) = [] := by simp [hr]
    rw [this]
    have := hm x
    unfold group at this
    simpa using this

theorem place_matching (r : BP) : ∀ (rows : List (List BP)) (t : Nat),
    (∀ row ∈ rows, Matching row) → ∀ row ∈ place none r t rows, Matching row := by
  intro rows
  induction rows with
  | nil =>
    intro t _ row hrow
    simp only [place, List.mem_singleton] at hrow
    subst hrow
    exact matching_single r
  | cons row0 rest ih =>
    intro t h row hrow
    unfold place at hrow
    have hl : isLastRow none t = false := by simp [isLastRow]
    simp only [hl, Bool.false_or] at hrow
    split at hrow
    · rename_i hd
      rcases List.mem_cons.mp hrow with e | m
      · subst e; exact matching_append (h row0 (by simp)) hd
      · exact h row (List.mem_cons_of_mem _ m)
    · rcases List.mem_cons.mp hrow with e | m
      · subst e; exact h _ (by simp)
      · exact ih (t + 1) (fun x hx => h x (List.mem_cons_of_mem _ hx)) row m

theorem foldl_place_matching : ∀ (recs : List BP) (rows : List (List BP)),
    (∀ row ∈ rows, Matching row) → ∀ row ∈ recs.foldl (fun rows r => place none r 0 rows) rows, Matching row := by
  intro recs
  induction recs with
  | nil => intro rows h; exact h
  | cons r t ih => intro rows h; exact ih _ (place_matching r rows 0 h)

/-- greedy allocation with as many rows as needed: every row is a matching -/
theorem allocRows_greedy_matching (recs : List BP) : ∀ row ∈ allocRows none recs, Matching row :=
  foldl_place_matching recs [] (by simp)

/-! ### a row that is a matching is encoded faithfully by its BPSEQ -/

def encodesB (sl : List Slot) (es : List Entry) (c : BP) : Bool :=
  match posOf sl c.i, posOf sl c.j with
  | some a, some b => SecStr.partnerOf es (a + 1) == b + 1 && SecStr.partnerOf es (b + 1) == a + 1
  | _, _ => false

def explainedB (sl : List Slot) (row : List BP) (e : Entry) : Bool :=
  e.pair == 0 || row.any (fun c =>
    (posOf sl c.i == some (e.idx - 1) && posOf sl c.j == some (e.pair - 1)) ||
    (posOf sl c.j == some (e.idx - 1) && posOf sl c.i == some (e.pair - 1)))

/-- the BPSEQ of the row is a valid matching, pairs every record of the row, and pairs nothing else -/
def rowFaithful (fg : Bool) (nts : List Nt) (row : List BP) : Bool :=
  SecStr.valid (genBpseq fg nts (bpPairs row)) &&
  row.all (encodesB (slots fg nts) (genBpseq fg nts (bpPairs row))) &&
  (genBpseq fg nts (bpPairs row)).all (explainedB (slots fg nts) row)

theorem posOf_some (fg : Bool) (nts : List Nt) {k : Nat} (hk : k < nts.length) :
    ∃ x, posOf (slots fg nts) k = some x := by
  have h : (posOf (slots fg nts) k).isSome = true := by
    unfold posOf
    rw [List.findIdx?_isSome, slots_eq_spec, List.any_eq_true]
    refine ⟨⟨some k, (ntAt nts k).letter⟩, ?_, by simp⟩
    unfold slotsSpec
    rw [List.mem_flatMap]
    exact ⟨k, by simpa using hk, by simp⟩
  exact Option.isSome_iff_exists.mp h

theorem indexPairs_mem {sl : List Slot} {cs : List BP} {p : Nat × Nat} (hp : p ∈ indexPairs sl (bpPairs cs)) :
    ∃ c ∈ cs, ∃ a b, posOf sl c.i = some a ∧ posOf sl c.j = some b ∧ p = (a + 1, b + 1) := by
  unfold indexPairs bpPairs at hp
  rw [List.mem_filterMap] at hp
  obtain ⟨q, hq, hf⟩ := hp
  rw [List.mem_map] at hq
  obtain ⟨c, hc, rfl⟩ := hq
  refine ⟨c, hc, ?_⟩
  simp only at hf
  split at hf
  · rename_i a b ha hb
    exact ⟨a, b, ha, hb, (Option.some.inj hf).symm⟩
  · cases hf

theorem mem_indexPairs {sl : List Slot} {cs : List BP} {c : BP} (hc : c ∈ cs) {a b : Nat}
    (ha : posOf sl c.i = some a) (hb : posOf sl c.j = some b) : (a + 1, b + 1) ∈ indexPairs sl (bpPairs cs) := by
  unfold indexPairs bpPairs
  rw [List.mem_filterMap]
  refine ⟨(c.i, c.j), List.mem_map.mpr ⟨c, hc, rfl⟩, ?_⟩
  simp only [ha, hb]

theorem partnerOf_entriesOf (sl : List Slot) (ips : List (Nat × Nat)) {a : Nat} (ha : a < sl.length) :
    SecStr.partnerOf (entriesOf sl ips) (a + 1) = partner ips (a + 1) := by
  simp only [SecStr.partnerOf, Nat.add_sub_cancel, entriesOf_getD sl ips ha]

theorem rowFaithful_of_matching (fg : Bool) (nts : List Nt) {row : List BP} (hm : Matching row)
    (hb : ∀ c ∈ row, c.i ≠ c.j ∧ c.i < nts.length ∧ c.j < nts.length) : rowFaithful fg nts row = true := by
  have him := indexPairs_matching (slots fg nts) hm (fun c hc => (hb c hc).1)
  unfold rowFaithful
  rw [Bool.and_eq_true, Bool.and_eq_true]
  refine ⟨⟨genBpseq_valid fg nts hm (fun c hc => (hb c hc).1), ?_⟩, ?_⟩
  · rw [List.all_eq_true]
    intro c hc
    obtain ⟨a, ha⟩ := posOf_some fg nts (hb c hc).2.1
    obtain ⟨b, hb'⟩ := posOf_some fg nts (hb c hc).2.2
    have hmem := mem_indexPairs hc ha hb'
    have hp := partner_of_mem him hmem
    unfold encodesB genBpseq
    simp only [ha, hb']
    rw [partnerOf_entriesOf _ _ (posOf_spec ha).1, partnerOf_entriesOf _ _ (posOf_spec hb').1]
    simp only [] at hp
    rw [hp.1, hp.2]
    simp
  · rw [List.all_eq_true]
    intro e he
    unfold genBpseq entriesOf at he
    rw [List.mem_map] at he
    obtain ⟨p, hp, rfl⟩ := he
    unfold explainedB
    simp only [Nat.add_sub_cancel, Bool.or_eq_true, beq_iff_eq]
    rcases fold_cases (p + 1) (indexPairs (slots fg nts) (bpPairs row)) 0 with e0 | ⟨q, hq, h⟩
    · left; rw [partner_eq_foldl]; exact e0
    · right
      obtain ⟨c, hc, a, b, ha, hb', rfl⟩ := indexPairs_mem hq
      rw [List.any_eq_true]
      refine ⟨c, hc, ?_⟩
      rw [← partner_eq_foldl] at h
      simp only [Nat.add_right_cancel_iff] at h
      rcases h with ⟨e1, e2⟩ | ⟨e1, e2⟩
      · simp [ha, hb', e1, e2]
      · simp [ha, hb', e1, e2]

theorem pushNew_mem {acc : List BP} {b x : BP} (h : x ∈ pushNew acc b) : x ∈ acc ∨ x = b := by
  unfold pushNew at h
  split at h
  · left; exact h
  · simpa using h

theorem liftStep_bound (n : Nat) {acc : List BP} (p : PairIn) (h : ∀ b ∈ acc, b.i < n ∧ b.j < n) :
    ∀ b ∈ liftStep n acc p, b.i < n ∧ b.j < n := by
  intro b hb
  unfold liftStep at hb
  split at hb
  · split at hb
    · rename_i hab
      rcases pushNew_mem hb with h1 | h1
      · rcases pushNew_mem h1 with h2 | h2
        · exact h b h2
        · subst h2; exact hab
      · subst h1; exact ⟨hab.2, hab.1⟩
    · exact h b hb
  · exact h b hb

theorem liftPairs_bound (n : Nat) (inp : List PairIn) : ∀ b ∈ liftPairs n inp, b.i < n ∧ b.j < n := by
  unfold liftPairs
  have : ∀ (inp : List PairIn) (acc : List BP), (∀ b ∈ acc, b.i < n ∧ b.j < n) →
      ∀ b ∈ inp.foldl (liftStep n) acc, b.i < n ∧ b.j < n := by
    intro inp
    induction inp with
    | nil => intro acc h; exact h
    | cons p t ih => intro acc h; exact ih _ (liftStep_bound n p h)
  exact this inp [] (by simp)

theorem classRecords_mem {nts : List Nt} {bps : List BP} {lw : Nat} {c : BP} (h : c ∈ classRecords nts bps lw) :
    c ∈ bps ∧ c.lw = lw ∧ oriented nts c = true := by
  simpa [classRecords, and_assoc] using h

/-- what "the rows of class `lw` encode every distinct input pair of that class exactly once" means for
the model: the rows partition the (duplicate-free) class records, and each row's BPSEQ is a valid
matching that pairs exactly the records of the row -/
def ExtRowsCorrect (k : Option Nat) (fg : Bool) (nts : List Nt) (inp : List PairIn) : Prop :=
  ∀ lw, lw < lwCount →
    (allocRows k (classRecords nts (liftPairs nts.length inp) lw)).flatten.Perm
      (classRecords nts (liftPairs nts.length inp) lw) ∧
    (classRecords nts (liftPairs nts.length inp) lw).Nodup ∧
    ∀ row ∈ allocRows k (classRecords nts (liftPairs nts.length inp) lw), rowFaithful fg nts row = true

theorem extRows_correct_of_matching (k : Option Nat) (fg : Bool) (nts : List Nt) (inp : List PairIn)
    (h : ∀ lw, lw < lwCount → ∀ row ∈ allocRows k (classRecords nts (liftPairs nts.length inp) lw), Matching row) :
    ExtRowsCorrect k fg nts inp := by
  intro lw hlw
  have hperm := allocRows_perm k (classRecords nts (liftPairs nts.length inp) lw)
  refine ⟨hperm, (List.filter_sublist).nodup (liftPairs_nodup _ _), ?_⟩
  intro row hrow
  apply rowFaithful_of_matching fg nts (h lw hlw row hrow)
  intro c hc
  have hcr : c ∈ classRecords nts (liftPairs nts.length inp) lw :=
    (hperm.mem_iff).mp (List.mem_flatten.mpr ⟨row, hrow, hc⟩)
  obtain ⟨hcb, _, hor⟩ := classRecords_mem hcr
  exact ⟨oriented_ne hor, liftPairs_bound _ _ c hcb⟩

theorem extRows_correct_greedy (fg : Bool) (nts : List Nt) (inp : List PairIn) : ExtRowsCorrect none fg nts inp :=
  extRows_correct_of_matching none fg nts inp (fun _ _ => allocRows_greedy_matching _)

/-! ## E. a valid BPSEQ with a per-level non-crossing level function is a well-formed levelled matching -/

/-- the 5'→3' pairs (0-based) of a BPSEQ, each with the level `lv` gives it -/
def levelled (es : List Entry) (lv : Nat × Nat → Nat) : List SecStr.Tr :=
  (SecStr.pairs0 es).map (fun p => (p.1, p.2, lv p))

theorem valid_at {es : List Entry} (hv : SecStr.valid es = true) {k : Nat} (hk : k < es.length) :
    (es.getD k ⟨0, '?', 0⟩).idx = k + 1 ∧
    ((es.getD k ⟨0, '?', 0⟩).pair = 0 ∨
      ((es.getD k ⟨0, '?', 0⟩).pair ≤ es.length ∧ (es.getD k ⟨0, '?', 0⟩).pair ≠ k + 1 ∧
        SecStr.partnerOf es (es.getD k ⟨0, '?', 0⟩).pair = k + 1)) := by
  unfold SecStr.valid at hv
  rw [List.all_eq_true] at hv
  have h := hv k (by simpa using hk)
  simp only [Bool.and_eq_true, beq_iff_eq, Bool.or_eq_true, decide_eq_true_eq, bne_iff_ne, ne_eq] at h
  obtain ⟨h1, h2⟩ := h
  refine ⟨h1, ?_⟩
  rcases h2 with h2 | ⟨⟨h2, h3⟩, h4⟩
  · left; exact h2
  · right; rw [h1] at h3 h4; exact ⟨h2, h3, h4⟩

theorem mem_levelled {es : List Entry} {lv : Nat × Nat → Nat} {m : SecStr.Tr} (hm : m ∈ levelled es lv) :
    ∃ k, k < es.length ∧ es.getD k ⟨0, '?', 0⟩ ∈ es ∧ (es.getD k ⟨0, '?', 0⟩).pair ≠ 0 ∧
      (es.getD k ⟨0, '?', 0⟩).idx < (es.getD k ⟨0, '?', 0⟩).pair ∧
      m = ((es.getD k ⟨0, '?', 0⟩).idx - 1, (es.getD k ⟨0, '?', 0⟩).pair - 1,
            lv ((es.getD k ⟨0, '?', 0⟩).idx - 1, (es.getD k ⟨0, '?', 0⟩).pair - 1)) := by
  unfold levelled SecStr.pairs0 SecStr.paired5to3 at hm
  simp only [List.map_map, List.mem_map, List.mem_filter, Function.comp_apply, Bool.and_eq_true,
    bne_iff_ne, ne_eq, decide_eq_true_eq] at hm
  obtain ⟨e, ⟨he, hp, hlt⟩, rfl⟩ := hm
  obtain ⟨k, hk, rfl⟩ := List.getElem_of_mem he
  refine ⟨k, hk, ?_⟩
  rw [show es.getD k ⟨0, '?', 0⟩ = es[k] by
    simp [List.getD_eq_getElem?_getD, List.getElem?_eq_getElem hk]]
  exact ⟨he, hp, hlt, rfl⟩

theorem wf_of_valid {es : List Entry} (hv : SecStr.valid es = true) (lv : Nat × Nat → Nat)
    (hnc : ∀ p ∈ SecStr.pairs0 es, ∀ q ∈ SecStr.pairs0 es, lv p = lv q →
      ¬ (p.1 < q.1 ∧ q.1 < p.2 ∧ p.2 < q.2)) :
    SecStr.WF (levelled es lv) es.length := by
  -- facts about one member
  have fact : ∀ m ∈ levelled es lv, ∃ k, k < es.length ∧ m.1 = k ∧ k < m.2.1 ∧ m.2.1 < es.length ∧
      (es.getD k ⟨0, '?', 0⟩).pair = m.2.1 + 1 ∧ SecStr.partnerOf es (m.2.1 + 1) = k + 1 ∧
      m.2.2 = lv (m.1, m.2.1) := by
    intro m hm
    obtain ⟨k, hk, _, hp, hlt, rfl⟩ := mem_levelled hm
    obtain ⟨h1, h2⟩ := valid_at hv hk
    rcases h2 with h2 | ⟨h2, _, h4⟩
    · exact absurd h2 hp
    · clear hm
      refine ⟨k, hk, ?_, ?_, ?_, ?_, ?_, ?_⟩ <;>
        (generalize es.getD k ⟨0, '?', 0⟩ = e at *; dsimp only)
      · omega
      · omega
      · omega
      · omega
      · rw [show e.pair - 1 + 1 = e.pair by omega]
        exact h4
  have mem_pairs : ∀ m ∈ levelled es lv, (m.1, m.2.1) ∈ SecStr.pairs0 es := by
    intro m hm
    unfold levelled at hm
    rw [List.mem_map] at hm
    obtain ⟨p, hp, rfl⟩ := hm
    exact hp
  constructor
  · intro m hm
    obtain ⟨k, _, h1, h2, h3, _⟩ := fact m hm
    omega
  · intro m hm m' hm' e
    obtain ⟨k, _, h1, _, _, h4, _, h6⟩ := fact m hm
    obtain ⟨k', _, h1', _, _, h4', _, h6'⟩ := fact m' hm'
    have hk : k = k' := by omega
    subst hk
    have : m.2.1 = m'.2.1 := by omega
    rw [Prod.ext_iff, Prod.ext_iff]
    refine ⟨e, this, ?_⟩
    rw [h6, h6', e, this]
  · intro m hm m' hm' e
    obtain ⟨k, _, h1, _, _, _, h5, h6⟩ := fact m hm
    obtain ⟨k', _, h1', _, _, _, h5', h6'⟩ := fact m' hm'
    rw [e] at h5
    have hk : k = k' := by omega
    have e1 : m.1 = m'.1 := by omega
    rw [Prod.ext_iff, Prod.ext_iff]
    refine ⟨e1, e, ?_⟩
    rw [h6, h6', e1, e]
  · intro m hm m' hm' e
    obtain ⟨k, hk, h1, h2, _, h4, _, _⟩ := fact m hm
    obtain ⟨k', _, h1', h2', _, _, h5', _⟩ := fact m' hm'
    -- m opens where m' closes: the partner of that position is both m's closing and m''s opening
    have : SecStr.partnerOf es (m'.2.1 + 1) = m.2.1 + 1 := by
      rw [← e, h1]
      simp only [SecStr.partnerOf, Nat.add_sub_cancel]
      exact h4
    omega
  · intro m hm m' hm' e
    obtain ⟨_, _, _, _, _, _, _, h6⟩ := fact m hm
    obtain ⟨_, _, _, _, _, _, _, h6'⟩ := fact m' hm'
    exact hnc _ (mem_pairs m hm) _ (mem_pairs m' hm') (by rw [← h6, ← h6']; exact e)

/-- every text a row that is a matching can get (any per-level non-crossing level function): as long as
the sequence, balanced, and decoding to exactly the row BPSEQ's pairs -/
theorem row_text_balanced (fg : Bool) (nts : List Nt) {row : List BP} (hm : Matching row)
    (hne : ∀ c ∈ row, c.i ≠ c.j) (lv : Nat × Nat → Nat)
    (hnc : ∀ p ∈ SecStr.pairs0 (genBpseq fg nts (bpPairs row)), ∀ q ∈ SecStr.pairs0 (genBpseq fg nts (bpPairs row)),
      lv p = lv q → ¬ (p.1 < q.1 ∧ q.1 < p.2 ∧ p.2 < q.2)) :
    ((List.range (slots fg nts).length).map (fun k => SecStr.charOfTok Gen.encBrackets
        (SecStr.tokOf (levelled (genBpseq fg nts (bpPairs row)) lv) k))).length = (slots fg nts).length ∧
    ∃ s', SecStr.decodeFrom (SecStr.tokOf (levelled (genBpseq fg nts (bpPairs row)) lv))
        (List.range (slots fg nts).length) SecStr.St.init = some s' ∧
      (∀ t, s'.stacks t = []) ∧ s'.out.Nodup ∧
      (∀ p, p ∈ s'.out ↔ p ∈ SecStr.pairs0 (genBpseq fg nts (bpPairs row))) := by
  refine ⟨by simp, ?_⟩
  have hv := genBpseq_valid fg nts hm hne
  have wf := wf_of_valid hv lv hnc
  have hl : (genBpseq fg nts (bpPairs row)).length = (slots fg nts).length := by
    unfold genBpseq; exact entriesOf_length _ _
  rw [hl] at wf
  obtain ⟨s', h1, h2, h3, h4⟩ := SecStr.decode_correct wf
  refine ⟨s', h1, h2, h3, ?_⟩
  intro p
  rw [h4]
  unfold levelled
  constructor
  · rintro ⟨t, ht⟩
    rw [List.mem_map] at ht
    obtain ⟨q, hq, e⟩ := ht
    have : q = p := by
      rw [Prod.ext_iff] at e ⊢
      exact ⟨e.1, (Prod.ext_iff.mp e.2).1⟩
    rw [← this]; exact hq
  · intro hp
    exact ⟨lv p, List.mem_map.mpr ⟨p, hp, rfl⟩⟩

end RnaVerif.Mapping

import RnaVerif.Model.MilpSpec
import RnaVerif.Lemmas.Pushdown
/-!
# The MILP of `convert_to_dot_bracket` (C02): feasible 0/1 assignments are exactly the encodings of
proper level vectors with levels `< maxOrder`; the objective is the score; read-back.
-/
namespace RnaVerif.SecStr.Poa

/-! ### the model's program is `milpG` of its conflict graph -/

theorem milp_eq (c : ConfPred) (regs : List Region) :
    milp c regs =
      if (List.range regs.length).all (fun v => degree (adjOf c regs) regs.length v == 0) then none
      else some (milpG (adjOf c regs) (fun i => (regs.getD i default).len) regs.length
        (maxDegree (adjOf c regs) regs.length + Gen.maxOrderOffset)) := rfl

theorem adjOf_symIrr (c : ConfPred) (regs : List Region) : SymIrr (adjOf c regs) := by
  constructor
  · intro u v
    unfold adjOf
    cases hu : regs[u]? <;> cases hv : regs[v]? <;> simp only
    rcases Nat.lt_trichotomy u v with h | h | h
    · have h' : ¬ v < u := by omega
      simp [h, h']
    · subst h; simp
    · have h' : ¬ u < v := by omega
      simp [h, h']
  · intro u
    unfold adjOf
    cases hu : regs[u]? <;> simp

theorem lens_eq_map (regs : List Region) :
    regs.map (·.len) = (List.range regs.length).map (fun i => (regs.getD i default).len) := by
  apply List.ext_getElem
  · simp
  · intro i h1 h2
    simp at h1
    simp [List.getD, h1]

/-! ### one row -/

theorem isum_map_ite (p : Nat → Bool) (cf : Nat → Int) (l : List Nat) :
    (l.map (fun o => if p o then cf o else 0)).foldl (· + ·) 0 =
      ((l.filter p).map cf).foldl (· + ·) 0 := by
  induction l with
  | nil => simp
  | cons o l ih =>
    simp only [List.map_cons, List.filter_cons]
    rw [isum_cons, ih]
    cases h : p o
    · simp
    · simp only [if_true, List.map_cons]; rw [isum_cons]

theorem find?_of_filter_eq (p : Nat → Bool) (k : Nat) : ∀ (l : List Nat),
    l.filter p = [k] → l.find? p = some k := by
  intro l
  induction l with
  | nil => intro h; simp at h
  | cons o l ih =>
    intro h
    simp only [List.filter_cons] at h
    simp only [List.find?_cons]
    cases hp : p o
    · simp only [hp] at h
      exact ih (by simpa using h)
    · simp only [hp, if_true] at h
      have : o = k := by
        have := congrArg List.head? h
        simpa using this
      rw [this]

/-- a row with exactly one variable at 1 -/
theorem row_single (p : Nat → Bool) (mo : Nat) (h : ((List.range mo).filter p).length = 1) :
    ∃ k, (List.range mo).filter p = [k] ∧ k < mo ∧ (List.range mo).find? p = some k ∧
      ∀ o, o < mo → p o = decide (o = k) := by
  match hf : (List.range mo).filter p, h with
  | [k], _ =>
    have hk : k ∈ (List.range mo).filter p := by rw [hf]; simp
    obtain ⟨hk1, hk2⟩ := List.mem_filter.mp hk
    refine ⟨k, rfl, List.mem_range.mp hk1, find?_of_filter_eq p k _ hf, ?_⟩
    intro o ho
    by_cases e : o = k
    · subst e; simp [hk2]
    · simp only [e, decide_false]
      cases hp : p o
      · rfl
      · exfalso
        have : o ∈ (List.range mo).filter p :=
          List.mem_filter.mpr ⟨List.mem_range.mpr ho, hp⟩
        rw [hf] at this
        simp at this
        exact e this

theorem filter_range_eq (k mo : Nat) (hk : k < mo) :
    (List.range mo).filter (fun o => decide (o = k)) = [k] := by
  induction mo with
  | zero => omega
  | succ mo ih =>
    rw [List.range_succ, List.filter_append]
    by_cases e : k = mo
    · subst e
      have : (List.range k).filter (fun o => decide (o = k)) = [] := by
        rw [List.filter_eq_nil_iff]
        intro o ho
        have := List.mem_range.mp ho
        simp; omega
      rw [this]; simp
    · rw [ih (by omega)]
      have : ¬ mo = k := fun h => e h.symm
      simp [this]

theorem row_of_onehot (p : Nat → Bool) (k mo : Nat) (hk : k < mo)
    (h : ∀ o, o < mo → p o = decide (o = k)) : (List.range mo).filter p = [k] := by
  rw [← filter_range_eq k mo hk]
  apply List.filter_congr
  intro o ho
  exact h o (List.mem_range.mp ho)

/-! ### feasibility, unfolded -/

theorem feasible_milpG_iff (adj : Nat → Nat → Bool) (len : Nat → Nat) (n mo : Nat) (x : Assign) :
    feasible (milpG adj len n mo) x = true ↔
      (∀ i, i < n → ((List.range mo).filter (x i)).length = 1) ∧
      (∀ i, i < n → ∀ j, j < n → adj i j = true → ∀ o, o < mo →
        ¬ (x i o = true ∧ x j o = true)) := by
  simp only [feasible, milpG, Bool.and_eq_true, List.all_eq_true, List.mem_map, List.mem_range,
    List.mem_flatMap, List.mem_filter, beq_iff_eq, Bool.not_eq_true', Bool.and_eq_false_iff]
  constructor
  · rintro ⟨h1, h2⟩
    refine ⟨?_, ?_⟩
    · intro i hi
      have := h1 _ ⟨i, hi, rfl⟩
      rw [List.filter_map, List.length_map] at this
      exact this
    · intro i hi j hj ha o ho hx
      have := h2 ((i, o), (j, o)) ⟨i, hi, j, ⟨hj, ha⟩, o, ho, rfl⟩
      simp only at this
      rcases this with h | h
      · rw [h] at hx; exact absurd hx.1 (by simp)
      · rw [h] at hx; exact absurd hx.2 (by simp)
  · rintro ⟨h1, h2⟩
    refine ⟨?_, ?_⟩
    · rintro row ⟨i, hi, rfl⟩
      rw [List.filter_map, List.length_map]
      exact h1 i hi
    · rintro cst ⟨i, hi, j, ⟨hj, ha⟩, o, ho, rfl⟩
      simp only
      have := h2 i hi j hj ha o ho
      cases hxi : x i o
      · left; rfl
      · right
        cases hxj : x j o
        · rfl
        · exact absurd ⟨hxi, hxj⟩ this

theorem levelsOf_length (adj : Nat → Nat → Bool) (len : Nat → Nat) (n mo : Nat) (x : Assign) :
    (levelsOf (milpG adj len n mo) x).length = n := by
  simp [levelsOf, milpG]

theorem levelsOf_getD (adj : Nat → Nat → Bool) (len : Nat → Nat) (n mo : Nat) (x : Assign)
    (i : Nat) (hi : i < n) : (levelsOf (milpG adj len n mo) x).getD i 0 = levelOf mo x i := by
  simp [levelsOf, milpG, List.getD, hi]

/-- one-hot form of an assignment with respect to the levels read back from it -/
def OneHot (n mo : Nat) (x : Assign) (lv : List Nat) : Prop :=
  ∀ i, i < n → lv.getD i 0 < mo ∧ ∀ o, o < mo → x i o = decide (o = lv.getD i 0)

/-- **feasible ↔ one-hot encoding of a proper level vector with levels `< maxOrder`** -/
theorem feasible_iff (adj : Nat → Nat → Bool) (len : Nat → Nat) (n mo : Nat) (x : Assign) :
    feasible (milpG adj len n mo) x = true ↔
      OneHot n mo x (levelsOf (milpG adj len n mo) x) ∧
        proper adj (levelsOf (milpG adj len n mo) x) = true := by
  rw [feasible_milpG_iff, proper_iff, levelsOf_length]
  constructor
  · rintro ⟨h1, h2⟩
    have hoh : OneHot n mo x (levelsOf (milpG adj len n mo) x) := by
      intro i hi
      obtain ⟨k, _, hk, hfind, hk'⟩ := row_single (x i) mo (h1 i hi)
      have : levelOf mo x i = k := by simp [levelOf, hfind]
      rw [levelsOf_getD _ _ _ _ _ _ hi, this]
      exact ⟨hk, hk'⟩
    refine ⟨hoh, ?_⟩
    intro u hu v hv ha e
    obtain ⟨b1, o1⟩ := hoh u hu
    obtain ⟨b2, o2⟩ := hoh v hv
    apply h2 u hu v hv ha _ b1
    rw [o1 _ b1, o2 _ b1]
    exact ⟨decide_eq_true rfl, decide_eq_true e⟩
  · rintro ⟨hoh, hp⟩
    refine ⟨?_, ?_⟩
    · intro i hi
      obtain ⟨b, o⟩ := hoh i hi
      rw [row_of_onehot (x i) _ mo b o]; rfl
    · intro i hi j hj ha o ho hx
      obtain ⟨_, o1⟩ := hoh i hi
      obtain ⟨_, o2⟩ := hoh j hj
      rw [o1 o ho, o2 o ho] at hx
      simp only [decide_eq_true_eq] at hx
      exact hp i hi j hj ha (by rw [← hx.1, ← hx.2])

/-- the objective value of a feasible assignment is the score of its levels -/
theorem objective_eq_score (adj : Nat → Nat → Bool) (len : Nat → Nat) (n mo : Nat) (x : Assign)
    (hf : feasible (milpG adj len n mo) x = true) :
    objective (milpG adj len n mo) x =
      score ((List.range n).map len) (levelsOf (milpG adj len n mo) x) := by
  have hoh := ((feasible_iff adj len n mo x).mp hf).1
  have hrow : ∀ i, i < n →
      (((List.range mo).map (fun (o : Nat) => ((i, o), Gen.objCoeff ((len i : Nat) : Int) (o : Int)))).map
        (fun t => if x t.1.1 t.1.2 then t.2 else 0)).foldl (· + ·) 0 =
      Gen.objCoeff ((len i : Nat) : Int) ((levelOf mo x i : Nat) : Int) := by
    intro i hi
    obtain ⟨b, o⟩ := hoh i hi
    rw [levelsOf_getD _ _ _ _ _ _ hi] at b o
    rw [List.map_map]
    have := isum_map_ite (x i) (fun (o : Nat) => Gen.objCoeff ((len i : Nat) : Int) (o : Int)) (List.range mo)
    rw [row_of_onehot (x i) _ mo b o] at this
    simp only [List.map_cons, List.map_nil] at this
    rw [isum_cons] at this
    simp only [List.foldl_nil, Int.add_zero] at this
    rw [← this]
    rfl
  have hgen : ∀ l : List Nat, (∀ i ∈ l, i < n) →
      ((l.flatMap (fun i => (List.range mo).map (fun (o : Nat) =>
        ((i, o), Gen.objCoeff ((len i : Nat) : Int) (o : Int))))).map
        (fun t => if x t.1.1 t.1.2 then t.2 else 0)).foldl (· + ·) 0 =
      (l.map (fun i => Gen.objCoeff ((len i : Nat) : Int) ((levelOf mo x i : Nat) : Int))).foldl
        (· + ·) 0 := by
    intro l
    induction l with
    | nil => intro _; simp
    | cons i l ih =>
      intro hl
      rw [List.flatMap_cons, List.map_append, isum_append, List.map_cons, isum_cons,
        hrow i (hl i (by simp)), ih (fun j hj => hl j (by simp [hj]))]
  have h1 := hgen (List.range n) (fun i hi => List.mem_range.mp hi)
  have h2 := score_map len (levelOf mo x) (List.range n)
  show ((milpG adj len n mo).obj.map _).foldl (· + ·) 0 = _
  rw [show levelsOf (milpG adj len n mo) x = (List.range n).map (levelOf mo x) from rfl, h2]
  exact h1

/-! ### encoding a level vector -/

theorem encode_onehot (lv : List Nat) (i o : Nat) :
    encode lv i o = decide (o = lv.getD i 0) := by
  unfold encode
  generalize lv.getD i 0 = a
  by_cases e : o = a
  · subst e; simp
  · have : ¬ a = o := fun h => e h.symm
    simp [e, this]

theorem levelOf_encode (lv : List Nat) (mo i : Nat) (h : lv.getD i 0 < mo) :
    levelOf mo (encode lv) i = lv.getD i 0 := by
  have : (List.range mo).filter (encode lv i) = [lv.getD i 0] := by
    apply row_of_onehot _ _ mo h
    intro o _
    exact encode_onehot lv i o
  simp [levelOf, find?_of_filter_eq _ _ _ this]

theorem levelsOf_encode (adj : Nat → Nat → Bool) (len : Nat → Nat) (n mo : Nat) (lv : List Nat)
    (hl : lv.length = n) (hb : ∀ i, i < n → lv.getD i 0 < mo) :
    levelsOf (milpG adj len n mo) (encode lv) = lv := by
  apply List.ext_getElem
  · rw [levelsOf_length, hl]
  · intro i h1 h2
    rw [levelsOf_length] at h1
    have e1 := levelsOf_getD adj len n mo (encode lv) i h1
    rw [levelOf_encode lv mo i (hb i h1)] at e1
    simp only [List.getD] at e1
    rw [List.getElem?_eq_getElem (by rw [levelsOf_length]; exact h1),
      List.getElem?_eq_getElem h2] at e1
    simpa using e1

/-- every proper level vector with levels `< maxOrder` is (the read-back of) a feasible
assignment -/
theorem feasible_encode (adj : Nat → Nat → Bool) (len : Nat → Nat) (n mo : Nat) (lv : List Nat)
    (hl : lv.length = n) (hb : ∀ i, i < n → lv.getD i 0 < mo) (hp : proper adj lv = true) :
    feasible (milpG adj len n mo) (encode lv) = true := by
  rw [feasible_iff, levelsOf_encode adj len n mo lv hl hb]
  refine ⟨?_, hp⟩
  intro i hi
  refine ⟨hb i hi, ?_⟩
  intro o _
  exact encode_onehot lv i o

/-! ### the model's `readBack` -/

theorem foldl_readBack (i k : Nat) : ∀ (ones : List (Nat × Nat)) (acc : Nat),
    (acc = k ∨ ∃ p ∈ ones, p.1 = i) → (∀ p ∈ ones, p.1 = i → p.2 = k) →
    ones.foldl (fun acc p => if p.1 = i then p.2 else acc) acc = k := by
  intro ones
  induction ones with
  | nil =>
    intro acc h _
    rcases h with h | ⟨p, hp, _⟩
    · exact h
    · simp at hp
  | cons q ones ih =>
    intro acc h hall
    simp only [List.foldl_cons]
    apply ih
    · by_cases e : q.1 = i
      · left; simp [e, hall q (by simp) e]
      · rcases h with h | ⟨p, hp, hpi⟩
        · left; simp [e, h]
        · right
          rcases List.mem_cons.mp hp with e' | e'
          · subst e'; exact absurd hpi e
          · exact ⟨p, e', hpi⟩
    · intro p hp; exact hall p (by simp [hp])

/-- the model's `readBack`, applied to the variables at 1 listed in *any* order (the Python code
walks them sorted by name), yields the level vector of the assignment -/
theorem readBack_eq (adj : Nat → Nat → Bool) (len : Nat → Nat) (n mo : Nat) (x : Assign)
    (hf : feasible (milpG adj len n mo) x = true) (ones : List (Nat × Nat))
    (hones : ∀ i o, (i, o) ∈ ones ↔ i < n ∧ o < mo ∧ x i o = true) :
    readBack n ones = levelsOf (milpG adj len n mo) x := by
  have hoh := ((feasible_iff adj len n mo x).mp hf).1
  show (List.range n).map _ = (List.range n).map _
  apply List.map_congr_left
  intro i hi
  have hi := List.mem_range.mp hi
  obtain ⟨b, o⟩ := hoh i hi
  rw [levelsOf_getD _ _ _ _ _ _ hi] at b o
  apply foldl_readBack
  · right
    exact ⟨(i, levelOf mo x i), (hones _ _).mpr ⟨hi, b, by rw [o _ b]; simp⟩, rfl⟩
  · intro p hp hpi
    cases p with
    | mk p1 p2 =>
      simp only at hpi; subst hpi
      obtain ⟨_, h2, h3⟩ := (hones _ _).mp hp
      rw [o _ h2] at h3
      exact of_decide_eq_true h3

theorem mem_onesOf (adj : Nat → Nat → Bool) (len : Nat → Nat) (n mo : Nat) (x : Assign) (i o : Nat) :
    (i, o) ∈ onesOf (milpG adj len n mo) x ↔ i < n ∧ o < mo ∧ x i o = true := by
  simp only [onesOf, milpG, List.mem_flatMap, List.mem_range, List.mem_map, List.mem_filter,
    Prod.mk.injEq]
  constructor
  · rintro ⟨i', hi', o', ⟨ho', hx⟩, rfl, rfl⟩; exact ⟨hi', ho', hx⟩
  · rintro ⟨hi, ho, hx⟩; exact ⟨i, hi, o, ⟨ho, hx⟩, rfl, rfl⟩

/-! ### optimal ⇒ globally optimal -/

/-- **main lemma**: with level bound `> Δ`, an optimal solution of the program is optimal among all
proper level vectors, whatever number of levels they use -/
theorem optimal_is_global (adj : Nat → Nat → Bool) (hadj : SymIrr adj) (len : Nat → Nat)
    (n mo : Nat) (hmo : maxDegree adj n < mo) (x : Assign)
    (hopt : Optimal (milpG adj len n mo) x) :
    proper adj (levelsOf (milpG adj len n mo) x) = true ∧
    ∀ a : List Nat, a.length = n → proper adj a = true →
      score ((List.range n).map len) a ≤
        score ((List.range n).map len) (levelsOf (milpG adj len n mo) x) := by
  obtain ⟨hf, hbest⟩ := hopt
  refine ⟨((feasible_iff adj len n mo x).mp hf).2, ?_⟩
  intro a ha hp
  obtain ⟨a', l', _, _, hΔ, _, hs⟩ :=
    pushdown adj hadj ((List.range n).map len) a (by simp [ha]) hp
  have hb : ∀ i, i < n → a'.getD i 0 < mo := by
    intro i hi
    have := hΔ i (by omega)
    rw [ha] at this
    omega
  have hp' : proper adj a' = true := by
    have := (grundy_iff adj a').mp (by assumption)
    exact this.1
  have hf' := feasible_encode adj len n mo a' (by omega) hb hp'
  have h1 := hbest _ hf'
  rw [objective_eq_score adj len n mo x hf, objective_eq_score adj len n mo _ hf',
    levelsOf_encode adj len n mo a' (by omega) hb] at h1
  omega

end RnaVerif.SecStr.Poa

import RnaVerif.Model.Levels
import RnaVerif.Lemmas.Decode
import RnaVerif.Lemmas.Regions
/-!
# The dot-bracket writer `mkDB` decodes to the structure's pairs (helper lemmas for C01)

* `wf_triples` — for a valid BPSEQ and a proper level assignment the levelled pairs written by
  `mkDB` form a well-formed levelled matching (`WF`);
* `tok_roundtrip` — encoder alphabet and decoder alphabet agree on all tokens of level `< 30`
  (finite check over the generated tables);
* `decode_mkDB` — the main theorem;
* `fcfs_proper` — first-come-first-served levels are proper.
-/
namespace RnaVerif.SecStr

/-! ### membership in `triples` -/

theorem mem_triples {regs : List Region} {lvs : List Nat} {m : Tr} :
    m ∈ triples regs lvs ↔ ∃ u, ∃ (hu : u < regs.length) (hl : u < lvs.length), ∃ t,
      t < regs[u].len ∧ m = (regs[u].i - 1 + t, regs[u].j - 1 - t, lvs[u]) := by
  simp only [triples, List.mem_flatMap]
  constructor
  · rintro ⟨p, hp, hm⟩
    obtain ⟨u, hu, rfl⟩ := List.mem_iff_getElem.mp hp
    have hu' : u < regs.length ∧ u < lvs.length := by
      rw [List.length_zip] at hu; omega
    rw [List.getElem_zip] at hm
    simp only [expandRegion, List.mem_map, List.mem_range] at hm
    obtain ⟨t, ht, rfl⟩ := hm
    exact ⟨u, hu'.1, hu'.2, t, ht, rfl⟩
  · rintro ⟨u, hu, hl, t, ht, rfl⟩
    refine ⟨(regs[u], lvs[u]), ?_, ?_⟩
    · exact List.mem_iff_getElem.mpr ⟨u, by rw [List.length_zip]; omega, by simp⟩
    · simp only [expandRegion, List.mem_map, List.mem_range]
      exact ⟨t, ht, rfl⟩

theorem triples_level_mem {regs : List Region} {lvs : List Nat} {m : Tr}
    (h : m ∈ triples regs lvs) : m.2.2 ∈ lvs := by
  obtain ⟨u, _, hl, t, _, rfl⟩ := mem_triples.mp h
  exact List.getElem_mem hl

/-! ### properness -/

/-- properness of a level assignment w.r.t. the conflict graph of the regions, stated directly:
conflicting stems sit on different levels -/
def ProperP (regs : List Region) (lvs : List Nat) : Prop :=
  ∀ u w (hu : u < regs.length) (hw : w < regs.length) (hlu : u < lvs.length) (hlw : w < lvs.length),
    conflictSpec regs[u].i regs[u].j regs[w].i regs[w].j = true → lvs[u] ≠ lvs[w]

theorem proper_iff (adj : Nat → Nat → Bool) (lv : List Nat) :
    proper adj lv = true ↔
      ∀ u w, u < lv.length → w < lv.length → adj u w = true → lv.getD u 0 ≠ lv.getD w 0 := by
  simp only [proper, List.all_eq_true, List.mem_range, Bool.or_eq_true, Bool.not_eq_true',
    bne_iff_ne]
  constructor
  · intro h u w hu hw ha
    rcases h u hu w hw with h' | h'
    · rw [ha] at h'; cases h'
    · exact h'
  · intro h u hu w hw
    cases ha : adj u w with
    | false => exact Or.inl rfl
    | true => exact Or.inr (h u w hu hw ha)

/-- the executable `proper` over `adjOf conflictSpec` implies `ProperP` -/
theorem properP_of_proper {regs : List Region} {lvs : List Nat}
    (h : proper (adjOf conflictSpec regs) lvs = true) :
    ProperP regs lvs := by
  rw [proper_iff] at h
  intro u w hu hw hlu hlw hc
  have hne : u ≠ w := by
    intro e; subst e
    rw [conflictSpec_iff] at hc; omega
  have := h u w hlu hlw (by
    simp only [adjOf, List.getElem?_eq_getElem hu, List.getElem?_eq_getElem hw, Region.conf]
    rcases Nat.lt_or_gt_of_ne hne with h1 | h1
    · simp [h1, hc]
    · have : ¬ u < w := by omega
      simp only [this, h1, if_true, if_false]
      rw [conflictSpec_comm]; exact hc)
  simpa [List.getD_eq_getElem?_getD, List.getElem?_eq_getElem hlu, List.getElem?_eq_getElem hlw]
    using this

/-! ### the written triples are a well-formed levelled matching -/

theorem stem_single {es : List Entry} {r : Region} (hr : StemFacts es r) {t : Nat}
    (ht : t < r.len) :
    1 ≤ r.i ∧ r.i + t < r.j - t ∧ r.j ≤ es.length + t ∧ t < r.j ∧ r.i + 2 * r.len ≤ r.j + 1 := by
  obtain ⟨_, _, a1, a2, a3, a4, a5⟩ := hr.pairs t ht
  obtain ⟨_, _, b1, _, _, b4, _⟩ := hr.pairs 0 hr.len_pos
  obtain ⟨_, _, c1, c2, c3, _, _⟩ := hr.pairs (r.len - 1) (by have := hr.len_pos; omega)
  omega

theorem wf_triples {es : List Entry} (v : ValidP es) (lvs : List Nat)
    (hp : ProperP (regions es) lvs) : WF (triples (regions es) lvs) es.length := by
  have facts := fun u (hu : u < (regions es).length) => stemFacts_regions v (List.getElem_mem hu)
  have disj := fun u w (hu : u < (regions es).length) (hw : w < (regions es).length)
    (h : u < w) => stems_disjoint v (facts u hu) (facts w hw) (regions_sorted v u w hu hw h)
  have srt := fun u w (hu : u < (regions es).length) (hw : w < (regions es).length)
    (h : u < w) => regions_sorted v u w hu hw h
  refine ⟨?_, ?_, ?_, ?_, ?_⟩
  · intro m hm
    obtain ⟨u, hu, hl, t, ht, rfl⟩ := mem_triples.mp hm
    have := stem_single (facts u hu) ht
    simp only
    omega
  · intro m hm m' hm' heq
    obtain ⟨u, hu, hl, t, ht, rfl⟩ := mem_triples.mp hm
    obtain ⟨w, hw, hl', t', ht', rfl⟩ := mem_triples.mp hm'
    simp only at heq
    have s1 := stem_single (facts u hu) ht
    have s2 := stem_single (facts w hw) ht'
    rcases Nat.lt_trichotomy u w with h | h | h
    · have := srt u w hu hw h; omega
    · subst h
      have : t = t' := by omega
      subst this; rfl
    · have := srt w u hw hu h; omega
  · intro m hm m' hm' heq
    obtain ⟨u, hu, hl, t, ht, rfl⟩ := mem_triples.mp hm
    obtain ⟨w, hw, hl', t', ht', rfl⟩ := mem_triples.mp hm'
    simp only at heq
    have s1 := stem_single (facts u hu) ht
    have s2 := stem_single (facts w hw) ht'
    rcases Nat.lt_trichotomy u w with h | h | h
    · have := disj u w hu hw h; omega
    · subst h
      have : t = t' := by omega
      subst this; rfl
    · have := disj w u hw hu h; omega
  · intro m hm m' hm'
    obtain ⟨u, hu, hl, t, ht, rfl⟩ := mem_triples.mp hm
    obtain ⟨w, hw, hl', t', ht', rfl⟩ := mem_triples.mp hm'
    simp only
    have s1 := stem_single (facts u hu) ht
    have s2 := stem_single (facts w hw) ht'
    rcases Nat.lt_trichotomy u w with h | h | h
    · have := disj u w hu hw h; have := srt u w hu hw h; omega
    · subst h; omega
    · have := disj w u hw hu h; have := srt w u hw hu h; omega
  · intro m hm m' hm' hlv
    obtain ⟨u, hu, hl, t, ht, rfl⟩ := mem_triples.mp hm
    obtain ⟨w, hw, hl', t', ht', rfl⟩ := mem_triples.mp hm'
    simp only at hlv ⊢
    by_cases h : u = w
    · subst h
      have s1 := stem_single (facts u hu) ht
      have s2 := stem_single (facts u hu) ht'
      omega
    · have hnc : ¬ conflictSpec (regions es)[u].i (regions es)[u].j (regions es)[w].i
          (regions es)[w].j = true := fun hc => hp u w hu hw hl hl' hc hlv
      rw [cross_iff_index v hu hw h ht ht'] at hnc
      intro hx
      exact hnc (Or.inl hx)

/-! ### encoder alphabet against decoder alphabet -/

/-- the level carried by a token is below `B` -/
def Tok.levelLt (B : Nat) : Tok → Prop
  | .dot => True
  | .op l => l < B
  | .cl l => l < B

theorem tok_roundtrip_op :
    ∀ l, l < Gen.encBrackets.length → tokOfChar (charOfTok Gen.encBrackets (.op l)) = .op l := by
  decide

theorem tok_roundtrip_cl :
    ∀ l, l < Gen.encBrackets.length → tokOfChar (charOfTok Gen.encBrackets (.cl l)) = .cl l := by
  decide

theorem tok_roundtrip_dot : tokOfChar (charOfTok Gen.encBrackets .dot) = .dot := by decide

/-- **alphabet bridge**: what the writer emits for a token of level below the number of bracket
types is read back by the decoder as the same token.  Breaks (fails to compile) as soon as the
encoder's bracket list and the decoder's opening/closing strings disagree. -/
theorem tok_roundtrip {t : Tok} (h : t.levelLt Gen.encBrackets.length) :
    tokOfChar (charOfTok Gen.encBrackets t) = t := by
  cases t with
  | dot => exact tok_roundtrip_dot
  | op l => exact tok_roundtrip_op l h
  | cl l => exact tok_roundtrip_cl l h

theorem char_alphabet_op :
    ∀ l, l < Gen.encBrackets.length → (charOfTok Gen.encBrackets (.op l)) ∈ Gen.decOpening := by
  decide

theorem char_alphabet_cl :
    ∀ l, l < Gen.encBrackets.length → (charOfTok Gen.encBrackets (.cl l)) ∈ Gen.decClosing := by
  decide

/-- a character of the dot-bracket alphabet: `.`, an opening or a closing bracket -/
def IsDBChar (c : Char) : Prop := c = '.' ∨ c ∈ Gen.decOpening ∨ c ∈ Gen.decClosing

theorem char_alphabet {t : Tok} (h : t.levelLt Gen.encBrackets.length) :
    IsDBChar (charOfTok Gen.encBrackets t) := by
  cases t with
  | dot => exact Or.inl rfl
  | op l => exact Or.inr (Or.inl (char_alphabet_op l h))
  | cl l => exact Or.inr (Or.inr (char_alphabet_cl l h))

theorem tokOf_levelLt {M : List Tr} {B : Nat} (h : ∀ m ∈ M, m.2.2 < B) (k : Nat) :
    (tokOf M k).levelLt B := by
  unfold tokOf
  cases ho : M.find? (fun m => m.1 == k) with
  | some m => exact h m (find_open_some ho).1
  | none =>
    cases hc : M.find? (fun m => m.2.1 == k) with
    | some m => exact h m (find_close_some hc).1
    | none => trivial

/-! ### `mkDB` and the decoder -/

theorem decodeFrom_congr {f g : Nat → Tok} (ks : List Nat) (s : St)
    (h : ∀ k ∈ ks, f k = g k) : decodeFrom f ks s = decodeFrom g ks s := by
  induction ks generalizing s with
  | nil => rfl
  | cons k ks ih =>
    simp only [decodeFrom]
    rw [h k (by simp)]
    cases stepTok s k (g k) with
    | none => rfl
    | some s' => exact ih s' (fun k' hk' => h k' (List.mem_cons_of_mem _ hk'))

theorem mkDB_ok {n : Nat} {regs : List Region} {lvs : List Nat}
    (hlen : regs.length ≤ lvs.length) (hlv : ∀ l ∈ lvs, l < Gen.encBrackets.length) :
    mkDB n regs lvs =
      .ok ((List.range n).map (fun k => charOfTok Gen.encBrackets (tokOf (triples regs lvs) k))) := by
  unfold mkDB
  rw [if_neg (by omega), if_neg]
  simp only [List.any_eq_true, decide_eq_true_eq, not_exists, not_and, Nat.not_le]
  intro l hl
  exact hlv l (List.mem_of_mem_take hl)

theorem decodeChars_written {n : Nat} {M : List Tr}
    (hlv : ∀ m ∈ M, m.2.2 < Gen.encBrackets.length) :
    decodeChars ((List.range n).map (fun k => charOfTok Gen.encBrackets (tokOf M k))) =
      decodeFrom (tokOf M) (List.range n) St.init := by
  unfold decodeChars
  rw [List.length_map, List.length_range]
  apply decodeFrom_congr
  intro k hk
  have hk' : k < n := List.mem_range.mp hk
  simp only [List.getD_eq_getElem?_getD, List.getElem?_map, List.getElem?_range hk', Option.map_some,
    Option.getD_some]
  exact tok_roundtrip (tokOf_levelLt hlv k)

/-- **decode_mkDB** (Prop-level hypotheses) -/
theorem decode_mkDB_P {es : List Entry} {lvs : List Nat} (v : ValidP es)
    (hlen : lvs.length = (regions es).length) (hlv : ∀ l ∈ lvs, l < Gen.encBrackets.length)
    (hp : ProperP (regions es) lvs) :
    ∃ s st, mkDB es.length (regions es) lvs = .ok s ∧ s.length = es.length ∧
      (∀ c ∈ s, IsDBChar c) ∧ decodeChars s = some st ∧ (∀ t, st.stacks t = []) ∧ st.out.Nodup ∧
      (∀ p, p ∈ st.out ↔ p ∈ pairs0 es) := by
  have hM : ∀ m ∈ triples (regions es) lvs, m.2.2 < Gen.encBrackets.length :=
    fun m hm => hlv _ (triples_level_mem hm)
  obtain ⟨st, hdec, hst, hnd, hout⟩ := decode_correct (wf_triples v lvs hp)
  refine ⟨_, st, mkDB_ok (by omega) hlv, by simp, ?_, ?_, hst, hnd, ?_⟩
  · intro c hc
    obtain ⟨k, _, rfl⟩ := List.mem_map.mp hc
    exact char_alphabet (tokOf_levelLt hM k)
  · rw [decodeChars_written hM]; exact hdec
  · intro p
    rw [hout, ← regions_cover_triples v lvs (by omega)]
    simp only [List.mem_map]
    constructor
    · rintro ⟨t, ht⟩; exact ⟨_, ht, rfl⟩
    · rintro ⟨m, hm, rfl⟩; exact ⟨m.2.2, hm⟩

/-! ### first come, first served -/

theorem firstAvail_some {cap : Nat} {used : List Nat} {o : Nat}
    (h : firstAvail cap used = some o) : o < cap ∧ o ∉ used := by
  unfold firstAvail at h
  have h1 := List.mem_of_find?_eq_some h
  have h2 := List.find?_some h
  exact ⟨List.mem_range.mp h1, by simpa using h2⟩

/-- later stems avoid the levels of the earlier stems they conflict with -/
def FcfsPW (c : ConfPred) (l : List (Region × Nat)) : Prop :=
  l.Pairwise (fun a b => c b.1.i b.1.j a.1.i a.1.j = true → a.2 ≠ b.2)

theorem fcfsAux_spec (c : ConfPred) (cap : Nat) :
    ∀ (rs : List Region) (acc out : List (Region × Nat)), fcfsAux c cap rs acc = some out →
      out.map (·.1) = acc.map (·.1) ++ rs ∧
      ((∀ q ∈ acc, q.2 < cap) → ∀ q ∈ out, q.2 < cap) ∧
      (FcfsPW c acc → FcfsPW c out) := by
  intro rs
  induction rs with
  | nil =>
    intro acc out h
    simp only [fcfsAux, Option.some.injEq] at h
    subst h
    exact ⟨by simp, fun h => h, fun h => h⟩
  | cons r rs ih =>
    intro acc out h
    simp only [fcfsAux] at h
    cases hf : firstAvail cap
        (List.map (fun x => x.2) (List.filter (fun q => c r.i r.j q.1.i q.1.j) acc)) with
    | none => rw [hf] at h; cases h
    | some o =>
      rw [hf] at h
      simp only at h
      obtain ⟨ho1, ho2⟩ := firstAvail_some hf
      obtain ⟨i1, i2, i3⟩ := ih _ _ h
      refine ⟨by rw [i1]; simp, ?_, ?_⟩
      · intro hacc
        apply i2
        intro q hq
        rcases List.mem_append.mp hq with hq | hq
        · exact hacc q hq
        · have : q = (r, o) := by simpa using hq
          subst this; exact ho1
      · intro hacc
        apply i3
        unfold FcfsPW
        rw [List.pairwise_append]
        refine ⟨hacc, by simp, ?_⟩
        intro a ha b hb
        have : b = (r, o) := by simpa using hb
        subst this
        intro hcab heq
        apply ho2
        simp only at heq hcab
        exact List.mem_map.mpr ⟨a, List.mem_filter.mpr ⟨ha, hcab⟩, heq⟩

/-- **FCFS levels are proper**: whenever `fcfs` finds levels (`cap > 0` levels available), there is
one level per region, each below `cap`, and conflicting stems get different levels. -/
theorem fcfs_proper {c : ConfPred} (hc : ∀ k l m n, c k l m n = conflictSpec k l m n)
    {cap : Nat} (hcap : 0 < cap) {regs : List Region} {lvs : List Nat}
    (h : fcfsLevels c cap regs = some lvs) :
    lvs.length = regs.length ∧ (∀ l ∈ lvs, l < cap) ∧ ProperP regs lvs := by
  cases regs with
  | nil =>
    simp only [fcfsLevels, Option.some.injEq] at h
    subst h
    refine ⟨rfl, by simp, ?_⟩
    intro u w hu; simp at hu
  | cons r rs =>
    simp only [fcfsLevels, Option.map_eq_some_iff] at h
    obtain ⟨out, hout, rfl⟩ := h
    obtain ⟨h1, h2, h3⟩ := fcfsAux_spec c cap rs _ out hout
    have h1' : out.map (·.1) = r :: rs := by simpa using h1
    have hlen : out.length = (r :: rs).length := by rw [← h1']; simp
    have hpw : FcfsPW c out := h3 (by simp [FcfsPW])
    refine ⟨by simpa using hlen, ?_, ?_⟩
    · intro l hl
      obtain ⟨q, hq, rfl⟩ := List.mem_map.mp hl
      exact h2 (by simpa using hcap) q hq
    · intro u w hu hw hlu hlw hcf
      have hu' : u < out.length := by omega
      have hw' : w < out.length := by omega
      have eu : (r :: rs)[u] = out[u].1 := by
        simp only [← h1', List.getElem_map]
      have ew : (r :: rs)[w] = out[w].1 := by
        simp only [← h1', List.getElem_map]
      simp only [List.getElem_map]
      rw [eu, ew] at hcf
      unfold FcfsPW at hpw
      rw [List.pairwise_iff_getElem] at hpw
      rcases Nat.lt_trichotomy u w with hlt | heq | hgt
      · apply hpw u w hu' hw' hlt
        rw [hc, conflictSpec_comm]; exact hcf
      · subst heq
        rw [conflictSpec_iff] at hcf; omega
      · intro e
        apply hpw w u hw' hu' hgt _ e.symm
        rw [hc]; exact hcf

theorem fcfs_eq_mkDB {es : List Entry} {lvs : List Nat}
    (h : fcfsLevels Gen.conflictFcfs Gen.fcfsAvail (regions es) = some lvs) :
    fcfs es = mkDB es.length (regions es) lvs := by
  simp only [fcfs, h]

end RnaVerif.SecStr

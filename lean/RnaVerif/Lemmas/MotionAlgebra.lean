import RnaVerif.Model.Motion
import Mathlib.Tactic.Ring
import Mathlib.Tactic.LinearCombination
/-!
# Vector algebra of orthogonal 3×3 matrices over an arbitrary commutative ring (C05)

`M3.Orthonormal 1 0 R` says the *rows* of `R` are orthonormal (R Rᵀ = 1).  Everything the decision layer
computes is built from dot products of difference vectors and cross products, so what is needed is
* `dot_rot`    : (R u)·(R v) = u·v                     (any orthogonal R)
* `cross_rot`  : (R a)×(R b) = det R • R (a×b)         (hence = R (a×b) for proper R)
* `triple_rot` : [R u, R v, R w] = det R · [u, v, w]   (any matrix)
* `binet`      : (a×b)·(c×d) = (a·c)(b·d) − (a·d)(b·c)
No field structure, no square roots, no positivity is used: the statements hold over any commutative ring.
-/
namespace RnaVerif
namespace V3
variable {K : Type} [CommRing K]

omit [CommRing K] in
theorem ext' {a b : V3 K} (hx : a.x = b.x) (hy : a.y = b.y) (hz : a.z = b.z) : a = b := by
  cases a; cases b; simp_all

theorem dot_comm (a b : V3 K) : dot a b = dot b a := by simp only [dot]; ring

theorem sub_add_cancel_move (a b t : V3 K) : sub (add a t) (add b t) = sub a b := by
  apply ext' <;> simp only [sub, add] <;> ring

/-- Binet–Cauchy (Lagrange) identity -/
theorem binet (a b c d : V3 K) :
    dot (cross a b) (cross c d) = dot a c * dot b d - dot a d * dot b c := by
  simp only [dot, cross]; ring

theorem norm2_cross (a b : V3 K) : norm2 (cross a b) = norm2 a * norm2 b - dot a b * dot a b := by
  simp only [norm2, dot, cross]; ring

theorem triple_cyclic (a b c : V3 K) : triple a b c = triple b c a := by
  simp only [triple, dot, cross]; ring

theorem triple_swap (a b c : V3 K) : triple a c b = - triple a b c := by
  simp only [triple, dot, cross]; ring

end V3

namespace M3
variable {K : Type} [CommRing K]

/-- cofactor matrix: rows r₂×r₃, r₃×r₁, r₁×r₂ -/
def cof (m : M3 K) : M3 K := ⟨V3.cross m.r2 m.r3, V3.cross m.r3 m.r1, V3.cross m.r1 m.r2⟩

theorem apply_add (m : M3 K) (u v : V3 K) : apply m (V3.add u v) = V3.add (apply m u) (apply m v) := by
  apply V3.ext' <;> simp only [apply, V3.add, V3.dot] <;> ring

theorem apply_sub (m : M3 K) (u v : V3 K) : apply m (V3.sub u v) = V3.sub (apply m u) (apply m v) := by
  apply V3.ext' <;> simp only [apply, V3.sub, V3.dot] <;> ring

theorem apply_smul (m : M3 K) (k : K) (u : V3 K) : apply m (V3.smul k u) = V3.smul k (apply m u) := by
  apply V3.ext' <;> simp only [apply, V3.smul, V3.dot] <;> ring

/-- det is multiplicative, in the form of the scalar triple product (any matrix) -/
theorem triple_rot (m : M3 K) (u v w : V3 K) :
    V3.triple (apply m u) (apply m v) (apply m w) = det m * V3.triple u v w := by
  simp only [V3.triple, V3.dot, V3.cross, apply, det]; ring

/-- (M a)×(M b) = cof(M) (a×b)   (any matrix) -/
theorem cross_apply (m : M3 K) (a b : V3 K) :
    V3.cross (apply m a) (apply m b) = apply (cof m) (V3.cross a b) := by
  apply V3.ext' <;> simp only [cof, apply, V3.cross, V3.dot] <;> ring

/-- expansion in the dual basis: det·x = (x·r₁)(r₂×r₃) + (x·r₂)(r₃×r₁) + (x·r₃)(r₁×r₂)   (any matrix) -/
theorem dual_expand (m : M3 K) (x : V3 K) :
    V3.smul (det m) x =
      V3.add (V3.add (V3.smul (V3.dot x m.r1) (cof m).r1) (V3.smul (V3.dot x m.r2) (cof m).r2))
        (V3.smul (V3.dot x m.r3) (cof m).r3) := by
  apply V3.ext' <;> simp only [cof, det, V3.triple, V3.cross, V3.dot, V3.smul, V3.add] <;> ring

/-- det² is the Gram determinant of the rows (any matrix) -/
theorem det_sq_gram (m : M3 K) :
    det m * det m =
      V3.dot m.r1 m.r1 * (V3.dot m.r2 m.r2 * V3.dot m.r3 m.r3 - V3.dot m.r2 m.r3 * V3.dot m.r2 m.r3)
      - V3.dot m.r1 m.r2 * (V3.dot m.r1 m.r2 * V3.dot m.r3 m.r3 - V3.dot m.r2 m.r3 * V3.dot m.r1 m.r3)
      + V3.dot m.r1 m.r3 * (V3.dot m.r1 m.r2 * V3.dot m.r2 m.r3 - V3.dot m.r2 m.r2 * V3.dot m.r1 m.r3) := by
  simp only [det, V3.triple, V3.cross, V3.dot]; ring

section orthogonal
variable {m : M3 K} (h : Orthonormal (1 : K) 0 m)
include h

/-- an orthogonal matrix has determinant ±1 -/
theorem det_sq : det m * det m = 1 := by
  obtain ⟨h11, h22, h33, h12, h13, h23⟩ := h
  rw [det_sq_gram, h11, h22, h33, h12, h13, h23]; ring

/-- the cofactor matrix of an orthogonal matrix is `det • m`, row by row -/
theorem cof_r1 : (cof m).r1 = V3.smul (det m) m.r1 := by
  obtain ⟨h11, h22, h33, h12, h13, h23⟩ := h
  have e := dual_expand m m.r1
  rw [h11, h12, h13] at e
  rw [e]
  apply V3.ext' <;> simp only [V3.smul, V3.add] <;> ring

theorem cof_r2 : (cof m).r2 = V3.smul (det m) m.r2 := by
  obtain ⟨h11, h22, h33, h12, h13, h23⟩ := h
  have e := dual_expand m m.r2
  rw [V3.dot_comm m.r2 m.r1, h12, h22, h23] at e
  rw [e]
  apply V3.ext' <;> simp only [V3.smul, V3.add] <;> ring

theorem cof_r3 : (cof m).r3 = V3.smul (det m) m.r3 := by
  obtain ⟨h11, h22, h33, h12, h13, h23⟩ := h
  have e := dual_expand m m.r3
  rw [V3.dot_comm m.r3 m.r1, V3.dot_comm m.r3 m.r2, h13, h23, h33] at e
  rw [e]
  apply V3.ext' <;> simp only [V3.smul, V3.add] <;> ring

/-- every vector is the combination of the rows with its own coordinates along them (RᵀR = 1) -/
theorem expand_rows (x : V3 K) :
    x = V3.add (V3.add (V3.smul (V3.dot x m.r1) m.r1) (V3.smul (V3.dot x m.r2) m.r2))
          (V3.smul (V3.dot x m.r3) m.r3) := by
  have e := dual_expand m x
  rw [cof_r1 h, cof_r2 h, cof_r3 h] at e
  have d := det_sq h
  have ex := congrArg V3.x e
  have ey := congrArg V3.y e
  have ez := congrArg V3.z e
  simp only [V3.smul, V3.add] at ex ey ez
  apply V3.ext' <;> simp only [V3.smul, V3.add]
  · linear_combination (-(x.x - (V3.dot x m.r1 * m.r1.x + V3.dot x m.r2 * m.r2.x + V3.dot x m.r3 * m.r3.x))) * d + det m * ex
  · linear_combination (-(x.y - (V3.dot x m.r1 * m.r1.y + V3.dot x m.r2 * m.r2.y + V3.dot x m.r3 * m.r3.y))) * d + det m * ey
  · linear_combination (-(x.z - (V3.dot x m.r1 * m.r1.z + V3.dot x m.r2 * m.r2.z + V3.dot x m.r3 * m.r3.z))) * d + det m * ez

/-- **dot_rot**: an orthogonal matrix preserves dot products -/
theorem dot_rot (u v : V3 K) : V3.dot (apply m u) (apply m v) = V3.dot u v := by
  have e := expand_rows h u
  have ex := congrArg V3.x e
  have ey := congrArg V3.y e
  have ez := congrArg V3.z e
  simp only [V3.smul, V3.add] at ex ey ez
  simp only [apply]
  show V3.dot m.r1 u * V3.dot m.r1 v + V3.dot m.r2 u * V3.dot m.r2 v + V3.dot m.r3 u * V3.dot m.r3 v = V3.dot u v
  rw [V3.dot_comm m.r1 u, V3.dot_comm m.r2 u, V3.dot_comm m.r3 u]
  generalize V3.dot u m.r1 = a1 at *
  generalize V3.dot u m.r2 = a2 at *
  generalize V3.dot u m.r3 = a3 at *
  simp only [V3.dot]
  linear_combination (-v.x) * ex + (-v.y) * ey + (-v.z) * ez

theorem norm2_rot (u : V3 K) : V3.norm2 (apply m u) = V3.norm2 u := dot_rot h u u

/-- **cross_rot** (general orthogonal case): (R a)×(R b) = det R • R (a×b) -/
theorem cross_rot_det (a b : V3 K) :
    V3.cross (apply m a) (apply m b) = V3.smul (det m) (apply m (V3.cross a b)) := by
  rw [cross_apply]
  have e1 := cof_r1 h; have e2 := cof_r2 h; have e3 := cof_r3 h
  apply V3.ext'
  · show V3.dot (cof m).r1 _ = _
    rw [e1]; simp only [V3.smul, V3.dot, apply]; ring
  · show V3.dot (cof m).r2 _ = _
    rw [e2]; simp only [V3.smul, V3.dot, apply]; ring
  · show V3.dot (cof m).r3 _ = _
    rw [e3]; simp only [V3.smul, V3.dot, apply]; ring

end orthogonal

theorem smul_one (v : V3 K) : V3.smul (1 : K) v = v := by
  apply V3.ext' <;> simp [V3.smul]

/-- **cross_rot**: a proper rotation commutes with the cross product -/
theorem cross_rot {m : M3 K} (h : Orthonormal (1 : K) 0 m) (hd : det m = 1) (a b : V3 K) :
    V3.cross (apply m a) (apply m b) = apply m (V3.cross a b) := by
  rw [cross_rot_det h, hd, smul_one]

/-- a mirror image reverses cross products -/
theorem cross_mirror {m : M3 K} (h : Orthonormal (1 : K) 0 m) (hd : det m = -1) (a b : V3 K) :
    V3.cross (apply m a) (apply m b) = V3.neg (apply m (V3.cross a b)) := by
  rw [cross_rot_det h, hd]
  apply V3.ext' <;> simp [V3.smul, V3.neg]

end M3

namespace V3
variable {K : Type} [CommRing K]

theorem move_sub (R : M3 K) (t p q : V3 K) : sub (move R t p) (move R t q) = M3.apply R (sub p q) := by
  simp only [move]; rw [sub_add_cancel_move, M3.apply_sub]

/-- squared distances are invariant under any orthogonal matrix followed by any translation -/
theorem dist2_move {R : M3 K} (h : M3.Orthonormal (1 : K) 0 R) (t p q : V3 K) :
    dist2 (move R t p) (move R t q) = dist2 p q := by
  simp only [dist2]; rw [move_sub, M3.norm2_rot h]

end V3

/-! ## the executable checks decide the propositions -/
namespace M3

theorem orthonormal_of_check {R : M3 Rat} (h : isOrthonormal R = true) : Orthonormal (1 : Rat) 0 R := by
  simp only [isOrthonormal, Bool.and_eq_true, beq_iff_eq] at h
  obtain ⟨⟨⟨⟨⟨a, b⟩, c⟩, d⟩, e⟩, f⟩ := h
  exact ⟨a, b, c, d, e, f⟩

theorem proper_of_check {R : M3 Rat} (h : isProper R = true) : Proper R := by
  simp only [isProper, Bool.and_eq_true, beq_iff_eq] at h
  exact ⟨orthonormal_of_check h.1, h.2⟩

theorem mirror_of_check {R : M3 Rat} (h : isMirror R = true) : Mirror R := by
  simp only [isMirror, Bool.and_eq_true, beq_iff_eq] at h
  exact ⟨orthonormal_of_check h.1, h.2⟩

end M3
end RnaVerif

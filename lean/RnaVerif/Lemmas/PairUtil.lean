import RnaVerif.Model.PairUtil
/-! Lemmas about `pairsUp` / `enumFrom'` shared by the stacking and clash proofs (core Lean only). -/
namespace RnaVerif

theorem mem_pairsUp {α} {l : List α} {p : α × α} (hp : p ∈ pairsUp l) : p.1 ∈ l ∧ p.2 ∈ l := by
  induction l with
  | nil => simp [pairsUp] at hp
  | cons a l ih =>
    simp only [pairsUp, List.mem_append, List.mem_map] at hp
    rcases hp with ⟨b, hb, rfl⟩ | h
    · exact ⟨List.mem_cons_self, List.mem_cons_of_mem _ hb⟩
    · exact ⟨List.mem_cons_of_mem _ (ih h).1, List.mem_cons_of_mem _ (ih h).2⟩

/-- pairs come out as (earlier, later) -/
theorem rel_of_mem_pairsUp {α} {R : α → α → Prop} {l : List α} (h : l.Pairwise R) {p : α × α}
    (hp : p ∈ pairsUp l) : R p.1 p.2 := by
  induction l with
  | nil => simp [pairsUp] at hp
  | cons a l ih =>
    rw [List.pairwise_cons] at h
    simp only [pairsUp, List.mem_append, List.mem_map] at hp
    rcases hp with ⟨b, hb, rfl⟩ | h'
    · exact h.1 b hb
    · exact ih h.2 h'

/-- every (earlier, later) pair is enumerated -/
theorem mem_pairsUp_of_sublist {α} {l : List α} {a b : α} (h : [a, b].Sublist l) : (a, b) ∈ pairsUp l := by
  induction l with
  | nil => cases h
  | cons c l ih =>
    simp only [pairsUp, List.mem_append, List.mem_map]
    cases h with
    | cons _ h' => exact Or.inr (ih h')
    | cons_cons _ h' =>
      left
      refine ⟨b, ?_, rfl⟩
      exact List.singleton_sublist.1 h'

/-- with strictly increasing tags, the tag pairs of `pairsUp` are pairwise distinct -/
theorem pairsUp_tags_nodup {α} (f : α → Nat) {l : List α} (h : l.Pairwise (fun a b => f a < f b)) :
    ((pairsUp l).map (fun p => (f p.1, f p.2))).Nodup := by
  induction l with
  | nil => simp [pairsUp]
  | cons a l ih =>
    rw [List.pairwise_cons] at h
    simp only [pairsUp, List.map_append, List.map_map]
    rw [List.nodup_append]
    refine ⟨?_, ih h.2, ?_⟩
    · rw [List.nodup_iff_pairwise_ne, List.pairwise_map]
      refine h.2.imp ?_
      intro x y hxy e
      simp only [Function.comp, Prod.mk.injEq, true_and] at e
      omega
    · intro x hx y hy e
      simp only [List.mem_map, Function.comp] at hx hy
      obtain ⟨b, _, rfl⟩ := hx
      obtain ⟨q, hq, rfl⟩ := hy
      have := h.1 q.1 (mem_pairsUp hq).1
      simp only [Prod.mk.injEq] at e
      omega

theorem enumFrom'_pairwise {α} (k : Nat) (l : List α) :
    (enumFrom' k l).Pairwise (fun a b => a.1 < b.1) ∧ ∀ p ∈ enumFrom' k l, k ≤ p.1 := by
  induction l generalizing k with
  | nil => simp [enumFrom']
  | cons a l ih =>
    simp only [enumFrom', List.pairwise_cons, List.mem_cons, forall_eq_or_imp]
    refine ⟨⟨?_, (ih (k + 1)).1⟩, Nat.le_refl k, ?_⟩
    · intro p hp; have := (ih (k + 1)).2 p hp; omega
    · intro p hp; have := (ih (k + 1)).2 p hp; omega

theorem filterMap_eq_map_filter {α β} (l : List α) (p : α → Bool) (g : α → β) :
    l.filterMap (fun a => if p a then some (g a) else none) = (l.filter p).map g := by
  induction l with
  | nil => rfl
  | cons a l ih =>
    simp only [List.filterMap_cons, List.filter_cons]
    by_cases h : p a <;> simp [h, ih]

end RnaVerif

import RnaVerif.Model.Pairs
/-! Lemmas about the decision layer of `find_pairs` (core Lean only): the greedy edge occupation for an
arbitrary processing order, the `most_common` order, the assembly stage, `merge_and_clean_bph_br`,
BPh classification. -/
namespace RnaVerif.Pairs
variable {P : Params}

/-! ## greedy occupation -/

/-- invariant of the occupation loop -/
structure OccInv (P : Params) (labels : List Label) (st : List Slot × List Label) : Prop where
  sound : ∀ l ∈ st.2, P.minCount ≤ labels.count l
  occ : ∀ s, s ∈ st.1 ↔ ∃ o ∈ st.2, s ∈ o.slots
  excl : st.2.Pairwise (fun a b => ∀ s ∈ a.slots, s ∉ b.slots)

theorem occInv_init (labels : List Label) : OccInv P labels ([], []) :=
  ⟨by simp, by simp, List.Pairwise.nil⟩

theorem occStep_cases (labels : List Label) (st : List Slot × List Label) (l : Label) :
    (occStep P labels st l = st ∧
      (labels.count l < P.minCount ∨ l.slot1 ∈ st.1 ∨ l.slot2 ∈ st.1)) ∨
    (occStep P labels st l = (l.slot1 :: l.slot2 :: st.1, st.2 ++ [l]) ∧
      P.minCount ≤ labels.count l ∧ l.slot1 ∉ st.1 ∧ l.slot2 ∉ st.1) := by
  unfold occStep
  by_cases h1 : labels.count l < P.minCount
  · left; simp [h1]
  · by_cases h2 : l.slot1 ∈ st.1
    · left; simp [h1, h2]
    · by_cases h3 : l.slot2 ∈ st.1
      · left; simp [h1, h2, h3]
      · right
        refine ⟨by simp [h1, h2, h3], Nat.le_of_not_lt h1, h2, h3⟩

theorem occInv_step {labels : List Label} {st : List Slot × List Label} (h : OccInv P labels st)
    (l : Label) : OccInv P labels (occStep P labels st l) := by
  rcases occStep_cases labels st l with ⟨e, _⟩ | ⟨e, hc, h1, h2⟩
  · rw [e]; exact h
  · rw [e]
    refine ⟨?_, ?_, ?_⟩
    · intro x hx
      simp only [List.mem_append, List.mem_cons, List.not_mem_nil, or_false] at hx
      rcases hx with hx | hx
      · exact h.sound x hx
      · subst hx; exact hc
    · intro s
      simp only [List.mem_cons, List.mem_append, List.not_mem_nil, or_false]
      constructor
      · rintro (hs | hs | hs)
        · exact ⟨l, Or.inr rfl, by simp [Label.slots, hs]⟩
        · exact ⟨l, Or.inr rfl, by simp [Label.slots, hs]⟩
        · obtain ⟨o, ho, hso⟩ := (h.occ s).mp hs
          exact ⟨o, Or.inl ho, hso⟩
      · rintro ⟨o, ho | ho, hso⟩
        · exact Or.inr (Or.inr ((h.occ s).mpr ⟨o, ho, hso⟩))
        · subst ho
          simp only [Label.slots, List.mem_cons, List.not_mem_nil, or_false] at hso
          rcases hso with hso | hso
          · exact Or.inl hso
          · exact Or.inr (Or.inl hso)
    · rw [List.pairwise_append]
      refine ⟨h.excl, List.pairwise_singleton _ _, ?_⟩
      intro a ha b hb s hsa hsb
      simp only [List.mem_singleton] at hb
      subst hb
      have hocc : s ∈ st.1 := (h.occ s).mpr ⟨a, ha, hsa⟩
      simp only [Label.slots, List.mem_cons, List.not_mem_nil, or_false] at hsb
      rcases hsb with hsb | hsb
      · exact h1 (hsb ▸ hocc)
      · exact h2 (hsb ▸ hocc)

theorem occInv_foldl {labels : List Label} (order : List Label) {st : List Slot × List Label}
    (h : OccInv P labels st) : OccInv P labels (order.foldl (occStep P labels) st) := by
  induction order generalizing st with
  | nil => exact h
  | cons l rest ih => exact ih (occInv_step h l)

theorem occStep_mono (labels : List Label) (st : List Slot × List Label) (l : Label) :
    (∀ s ∈ st.1, s ∈ (occStep P labels st l).1) ∧ (∀ o ∈ st.2, o ∈ (occStep P labels st l).2) := by
  rcases occStep_cases labels st l with ⟨e, _⟩ | ⟨e, _⟩
  · rw [e]; exact ⟨fun _ h => h, fun _ h => h⟩
  · rw [e]
    exact ⟨fun s h => by simp [h], fun o h => by simp [h]⟩

theorem occ_foldl_mono (labels order : List Label) (st : List Slot × List Label) :
    (∀ s ∈ st.1, s ∈ (order.foldl (occStep P labels) st).1) ∧
    (∀ o ∈ st.2, o ∈ (order.foldl (occStep P labels) st).2) := by
  induction order generalizing st with
  | nil => exact ⟨fun _ h => h, fun _ h => h⟩
  | cons l rest ih =>
    have m := occStep_mono (P := P) labels st l
    have r := ih (occStep P labels st l)
    exact ⟨fun s h => r.1 s (m.1 s h), fun o h => r.2 o (m.2 o h)⟩

/-- a label that is processed and has enough hydrogen bonds ends up reported or with a slot taken -/
theorem occ_processed (labels order : List Label) (st : List Slot × List Label) (l : Label)
    (hl : l ∈ order) (hc : P.minCount ≤ labels.count l) :
    let r := order.foldl (occStep P labels) st
    l ∈ r.2 ∨ l.slot1 ∈ r.1 ∨ l.slot2 ∈ r.1 := by
  induction order generalizing st with
  | nil => cases hl
  | cons x rest ih =>
    simp only [List.foldl_cons]
    rcases List.mem_cons.mp hl with hx | hx
    · subst hx
      have mono := occ_foldl_mono (P := P) labels rest (occStep P labels st l)
      rcases occStep_cases labels st l with ⟨e, h | h | h⟩ | ⟨e, _, _, _⟩
      · exact absurd hc (Nat.not_le_of_lt h)
      · exact Or.inr (Or.inl (mono.1 _ (by rw [e]; exact h)))
      · exact Or.inr (Or.inr (mono.1 _ (by rw [e]; exact h)))
      · exact Or.inl (mono.2 _ (by rw [e]; simp))
    · exact ih (occStep P labels st x) hx

theorem greedy_inv (order labels : List Label) :
    OccInv P labels (order.foldl (occStep P labels) ([], [])) :=
  occInv_foldl order (occInv_init labels)

theorem greedy_sound' (order labels : List Label) :
    ∀ l ∈ greedyOccupy P order labels, P.minCount ≤ labels.count l :=
  (greedy_inv order labels).sound

theorem greedy_exclusive' (order labels : List Label) :
    (greedyOccupy P order labels).Pairwise (fun a b => ∀ s ∈ a.slots, s ∉ b.slots) :=
  (greedy_inv order labels).excl

theorem greedy_nodup' (order labels : List Label) : (greedyOccupy P order labels).Nodup := by
  have h := greedy_exclusive' (P := P) order labels
  refine List.Pairwise.imp ?_ h
  intro a b hab e
  subst e
  exact hab a.slot1 (by simp [Label.slots]) (by simp [Label.slots])

theorem greedy_maximal' (order labels : List Label) (l : Label) (hl : l ∈ order)
    (hc : P.minCount ≤ labels.count l) (hn : l ∉ greedyOccupy P order labels) :
    ∃ o ∈ greedyOccupy P order labels, l.slot1 ∈ o.slots ∨ l.slot2 ∈ o.slots := by
  have inv := greedy_inv (P := P) order labels
  rcases occ_processed labels order ([], []) l hl hc with h | h | h
  · exact absurd h hn
  · obtain ⟨o, ho, hs⟩ := (inv.occ _).mp h
    exact ⟨o, ho, Or.inl hs⟩
  · obtain ⟨o, ho, hs⟩ := (inv.occ _).mp h
    exact ⟨o, ho, Or.inr hs⟩

/-! ## stable insertion sort -/

theorem insertBy_perm {α} (le : α → α → Bool) (x : α) : ∀ l : List α, (insertBy le x l).Perm (x :: l)
  | [] => List.Perm.refl _
  | y :: ys => by
    unfold insertBy
    by_cases h : le x y = true
    · simp only [h, ↓reduceIte]; exact List.Perm.refl _
    · simp only [h, Bool.false_eq_true, ↓reduceIte]
      exact ((insertBy_perm le x ys).cons y).trans (List.Perm.swap x y ys)

theorem isort_perm {α} (le : α → α → Bool) : ∀ l : List α, (isort le l).Perm l
  | [] => List.Perm.refl _
  | x :: xs => by
    show (insertBy le x (isort le xs)).Perm (x :: xs)
    exact (insertBy_perm le x _).trans ((isort_perm le xs).cons x)

theorem insertBy_pairwise {α} {le : α → α → Bool}
    (tr : ∀ a b c, le a b = true → le b c = true → le a c = true)
    (tot : ∀ a b, (le a b || le b a) = true) (x : α) :
    ∀ l : List α, l.Pairwise (fun a b => le a b = true) →
      (insertBy le x l).Pairwise (fun a b => le a b = true)
  | [], _ => by simp [insertBy]
  | y :: ys, h => by
    unfold insertBy
    have hy := List.pairwise_cons.mp h
    by_cases hxy : le x y = true
    · simp only [hxy, ↓reduceIte]
      refine List.pairwise_cons.mpr ⟨?_, h⟩
      intro z hz
      rcases List.mem_cons.mp hz with hz | hz
      · subst hz; exact hxy
      · exact tr x y z hxy (hy.1 z hz)
    · simp only [hxy, Bool.false_eq_true, ↓reduceIte]
      have hyx : le y x = true := by
        have := tot x y
        simp only [Bool.or_eq_true] at this
        rcases this with t | t
        · exact absurd t hxy
        · exact t
      refine List.pairwise_cons.mpr ⟨?_, insertBy_pairwise tr tot x ys hy.2⟩
      intro z hz
      rcases List.mem_cons.mp ((insertBy_perm le x ys).mem_iff.mp hz) with hz | hz
      · subst hz; exact hyx
      · exact hy.1 z hz

theorem isort_pairwise {α} {le : α → α → Bool}
    (tr : ∀ a b c, le a b = true → le b c = true → le a c = true)
    (tot : ∀ a b, (le a b || le b a) = true) :
    ∀ l : List α, (isort le l).Pairwise (fun a b => le a b = true)
  | [] => List.Pairwise.nil
  | x :: xs => insertBy_pairwise tr tot x _ (isort_pairwise tr tot xs)

/-! ## `most_common` order -/

theorem mem_dedupL {l : Label} : ∀ {ls : List Label}, l ∈ dedupL ls ↔ l ∈ ls
  | [] => by simp [dedupL]
  | x :: xs => by
    simp only [dedupL, List.mem_cons, List.mem_filter, mem_dedupL (ls := xs)]
    by_cases h : l = x
    · simp [h]
    · simp [h]

theorem nodup_dedupL : ∀ (ls : List Label), (dedupL ls).Nodup
  | [] => by simp [dedupL]
  | x :: xs => by
    simp only [dedupL, List.nodup_cons, List.mem_filter]
    refine ⟨by simp, (nodup_dedupL xs).filter _⟩

theorem mem_mostCommonOrder {labels : List Label} {l : Label} :
    l ∈ mostCommonOrder labels ↔ l ∈ labels := by
  unfold mostCommonOrder
  rw [(isort_perm _ _).mem_iff, mem_dedupL]

theorem nodup_mostCommonOrder (labels : List Label) : (mostCommonOrder labels).Nodup := by
  unfold mostCommonOrder
  exact (isort_perm _ _).nodup_iff.mpr (nodup_dedupL labels)

/-- `most_common` lists the labels by non-increasing count -/
theorem mostCommonOrder_sorted (labels : List Label) :
    (mostCommonOrder labels).Pairwise (fun a b => labels.count b ≤ labels.count a) := by
  unfold mostCommonOrder
  have h := isort_pairwise (le := fun a b : Label => decide (labels.count a ≥ labels.count b))
    (by intro a b c; simp only [decide_eq_true_eq]; omega)
    (by intro a b; simp only [Bool.or_eq_true, decide_eq_true_eq]; omega) (dedupL labels)
  exact h.imp (by intro a b; simp only [decide_eq_true_eq]; exact id)

/-! ## orientation and the assembly stage -/

theorem orient_lower_first {rank : Nat → Nat} {i j : Nat} (cis : Bool) (ei ej : Char)
    (hne : rank i ≠ rank j) :
    let l := orient (decide (rank i < rank j)) i j cis ei ej
    rank l.lo < rank l.hi := by
  unfold orient
  by_cases h : rank i < rank j
  · simp [h]
  · simp only [h, decide_false, Bool.false_eq_true, ↓reduceIte]; omega

theorem lwLe_trans (a b c : Label) : lwLe a b = true → lwLe b c = true → lwLe a c = true := by
  unfold lwLe
  simp only [decide_eq_true_eq]
  exact fun h1 h2 => List.le_trans h1 h2

theorem lwLe_total (a b : Label) : (lwLe a b || lwLe b a) = true := by
  unfold lwLe
  simp only [Bool.or_eq_true, decide_eq_true_eq]
  exact List.le_total _ _

theorem labelLe_trans (rank : Nat → Nat) (a b c : Label) :
    labelLe rank a b = true → labelLe rank b c = true → labelLe rank a c = true := by
  unfold labelLe
  simp only [Bool.or_eq_true, Bool.and_eq_true, decide_eq_true_eq, beq_iff_eq]
  intro h1 h2
  rcases h1 with h1 | ⟨e1, h1 | ⟨f1, g1⟩⟩ <;> rcases h2 with h2 | ⟨e2, h2 | ⟨f2, g2⟩⟩
  · left; omega
  · left; omega
  · left; omega
  · left; omega
  · right; exact ⟨by omega, Or.inl (by omega)⟩
  · right; exact ⟨by omega, Or.inl (by omega)⟩
  · left; omega
  · right; exact ⟨by omega, Or.inl (by omega)⟩
  · right; exact ⟨by omega, Or.inr ⟨by omega, lwLe_trans a b c g1 g2⟩⟩

theorem labelLe_total (rank : Nat → Nat) (a b : Label) :
    (labelLe rank a b || labelLe rank b a) = true := by
  unfold labelLe
  have t := lwLe_total a b
  simp only [Bool.or_eq_true, Bool.and_eq_true, decide_eq_true_eq, beq_iff_eq] at t ⊢
  by_cases h1 : rank a.lo < rank b.lo
  · exact Or.inl (Or.inl h1)
  · by_cases h2 : rank b.lo < rank a.lo
    · exact Or.inr (Or.inl h2)
    · have e : rank a.lo = rank b.lo := by omega
      by_cases h3 : rank a.hi < rank b.hi
      · exact Or.inl (Or.inr ⟨e, Or.inl h3⟩)
      · by_cases h4 : rank b.hi < rank a.hi
        · exact Or.inr (Or.inr ⟨e.symm, Or.inl h4⟩)
        · have f : rank a.hi = rank b.hi := by omega
          rcases t with t | t
          · exact Or.inl (Or.inr ⟨e, Or.inr ⟨f, t⟩⟩)
          · exact Or.inr (Or.inr ⟨e.symm, Or.inr ⟨f.symm, t⟩⟩)

theorem assemble_perm (rank : Nat → Nat) (out : List Label) : (assemble rank out).Perm out :=
  isort_perm _ _

theorem assemble_sorted (rank : Nat → Nat) (out : List Label) :
    (assemble rank out).Pairwise (fun a b => labelLe rank a b = true) :=
  isort_pairwise (labelLe_trans rank) (labelLe_total rank) out

/-- everything the occupation reports is one of the collected labels -/
theorem greedy_subset (order labels : List Label) (hpos : 0 < P.minCount) :
    ∀ l ∈ greedyOccupy P order labels, l ∈ labels := by
  intro l hl
  have := greedy_sound' order labels l hl
  exact List.count_pos_iff.mp (by omega)

/-! ## merge_and_clean_bph_br -/

theorem cleanSet_length (s : List Nat) : (cleanSet P s).length ≤ 1 := by
  unfold cleanSet
  cases (applyRules P s).head? <;> simp

theorem mem_osAdd {s : List Nat} {c x : Nat} : x ∈ osAdd s c ↔ x ∈ s ∨ x = c := by
  unfold osAdd
  by_cases h : c ∈ s
  · simp only [List.contains_eq_mem, h, decide_true, ↓reduceIte]
    constructor
    · exact Or.inl
    · rintro (h' | h')
      · exact h'
      · subst h'; exact h
  · simp [h]

/-- membership after one rule -/
theorem mem_applyRule {s : List Nat} {r : Nat × Nat × Nat} {x : Nat} :
    x ∈ applyRule s r ↔
      if r.1 ∈ s ∧ r.2.1 ∈ s then (x ∈ s ∧ x ≠ r.1 ∧ x ≠ r.2.1) ∨ x = r.2.2 else x ∈ s := by
  unfold applyRule
  by_cases h : r.1 ∈ s ∧ r.2.1 ∈ s
  · have h' : (s.contains r.1 && s.contains r.2.1) = true := by simp [h.1, h.2]
    simp only [h', ↓reduceIte, h, and_self, mem_osAdd, List.mem_filter, bne_iff_ne, ne_eq]
    constructor
    · rintro (⟨⟨a, b⟩, c⟩ | a)
      · exact Or.inl ⟨a, b, c⟩
      · exact Or.inr a
    · rintro (⟨a, b, c⟩ | a)
      · exact Or.inl ⟨⟨a, b⟩, c⟩
      · exact Or.inr a
  · have h' : (s.contains r.1 && s.contains r.2.1) = false := by
      simp only [Bool.and_eq_false_iff, List.contains_eq_mem, decide_eq_false_iff_not]
      by_cases h1 : r.1 ∈ s
      · exact Or.inr (fun h2 => h ⟨h1, h2⟩)
      · exact Or.inl h1
    simp [h]

/-- every class that survives the rules was present or is the result of a rule whose two inputs were
present at the time the rule was applied; in particular (see `Props.C11.mergeClean_rules`) for the
generated rule list it is implied by the original classes -/
theorem applyRule_subset {s : List Nat} {r : Nat × Nat × Nat} {x : Nat} (h : x ∈ applyRule s r) :
    x ∈ s ∨ (x = r.2.2 ∧ r.1 ∈ s ∧ r.2.1 ∈ s) := by
  rw [mem_applyRule] at h
  by_cases hc : r.1 ∈ s ∧ r.2.1 ∈ s
  · simp only [hc, and_self, ↓reduceIte] at h
    rcases h with ⟨a, _, _⟩ | a
    · exact Or.inl a
    · exact Or.inr ⟨a, hc.1, hc.2⟩
  · simp only [hc, ↓reduceIte] at h
    exact Or.inl h

theorem groupAdd_keys (m : List (Nat × List Nat)) (k c : Nat) :
    (groupAdd m k c).map (·.1) = if m.any (·.1 == k) then m.map (·.1) else m.map (·.1) ++ [k] := by
  unfold groupAdd
  by_cases h : m.any (·.1 == k) = true
  · simp only [h, ↓reduceIte, List.map_map]
    apply List.map_congr_left
    intro e _
    by_cases he : e.1 = k <;> simp [he]
  · simp [h]

theorem groupAdd_nodup {m : List (Nat × List Nat)} (h : (m.map (·.1)).Nodup) (k c : Nat) :
    ((groupAdd m k c).map (·.1)).Nodup := by
  rw [groupAdd_keys]
  by_cases hk : m.any (·.1 == k) = true
  · simp only [hk, ↓reduceIte]; exact h
  · simp only [hk, Bool.false_eq_true, ↓reduceIte]
    rw [List.nodup_append]
    refine ⟨h, by simp, ?_⟩
    intro a ha b hb
    simp only [List.mem_singleton] at hb
    subst hb
    intro e
    subst e
    apply hk
    simp only [List.any_eq_true, beq_iff_eq]
    obtain ⟨e, he, rfl⟩ := List.mem_map.mp ha
    exact ⟨e, he, rfl⟩

theorem groupAll_nodup (ps : List (Nat × Nat)) : ((groupAll ps).map (·.1)).Nodup := by
  unfold groupAll
  suffices ∀ (m : List (Nat × List Nat)), (m.map (·.1)).Nodup →
      ((ps.foldl (fun m p => groupAdd m p.1 p.2) m).map (·.1)).Nodup from this [] (by simp)
  induction ps with
  | nil => exact fun m h => h
  | cons p rest ih => exact fun m h => ih _ (groupAdd_nodup h p.1 p.2)

theorem mergeClean_keys_nodup (ps : List (Nat × Nat)) : ((mergeClean P ps).map (·.1)).Nodup := by
  unfold mergeClean
  simp only [List.map_map]
  exact groupAll_nodup ps

theorem mergeClean_len (ps : List (Nat × Nat)) : ∀ e ∈ mergeClean P ps, e.2.length ≤ 1 := by
  unfold mergeClean
  intro e he
  obtain ⟨x, _, rfl⟩ := List.mem_map.mp he
  exact cleanSet_length x.2

/-- the classes grouped under a key are exactly the classes that occur with that key -/
theorem mem_groupAdd {m : List (Nat × List Nat)} {k c : Nat} {e : Nat × List Nat}
    (_hn : (m.map (·.1)).Nodup) (he : e ∈ groupAdd m k c) :
    ∀ x ∈ e.2, (∃ e' ∈ m, e'.1 = e.1 ∧ x ∈ e'.2) ∨ (e.1 = k ∧ x = c) := by
  unfold groupAdd at he
  by_cases hk : m.any (·.1 == k) = true
  · simp only [hk, ↓reduceIte, List.mem_map] at he
    obtain ⟨e', he', rfl⟩ := he
    intro x hx
    by_cases h1 : e'.1 = k
    · simp only [h1, beq_self_eq_true, ↓reduceIte] at hx ⊢
      rcases mem_osAdd.mp hx with hx | hx
      · exact Or.inl ⟨e', he', h1, hx⟩
      · exact Or.inr ⟨trivial, hx⟩
    · have h1' : (e'.1 == k) = false := by simpa using h1
      simp only [h1', Bool.false_eq_true, ↓reduceIte] at hx ⊢
      exact Or.inl ⟨e', he', rfl, hx⟩
  · simp only [hk, Bool.false_eq_true, ↓reduceIte, List.mem_append, List.mem_singleton] at he
    intro x hx
    rcases he with he | he
    · exact Or.inl ⟨e, he, rfl, hx⟩
    · subst he
      simp only [osAdd, List.contains_nil, Bool.false_eq_true, ↓reduceIte, List.nil_append,
        List.mem_singleton] at hx
      exact Or.inr ⟨rfl, hx⟩

theorem mem_groupAll {ps : List (Nat × Nat)} {e : Nat × List Nat} (he : e ∈ groupAll ps) :
    ∀ x ∈ e.2, (e.1, x) ∈ ps := by
  unfold groupAll at he
  suffices ∀ (m : List (Nat × List Nat)), (m.map (·.1)).Nodup →
      ∀ e ∈ ps.foldl (fun m p => groupAdd m p.1 p.2) m, ∀ x ∈ e.2,
        (∃ e' ∈ m, e'.1 = e.1 ∧ x ∈ e'.2) ∨ (e.1, x) ∈ ps by
    intro x hx
    rcases this [] (by simp) e he x hx with ⟨e', h, _⟩ | h
    · cases h
    · exact h
  clear he e
  induction ps with
  | nil => intro m _ e he x hx; exact Or.inl ⟨e, he, rfl, hx⟩
  | cons p rest ih =>
    intro m hn e he x hx
    simp only [List.foldl_cons] at he
    rcases ih (groupAdd m p.1 p.2) (groupAdd_nodup hn p.1 p.2) e he x hx with ⟨e', h1, h2, h3⟩ | h
    · rcases mem_groupAdd hn h1 x h3 with ⟨e'', g1, g2, g3⟩ | ⟨g1, g2⟩
      · exact Or.inl ⟨e'', g1, g2.trans h2, g3⟩
      · right
        have : (e.1, x) = p := by
          rw [← h2, g1, g2]
        rw [this]; exact List.mem_cons_self
    · exact Or.inr (List.mem_cons_of_mem _ h)

/-! ## BPh classification -/

/-- whatever `bphClasses P` answers comes from the (base, donor) row of the generated table -/
theorem bphClasses_from_table (r : Res) (donor : String) (dpos apos : Q3) (c : Nat)
    (h : c ∈ bphClasses P r donor dpos apos) :
    ∃ r1 r2 cin cout, bphEntry P r.base donor = some (r1, r2, cin, cout) ∧ (c = cin ∨ c = cout) ∧
      (r1 = "" → c = cin) := by
  unfold bphClasses at h
  cases he : bphEntry P r.base donor with
  | none => simp [he] at h
  | some e =>
    obtain ⟨r1, r2, cin, cout⟩ := e
    refine ⟨r1, r2, cin, cout, rfl, ?_⟩
    simp only [he] at h
    by_cases h1 : (r1 == "") = true
    · simp only [h1, ↓reduceIte, List.mem_singleton] at h
      exact ⟨Or.inl h, fun _ => h⟩
    · have hne : r1 ≠ "" := by simpa using h1
      simp only [h1, Bool.false_eq_true, ↓reduceIte] at h
      refine ⟨?_, fun e => absurd e hne⟩
      split at h
      · split at h
        · simp only [List.mem_singleton] at h; exact Or.inl h
        · simp only [List.mem_singleton] at h; exact Or.inr h
        · simp only [List.mem_cons, List.not_mem_nil, or_false] at h; exact h
      · cases h

/-- decided torsion ⇒ the class of that half-plane -/
theorem bphClasses_decided (r : Res) (donor : String) (dpos apos : Q3)
    {r1 r2 : String} {cin cout : Nat} {p1 p2 : Q3}
    (he : bphEntry P r.base donor = some (r1, r2, cin, cout)) (hr : r1 ≠ "")
    (h1 : findAtom r r1 = some p1) (h2 : findAtom r r2 = some p2) :
    (torsionCisTri p1 p2 dpos apos = .yes → bphClasses P r donor dpos apos = [cin]) ∧
    (torsionCisTri p1 p2 dpos apos = .no → bphClasses P r donor dpos apos = [cout]) := by
  have hb : (r1 == "") = false := by simpa using hr
  constructor <;> intro ht <;> simp [bphClasses, he, hb, h1, h2, ht]

end RnaVerif.Pairs

import Mathlib.Data.Rat.Cast.Order
import Mathlib.Data.Real.Basic
import Mathlib.Tactic.Ring
import Mathlib.Tactic.Linarith
import Mathlib.Tactic.Positivity
import RnaVerif.Model.Pairs
/-! The exact model's answers about rational coordinates, read in ℝ. -/
namespace RnaVerif.PairsCast
open RnaVerif RnaVerif.Pairs

/-- a rational vector as a real vector -/
def castV (v : V3 Rat) : V3 ℝ := ⟨(v.x : ℝ), (v.y : ℝ), (v.z : ℝ)⟩

theorem cast_dot (a b : V3 Rat) : ((V3.dot a b : Rat) : ℝ) = V3.dot (castV a) (castV b) := by
  simp only [V3.dot, castV]; push_cast; ring

theorem cast_norm2 (a : V3 Rat) : ((V3.norm2 a : Rat) : ℝ) = V3.norm2 (castV a) := by
  simp only [V3.norm2]; exact cast_dot a a

theorem norm2_nonneg (a : V3 ℝ) : 0 ≤ V3.norm2 a := by
  simp only [V3.norm2, V3.dot]
  nlinarith [mul_self_nonneg a.x, mul_self_nonneg a.y, mul_self_nonneg a.z]

theorem bandTri_yes {q m lo hi : Rat} (h : bandTri q m lo hi = .yes) : q < (lo - cosBand) * m := by
  unfold bandTri at h
  by_cases h1 : q < (lo - cosBand) * m
  · exact h1
  · simp only [h1, ↓reduceIte] at h
    by_cases h2 : q > (hi + cosBand) * m <;> simp [h2] at h

theorem bandTri_no {q m lo hi : Rat} (h : bandTri q m lo hi = .no) : (hi + cosBand) * m < q := by
  unfold bandTri at h
  by_cases h1 : q < (lo - cosBand) * m
  · simp [h1] at h
  · simp only [h1, ↓reduceIte] at h
    by_cases h2 : q > (hi + cosBand) * m
    · exact h2
    · simp [h2] at h

/-- if the model answers `yes`, the squared-cosine condition holds for every real `c` the enclosures
allow (`c ≥` both lower ends); if it answers `no`, it fails for every `c ≤` both upper ends -/
theorem angleTri_sound (P : Params) (n v : V3 Rat) (c : ℝ)
    (hlo : (P.encLo.1 : ℝ) ≤ c ∧ (P.encHi.1 : ℝ) ≤ c) (hhi : c ≤ (P.encLo.2 : ℝ) ∧ c ≤ (P.encHi.2 : ℝ)) :
    (angleTri P n v = .yes →
      V3.dot (castV n) (castV v) ^ 2 < c * (V3.norm2 (castV n) * V3.norm2 (castV v))) ∧
    (angleTri P n v = .no →
      ¬ V3.dot (castV n) (castV v) ^ 2 < c * (V3.norm2 (castV n) * V3.norm2 (castV v))) := by
  have hm : 0 ≤ V3.norm2 (castV n) * V3.norm2 (castV v) :=
    mul_nonneg (norm2_nonneg _) (norm2_nonneg _)
  have hb : (0 : ℝ) ≤ ((cosBand : Rat) : ℝ) := by
    have : (0 : Rat) ≤ cosBand := by decide +kernel
    exact_mod_cast this
  have hl : (((if V3.dot n v ≥ 0 then P.encLo else P.encHi).1 : Rat) : ℝ) ≤ c := by
    by_cases hs : V3.dot n v ≥ 0 <;> simp only [hs, ↓reduceIte] <;> [exact hlo.1; exact hlo.2]
  have hh : c ≤ (((if V3.dot n v ≥ 0 then P.encLo else P.encHi).2 : Rat) : ℝ) := by
    by_cases hs : V3.dot n v ≥ 0 <;> simp only [hs, ↓reduceIte] <;> [exact hhi.1; exact hhi.2]
  constructor
  · intro h
    have hq := bandTri_yes h
    have hq' : ((V3.dot n v * V3.dot n v : Rat) : ℝ) <
        ((((if V3.dot n v ≥ 0 then P.encLo else P.encHi).1 - cosBand) * (V3.norm2 n * V3.norm2 v) : Rat) : ℝ) := by
      exact_mod_cast hq
    push_cast at hq'
    rw [cast_dot, cast_norm2, cast_norm2] at hq'
    have : ((((if V3.dot n v ≥ 0 then P.encLo else P.encHi).1 : Rat) : ℝ) - (cosBand : ℝ)) *
        (V3.norm2 (castV n) * V3.norm2 (castV v)) ≤ c * (V3.norm2 (castV n) * V3.norm2 (castV v)) :=
      mul_le_mul_of_nonneg_right (by linarith) hm
    nlinarith
  · intro h hc
    have hq := bandTri_no h
    have hq' : (((((if V3.dot n v ≥ 0 then P.encLo else P.encHi).2 + cosBand) * (V3.norm2 n * V3.norm2 v) : Rat)) : ℝ) <
        ((V3.dot n v * V3.dot n v : Rat) : ℝ) := by
      exact_mod_cast hq
    push_cast at hq'
    rw [cast_dot, cast_norm2, cast_norm2] at hq'
    have : c * (V3.norm2 (castV n) * V3.norm2 (castV v)) ≤
        ((((if V3.dot n v ≥ 0 then P.encLo else P.encHi).2 : Rat) : ℝ) + (cosBand : ℝ)) *
          (V3.norm2 (castV n) * V3.norm2 (castV v)) :=
      mul_le_mul_of_nonneg_right (by linarith) hm
    nlinarith

end RnaVerif.PairsCast

namespace RnaVerif.PairsCast
open RnaVerif RnaVerif.Pairs

/-- the distance answer is sound for `d² ≤ maxDist²` whenever the threshold is at least the band width -/
theorem distTri_sound (P : Params) (d2 : Rat) (hp : tol ≤ P.maxDist) :
    (distTri P d2 = .yes → d2 ≤ P.maxDist * P.maxDist) ∧
    (distTri P d2 = .no → P.maxDist * P.maxDist < d2) := by
  have ht : (0 : Rat) < tol := by decide +kernel
  unfold distTri
  simp only
  constructor
  · intro h
    by_cases h1 : d2 ≤ (P.maxDist - tol) * (P.maxDist - tol)
    · nlinarith
    · simp only [h1, ↓reduceIte] at h
      by_cases h2 : d2 > (P.maxDist + tol) * (P.maxDist + tol) <;> simp [h2] at h
  · intro h
    by_cases h1 : d2 ≤ (P.maxDist - tol) * (P.maxDist - tol)
    · simp [h1] at h
    · simp only [h1, ↓reduceIte] at h
      by_cases h2 : d2 > (P.maxDist + tol) * (P.maxDist + tol)
      · nlinarith
      · simp [h2] at h

theorem norm2_nonneg_rat (a : V3 Rat) : 0 ≤ V3.norm2 a := by
  simp only [V3.norm2, V3.dot]
  nlinarith [mul_self_nonneg a.x, mul_self_nonneg a.y, mul_self_nonneg a.z]

/-- the cis/trans answer is the strict sign of `(v₁×v₂)·(v₂×v₃)` -/
theorem torsionCisTri_sound (p1 p2 p3 p4 : V3 Rat) :
    (torsionCisTri p1 p2 p3 p4 = .yes → 0 < torsionX p1 p2 p3 p4) ∧
    (torsionCisTri p1 p2 p3 p4 = .no → torsionX p1 p2 p3 p4 < 0) := by
  unfold torsionCisTri torsionX
  simp only
  generalize hx : V3.dot (V3.cross (V3.sub p2 p1) (V3.sub p3 p2)) (V3.cross (V3.sub p3 p2) (V3.sub p4 p3)) = x
  generalize ht1 : V3.cross (V3.sub p2 p1) (V3.sub p3 p2) = t1
  generalize ht2 : V3.cross (V3.sub p3 p2) (V3.sub p4 p3) = t2
  have hm : 0 ≤ cosBand * cosBand * (V3.norm2 t1 * V3.norm2 t2) := by
    have : (0 : Rat) ≤ cosBand * cosBand := by decide +kernel
    exact mul_nonneg this (mul_nonneg (norm2_nonneg_rat _) (norm2_nonneg_rat _))
  constructor <;> intro h
  · split at h
    · cases h
    · split at h
      · cases h
      · split at h
        · cases h
        · split at h
          · assumption
          · cases h
  · split at h
    · cases h
    · split at h
      · cases h
      · split at h
        · cases h
        · rename_i h3
          split at h
          · cases h
          · rename_i h4
            have h3' : cosBand * cosBand * (V3.norm2 t1 * V3.norm2 t2) < x * x := lt_of_not_ge h3
            have hx0 : x ≤ 0 := le_of_not_gt h4
            rcases lt_or_eq_of_le hx0 with hlt | heq
            · exact hlt
            · rw [heq] at h3'; simp at h3'; linarith

end RnaVerif.PairsCast

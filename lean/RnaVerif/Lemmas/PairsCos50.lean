import Mathlib.Analysis.SpecialFunctions.Trigonometric.Inverse
import Mathlib.Tactic.Ring
import Mathlib.Tactic.Linarith
import Mathlib.Tactic.NormNum
import RnaVerif.Spec.PairsChemistry
/-!
# The pinned rational interval `Spec.PairsChemistry.cosSq50` encloses cos² 50°

`cos(3·50°) = cos 150° = −√3/2`, and `x ↦ 4x³ − 3x` is strictly increasing on `[1/2, ∞)`, where
`cos 50° > cos 60° = 1/2` lies; rational bounds of `√3` (40 digits) are checked by squaring.  (Same
method as `Lemmas/CosBounds.lean` for 35°; repeated here so that C03 does not depend on that file.)
-/
namespace RnaVerif.PairsCos50
open Real

noncomputable def x50 : ℝ := 50 * π / 180
noncomputable def a50 : ℝ := 3213938048432696631613217049536317 / 5000000000000000000000000000000000
noncomputable def b50 : ℝ := 1285575219373078652645286819814527 / 2000000000000000000000000000000000
noncomputable def s3lo : ℝ := 4330127018922193233818615853764680917357 / 2500000000000000000000000000000000000000
noncomputable def s3hi : ℝ := 17320508075688772935274463415058723669429 / 10000000000000000000000000000000000000000

theorem sqrt3_bounds : s3lo ≤ √3 ∧ √3 ≤ s3hi := by
  constructor
  · have h : s3lo = √(s3lo ^ 2) := (sqrt_sq (by unfold s3lo; norm_num)).symm
    rw [h]; exact sqrt_le_sqrt (by unfold s3lo; norm_num)
  · have h : s3hi = √(s3hi ^ 2) := (sqrt_sq (by unfold s3hi; norm_num)).symm
    rw [h]; exact sqrt_le_sqrt (by unfold s3hi; norm_num)

theorem cos_150 : cos (3 * x50) = -(√3 / 2) := by
  have h : 3 * x50 = π - π / 6 := by unfold x50; ring
  rw [h, cos_pi_sub, cos_pi_div_six]

theorem cubic : 4 * cos x50 ^ 3 - 3 * cos x50 = -(√3 / 2) := by
  rw [← cos_three_mul, cos_150]

theorem half_lt_cos50 : 1 / 2 < cos x50 := by
  rw [← cos_pi_div_three]
  apply cos_lt_cos_of_nonneg_of_le_pi
  · unfold x50; positivity
  · linarith [pi_pos]
  · unfold x50; linarith [pi_pos]

/-- `f x = 4x³ − 3x` is strictly increasing on `[1/2, ∞)` -/
theorem cubic_mono {x y : ℝ} (hx : 1 / 2 ≤ x) (hxy : x < y) :
    4 * x ^ 3 - 3 * x < 4 * y ^ 3 - 3 * y := by
  have hy : 1 / 2 < y := lt_of_le_of_lt hx hxy
  have h1 : 0 < y - x := sub_pos.2 hxy
  have h2 : 0 < 4 * (y ^ 2 + y * x + x ^ 2) - 3 := by
    nlinarith [mul_pos (sub_pos.2 hy) (sub_pos.2 hy), sq_nonneg (x - 1 / 2)]
  have := mul_pos h1 h2
  nlinarith

theorem cos50_bounds : a50 ≤ cos x50 ∧ cos x50 ≤ b50 := by
  obtain ⟨h3l, h3h⟩ := sqrt3_bounds
  have hc := cubic
  have hh := half_lt_cos50
  constructor
  · by_contra hlt
    rw [not_le] at hlt
    have := cubic_mono hh.le hlt
    have ha : 4 * a50 ^ 3 - 3 * a50 ≤ -(s3hi / 2) := by unfold a50 s3hi; norm_num
    linarith
  · by_contra hlt
    rw [not_le] at hlt
    have hb2 : (1 : ℝ) / 2 ≤ b50 := by unfold b50; norm_num
    have := cubic_mono hb2 hlt
    have hb : -(s3lo / 2) ≤ 4 * b50 ^ 3 - 3 * b50 := by unfold b50 s3lo; norm_num
    linarith

/-- **the enclosure hypothesis, proved**: the pinned interval contains cos² 50° -/
theorem cosSq50_encloses :
    ((Spec.PairsChemistry.cosSq50.1 : Rat) : ℝ) ≤ cos (50 * π / 180) ^ 2 ∧
    cos (50 * π / 180) ^ 2 ≤ ((Spec.PairsChemistry.cosSq50.2 : Rat) : ℝ) := by
  obtain ⟨ha, hb⟩ := cos50_bounds
  have h0 : (0 : ℝ) ≤ a50 := by unfold a50; norm_num
  have hx : cos (50 * π / 180) = cos x50 := rfl
  rw [hx]
  constructor
  · have h1 : ((Spec.PairsChemistry.cosSq50.1 : Rat) : ℝ) ≤ a50 ^ 2 := by
      unfold Spec.PairsChemistry.cosSq50 a50; norm_num
    have h2 : a50 ^ 2 ≤ cos x50 ^ 2 := pow_le_pow_left₀ h0 ha 2
    linarith
  · have h1 : b50 ^ 2 ≤ ((Spec.PairsChemistry.cosSq50.2 : Rat) : ℝ) := by
      unfold Spec.PairsChemistry.cosSq50 b50; norm_num
    have h2 : cos x50 ^ 2 ≤ b50 ^ 2 := pow_le_pow_left₀ (le_trans h0 ha) hb 2
    linarith

end RnaVerif.PairsCos50

import Mathlib.Analysis.SpecialFunctions.Trigonometric.Inverse
import Mathlib.Analysis.SpecialFunctions.Complex.Arg
import Mathlib.Tactic.Ring
import Mathlib.Tactic.Linarith
import Mathlib.Tactic.Positivity
import RnaVerif.Model.Geom
/-! ℝ-level justification of the polynomial sign conditions used by `Model/Pairs.lean`:
the angle window of `find_pairs` and the cis/trans test of `detect_cis_trans`. -/
namespace RnaVerif.PairsReal
open Real

/-- `α < arccos x < π − α  ↔  x² < cos² α` for `x ∈ [-1,1]`, `0 ≤ α ≤ π/2` -/
theorem arccos_window_iff {x α : ℝ} (hx : x ∈ Set.Icc (-1 : ℝ) 1) (h0 : 0 ≤ α) (h1 : α ≤ π / 2) :
    (α < arccos x ∧ arccos x < π - α) ↔ x ^ 2 < cos α ^ 2 := by
  have hpi : α ≤ π := by linarith [pi_pos]
  have hc0 : 0 ≤ cos α := cos_nonneg_of_neg_pi_div_two_le_of_le (by linarith [pi_pos]) h1
  have hc1 : cos α ≤ 1 := cos_le_one α
  have hcm : cos α ∈ Set.Icc (-1 : ℝ) 1 := ⟨by linarith, hc1⟩
  have hnm : -cos α ∈ Set.Icc (-1 : ℝ) 1 := ⟨by linarith, by linarith⟩
  have e1 : arccos (cos α) = α := arccos_cos h0 hpi
  have e2 : arccos (-cos α) = π - α := by rw [arccos_neg, e1]
  have a1 : α < arccos x ↔ x < cos α := by
    conv_lhs => rw [← e1]
    exact strictAntiOn_arccos.lt_iff_gt hcm hx
  have a2 : arccos x < π - α ↔ -cos α < x := by
    conv_lhs => rw [← e2]
    exact strictAntiOn_arccos.lt_iff_gt hx hnm
  rw [a1, a2]
  constructor
  · rintro ⟨h, h'⟩
    exact sq_lt_sq' h' h
  · intro h
    have := abs_lt_of_sq_lt_sq' h hc0
    exact ⟨this.2, this.1⟩

open V3 in
/-- Cauchy–Schwarz for the record type `V3 ℝ` (Lagrange's identity) -/
theorem dot_sq_le (n v : V3 ℝ) : dot n v ^ 2 ≤ norm2 n * norm2 v := by
  simp only [dot, norm2]
  nlinarith [sq_nonneg (n.x * v.y - n.y * v.x), sq_nonneg (n.y * v.z - n.z * v.y),
    sq_nonneg (n.z * v.x - n.x * v.z)]

open V3 in
/-- **angle_range_iff**: the angle `arccos(n·v / |n| / |v|)` computed by `angle_between_vectors` lies strictly
between `α` and `π − α` iff `(n·v)² < cos²α · |n|²|v|²` — the polynomial condition the exact model tests. -/
theorem angle_window_iff (n v : V3 ℝ) (hn : 0 < norm2 n) (hv : 0 < norm2 v) {α : ℝ}
    (h0 : 0 ≤ α) (h1 : α ≤ π / 2) :
    (α < arccos (dot n v / √(norm2 n) / √(norm2 v)) ∧
      arccos (dot n v / √(norm2 n) / √(norm2 v)) < π - α) ↔
    dot n v ^ 2 < cos α ^ 2 * (norm2 n * norm2 v) := by
  have sn : 0 < √(norm2 n) := sqrt_pos.mpr hn
  have sv : 0 < √(norm2 v) := sqrt_pos.mpr hv
  have hm : 0 < norm2 n * norm2 v := mul_pos hn hv
  have xsq : (dot n v / √(norm2 n) / √(norm2 v)) ^ 2 = dot n v ^ 2 / (norm2 n * norm2 v) := by
    rw [div_div, div_pow, mul_pow, sq_sqrt hn.le, sq_sqrt hv.le]
  have hx1 : (dot n v / √(norm2 n) / √(norm2 v)) ^ 2 ≤ 1 := by
    rw [xsq, div_le_one hm]; exact dot_sq_le n v
  have hx : dot n v / √(norm2 n) / √(norm2 v) ∈ Set.Icc (-1 : ℝ) 1 := by
    have := abs_le_of_sq_le_sq' (by simpa using hx1) (by norm_num : (0 : ℝ) ≤ 1)
    exact ⟨this.1, this.2⟩
  rw [arccos_window_iff hx h0 h1, xsq, div_lt_iff₀ hm]

open V3 in
/-- the polynomial condition does not depend on the length of the normal (the code normalises it, the
model does not) -/
theorem window_cond_scale (n v : V3 ℝ) (k c : ℝ) (hk : k ≠ 0) :
    dot (smul k n) v ^ 2 < c * (norm2 (smul k n) * norm2 v) ↔ dot n v ^ 2 < c * (norm2 n * norm2 v) := by
  have e1 : dot (smul k n) v ^ 2 = k ^ 2 * dot n v ^ 2 := by simp only [dot, smul]; ring
  have e2 : c * (norm2 (smul k n) * norm2 v) = k ^ 2 * (c * (norm2 n * norm2 v)) := by
    simp only [norm2, dot, smul]; ring
  rw [e1, e2]
  exact mul_lt_mul_iff_right₀ (by positivity)

/-- `atan2 y x` as the code calls it (`math.atan2(dot_t2_t3, dot_t1_t2)`) -/
noncomputable def atan2 (y x : ℝ) : ℝ := Complex.arg ⟨x, y⟩

/-- the torsion lies strictly between −90° and 90° iff its cosine component is positive -/
theorem atan2_window_iff {x y : ℝ} (h : x ≠ 0 ∨ y ≠ 0) :
    (-(π / 2) < atan2 y x ∧ atan2 y x < π / 2) ↔ 0 < x := by
  unfold atan2
  rw [← abs_lt, Complex.abs_arg_lt_pi_div_two_iff]
  constructor
  · rintro (h' | h')
    · exact h'
    · exfalso
      have hx : x = 0 := by simpa using congrArg Complex.re h'
      have hy : y = 0 := by simpa using congrArg Complex.im h'
      rcases h with h | h
      · exact h hx
      · exact h hy
  · exact fun h' => Or.inl h'

/-- degrees: `-90 < θ·180/π < 90 ↔ -π/2 < θ < π/2` -/
theorem degrees_window_iff (θ : ℝ) :
    (-90 < θ * 180 / π ∧ θ * 180 / π < 90) ↔ (-(π / 2) < θ ∧ θ < π / 2) := by
  have hp := pi_pos
  rw [lt_div_iff₀ hp, div_lt_iff₀ hp]
  constructor <;> rintro ⟨a, b⟩ <;> constructor <;> linarith

open V3 in
/-- the x-component the code computes from the *normalised* bond vectors has the sign of
`(v₁×v₂)·(v₂×v₃)` (a, b, c = the three norms, any positive numbers) -/
theorem code_x_eq (v1 v2 v3 : V3 ℝ) (a b c : ℝ) (ha : a ≠ 0) (hb : b ≠ 0) (hc : c ≠ 0) :
    dot (cross (smul a⁻¹ v1) (smul b⁻¹ v2)) (cross (smul b⁻¹ v2) (smul c⁻¹ v3)) =
      (a * b ^ 2 * c)⁻¹ * dot (cross v1 v2) (cross v2 v3) := by
  simp only [dot, cross, smul]
  field_simp

open V3 in
/-- **cis_iff**: with `x = t₁·t₂`, `y = t₂·t₃` as computed by `calculate_torsion_angle_coords` from the
normalised bond vectors (non-degenerate: not both zero), `-90° < degrees(atan2 y x) < 90°` iff
`0 < (v₁×v₂)·(v₂×v₃)` — the sign the exact model tests. -/
theorem cis_iff (v1 v2 v3 : V3 ℝ) (a b c y : ℝ) (ha : 0 < a) (hb : 0 < b) (hc : 0 < c)
    (hnd : dot (cross (smul a⁻¹ v1) (smul b⁻¹ v2)) (cross (smul b⁻¹ v2) (smul c⁻¹ v3)) ≠ 0 ∨ y ≠ 0) :
    (-90 < atan2 y (dot (cross (smul a⁻¹ v1) (smul b⁻¹ v2)) (cross (smul b⁻¹ v2) (smul c⁻¹ v3))) * 180 / π ∧
      atan2 y (dot (cross (smul a⁻¹ v1) (smul b⁻¹ v2)) (cross (smul b⁻¹ v2) (smul c⁻¹ v3))) * 180 / π < 90) ↔
    0 < dot (cross v1 v2) (cross v2 v3) := by
  rw [degrees_window_iff, atan2_window_iff hnd, code_x_eq v1 v2 v3 a b c ha.ne' hb.ne' hc.ne']
  have hp : 0 < (a * b ^ 2 * c)⁻¹ := by positivity
  constructor
  · intro h
    by_contra hneg
    have : (a * b ^ 2 * c)⁻¹ * dot (cross v1 v2) (cross v2 v3) ≤ 0 :=
      mul_nonpos_of_nonneg_of_nonpos hp.le (not_lt.mp hneg)
    linarith
  · exact fun h => mul_pos hp h

open V3 in
/-- the torsion test is symmetric: reading the four atoms backwards gives the same sign, so
`detect_cis_trans(i, j)` and `detect_cis_trans(j, i)` agree -/
theorem torsionX_symm {K : Type} [CommRing K] (p1 p2 p3 p4 : V3 K) :
    dot (cross (sub p2 p1) (sub p3 p2)) (cross (sub p3 p2) (sub p4 p3)) =
    dot (cross (sub p3 p4) (sub p2 p3)) (cross (sub p2 p3) (sub p1 p2)) := by
  simp only [dot, cross, sub]; ring

end RnaVerif.PairsReal

import RnaVerif.Model.Pdb
/-!
# Lemmas about the PDB fixed-column writer / reader model (`Model/Pdb.lean`)

Core only.  Main results: `formatAtom_len80`, `formatTer_len80`, `parseV2_formatAtom`,
`recordType_formatAtom`, `recordType_formatTer`, `recordType_formatModel`, `parseModel_formatModel`,
`fieldText_formatAtom_*`, `parseFixed_fixedBody`, `parseInt_showInt`.
-/
namespace RnaVerif.Pdb
open RnaVerif.Gen

/-! ## 1. whitespace, strip, justification -/

/-- a text without any Python-whitespace character -/
def NoWs (s : Str) : Prop := ∀ c ∈ s, isWs c = false

theorem isWs_space : isWs ' ' = true := by decide

theorem NoWs.nil : NoWs [] := by intro c hc; cases hc

theorem NoWs.append {s t : Str} (hs : NoWs s) (ht : NoWs t) : NoWs (s ++ t) := by
  intro c hc
  rcases List.mem_append.1 hc with h | h
  · exact hs c h
  · exact ht c h

theorem NoWs.cons {c : Char} {s : Str} (hc : isWs c = false) (hs : NoWs s) : NoWs (c :: s) := by
  intro d hd
  rcases List.mem_cons.1 hd with h | h
  · subst h; exact hc
  · exact hs d h

theorem NoWs.reverse {s : Str} (hs : NoWs s) : NoWs s.reverse := by
  intro c hc; exact hs c (List.mem_reverse.1 hc)

theorem NoWs.take {s : Str} (hs : NoWs s) (n : Nat) : NoWs (s.take n) := by
  intro c hc; exact hs c (List.mem_of_mem_take hc)

theorem isWs_of_toNat_range {c : Char} (h1 : 33 ≤ c.toNat) (h2 : c.toNat ≤ 126) : isWs c = false := by
  simp only [isWs, Bool.or_eq_false_iff, Bool.and_eq_false_imp, decide_eq_true_eq, decide_eq_false_iff_not,
    beq_eq_false_iff_ne, ne_eq]
  omega

theorem isWs_of_graphic {c : Char} (h : graphic c = true) : isWs c = false := by
  simp only [graphic, Bool.and_eq_true, decide_eq_true_eq] at h
  exact isWs_of_toNat_range h.1 h.2

theorem NoWs.of_graphic {s : Str} (h : s.all graphic = true) : NoWs s := by
  intro c hc
  exact isWs_of_graphic (List.all_eq_true.1 h c hc)

theorem isWs_of_isDigit {c : Char} (h : c.isDigit = true) : isWs c = false := by
  simp only [Char.isDigit, Bool.and_eq_true, decide_eq_true_eq] at h
  have h1 : 48 ≤ c.toNat := by
    have := h.1; simp only [UInt32.le_iff_toNat_le] at this; exact this
  have h2 : c.toNat ≤ 57 := by
    have := h.2; simp only [UInt32.le_iff_toNat_le] at this; exact this
  exact isWs_of_toNat_range (by omega) (by omega)

theorem dropWhile_blank_append (n : Nat) (t : Str) :
    (List.replicate n ' ' ++ t).dropWhile isWs = t.dropWhile isWs := by
  induction n with
  | zero => simp
  | succ n ih => simp [List.replicate_succ, isWs_space, ih]

theorem dropWhile_noWs_append {s : Str} (hs : NoWs s) (hne : s ≠ []) (t : Str) :
    (s ++ t).dropWhile isWs = s ++ t := by
  cases s with
  | nil => exact absurd rfl hne
  | cons c s' =>
    have : isWs c = false := hs c (List.mem_cons_self)
    simp [this]

/-- `strip` of a blank-padded whitespace-free text -/
theorem strip_pad (n m : Nat) {s : Str} (hs : NoWs s) :
    strip (List.replicate n ' ' ++ s ++ List.replicate m ' ') = s := by
  unfold strip rstrip lstrip
  rw [List.append_assoc, dropWhile_blank_append]
  by_cases hne : s = []
  · subst hne
    have h1 : (List.replicate m ' ').dropWhile isWs = [] := by
      have := dropWhile_blank_append m []
      simpa using this
    simp [h1]
  · have h2 := dropWhile_noWs_append (t := []) hs.reverse (by simpa using hne)
    rw [List.append_nil] at h2
    rw [dropWhile_noWs_append hs hne, List.reverse_append, List.reverse_replicate,
      dropWhile_blank_append, h2, List.reverse_reverse]

theorem strip_noWs {s : Str} (hs : NoWs s) : strip s = s := by
  have := strip_pad 0 0 hs
  simpa using this

theorem strip_ljust (w : Nat) {s : Str} (hs : NoWs s) : strip (ljust w s) = s := by
  have := strip_pad 0 (w - s.length) hs
  simpa [ljust] using this

theorem strip_rjust (w : Nat) {s : Str} (hs : NoWs s) : strip (rjust w s) = s := by
  have := strip_pad (w - s.length) 0 hs
  simpa [rjust] using this

theorem strip_blank_cons_ljust (w : Nat) {s : Str} (hs : NoWs s) : strip (ljust w (' ' :: s)) = s := by
  have := strip_pad 1 (w - (s.length + 1)) hs
  simpa [ljust] using this

theorem strip_blanks (n : Nat) : strip (List.replicate n ' ') = [] := by
  have := strip_pad n 0 NoWs.nil
  simpa using this

theorem length_ljust (w : Nat) (s : Str) (h : s.length ≤ w) : (ljust w s).length = w := by
  simp [ljust]; omega

theorem length_rjust (w : Nat) (s : Str) (h : s.length ≤ w) : (rjust w s).length = w := by
  simp [rjust]; omega

theorem ljust_of_length_ge (w : Nat) (s : Str) (h : w ≤ s.length) : ljust w s = s := by
  simp [ljust, Nat.sub_eq_zero_of_le h]

/-! ## 2. numbers -/

theorem isDigit_of_mem_showNat {n : Nat} {c : Char} (h : c ∈ showNat n) : c.isDigit = true :=
  Nat.isDigit_of_mem_toDigits (by decide) (by decide) h

theorem showNat_all_digit (n : Nat) : (showNat n).all Char.isDigit = true :=
  List.all_eq_true.2 fun _ h => isDigit_of_mem_showNat h

theorem showNat_ne_nil (n : Nat) : showNat n ≠ [] := Nat.toDigits_ne_nil

theorem showNat_noWs (n : Nat) : NoWs (showNat n) :=
  fun _ h => isWs_of_isDigit (isDigit_of_mem_showNat h)

theorem parseNat_showNat (n : Nat) : parseNat (showNat n) = some n := by
  unfold parseNat
  rw [if_pos ⟨showNat_ne_nil n, showNat_all_digit n⟩]
  simp [showNat]

theorem parseNat_of_digits {l : Str} (hne : l ≠ []) (h : l.all Char.isDigit = true) :
    parseNat l = some (Nat.ofDigitChars 10 l 0) := by
  unfold parseNat
  rw [if_pos ⟨hne, h⟩]

theorem parseInt_of_digit_head {c : Char} {r : Str} (h : c.isDigit = true) :
    parseInt (c :: r) = (parseNat (c :: r)).map (fun n => (n : Int)) := by
  unfold parseInt
  split
  · rename_i heq; injection heq with h1 _; subst h1; exact absurd h (by decide)
  · rename_i heq; injection heq with h1 _; subst h1; exact absurd h (by decide)
  · rfl

theorem parseFixed_of_digit_head (p : Nat) {c : Char} {r : Str} (h : c.isDigit = true) :
    parseFixed p (c :: r) = (parseFixedAbs p (c :: r)).map (fun n => (n : Int)) := by
  unfold parseFixed
  split
  · rename_i heq; injection heq with h1 _; subst h1; exact absurd h (by decide)
  · rename_i heq; injection heq with h1 _; subst h1; exact absurd h (by decide)
  · rfl

theorem showNat_eq_cons (n : Nat) : ∃ c r, showNat n = c :: r ∧ c.isDigit = true := by
  cases h : showNat n with
  | nil => exact absurd h (showNat_ne_nil n)
  | cons c r =>
    exact ⟨c, r, rfl, isDigit_of_mem_showNat (n := n) (by rw [h]; exact List.mem_cons_self)⟩

theorem parseInt_showNat (n : Nat) : parseInt (showNat n) = some (n : Int) := by
  obtain ⟨c, r, h, hc⟩ := showNat_eq_cons n
  have := parseNat_showNat n
  rw [h] at this ⊢
  rw [parseInt_of_digit_head hc, this]; rfl

theorem parseInt_showInt (i : Int) : parseInt (showInt i) = some i := by
  unfold showInt
  split
  · rename_i h
    show (parseNat (showNat i.natAbs)).map (fun n => -(n : Int)) = some i
    rw [parseNat_showNat]; simp; omega
  · rename_i h
    rw [parseInt_showNat]; simp; omega

theorem showInt_noWs (i : Int) : NoWs (showInt i) := by
  unfold showInt
  split
  · exact NoWs.cons (by decide) (showNat_noWs _)
  · exact showNat_noWs _

theorem length_showNat_le {n w : Nat} (hw : 0 < w) (h : n < 10 ^ w) : (showNat n).length ≤ w :=
  (Nat.length_toDigits_le_iff (by decide) hw).2 h

theorem length_showInt_le (w : Nat) (i : Int) (hw : 0 < w) (hpos : 0 ≤ i → i.natAbs < 10 ^ (w + 1))
    (hneg : i < 0 → i.natAbs < 10 ^ w) : (showInt i).length ≤ w + 1 := by
  unfold showInt
  split
  · rename_i h
    have := length_showNat_le hw (hneg h)
    simp; omega
  · rename_i h
    exact length_showNat_le (by omega) (hpos (by omega))

/-! ### fixed point -/

theorem length_padZeros (p : Nat) (l : Str) (h : l.length ≤ p) : (padZeros p l).length = p := by
  simp [padZeros]; omega

theorem padZeros_all_digit (p : Nat) {l : Str} (h : l.all Char.isDigit = true) :
    (padZeros p l).all Char.isDigit = true := by
  simp only [padZeros, List.all_append, Bool.and_eq_true, h, and_true]
  exact List.all_eq_true.2 fun c hc => by
    rw [(List.mem_replicate.1 hc).2]; decide

theorem ofDigitChars_padZeros (p : Nat) (l : Str) :
    Nat.ofDigitChars 10 (padZeros p l) 0 = Nat.ofDigitChars 10 l 0 := by
  simp [padZeros, Nat.ofDigitChars_append]

theorem ne_dot_of_isDigit {c : Char} (h : c.isDigit = true) : (c != '.') = true := by
  rw [bne_iff_ne]; intro hc; subst hc; exact absurd h (by decide)

theorem takeWhile_digits_dot {ds : Str} (h : ds.all Char.isDigit = true) (t : Str) :
    (ds ++ '.' :: t).takeWhile (· != '.') = ds := by
  induction ds with
  | nil => simp
  | cons c ds ih =>
    simp only [List.all_cons, Bool.and_eq_true] at h
    simp [ne_dot_of_isDigit h.1, ih h.2]

theorem dropWhile_digits_dot {ds : Str} (h : ds.all Char.isDigit = true) (t : Str) :
    (ds ++ '.' :: t).dropWhile (· != '.') = '.' :: t := by
  induction ds with
  | nil => simp
  | cons c ds ih =>
    simp only [List.all_cons, Bool.and_eq_true] at h
    simp [ne_dot_of_isDigit h.1, ih h.2]

theorem takeWhile_digits {ds : Str} (h : ds.all Char.isDigit = true) :
    ds.takeWhile (· != '.') = ds := by
  induction ds with
  | nil => simp
  | cons c ds ih =>
    simp only [List.all_cons, Bool.and_eq_true] at h
    simp [ne_dot_of_isDigit h.1, ih h.2]

theorem dropWhile_digits {ds : Str} (h : ds.all Char.isDigit = true) :
    ds.dropWhile (· != '.') = [] := by
  induction ds with
  | nil => simp
  | cons c ds ih =>
    simp only [List.all_cons, Bool.and_eq_true] at h
    simp [ne_dot_of_isDigit h.1, ih h.2]

/-- the unsigned part of `fixedBody` -/
def fixedAbsBody (p m : Nat) : Str :=
  showNat (m / 10 ^ p) ++ (if p = 0 then [] else '.' :: padZeros p (showNat (m % 10 ^ p)))

theorem fixedBody_eq (p : Nat) (k : Int) :
    fixedBody p k = (if k < 0 then ['-'] else []) ++ fixedAbsBody p k.natAbs := by
  simp [fixedBody, fixedAbsBody]

theorem length_showNat_mod (p m : Nat) (hp : 0 < p) : (showNat (m % 10 ^ p)).length ≤ p :=
  length_showNat_le hp (Nat.mod_lt _ (Nat.pow_pos (by decide)))

theorem parseFixedAbs_fixedAbsBody (p m : Nat) : parseFixedAbs p (fixedAbsBody p m) = some m := by
  unfold fixedAbsBody
  by_cases hp : p = 0
  · subst hp
    simp only [if_true, List.append_nil, parseFixedAbs, takeWhile_digits (showNat_all_digit _),
      dropWhile_digits (showNat_all_digit _), parseNat_showNat]
    simp
  · have hp' : 0 < p := Nat.pos_of_ne_zero hp
    have hl : (padZeros p (showNat (m % 10 ^ p))).length = p :=
      length_padZeros _ _ (length_showNat_mod p m hp')
    have hne : padZeros p (showNat (m % 10 ^ p)) ≠ [] := by
      intro h; rw [h] at hl; simp at hl; omega
    have hfr : parseNat (padZeros p (showNat (m % 10 ^ p))) = some (m % 10 ^ p) := by
      rw [parseNat_of_digits hne (padZeros_all_digit p (showNat_all_digit _)), ofDigitChars_padZeros]
      simp [showNat]
    simp only [if_neg hp, parseFixedAbs, takeWhile_digits_dot (showNat_all_digit _),
      dropWhile_digits_dot (showNat_all_digit _), hl, Nat.le_refl, if_true, parseNat_showNat, hfr,
      Nat.sub_self, Nat.pow_zero, Nat.mul_one]
    rw [Nat.mul_comm, Nat.div_add_mod]

theorem fixedAbsBody_eq_cons (p m : Nat) : ∃ c r, fixedAbsBody p m = c :: r ∧ c.isDigit = true := by
  obtain ⟨c, r, h, hc⟩ := showNat_eq_cons (m / 10 ^ p)
  exact ⟨c, r ++ (if p = 0 then [] else '.' :: padZeros p (showNat (m % 10 ^ p))), by
    simp [fixedAbsBody, h], hc⟩

/-- text of fixed-point numbers: exact decimal expansion -/
theorem parseFixed_fixedBody (p : Nat) (k : Int) : parseFixed p (fixedBody p k) = some k := by
  rw [fixedBody_eq]
  by_cases hk : k < 0
  · rw [if_pos hk]
    show (parseFixedAbs p (fixedAbsBody p k.natAbs)).map (fun n => -(n : Int)) = some k
    rw [parseFixedAbs_fixedAbsBody]; simp; omega
  · rw [if_neg hk, List.nil_append]
    obtain ⟨c, r, h, hc⟩ := fixedAbsBody_eq_cons p k.natAbs
    have := parseFixedAbs_fixedAbsBody p k.natAbs
    rw [h] at this ⊢
    rw [parseFixed_of_digit_head p hc, this]; simp; omega

theorem fixedAbsBody_noWs (p m : Nat) : NoWs (fixedAbsBody p m) := by
  unfold fixedAbsBody
  refine NoWs.append (showNat_noWs _) ?_
  split
  · exact NoWs.nil
  · refine NoWs.cons (by decide) ?_
    intro c hc
    exact isWs_of_isDigit (List.all_eq_true.1 (padZeros_all_digit p (showNat_all_digit _)) c hc)

theorem fixedBody_noWs (p : Nat) (k : Int) : NoWs (fixedBody p k) := by
  rw [fixedBody_eq]
  refine NoWs.append ?_ (fixedAbsBody_noWs _ _)
  split
  · exact NoWs.cons (by decide) NoWs.nil
  · exact NoWs.nil

theorem length_fixedAbsBody_le (p d m : Nat) (hp : 0 < p) (hd : 0 < d) (h : m < 10 ^ d * 10 ^ p) :
    (fixedAbsBody p m).length ≤ d + 1 + p := by
  have h1 : (showNat (m / 10 ^ p)).length ≤ d :=
    length_showNat_le hd ((Nat.div_lt_iff_lt_mul (Nat.pow_pos (by decide))).2 h)
  have hl := length_padZeros _ _ (length_showNat_mod p m hp)
  simp only [fixedAbsBody, if_neg (Nat.ne_of_gt hp), List.length_append, List.length_cons, hl]
  omega

theorem length_fixedBody_le (p d : Nat) (k : Int) (hp : 0 < p) (hd : 0 < d)
    (hpos : 0 ≤ k → k.natAbs < 10 ^ (d + 1) * 10 ^ p) (hneg : k < 0 → k.natAbs < 10 ^ d * 10 ^ p) :
    (fixedBody p k).length ≤ d + 2 + p := by
  rw [fixedBody_eq]
  by_cases hk : k < 0
  · have := length_fixedAbsBody_le p d _ hp hd (hneg hk)
    simp [if_pos hk]; omega
  · have := length_fixedAbsBody_le p (d + 1) _ hp (by omega) (hpos (by omega))
    simp [if_neg hk]; omega

/-! ## 3. slicing a concatenation of fixed-width segments -/

theorem slice_skip {s : Str} (t : Str) {k a b : Nat} (h : s.length = k) (ha : k ≤ a) :
    slice (s ++ t) a b = slice t (a - k) (b - k) := by
  unfold slice
  rw [List.drop_append, List.drop_eq_nil_of_le (by omega : s.length ≤ a), List.nil_append, h]
  congr 1; omega

theorem slice_hit {s : Str} (t : Str) {k a b : Nat} (h : s.length = k) (ha : a = 0) (hb : b = k) :
    slice (s ++ t) a b = s := by
  subst ha hb
  unfold slice
  simp [← h]

/-- the columns of a line made of 19 segments of the nominal widths -/
theorem slices_of_segments (s0 s1 s2 s3 s4 s5 s6 s7 s8 s9 s10 s11 s12 s13 s14 s15 s16 s17 s18 : Str)
    (h0 : s0.length = 6) (h1 : s1.length = 5) (h2 : s2.length = 1) (h3 : s3.length = 4) (h4 : s4.length = 1) (h5 : s5.length = 3) (h6 : s6.length = 1) (h7 : s7.length = 1) (h8 : s8.length = 4) (h9 : s9.length = 1) (h10 : s10.length = 3) (h11 : s11.length = 8) (h12 : s12.length = 8) (h13 : s13.length = 8) (h14 : s14.length = 6) (h15 : s15.length = 6) (h16 : s16.length = 10) (h17 : s17.length = 2) (h18 : s18.length = 2) :
    ∀ L, L = (s0 ++ (s1 ++ (s2 ++ (s3 ++ (s4 ++ (s5 ++ (s6 ++ (s7 ++ (s8 ++ (s9 ++ (s10 ++ (s11 ++ (s12 ++ (s13 ++ (s14 ++ (s15 ++ (s16 ++ (s17 ++ (s18 ++ []))))))))))))))))))) →
    L.length = 80 ∧ slice L 0 6 = s0 ∧ slice L 6 11 = s1 ∧ slice L 12 16 = s3 ∧ slice L 16 17 = s4 ∧ slice L 17 20 = s5 ∧ slice L 21 22 = s7 ∧ slice L 22 26 = s8 ∧ slice L 26 27 = s9 ∧ slice L 30 38 = s11 ∧ slice L 38 46 = s12 ∧ slice L 46 54 = s13 ∧ slice L 54 60 = s14 ∧ slice L 60 66 = s15 ∧ slice L 76 78 = s17 ∧ slice L 78 80 = s18 := by
  intro L hL
  subst hL
  refine ⟨?_, ?_, ?_, ?_, ?_, ?_, ?_, ?_, ?_, ?_, ?_, ?_, ?_, ?_, ?_, ?_⟩
  · simp only [List.length_append, List.length_nil, h0, h1, h2, h3, h4, h5, h6, h7, h8, h9, h10, h11, h12, h13, h14, h15, h16, h17, h18]
  · rw [slice_hit _ h0] <;> decide
  · rw [slice_skip _ h0, slice_hit _ h1] <;> decide
  · rw [slice_skip _ h0, slice_skip _ h1, slice_skip _ h2, slice_hit _ h3] <;> decide
  · rw [slice_skip _ h0, slice_skip _ h1, slice_skip _ h2, slice_skip _ h3, slice_hit _ h4] <;> decide
  · rw [slice_skip _ h0, slice_skip _ h1, slice_skip _ h2, slice_skip _ h3, slice_skip _ h4, slice_hit _ h5] <;> decide
  · rw [slice_skip _ h0, slice_skip _ h1, slice_skip _ h2, slice_skip _ h3, slice_skip _ h4, slice_skip _ h5, slice_skip _ h6, slice_hit _ h7] <;> decide
  · rw [slice_skip _ h0, slice_skip _ h1, slice_skip _ h2, slice_skip _ h3, slice_skip _ h4, slice_skip _ h5, slice_skip _ h6, slice_skip _ h7, slice_hit _ h8] <;> decide
  · rw [slice_skip _ h0, slice_skip _ h1, slice_skip _ h2, slice_skip _ h3, slice_skip _ h4, slice_skip _ h5, slice_skip _ h6, slice_skip _ h7, slice_skip _ h8, slice_hit _ h9] <;> decide
  · rw [slice_skip _ h0, slice_skip _ h1, slice_skip _ h2, slice_skip _ h3, slice_skip _ h4, slice_skip _ h5, slice_skip _ h6, slice_skip _ h7, slice_skip _ h8, slice_skip _ h9, slice_skip _ h10, slice_hit _ h11] <;> decide
  · rw [slice_skip _ h0, slice_skip _ h1, slice_skip _ h2, slice_skip _ h3, slice_skip _ h4, slice_skip _ h5, slice_skip _ h6, slice_skip _ h7, slice_skip _ h8, slice_skip _ h9, slice_skip _ h10, slice_skip _ h11, slice_hit _ h12] <;> decide
  · rw [slice_skip _ h0, slice_skip _ h1, slice_skip _ h2, slice_skip _ h3, slice_skip _ h4, slice_skip _ h5, slice_skip _ h6, slice_skip _ h7, slice_skip _ h8, slice_skip _ h9, slice_skip _ h10, slice_skip _ h11, slice_skip _ h12, slice_hit _ h13] <;> decide
  · rw [slice_skip _ h0, slice_skip _ h1, slice_skip _ h2, slice_skip _ h3, slice_skip _ h4, slice_skip _ h5, slice_skip _ h6, slice_skip _ h7, slice_skip _ h8, slice_skip _ h9, slice_skip _ h10, slice_skip _ h11, slice_skip _ h12, slice_skip _ h13, slice_hit _ h14] <;> decide
  · rw [slice_skip _ h0, slice_skip _ h1, slice_skip _ h2, slice_skip _ h3, slice_skip _ h4, slice_skip _ h5, slice_skip _ h6, slice_skip _ h7, slice_skip _ h8, slice_skip _ h9, slice_skip _ h10, slice_skip _ h11, slice_skip _ h12, slice_skip _ h13, slice_skip _ h14, slice_hit _ h15] <;> decide
  · rw [slice_skip _ h0, slice_skip _ h1, slice_skip _ h2, slice_skip _ h3, slice_skip _ h4, slice_skip _ h5, slice_skip _ h6, slice_skip _ h7, slice_skip _ h8, slice_skip _ h9, slice_skip _ h10, slice_skip _ h11, slice_skip _ h12, slice_skip _ h13, slice_skip _ h14, slice_skip _ h15, slice_skip _ h16, slice_hit _ h17] <;> decide
  · rw [slice_skip _ h0, slice_skip _ h1, slice_skip _ h2, slice_skip _ h3, slice_skip _ h4, slice_skip _ h5, slice_skip _ h6, slice_skip _ h7, slice_skip _ h8, slice_skip _ h9, slice_skip _ h10, slice_skip _ h11, slice_skip _ h12, slice_skip _ h13, slice_skip _ h14, slice_skip _ h15, slice_skip _ h16, slice_skip _ h17, slice_hit _ h18] <;> decide

/-! ## 4. the limits, unpacked -/

structure Lim (a : Atom) : Prop where
  record : a.record = ['A', 'T', 'O', 'M'] ∨ a.record = ['H', 'E', 'T', 'A', 'T', 'M']
  serial_lo : -9999 ≤ a.serial
  serial_hi : a.serial ≤ 99999
  name_lo : 1 ≤ a.name.length
  name_hi : a.name.length ≤ 4
  name_g : a.name.all graphic = true
  altLoc_hi : a.altLoc.length ≤ 1
  altLoc_g : a.altLoc.all graphic = true
  resName_lo : 1 ≤ a.resName.length
  resName_hi : a.resName.length ≤ 3
  resName_g : a.resName.all graphic = true
  chain_len : a.chain.length = 1
  chain_g : a.chain.all graphic = true
  resSeq_lo : -999 ≤ a.resSeq
  resSeq_hi : a.resSeq ≤ 9999
  iCode_hi : a.iCode.length ≤ 1
  iCode_g : a.iCode.all graphic = true
  x_lo : -999999 ≤ a.x
  x_hi : a.x ≤ 9999999
  y_lo : -999999 ≤ a.y
  y_hi : a.y ≤ 9999999
  z_lo : -999999 ≤ a.z
  z_hi : a.z ≤ 9999999
  occ_lo : -9999 ≤ a.occ
  occ_hi : a.occ ≤ 99999
  b_lo : -9999 ≤ a.b
  b_hi : a.b ≤ 99999
  element_hi : a.element.length ≤ 2
  element_g : a.element.all graphic = true
  charge : a.charge ∈ chargeTexts
  model_lo : -999 ≤ a.model
  model_hi : a.model ≤ 9999

theorem Lim.of_within {a : Atom} (h : WithinPdbLimits a) : Lim a := by
  simp only [WithinPdbLimits, withinPdbLimits, Bool.and_eq_true, decide_eq_true_eq, ParserV2.recordNames,
    ParserV2.maxSerial, ParserV2.maxResSeq, List.contains_eq_mem, List.mem_cons, List.not_mem_nil,
    or_false] at h
  obtain ⟨⟨⟨⟨⟨⟨⟨⟨⟨⟨⟨⟨⟨⟨⟨⟨⟨⟨⟨⟨⟨⟨⟨⟨⟨⟨⟨⟨⟨⟨⟨h0, h1⟩, h2⟩, h3⟩, h4⟩, h5⟩, h6⟩, h7⟩, h8⟩, h9⟩, h10⟩, h11⟩, h12⟩, h13⟩,
    h14⟩, h15⟩, h16⟩, h17⟩, h18⟩, h19⟩, h20⟩, h21⟩, h22⟩, h23⟩, h24⟩, h25⟩, h26⟩, h27⟩, h28⟩, h29⟩, h30⟩, h31⟩ := h
  exact ⟨h0, h1, of_decide_eq_true h2, h3, h4, h5, h6, h7, h8, h9, h10, h11, h12, h13, of_decide_eq_true h14,
    h15, h16, h17, h18, h19, h20, h21, h22, h23, h24, h25, h26, h27, h28, h29, h30, h31⟩

/-! ## 5. the segments of an atom line -/

theorem formatAtom_explicit (a : Atom) : formatAtom a = ljust 80 (
    ljust 6 a.record ++ (rjust 5 (showInt a.serial) ++ ([' '] ++ (atomNameFmt 4 4 a.name ++
    (ljust 1 (a.altLoc.take 1) ++ (rjust 3 a.resName ++ ([' '] ++ (ljust 1 (a.chain.take 1) ++
    (rjust 4 (showInt a.resSeq) ++ (ljust 1 (a.iCode.take 1) ++ ([' ', ' ', ' '] ++
    (fmtFixed 8 3 a.x ++ (fmtFixed 8 3 a.y ++ (fmtFixed 8 3 a.z ++ (fmtFixed 6 2 a.occ ++
    (fmtFixed 6 2 a.b ++ (List.replicate 10 ' ' ++ (rjust 2 a.element ++
    (chargeFmt 2 2 a.charge ++ []))))))))))))))))))) := rfl

theorem formatTer_explicit (a : Atom) : formatTer a = ljust 80 (
    ['T', 'E', 'R', ' ', ' ', ' '] ++ (rjust 5 (showInt (a.serial + 1)) ++ (List.replicate 6 ' ' ++
    (rjust 3 (strip a.resName) ++ ([' '] ++ (ljust 0 a.chain ++ (rjust 4 (showInt a.resSeq) ++
    (ljust 0 a.iCode ++ [])))))))) := rfl

theorem take_of_length_le {s : Str} {n : Nat} (h : s.length ≤ n) : s.take n = s :=
  List.take_of_length_le h

theorem charge_facts : ∀ c ∈ chargeTexts, (chargeFmt 2 2 c).length = 2 ∧ strip (chargeFmt 2 2 c) = c := by
  decide

theorem length_atomNameFmt {s : Str} (h : s.length ≤ 4) : (atomNameFmt 4 4 s).length = 4 := by
  unfold atomNameFmt
  split
  · split
    · rename_i hc; exact length_ljust _ _ (by simp at hc ⊢; omega)
    · exact length_ljust _ _ h
  · exact length_ljust _ _ h

theorem strip_atomNameFmt {s : Str} (h : NoWs s) : strip (atomNameFmt 4 4 s) = s := by
  unfold atomNameFmt
  split
  · split
    · exact strip_blank_cons_ljust _ h
    · exact strip_ljust _ h
  · exact strip_ljust _ h

theorem length_fmtFixed83 {k : Int} (h1 : -999999 ≤ k) (h2 : k ≤ 9999999) : (fmtFixed 8 3 k).length = 8 :=
  length_rjust _ _ (length_fixedBody_le 3 3 k (by decide) (by decide) (by omega) (by omega))

theorem length_fmtFixed62 {k : Int} (h1 : -9999 ≤ k) (h2 : k ≤ 99999) : (fmtFixed 6 2 k).length = 6 :=
  length_rjust _ _ (length_fixedBody_le 2 2 k (by decide) (by decide) (by omega) (by omega))

theorem strip_fmtFixed (w p : Nat) (k : Int) : strip (fmtFixed w p k) = fixedBody p k :=
  strip_rjust _ (fixedBody_noWs p k)


/-- under the limits the line is the plain concatenation of its 19 segments, of total width 80, and every
column slice of the reader is the corresponding segment -/
theorem formatAtom_slices (a : Atom) (h : Lim a) :
    (formatAtom a).length = 80 ∧
    slice (formatAtom a) 0 6 = ljust 6 a.record ∧
    slice (formatAtom a) 6 11 = rjust 5 (showInt a.serial) ∧
    slice (formatAtom a) 12 16 = atomNameFmt 4 4 a.name ∧
    slice (formatAtom a) 16 17 = ljust 1 a.altLoc ∧
    slice (formatAtom a) 17 20 = rjust 3 a.resName ∧
    slice (formatAtom a) 21 22 = ljust 1 a.chain ∧
    slice (formatAtom a) 22 26 = rjust 4 (showInt a.resSeq) ∧
    slice (formatAtom a) 26 27 = ljust 1 a.iCode ∧
    slice (formatAtom a) 30 38 = fmtFixed 8 3 a.x ∧
    slice (formatAtom a) 38 46 = fmtFixed 8 3 a.y ∧
    slice (formatAtom a) 46 54 = fmtFixed 8 3 a.z ∧
    slice (formatAtom a) 54 60 = fmtFixed 6 2 a.occ ∧
    slice (formatAtom a) 60 66 = fmtFixed 6 2 a.b ∧
    slice (formatAtom a) 76 78 = rjust 2 a.element ∧
    slice (formatAtom a) 78 80 = chargeFmt 2 2 a.charge := by
  have h0 : (ljust 6 a.record).length = 6 := by
    rcases h.record with e | e <;> rw [e] <;> rfl
  have h1 : (rjust 5 (showInt a.serial)).length = 5 :=
    length_rjust _ _ (length_showInt_le 4 _ (by decide) (by have := h.serial_hi; omega)
      (by have := h.serial_lo; omega))
  have h2 : [' '].length = 1 := rfl
  have h3 := length_atomNameFmt h.name_hi
  have h4 : (ljust 1 a.altLoc).length = 1 := length_ljust _ _ h.altLoc_hi
  have h5 : (rjust 3 a.resName).length = 3 := length_rjust _ _ h.resName_hi
  have h7 : (ljust 1 a.chain).length = 1 := length_ljust _ _ (Nat.le_of_eq h.chain_len)
  have h8 : (rjust 4 (showInt a.resSeq)).length = 4 :=
    length_rjust _ _ (length_showInt_le 3 _ (by decide) (by have := h.resSeq_hi; omega)
      (by have := h.resSeq_lo; omega))
  have h9 : (ljust 1 a.iCode).length = 1 := length_ljust _ _ h.iCode_hi
  have h10 : [' ', ' ', ' '].length = 3 := rfl
  have h11 := length_fmtFixed83 h.x_lo h.x_hi
  have h12 := length_fmtFixed83 h.y_lo h.y_hi
  have h13 := length_fmtFixed83 h.z_lo h.z_hi
  have h14 := length_fmtFixed62 h.occ_lo h.occ_hi
  have h15 := length_fmtFixed62 h.b_lo h.b_hi
  have h16 : (List.replicate 10 ' ').length = 10 := List.length_replicate
  have h17 : (rjust 2 a.element).length = 2 := length_rjust _ _ h.element_hi
  have h18 := (charge_facts _ h.charge).1
  have key := slices_of_segments _ _ _ _ _ _ _ _ _ _ _ _ _ _ _ _ _ _ _
    h0 h1 h2 h3 h4 h5 h2 h7 h8 h9 h10 h11 h12 h13 h14 h15 h16 h17 h18 _ rfl
  rw [formatAtom_explicit, take_of_length_le h.altLoc_hi, take_of_length_le (Nat.le_of_eq h.chain_len),
    take_of_length_le h.iCode_hi, ljust_of_length_ge _ _ (Nat.le_of_eq key.1.symm)]
  exact key


/-! ## 6. the reader on a written line -/

theorem strip_ljust_record {r : Str} (h : r = ['A', 'T', 'O', 'M'] ∨ r = ['H', 'E', 'T', 'A', 'T', 'M']) :
    strip (ljust 6 r) = r := by
  rcases h with e | e <;> subst e <;> decide

theorem fieldText_formatAtom_record (a : Atom) (h : WithinPdbLimits a) :
    fieldText (formatAtom a) .record = a.record := by
  have l := Lim.of_within h
  show strip (slice (formatAtom a) 0 6) = _
  rw [(formatAtom_slices a l).2.1]
  exact strip_ljust_record l.record

theorem fieldText_formatAtom_serial (a : Atom) (h : WithinPdbLimits a) :
    fieldText (formatAtom a) .serial = showInt a.serial := by
  have l := Lim.of_within h
  show strip (slice (formatAtom a) 6 11) = _
  rw [(formatAtom_slices a l).2.2.1]
  exact strip_rjust _ (showInt_noWs _)

theorem fieldText_formatAtom_name (a : Atom) (h : WithinPdbLimits a) :
    fieldText (formatAtom a) .name = a.name := by
  have l := Lim.of_within h
  show strip (slice (formatAtom a) 12 16) = _
  rw [(formatAtom_slices a l).2.2.2.1]
  exact strip_atomNameFmt (NoWs.of_graphic l.name_g)

theorem fieldText_formatAtom_altLoc (a : Atom) (h : WithinPdbLimits a) :
    fieldText (formatAtom a) .altLoc = a.altLoc := by
  have l := Lim.of_within h
  show strip (slice (formatAtom a) 16 17) = _
  rw [(formatAtom_slices a l).2.2.2.2.1]
  exact strip_ljust _ (NoWs.of_graphic l.altLoc_g)

theorem fieldText_formatAtom_resName (a : Atom) (h : WithinPdbLimits a) :
    fieldText (formatAtom a) .resName = a.resName := by
  have l := Lim.of_within h
  show strip (slice (formatAtom a) 17 20) = _
  rw [(formatAtom_slices a l).2.2.2.2.2.1]
  exact strip_rjust _ (NoWs.of_graphic l.resName_g)

theorem fieldText_formatAtom_chain (a : Atom) (h : WithinPdbLimits a) :
    fieldText (formatAtom a) .chain = a.chain := by
  have l := Lim.of_within h
  show strip (slice (formatAtom a) 21 22) = _
  rw [(formatAtom_slices a l).2.2.2.2.2.2.1]
  exact strip_ljust _ (NoWs.of_graphic l.chain_g)

theorem fieldText_formatAtom_resSeq (a : Atom) (h : WithinPdbLimits a) :
    fieldText (formatAtom a) .resSeq = showInt a.resSeq := by
  have l := Lim.of_within h
  show strip (slice (formatAtom a) 22 26) = _
  rw [(formatAtom_slices a l).2.2.2.2.2.2.2.1]
  exact strip_rjust _ (showInt_noWs _)

theorem fieldText_formatAtom_iCode (a : Atom) (h : WithinPdbLimits a) :
    fieldText (formatAtom a) .iCode = a.iCode := by
  have l := Lim.of_within h
  show strip (slice (formatAtom a) 26 27) = _
  rw [(formatAtom_slices a l).2.2.2.2.2.2.2.2.1]
  exact strip_ljust _ (NoWs.of_graphic l.iCode_g)

theorem fieldText_formatAtom_x (a : Atom) (h : WithinPdbLimits a) :
    fieldText (formatAtom a) .x = fixedBody 3 a.x := by
  have l := Lim.of_within h
  show strip (slice (formatAtom a) 30 38) = _
  rw [(formatAtom_slices a l).2.2.2.2.2.2.2.2.2.1]
  exact strip_fmtFixed _ _ _

theorem fieldText_formatAtom_y (a : Atom) (h : WithinPdbLimits a) :
    fieldText (formatAtom a) .y = fixedBody 3 a.y := by
  have l := Lim.of_within h
  show strip (slice (formatAtom a) 38 46) = _
  rw [(formatAtom_slices a l).2.2.2.2.2.2.2.2.2.2.1]
  exact strip_fmtFixed _ _ _

theorem fieldText_formatAtom_z (a : Atom) (h : WithinPdbLimits a) :
    fieldText (formatAtom a) .z = fixedBody 3 a.z := by
  have l := Lim.of_within h
  show strip (slice (formatAtom a) 46 54) = _
  rw [(formatAtom_slices a l).2.2.2.2.2.2.2.2.2.2.2.1]
  exact strip_fmtFixed _ _ _

theorem fieldText_formatAtom_occ (a : Atom) (h : WithinPdbLimits a) :
    fieldText (formatAtom a) .occ = fixedBody 2 a.occ := by
  have l := Lim.of_within h
  show strip (slice (formatAtom a) 54 60) = _
  rw [(formatAtom_slices a l).2.2.2.2.2.2.2.2.2.2.2.2.1]
  exact strip_fmtFixed _ _ _

theorem fieldText_formatAtom_b (a : Atom) (h : WithinPdbLimits a) :
    fieldText (formatAtom a) .b = fixedBody 2 a.b := by
  have l := Lim.of_within h
  show strip (slice (formatAtom a) 60 66) = _
  rw [(formatAtom_slices a l).2.2.2.2.2.2.2.2.2.2.2.2.2.1]
  exact strip_fmtFixed _ _ _

theorem fieldText_formatAtom_element (a : Atom) (h : WithinPdbLimits a) :
    fieldText (formatAtom a) .element = a.element := by
  have l := Lim.of_within h
  show strip (slice (formatAtom a) 76 78) = _
  rw [(formatAtom_slices a l).2.2.2.2.2.2.2.2.2.2.2.2.2.2.1]
  exact strip_rjust _ (NoWs.of_graphic l.element_g)

theorem fieldText_formatAtom_charge (a : Atom) (h : WithinPdbLimits a) :
    fieldText (formatAtom a) .charge = a.charge := by
  have l := Lim.of_within h
  show strip (slice (formatAtom a) 78 80) = _
  rw [(formatAtom_slices a l).2.2.2.2.2.2.2.2.2.2.2.2.2.2.2]
  exact (charge_facts _ l.charge).2

/-- the text the reader sees in the column of every field of a written line: the text fields as they are,
the numeric fields as `showInt` / `fixedBody` print them (the reader has no `model` column) -/
theorem fieldText_formatAtom (a : Atom) (h : WithinPdbLimits a) :
    fieldText (formatAtom a) .record = a.record ∧
    fieldText (formatAtom a) .serial = showInt a.serial ∧
    fieldText (formatAtom a) .name = a.name ∧
    fieldText (formatAtom a) .altLoc = a.altLoc ∧
    fieldText (formatAtom a) .resName = a.resName ∧
    fieldText (formatAtom a) .chain = a.chain ∧
    fieldText (formatAtom a) .resSeq = showInt a.resSeq ∧
    fieldText (formatAtom a) .iCode = a.iCode ∧
    fieldText (formatAtom a) .x = fixedBody 3 a.x ∧
    fieldText (formatAtom a) .y = fixedBody 3 a.y ∧
    fieldText (formatAtom a) .z = fixedBody 3 a.z ∧
    fieldText (formatAtom a) .occ = fixedBody 2 a.occ ∧
    fieldText (formatAtom a) .b = fixedBody 2 a.b ∧
    fieldText (formatAtom a) .element = a.element ∧
    fieldText (formatAtom a) .charge = a.charge :=
  ⟨fieldText_formatAtom_record a h, fieldText_formatAtom_serial a h, fieldText_formatAtom_name a h,
   fieldText_formatAtom_altLoc a h, fieldText_formatAtom_resName a h, fieldText_formatAtom_chain a h,
   fieldText_formatAtom_resSeq a h, fieldText_formatAtom_iCode a h, fieldText_formatAtom_x a h,
   fieldText_formatAtom_y a h, fieldText_formatAtom_z a h, fieldText_formatAtom_occ a h,
   fieldText_formatAtom_b a h, fieldText_formatAtom_element a h, fieldText_formatAtom_charge a h⟩

/-! ## 7. main statements -/

theorem formatAtom_len80 (a : Atom) (h : WithinPdbLimits a) : (formatAtom a).length = 80 :=
  (formatAtom_slices a (Lim.of_within h)).1

theorem recordType_formatAtom (a : Atom) (h : WithinPdbLimits a) : recordType (formatAtom a) = a.record :=
  fieldText_formatAtom_record a h

theorem recordNames_contains_record (a : Atom) (h : WithinPdbLimits a) :
    ParserV2.recordNames.contains a.record = true := by
  rcases (Lim.of_within h).record with e | e <;> rw [e] <;> decide

theorem parseV2_formatAtom (a : Atom) (h : WithinPdbLimits a) (m : Int) :
    parseAtomV2 m (formatAtom a) = some { a with model := m } := by
  unfold parseAtomV2
  rw [recordType_formatAtom a h, if_pos (recordNames_contains_record a h)]
  simp only [fieldText_formatAtom_serial a h, fieldText_formatAtom_name a h,
   fieldText_formatAtom_altLoc a h, fieldText_formatAtom_resName a h, fieldText_formatAtom_chain a h,
   fieldText_formatAtom_resSeq a h, fieldText_formatAtom_iCode a h, fieldText_formatAtom_x a h,
   fieldText_formatAtom_y a h, fieldText_formatAtom_z a h, fieldText_formatAtom_occ a h,
   fieldText_formatAtom_b a h, fieldText_formatAtom_element a h, fieldText_formatAtom_charge a h,
   parseInt_showInt, parseFixed_fixedBody]

/-- non-vacuity of the hypotheses: a HETATM with altLoc, insertion code, charge `2+`, two-letter element,
negative numbers at the lower limits -/
example : WithinPdbLimits
    ⟨"HETATM".toList, -9999, "MG".toList, "A".toList, "MG".toList, "B".toList, -999, "C".toList,
      -999999, -1, 9999999, -9999, 99999, "MG".toList, "2+".toList, 7⟩ := by decide

/-- an ATOM with a 4-character name starting with a digit, blank optional fields, upper limits -/
example : WithinPdbLimits
    ⟨"ATOM".toList, 99999, "1H5'".toList, [], "G".toList, "A".toList, 9999, [],
      12345, 0, -5, 100, 2550, [], [], 1⟩ := by decide


/-! ### TER and MODEL records -/

theorem slice_all {s : Str} {k a b : Nat} (h : s.length = k) (ha : a = 0) (hb : b = k) : slice s a b = s := by
  have := slice_hit (s := s) [] h ha hb
  rwa [List.append_nil] at this

theorem length_ljust_zero (s : Str) : (ljust 0 s).length = s.length := by simp [ljust]

theorem formatTer_len80 (a : Atom) (h : WithinPdbLimits a) (hs : a.serial + 1 ≤ 99999) :
    (formatTer a).length = 80 := by
  have l := Lim.of_within h
  have h1 : (rjust 5 (showInt (a.serial + 1))).length = 5 :=
    length_rjust _ _ (length_showInt_le 4 _ (by decide) (by omega) (by have := l.serial_lo; omega))
  have h3 : (rjust 3 (strip a.resName)).length = 3 := by
    rw [strip_noWs (NoWs.of_graphic l.resName_g)]; exact length_rjust _ _ l.resName_hi
  have h6 : (rjust 4 (showInt a.resSeq)).length = 4 :=
    length_rjust _ _ (length_showInt_le 3 _ (by decide) (by have := l.resSeq_hi; omega)
      (by have := l.resSeq_lo; omega))
  have h7 := l.iCode_hi
  rw [formatTer_explicit]
  apply length_ljust
  simp only [List.length_append, List.length_cons, List.length_nil, List.length_replicate, h1, h3, h6,
    length_ljust_zero, l.chain_len]
  omega

theorem recordType_formatTer (a : Atom) : recordType (formatTer a) = ['T', 'E', 'R'] := by
  show strip (slice (formatTer a) 0 6) = _
  rw [formatTer_explicit, ljust, List.append_assoc, slice_hit (k := 6) _ rfl rfl rfl]
  decide

theorem recordType_formatModel (m : Int) : recordType (formatModel m) = ['M', 'O', 'D', 'E', 'L'] := by
  show strip (slice (['M', 'O', 'D', 'E', 'L', ' '] ++ ([' ', ' ', ' ', ' '] ++ rjust 4 (showInt m))) 0 6) = _
  rw [slice_hit (k := 6) _ rfl rfl rfl]
  decide

theorem parseModel_formatModel (cur m : Int) (h1 : -999 ≤ m) (h2 : m ≤ 9999) :
    parseModel cur (formatModel m) = m := by
  have hl : (rjust 4 (showInt m)).length = 4 :=
    length_rjust _ _ (length_showInt_le 3 _ (by decide) (by omega) (by omega))
  show (parseInt (strip (slice (ParserV2.modelPrefix ++ rjust 4 (showInt m)) 10 14))).getD cur = m
  rw [slice_skip _ (rfl : ParserV2.modelPrefix.length = 10) (by decide), slice_all hl (by decide) (by decide),
    strip_rjust _ (showInt_noWs _), parseInt_showInt]
  rfl

/-- non-vacuity of `formatTer_len80` -/
example : WithinPdbLimits
    ⟨"ATOM".toList, 99998, "P".toList, [], "G".toList, "A".toList, 9999, "A".toList,
      12345, 0, -5, 100, 2550, "P".toList, [], 1⟩ ∧ ((99998 : Int) + 1 ≤ 99999) := by decide

/-- non-vacuity of `parseModel_formatModel`: both ends of the range -/
example : parseModel 1 (formatModel (-999)) = -999 ∧ parseModel 1 (formatModel 9999) = 9999 := by decide


end RnaVerif.Pdb

import RnaVerif.Lemmas.Pdb
/-!
# Row maps PDB ⇄ mmCIF (`write_cif` on PDB-derived rows, `parse_cif_atoms` typing, `write_pdb` on mmCIF rows)

The maps are logic as far as tokens go: which attribute receives which field, the null markers on
writing and on reading, `to_numeric(errors="coerce")` of the integer column `pdbx_formal_charge`.
(The `mmcif` package's quoting / tokenizer is assumed to be the identity on token tables — checked by
re-reading in the correspondence run.)
-/
namespace RnaVerif.Pdb
open RnaVerif.Gen

/-- token that `parse_cif_atoms` reads as missing -/
def isNullTok (t : Str) : Bool := ParserV2.cifReadNulls.contains t

/-- no text field is literally one of the null markers `?` `.` -/
def noNullTokens (a : Atom) : Bool :=
  !isNullTok a.record && !isNullTok a.name && !isNullTok a.altLoc && !isNullTok a.resName &&
  !isNullTok a.chain && !isNullTok a.iCode && !isNullTok a.element

/-- what a charge text becomes on the way PDB row → mmCIF tokens → typed mmCIF row -/
def cifRoundCharge (fx : Bool) (c : Str) : Str :=
  if c = [] then [] else
    if isNullTok (cifChargeToken fx c) then [] else
      match parseInt (cifChargeToken fx c) with
      | some n => showInt n
      | none => []

theorem isNullTok_cons_of_ne {c : Char} (r : Str) (h1 : c ≠ '?') (h2 : c ≠ '.') : isNullTok (c :: r) = false := by
  have e1 : (c == '?') = false := by simp [h1]
  have e2 : (c == '.') = false := by simp [h2]
  simp [isNullTok, ParserV2.cifReadNulls, List.contains, List.elem, e1, e2]

theorem not_null_of_isDigit {c : Char} (h : c.isDigit = true) : c ≠ '?' ∧ c ≠ '.' := by
  constructor <;> (intro e; subst e; revert h; decide)

theorem isNullTok_showNat (n : Nat) : isNullTok (showNat n) = false := by
  obtain ⟨c, r, e, hd⟩ := showNat_eq_cons n
  rw [e]
  exact isNullTok_cons_of_ne r (not_null_of_isDigit hd).1 (not_null_of_isDigit hd).2

theorem isNullTok_showInt (i : Int) : isNullTok (showInt i) = false := by
  unfold showInt
  split
  · exact isNullTok_cons_of_ne _ (by decide) (by decide)
  · exact isNullTok_showNat _

theorem rjust_zero (s : Str) : rjust 0 s = s := by simp [rjust]

theorem isNullTok_fixed (p : Nat) (k : Int) : isNullTok (fmtFixed 0 p k) = false := by
  unfold fmtFixed
  rw [rjust_zero, fixedBody_eq]
  obtain ⟨c, r, e, hd⟩ := fixedAbsBody_eq_cons p k.natAbs
  split
  · exact isNullTok_cons_of_ne _ (by decide) (by decide)
  · rw [List.nil_append, e]
    exact isNullTok_cons_of_ne r (not_null_of_isDigit hd).1 (not_null_of_isDigit hd).2

theorem parseFixed_fmtFixed_zero (p : Nat) (k : Int) : parseFixed p (fmtFixed 0 p k) = some k := by
  unfold fmtFixed
  rw [rjust_zero]
  exact parseFixed_fixedBody p k

/-! ### the value `write_pdb` finds for every field in a row written by `write_cif` -/
section get
variable (fx : Bool) (a : Atom)

private abbrev rd (t : Str) : Option (Option Str) := some (if isNullTok t then none else some t)
private abbrev opt (m t : Str) : Str := if t = [] then m else t

theorem get_record : cifGet ParserV2.cifAttributes (toCifRow fx a) .record = rd a.record := rfl
theorem get_serial : cifGet ParserV2.cifAttributes (toCifRow fx a) .serial = rd (showInt a.serial) := rfl
theorem get_name : cifGet ParserV2.cifAttributes (toCifRow fx a) .name = rd a.name := rfl
theorem get_altLoc : cifGet ParserV2.cifAttributes (toCifRow fx a) .altLoc = rd (opt ['.'] a.altLoc) := rfl
theorem get_resName : cifGet ParserV2.cifAttributes (toCifRow fx a) .resName = rd a.resName := rfl
theorem get_chain : cifGet ParserV2.cifAttributes (toCifRow fx a) .chain = rd a.chain := rfl
theorem get_resSeq : cifGet ParserV2.cifAttributes (toCifRow fx a) .resSeq = rd (showInt a.resSeq) := rfl
theorem get_iCode : cifGet ParserV2.cifAttributes (toCifRow fx a) .iCode = rd (opt ['.'] a.iCode) := rfl
theorem get_x : cifGet ParserV2.cifAttributes (toCifRow fx a) .x = rd (fmtFixed 0 3 a.x) := rfl
theorem get_y : cifGet ParserV2.cifAttributes (toCifRow fx a) .y = rd (fmtFixed 0 3 a.y) := rfl
theorem get_z : cifGet ParserV2.cifAttributes (toCifRow fx a) .z = rd (fmtFixed 0 3 a.z) := rfl
theorem get_occ : cifGet ParserV2.cifAttributes (toCifRow fx a) .occ = rd (fmtFixed 0 2 a.occ) := rfl
theorem get_b : cifGet ParserV2.cifAttributes (toCifRow fx a) .b = rd (fmtFixed 0 2 a.b) := rfl
theorem get_element : cifGet ParserV2.cifAttributes (toCifRow fx a) .element = rd (opt ['?'] a.element) := rfl
theorem get_charge : cifGet ParserV2.cifAttributes (toCifRow fx a) .charge =
    rd (if a.charge = [] then ['.'] else cifChargeToken fx a.charge) := rfl
theorem get_model : cifGet ParserV2.cifAttributes (toCifRow fx a) .model = rd (showInt a.model) := rfl

end get

theorem optText_of_not_null (attrs : List String) (row : List Str) (f : Field) (t : Str)
    (h : cifGet attrs row f = some (if isNullTok t then none else some t)) (hn : isNullTok t = false) :
    cifOptText attrs row f = t := by
  simp [cifOptText, h, hn]

theorem reqText_of_not_null (attrs : List String) (row : List Str) (f : Field) (t : Str)
    (h : cifGet attrs row f = some (if isNullTok t then none else some t)) (hn : isNullTok t = false) :
    cifReqText attrs row f = t := by
  simp [cifReqText, h, hn]

/-- optional text written with a null marker `m` and read back -/
theorem optText_marker (attrs : List String) (row : List Str) (f : Field) (m t : Str)
    (h : cifGet attrs row f = some (if isNullTok (if t = [] then m else t) then none else some (if t = [] then m else t)))
    (hm : isNullTok m = true) (hn : isNullTok t = false) :
    cifOptText attrs row f = t := by
  by_cases e : t = []
  · simp [cifOptText, h, e, hm]
  · simp [cifOptText, h, e, hn]

theorem isNullTok_dot : isNullTok ['.'] = true := by decide
theorem isNullTok_qm : isNullTok ['?'] = true := by decide
theorem intCol_charge : ParserV2.cifIntCols.contains "pdbx_formal_charge" = true := by decide

theorem chargeText_toCifRow (fx : Bool) (a : Atom) :
    cifChargeText ParserV2.cifAttributes (toCifRow fx a) = cifRoundCharge fx a.charge := by
  unfold cifChargeText cifRoundCharge
  rw [get_charge, intCol_charge]
  by_cases e : a.charge = []
  · simp [e, isNullTok_dot]
  · by_cases n : isNullTok (cifChargeToken fx a.charge) = true
    · simp [e, n]
    · simp only [Bool.not_eq_true] at n
      simp [e, n, rd]
      cases parseInt (cifChargeToken fx a.charge) <;> rfl

/-- PDB row → tokens of `write_cif` → the atom `write_pdb` sees in the re-read mmCIF table: every field is
kept, except that the charge goes through the integer column -/
theorem ofCifRow_toCifRow (fx : Bool) (a : Atom) (h : noNullTokens a = true) :
    ofCifRow ParserV2.cifAttributes (toCifRow fx a) = some { a with charge := cifRoundCharge fx a.charge } := by
  simp only [noNullTokens, Bool.and_eq_true, Bool.not_eq_true'] at h
  obtain ⟨⟨⟨⟨⟨⟨h1, h2⟩, h3⟩, h4⟩, h5⟩, h6⟩, h7⟩ := h
  unfold ofCifRow
  rw [optText_of_not_null _ _ _ _ (get_serial fx a) (isNullTok_showInt _),
      optText_of_not_null _ _ _ _ (get_resSeq fx a) (isNullTok_showInt _),
      optText_of_not_null _ _ _ _ (get_model fx a) (isNullTok_showInt _),
      optText_of_not_null _ _ _ _ (get_x fx a) (isNullTok_fixed _ _),
      optText_of_not_null _ _ _ _ (get_y fx a) (isNullTok_fixed _ _),
      optText_of_not_null _ _ _ _ (get_z fx a) (isNullTok_fixed _ _),
      optText_of_not_null _ _ _ _ (get_occ fx a) (isNullTok_fixed _ _),
      optText_of_not_null _ _ _ _ (get_b fx a) (isNullTok_fixed _ _),
      reqText_of_not_null _ _ _ _ (get_record fx a) h1,
      reqText_of_not_null _ _ _ _ (get_name fx a) h2,
      reqText_of_not_null _ _ _ _ (get_resName fx a) h4,
      reqText_of_not_null _ _ _ _ (get_chain fx a) h5,
      optText_marker _ _ _ _ _ (get_altLoc fx a) isNullTok_dot h3,
      optText_marker _ _ _ _ _ (get_iCode fx a) isNullTok_dot h6,
      optText_marker _ _ _ _ _ (get_element fx a) isNullTok_qm h7,
      chargeText_toCifRow]
  simp only [parseInt_showInt, parseFixed_fmtFixed_zero]

/-! ### charges -/

/-- integer charge texts of a mmCIF-derived table that fit the PDB charge column (`0` is written as blank and
therefore comes back as absent: neutral and absent are identified by the property check) -/
def cifChargeTexts : List Str :=
  [] :: (['1', '2', '3', '4', '5', '6', '7', '8', '9'].flatMap (fun d => [[d], ['-', d]]))

/-- PDB text of an integer charge text -/
def pdbChargeOf : Str → Str
  | [d] => [d, '+']
  | ['-', d] => [d, '-']
  | _ => []

theorem charge_fixed_facts : ∀ c ∈ chargeTexts,
    chargeFmt 2 2 (cifRoundCharge true c) = chargeFmt 2 2 c ∧ cifRoundCharge true c ∈ cifChargeTexts ∧
    pdbChargeOf (cifRoundCharge true c) = c := by decide

theorem charge_code_facts : ∀ c ∈ chargeTexts, cifRoundCharge false c = [] := by decide

theorem cifCharge_facts : ∀ c ∈ cifChargeTexts,
    chargeFmt 2 2 (pdbChargeOf c) = chargeFmt 2 2 c ∧ pdbChargeOf c ∈ chargeTexts ∧
    cifRoundCharge true (pdbChargeOf c) = c := by decide

/-- the written line depends on the charge only through its rendering -/
theorem formatAtom_congr_charge (a : Atom) (c : Str) (h : chargeFmt 2 2 c = chargeFmt 2 2 a.charge) :
    formatAtom { a with charge := c } = formatAtom a := by
  rw [formatAtom_explicit, formatAtom_explicit]
  simp only [h]

theorem mem_chargeTexts_of_within {a : Atom} (h : WithinPdbLimits a) : a.charge ∈ chargeTexts := by
  exact (Lim.of_within h).charge

theorem noNullTokens_charge (a : Atom) (c : Str) : noNullTokens { a with charge := c } = noNullTokens a := rfl

/-! ### PDB → mmCIF → PDB -/

/-- with the corrected charge token: the row comes back -/
theorem pdb_cif_pdb_fixed (a : Atom) (h : WithinPdbLimits a) (hn : noNullTokens a = true) :
    ∃ c, ofCifRow ParserV2.cifAttributes (toCifRow true a) = some c ∧
         parseAtomV2 a.model (formatAtom c) = some a := by
  refine ⟨_, ofCifRow_toCifRow true a hn, ?_⟩
  rw [formatAtom_congr_charge a _ (charge_fixed_facts _ (mem_chargeTexts_of_within h)).1]
  exact parseV2_formatAtom a h a.model

/-- the code as it is: the row comes back when it carries no charge -/
theorem pdb_cif_pdb_partial (a : Atom) (h : WithinPdbLimits a) (hn : noNullTokens a = true)
    (hc : a.charge = []) :
    ∃ c, ofCifRow ParserV2.cifAttributes (toCifRow false a) = some c ∧
         parseAtomV2 a.model (formatAtom c) = some a := by
  refine ⟨_, ofCifRow_toCifRow false a hn, ?_⟩
  have e : cifRoundCharge false a.charge = a.charge := by rw [hc]; rfl
  rw [formatAtom_congr_charge a _ (by rw [e])]
  exact parseV2_formatAtom a h a.model

/-- a magnesium ion with charge `2+` -/
def chargedAtom : Atom :=
  { record := ['H', 'E', 'T', 'A', 'T', 'M'], serial := 1, name := ['M', 'G'], altLoc := [],
    resName := ['M', 'G'], chain := ['A'], resSeq := 1, iCode := [], x := 1000, y := -2000, z := 3,
    occ := 100, b := 2050, element := ['M', 'G'], charge := ['2', '+'], model := 1 }

/-- the full statement for the code as it is … -/
def pdb_cif_pdb_full : Prop :=
  ∀ a, WithinPdbLimits a → noNullTokens a = true →
    ∃ c, ofCifRow ParserV2.cifAttributes (toCifRow false a) = some c ∧
         parseAtomV2 a.model (formatAtom c) = some a

/-- … is false: the charge `2+` is written as the token `2+`, which the integer column coerces to missing -/
theorem not_pdb_cif_pdb_full : ¬ pdb_cif_pdb_full := by
  intro hf
  obtain ⟨c, h1, h2⟩ := hf chargedAtom (by decide) (by decide)
  rw [ofCifRow_toCifRow false chargedAtom (by decide)] at h1
  cases h1
  revert h2
  decide

/-! ### mmCIF → PDB → mmCIF -/

/-- a mmCIF-derived row whose values fit the PDB columns: integer charge −9…9 without 0, everything else as in
`withinPdbLimits` -/
def withinPdbLimitsCif (c : Atom) : Bool :=
  withinPdbLimits { c with charge := pdbChargeOf c.charge } && cifChargeTexts.contains c.charge

theorem mem_cifChargeTexts {c : Atom} (h : withinPdbLimitsCif c = true) : c.charge ∈ cifChargeTexts := by
  simp only [withinPdbLimitsCif, Bool.and_eq_true] at h
  simpa using h.2

/-- with the corrected charge token: mmCIF row → PDB line → PDB row → mmCIF tokens → the same mmCIF row -/
theorem cif_pdb_cif_fixed (c : Atom) (h : withinPdbLimitsCif c = true) (hn : noNullTokens c = true) :
    ∃ p, parseAtomV2 c.model (formatAtom c) = some p ∧
         ofCifRow ParserV2.cifAttributes (toCifRow true p) = some c := by
  have hm := mem_cifChargeTexts h
  have hw : WithinPdbLimits { c with charge := pdbChargeOf c.charge } := by
    simp only [withinPdbLimitsCif, Bool.and_eq_true] at h
    exact h.1
  obtain ⟨f1, _, f3⟩ := cifCharge_facts _ hm
  refine ⟨{ c with charge := pdbChargeOf c.charge }, ?_, ?_⟩
  · have := formatAtom_congr_charge c (pdbChargeOf c.charge) f1
    rw [← this]
    exact parseV2_formatAtom _ hw c.model
  · rw [ofCifRow_toCifRow true _ (by rw [noNullTokens_charge]; exact hn)]
    simp only [f3]

/-- the code as it is: holds for rows without a charge -/
theorem cif_pdb_cif_partial (c : Atom) (h : withinPdbLimitsCif c = true) (hn : noNullTokens c = true)
    (hc : c.charge = []) :
    ∃ p, parseAtomV2 c.model (formatAtom c) = some p ∧
         ofCifRow ParserV2.cifAttributes (toCifRow false p) = some c := by
  have hw : WithinPdbLimits c := by
    simp only [withinPdbLimitsCif, Bool.and_eq_true] at h
    have := h.1
    rw [hc] at this
    have e : ({ c with charge := pdbChargeOf [] } : Atom) = c := by
      cases c; simp_all [pdbChargeOf]
    rw [e] at this
    exact this
  refine ⟨c, parseV2_formatAtom c hw c.model, ?_⟩
  rw [ofCifRow_toCifRow false c hn, hc]
  have : cifRoundCharge false [] = [] := rfl
  rw [this]
  cases c; simp_all

/-- a mmCIF-derived row with formal charge 2 -/
def chargedCifAtom : Atom := { chargedAtom with charge := ['2'] }

def cif_pdb_cif_full : Prop :=
  ∀ c, withinPdbLimitsCif c = true → noNullTokens c = true →
    ∃ p, parseAtomV2 c.model (formatAtom c) = some p ∧
         ofCifRow ParserV2.cifAttributes (toCifRow false p) = some c

theorem not_cif_pdb_cif_full : ¬ cif_pdb_cif_full := by
  intro hf
  obtain ⟨p, h1, h2⟩ := hf chargedCifAtom (by decide) (by decide)
  have e : parseAtomV2 chargedCifAtom.model (formatAtom chargedCifAtom) = some chargedAtom := by decide
  rw [e] at h1
  cases h1
  rw [ofCifRow_toCifRow false chargedAtom (by decide)] at h2
  revert h2
  decide

end RnaVerif.Pdb

import RnaVerif.Lemmas.Pdb
/-!
# M6 — document-level lemmas about the PDB writer model (`writeAux`) and the reader (`parsePdbAux`)

Core only.  After any row the tracking state of `write_pdb` is determined by that row (`stOf`), so the
document is a function of consecutive pairs of rows (`between`, `emitFrom`, `writeAux_eq_emit`).  From this:
bracketing of the corrected writer, bracketing of the code as it is for single-model tables (and a
two-model counterexample), the atom records are exactly the rows, and read-back through `parsePdb`.
-/
namespace RnaVerif.Pdb
open RnaVerif.Gen

/-! ## Pairwise characterisation of the writer -/

/-- the tracking variables after row `p` -/
def stOf (p : Atom) : WState :=
  { lastModel := some p.model, lastChain := some p.chain, last := some p }

/-- what is written between consecutive rows `p`, `a` -/
def between (fixed : Bool) (p a : Atom) : List Line :=
  if a.model ≠ p.model then (if fixed then [.ter p] else []) ++ [.endmdl, .model a.model]
  else if a.chain ≠ p.chain then [.ter p] else []

/-- everything written after the atom line of row `p` -/
def emitFrom (fixed : Bool) : Atom → List Atom → List Line
  | p, [] => [.ter p, .endmdl, .fin]
  | p, a :: rest => between fixed p a ++ .atom a :: emitFrom fixed a rest

theorem stepRow_init (fixed : Bool) (a : Atom) :
    stepRow fixed {} a = ([.model a.model, .atom a], stOf a) := by
  simp [stepRow, stOf]

theorem stepRow_stOf (fixed : Bool) (p a : Atom) :
    stepRow fixed (stOf p) a = (between fixed p a ++ [.atom a], stOf a) := by
  by_cases hm : a.model = p.model
  · by_cases hc : a.chain = p.chain
    · simp [stepRow, stOf, between, hm, hc]
    · simp [stepRow, stOf, between, hm, hc]
  · have hm' : ¬ p.model = a.model := fun h => hm h.symm
    cases fixed <;> simp [stepRow, stOf, between, hm, hm', terOf]

theorem closing_stOf (p : Atom) : closing (stOf p) = [.ter p, .endmdl, .fin] := by
  simp [closing, stOf, terOf]

theorem writeAux_stOf (fixed : Bool) (p : Atom) (rest : List Atom) :
    writeAux fixed (stOf p) rest = emitFrom fixed p rest := by
  induction rest generalizing p with
  | nil => simp [writeAux, emitFrom, closing_stOf]
  | cons a rest ih => simp [writeAux, emitFrom, stepRow_stOf, ih]

theorem writeAux_eq_emit (fixed : Bool) (a : Atom) (rest : List Atom) :
    writeAux fixed {} (a :: rest) = .model a.model :: .atom a :: emitFrom fixed a rest := by
  simp [writeAux, stepRow_init, writeAux_stOf]

theorem writePdbLines_cons (a : Atom) (rest : List Atom) :
    writePdbLinesOld (a :: rest) = .model a.model :: .atom a :: emitFrom false a rest := by
  simp [writePdbLinesOld, writeAux_eq_emit]

theorem writePdbLinesFixed_cons (a : Atom) (rest : List Atom) :
    writePdbLinesFixed (a :: rest) = .model a.model :: .atom a :: emitFrom true a rest := by
  simp [writePdbLinesFixed, writeAux_eq_emit]

theorem writePdbLines_nil : writePdbLinesOld [] = [.fin] := rfl
theorem writePdbLinesFixed_nil : writePdbLinesFixed [] = [.fin] := rfl

/-! ## Bracketing -/

theorem docRun_append (s : DocState) (ks ls : List Kind) :
    docRun s (ks ++ ls) = match docRun s ks with
      | some s' => docRun s' ls
      | none => none := by
  induction ks generalizing s with
  | nil => simp [docRun]
  | cons k ks ih =>
    simp only [List.cons_append, docRun]
    cases docStep s k with
    | none => rfl
    | some s' => exact ih s'

/-- the corrected writer: from inside the chain of row `p` the rest of the document is accepted -/
theorem docRun_emitFrom_fixed (p : Atom) (rest : List Atom) :
    docRun (.inChain p.model p.chain) ((emitFrom true p rest).map Line.kind) = some .done := by
  induction rest generalizing p with
  | nil => simp [emitFrom, Line.kind, docRun, docStep]
  | cons a rest ih =>
    by_cases hm : a.model = p.model
    · by_cases hc : a.chain = p.chain
      · simp [emitFrom, between, hm, hc, Line.kind, docRun, docStep]
        rw [← hm, ← hc]; exact ih a
      · simp [emitFrom, between, hm, hc, Line.kind, docRun, docStep]
        rw [← hm]; exact ih a
    · simp [emitFrom, between, hm, Line.kind, docRun, docStep]
      exact ih a

/-- the code as it is: the same while the model number does not change -/
theorem docRun_emitFrom_sameModel (p : Atom) (rest : List Atom) (h : ∀ a ∈ rest, a.model = p.model) :
    docRun (.inChain p.model p.chain) ((emitFrom false p rest).map Line.kind) = some .done := by
  induction rest generalizing p with
  | nil => simp [emitFrom, Line.kind, docRun, docStep]
  | cons a rest ih =>
    have hm : a.model = p.model := h a (by simp)
    have hrest : ∀ b ∈ rest, b.model = a.model := fun b hb => by
      rw [hm]; exact h b (by simp [hb])
    by_cases hc : a.chain = p.chain
    · simp [emitFrom, between, hm, hc, Line.kind, docRun, docStep]
      rw [← hm, ← hc]; exact ih a hrest
    · simp [emitFrom, between, hm, hc, Line.kind, docRun, docStep]
      rw [← hm]; exact ih a hrest

/-- the corrected writer: every document is well bracketed -/
theorem writePdbFixed_wellBracketed (rows : List Atom) :
    wellBracketed ((writePdbLinesFixed rows).map Line.kind) = true := by
  cases rows with
  | nil => decide
  | cons a rest =>
    simp [writePdbLinesFixed_cons, wellBracketed, Line.kind, docRun, docStep, docRun_emitFrom_fixed]

/-- the code as it is: well bracketed when all rows carry the same model number -/
theorem writePdb_wellBracketed_partial (rows : List Atom)
    (h : ∀ a ∈ rows, ∀ b ∈ rows, a.model = b.model) :
    wellBracketed ((writePdbLinesOld rows).map Line.kind) = true := by
  cases rows with
  | nil => decide
  | cons a rest =>
    have hrest : ∀ b ∈ rest, b.model = a.model := fun b hb => h b (by simp [hb]) a (by simp)
    simp [writePdbLines_cons, wellBracketed, Line.kind, docRun, docStep,
      docRun_emitFrom_sameModel a rest hrest]

/-- a two-chain, single-model table -/
def twoChains : List Atom :=
  [ { record := "ATOM".toList, serial := 1, name := "P".toList, altLoc := [], resName := "G".toList,
      chain := "A".toList, resSeq := 1, iCode := [], x := 1000, y := -2500, z := 3125, occ := 100, b := 2050,
      element := "P".toList, charge := [], model := 1 },
    { record := "ATOM".toList, serial := 2, name := "C4'".toList, altLoc := [], resName := "C".toList,
      chain := "B".toList, resSeq := 7, iCode := [], x := 0, y := 12, z := -7, occ := 50, b := 0,
      element := "C".toList, charge := [], model := 1 } ]

/-- non-vacuity of `writePdb_wellBracketed_partial`: two rows, two chains, one model -/
example : (∀ a ∈ twoChains, ∀ b ∈ twoChains, a.model = b.model) ∧ twoChains.length = 2 ∧
    (twoChains.map (·.chain)).eraseDups.length = 2 := by decide

/-- two rows that differ only in `model` -/
def twoModels : List Atom :=
  [ { record := "ATOM".toList, serial := 1, name := "P".toList, altLoc := [], resName := "G".toList,
      chain := "A".toList, resSeq := 1, iCode := [], x := 1000, y := -2500, z := 3125, occ := 100, b := 2050,
      element := "P".toList, charge := [], model := 1 },
    { record := "ATOM".toList, serial := 1, name := "P".toList, altLoc := [], resName := "G".toList,
      chain := "A".toList, resSeq := 1, iCode := [], x := 1000, y := -2500, z := 3125, occ := 100, b := 2050,
      element := "P".toList, charge := [], model := 2 } ]

/-- …and not in general: the first model of `twoModels` is closed by ENDMDL without a TER -/
theorem writePdb_not_wellBracketed :
    wellBracketed ((writePdbLinesOld twoModels).map Line.kind) = false := by decide

/-- the full-strength statement that is false of the present code -/
def writePdb_wellBracketed_full : Prop :=
  ∀ rows : List Atom, wellBracketed ((writePdbLinesOld rows).map Line.kind) = true

theorem not_writePdb_wellBracketed_full : ¬ writePdb_wellBracketed_full := fun h => by
  have := h twoModels
  rw [writePdb_not_wellBracketed] at this
  exact Bool.noConfusion this

/-! ## The atom records are the rows -/

/-- the atom carried by an ATOM/HETATM line -/
def Line.atom? : Line → Option Atom
  | .atom a => some a
  | _ => none

@[simp] theorem Line.atom?_atom (a : Atom) : Line.atom? (.atom a) = some a := rfl
@[simp] theorem Line.atom?_model (m : Int) : Line.atom? (.model m) = none := rfl
@[simp] theorem Line.atom?_ter (p : Atom) : Line.atom? (.ter p) = none := rfl
@[simp] theorem Line.atom?_endmdl : Line.atom? .endmdl = none := rfl
@[simp] theorem Line.atom?_fin : Line.atom? .fin = none := rfl

theorem atoms_between (fixed : Bool) (p a : Atom) :
    (between fixed p a).filterMap Line.atom? = [] := by
  unfold between
  cases fixed <;> split <;> (try split) <;> simp [Line.atom?]

theorem atoms_emitFrom (fixed : Bool) (p : Atom) (rest : List Atom) :
    (emitFrom fixed p rest).filterMap Line.atom? = rest := by
  induction rest generalizing p with
  | nil => simp [emitFrom, Line.atom?]
  | cons a rest ih => simp [emitFrom, List.filterMap_append, atoms_between, Line.atom?, ih]

theorem atoms_writeAux (fixed : Bool) (rows : List Atom) (h : rows ≠ []) :
    (writeAux fixed {} rows).filterMap Line.atom? = rows := by
  cases rows with
  | nil => exact absurd rfl h
  | cons a rest =>
    simp only [writeAux_eq_emit, List.filterMap_cons, Line.atom?_model, Line.atom?_atom, atoms_emitFrom]

/-- the atom records of the document are exactly the rows, in order (both writers) -/
theorem writePdbLines_atoms (fixed : Bool) (rows : List Atom) :
    ((if fixed then writePdbLinesFixed rows else writePdbLinesOld rows).filterMap
        (fun l => match l with | .atom a => some a | _ => none)) = rows := by
  have hfun : (fun l : Line => match l with | .atom a => some a | _ => none) = Line.atom? := by
    funext l; cases l <;> rfl
  rw [hfun]
  cases rows with
  | nil => cases fixed <;> simp [writePdbLines_nil, writePdbLinesFixed_nil, Line.atom?]
  | cons a rest =>
    cases fixed <;>
      simp [writePdbLines_cons, writePdbLinesFixed_cons, List.filterMap_cons, atoms_emitFrom]

/-! ## Read-back -/

theorem recordType_endmdl : recordType "ENDMDL".toList = ['E', 'N', 'D', 'M', 'D', 'L'] := by decide
theorem recordType_end : recordType "END".toList = ['E', 'N', 'D'] := by decide

theorem parsePdbAux_nil (cur : Int) : parsePdbAux cur [] = [] := rfl

theorem render_endmdl : Line.render .endmdl = ['E', 'N', 'D', 'M', 'D', 'L'] := rfl
theorem render_fin : Line.render .fin = ['E', 'N', 'D'] := rfl

theorem render_ter (p : Atom) : Line.render (.ter p) = formatTer p := rfl
theorem render_atom (a : Atom) : Line.render (.atom a) = formatAtom a := rfl
theorem render_model (m : Int) : Line.render (.model m) = formatModel m := rfl

theorem parsePdbAux_endmdl (cur : Int) (rest : List Str) :
    parsePdbAux cur (Line.render .endmdl :: rest) = parsePdbAux cur rest := by
  rw [render_endmdl]
  have h1 : isModelRecord ['E', 'N', 'D', 'M', 'D', 'L'] = false := by decide
  have h2 : ParserV2.recordNames.contains (recordType ['E', 'N', 'D', 'M', 'D', 'L']) = false := by decide
  rw [parsePdbAux, if_neg (by rw [h1]; decide), if_neg (by rw [h2]; decide)]

theorem parsePdbAux_end (cur : Int) (rest : List Str) :
    parsePdbAux cur (Line.render .fin :: rest) = parsePdbAux cur rest := by
  rw [render_fin]
  have h1 : isModelRecord ['E', 'N', 'D'] = false := by decide
  have h2 : ParserV2.recordNames.contains (recordType ['E', 'N', 'D']) = false := by decide
  rw [parsePdbAux, if_neg (by rw [h1]; decide), if_neg (by rw [h2]; decide)]

theorem parsePdbAux_ter (cur : Int) (p : Atom) (rest : List Str) :
    parsePdbAux cur (formatTer p :: rest) = parsePdbAux cur rest := by
  have h1 : isModelRecord (formatTer p) = false := by
    rw [isModelRecord, recordType_formatTer]; decide
  have h2 : ParserV2.recordNames.contains (recordType (formatTer p)) = false := by
    rw [recordType_formatTer]; decide
  rw [parsePdbAux, if_neg (by rw [h1]; decide), if_neg (by rw [h2]; decide)]

theorem parsePdbAux_model (cur m : Int) (h1 : -999 ≤ m) (h2 : m ≤ 9999) (rest : List Str) :
    parsePdbAux cur (formatModel m :: rest) = parsePdbAux m rest := by
  have h : isModelRecord (formatModel m) = true := by
    rw [isModelRecord, recordType_formatModel]; decide
  rw [parsePdbAux, if_pos h, parseModel_formatModel cur m h1 h2]

theorem limits_record (a : Atom) (h : WithinPdbLimits a) :
    ParserV2.recordNames.contains a.record = true := by
  simp [WithinPdbLimits, withinPdbLimits] at h
  simp [h]

theorem limits_model (a : Atom) (h : WithinPdbLimits a) : -999 ≤ a.model ∧ a.model ≤ 9999 := by
  simp [WithinPdbLimits, withinPdbLimits] at h
  omega

theorem parsePdbAux_atom (a : Atom) (h : WithinPdbLimits a) (rest : List Str) :
    parsePdbAux a.model (formatAtom a :: rest) = some a :: parsePdbAux a.model rest := by
  have hrec := limits_record a h
  have h1 : isModelRecord (formatAtom a) = false := by
    rw [isModelRecord, recordType_formatAtom a h]
    have : ParserV2.recordNames.contains a.record = true := hrec
    simp [ParserV2.recordNames] at this
    rcases this with e | e <;> rw [e] <;> decide
  have h2 : ParserV2.recordNames.contains (recordType (formatAtom a)) = true := by
    rw [recordType_formatAtom a h]; exact hrec
  rw [parsePdbAux, if_neg (by rw [h1]; decide), if_pos h2, parseV2_formatAtom a h a.model]

/-- invariant: the reader's current model is the model of the previous row -/
theorem parsePdbAux_emitFrom (fixed : Bool) (p : Atom) (rest : List Atom)
    (h : ∀ a ∈ rest, WithinPdbLimits a) :
    parsePdbAux p.model ((emitFrom fixed p rest).map Line.render) = rest.map some := by
  induction rest generalizing p with
  | nil =>
    simp only [emitFrom, List.map_cons, List.map_nil, render_ter, parsePdbAux_ter, parsePdbAux_endmdl,
      parsePdbAux_end, parsePdbAux_nil]
  | cons a rest ih =>
    have ha : WithinPdbLimits a := h a (by simp)
    have hrest : ∀ b ∈ rest, WithinPdbLimits b := fun b hb => h b (by simp [hb])
    have hm := limits_model a ha
    have key : ∀ tail : List Str,
        parsePdbAux p.model ((between fixed p a).map Line.render ++ tail) = parsePdbAux a.model tail := by
      intro tail
      by_cases hmod : a.model = p.model
      · by_cases hc : a.chain = p.chain
        · simp [between, hmod, hc]
        · simp [between, hmod, hc, render_ter, parsePdbAux_ter]
      · cases fixed <;>
          simp [between, hmod, render_ter, render_model, parsePdbAux_ter, parsePdbAux_endmdl,
            parsePdbAux_model _ a.model hm.1 hm.2]
    simp only [emitFrom, List.map_append, List.map_cons, render_atom, key]
    rw [parsePdbAux_atom a ha, ih a hrest]

theorem parsePdb_writeAux (fixed : Bool) (rows : List Atom) (hne : rows ≠ [])
    (h : ∀ a ∈ rows, WithinPdbLimits a) :
    parsePdb ((writeAux fixed {} rows).map Line.render) = rows.map some := by
  cases rows with
  | nil => exact absurd rfl hne
  | cons a rest =>
    have ha : WithinPdbLimits a := h a (by simp)
    have hrest : ∀ b ∈ rest, WithinPdbLimits b := fun b hb => h b (by simp [hb])
    have hm := limits_model a ha
    simp only [writeAux_eq_emit, parsePdb, List.map_cons, render_model, render_atom]
    rw [parsePdbAux_model 1 a.model hm.1 hm.2, parsePdbAux_atom a ha,
      parsePdbAux_emitFrom fixed a rest hrest]

/-- the code as it is: reading back what `write_pdb` wrote gives the rows -/
theorem pdb_pdb_roundtrip (rows : List Atom) (h : ∀ a ∈ rows, WithinPdbLimits a) :
    parsePdb (writePdbOld rows) = rows.map some := by
  cases rows with
  | nil => simp only [writePdbOld, writePdbLines_nil, List.map_cons, List.map_nil, parsePdb, parsePdbAux_end, parsePdbAux_nil]
  | cons a rest =>
    have := parsePdb_writeAux false (a :: rest) (by simp) h
    simpa [writePdbOld, writePdbLinesOld] using this

/-- non-vacuity: rows within the limits, in two models and two chains -/
example : ∀ a ∈ twoChains ++ twoModels, WithinPdbLimits a := by decide

/-- the corrected writer: the same -/
theorem pdb_pdb_roundtrip_fixed (rows : List Atom) (h : ∀ a ∈ rows, WithinPdbLimits a) :
    parsePdb (writePdbFixed rows) = rows.map some := by
  cases rows with
  | nil =>
    simp only [writePdbFixed, writePdbLinesFixed_nil, List.map_cons, List.map_nil, parsePdb, parsePdbAux_end,
      parsePdbAux_nil]
  | cons a rest =>
    have := parsePdb_writeAux true (a :: rest) (by simp) h
    simpa [writePdbFixed, writePdbLinesFixed] using this

/-- non-vacuity -/
example : ∀ a ∈ twoModels ++ twoChains, WithinPdbLimits a := by decide

/-! ## the writer as it is in the source now (`writePdbLines = writePdbLinesWith Gen.ParserV2.terBeforeEndmdl`) -/

/-- whichever way the flag is read off the source: all documents are well bracketed iff the TER is written -/
theorem writePdbLinesWith_wellBracketed_iff (fixed : Bool) :
    (∀ rows : List Atom, wellBracketed ((writePdbLinesWith fixed rows).map Line.kind) = true) ↔ fixed = true := by
  cases fixed
  · constructor
    · intro h
      have := h twoModels
      rw [show writePdbLinesWith false twoModels = writePdbLinesOld twoModels from rfl,
        writePdb_not_wellBracketed] at this
      exact this
    · intro h; cases h
  · constructor
    · intro _; rfl
    · intro _ rows
      exact writePdbFixed_wellBracketed rows

theorem writePdbLinesWith_atoms (fixed : Bool) (rows : List Atom) :
    (writePdbLinesWith fixed rows).filterMap (fun l => match l with | .atom a => some a | _ => none) = rows := by
  have := writePdbLines_atoms fixed rows
  cases fixed <;> simpa [writePdbLinesWith] using this

theorem pdb_pdb_roundtrip_with (fixed : Bool) (rows : List Atom) (h : ∀ a ∈ rows, WithinPdbLimits a) :
    parsePdb ((writePdbLinesWith fixed rows).map Line.render) = rows.map some := by
  cases fixed
  · exact pdb_pdb_roundtrip rows h
  · exact pdb_pdb_roundtrip_fixed rows h

end RnaVerif.Pdb

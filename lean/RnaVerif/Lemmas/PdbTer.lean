import RnaVerif.Lemmas.Pdb
/-! # The TER record sits in the columns of the PDB layout -/
namespace RnaVerif.Pdb
open RnaVerif.Gen

theorem ljust_zero (s : Str) : ljust 0 s = s := by simp [ljust]

/-- serial in columns 7–11, residue name in 18–20, chain in 22, residue number in 23–26, insertion code in 27
(0-based half-open slices as `parse_pdb_atoms` would cut them) -/
theorem formatTer_fields (a : Atom) (h : WithinPdbLimits a) (hs : a.serial + 1 ≤ 99999) :
    slice (formatTer a) 0 6 = ['T', 'E', 'R', ' ', ' ', ' '] ∧
    strip (slice (formatTer a) 6 11) = showInt (a.serial + 1) ∧
    strip (slice (formatTer a) 17 20) = a.resName ∧
    slice (formatTer a) 21 22 = a.chain ∧
    strip (slice (formatTer a) 22 26) = showInt a.resSeq ∧
    strip (slice (formatTer a) 26 27) = a.iCode := by
  have l := Lim.of_within h
  have h0 : (['T', 'E', 'R', ' ', ' ', ' '] : Str).length = 6 := rfl
  have h1 : (rjust 5 (showInt (a.serial + 1))).length = 5 :=
    length_rjust _ _ (length_showInt_le 4 _ (by decide) (by omega) (by have := l.serial_lo; omega))
  have h2 : (List.replicate 6 ' ' : Str).length = 6 := by simp
  have hrn : strip a.resName = a.resName := strip_noWs (NoWs.of_graphic l.resName_g)
  have h3 : (rjust 3 a.resName).length = 3 := length_rjust _ _ l.resName_hi
  have h4 : ([' '] : Str).length = 1 := rfl
  have h5 : a.chain.length = 1 := l.chain_len
  have h6 : (rjust 4 (showInt a.resSeq)).length = 4 :=
    length_rjust _ _ (length_showInt_le 3 _ (by decide) (by have := l.resSeq_hi; omega)
      (by have := l.resSeq_lo; omega))
  rw [formatTer_explicit, ljust, hrn, ljust_zero, ljust_zero]
  simp only [List.append_assoc, List.nil_append]
  refine ⟨?_, ?_, ?_, ?_, ?_, ?_⟩
  · exact slice_hit _ h0 rfl rfl
  · rw [slice_skip _ h0 (by decide), slice_hit _ h1 rfl rfl]
    exact strip_rjust _ (showInt_noWs _)
  · rw [slice_skip _ h0 (by decide), slice_skip _ h1 (by decide), slice_skip _ h2 (by decide),
      slice_hit _ h3 rfl rfl]
    exact strip_rjust _ (NoWs.of_graphic l.resName_g)
  · rw [slice_skip _ h0 (by decide), slice_skip _ h1 (by decide), slice_skip _ h2 (by decide),
      slice_skip _ h3 (by decide), slice_skip _ h4 (by decide), slice_hit _ h5 rfl rfl]
  · rw [slice_skip _ h0 (by decide), slice_skip _ h1 (by decide), slice_skip _ h2 (by decide),
      slice_skip _ h3 (by decide), slice_skip _ h4 (by decide), slice_skip _ h5 (by decide),
      slice_hit _ h6 rfl rfl]
    exact strip_rjust _ (showInt_noWs _)
  · rw [slice_skip _ h0 (by decide), slice_skip _ h1 (by decide), slice_skip _ h2 (by decide),
      slice_skip _ h3 (by decide), slice_skip _ h4 (by decide), slice_skip _ h5 (by decide),
      slice_skip _ h6 (by decide)]
    have hi := l.iCode_hi
    have hg := l.iCode_g
    match hic : a.iCode with
    | [] =>
      simp only [List.nil_append, List.length_append, List.length_cons, List.length_nil, List.length_replicate,
        h1, h3, h5, h6]
      decide
    | [c] =>
      have hc : isWs c = false := isWs_of_graphic (by simpa [hic] using hg)
      rw [show (26 - 6 - 5 - 6 - 3 - 1 - 1 - 4) = 0 from rfl, show (27 - 6 - 5 - 6 - 3 - 1 - 1 - 4) = 1 from rfl]
      rw [slice_hit _ (show ([c] : Str).length = 1 from rfl) rfl rfl]
      exact strip_noWs (NoWs.cons hc NoWs.nil)
    | _ :: _ :: _ => simp [hic] at hi



end RnaVerif.Pdb

import RnaVerif.Model.PdbV1
/-! # Lemmas about the reader-v1 pipeline (`Model/PdbV1.lean`) — core only -/
namespace RnaVerif.PdbV1
open RnaVerif

/-! ## results of `Except` as Booleans (so that concrete runs can be settled by `decide`) -/

def isOk {α} [DecidableEq α] (e : Except Err α) (r : α) : Bool :=
  match e with
  | .ok x => decide (x = r)
  | _ => false

theorem isOk_iff {α} [DecidableEq α] (e : Except Err α) (r : α) : isOk e r = true ↔ e = .ok r := by
  cases e <;> simp [isOk]

def isErr {α} (e : Except Err α) (x : Err) : Bool :=
  match e with
  | .error y => decide (y = x)
  | _ => false

theorem isErr_iff {α} (e : Except Err α) (x : Err) : isErr e x = true ↔ e = .error x := by
  cases e <;> simp [isErr]

/-! ## keys -/

theorem sameKey_iff (cfg : Cfg) (a b : Tok) : sameKey cfg a b = true ↔ key cfg a = key cfg b := by
  cases h : cfg.keyModel <;> simp [sameKey, key, h, Bool.and_eq_true, and_assoc]

theorem sameKey_refl (cfg : Cfg) (a : Tok) : sameKey cfg a a = true := (sameKey_iff cfg a a).2 rfl

theorem sameKey_symm (cfg : Cfg) (a b : Tok) : sameKey cfg a b = sameKey cfg b a := by
  rw [Bool.eq_iff_iff, sameKey_iff, sameKey_iff]; exact eq_comm

theorem sameKey_trans {cfg : Cfg} {a b c : Tok} (h1 : sameKey cfg a b = true) (h2 : sameKey cfg b c = true) :
    sameKey cfg a c = true := by
  rw [sameKey_iff] at *; exact h1.trans h2

/-- equal keys agree on which third records they match -/
theorem sameKey_congr {cfg : Cfg} {a b : Tok} (h : sameKey cfg a b = true) (x : Tok) :
    sameKey cfg x a = sameKey cfg x b := by
  rw [Bool.eq_iff_iff, sameKey_iff, sameKey_iff, (sameKey_iff cfg a b).1 h]

theorem sameKey_congr_left {cfg : Cfg} {a b : Tok} (h : sameKey cfg a b = true) (x : Tok) :
    sameKey cfg a x = sameKey cfg b x := by
  rw [sameKey_symm cfg a x, sameKey_symm cfg b x]; exact sameKey_congr h x

/-! ## the winner of a class -/

/-- `unique_atoms[key] = atom` only on strictly greater occupancy -/
def pick (c a : Tok) : Tok := if occv c < occv a then a else c

/-- winner of `cur :: l` read from the left -/
def best : Tok → List Tok → Tok
  | cur, [] => cur
  | cur, b :: rest => best (pick cur b) rest

/-- representative of a class in the de-duplicated list -/
def classRep : List Tok → List Tok
  | [] => []
  | h :: t => [best h t]

theorem best_append (cur : Tok) (l : List Tok) (a : Tok) : best cur (l ++ [a]) = pick (best cur l) a := by
  induction l generalizing cur with
  | nil => rfl
  | cons b rest ih => simp [best, ih]

theorem classRep_append (l : List Tok) (a : Tok) :
    classRep (l ++ [a]) = match classRep l with | [] => [a] | c :: _ => [pick c a] := by
  cases l with
  | nil => rfl
  | cons h t => simp [classRep, best_append]

theorem pick_eq (c a : Tok) : pick c a = c ∨ pick c a = a := by
  unfold pick; split <;> simp

theorem best_mem (cur : Tok) (l : List Tok) : best cur l ∈ cur :: l := by
  induction l generalizing cur with
  | nil => simp [best]
  | cons b rest ih =>
    have h := ih (pick cur b)
    show best (pick cur b) rest ∈ cur :: b :: rest
    rcases List.mem_cons.1 h with h | h
    · rw [h]
      rcases pick_eq cur b with e | e <;> rw [e] <;> simp
    · exact List.mem_cons_of_mem _ (List.mem_cons_of_mem _ h)

/-- **first among the copies of highest occupancy**: everything before the winner is strictly
lower, everything after it is not higher -/
theorem best_spec (cur : Tok) (l : List Tok) :
    ∃ pre post, cur :: l = pre ++ best cur l :: post ∧ (∀ b ∈ pre, occv b < occv (best cur l)) ∧
      (∀ b ∈ post, occv b ≤ occv (best cur l)) := by
  induction l generalizing cur with
  | nil => exact ⟨[], [], rfl, by simp, by simp⟩
  | cons b rest ih =>
    have hbest : best cur (b :: rest) = best (pick cur b) rest := rfl
    by_cases hlt : occv cur < occv b
    · have hp : pick cur b = b := by simp [pick, hlt]
      rw [hbest, hp]
      obtain ⟨pre, post, he, h1, h2⟩ := ih b
      refine ⟨cur :: pre, post, ?_, ?_, h2⟩
      · rw [List.cons_append, ← he]
      · intro x hx
        rcases List.mem_cons.1 hx with rfl | hx
        · have hb : occv b ≤ occv (best b rest) := by
            cases pre with
            | nil => simp only [List.nil_append, List.cons.injEq] at he; rw [← he.1]; exact Int.le_refl _
            | cons p ps =>
              simp only [List.cons_append, List.cons.injEq] at he
              exact Int.le_of_lt (h1 b (by rw [he.1]; exact List.mem_cons_self))
          omega
        · exact h1 x hx
    · have hp : pick cur b = cur := by simp [pick, hlt]
      rw [hbest, hp]
      obtain ⟨pre, post, he, h1, h2⟩ := ih cur
      cases pre with
      | nil =>
        simp only [List.nil_append, List.cons.injEq] at he
        refine ⟨[], b :: rest, ?_, by simp, ?_⟩
        · rw [List.nil_append, ← he.1]
        · intro x hx
          rcases List.mem_cons.1 hx with rfl | hx
          · rw [← he.1]; omega
          · exact h2 x (by rw [← he.2]; exact hx)
      | cons p ps =>
        simp only [List.cons_append, List.cons.injEq] at he
        refine ⟨cur :: b :: ps, post, ?_, ?_, h2⟩
        · simp only [List.cons_append]
          exact congrArg (fun t => cur :: b :: t) he.2
        · intro x hx
          have hc : occv cur < occv (best cur rest) := h1 cur (by rw [he.1]; exact List.mem_cons_self)
          rcases List.mem_cons.1 hx with rfl | hx
          · exact hc
          · rcases List.mem_cons.1 hx with rfl | hx
            · omega
            · exact h1 x (List.mem_cons_of_mem _ hx)

/-! ## `upsert` and the de-duplication loop -/

theorem pick_sameKey {cfg : Cfg} {c a : Tok} (h : sameKey cfg c a = true) : sameKey cfg c (pick c a) = true := by
  rcases pick_eq c a with e | e <;> rw [e]
  · exact sameKey_refl cfg c
  · exact h

/-- what one dictionary update does: append a new key at the end, or replace the holder of the key in place -/
theorem upsert_spec (cfg : Cfg) (a : Tok) (acc : List Tok) :
    ((∀ c ∈ acc, sameKey cfg c a = false) ∧ upsert cfg a acc = acc ++ [a]) ∨
    (∃ pre c post, acc = pre ++ c :: post ∧ (∀ d ∈ pre, sameKey cfg d a = false) ∧ sameKey cfg c a = true ∧
      upsert cfg a acc = pre ++ pick c a :: post) := by
  induction acc with
  | nil => left; exact ⟨by simp, rfl⟩
  | cons c rest ih =>
    by_cases h : sameKey cfg c a = true
    · right
      refine ⟨[], c, rest, rfl, by simp, h, ?_⟩
      simp only [upsert, h, if_true, pick, List.nil_append]
      split <;> rfl
    · have h' : sameKey cfg c a = false := by simpa using h
      rcases ih with ⟨hn, he⟩ | ⟨pre, d, post, he, hpre, hd, hu⟩
      · left
        refine ⟨?_, by simp [upsert, h', he]⟩
        intro x hx
        rcases List.mem_cons.1 hx with rfl | hx
        · exact h'
        · exact hn x hx
      · right
        refine ⟨c :: pre, d, post, by simp [he], ?_, hd, by simp [upsert, h', hu]⟩
        intro x hx
        rcases List.mem_cons.1 hx with rfl | hx
        · exact h'
        · exact hpre x hx

/-- distinct keys -/
def KeysDistinct (cfg : Cfg) (l : List Tok) : Prop := l.Pairwise (fun x y => sameKey cfg x y = false)

structure Inv (cfg : Cfg) (p acc : List Tok) : Prop where
  distinct : KeysDistinct cfg acc
  rep : ∀ b, acc.filter (sameKey cfg b) = classRep (p.filter (sameKey cfg b))
  keys : (acc.map (key cfg)).Sublist (p.map (key cfg))

theorem classRep_eq_nil {l : List Tok} (h : classRep l = []) : l = [] := by
  cases l with
  | nil => rfl
  | cons a t => simp [classRep] at h

theorem filter_eq_nil_of {p : Tok → Bool} {l : List Tok} (h : ∀ x ∈ l, p x = false) : l.filter p = [] := by
  rw [List.filter_eq_nil_iff]; intro x hx; simp [h x hx]

theorem filter_eq_self_of_none {p : Tok → Bool} {l : List Tok} (h : ∀ x ∈ l, p x = false) (c : Tok) (hc : p c = true)
    (pre post : List Tok) (hl : l = pre ++ post) : (pre ++ c :: post).filter p = [c] := by
  subst hl
  rw [List.filter_append, List.filter_cons, if_pos hc,
    filter_eq_nil_of (fun x hx => h x (List.mem_append_left _ hx)),
    filter_eq_nil_of (fun x hx => h x (List.mem_append_right _ hx))]
  rfl

theorem inv_step {cfg : Cfg} {p acc : List Tok} (hI : Inv cfg p acc) (a : Tok) :
    Inv cfg (p ++ [a]) (upsert cfg a acc) := by
  rcases upsert_spec cfg a acc with ⟨hn, he⟩ | ⟨pre, c, post, he, hpre, hc, hu⟩
  · -- new key
    refine ⟨?_, ?_, ?_⟩
    · rw [he]; unfold KeysDistinct
      rw [List.pairwise_append]
      exact ⟨hI.distinct, by simp, fun x hx y hy => by
        rw [List.mem_singleton] at hy; subst hy; exact hn x hx⟩
    · intro b
      rw [he, List.filter_append, List.filter_append, hI.rep b]
      by_cases hb : sameKey cfg b a = true
      · have hempty : acc.filter (sameKey cfg b) = [] := by
          apply filter_eq_nil_of
          intro x hx
          have := hn x hx
          rw [sameKey_congr_left hb x, sameKey_symm]
          exact this
        rw [hI.rep b] at hempty
        have hp : p.filter (sameKey cfg b) = [] := classRep_eq_nil hempty
        simp [hp, hb, classRep, best]
      · have hb' : sameKey cfg b a = false := by simpa using hb
        simp [hb']
    · rw [he, List.map_append, List.map_append]
      exact List.Sublist.append hI.keys (List.Sublist.refl _)
  · -- key present: `c` is replaced in place by `pick c a`
    have hck : sameKey cfg c (pick c a) = true := pick_sameKey hc
    have hdist := hI.distinct
    unfold KeysDistinct at hdist
    rw [he, List.pairwise_append, List.pairwise_cons] at hdist
    obtain ⟨hpp, ⟨hcpost, hpost⟩, hcross⟩ := hdist
    refine ⟨?_, ?_, ?_⟩
    · rw [hu]; unfold KeysDistinct
      rw [List.pairwise_append, List.pairwise_cons]
      refine ⟨hpp, ⟨fun y hy => ?_, hpost⟩, fun x hx y hy => ?_⟩
      · rw [← sameKey_congr_left hck y]; exact hcpost y hy
      · rcases List.mem_cons.1 hy with rfl | hy
        · rw [← sameKey_congr hck x]; exact hcross x hx c List.mem_cons_self
        · exact hcross x hx y (List.mem_cons_of_mem _ hy)
    · intro b
      rw [hu, List.filter_append p [a]]
      have hrep := hI.rep b
      rw [he] at hrep
      by_cases hb : sameKey cfg b a = true
      · -- the class of `a`: exactly `c` represents it
        have hbc : sameKey cfg b c = true := by rw [sameKey_congr hc b]; exact hb
        have hpre0 : ∀ x ∈ pre, sameKey cfg b x = false := fun x hx => by
          rw [sameKey_congr_left hb x, sameKey_symm]; exact hpre x hx
        have hpost0 : ∀ x ∈ post, sameKey cfg b x = false := fun x hx => by
          rw [sameKey_congr_left hbc x]; exact hcpost x hx
        have hall : ∀ x ∈ pre ++ post, sameKey cfg b x = false := fun x hx => by
          rcases List.mem_append.1 hx with h | h
          · exact hpre0 x h
          · exact hpost0 x h
        rw [filter_eq_self_of_none hall c hbc pre post rfl] at hrep
        have hbp : sameKey cfg b (pick c a) = true := by rw [← sameKey_congr hck b]; exact hbc
        rw [filter_eq_self_of_none hall (pick c a) hbp pre post rfl]
        have : [a].filter (sameKey cfg b) = [a] := by simp [hb]
        rw [this, classRep_append, ← hrep]
      · have hb' : sameKey cfg b a = false := by simpa using hb
        have hbc : sameKey cfg b c = false := by rw [sameKey_congr hc b]; exact hb'
        have hbp : sameKey cfg b (pick c a) = false := by rw [← sameKey_congr hck b]; exact hbc
        have : [a].filter (sameKey cfg b) = [] := by simp [hb']
        rw [this, List.append_nil, ← hrep]
        simp [List.filter_append, hbc, hbp]
    · have hk : key cfg (pick c a) = key cfg c := ((sameKey_iff cfg c (pick c a)).1 hck).symm
      have : (upsert cfg a acc).map (key cfg) = acc.map (key cfg) := by
        rw [hu, he]; simp [hk]
      rw [this, List.map_append]
      exact hI.keys.trans (List.sublist_append_left _ _)

theorem inv_nil (cfg : Cfg) : Inv cfg [] [] := ⟨List.Pairwise.nil, fun _ => rfl, List.Sublist.refl _⟩

theorem inv_foldl {cfg : Cfg} (l : List Tok) : ∀ {p acc : List Tok}, Inv cfg p acc →
    Inv cfg (p ++ l) (l.foldl (fun acc a => upsert cfg a acc) acc) := by
  induction l with
  | nil => intro p acc h; simpa using h
  | cons a rest ih =>
    intro p acc h
    have := ih (inv_step h a)
    simpa [List.append_assoc] using this

theorem inv_dedup (cfg : Cfg) (l : List Tok) : Inv cfg l (dedup cfg l) := by
  have := inv_foldl (cfg := cfg) l (inv_nil cfg)
  simpa [dedup] using this

/-! ### consequences for `dedup` -/

theorem classRep_subset {l : List Tok} {r : Tok} (h : r ∈ classRep l) : r ∈ l := by
  cases l with
  | nil => simp [classRep] at h
  | cons a t => simp only [classRep, List.mem_singleton] at h; rw [h]; exact best_mem a t

theorem dedup_mem {cfg : Cfg} {l : List Tok} {r : Tok} (h : r ∈ dedup cfg l) : r ∈ l := by
  have h1 : r ∈ (dedup cfg l).filter (sameKey cfg r) := List.mem_filter.2 ⟨h, sameKey_refl cfg r⟩
  rw [(inv_dedup cfg l).rep r] at h1
  exact (List.mem_filter.1 (classRep_subset h1)).1

theorem dedup_distinct (cfg : Cfg) (l : List Tok) : KeysDistinct cfg (dedup cfg l) := (inv_dedup cfg l).distinct

theorem KeysDistinct.nodup {cfg : Cfg} {l : List Tok} (h : KeysDistinct cfg l) : l.Nodup := by
  unfold KeysDistinct at h
  refine List.Pairwise.imp ?_ h
  intro a b hab e
  subst e
  rw [sameKey_refl] at hab
  exact Bool.noConfusion hab

/-- the class of every record of the table is represented exactly once, by its winner -/
theorem dedup_class {cfg : Cfg} {l : List Tok} {a : Tok} (ha : a ∈ l) :
    ∃ h t, l.filter (sameKey cfg a) = h :: t ∧ (dedup cfg l).filter (sameKey cfg a) = [best h t] := by
  have hne : l.filter (sameKey cfg a) ≠ [] := by
    intro e
    have : a ∈ l.filter (sameKey cfg a) := List.mem_filter.2 ⟨ha, sameKey_refl cfg a⟩
    rw [e] at this; exact absurd this (List.not_mem_nil)
  cases hf : l.filter (sameKey cfg a) with
  | nil => exact absurd hf hne
  | cons h t => exact ⟨h, t, rfl, by rw [(inv_dedup cfg l).rep a, hf]; rfl⟩

/-! ### the `TypeError` of the real loop -/

theorem upsertE_ok {cfg : Cfg} {a : Tok} {acc r : List Tok} (h : upsertE cfg a acc = .ok r) : r = upsert cfg a acc := by
  induction acc generalizing r with
  | nil => simp only [upsertE, Except.ok.injEq] at h; rw [← h]; rfl
  | cons c rest ih =>
    by_cases hk : sameKey cfg c a = true
    · simp only [upsertE, upsert, hk, if_true] at h ⊢
      split at h
      · cases h
      · simp only [Except.ok.injEq] at h; exact h.symm
    · have hk' : sameKey cfg c a = false := by simpa using hk
      simp only [upsertE, upsert, hk', Bool.false_eq_true, if_false] at h ⊢
      cases hr : upsertE cfg a rest with
      | error e => rw [hr] at h; cases h
      | ok r' => rw [hr] at h; simp only [Except.ok.injEq] at h; rw [← h, ih hr]

theorem upsertE_safe {cfg : Cfg} (hs : cfg.noneSafe = true) (a : Tok) (acc : List Tok) :
    upsertE cfg a acc = .ok (upsert cfg a acc) := by
  induction acc with
  | nil => rfl
  | cons c rest ih => simp only [upsertE, upsert, hs, ih]; split <;> simp

theorem filterDupFrom_ok {cfg : Cfg} {l acc r : List Tok} (h : filterDupFrom cfg acc l = .ok r) :
    r = l.foldl (fun acc a => upsert cfg a acc) acc := by
  induction l generalizing acc with
  | nil => simp only [filterDupFrom, Except.ok.injEq] at h; rw [← h]; rfl
  | cons a rest ih =>
    simp only [filterDupFrom] at h
    cases hu : upsertE cfg a acc with
    | error e => rw [hu] at h; cases h
    | ok acc' => rw [hu] at h; rw [ih h, upsertE_ok hu]; rfl

/-- when the loop finishes, its result is the pure loop's -/
theorem filterDup_ok {cfg : Cfg} {l r : List Tok} (h : filterDup cfg l = .ok r) : r = dedup cfg l :=
  filterDupFrom_ok h

theorem filterDupFrom_safe {cfg : Cfg} (hs : cfg.noneSafe = true) (l acc : List Tok) :
    filterDupFrom cfg acc l = .ok (l.foldl (fun acc a => upsert cfg a acc) acc) := by
  induction l generalizing acc with
  | nil => rfl
  | cons a rest ih => simp only [filterDupFrom, upsertE_safe hs, ih]; rfl

theorem filterDup_safe {cfg : Cfg} (hs : cfg.noneSafe = true) (l : List Tok) : filterDup cfg l = .ok (dedup cfg l) :=
  filterDupFrom_safe hs l []

/-! ## clash filter -/

theorem dist2_symm (a b : Tok) : dist2 a b = dist2 b a := by
  unfold dist2
  have h : ∀ p q : Int, (p - q) * (p - q) = (q - p) * (q - p) := fun p q => by
    have : p - q = -(q - p) := by omega
    rw [this, Int.neg_mul_neg]
  rw [h a.x, h a.y, h a.z]

theorem closeB_symm (u : Nat) (a b : Tok) : closeB u a b = closeB u b a := by
  unfold closeB; rw [dist2_symm]

theorem clashes_symm (cfg : Cfg) (u : Nat) (a b : Tok) : clashes cfg u a b = clashes cfg u b a := by
  unfold clashes
  rw [closeB_symm u a b]
  have : (a.model == b.model) = (b.model == a.model) := by
    rw [Bool.eq_iff_iff, beq_iff_eq, beq_iff_eq]; exact eq_comm
  rw [this]
  cases (!cfg.clashPerModel || b.model == a.model) <;> cases a.occ.isSome <;> cases b.occ.isSome <;> simp

/-- `x` at a position with `e` earlier and `s` later records survives -/
def Unbeaten (cfg : Cfg) (u : Nat) (e s : List Tok) (x : Tok) : Prop :=
  (∀ b ∈ e, beatenByEarlier cfg u x b = false) ∧ (∀ b ∈ s, beatenByLater cfg u x b = false)

theorem aux_sublist (cfg : Cfg) (u : Nat) (pre l : List Tok) : (filterClashAux cfg u pre l).Sublist l := by
  induction l generalizing pre with
  | nil => exact List.Sublist.refl _
  | cons a rest ih =>
    simp only [filterClashAux]
    split
    · exact (ih _).trans (List.sublist_cons_self _ _)
    · exact (ih _).cons_cons _

theorem any_false_iff {p : Tok → Bool} {l : List Tok} : l.any p = false ↔ ∀ x ∈ l, p x = false := by
  rw [← Bool.not_eq_true, List.any_eq_true]
  constructor
  · intro h x hx; cases hp : p x with
    | false => rfl
    | true => exact absurd ⟨x, hx, hp⟩ h
  · rintro h ⟨x, hx, hp⟩; rw [h x hx] at hp; exact Bool.noConfusion hp

/-- a survivor sits at a position where nothing beats it -/
theorem aux_mem {cfg : Cfg} {u : Nat} {pre l : List Tok} {x : Tok} (h : x ∈ filterClashAux cfg u pre l) :
    ∃ p s, l = p ++ x :: s ∧ Unbeaten cfg u (pre ++ p) s x := by
  induction l generalizing pre with
  | nil => simp [filterClashAux] at h
  | cons a rest ih =>
    simp only [filterClashAux] at h
    have tail : x ∈ filterClashAux cfg u (a :: pre) rest →
        ∃ p s, a :: rest = p ++ x :: s ∧ Unbeaten cfg u (pre ++ p) s x := by
      intro h
      obtain ⟨p, s, he, h1, h2⟩ := ih h
      refine ⟨a :: p, s, by rw [he]; rfl, ?_, h2⟩
      intro b hb
      apply h1
      rcases List.mem_append.1 hb with hb | hb
      · exact List.mem_append_left _ (List.mem_cons_of_mem _ hb)
      · rcases List.mem_cons.1 hb with rfl | hb
        · exact List.mem_append_left _ List.mem_cons_self
        · exact List.mem_append_right _ hb
    split at h
    · exact tail h
    · rename_i hc
      rcases List.mem_cons.1 h with rfl | h
      · simp only [Bool.or_eq_true, not_or, Bool.not_eq_true] at hc
        exact ⟨[], rest, rfl, by simpa using any_false_iff.1 hc.1, any_false_iff.1 hc.2⟩
      · exact tail h

/-- conversely, an unbeaten position survives -/
theorem aux_keep {cfg : Cfg} {u : Nat} {p s : List Tok} {x : Tok} : ∀ {pre : List Tok},
    Unbeaten cfg u (pre ++ p) s x → x ∈ filterClashAux cfg u pre (p ++ x :: s) := by
  induction p with
  | nil =>
    intro pre h
    simp only [List.nil_append, filterClashAux, List.append_nil] at h ⊢
    have h1 : pre.any (beatenByEarlier cfg u x) = false := any_false_iff.2 h.1
    have h2 : s.any (beatenByLater cfg u x) = false := any_false_iff.2 h.2
    simp [h1, h2]
  | cons a rest ih =>
    intro pre h
    have : x ∈ filterClashAux cfg u (a :: pre) (rest ++ x :: s) := by
      apply ih
      refine ⟨fun b hb => h.1 b ?_, h.2⟩
      rcases List.mem_append.1 hb with hb | hb
      · rcases List.mem_cons.1 hb with rfl | hb
        · exact List.mem_append_right _ List.mem_cons_self
        · exact List.mem_append_left _ hb
      · exact List.mem_append_right _ (List.mem_cons_of_mem _ hb)
    simp only [List.cons_append, filterClashAux]
    split
    · exact this
    · exact List.mem_cons_of_mem _ this

/-- a position that is dropped has a clashing neighbour that outranks it -/
theorem aux_drop_reason {cfg : Cfg} {u : Nat} {p s : List Tok} {x : Tok}
    (h : x ∉ filterClashAux cfg u [] (p ++ x :: s)) :
    ∃ b ∈ p ++ s, clashes cfg u x b = true ∧ occv x ≤ occv b := by
  cases h1 : p.any (beatenByEarlier cfg u x) with
  | true =>
    obtain ⟨b, hb, hbb⟩ := List.any_eq_true.1 h1
    simp only [beatenByEarlier, Bool.and_eq_true, decide_eq_true_eq] at hbb
    exact ⟨b, List.mem_append_left _ hb, hbb.1, Int.le_of_lt hbb.2⟩
  | false =>
    cases h2 : s.any (beatenByLater cfg u x) with
    | true =>
      obtain ⟨b, hb, hbb⟩ := List.any_eq_true.1 h2
      simp only [beatenByLater, Bool.and_eq_true, decide_eq_true_eq] at hbb
      exact ⟨b, List.mem_append_right _ hb, hbb.1, hbb.2⟩
    | false =>
      exact absurd (aux_keep (pre := []) ⟨by simpa using any_false_iff.1 h1, any_false_iff.1 h2⟩) h

/-- no two survivors clash -/
theorem aux_pairwise (cfg : Cfg) (u : Nat) (pre l : List Tok) :
    (filterClashAux cfg u pre l).Pairwise (fun a b => clashes cfg u a b = false) := by
  induction l generalizing pre with
  | nil => exact List.Pairwise.nil
  | cons a rest ih =>
    simp only [filterClashAux]
    split
    · exact ih _
    · rename_i hc
      simp only [Bool.or_eq_true, not_or, Bool.not_eq_true] at hc
      rw [List.pairwise_cons]
      refine ⟨fun b hb => ?_, ih _⟩
      obtain ⟨p, s, he, h1, _⟩ := aux_mem hb
      have hb_rest : b ∈ rest := by rw [he]; simp
      have e1 : beatenByEarlier cfg u b a = false := h1 a (List.mem_append_left _ List.mem_cons_self)
      have e2 : beatenByLater cfg u a b = false := any_false_iff.1 hc.2 b hb_rest
      cases hcl : clashes cfg u a b with
      | false => rfl
      | true =>
        have hcl' : clashes cfg u b a = true := by rw [clashes_symm]; exact hcl
        simp only [beatenByEarlier, hcl', Bool.true_and, decide_eq_false_iff_not] at e1
        simp only [beatenByLater, hcl, Bool.true_and, decide_eq_false_iff_not] at e2
        omega

theorem pairwise_mem_symm {α} {R : α → α → Prop} (hs : ∀ x y, R x y → R y x) {l : List α} (h : l.Pairwise R)
    {a b : α} (ha : a ∈ l) (hb : b ∈ l) (hne : a ≠ b) : R a b := by
  induction l with
  | nil => exact absurd ha List.not_mem_nil
  | cons c rest ih =>
    rw [List.pairwise_cons] at h
    rcases List.mem_cons.1 ha with ha | ha <;> rcases List.mem_cons.1 hb with hb | hb
    · exact absurd (ha.trans hb.symm) hne
    · rw [ha]; exact h.1 b hb
    · rw [hb]; exact hs _ _ (h.1 a ha)
    · exact ih h.2 ha hb

/-! ## model selection -/

theorem targetModel_mem {req : Option Int} {l : List Tok} {m : Int} (h : targetModel req l = some m) :
    ∃ t ∈ l, t.model = m := by
  cases l with
  | nil => simp [targetModel] at h
  | cons a rest =>
    simp only [targetModel, Option.some.injEq] at h
    cases req with
    | none => exact ⟨a, List.mem_cons_self, h⟩
    | some r =>
      simp only at h
      split at h
      · rename_i hany
        obtain ⟨t, ht, hm⟩ := List.any_eq_true.1 hany
        exact ⟨t, ht, by rw [← h]; simpa using hm⟩
      · exact ⟨a, List.mem_cons_self, h⟩

theorem selectModel_sublist (req : Option Int) (l : List Tok) : (selectModel req l).Sublist l := by
  unfold selectModel; split
  · exact List.nil_sublist _
  · exact List.filter_sublist

theorem selectModel_eq {req : Option Int} {l : List Tok} {m : Int} (h : targetModel req l = some m) :
    selectModel req l = l.filter (fun t => t.model == m) := by
  simp [selectModel, h]

/-! ## grouping -/

theorem group_flatten (l : List Tok) : (group l).flatten = l := by
  induction l with
  | nil => rfl
  | cons a rest ih =>
    simp only [group]
    split
    · rename_i b g gs hg
      rw [hg] at ih
      split <;> simp_all
    · rename_i gs hg
      rw [hg] at ih
      simp_all
    · rename_i hg
      rw [hg] at ih
      simp_all

theorem sameRes_iff (a b : Tok) : sameRes a b = true ↔ resKey a = resKey b := by
  simp [sameRes, resKey, Bool.and_eq_true, and_assoc]

theorem group_ok (l : List Tok) : (group l).all groupOk = true ∧ adjDiffer (group l) = true := by
  induction l with
  | nil => exact ⟨rfl, rfl⟩
  | cons a rest ih =>
    simp only [group]
    split
    · rename_i b g gs hg
      rw [hg] at ih
      obtain ⟨h1, h2⟩ := ih
      simp only [List.all_cons, Bool.and_eq_true] at h1
      by_cases hs : sameRes a b = true
      · simp only [hs, if_true, List.all_cons, Bool.and_eq_true]
        refine ⟨⟨?_, h1.2⟩, ?_⟩
        · simp only [groupOk, List.all_cons, hs, Bool.true_and] at h1 ⊢
          rw [List.all_eq_true] at h1 ⊢
          intro x hx
          have := h1.1 x hx
          rw [sameRes_iff] at *
          exact hs.trans this
        · cases gs with
          | nil => simp [adjDiffer]
          | cons g2 gs2 =>
            cases g2 with
            | nil => simp [adjDiffer]
            | cons c g2' =>
              simp only [adjDiffer, Bool.and_eq_true, Bool.not_eq_true'] at h2 ⊢
              refine ⟨?_, h2.2⟩
              have hbc := h2.1
              cases hac : sameRes a c with
              | false => rfl
              | true =>
                rw [sameRes_iff] at hs hac
                have : sameRes b c = true := (sameRes_iff b c).2 (hs.symm.trans hac)
                rw [this] at hbc; exact Bool.noConfusion hbc
      · have hs' : sameRes a b = false := by simpa using hs
        simp only [hs', Bool.false_eq_true, if_false, List.all_cons, Bool.and_eq_true]
        refine ⟨⟨by simp [groupOk], h1⟩, ?_⟩
        simp only [adjDiffer, hs', Bool.not_false, Bool.true_and]
        exact h2
    · rename_i gs hg
      rw [hg] at ih
      simp [groupOk] at ih
    · simp [groupOk, adjDiffer]

/-! ## packaged statements used by `Props/C08.lean` -/

theorem select_only {req : Option Int} {l : List Tok} {m : Int} (h : targetModel req l = some m) {a : Tok}
    (ha : a ∈ selectModel req l) : a.model = m := by
  rw [selectModel_eq h] at ha
  simpa using (List.mem_filter.1 ha).2

theorem target_requested {req : Option Int} {l : List Tok} {r : Int} (hr : req = some r) (ht : ∃ t ∈ l, t.model = r) :
    targetModel req l = some r := by
  subst hr
  obtain ⟨t, htl, htm⟩ := ht
  cases l with
  | nil => exact absurd htl List.not_mem_nil
  | cons a rest =>
    have : (a :: rest).any (fun t => t.model == r) = true := List.any_eq_true.2 ⟨t, htl, by simpa using htm⟩
    simp only [targetModel, this, if_true]

theorem select_default (a : Tok) (l : List Tok) :
    selectModel none (a :: l) = (a :: l).filter (fun t => t.model == a.model) := by
  simp [selectModel, targetModel]

theorem select_absent (a : Tok) (l : List Tok) (r : Int) (h : ∀ t ∈ a :: l, t.model ≠ r) :
    selectModel (some r) (a :: l) = (a :: l).filter (fun t => t.model == a.model) := by
  have : (a :: l).any (fun t => t.model == r) = false := any_false_iff.2 (fun t ht => by simpa using h t ht)
  simp only [selectModel, targetModel, this]
  rfl

theorem dedup_winner (cfg : Cfg) {l : List Tok} {a : Tok} (ha : a ∈ l) :
    ∃ pre w post, l.filter (sameKey cfg a) = pre ++ w :: post ∧ (dedup cfg l).filter (sameKey cfg a) = [w] ∧
      (∀ b ∈ pre, occv b < occv w) ∧ (∀ b ∈ post, occv b ≤ occv w) := by
  obtain ⟨h, t, hf, hd⟩ := dedup_class (cfg := cfg) ha
  obtain ⟨pre, post, he, h1, h2⟩ := best_spec h t
  exact ⟨pre, best h t, post, by rw [hf, he], hd, h1, h2⟩

theorem filterClash_ok {cfg : Cfg} {u : Nat} {l r : List Tok} (h : filterClash cfg u l = .ok r) :
    l ≠ [] ∧ r = filterClashAux cfg u [] l := by
  unfold filterClash at h
  split at h
  · cases h
  · rename_i hne
    simp only [Except.ok.injEq] at h
    exact ⟨by intro e; rw [e] at hne; simp at hne, h.symm⟩

theorem survivor_outranks {cfg : Cfg} {u : Nat} {l : List Tok} {a b : Tok} (ha : a ∈ filterClashAux cfg u [] l)
    (hb : b ∈ l) (hne : b ≠ a) (hc : clashes cfg u a b = true) :
    b ∉ filterClashAux cfg u [] l ∧ occv b ≤ occv a := by
  constructor
  · intro hbr
    have := pairwise_mem_symm (R := fun a b => clashes cfg u a b = false)
      (fun x y h => by rw [clashes_symm]; exact h) (aux_pairwise cfg u [] l) ha hbr (Ne.symm hne)
    rw [hc] at this; exact Bool.noConfusion this
  · obtain ⟨p, s, he, h1, h2⟩ := aux_mem ha
    rw [he] at hb
    rcases List.mem_append.1 hb with hb | hb
    · have := h1 b (by simpa using hb)
      simp only [beatenByEarlier, hc, Bool.true_and, decide_eq_false_iff_not] at this
      omega
    · rcases List.mem_cons.1 hb with hb | hb
      · exact absurd hb hne
      · have := h2 b hb
        simp only [beatenByLater, hc, Bool.true_and, decide_eq_false_iff_not] at this
        omega

/-! ## concrete records for the non-vacuity examples -/

def exTok (m : Int) (n : String) (x : Int) (o : Option Int) : Tok :=
  { model := m, entity := none, label := none, auth := some ⟨"A", 1, none, "G"⟩, name := n, alt := "", occ := o,
    x := x, y := 0, z := 0, het := false }

/-- `A.G1 P` of model 1 and of model 2 (10 Å apart) -/
def exA1 : Tok := exTok 1 "P" 0 (some 100)
def exA2 : Tok := exTok 2 "P" 10000 (some 100)
/-- two copies of `P` (occupancies 0.30 and 0.70, 5 Å apart) and a `C1'` -/
def exP30 : Tok := exTok 1 "P" 0 (some 30)
def exP70 : Tok := exTok 1 "P" 5000 (some 70)
def exC : Tok := exTok 1 "C1'" 9000 (some 100)
/-- an `OP1` 0.4 Å from `exP30` -/
def exQ70 : Tok := exTok 1 "OP1" 400 (some 70)
/-- an `OP1` of model 2, 0.1 Å from `exA1` -/
def exB2 : Tok := exTok 2 "OP1" 100 (some 100)
/-- two copies of `P` without occupancy -/
def exN1 : Tok := exTok 1 "P" 0 none
def exN2 : Tok := exTok 1 "P" 5000 none

end RnaVerif.PdbV1

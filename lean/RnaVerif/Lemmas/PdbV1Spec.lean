import RnaVerif.Lemmas.PdbV1
/-! # The repaired pipeline meets the specification predicate of C08; counter-examples otherwise -/
namespace RnaVerif.PdbV1
open RnaVerif

/-! ## some record of every model survives the per-model clash filter -/

/-- the last of the records of highest occupancy among those satisfying `p` -/
theorem exists_last_max (p : Tok → Bool) (l : List Tok) (h : ∃ t ∈ l, p t = true) :
    ∃ pre t post, l = pre ++ t :: post ∧ p t = true ∧ (∀ b ∈ pre, p b = true → occv b ≤ occv t) ∧
      (∀ b ∈ post, p b = true → occv b < occv t) := by
  induction l with
  | nil => obtain ⟨t, ht, _⟩ := h; exact absurd ht List.not_mem_nil
  | cons x rest ih =>
    by_cases hr : ∃ t ∈ rest, p t = true
    · obtain ⟨pre, t, post, he, hpt, h1, h2⟩ := ih hr
      by_cases hx : p x = true ∧ occv t < occv x
      · refine ⟨[], x, rest, rfl, hx.1, by simp, ?_⟩
        intro b hb hpb
        rw [he] at hb
        rcases List.mem_append.1 hb with hb | hb
        · have := h1 b hb hpb; omega
        · rcases List.mem_cons.1 hb with rfl | hb
          · exact hx.2
          · have := h2 b hb hpb; omega
      · refine ⟨x :: pre, t, post, by rw [he]; rfl, hpt, ?_, h2⟩
        intro b hb hpb
        rcases List.mem_cons.1 hb with rfl | hb
        · have : ¬ occv t < occv b := fun hlt => hx ⟨hpb, hlt⟩
          omega
        · exact h1 b hb hpb
    · obtain ⟨t, ht, hpt⟩ := h
      rcases List.mem_cons.1 ht with rfl | ht
      · refine ⟨[], t, rest, rfl, hpt, by simp, ?_⟩
        intro b hb hpb
        exact absurd ⟨b, hb, hpb⟩ hr
      · exact absurd ⟨t, ht, hpt⟩ hr

theorem clashes_fixed_model {u : Nat} {a b : Tok} (h : clashes cfgFixed u a b = true) : a.model = b.model := by
  simp only [clashes, cfgFixed, Bool.not_true, Bool.false_or, Bool.and_eq_true, beq_iff_eq] at h
  exact h.1.1.1

theorem clashes_none {cfg : Cfg} {u : Nat} {a b : Tok} (h : a.occ = none) : clashes cfg u a b = false := by
  simp [clashes, h]

theorem survivor_of_model (u : Nat) (d : List Tok) (m : Int) (h : ∃ t ∈ d, t.model = m) :
    ∃ t ∈ filterClashAux cfgFixed u [] d, t.model = m := by
  by_cases hnone : ∃ t ∈ d, t.model = m ∧ t.occ = none
  · obtain ⟨t, ht, hm, ho⟩ := hnone
    obtain ⟨p, s, he⟩ := List.mem_iff_append.1 ht
    refine ⟨t, ?_, hm⟩
    rw [he]
    apply aux_keep
    refine ⟨fun b _ => ?_, fun b _ => ?_⟩
    · simp [beatenByEarlier, clashes_none ho]
    · simp [beatenByLater, clashes_none ho]
  · obtain ⟨pre, t, post, he, hpt, h1, h2⟩ := exists_last_max (fun t => t.model == m) d
      (by obtain ⟨t, ht, hm⟩ := h; exact ⟨t, ht, by simpa using hm⟩)
    have hm : t.model = m := by simpa using hpt
    refine ⟨t, ?_, hm⟩
    rw [he]
    apply aux_keep
    refine ⟨fun b hb => ?_, fun b hb => ?_⟩
    · cases hc : clashes cfgFixed u t b with
      | false => simp [beatenByEarlier, hc]
      | true =>
        have hbm : b.model = m := by rw [← clashes_fixed_model hc]; exact hm
        have := h1 b (by simpa using hb) (by simpa using hbm)
        simp only [beatenByEarlier, hc, Bool.true_and, decide_eq_false_iff_not]; omega
    · cases hc : clashes cfgFixed u t b with
      | false => simp [beatenByLater, hc]
      | true =>
        have hbm : b.model = m := by rw [← clashes_fixed_model hc]; exact hm
        have := h2 b hb (by simpa using hbm)
        simp only [beatenByLater, hc, Bool.true_and, decide_eq_false_iff_not]; omega

/-! ## well-formedness: the records of the first model come first -/

/-- the table is non-empty and the records carrying the model number of its first record form a
prefix (true of every PDB file, where a model is a MODEL…ENDMDL block, and of every mmCIF table
sorted by `pdbx_PDB_model_num`) -/
def FirstModelLeads (l : List Tok) : Prop :=
  ∃ a l1 l2, l = a :: l1 ++ l2 ∧ (∀ t ∈ l1, t.model = a.model) ∧ (∀ t ∈ l2, t.model ≠ a.model)

theorem key_model (t : Tok) : (key cfgFixed t).2.2.2 = some t.model := rfl

theorem map_model_sublist {c l : List Tok} (h : (c.map (key cfgFixed)).Sublist (l.map (key cfgFixed))) :
    (c.map (·.model)).Sublist (l.map (·.model)) := by
  have := h.map (fun k => k.2.2.2.getD 0)
  simpa [List.map_map, Function.comp_def, key, cfgFixed] using this

/-- the first survivor belongs to the first model of the table -/
theorem head_model {u : Nat} {a : Tok} {l1 l2 : List Tok} (h1 : ∀ t ∈ l1, t.model = a.model)
    (h2 : ∀ t ∈ l2, t.model ≠ a.model) :
    ∃ c cs, filterClashAux cfgFixed u [] (dedup cfgFixed (a :: l1 ++ l2)) = c :: cs ∧ c.model = a.model := by
  let l := a :: l1 ++ l2
  let d := dedup cfgFixed l
  let c := filterClashAux cfgFixed u [] d
  -- some record of the first model survives
  obtain ⟨h0, t0, hf, hd⟩ := dedup_class (cfg := cfgFixed) (l := l) (a := a) (by simp [l])
  have hw : best h0 t0 ∈ d := by
    have : best h0 t0 ∈ d.filter (sameKey cfgFixed a) := by rw [hd]; simp
    exact (List.mem_filter.1 this).1
  have hwm : (best h0 t0).model = a.model := by
    have : best h0 t0 ∈ d.filter (sameKey cfgFixed a) := by rw [hd]; simp
    have hk := (List.mem_filter.1 this).2
    have := (sameKey_iff cfgFixed a (best h0 t0)).1 hk
    have h3 := congrArg (fun k => k.2.2.2) this
    simp only [key_model, Option.some.injEq] at h3
    exact h3.symm
  obtain ⟨s, hs, hsm⟩ := survivor_of_model u d a.model ⟨_, hw, hwm⟩
  -- the model sequence of the survivors is a sublist of the table's
  have hsub : (c.map (·.model)).Sublist (l.map (·.model)) :=
    ((aux_sublist cfgFixed u [] d).map _).trans (map_model_sublist (inv_dedup cfgFixed l).keys)
  have hl : l.map (·.model) = (a :: l1).map (·.model) ++ l2.map (·.model) := by simp [l]
  rw [hl, List.sublist_append_iff] at hsub
  obtain ⟨c1, c2, hc, hc1, hc2⟩ := hsub
  have hin : a.model ∈ c.map (·.model) := List.mem_map.2 ⟨s, hs, hsm⟩
  rw [hc] at hin
  have hc1ne : c1 ≠ [] := by
    intro e
    rw [e, List.nil_append] at hin
    obtain ⟨t, ht, htm⟩ := List.mem_map.1 (hc2.subset hin)
    exact h2 t ht htm
  obtain ⟨x, c1', hx⟩ := List.exists_cons_of_ne_nil hc1ne
  have hxm : x = a.model := by
    have : x ∈ (a :: l1).map (·.model) := hc1.subset (by rw [hx]; exact List.mem_cons_self)
    obtain ⟨t, ht, htm⟩ := List.mem_map.1 this
    rcases List.mem_cons.1 ht with rfl | ht
    · exact htm.symm
    · rw [← htm]; exact h1 t ht
  cases hcc : c with
  | nil => rw [hcc] at hc; simp [hx] at hc
  | cons c0 cs =>
    refine ⟨c0, cs, hcc, ?_⟩
    rw [hcc, hx] at hc
    simp only [List.map_cons, List.cons_append, List.cons.injEq] at hc
    rw [hc.1, hxm]

/-! ## the repaired pipeline meets every clause -/

theorem pairwiseB_iff {α} (p : α → α → Bool) (l : List α) :
    pairwiseB p l = true ↔ l.Pairwise (fun a b => p a b = true) := by
  induction l with
  | nil => simp [pairwiseB]
  | cons a rest ih => simp [pairwiseB, List.pairwise_cons, ih, List.all_eq_true]

theorem dedup_has_model {l : List Tok} {m : Int} (h : ∃ t ∈ l, t.model = m) : ∃ t ∈ dedup cfgFixed l, t.model = m := by
  obtain ⟨a, ha, hm⟩ := h
  obtain ⟨h0, t0, _, hd⟩ := dedup_class (cfg := cfgFixed) ha
  have hmem : best h0 t0 ∈ (dedup cfgFixed l).filter (sameKey cfgFixed a) := by rw [hd]; simp
  refine ⟨best h0 t0, (List.mem_filter.1 hmem).1, ?_⟩
  have := (sameKey_iff cfgFixed a (best h0 t0)).1 (List.mem_filter.1 hmem).2
  have h3 := congrArg (fun k => k.2.2.2) this
  simp only [key_model, Option.some.injEq] at h3
  rw [← h3]; exact hm

theorem sameKeyFull_model {a b : Tok} (h : sameKeyFull a b = true) : a.model = b.model := by
  have := (sameKey_iff cfgFixed a b).1 h
  have h3 := congrArg (fun k => k.2.2.2) this
  simpa [key_model] using h3

theorem target_agrees (u : Nat) (req : Option Int) {l : List Tok} (hw : FirstModelLeads l) :
    targetModel req (filterClashAux cfgFixed u [] (dedup cfgFixed l)) = targetModel req l := by
  obtain ⟨a, l1, l2, rfl, h1, h2⟩ := hw
  obtain ⟨c, cs, hc, hcm⟩ := head_model (u := u) h1 h2
  rw [hc]
  have hsub : ∀ t ∈ c :: cs, t ∈ a :: l1 ++ l2 := fun t ht =>
    dedup_mem ((aux_sublist cfgFixed u [] _).subset (by rw [hc]; exact ht))
  cases req with
  | none => simp [targetModel, hcm]
  | some r =>
    simp only [List.cons_append, targetModel, Option.some.injEq]
    by_cases hany : (a :: (l1 ++ l2)).any (fun t => t.model == r) = true
    · obtain ⟨t, ht, htm⟩ := List.any_eq_true.1 hany
      obtain ⟨s, hs, hsm⟩ := survivor_of_model u _ r (dedup_has_model (l := a :: l1 ++ l2)
        ⟨t, by rw [List.cons_append]; exact ht, by simpa using htm⟩)
      rw [hc] at hs
      have : (c :: cs).any (fun t => t.model == r) = true := List.any_eq_true.2 ⟨s, hs, by simpa using hsm⟩
      simp [this, hany]
    · have hany' : (a :: (l1 ++ l2)).any (fun t => t.model == r) = false := by simpa using hany
      have : (c :: cs).any (fun t => t.model == r) = false := by
        rw [any_false_iff]
        intro t ht
        exact any_false_iff.1 hany' t (by have := hsub t ht; rwa [List.cons_append] at this)
      simp [this, hany', hcm]

theorem dedup_ne_nil {cfg : Cfg} {l : List Tok} (h : l ≠ []) : dedup cfg l ≠ [] := by
  obtain ⟨a, rest, rfl⟩ := List.exists_cons_of_ne_nil h
  obtain ⟨h0, t0, _, hd⟩ := dedup_class (cfg := cfg) (l := a :: rest) (a := a) List.mem_cons_self
  intro e
  rw [e] at hd
  simp at hd

theorem read_fixed_eq (u : Nat) (req : Option Int) {l : List Tok} (hl : l ≠ []) :
    read cfgFixed u req l = .ok (group (selectModel req (filterClashAux cfgFixed u [] (dedup cfgFixed l)))) := by
  have hne := dedup_ne_nil (cfg := cfgFixed) hl
  have : (dedup cfgFixed l).isEmpty = false := by
    cases hd : dedup cfgFixed l with
    | nil => exact absurd hd hne
    | cons _ _ => rfl
  simp [read, filterDup_safe (cfg := cfgFixed) rfl, filterClash, this]

/-- heads of non-empty groups, in order, inside the flattened list -/
theorem heads_sublist {β} (f : Tok → β) (g : List (List Tok)) (h : g.all groupOk = true) :
    (g.map (fun x => (x.map f).head?)).Sublist ((g.flatten.map f).map some) := by
  induction g with
  | nil => exact List.Sublist.refl _
  | cons x rest ih =>
    simp only [List.all_cons, Bool.and_eq_true] at h
    cases x with
    | nil => simp [groupOk] at h
    | cons a t =>
      simp only [List.map_cons, List.head?_cons, List.flatten_cons, List.cons_append]
      refine List.Sublist.cons_cons _ ?_
      rw [List.map_append, List.map_append]
      exact List.sublist_append_of_sublist_right (ih h.2)

theorem occLe_of_occv {b a : Tok} (h : occv b ≤ occv a) : occLe b a = true := by
  unfold occLe
  cases hb : b.occ <;> cases ha : a.occ <;> simp_all [occv]

theorem winner_is_max {l : List Tok} {a t : Tok} (ha : a ∈ dedup cfgFixed l) (ht : t ∈ l)
    (hk : sameKeyFull a t = true) : occv t ≤ occv a := by
  have hal : a ∈ l := dedup_mem ha
  obtain ⟨pre, w, post, hf, hd, h1, h2⟩ := dedup_winner cfgFixed hal
  have haw : a = w := by
    have : a ∈ (dedup cfgFixed l).filter (sameKey cfgFixed a) := List.mem_filter.2 ⟨ha, sameKey_refl _ _⟩
    rw [hd] at this; simpa using this
  have : t ∈ l.filter (sameKey cfgFixed a) := List.mem_filter.2 ⟨ht, hk⟩
  rw [hf] at this
  rw [haw]
  rcases List.mem_append.1 this with h | h
  · exact Int.le_of_lt (h1 t h)
  · rcases List.mem_cons.1 h with rfl | h
    · exact Int.le_refl _
    · exact h2 t h

theorem resKey_of_key (t : Tok) :
    resKey t = (fun k : String × Option Auth × Option Label × Option Int => (k.2.2.1, k.2.1, k.2.2.2.getD 0)) (key cfgFixed t) := rfl

theorem read_fixed_spec (u : Nat) (req : Option Int) (l : List Tok) (hw : FirstModelLeads l) :
    ∃ r, read cfgFixed u req l = .ok r ∧ (spec u req l r).ok = true := by
  have hl : l ≠ [] := by obtain ⟨a, l1, l2, rfl, _⟩ := hw; simp
  refine ⟨_, read_fixed_eq u req hl, ?_⟩
  -- names
  generalize hd : dedup cfgFixed l = d
  generalize hc : filterClashAux cfgFixed u [] d = c
  have htc : targetModel req c = targetModel req l := by rw [← hc, ← hd]; exact target_agrees u req hw
  obtain ⟨a0, rest, rfl⟩ := List.exists_cons_of_ne_nil hl
  obtain ⟨m, htl⟩ : ∃ m, targetModel req (a0 :: rest) = some m := ⟨_, rfl⟩
  rw [htl] at htc
  have hsel : selectModel req c = c.filter (fun t => t.model == m) := selectModel_eq htc
  rw [hsel]
  generalize hA : c.filter (fun t => t.model == m) = A
  have hflat : (group A).flatten = A := group_flatten A
  have hcd : c.Sublist d := by rw [← hc]; exact aux_sublist _ _ _ _
  have hAc : A.Sublist c := by rw [← hA]; exact List.filter_sublist
  have hdl : ∀ t ∈ d, t ∈ a0 :: rest := fun t ht => dedup_mem (by rw [hd]; exact ht)
  have hAm : ∀ t ∈ A, t.model = m := fun t ht => by
    rw [← hA] at ht; simpa using (List.mem_filter.1 ht).2
  have hAd : ∀ t ∈ A, t ∈ d := fun t ht => hcd.subset (hAc.subset ht)
  have hdist : KeysDistinct cfgFixed d := by rw [← hd]; exact dedup_distinct _ _
  -- clauses
  have c1 : A.all (fun t => t.model == m) = true := List.all_eq_true.2 (fun t ht => by simpa using hAm t ht)
  have c2 : A.all (fun t => (a0 :: rest).contains t) = true :=
    List.all_eq_true.2 (fun t ht => List.contains_iff_mem.2 (hdl t (hAd t ht)))
  have c3 : pairwiseB (fun s t => !sameKeyFull s t) A = true := by
    rw [pairwiseB_iff]
    have := (hdist.sublist hcd).sublist hAc
    exact this.imp (fun h => by simp [sameKeyFull, h])
  have c4 : A.all (fun s => ((a0 :: rest).filter (fun t => t.model == m)).all
      (fun t => !sameKeyFull s t || occLe t s)) = true := by
    rw [List.all_eq_true]; intro s hs
    rw [List.all_eq_true]; intro t ht
    cases hk : sameKeyFull s t with
    | false => rfl
    | true =>
      simp only [Bool.not_true, Bool.false_or]
      exact occLe_of_occv (winner_is_max (by rw [hd]; exact hAd s hs) (List.mem_filter.1 ht).1 hk)
  have c5 : pairwiseB (fun s t => !(s.occ.isSome && t.occ.isSome && closeB u s t)) A = true := by
    rw [pairwiseB_iff, ← hA, List.pairwise_filter]
    have := aux_pairwise cfgFixed u [] d
    rw [hc] at this
    refine this.imp ?_
    intro s t hcl hs ht
    have hsm : s.model = m := by simpa using hs
    have htm : t.model = m := by simpa using ht
    simp only [clashes, cfgFixed, Bool.not_true, Bool.false_or, hsm, htm, beq_self_eq_true, Bool.true_and] at hcl
    simp [hcl]
  have c6 : ((a0 :: rest).filter (fun t => t.model == m)).all
      (excused u A ((a0 :: rest).filter (fun t => t.model == m))) = true := by
    rw [List.all_eq_true]; intro b hb
    have hbl : b ∈ a0 :: rest := (List.mem_filter.1 hb).1
    have hbm : b.model = m := by simpa using (List.mem_filter.1 hb).2
    unfold excused
    by_cases hbA : b ∈ A
    · have : A.contains b = true := List.contains_iff_mem.2 hbA
      simp only [this, Bool.true_or]
    · by_cases hbd : b ∈ d
      · -- dropped by the clash filter
        have hbc : b ∉ c := fun h => hbA (by rw [← hA]; exact List.mem_filter.2 ⟨h, by simpa using hbm⟩)
        obtain ⟨p, s, he⟩ := List.mem_iff_append.1 hbd
        rw [← hc, he] at hbc
        obtain ⟨x, hx, hcl, hocc⟩ := aux_drop_reason hbc
        have hnd : (p ++ b :: s).Nodup := by rw [← he]; exact hdist.nodup
        have hxb : x ≠ b := by
          rw [List.nodup_append] at hnd
          obtain ⟨_, hbs, hcross⟩ := hnd
          rcases List.mem_append.1 hx with h | h
          · exact hcross x h b List.mem_cons_self
          · intro e; subst e; exact (List.nodup_cons.1 hbs).1 h
        have hxd : x ∈ d := by
          rw [he]; rcases List.mem_append.1 hx with h | h
          · exact List.mem_append_left _ h
          · exact List.mem_append_right _ (List.mem_cons_of_mem _ h)
        have hxm : x.model = m := by rw [← clashes_fixed_model hcl]; exact hbm
        have hxl : x ∈ (a0 :: rest).filter (fun t => t.model == m) :=
          List.mem_filter.2 ⟨hdl x hxd, by simpa using hxm⟩
        have hcl' := hcl
        simp only [clashes, cfgFixed, Bool.not_true, Bool.false_or, Bool.and_eq_true] at hcl'
        have : ((a0 :: rest).filter (fun t => t.model == m)).any
            (fun c => closeB u b c && b.occ.isSome && c.occ.isSome && decide (occv b ≤ occv c) && c != b) = true :=
          List.any_eq_true.2 ⟨x, hxl, by simp [hcl'.2, hcl'.1.2, hcl'.1.1.2, hocc, hxb]⟩
        simp only [this, Bool.or_true]
      · -- lost in the de-duplication: the winner of its class outranks it
        obtain ⟨pre, w, post, hf, hdw, h1, h2⟩ := dedup_winner cfgFixed hbl
        rw [hd] at hdw
        have hwd : w ∈ d.filter (sameKey cfgFixed b) := by rw [hdw]; simp
        have hwk : sameKey cfgFixed b w = true := (List.mem_filter.1 hwd).2
        have hwin : w ∈ d := (List.mem_filter.1 hwd).1
        have hwb : w ≠ b := fun e => hbd (e ▸ hwin)
        have hwm : w.model = m := by rw [← sameKeyFull_model (a := b) (b := w) hwk]; exact hbm
        have hwl : w ∈ (a0 :: rest).filter (fun t => t.model == m) :=
          List.mem_filter.2 ⟨hdl w hwin, by simpa using hwm⟩
        have hle : occv b ≤ occv w :=
          winner_is_max (l := a0 :: rest) (by rw [hd]; exact hwin) hbl (by rw [sameKeyFull, sameKey_symm]; exact hwk)
        have : ((a0 :: rest).filter (fun t => t.model == m)).any
            (fun c => sameKeyFull c b && occLe b c && c != b) = true :=
          List.any_eq_true.2 ⟨w, hwl, by
            have : sameKeyFull w b = true := by rw [sameKeyFull, sameKey_symm]; exact hwk
            simp [this, occLe_of_occv hle, hwb]⟩
        simp only [this, Bool.or_true, Bool.true_or]
  have hg := group_ok A
  have c7 : ((group A).all groupOk && adjDiffer (group A)) = true := by
    rw [hg.1, hg.2]; rfl
  have c8 : ((group A).map (fun g => (g.map resKey).head?)).isSublist
      ((((a0 :: rest).filter (fun t => t.model == m)).map resKey).map some) = true := by
    rw [List.isSublist_iff_sublist]
    refine (heads_sublist resKey (group A) hg.1).trans ?_
    rw [hflat]
    apply List.Sublist.map
    -- A.map resKey <+ lm.map resKey
    have hk : (d.map (key cfgFixed)).Sublist ((a0 :: rest).map (key cfgFixed)) := by
      rw [← hd]; exact (inv_dedup cfgFixed _).keys
    have hr : (c.map resKey).Sublist ((a0 :: rest).map resKey) := by
      have h1 : (c.map resKey).Sublist (d.map resKey) := hcd.map _
      have h2 := hk.map (fun k : String × Option Auth × Option Label × Option Int => (k.2.2.1, k.2.1, k.2.2.2.getD 0))
      simp only [List.map_map] at h2
      exact h1.trans (by simpa [Function.comp_def, ← resKey_of_key] using h2)
    have hf := hr.filter (fun k : Option Label × Option Auth × Int => k.2.2 == m)
    rw [List.filter_map, List.filter_map] at hf
    rw [← hA]
    simpa [Function.comp_def, resKey] using hf
  unfold SpecReport.ok spec
  rw [htl]
  simp only [hflat, Bool.and_eq_true]
  exact ⟨⟨⟨⟨⟨⟨⟨c1, c2⟩, c3⟩, c4⟩, c5⟩, c6⟩, by simpa using c7⟩, c8⟩

/-! ## nothing is lost without a reason -/

theorem no_atom_lost_fixed {u : Nat} {req : Option Int} {p s : List Tok} {a : Tok} {r : List (List Tok)}
    (hw : FirstModelLeads (p ++ a :: s))
    (h : read cfgFixed u req (p ++ a :: s) = .ok r)
    (hm : targetModel req (p ++ a :: s) = some a.model)
    (hkey : ∀ b ∈ p ++ s, sameKey cfgFixed a b = false)
    (hfar : ∀ b ∈ p ++ s, b.model = a.model → closeB u a b = false) :
    a ∈ r.flatten := by
  have hl : p ++ a :: s ≠ [] := by simp
  rw [read_fixed_eq u req hl] at h
  simp only [Except.ok.injEq] at h
  rw [← h, group_flatten]
  have htc := target_agrees u req hw
  rw [hm] at htc
  rw [selectModel_eq htc]
  refine List.mem_filter.2 ⟨?_, by simp⟩
  -- `a` survives the de-duplication: its class is `[a]`
  have hal : a ∈ p ++ a :: s := by simp
  obtain ⟨h0, t0, hf, hd⟩ := dedup_class (cfg := cfgFixed) hal
  have hcls : (p ++ a :: s).filter (sameKey cfgFixed a) = [a] := by
    rw [List.filter_append, List.filter_cons, if_pos (sameKey_refl _ _),
      filter_eq_nil_of (fun x hx => hkey x (List.mem_append_left _ hx)),
      filter_eq_nil_of (fun x hx => hkey x (List.mem_append_right _ hx))]
    rfl
  rw [hcls] at hf
  simp only [List.cons.injEq] at hf
  rw [← hf.1, ← hf.2] at hd
  have had : a ∈ dedup cfgFixed (p ++ a :: s) := by
    have : a ∈ (dedup cfgFixed (p ++ a :: s)).filter (sameKey cfgFixed a) := by rw [hd]; simp [best]
    exact (List.mem_filter.1 this).1
  obtain ⟨p', s', he⟩ := List.mem_iff_append.1 had
  rw [he]
  apply aux_keep
  have hnd : (p' ++ a :: s').Nodup := by rw [← he]; exact (dedup_distinct cfgFixed _).nodup
  have key : ∀ b ∈ p' ++ s', clashes cfgFixed u a b = false := by
    intro b hb
    have hbd : b ∈ dedup cfgFixed (p ++ a :: s) := by
      rw [he]; rcases List.mem_append.1 hb with h | h
      · exact List.mem_append_left _ h
      · exact List.mem_append_right _ (List.mem_cons_of_mem _ h)
    have hba : b ≠ a := by
      rw [List.nodup_append] at hnd
      obtain ⟨_, hbs, hcross⟩ := hnd
      rcases List.mem_append.1 hb with hb' | hb'
      · exact hcross b hb' a List.mem_cons_self
      · intro e; subst e; exact (List.nodup_cons.1 hbs).1 hb'
    have hbl : b ∈ p ++ s := by
      have := dedup_mem hbd
      rcases List.mem_append.1 this with h | h
      · exact List.mem_append_left _ h
      · rcases List.mem_cons.1 h with h | h
        · exact absurd h hba
        · exact List.mem_append_right _ h
    by_cases hbm : b.model = a.model
    · simp [clashes, hfar b hbl hbm]
    · have : (a.model == b.model) = false := by simpa using fun e => hbm e.symm
      simp [clashes, cfgFixed, this]
  refine ⟨fun b hb => ?_, fun b hb => ?_⟩
  · have hb' : b ∈ p' := by simpa using hb
    simp [beatenByEarlier, key b (List.mem_append_left _ hb')]
  · simp [beatenByLater, key b (List.mem_append_right _ hb)]

/-! ## the whole statement, its counter-examples, the verdict -/

def Full (cfg : Cfg) : Prop :=
  ∀ (u : Nat) (req : Option Int) (l : List Tok), FirstModelLeads l →
    ∃ r, read cfg u req l = .ok r ∧ (spec u req l r).ok = true

theorem refute_ok {cfg : Cfg} {u : Nat} {req : Option Int} {l : List Tok} {r0 : List (List Tok)} (hw : FirstModelLeads l)
    (h1 : isOk (read cfg u req l) r0 = true) (h2 : (spec u req l r0).ok = false) : ¬ Full cfg := by
  intro hf
  obtain ⟨r, hr, hs⟩ := hf u req l hw
  rw [isOk_iff, hr] at h1
  simp only [Except.ok.injEq] at h1
  rw [h1, h2] at hs
  exact Bool.noConfusion hs

theorem refute_err {cfg : Cfg} {u : Nat} {req : Option Int} {l : List Tok} {e : Err} (hw : FirstModelLeads l)
    (h1 : isErr (read cfg u req l) e = true) : ¬ Full cfg := by
  intro hf
  obtain ⟨r, hr, _⟩ := hf u req l hw
  rw [isErr_iff, hr] at h1
  cases h1

theorem lead_A : FirstModelLeads [exA1, exA2] := ⟨exA1, [], [exA2], rfl, by simp, by decide⟩
theorem lead_B : FirstModelLeads [exA1, exB2] := ⟨exA1, [], [exB2], rfl, by simp, by decide⟩
theorem lead_N : FirstModelLeads [exN1, exN2] := ⟨exN1, [exN2], [], rfl, by decide, by simp⟩

theorem not_full_keyModel (cfg : Cfg) (h : cfg.keyModel = false) : ¬ Full cfg := by
  obtain ⟨k, c, n⟩ := cfg
  simp only at h; subst h
  cases c <;> cases n <;>
    exact refute_ok (u := 1000) (req := some 2) (r0 := [[exA1]]) lead_A (by decide) (by decide)

theorem not_full_clashPerModel (cfg : Cfg) (h : cfg.clashPerModel = false) : ¬ Full cfg := by
  obtain ⟨k, c, n⟩ := cfg
  simp only at h; subst h
  cases k <;> cases n <;>
    exact refute_ok (u := 1000) (req := none) (r0 := [[exB2]]) lead_B (by decide) (by decide)

theorem not_full_noneSafe (cfg : Cfg) (h : cfg.noneSafe = false) : ¬ Full cfg := by
  obtain ⟨k, c, n⟩ := cfg
  simp only at h; subst h
  cases k <;> cases c <;>
    exact refute_err (u := 1000) (req := none) (e := .typeError) lead_N (by decide)

theorem full_fixed : Full cfgFixed := fun u req l hw => read_fixed_spec u req l hw

theorem verdict (cfg : Cfg) : (cfg = cfgFixed ∧ Full cfg) ∨ (cfg ≠ cfgFixed ∧ ¬ Full cfg) := by
  obtain ⟨k, c, n⟩ := cfg
  cases k
  · exact Or.inr ⟨by simp [cfgFixed], not_full_keyModel _ rfl⟩
  · cases c
    · exact Or.inr ⟨by simp [cfgFixed], not_full_clashPerModel _ rfl⟩
    · cases n
      · exact Or.inr ⟨by simp [cfgFixed], not_full_noneSafe _ rfl⟩
      · exact Or.inl ⟨rfl, full_fixed⟩

/-! ## single-model tables: every configuration behaves like the repaired one -/

theorem sameKey_single (cfg : Cfg) {a b : Tok} (h : a.model = b.model) : sameKey cfg a b = sameKey cfgFixed a b := by
  simp [sameKey, cfgFixed, h]

theorem clashes_single (cfg : Cfg) (u : Nat) {a b : Tok} (h : a.model = b.model) :
    clashes cfg u a b = clashes cfgFixed u a b := by
  simp [clashes, cfgFixed, h]

theorem upsert_mem {cfg : Cfg} {a x : Tok} {acc : List Tok} (h : x ∈ upsert cfg a acc) : x = a ∨ x ∈ acc := by
  induction acc with
  | nil => simp [upsert] at h; exact Or.inl h
  | cons c rest ih =>
    simp only [upsert] at h
    split at h
    · split at h
      · rcases List.mem_cons.1 h with h | h
        · exact Or.inl h
        · exact Or.inr (List.mem_cons_of_mem _ h)
      · exact Or.inr h
    · rcases List.mem_cons.1 h with h | h
      · exact Or.inr (by rw [h]; exact List.mem_cons_self)
      · rcases ih h with h | h
        · exact Or.inl h
        · exact Or.inr (List.mem_cons_of_mem _ h)

theorem upsert_single (cfg : Cfg) {a : Tok} {acc : List Tok} (h : ∀ c ∈ acc, c.model = a.model) :
    upsert cfg a acc = upsert cfgFixed a acc := by
  induction acc with
  | nil => rfl
  | cons c rest ih =>
    have hc := h c List.mem_cons_self
    simp only [upsert, sameKey_single cfg hc, ih (fun x hx => h x (List.mem_cons_of_mem _ hx))]

theorem foldl_single (cfg : Cfg) (m : Int) (l : List Tok) : ∀ (acc : List Tok), (∀ c ∈ acc, c.model = m) →
    (∀ t ∈ l, t.model = m) →
    l.foldl (fun acc a => upsert cfg a acc) acc = l.foldl (fun acc a => upsert cfgFixed a acc) acc := by
  induction l with
  | nil => intros; rfl
  | cons a rest ih =>
    intro acc hacc hl
    have ha : a.model = m := hl a List.mem_cons_self
    simp only [List.foldl_cons]
    rw [upsert_single cfg (fun c hc => (hacc c hc).trans ha.symm)]
    apply ih
    · intro c hc
      rcases upsert_mem hc with h | h
      · rw [h]; exact ha
      · exact hacc c h
    · exact fun t ht => hl t (List.mem_cons_of_mem _ ht)

theorem any_congr_mem {p q : Tok → Bool} {l : List Tok} (h : ∀ x ∈ l, p x = q x) : l.any p = l.any q := by
  induction l with
  | nil => rfl
  | cons a rest ih =>
    simp only [List.any_cons, h a List.mem_cons_self, ih (fun x hx => h x (List.mem_cons_of_mem _ hx))]

theorem aux_single (cfg : Cfg) (u : Nat) (m : Int) (l : List Tok) : ∀ (pre : List Tok), (∀ c ∈ pre, c.model = m) →
    (∀ t ∈ l, t.model = m) → filterClashAux cfg u pre l = filterClashAux cfgFixed u pre l := by
  induction l with
  | nil => intros; rfl
  | cons a rest ih =>
    intro pre hpre hl
    have ha : a.model = m := hl a List.mem_cons_self
    have h1 : pre.any (beatenByEarlier cfg u a) = pre.any (beatenByEarlier cfgFixed u a) :=
      any_congr_mem (fun x hx => by
        have e : a.model = x.model := ha.trans (hpre x hx).symm
        simp only [beatenByEarlier, clashes_single cfg u e])
    have h2 : rest.any (beatenByLater cfg u a) = rest.any (beatenByLater cfgFixed u a) :=
      any_congr_mem (fun x hx => by
        have e : a.model = x.model := ha.trans (hl x (List.mem_cons_of_mem _ hx)).symm
        simp only [beatenByLater, clashes_single cfg u e])
    have h3 := ih (a :: pre) (fun c hc => by
      rcases List.mem_cons.1 hc with h | h
      · rw [h]; exact ha
      · exact hpre c h) (fun t ht => hl t (List.mem_cons_of_mem _ ht))
    simp only [filterClashAux, h1, h2, h3]

theorem single_model_spec (cfg : Cfg) (u : Nat) (req : Option Int) {l : List Tok} {m : Int} (hl : l ≠ [])
    (hm : ∀ t ∈ l, t.model = m) {r : List (List Tok)} (h : read cfg u req l = .ok r) :
    (spec u req l r).ok = true := by
  have hw : FirstModelLeads l := by
    obtain ⟨a, rest, rfl⟩ := List.exists_cons_of_ne_nil hl
    exact ⟨a, rest, [], by simp, fun t ht =>
      (hm t (List.mem_cons_of_mem _ ht)).trans (hm a List.mem_cons_self).symm, by simp⟩
  obtain ⟨r', hr', hs⟩ := read_fixed_spec u req l hw
  have hdd : dedup cfg l = dedup cfgFixed l := foldl_single cfg m l [] (by simp) hm
  have : r = r' := by
    unfold read at h
    cases hfd : filterDup cfg l with
    | error e => rw [hfd] at h; cases h
    | ok d =>
      rw [hfd] at h
      have hd := filterDup_ok hfd
      rw [hdd] at hd
      have hdm : ∀ t ∈ d, t.model = m := fun t ht => hm t (dedup_mem (by rw [← hd]; exact ht))
      rw [read_fixed_eq u req hl, ← hd] at hr'
      simp only at h
      cases hfc : filterClash cfg u d with
      | error e => rw [hfc] at h; cases h
      | ok c =>
        rw [hfc] at h
        obtain ⟨_, hc⟩ := filterClash_ok hfc
        rw [aux_single cfg u m d [] (by simp) hdm] at hc
        simp only [Except.ok.injEq] at h hr'
        rw [← h, ← hr', hc]
  rw [this]; exact hs

end RnaVerif.PdbV1

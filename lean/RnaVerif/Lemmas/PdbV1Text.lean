import RnaVerif.Lemmas.PdbV1
/-! # Text level of reader v1: the column slicer on fixed-width lines; concrete records -/
namespace RnaVerif.PdbV1
open RnaVerif

theorem len3 {l : List Char} (h : l.length = 3) : ∃ a b c, l = [a, b, c] := by
  match l, h with
  | [a, b, c], _ => exact ⟨a, b, c, rfl⟩
theorem len4 {l : List Char} (h : l.length = 4) : ∃ a b c d, l = [a, b, c, d] := by
  match l, h with
  | [a, b, c, d], _ => exact ⟨a, b, c, d, rfl⟩
theorem len5 {l : List Char} (h : l.length = 5) : ∃ a b c d e, l = [a, b, c, d, e] := by
  match l, h with
  | [a, b, c, d, e], _ => exact ⟨a, b, c, d, e, rfl⟩
theorem len6 {l : List Char} (h : l.length = 6) : ∃ a b c d e f, l = [a, b, c, d, e, f] := by
  match l, h with
  | [a, b, c, d, e, f], _ => exact ⟨a, b, c, d, e, f, rfl⟩
theorem len8 {l : List Char} (h : l.length = 8) : ∃ a b c d e f g i, l = [a, b, c, d, e, f, g, i] := by
  match l, h with
  | [a, b, c, d, e, f, g, i], _ => exact ⟨a, b, c, d, e, f, g, i, rfl⟩

/-- the fixed-width fields of an ATOM/HETATM line (PDB format v3.3), as texts -/
structure PdbFields where
  het : Bool
  serial : List Char    -- columns 7-11
  name : List Char      -- 13-16
  alt : Char            -- 17
  resName : List Char   -- 18-20
  chain : Char          -- 22
  num : List Char       -- 23-26
  icode : Char          -- 27
  x : List Char         -- 31-38
  y : List Char         -- 39-46
  z : List Char         -- 47-54
  occ : List Char       -- 55-60
  tail : List Char      -- 61-…

def PdbFields.WellSized (f : PdbFields) : Prop :=
  f.serial.length = 5 ∧ f.name.length = 4 ∧ f.resName.length = 3 ∧ f.num.length = 4 ∧ f.x.length = 8 ∧
  f.y.length = 8 ∧ f.z.length = 8 ∧ f.occ.length = 6

def PdbFields.line (f : PdbFields) : List Char :=
  (if f.het then "HETATM".toList else "ATOM  ".toList) ++ f.serial ++ [' '] ++ f.name ++ [f.alt] ++ f.resName ++
  [' ', f.chain] ++ f.num ++ [f.icode] ++ [' ', ' ', ' '] ++ f.x ++ f.y ++ f.z ++ f.occ ++ f.tail

/-- what the reader must make of the fields: `strip` on the names, `int()` on the number, `float()`
on coordinates and occupancy, chain and insertion code as single characters (blank = none) -/
def PdbFields.expected (f : PdbFields) (cur : Int) : Except Err LineV1 :=
  match pyInt f.num with
  | none => .error .valueError
  | some num =>
    match pyFloat f.x, pyFloat f.y, pyFloat f.z, pyFloat f.occ with
    | some x, some y, some z, some o =>
      .ok (.atom { model := cur, entity := none, label := none,
                   auth := some ⟨String.singleton f.chain, num,
                                 if String.singleton f.icode == " " then none else some (String.singleton f.icode),
                                 str (strip f.resName)⟩,
                   name := str (strip f.name), alt := "", occ := some o, x := x, y := y, z := z, het := f.het })
    | _, _, _, _ => .error .valueError

theorem parseLine_fields (cur : Int) (f : PdbFields) (hw : f.WellSized) :
    parseLineV1 cur f.line = f.expected cur := by
  obtain ⟨het, serial, name, alt, resName, chain, num, icode, x, y, z, occ, tail⟩ := f
  obtain ⟨h1, h2, h3, h4, h5, h6, h7, h8⟩ := hw
  simp only at h1 h2 h3 h4 h5 h6 h7 h8
  obtain ⟨s0, s1, s2, s3, s4, rfl⟩ := len5 h1
  obtain ⟨n0, n1, n2, n3, rfl⟩ := len4 h2
  obtain ⟨r0, r1, r2, rfl⟩ := len3 h3
  obtain ⟨d0, d1, d2, d3, rfl⟩ := len4 h4
  obtain ⟨x0, x1, x2, x3, x4, x5, x6, x7, rfl⟩ := len8 h5
  obtain ⟨y0, y1, y2, y3, y4, y5, y6, y7, rfl⟩ := len8 h6
  obtain ⟨z0, z1, z2, z3, z4, z5, z6, z7, rfl⟩ := len8 h7
  obtain ⟨o0, o1, o2, o3, o4, o5, rfl⟩ := len6 h8
  cases het <;>
    simp [PdbFields.line, PdbFields.expected, parseLineV1, Gen.Parser.pdbRecordTests, startsWith, slice,
      Gen.Parser.pdbAtomName, Gen.Parser.pdbResName, Gen.Parser.pdbChain, Gen.Parser.pdbResNum, Gen.Parser.pdbIcode,
      Gen.Parser.pdbX, Gen.Parser.pdbY, Gen.Parser.pdbZ, Gen.Parser.pdbOcc, Gen.Parser.pdbIcodeBlank, List.isPrefixOf]
  all_goals
    generalize pyInt [d0, d1, d2, d3] = pn
    generalize pyFloat [x0, x1, x2, x3, x4, x5, x6, x7] = px
    generalize pyFloat [y0, y1, y2, y3, y4, y5, y6, y7] = py
    generalize pyFloat [z0, z1, z2, z3, z4, z5, z6, z7] = pz
    generalize pyFloat [o0, o1, o2, o3, o4, o5] = po
    cases pn <;> cases px <;> cases py <;> cases pz <;> cases po <;> rfl

/-! ## concrete records -/

/-- records within the PDB limits: negative number with insertion code, extreme coordinates,
four-character and one-character names, HETATM, serial wrap -/
def exAtoms : List PdbAtom :=
  [ { het := false, serial := 1, name := "P".toList, alt := ' ', resName := "G".toList, chain := 'A', num := -1, icode := 'A',
      x := 11000, y := -2000, z := -3500, occ := 50, model := 3 },
    { het := true, serial := 123456, name := "HO5'".toList, alt := 'B', resName := "PSU".toList, chain := 'z', num := -999,
      icode := ' ', x := -999999, y := 9999999, z := 1, occ := 100, model := 1 },
    { het := false, serial := 99999, name := "C1'".toList, alt := ' ', resName := "DA".toList, chain := '1', num := 9999,
      icode := ' ', x := 0, y := -1, z := 123456, occ := 0, model := 12 } ]

/-- an `_atom_site` row with insertion code `mi` and occupancy `mo` -/
def exRow (mi mo : String) (a : String) : Option String :=
  [("label_entity_id", "1"), ("label_asym_id", "A"), ("label_seq_id", "2"), ("label_comp_id", "G"), ("auth_asym_id", "A"),
   ("auth_seq_id", "2"), ("auth_comp_id", "G"), ("pdbx_PDB_ins_code", mi), ("pdbx_PDB_model_num", "1"),
   ("label_atom_id", "P"), ("Cartn_x", "1.000"), ("Cartn_y", "-2.5"), ("Cartn_z", "3"), ("occupancy", mo)].lookup a

def exRowTok : RawTok :=
  { model := 1, entity := some "1", label := some ⟨"A", 2, "G"⟩, auth := some ⟨"A", 2, none, "G"⟩, name := "P", alt := "",
    occ := none, x := ⟨1000, 3⟩, y := ⟨-25, 1⟩, z := ⟨3, 0⟩, het := false }

end RnaVerif.PdbV1

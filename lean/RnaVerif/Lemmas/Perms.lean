import RnaVerif.Model.Levels
/-! # list combinatorics used by `all_dot_brackets`: the model's `perms`, an insertion sort by a key,
`dedup` / `dedupFirst`, the cartesian `product`, `mapM` in `Except` (core Lean only) -/
namespace RnaVerif.SecStr.AllDB

/-! ### `insertAll`, `perms` -/

theorem mem_insertAll {α} {x : α} : ∀ {ys l : List α},
    l ∈ insertAll x ys ↔ ∃ a b, ys = a ++ b ∧ l = a ++ x :: b := by
  intro ys
  induction ys with
  | nil =>
    intro l
    simp only [insertAll, List.mem_singleton]
    constructor
    · rintro rfl; exact ⟨[], [], rfl, rfl⟩
    · rintro ⟨a, b, h, rfl⟩
      have := List.nil_eq_append_iff.mp h
      simp [this.1, this.2]
  | cons y ys ih =>
    intro l
    simp only [insertAll, List.mem_cons, List.mem_map]
    constructor
    · rintro (rfl | ⟨l', hl', rfl⟩)
      · exact ⟨[], y :: ys, rfl, rfl⟩
      · obtain ⟨a, b, rfl, rfl⟩ := ih.mp hl'
        exact ⟨y :: a, b, rfl, rfl⟩
    · rintro ⟨a, b, h, rfl⟩
      cases a with
      | nil => left; simp at h; simp [h]
      | cons a0 a =>
        right
        simp at h
        obtain ⟨rfl, rfl⟩ := h
        exact ⟨a ++ x :: b, ih.mpr ⟨a, b, rfl, rfl⟩, rfl⟩

/-- the model's `perms` enumerates exactly the permutations -/
theorem mem_perms {α} : ∀ {xs l : List α}, l ∈ perms xs ↔ l.Perm xs := by
  intro xs
  induction xs with
  | nil => intro l; simp [perms]
  | cons x xs ih =>
    intro l
    simp only [perms, List.mem_flatMap]
    constructor
    · rintro ⟨p, hp, hl⟩
      obtain ⟨a, b, rfl, rfl⟩ := mem_insertAll.mp hl
      have := ih.mp hp
      exact (List.perm_middle).trans (List.Perm.cons x this)
    · intro h
      have hx : x ∈ l := h.symm.subset (by simp)
      obtain ⟨a, b, rfl⟩ := List.append_of_mem hx
      have h' : (a ++ b).Perm xs := by
        have := (List.perm_middle (a := x) (l₁ := a) (l₂ := b)).symm.trans h
        exact (List.perm_cons x).mp this
      exact ⟨a ++ b, ih.mpr h', mem_insertAll.mpr ⟨a, b, rfl, rfl⟩⟩

/-! ### insertion sort by a key -/

def insertBy (f : Nat → Nat) (x : Nat) : List Nat → List Nat
  | [] => [x]
  | y :: ys => if f x ≤ f y then x :: y :: ys else y :: insertBy f x ys

def sortBy (f : Nat → Nat) : List Nat → List Nat
  | [] => []
  | x :: xs => insertBy f x (sortBy f xs)

theorem insertBy_perm (f : Nat → Nat) (x : Nat) : ∀ ys, (insertBy f x ys).Perm (x :: ys) := by
  intro ys
  induction ys with
  | nil => simp [insertBy]
  | cons y ys ih =>
    unfold insertBy
    split
    · exact List.Perm.refl _
    · exact (List.Perm.cons y ih).trans (List.Perm.swap x y ys)

theorem sortBy_perm (f : Nat → Nat) : ∀ xs, (sortBy f xs).Perm xs := by
  intro xs
  induction xs with
  | nil => simp [sortBy]
  | cons x xs ih => exact (insertBy_perm f x _).trans (List.Perm.cons x ih)

theorem insertBy_sorted (f : Nat → Nat) (x : Nat) : ∀ ys,
    ys.Pairwise (fun a b => f a ≤ f b) → (insertBy f x ys).Pairwise (fun a b => f a ≤ f b) := by
  intro ys
  induction ys with
  | nil => intro _; simp [insertBy]
  | cons y ys ih =>
    intro h
    rw [List.pairwise_cons] at h
    unfold insertBy
    split
    · rename_i hle
      rw [List.pairwise_cons]
      refine ⟨?_, List.pairwise_cons.mpr h⟩
      intro z hz
      rcases List.mem_cons.mp hz with rfl | hz
      · exact hle
      · exact Nat.le_trans hle (h.1 z hz)
    · rename_i hle
      rw [List.pairwise_cons]
      refine ⟨?_, ih h.2⟩
      intro z hz
      have := (insertBy_perm f x ys).subset hz
      rcases List.mem_cons.mp this with rfl | hz
      · omega
      · exact h.1 z hz

theorem sortBy_sorted (f : Nat → Nat) : ∀ xs, (sortBy f xs).Pairwise (fun a b => f a ≤ f b) := by
  intro xs
  induction xs with
  | nil => simp [sortBy]
  | cons x xs ih => exact insertBy_sorted f x _ ih

/-! ### `dedup`, `dedupFirst` -/

theorem mem_dedup {α} [BEq α] [LawfulBEq α] : ∀ {l : List α} {x : α}, x ∈ dedup l ↔ x ∈ l := by
  intro l
  induction l with
  | nil => simp [dedup]
  | cons y ys ih =>
    intro x
    simp only [dedup]
    split
    · rename_i h
      have hy : y ∈ ys := ih.mp (by simpa using h)
      constructor
      · intro hx; exact List.mem_cons_of_mem _ (ih.mp hx)
      · intro hx
        rcases List.mem_cons.mp hx with rfl | hx
        · exact ih.mpr hy
        · exact ih.mpr hx
    · simp [ih]

theorem dedup_nodup {α} [BEq α] [LawfulBEq α] : ∀ (l : List α), (dedup l).Nodup := by
  intro l
  induction l with
  | nil => simp [dedup]
  | cons y ys ih =>
    simp only [dedup]
    split
    · exact ih
    · rename_i h
      exact List.nodup_cons.mpr ⟨by simpa using h, ih⟩

theorem mem_dedupFirst {α} [BEq α] [LawfulBEq α] {x : α} {l : List α} : x ∈ dedupFirst l ↔ x ∈ l := by
  simp [dedupFirst, mem_dedup]

theorem dedupFirst_nodup {α} [BEq α] [LawfulBEq α] (l : List α) : (dedupFirst l).Nodup := by
  simp only [dedupFirst]
  exact (List.Perm.nodup_iff (List.reverse_perm _)).mpr (dedup_nodup _)

/-! ### pointwise relation between two lists (core has no `Forall₂`) -/

inductive All2 {α β} (R : α → β → Prop) : List α → List β → Prop
  | nil : All2 R [] []
  | cons {a b as bs} : R a b → All2 R as bs → All2 R (a :: as) (b :: bs)

theorem All2.imp {α β} {R S : α → β → Prop} (H : ∀ a b, R a b → S a b) :
    ∀ {as bs}, All2 R as bs → All2 S as bs := by
  intro as bs h
  induction h with
  | nil => exact All2.nil
  | cons h1 _ ih => exact All2.cons (H _ _ h1) ih

theorem All2.imp_mem {α β} {R S : α → β → Prop} : ∀ {as bs}, All2 R as bs →
    (∀ a ∈ as, ∀ b ∈ bs, R a b → S a b) → All2 S as bs := by
  intro as bs h
  induction h with
  | nil => intro _; exact All2.nil
  | cons h1 _ ih =>
    intro H
    exact All2.cons (H _ (by simp) _ (by simp) h1)
      (ih fun a ha b hb => H a (List.mem_cons_of_mem _ ha) b (List.mem_cons_of_mem _ hb))

theorem all2_map_right {α β γ} {R : α → γ → Prop} (g : β → γ) : ∀ {as : List α} {bs : List β},
    All2 R as (bs.map g) ↔ All2 (fun a b => R a (g b)) as bs := by
  intro as
  induction as with
  | nil =>
    intro bs
    cases bs with
    | nil => exact ⟨fun _ => All2.nil, fun _ => All2.nil⟩
    | cons b bs => exact ⟨fun h => (by cases h), fun h => (by cases h)⟩
  | cons a as ih =>
    intro bs
    cases bs with
    | nil => exact ⟨fun h => (by cases h), fun h => (by cases h)⟩
    | cons b bs =>
      constructor
      · intro h; cases h with | cons h1 h2 => exact All2.cons h1 (ih.mp h2)
      · intro h; cases h with | cons h1 h2 => exact All2.cons h1 (ih.mpr h2)

theorem All2.map_eq {α β γ} (g : α → γ) (k : β → γ) : ∀ {as : List α} {bs : List β},
    All2 (fun a b => g a = k b) as bs → as.map g = bs.map k := by
  intro as bs h
  induction h with
  | nil => rfl
  | cons h1 _ ih => simp [h1, ih]

theorem All2.length_eq {α β} {R : α → β → Prop} : ∀ {as bs}, All2 R as bs → as.length = bs.length := by
  intro as bs h
  induction h with
  | nil => rfl
  | cons _ _ ih => simp [ih]

/-- `All2` against the image of the second list -/
theorem all2_map_iff {α β} {R : α → β → Prop} (g : β → α) : ∀ {bs : List β},
    All2 R (bs.map g) bs ↔ ∀ b ∈ bs, R (g b) b := by
  intro bs
  induction bs with
  | nil => simp only [List.map_nil, List.not_mem_nil, false_imp_iff, implies_true, iff_true]; exact All2.nil
  | cons b bs ih =>
    simp only [List.map_cons, List.mem_cons, forall_eq_or_imp]
    constructor
    · intro h; cases h with | cons h1 h2 => exact ⟨h1, ih.mp h2⟩
    · rintro ⟨h1, h2⟩; exact All2.cons h1 (ih.mpr h2)

theorem All2.eq_map {α β} (g : β → α) : ∀ {as : List α} {bs : List β},
    All2 (fun a b => a = g b) as bs → as = bs.map g := by
  intro as bs h
  induction h with
  | nil => rfl
  | cons h1 _ ih => simp [h1, ih]

/-- membership in the flattened first list -/
theorem All2.mem_flatten {α β} {R : List α → β → Prop} : ∀ {as : List (List α)} {bs : List β},
    All2 R as bs → ∀ x, x ∈ as.flatten ↔ ∃ a b, a ∈ as ∧ b ∈ bs ∧ R a b ∧ x ∈ a := by
  intro as bs h x
  constructor
  · intro hx
    obtain ⟨a, ha, hxa⟩ := List.mem_flatten.mp hx
    clear hx
    induction h with
    | nil => cases ha
    | cons h1 _ ih =>
      rcases List.mem_cons.mp ha with rfl | ha
      · exact ⟨_, _, by simp, by simp, h1, hxa⟩
      · obtain ⟨a', b', h1', h2', h3', h4'⟩ := ih ha
        exact ⟨a', b', List.mem_cons_of_mem _ h1', List.mem_cons_of_mem _ h2', h3', h4'⟩
  · rintro ⟨a, b, ha, _, _, hxa⟩
    exact List.mem_flatten.mpr ⟨a, ha, hxa⟩

theorem All2.exists_left {α β} {R : α → β → Prop} : ∀ {as : List α} {bs : List β},
    All2 R as bs → ∀ b ∈ bs, ∃ a ∈ as, R a b := by
  intro as bs h
  induction h with
  | nil => intro b hb; cases hb
  | cons h1 _ ih =>
    intro b hb
    rcases List.mem_cons.mp hb with rfl | hb
    · exact ⟨_, by simp, h1⟩
    · obtain ⟨a, ha, hr⟩ := ih b hb
      exact ⟨a, List.mem_cons_of_mem _ ha, hr⟩

/-! ### cartesian product -/

theorem mem_product {α} : ∀ {ls : List (List α)} {l : List α},
    l ∈ product ls ↔ All2 (fun x xs => x ∈ xs) l ls := by
  intro ls
  induction ls with
  | nil =>
    intro l
    simp only [product, List.mem_singleton]
    constructor
    · rintro rfl; exact All2.nil
    · intro h; cases h; rfl
  | cons xs rest ih =>
    intro l
    simp only [product, List.mem_flatMap, List.mem_map]
    constructor
    · rintro ⟨x, hx, t, ht, rfl⟩
      exact All2.cons hx (ih.mp ht)
    · intro h
      cases h with
      | cons hx ht => exact ⟨_, hx, _, ih.mpr ht, rfl⟩

/-! ### `mapM` in `Except` -/

theorem mapM_ok {ε α β} (f : α → Except ε β) : ∀ {l : List α} {r : List β},
    l.mapM f = .ok r ↔ All2 (fun a b => f a = .ok b) l r := by
  intro l
  induction l with
  | nil =>
    intro r
    simp only [List.mapM_nil]
    constructor
    · intro h
      have : r = [] := by cases h; rfl
      subst this; exact All2.nil
    · intro h; cases h; rfl
  | cons a as ih =>
    intro r
    rw [List.mapM_cons]
    cases hfa : f a with
    | error e =>
      constructor
      · intro h; cases h
      · intro h; cases h with
        | cons h1 _ => rw [hfa] at h1; cases h1
    | ok b =>
      cases hm : as.mapM f with
      | error e =>
        constructor
        · intro h; cases h
        · intro h
          cases h with
          | cons h1 h2 => rw [ih.mpr h2] at hm; cases hm
      | ok bs =>
        constructor
        · intro h
          have : r = b :: bs := by cases h; rfl
          subst this
          exact All2.cons hfa (ih.mp hm)
        · intro h
          cases h with
          | cons h1 h2 =>
            rw [hfa] at h1
            rw [ih.mpr h2] at hm
            cases h1; cases hm; rfl

end RnaVerif.SecStr.AllDB

import RnaVerif.Lemmas.PoaOptimal
/-!
# C02 lemmas specialised to the model's `milp c regs = some m` (conflict graph `adjOf c regs`, lengths
`regs.map (·.len)`, level bound `Δ + Gen.maxOrderOffset`).
-/
namespace RnaVerif.SecStr.Poa

section
variable (c : ConfPred) (regs : List Region) (m : Milp) (h : milp c regs = some m)
include h

theorem model_shape : m.nRegions = regs.length ∧
    m.maxOrder = maxDegree (adjOf c regs) regs.length + Gen.maxOrderOffset := by
  rw [milp_some c regs m h]; exact ⟨rfl, rfl⟩

theorem model_not_edgeless : ¬ Edgeless (adjOf c regs) regs.length := by
  intro he
  rw [(milp_none_iff c regs).mpr he] at h
  cases h

theorem model_feasible_iff (x : Assign) :
    feasible m x = true ↔
      OneHot regs.length m.maxOrder x (levelsOf m x) ∧
        proper (adjOf c regs) (levelsOf m x) = true := by
  rw [milp_some c regs m h]; exact feasible_iff _ _ _ _ x

theorem model_levels (x : Assign) (hf : feasible m x = true) :
    (levelsOf m x).length = regs.length ∧ ∀ i, i < regs.length → (levelsOf m x).getD i 0 < m.maxOrder := by
  have hoh := ((model_feasible_iff c regs m h x).mp hf).1
  refine ⟨?_, fun i hi => (hoh i hi).1⟩
  rw [milp_some c regs m h]; exact levelsOf_length _ _ _ _ x

theorem model_objective (x : Assign) (hf : feasible m x = true) :
    objective m x = score (regs.map (·.len)) (levelsOf m x) := by
  rw [lens_eq_map]
  rw [milp_some c regs m h] at hf ⊢
  exact objective_eq_score _ _ _ _ x hf

theorem model_encode (lv : List Nat) (hl : lv.length = regs.length)
    (hb : ∀ i, i < regs.length → lv.getD i 0 < m.maxOrder)
    (hp : proper (adjOf c regs) lv = true) :
    feasible m (encode lv) = true ∧ levelsOf m (encode lv) = lv := by
  rw [milp_some c regs m h] at hb ⊢
  exact ⟨feasible_encode _ _ _ _ lv hl hb hp, levelsOf_encode _ _ _ _ lv hl hb⟩

theorem model_readBack (x : Assign) (hf : feasible m x = true) (ones : List (Nat × Nat))
    (hones : ∀ i o, (i, o) ∈ ones ↔ i < regs.length ∧ o < m.maxOrder ∧ x i o = true) :
    readBack regs.length ones = levelsOf m x := by
  rw [milp_some c regs m h] at hf hones ⊢
  exact readBack_eq _ _ _ _ x hf ones hones

theorem model_readBack_onesOf (x : Assign) (hf : feasible m x = true) :
    readBack regs.length (onesOf m x) = levelsOf m x := by
  apply model_readBack c regs m h x hf
  intro i o
  rw [milp_some c regs m h]
  exact mem_onesOf _ _ _ _ x i o

theorem model_optimal_global (x : Assign) (hopt : Optimal m x) :
    BestProper (adjOf c regs) (regs.map (·.len)) (levelsOf m x) := by
  have hl := (model_levels c regs m h x hopt.1).1
  rw [lens_eq_map]
  rw [milp_some c regs m h] at hopt hl ⊢
  have := optimal_is_global (adjOf c regs) (adjOf_symIrr c regs) _ regs.length _
    (Nat.lt_add_of_pos_right (by decide : 0 < Gen.maxOrderOffset)) x hopt
  refine ⟨this.1, ?_⟩
  intro b hb
  exact this.2 b (by omega)

theorem model_exists_optimal : ∃ x : Assign, Optimal m x := by
  rw [milp_some c regs m h]
  exact exists_optimal (adjOf c regs) (adjOf_symIrr c regs) _ regs.length _
    (Nat.lt_add_of_pos_right (by decide : 0 < Gen.maxOrderOffset))

theorem model_optimal_grundy (hpos : ∀ r ∈ regs, 1 ≤ r.len) (x : Assign) (hopt : Optimal m x) :
    grundy (adjOf c regs) (levelsOf m x) = true := by
  apply best_is_grundy (adjOf c regs) (adjOf_symIrr c regs) (regs.map (·.len))
  · rw [(model_levels c regs m h x hopt.1).1]; simp
  · intro l hl
    obtain ⟨r, hr, rfl⟩ := List.mem_map.mp hl
    exact hpos r hr
  · exact model_optimal_global c regs m h x hopt

end

end RnaVerif.SecStr.Poa

import RnaVerif.Lemmas.Milp
/-!
# Consequences of optimality (C02): Grundy, no move to a lower level, edgeless graphs, existence of an
optimal solution of the program.
-/
namespace RnaVerif.SecStr.Poa

/-- `a` has the best score among the proper level vectors of its length -/
def BestProper (adj : Nat → Nat → Bool) (lens a : List Nat) : Prop :=
  proper adj a = true ∧
    ∀ b : List Nat, b.length = a.length → proper adj b = true → score lens b ≤ score lens a

/-- an optimal proper assignment (all stems non-empty) is Grundy: every stem sits on the lowest level
not occupied by a stem crossing it -/
theorem best_is_grundy (adj : Nat → Nat → Bool) (hadj : SymIrr adj) (lens a : List Nat)
    (hlen : a.length = lens.length) (hpos : ∀ l ∈ lens, 1 ≤ l) (hbest : BestProper adj lens a) :
    grundy adj a = true := by
  obtain ⟨hp, hb⟩ := hbest
  obtain ⟨h1, h2, h3⟩ := pushDown_spec adj hadj a hp
  have hm := score_mono lens a (pushDown adj a) hlen (by omega) h3
  have hle := hb (pushDown adj a) h1 ((grundy_iff adj _).mp h2).1
  have := hm.2 hpos hle
  rw [this]; exact h2

/-- moving one non-empty stem to a lower level strictly increases the score -/
theorem score_set_lt (lens : List Nat) : ∀ (a : List Nat) (v d : Nat), a.length = lens.length →
    v < a.length → d < a.getD v 0 → 1 ≤ lens.getD v 0 → score lens a < score lens (a.set v d) := by
  induction lens with
  | nil => intro a v d ha hv; simp at ha; subst ha; simp at hv
  | cons l lens ih =>
    intro a v d ha hv hd hl
    match a, ha, hv, hd with
    | x :: a, ha, hv, hd =>
      cases v with
      | zero =>
        have hd' : d < x := by simpa using hd
        have hl' : 1 ≤ l := by simpa using hl
        rw [List.set_cons_zero, score_cons, score_cons]
        have := objCoeff_strict l d x hl' hd'
        omega
      | succ v =>
        rw [List.set_cons_succ, score_cons, score_cons]
        have := ih a v d (by simpa using ha) (by simpa using hv) (by simpa using hd)
          (by simpa using hl)
        omega

/-- in an optimal proper assignment no (non-empty) stem can be moved to a lower level: the move
always creates a clash -/
theorem best_no_move_down (adj : Nat → Nat → Bool) (lens a : List Nat)
    (hlen : a.length = lens.length) (hbest : BestProper adj lens a) (v d : Nat) (hv : v < a.length)
    (hd : d < a.getD v 0) (hl : 1 ≤ lens.getD v 0) : proper adj (a.set v d) = false := by
  cases h : proper adj (a.set v d)
  · rfl
  · exfalso
    have h1 := hbest.2 (a.set v d) (by simp) h
    have h2 := score_set_lt lens a v d hlen hv hd hl
    omega

/-! ### edgeless conflict graph -/

def Edgeless (adj : Nat → Nat → Bool) (n : Nat) : Prop :=
  (List.range n).all (fun v => degree adj n v == 0) = true

instance (adj : Nat → Nat → Bool) (n : Nat) : Decidable (Edgeless adj n) := by
  unfold Edgeless; infer_instance

theorem edgeless_iff (adj : Nat → Nat → Bool) (n : Nat) :
    Edgeless adj n ↔ ∀ u, u < n → ∀ v, v < n → adj u v = false := by
  simp only [Edgeless, List.all_eq_true, List.mem_range, beq_iff_eq, degree, List.length_eq_zero_iff,
    List.filter_eq_nil_iff, Bool.not_eq_true]
  constructor
  · intro h u hu v hv; exact h v hv u hu
  · intro h v hv u hu; exact h u hu v hv

theorem getD_replicate_zero (n i : Nat) : (List.replicate n 0).getD i 0 = 0 := by
  simp only [List.getD, List.getElem?_replicate]
  split <;> rfl

/-- with no crossing stems, "all on level 0" is proper and has the best score of all level vectors -/
theorem edgeless_zero_best (adj : Nat → Nat → Bool) (lens : List Nat)
    (h : Edgeless adj lens.length) :
    proper adj (List.replicate lens.length 0) = true ∧
    ∀ a : List Nat, a.length = lens.length →
      score lens a ≤ score lens (List.replicate lens.length 0) := by
  refine ⟨?_, ?_⟩
  · rw [proper_iff]
    intro u hu v hv ha
    simp only [List.length_replicate] at hu hv
    rw [(edgeless_iff adj _).mp h u hu v hv] at ha
    cases ha
  · intro a ha
    refine (score_mono lens a _ ha (by simp) ?_).1
    intro i; rw [getD_replicate_zero]; omega

/-- with no crossing stems (all non-empty), the only optimal assignment is "all on level 0" -/
theorem edgeless_best_zero (adj : Nat → Nat → Bool) (lens a : List Nat)
    (hlen : a.length = lens.length) (hpos : ∀ l ∈ lens, 1 ≤ l) (h : Edgeless adj lens.length)
    (hbest : BestProper adj lens a) : a = List.replicate lens.length 0 := by
  have hz := (edgeless_zero_best adj lens h).1
  have hm := score_mono lens a (List.replicate lens.length 0) hlen (by simp)
    (by intro i; rw [getD_replicate_zero]; omega)
  exact hm.2 hpos (hbest.2 _ (by simp [hlen]) hz)

theorem milp_none_iff (c : ConfPred) (regs : List Region) :
    milp c regs = none ↔ Edgeless (adjOf c regs) regs.length := by
  rw [milp_eq]
  unfold Edgeless
  split <;> simp_all

theorem milp_some (c : ConfPred) (regs : List Region) (m : Milp) (h : milp c regs = some m) :
    m = milpG (adjOf c regs) (fun i => (regs.getD i default).len) regs.length
      (maxDegree (adjOf c regs) regs.length + Gen.maxOrderOffset) := by
  rw [milp_eq] at h
  split at h
  · cases h
  · exact (Option.some.inj h).symm

/-! ### an optimal solution of the program always exists -/

theorem mem_vecs (k : Nat) : ∀ (n : Nat) (a : List Nat),
    a ∈ vecs k n ↔ a.length = n ∧ ∀ e ∈ a, e < k := by
  intro n
  induction n with
  | zero =>
    intro a
    simp only [vecs, List.mem_singleton]
    constructor
    · intro h; subst h; simp
    · intro h; exact List.length_eq_zero_iff.mp h.1
  | succ n ih =>
    intro a
    simp only [vecs, List.mem_flatMap, List.mem_range, List.mem_map]
    constructor
    · rintro ⟨o, ho, t, ht, rfl⟩
      obtain ⟨h1, h2⟩ := (ih t).mp ht
      refine ⟨by simp [h1], ?_⟩
      intro e he
      rcases List.mem_cons.mp he with h | h
      · rw [h]; exact ho
      · exact h2 e h
    · rintro ⟨h1, h2⟩
      match a, h1, h2 with
      | o :: t, h1, h2 =>
        exact ⟨o, h2 o (by simp), t,
          (ih t).mpr ⟨by simpa using h1, fun e he => h2 e (by simp [he])⟩, rfl⟩

theorem argmax_spec {α} (f : α → Int) : ∀ (l : List α), l ≠ [] →
    ∃ y, argmax f l = some y ∧ y ∈ l ∧ ∀ z ∈ l, f z ≤ f y := by
  intro l
  induction l with
  | nil => intro h; exact absurd rfl h
  | cons x xs ih =>
    intro _
    by_cases hx : xs = []
    · subst hx
      refine ⟨x, by simp [argmax], by simp, ?_⟩
      intro z hz; simp at hz; subst hz; omega
    · obtain ⟨y, hy, hmem, hmax⟩ := ih hx
      by_cases hc : f y ≤ f x
      · refine ⟨x, by simp [argmax, hy, hc], by simp, ?_⟩
        intro z hz
        rcases List.mem_cons.mp hz with e | e
        · subst e; omega
        · have := hmax z e; omega
      · refine ⟨y, by simp [argmax, hy, hc], by simp [hmem], ?_⟩
        intro z hz
        rcases List.mem_cons.mp hz with e | e
        · subst e; omega
        · exact hmax z e

theorem range_proper (adj : Nat → Nat → Bool) (hadj : SymIrr adj) (n : Nat) :
    proper adj (List.range n) = true := by
  rw [proper_iff]
  intro u hu v hv ha e
  simp only [List.length_range] at hu hv
  simp only [List.getD, List.getElem?_range hu, List.getElem?_range hv, Option.getD_some] at e
  subst e
  rw [hadj.2] at ha
  cases ha

/-- for every instance the program has an optimal 0/1 solution (so the hypothesis `Optimal` of the
main theorem is never vacuous) -/
theorem exists_optimal (adj : Nat → Nat → Bool) (hadj : SymIrr adj) (len : Nat → Nat) (n mo : Nat)
    (hmo : maxDegree adj n < mo) : ∃ x : Assign, Optimal (milpG adj len n mo) x := by
  let cands := (vecs mo n).filter (proper adj)
  have hmem : ∀ a, a ∈ cands ↔ (a.length = n ∧ ∀ e ∈ a, e < mo) ∧ proper adj a = true := by
    intro a
    show a ∈ (vecs mo n).filter (proper adj) ↔ _
    rw [List.mem_filter, mem_vecs]
  have hgetD : ∀ (a : List Nat) (i : Nat), i < a.length → a.getD i 0 ∈ a := by
    intro a i hi
    simp only [List.getD, List.getElem?_eq_getElem hi, Option.getD_some]
    exact List.getElem_mem hi
  -- a candidate exists: push down the all-distinct assignment
  obtain ⟨a0, l0, g0, _, hΔ, _, _⟩ :=
    pushdown adj hadj ((List.range n).map len) (List.range n) (by simp) (range_proper adj hadj n)
  simp only [List.length_range] at l0 hΔ
  have ha0 : a0 ∈ cands := by
    rw [hmem]
    refine ⟨⟨l0, ?_⟩, ((grundy_iff adj a0).mp g0).1⟩
    intro e he
    obtain ⟨i, hi, rfl⟩ := List.getElem_of_mem he
    have := hΔ i (by omega)
    simp only [List.getD, List.getElem?_eq_getElem hi, Option.getD_some] at this
    omega
  obtain ⟨best, _, hbm, hbmax⟩ :=
    argmax_spec (score ((List.range n).map len)) cands (List.ne_nil_of_mem ha0)
  obtain ⟨⟨bl, bb⟩, bp⟩ := (hmem best).mp hbm
  have hbb : ∀ i, i < n → best.getD i 0 < mo := by
    intro i hi; exact bb _ (hgetD best i (by omega))
  have hf := feasible_encode adj len n mo best bl hbb bp
  refine ⟨encode best, hf, ?_⟩
  intro x' hf'
  rw [objective_eq_score adj len n mo x' hf', objective_eq_score adj len n mo _ hf,
    levelsOf_encode adj len n mo best bl hbb]
  apply hbmax
  obtain ⟨hoh, hp'⟩ := (feasible_iff adj len n mo x').mp hf'
  rw [hmem]
  refine ⟨⟨levelsOf_length adj len n mo x', ?_⟩, hp'⟩
  intro e he
  obtain ⟨i, hi, rfl⟩ := List.getElem_of_mem he
  have hi' : i < n := by rw [levelsOf_length] at hi; exact hi
  have := (hoh i hi').1
  simp only [List.getD, List.getElem?_eq_getElem hi, Option.getD_some] at this
  exact this

end RnaVerif.SecStr.Poa

import RnaVerif.Lemmas.FindPairsRefine
import Mathlib.Data.Rat.Floor
/-!
# The bounding-ball pre-filter of the relational contact model is exact (C03 / C11)

`Pairs.contacts` and `Pairs.bcontacts` only look at residue pairs that pass `Pairs.near` (bounding balls with integer
radii closer than `reach`).  Until now the completeness of that pre-filter was cross-checked by the driver op
`pairs.prefilter`.  Here it is proved (triangle inequality in squared form via Cauchy–Schwarz / Lagrange), for every
parameter record with a non-negative distance threshold:

* `near_of_close`            two residues with a pair of listed atoms whose distance is not answered `no` pass the filter;
* `contacts_eq_contactsAll`  hence `contacts P s = contactsAll P s`, element by element, in the same order.
-/
namespace RnaVerif.Pairs
open RnaVerif

variable {P : Params}

/-! ## Cauchy–Schwarz and the triangle inequality, squared -/

theorem norm2_nonneg' (a : Q3) : 0 ≤ V3.norm2 a := by
  simp only [V3.norm2, V3.dot]
  nlinarith [mul_self_nonneg a.x, mul_self_nonneg a.y, mul_self_nonneg a.z]

theorem dot_le_of_norm2 (u v : Q3) (a b : Rat) (ha : 0 ≤ a) (hb : 0 ≤ b)
    (hu : V3.norm2 u ≤ a * a) (hv : V3.norm2 v ≤ b * b) : V3.dot u v ≤ a * b := by
  have hl : V3.dot u v * V3.dot u v ≤ V3.norm2 u * V3.norm2 v := by
    have h1 := V3.norm2_cross u v
    have h0 := norm2_nonneg' (V3.cross u v)
    linarith
  have hprod : V3.norm2 u * V3.norm2 v ≤ (a * a) * (b * b) :=
    mul_le_mul hu hv (norm2_nonneg' v) (mul_self_nonneg a)
  by_contra hcon
  have hgt : a * b < V3.dot u v := lt_of_not_ge hcon
  have hab : 0 ≤ a * b := mul_nonneg ha hb
  have : (a * b) * (a * b) < V3.dot u v * V3.dot u v := by nlinarith
  have e : (a * a) * (b * b) = (a * b) * (a * b) := by ring
  linarith

theorem dist2_triangle (c1 p q c2 : Q3) (a d b : Rat) (ha : 0 ≤ a) (hd : 0 ≤ d) (hb : 0 ≤ b)
    (h1 : V3.dist2 c1 p ≤ a * a) (h2 : V3.dist2 p q ≤ d * d) (h3 : V3.dist2 q c2 ≤ b * b) :
    V3.dist2 c1 c2 ≤ (d + a + b) * (d + a + b) := by
  have e : V3.dist2 c1 c2 = V3.norm2 (V3.sub c1 p) + V3.norm2 (V3.sub p q) + V3.norm2 (V3.sub q c2) +
      2 * (V3.dot (V3.sub c1 p) (V3.sub p q) + V3.dot (V3.sub c1 p) (V3.sub q c2) +
        V3.dot (V3.sub p q) (V3.sub q c2)) := by
    simp only [V3.dist2, V3.norm2, V3.dot, V3.sub]; ring
  have d1 := dot_le_of_norm2 _ _ a d ha hd h1 h2
  have d2 := dot_le_of_norm2 _ _ a b ha hb h1 h3
  have d3 := dot_le_of_norm2 _ _ d b hd hb h2 h3
  rw [e]
  simp only [V3.dist2] at h1 h2 h3
  nlinarith

/-! ## the ball of a residue contains its listed atoms -/

theorem ballFold_spec (c : Q3) :
    ∀ (ps : List Q3) (m : Rat),
      m ≤ ps.foldl (fun m p => let d := V3.dist2 c p; if d > m then d else m) m ∧
      ∀ p ∈ ps, V3.dist2 c p ≤ ps.foldl (fun m p => let d := V3.dist2 c p; if d > m then d else m) m
  | [], m => ⟨le_refl _, by simp⟩
  | p :: ps, m => by
    simp only [List.foldl_cons]
    have ih := ballFold_spec c ps (if V3.dist2 c p > m then V3.dist2 c p else m)
    have hm : m ≤ (if V3.dist2 c p > m then V3.dist2 c p else m) := by
      split
      · next h => exact le_of_lt h
      · exact le_refl _
    have hp : V3.dist2 c p ≤ (if V3.dist2 c p > m then V3.dist2 c p else m) := by
      split
      · exact le_refl _
      · next h => exact le_of_not_gt h
    refine ⟨le_trans hm ih.1, ?_⟩
    intro q hq
    rcases List.mem_cons.mp hq with e | e
    · subst e; exact le_trans hp ih.1
    · exact ih.2 q e

theorem sqrtUp_sq (n : Nat) : (n : Rat) ≤ ((sqrtUp n : Nat) : Rat) * ((sqrtUp n : Nat) : Rat) := by
  have h := Nat.lt_succ_sqrt n
  unfold sqrtUp
  have : n ≤ (Nat.sqrt n + 1) * (Nat.sqrt n + 1) := Nat.le_of_lt h
  exact_mod_cast this

theorem le_ceil_toNat (x : Rat) : x ≤ ((x.ceil.toNat : Nat) : Rat) := by
  have h1 : x ≤ (x.ceil : Rat) := Rat.le_ceil
  have h2 : x.ceil ≤ (x.ceil.toNat : Int) := Int.self_le_toNat _
  have h3 : (x.ceil : Rat) ≤ ((x.ceil.toNat : Int) : Rat) := by exact_mod_cast h2
  calc x ≤ (x.ceil : Rat) := h1
    _ ≤ ((x.ceil.toNat : Int) : Rat) := h3
    _ = ((x.ceil.toNat : Nat) : Rat) := by norm_cast

/-- **ball_spec**: every listed atom of the residue lies within the integer radius of the ball's centre -/
theorem ball_spec {r : Res} {c : Q3} {R : Nat} (h : ball P r = some (c, R)) :
    ∀ p ∈ allPoints P r, V3.dist2 c p ≤ (R : Rat) * (R : Rat) := by
  unfold ball at h
  cases hps : allPoints P r with
  | nil => rw [hps] at h; cases h
  | cons c0 ps =>
    rw [hps] at h
    simp only [Option.some.injEq, Prod.mk.injEq] at h
    obtain ⟨rfl, rfl⟩ := h
    have hf := ballFold_spec c0 ps 0
    intro p hp
    have hle : V3.dist2 c0 p ≤ ps.foldl (fun m p => let d := V3.dist2 c0 p; if d > m then d else m) 0 := by
      rcases List.mem_cons.mp hp with e | e
      · subst e
        have : V3.dist2 p p = 0 := by simp only [V3.dist2, V3.norm2, V3.dot, V3.sub]; ring
        rw [this]; exact hf.1
      · exact hf.2 p e
    exact le_trans hle (le_trans (le_ceil_toNat _) (sqrtUp_sq _))

theorem ball_isSome {r : Res} {p : Q3} (hp : p ∈ allPoints P r) : ∃ c R, ball P r = some (c, R) := by
  unfold ball
  cases hps : allPoints P r with
  | nil => rw [hps] at hp; cases hp
  | cons c0 ps => exact ⟨_, _, rfl⟩

/-! ## the pre-filter is complete -/

theorem le_reach (P : Params) : P.maxDist + tol ≤ ((reach P : Nat) : Rat) := by
  unfold reach
  have h := le_ceil_toNat (P.maxDist + tol)
  push_cast
  linarith

/-- **near_of_close**: two residues with listed atoms `pa`, `pb` whose distance is not answered `no` pass the filter -/
theorem near_of_close (hpos : 0 ≤ P.maxDist) {ri rj : Res} {pa pb : Q3}
    (ha : pa ∈ allPoints P ri) (hb : pb ∈ allPoints P rj) (hd : distTri P (V3.dist2 pa pb) ≠ .no) :
    near (ball P ri) (ball P rj) (reach P) = true := by
  obtain ⟨ci, Ri, ei⟩ := ball_isSome ha
  obtain ⟨cj, Rj, ej⟩ := ball_isSome hb
  rw [ei, ej]
  unfold near
  simp only [decide_eq_true_eq]
  have h1 := ball_spec ei pa ha
  have h3 := ball_spec ej pb hb
  have ht : (0 : Rat) < tol := by decide +kernel
  have hD : V3.dist2 pa pb ≤ ((reach P : Nat) : Rat) * ((reach P : Nat) : Rat) := by
    have hle : V3.dist2 pa pb ≤ (P.maxDist + tol) * (P.maxDist + tol) := by
      unfold distTri at hd
      simp only at hd
      by_cases h1 : V3.dist2 pa pb ≤ (P.maxDist - tol) * (P.maxDist - tol)
      · nlinarith
      · simp only [h1, ↓reduceIte] at hd
        by_cases h2 : V3.dist2 pa pb > (P.maxDist + tol) * (P.maxDist + tol)
        · simp [h2] at hd
        · exact le_of_not_gt h2
    have hr := le_reach P
    nlinarith
  have h3' : V3.dist2 pb cj ≤ (Rj : Rat) * (Rj : Rat) := by
    have : V3.dist2 pb cj = V3.dist2 cj pb := by
      simp only [V3.dist2, V3.norm2, V3.dot, V3.sub]; ring
    rw [this]; exact h3
  have := dist2_triangle ci pa pb cj (Ri : Rat) ((reach P : Nat) : Rat) (Rj : Rat)
    (Nat.cast_nonneg _) (Nat.cast_nonneg _) (Nat.cast_nonneg _) h1 hD h3'
  push_cast
  exact this

/-! ## `contacts = contactsAll` -/

theorem edgePoint_mem_allPoints {r : Res} {x : String × Q3 × List Char × Kind} (h : x ∈ edgePoints P r) :
    x.2.1 ∈ allPoints P r := by
  obtain ⟨h1, h2, _, _⟩ := FindPairs.mem_edgePoints.mp h
  unfold allPoints
  exact List.mem_filterMap.mpr ⟨x.1, h1, h2⟩

theorem hbondGeom_ne_no {ni nj pa pb : Q3} (h : hbondGeomTri P ni nj pa pb ≠ .no) :
    distTri P (V3.dist2 pa pb) ≠ .no := by
  intro e
  apply h
  unfold hbondGeomTri
  simp only
  have : distTri P (V3.norm2 (V3.sub pa pb)) = .no := e
  rw [this]; rfl

theorem near_of_contact (hpos : 0 ≤ P.maxDist) {i j : Nat} {ri rj : Res} {c : Contact}
    (h : c ∈ contactsBetween P i j ri rj) : near (ball P ri) (ball P rj) (reach P) = true := by
  obtain ⟨_, ni, nj, pa, pb, _, _, hxa, hxb, _, ht, _⟩ := FindPairs.mem_contactsBetween.mp h
  exact near_of_close hpos (edgePoint_mem_allPoints hxa) (edgePoint_mem_allPoints hxb) (hbondGeom_ne_no ht)

theorem filter_flatMap {α β : Type} (g : α → Bool) (h : α → List β) (l : List α) :
    (l.filter g).flatMap h = l.flatMap (fun a => if g a then h a else []) := by
  induction l with
  | nil => rfl
  | cons a l ih =>
    simp only [List.filter_cons, List.flatMap_cons]
    split
    · simp only [List.flatMap_cons, ih]
    · simp only [ih, List.nil_append]

/-- **contacts_eq_contactsAll**: the pre-filtered contact list IS the reference contact list -/
theorem contacts_eq_contactsAll (hpos : 0 ≤ P.maxDist) (s : Array Res) : contacts P s = contactsAll P s := by
  unfold contacts contactsAll nearPairs
  simp only [List.flatMap_assoc, List.flatMap_map]
  apply flatMap_congr'
  intro i _
  rw [filter_flatMap]
  apply flatMap_congr'
  intro j _
  by_cases hij : i < j
  · simp only [hij, decide_true, Bool.true_and, ↓reduceIte]
    by_cases hn : near ((s.map (ball P)).getD i none) ((s.map (ball P)).getD j none) (reach P) = true
    · simp only [hn, ↓reduceIte]
    · simp only [hn, Bool.false_eq_true, ↓reduceIte]
      rw [ballAt, ballAt] at hn
      cases ei : s[i]? with
      | none => rfl
      | some ri =>
        cases ej : s[j]? with
        | none => rfl
        | some rj =>
          simp only
          rw [ei, ej] at hn
          simp only [Option.bind_some] at hn
          cases hc : contactsBetween P i j ri rj with
          | nil => rfl
          | cons c rest =>
            exact absurd (near_of_contact hpos (by rw [hc]; exact List.mem_cons_self)) hn
  · simp [hij]

end RnaVerif.Pairs

import RnaVerif.Model.Pure
/-! # C12 helper lemmas: cache-slot invariant of the BpSeq object model -/
namespace RnaVerif.SecStr

/-- every filled cache slot holds what a fresh computation on the (unchanged) entries gives -/
structure ObjInv (opt : List Entry → Except Err (List Char)) (es : List Entry) (o : Obj) : Prop where
  ents : o.entries = es
  dot : ∀ d, o.cDot = some d → d = opt es
  fc : ∀ d, o.cFcfs = some d → d = fcfs es
  all : ∀ d, o.cAll = some d → d = allDB es
  elems : ∀ e, o.cElems = some e → e = elementsOf es (opt es)

theorem getD_of_inv {α} {slot : Option α} {v : α} (h : ∀ d, slot = some d → d = v) : slot.getD v = v := by
  cases slot with
  | none => rfl
  | some d => simp [h d rfl]

theorem init_inv' (opt) (es : List Entry) : ObjInv opt es { entries := es } :=
  ⟨rfl, by simp, by simp, by simp, by simp⟩

theorem step_inv (opt) (es : List Entry) (o : Obj) (op : Op) (inv : ObjInv opt es o) :
    ObjInv opt es (step opt o op).1 ∧ (step opt o op).2 = answerFresh opt es op := by
  obtain ⟨he, hd, hf, ha, hel⟩ := inv
  subst he
  cases op with
  | str => exact ⟨⟨rfl, hd, hf, ha, hel⟩, rfl⟩
  | pairs => exact ⟨⟨rfl, hd, hf, ha, hel⟩, rfl⟩
  | dotBracket =>
    simp only [step, answerFresh, getD_of_inv hd]
    exact ⟨⟨rfl, by simp, hf, ha, hel⟩, trivial⟩
  | fcfs =>
    simp only [step, answerFresh, getD_of_inv hf]
    exact ⟨⟨rfl, hd, by simp, ha, hel⟩, trivial⟩
  | allDB =>
    simp only [step, answerFresh, getD_of_inv ha]
    exact ⟨⟨rfl, hd, hf, by simp, hel⟩, trivial⟩
  | elements =>
    simp only [step, answerFresh]
    cases hc : o.cElems with
    | some e =>
      simp only
      exact ⟨⟨rfl, hd, hf, ha, hel⟩, by rw [hel e hc]⟩
    | none =>
      simp only
      by_cases hs : o.entries.isEmpty = true
      · simp only [hs, if_true, elementsOf]
        refine ⟨⟨rfl, hd, hf, ha, ?_⟩, ?_⟩
        · intro e h; simp at h; simp [elementsOf, hs, ← h]
        · rfl
      · simp only [hs, getD_of_inv hd, elementsOf]
        refine ⟨⟨rfl, by simp, hf, ha, ?_⟩, ?_⟩
        · intro e h; simp at h; simp [elementsOf, hs, ← h]
        · simp
  | withoutIsolated =>
    simp only [step, answerFresh]
    by_cases hs : o.entries.isEmpty = true
    · simp only [hs, if_true]
      refine ⟨⟨rfl, hd, hf, ha, ?_⟩, rfl⟩
      intro e h
      simp only [Option.some.injEq] at h
      rw [← h]
      have : elementsOf o.entries (opt o.entries) = .ok [] := by simp [elementsOf, hs]
      rw [this]
      exact getD_of_inv (v := (Except.ok [] : Except Err (List String))) (fun d hd' => by rw [hel d hd', this])
    · have hs' : o.entries.isEmpty = false := by simpa using hs
      simp only [hs', Bool.false_eq_true, ↓reduceIte, getD_of_inv hd]
      refine ⟨⟨rfl, by simp, hf, ha, ?_⟩, by first | trivial | rfl | simp⟩
      intro e h
      simp only [Option.some.injEq] at h
      rw [← h]
      have : elementsOf o.entries (opt o.entries) =
          (opt o.entries).map (fun db => (elements o.entries db).describe) := by simp [elementsOf, hs]
      rw [this]
      exact getD_of_inv (fun d hd' => by rw [hel d hd', this])
  | withoutPseudoknots =>
    simp only [step, answerFresh, getD_of_inv hd]
    exact ⟨⟨rfl, by simp, hf, ha, hel⟩, trivial⟩

theorem run_as_fresh (opt) (es : List Entry) : ∀ (ops : List Op) (o : Obj), ObjInv opt es o →
    run opt o ops = ops.map (answerFresh opt es) := by
  intro ops
  induction ops with
  | nil => intro o _; rfl
  | cons op ops ih =>
    intro o inv
    obtain ⟨inv', ha⟩ := step_inv opt es o op inv
    simp only [run, List.map_cons]
    rw [ha, ih _ inv']

end RnaVerif.SecStr

import RnaVerif.Lemmas.Pure
import RnaVerif.Model.PureExt
/-! # C12 helper lemmas: the extended object model keeps the cache-slot invariant -/
namespace RnaVerif.SecStr

/-- invariant of the extended object: the C12 invariant of the wrapped object, and the `sequence`
slot (if filled) holds the sequence of the entries -/
structure ObjXInv (opt : List Entry → Except Err (List Char)) (es : List Entry) (o : ObjX) : Prop where
  base : ObjInv opt es o.base
  seq : ∀ s, o.cSeq = some s → s = sequence es

theorem freshX_inv (opt) (es : List Entry) : ObjXInv opt es (freshX es) :=
  ⟨init_inv' opt es, by simp [freshX]⟩

/-- a fall-back evaluated on the object answers what the C13 model's `fallback` answers, keeps the
invariant, and leaves the `dot_bracket` slot alone -/
theorem fallbackObj_spec (opt) (es : List Entry) (o : Obj) (k : Nat) (inv : ObjInv opt es o) :
    ObjInv opt es (fallbackObj o k).1 ∧ (fallbackObj o k).2 = fallback es k ∧
      (fallbackObj o k).1.cDot = o.cDot := by
  obtain ⟨he, hd, hf, ha, hel⟩ := inv
  subst he
  unfold fallbackObj fallback
  by_cases hp : Gen.fcfsIsProperty = true
  · simp only [hp, if_true, getD_of_inv hf]
    refine ⟨⟨rfl, hd, by simp, ha, hel⟩, ?_, by first | trivial | rfl⟩
    cases fcfs o.entries <;> first | trivial | rfl
  · simp only [hp]
    exact ⟨⟨rfl, hd, hf, ha, hel⟩, rfl, rfl⟩

theorem convertObj_spec (opt) (es : List Entry) (o : Obj) (p : Bool) (out : Outcome)
    (inv : ObjInv opt es o) :
    ObjInv opt es (convertObj o p out).1 ∧ (convertObj o p out).2 = convert es p out ∧
      (convertObj o p out).1.cDot = o.cDot := by
  have he := inv.ents
  unfold convertObj convert
  cases p with
  | false => simpa using fallbackObj_spec opt es o 0 inv
  | true =>
    simp only [Bool.not_true, Bool.false_eq_true, if_false, he]
    by_cases hn : noEdges Gen.conflictConvert (regions es) = true
    · simp only [hn, if_true]
      exact ⟨inv, by first | trivial | rfl, by first | trivial | rfl⟩
    · simp only [hn]
      cases out with
      | raises => exact fallbackObj_spec opt es o 1 inv
      | notOptimal => exact fallbackObj_spec opt es o 2 inv
      | optimal ones => exact ⟨inv, rfl, rfl⟩

theorem stepX_inv (opt) (es : List Entry) (o : ObjX) (op : OpX) (inv : ObjXInv opt es o) :
    ObjXInv opt es (stepX opt o op).1 ∧ (stepX opt o op).2 = answerFreshX opt es op := by
  obtain ⟨hb, hs⟩ := inv
  have he := hb.ents
  cases op with
  | base op =>
    obtain ⟨h1, h2⟩ := step_inv opt es o.base op hb
    exact ⟨⟨h1, hs⟩, h2⟩
  | convert p out =>
    obtain ⟨h1, h2, _⟩ := convertObj_spec opt es o.base p out hb
    refine ⟨⟨h1, hs⟩, ?_⟩
    show ansOf String.ofList (convertObj o.base p out).2 = _
    rw [h2]; rfl
  | sequence =>
    simp only [stepX, answerFreshX, he, getD_of_inv hs]
    exact ⟨⟨hb, by simp⟩, trivial⟩
  | pairsDict => exact ⟨⟨hb, hs⟩, by simp only [stepX, answerFreshX, he]⟩
  | eq other => exact ⟨⟨hb, hs⟩, by simp only [stepX, answerFreshX, he]⟩
  | roundTrip => exact ⟨⟨hb, hs⟩, by simp only [stepX, answerFreshX, he]⟩

theorem runX_as_fresh (opt) (es : List Entry) : ∀ (ops : List OpX) (o : ObjX), ObjXInv opt es o →
    runX opt o ops = ops.map (answerFreshX opt es) := by
  intro ops
  induction ops with
  | nil => intro o _; rfl
  | cons op ops ih =>
    intro o inv
    obtain ⟨inv', ha⟩ := stepX_inv opt es o op inv
    simp only [runX, List.map_cons]
    rw [ha, ih _ inv']

theorem afterX_inv (opt) (es : List Entry) : ∀ (ops : List OpX) (o : ObjX), ObjXInv opt es o →
    ObjXInv opt es (afterX opt o ops) := by
  intro ops
  induction ops with
  | nil => intro o inv; exact inv
  | cons op ops ih => intro o inv; exact ih _ (stepX_inv opt es o op inv).1

theorem runX_append (opt) : ∀ (a b : List OpX) (o : ObjX),
    runX opt o (a ++ b) = runX opt o a ++ runX opt (afterX opt o a) b := by
  intro a
  induction a with
  | nil => intro b o; rfl
  | cons op a ih => intro b o; simp only [List.cons_append, runX, afterX, List.foldl_cons]; rw [ih]; rfl

/-- an explicit-solver conversion leaves the `dot_bracket` slot exactly as it was -/
theorem stepX_convert_cDot (opt) (o : ObjX) (p : Bool) (out : Outcome) :
    (stepX opt o (.convert p out)).1.base.cDot = o.base.cDot := by
  show (convertObj o.base p out).1.cDot = _
  unfold convertObj fallbackObj
  cases p <;> simp only [Bool.not_true, Bool.not_false, if_true, Bool.false_eq_true, if_false]
  · split <;> rfl
  · split
    · rfl
    · cases out <;> (try rfl) <;> (split <;> rfl)

end RnaVerif.SecStr

import RnaVerif.Model.MilpSpec
import RnaVerif.Lemmas.Greedy
/-!
# Push-down lemma (C02): every proper level assignment is dominated, pointwise and in score, by a
Grundy assignment using levels `≤ degree`.
-/
namespace RnaVerif.SecStr.Poa

/-! ### integer sums written as `foldl (· + ·) 0` -/

theorem foldl_add_init (l : List Int) (a : Int) :
    l.foldl (· + ·) a = a + l.foldl (· + ·) 0 := by
  induction l generalizing a with
  | nil => simp
  | cons x xs ih =>
    simp only [List.foldl_cons]
    rw [ih (a + x), ih (0 + x)]
    omega

theorem isum_cons (x : Int) (l : List Int) :
    (x :: l).foldl (· + ·) 0 = x + l.foldl (· + ·) 0 := by
  simp only [List.foldl_cons]
  rw [foldl_add_init]
  omega

theorem isum_append (l₁ l₂ : List Int) :
    (l₁ ++ l₂).foldl (· + ·) 0 = l₁.foldl (· + ·) 0 + l₂.foldl (· + ·) 0 := by
  rw [List.foldl_append, foldl_add_init]

/-! ### the objective coefficient -/

/-- bridge: the generated coefficient rule is `+len` on level 0 and `−k·len` on level `k ≥ 1` -/
theorem objCoeff_spec_int (len o : Int) :
    Gen.objCoeff len o = if o = 0 then len else -(o * len) := by
  unfold Gen.objCoeff
  split <;> grind

theorem objCoeff_antitone (len o₁ o₂ : Nat) (h : o₁ ≤ o₂) :
    Gen.objCoeff (len : Int) (o₂ : Int) ≤ Gen.objCoeff (len : Int) (o₁ : Int) := by
  rw [objCoeff_spec_int, objCoeff_spec_int]
  have hl : (0 : Int) ≤ (len : Int) := Int.natCast_nonneg _
  have h2 : (0 : Int) ≤ (o₂ : Int) * (len : Int) := Int.mul_nonneg (Int.natCast_nonneg _) hl
  have h3 : (o₁ : Int) * (len : Int) ≤ (o₂ : Int) * (len : Int) :=
    Int.mul_le_mul_of_nonneg_right (by omega) hl
  split <;> split <;> omega

theorem objCoeff_strict (len o₁ o₂ : Nat) (hl : 1 ≤ len) (h : o₁ < o₂) :
    Gen.objCoeff (len : Int) (o₂ : Int) < Gen.objCoeff (len : Int) (o₁ : Int) := by
  rw [objCoeff_spec_int, objCoeff_spec_int]
  have hl' : (0 : Int) < (len : Int) := by omega
  have h2 : (0 : Int) ≤ (o₂ : Int) * (len : Int) :=
    Int.mul_nonneg (Int.natCast_nonneg _) (by omega)
  have h3 : (o₁ : Int) * (len : Int) < (o₂ : Int) * (len : Int) :=
    Int.mul_lt_mul_of_pos_right (by omega) hl'
  split <;> split <;> omega

/-! ### score -/

theorem score_nil_left (lv : List Nat) : score [] lv = 0 := by simp [score]

theorem score_nil_right (lens : List Nat) : score lens [] = 0 := by simp [score]

theorem score_cons (l : Nat) (lens : List Nat) (x : Nat) (lv : List Nat) :
    score (l :: lens) (x :: lv) = Gen.objCoeff (l : Int) (x : Int) + score lens lv := by
  simp only [score, List.zip_cons_cons, List.map_cons]
  rw [isum_cons]

theorem scoreSpec_cons (l : Nat) (lens : List Nat) (x : Nat) (lv : List Nat) :
    scoreSpec (l :: lens) (x :: lv) =
      (if x = 0 then (l : Int) else -((x : Int) * (l : Int))) + scoreSpec lens lv := by
  simp only [scoreSpec, List.zip_cons_cons, List.map_cons]
  rw [isum_cons]

/-- bridge: the model's score (built from the generated coefficient) is the objective of the
property statement -/
theorem score_eq_scoreSpec (lens lv : List Nat) : score lens lv = scoreSpec lens lv := by
  induction lens generalizing lv with
  | nil => simp [score, scoreSpec]
  | cons l lens ih =>
    cases lv with
    | nil => simp [score, scoreSpec]
    | cons x lv =>
      rw [score_cons, scoreSpec_cons, ih, objCoeff_spec_int]
      have : ((x : Int) = 0) ↔ x = 0 := by omega
      simp only [this]

theorem score_map (len lv : Nat → Nat) (l : List Nat) :
    score (l.map len) (l.map lv) =
      (l.map (fun i => Gen.objCoeff ((len i : Nat) : Int) ((lv i : Nat) : Int))).foldl (· + ·) 0 := by
  induction l with
  | nil => simp [score]
  | cons i l ih => simp only [List.map_cons]; rw [score_cons, isum_cons, ih]

/-- pointwise lower levels give a score at least as large; with all lengths ≥ 1 equality of the
scores forces equality of the vectors -/
theorem score_mono (lens : List Nat) : ∀ (a b : List Nat), a.length = lens.length →
    b.length = lens.length → (∀ i, b.getD i 0 ≤ a.getD i 0) →
    score lens a ≤ score lens b ∧
      ((∀ l ∈ lens, 1 ≤ l) → score lens b ≤ score lens a → a = b) := by
  induction lens with
  | nil =>
    intro a b ha hb _
    simp at ha hb; subst ha; subst hb
    simp [score]
  | cons l lens ih =>
    intro a b ha hb h
    match a, b, ha, hb with
    | x :: a, y :: b, ha, hb =>
      have h0 : y ≤ x := by simpa using h 0
      have ht : ∀ i, b.getD i 0 ≤ a.getD i 0 := by
        intro i; simpa using h (i + 1)
      obtain ⟨i1, i2⟩ := ih a b (by simpa using ha) (by simpa using hb) ht
      rw [score_cons, score_cons]
      have hc := objCoeff_antitone l y x h0
      refine ⟨by omega, ?_⟩
      intro hl hle
      have hl1 : 1 ≤ l := hl l (by simp)
      have hxy : x = y := by
        rcases Nat.lt_or_ge y x with hlt | hge
        · have := objCoeff_strict l y x hl1 hlt
          omega
        · omega
      subst hxy
      have := i2 (fun l' hl' => hl l' (by simp [hl'])) (by omega)
      rw [this]

/-! ### Prop forms of `proper` / `grundy` -/

theorem proper_iff (adj : Nat → Nat → Bool) (lv : List Nat) :
    proper adj lv = true ↔
      ∀ u, u < lv.length → ∀ v, v < lv.length → adj u v = true → lv.getD u 0 ≠ lv.getD v 0 := by
  simp only [proper, List.all_eq_true, List.mem_range, Bool.or_eq_true, Bool.not_eq_true',
    bne_iff_ne, ne_eq]
  constructor
  · intro h u hu v hv ha
    rcases h u hu v hv with h' | h'
    · rw [ha] at h'; cases h'
    · exact h'
  · intro h u hu v hv
    cases ha : adj u v
    · left; rfl
    · right; exact h u hu v hv ha

theorem grundy_iff (adj : Nat → Nat → Bool) (lv : List Nat) :
    grundy adj lv = true ↔ proper adj lv = true ∧
      ∀ v, v < lv.length → ∀ d, d < lv.getD v 0 →
        ∃ u, u < lv.length ∧ adj u v = true ∧ lv.getD u 0 = d := by
  simp only [grundy, Bool.and_eq_true, List.all_eq_true, List.mem_range, List.any_eq_true,
    beq_iff_eq]

/-! ### degree bounds -/

theorem le_foldl_max (l : List Nat) : ∀ a, a ≤ l.foldl max a ∧ ∀ x ∈ l, x ≤ l.foldl max a := by
  induction l with
  | nil => intro a; simp
  | cons y ys ih =>
    intro a
    obtain ⟨h1, h2⟩ := ih (max a y)
    simp only [List.foldl_cons]
    refine ⟨by omega, ?_⟩
    intro x hx
    rcases List.mem_cons.mp hx with e | e
    · subst e; omega
    · exact h2 x e

theorem degree_le_maxDegree (adj : Nat → Nat → Bool) (n v : Nat) (hv : v < n) :
    degree adj n v ≤ maxDegree adj n := by
  unfold maxDegree
  apply (le_foldl_max _ 0).2
  exact List.mem_map.mpr ⟨v, List.mem_range.mpr hv, rfl⟩

/-- a Grundy assignment puts every vertex on a level ≤ its degree -/
theorem grundy_le_degree (adj : Nat → Nat → Bool) (lv : List Nat) (hg : grundy adj lv = true)
    (v : Nat) (hv : v < lv.length) : lv.getD v 0 ≤ degree adj lv.length v := by
  have hg' := ((grundy_iff adj lv).mp hg).2 v hv
  have hsub : List.range (lv.getD v 0) ⊆
      ((List.range lv.length).filter (fun u => adj u v)).map (fun u => lv.getD u 0) := by
    intro d hd
    obtain ⟨u, hu, ha, he⟩ := hg' d (List.mem_range.mp hd)
    exact List.mem_map.mpr ⟨u, List.mem_filter.mpr ⟨List.mem_range.mpr hu, ha⟩, he⟩
  have := List.Nodup.length_le_of_subset List.nodup_range hsub
  simpa [degree] using this

theorem grundy_le_maxDegree (adj : Nat → Nat → Bool) (lv : List Nat) (hg : grundy adj lv = true)
    (v : Nat) (hv : v < lv.length) : lv.getD v 0 ≤ maxDegree adj lv.length :=
  Nat.le_trans (grundy_le_degree adj lv hg v hv) (degree_le_maxDegree adj _ v hv)

/-! ### insertion sort -/

theorem insBy_perm (f : Nat → Nat) (x : Nat) (l : List Nat) : (insBy f x l).Perm (x :: l) := by
  induction l with
  | nil => simp [insBy]
  | cons y ys ih =>
    unfold insBy
    split
    · exact List.Perm.refl _
    · exact (List.Perm.cons y ih).trans (List.Perm.swap x y ys)

theorem insBy_sorted (f : Nat → Nat) (x : Nat) (l : List Nat)
    (h : l.Pairwise (fun a b => f a ≤ f b)) : (insBy f x l).Pairwise (fun a b => f a ≤ f b) := by
  induction l with
  | nil => simp [insBy]
  | cons y ys ih =>
    rw [List.pairwise_cons] at h
    unfold insBy
    split
    · rename_i hxy
      rw [List.pairwise_cons]
      refine ⟨?_, List.pairwise_cons.mpr h⟩
      intro z hz
      rcases List.mem_cons.mp hz with e | e
      · subst e; exact hxy
      · have := h.1 z e; omega
    · rename_i hxy
      rw [List.pairwise_cons]
      refine ⟨?_, ih h.2⟩
      intro z hz
      have hz' := (insBy_perm f x ys).mem_iff.mp hz
      rcases List.mem_cons.mp hz' with e | e
      · subst e; omega
      · exact h.1 z e

theorem sortBy_perm (f : Nat → Nat) (l : List Nat) : (sortBy f l).Perm l := by
  induction l with
  | nil => simp [sortBy]
  | cons x xs ih => exact (insBy_perm f x _).trans (List.Perm.cons x ih)

theorem sortBy_sorted (f : Nat → Nat) (l : List Nat) :
    (sortBy f l).Pairwise (fun a b => f a ≤ f b) := by
  induction l with
  | nil => simp [sortBy]
  | cons x xs ih => exact insBy_sorted f x _ ih

/-! ### association lists with distinct keys -/

theorem lookup_of_mem (l : List (Nat × Nat)) (hn : (l.map (·.1)).Nodup) (v c : Nat)
    (h : (v, c) ∈ l) : lookup l v = c := by
  induction l with
  | nil => simp at h
  | cons p l ih =>
    simp only [List.map_cons, List.nodup_cons] at hn
    unfold lookup
    simp only [List.find?_cons]
    by_cases e : p.1 = v
    · have : (p.1 == v) = true := by simp [e]
      rw [this]
      rcases List.mem_cons.mp h with h' | h'
      · rw [← h']
      · exfalso
        apply hn.1
        rw [e]
        exact List.mem_map.mpr ⟨(v, c), h', rfl⟩
    · have : (p.1 == v) = false := by simp [e]
      rw [this]
      rcases List.mem_cons.mp h with h' | h'
      · exfalso; apply e; rw [← h']
      · have := ih hn.2 h'
        unfold lookup at this
        exact this

theorem pairwise_symm_forall {α} {R : α → α → Prop} (hs : ∀ a b, R a b → R b a) :
    ∀ l : List α, l.Pairwise R → ∀ a ∈ l, ∀ b ∈ l, a ≠ b → R a b := by
  intro l
  induction l with
  | nil => intro _ a ha; simp at ha
  | cons x l ih =>
    intro hp a ha b hb hab
    rw [List.pairwise_cons] at hp
    rcases List.mem_cons.mp ha with e1 | e1 <;> rcases List.mem_cons.mp hb with e2 | e2
    · exfalso; apply hab; rw [e1, e2]
    · rw [e1]; exact hp.1 b e2
    · rw [e2]; exact hs _ _ (hp.1 a e1)
    · exact ih hp.2 a e1 b e2 hab

/-! ### the push-down theorem -/

/-- `adj` is symmetric and irreflexive -/
def SymIrr (adj : Nat → Nat → Bool) : Prop :=
  (∀ u v, adj u v = adj v u) ∧ ∀ u, adj u u = false

theorem pushDown_spec (adj : Nat → Nat → Bool) (hadj : SymIrr adj) (a : List Nat)
    (hp : proper adj a = true) :
    (pushDown adj a).length = a.length ∧ grundy adj (pushDown adj a) = true ∧
      ∀ v, (pushDown adj a).getD v 0 ≤ a.getD v 0 := by
  obtain ⟨hsym, hirr⟩ := hadj
  have hp' := (proper_iff adj a).mp hp
  let n := a.length
  let f : Nat → Nat := fun v => a.getD v 0
  let π := sortBy f (List.range n)
  let g := greedy adj π
  let h : Nat → Nat := lookup g
  have hπ : ∀ v, v ∈ π ↔ v < n := by
    intro v
    rw [(sortBy_perm f (List.range n)).mem_iff, List.mem_range]
  obtain ⟨gP, gG, gK⟩ := greedy_is_grundy adj π
  have hnd : (g.map (·.1)).Nodup := by
    show ((greedy adj π).map (·.1)).Nodup
    rw [gK]
    exact (sortBy_perm f (List.range n)).nodup_iff.mpr List.nodup_range
  -- F1 / F2
  have F1 : ∀ p ∈ g, p.2 = h p.1 ∧ p.1 < n := by
    intro p hpg
    refine ⟨(lookup_of_mem g hnd p.1 p.2 hpg).symm, ?_⟩
    apply (hπ p.1).mp
    rw [← gK]
    exact List.mem_map.mpr ⟨p, hpg, rfl⟩
  have F2 : ∀ v, v < n → (v, h v) ∈ g := by
    intro v hv
    have : v ∈ (greedy adj π).map (·.1) := by rw [gK]; exact (hπ v).mpr hv
    obtain ⟨p, hpg, e⟩ := List.mem_map.mp this
    have hp2 : p.2 = h p.1 := (F1 p hpg).1
    have e' : p = (v, h v) := by
      cases p with
      | mk p1 p2 =>
        have e1 : p1 = v := e
        have e2 : p2 = h p1 := hp2
        rw [e2, e1]
    rw [← e']; exact hpg
  have hlen : (pushDown adj a).length = a.length := by simp [pushDown]
  have hget : ∀ v, v < n → (pushDown adj a).getD v 0 = h v := by
    intro v hv
    show ((List.range n).map (lookup g)).getD v 0 = lookup g v
    simp [List.getD, hv]
  -- pointwise bound
  have hle : ∀ q ∈ g, q.2 ≤ f q.1 := by
    apply greedy_sorted_le_aux adj f π [] [] rfl (by simp)
    · simpa using sortBy_sorted f (List.range n)
    · intro u hu v hv ha
      simp only [List.nil_append] at hu hv
      exact hp' u ((hπ u).mp hu) v ((hπ v).mp hv) ha
  -- properness in both orientations
  have hRsym : g.Pairwise (fun p q => (adj p.1 q.1 = true → p.2 ≠ q.2) ∧
      (adj q.1 p.1 = true → q.2 ≠ p.2)) := by
    apply List.Pairwise.imp _ gP
    intro p q hR
    refine ⟨hR, ?_⟩
    intro ha he
    rw [hsym] at ha
    exact hR ha he.symm
  have hall := pairwise_symm_forall (R := fun p q : Nat × Nat =>
      (adj p.1 q.1 = true → p.2 ≠ q.2) ∧ (adj q.1 p.1 = true → q.2 ≠ p.2))
    (fun a b hab => ⟨hab.2, hab.1⟩) g hRsym
  have hprop : proper adj (pushDown adj a) = true := by
    rw [proper_iff, hlen]
    intro u hu v hv ha
    rw [hget u hu, hget v hv]
    have hne : u ≠ v := by
      intro e; subst e; rw [hirr] at ha; cases ha
    have := hall (u, h u) (F2 u hu) (v, h v) (F2 v hv) (by
      intro e; apply hne; exact congrArg Prod.fst e)
    exact this.1 ha
  refine ⟨hlen, ?_, ?_⟩
  · rw [grundy_iff]
    refine ⟨hprop, ?_⟩
    rw [hlen]
    intro v hv d hd
    rw [hget v hv] at hd
    obtain ⟨q, hq, ha, he⟩ := gG (v, h v) (F2 v hv) d hd
    obtain ⟨e1, e2⟩ := F1 q hq
    exact ⟨q.1, e2, ha, by rw [hget q.1 e2, ← e1, he]⟩
  · intro v
    by_cases hv : v < n
    · rw [hget v hv]
      have := hle (v, h v) (F2 v hv)
      exact this
    · have : (pushDown adj a).getD v 0 = 0 := by
        simp only [List.getD]
        rw [List.getElem?_eq_none (by rw [hlen]; omega)]
        rfl
      omega

/-- **push-down**: every proper level vector (any levels, any number of them) is dominated by a
Grundy one that uses only levels `≤ degree ≤ Δ` and has at least the same score -/
theorem pushdown (adj : Nat → Nat → Bool) (hadj : SymIrr adj) (lens a : List Nat)
    (hlen : a.length = lens.length) (hp : proper adj a = true) :
    ∃ a' : List Nat, a'.length = a.length ∧ grundy adj a' = true ∧
      (∀ v, v < a.length → a'.getD v 0 ≤ degree adj a.length v) ∧
      (∀ v, v < a.length → a'.getD v 0 ≤ maxDegree adj a.length) ∧
      (∀ v, a'.getD v 0 ≤ a.getD v 0) ∧
      score lens a ≤ score lens a' := by
  obtain ⟨h1, h2, h3⟩ := pushDown_spec adj hadj a hp
  refine ⟨pushDown adj a, h1, h2, ?_, ?_, h3, ?_⟩
  · intro v hv
    have := grundy_le_degree adj _ h2 v (by omega)
    rwa [h1] at this
  · intro v hv
    have := grundy_le_maxDegree adj _ h2 v (by omega)
    rwa [h1] at this
  · exact (score_mono lens a (pushDown adj a) hlen (by omega) h3).1

end RnaVerif.SecStr.Poa

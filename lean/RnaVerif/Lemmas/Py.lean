import RnaVerif.Model.Py
/-!
# Helper lemmas and tactics for the bridge theorems about regenerated functions (`Props/C<xx>Fn.lean`)

Core Lean only.  Nothing here mentions a generated definition: the lemmas are about `List`, `String` and the
primitives of `Model/Py.lean`.
-/
namespace RnaVerif.PyL

/-- case analysis of a string VARIABLE against literals: one goal per literal (the variable is substituted) and
a last goal carrying every disequality in both orientations, so that `simp_all` can evaluate `x == "lit"` and
`"lit" == x` alike — independent of how the generated text orders its comparisons -/
syntax "str_cases " ident " [" str,* "]" : tactic
macro_rules
  | `(tactic| str_cases $_x:ident []) => `(tactic| skip)
  | `(tactic| str_cases $x:ident [$s:str]) =>
    `(tactic| (by_cases h : $x = $s
               case' pos => subst h
               case' neg => have h' : ¬ $s = $x := fun e => h e.symm))
  | `(tactic| str_cases $x:ident [$s:str, $ss:str,*]) =>
    `(tactic| (by_cases h : $x = $s
               case' pos => subst h
               case' neg =>
                 have h' : ¬ $s = $x := fun e => h e.symm
                 str_cases $x [$ss,*]))

/-- a `for … if p: return f(x)` loop is `find?` -/
theorem findSome_ite {α β} (p : α → Bool) (f : α → β) (l : List α) :
    l.findSome? (fun a => if p a then some (f a) else none) = (l.find? p).map f := by
  induction l with
  | nil => rfl
  | cons a t ih =>
    simp only [List.findSome?_cons, List.find?_cons]
    cases h : p a <;> simp [ih]

theorem lookup_mem {α β} [BEq α] [LawfulBEq α] {k : α} {v : β} :
    ∀ {t : List (α × β)}, t.lookup k = some v → (k, v) ∈ t
  | [], h => by simp at h
  | (a, b) :: t, h => by
    rw [List.lookup_cons] at h
    by_cases e : (k == a) = true
    · simp only [e] at h
      have : k = a := by simpa using e
      cases h; subst this; exact List.mem_cons_self
    · have e' : (k == a) = false := by simpa using e
      simp only [e'] at h
      exact List.mem_cons_of_mem _ (lookup_mem h)

/-- a two-character key built by an f-string equals `s` iff `s` consists of these two characters -/
theorem two_chars (c1 c2 : Char) (s : String) :
    (String.singleton c1 ++ String.singleton c2 == s) = (s.toList == [c1, c2]) := by
  have h : (String.singleton c1 ++ String.singleton c2).toList = [c1, c2] := by simp
  by_cases e : s.toList = [c1, c2]
  · have : s = String.singleton c1 ++ String.singleton c2 := by
      apply String.toList_inj.mp; rw [h, e]
    subst this
    rw [beq_self_eq_true, h, beq_self_eq_true]
  · have : ¬ (String.singleton c1 ++ String.singleton c2 = s) := fun q => e (by rw [← q, h])
    rw [beq_eq_false_iff_ne.mpr this, beq_eq_false_iff_ne.mpr e]

/-! ### one-letter residue names: strings of one character against the `Char`-based hand models -/

theorem upperChar_ascii : ∀ n : Fin 128, Py.upperChar (Char.ofNat n) = [(Char.ofNat n).toUpper] := by decide

/-- `str.upper()` of a one-character ASCII string is `Char.toUpper` -/
theorem upper_singleton (c : Char) (h : c.toNat < 128) :
    Py.upper (String.singleton c) = String.singleton c.toUpper := by
  have := upperChar_ascii ⟨c.toNat, h⟩
  simp only [Char.ofNat_toNat] at this
  apply String.toList_inj.mp
  simp [Py.upper, this]

theorem singleton_lt (x y : Char) : (String.singleton x < String.singleton y) ↔ x < y := by
  rw [String.lt_iff]; simp [List.cons_lt_cons_iff]

/-- `"".join(sorted([x, y]))` for two one-character strings -/
theorem sorted_pair (x y : Char) : Py.join "" (Py.sortedStr [String.singleton x, String.singleton y]) =
    String.ofList (if x ≤ y then [x, y] else [y, x]) := by
  have e : (if x < y then [x, y] else [y, x]) = (if x ≤ y then [x, y] else [y, x]) := by
    by_cases h : x < y
    · have : x ≤ y := Std.le_of_lt h
      simp [h, this]
    · by_cases e : x = y
      · subst e; simp
      · have : ¬ x ≤ y := fun l => h (Std.lt_of_le_of_ne l e)
        simp [h, this]
  rw [← e]
  unfold Py.sortedStr Py.join
  simp only [List.foldr, Py.insertSorted, singleton_lt]
  by_cases h : x < y <;> simp [h, Py.joinChars]

/-- comparing a two-character string with a literal is comparing the characters -/
theorem ofList_pair_beq (a b x y : Char) : (String.ofList [a, b] == String.ofList [x, y]) = ((a, b) == (x, y)) := by
  by_cases h : (a, b) = (x, y)
  · cases h; simp
  · have : ¬ String.ofList [a, b] = String.ofList [x, y] := by
      intro q
      have := congrArg String.toList q
      simp at this
      exact h (by rw [this.1, this.2])
    rw [beq_eq_false_iff_ne.mpr this, beq_eq_false_iff_ne.mpr h]

/-- `Enum[s]` succeeds exactly for the member names: `find?` by name against membership in the name list -/
theorem find_isSome_iff {α} (f : α → String) (s : String) (l : List α) :
    (l.find? (fun m => f m == s)).isSome = true ↔ s ∈ l.map f := by
  rw [List.find?_isSome]
  constructor
  · rintro ⟨m, hm, he⟩
    exact List.mem_map.mpr ⟨m, hm, by simpa using he⟩
  · intro h
    obtain ⟨m, hm, he⟩ := List.mem_map.mp h
    exact ⟨m, hm, by simpa using he⟩

theorem alphaChar_ascii : ∀ n : Fin 128, Py.alphaChar (Char.ofNat n) = (Char.ofNat n).isAlpha := by decide

end RnaVerif.PyL

import RnaVerif.Model.FnSpec
import Mathlib.Tactic.Linarith
/-!
# Order facts about `Py.PyFloat` (finite rational or nan) used by the bridge theorems of `Props/C<xx>Fn.lean`
-/
namespace RnaVerif.PyL
open RnaVerif RnaVerif.FnSpec

theorem clamp_range (c : Py.PyFloat) : -1 ≤ clamp c ∧ clamp c ≤ 1 := by
  unfold clamp
  cases c with
  | none => constructor <;> norm_num
  | some q =>
    simp only
    split_ifs <;> constructor <;> linarith

theorem clamp_id (q : Rat) (h1 : -1 ≤ q) (h2 : q ≤ 1) : clamp (some q) = q := by
  unfold clamp
  simp only
  split_ifs <;> linarith

/-- Python's `min(1.0, max(-1.0, c))` on finite-or-nan floats is `clamp` -/
theorem fMin_fMax_clamp (c : Py.PyFloat) : Py.fMin (some 1) (Py.fMax (some (-1)) c) = some (clamp c) := by
  unfold clamp
  cases c with
  | none => simp [Py.fMax, Py.fMin, Py.fLt, Py.fcmp]
  | some q =>
    simp only [Py.fMax, Py.fMin, Py.fLt, Py.fcmp]
    by_cases h1 : q < -1
    · have h2 : ¬ (-1 : Rat) < q := by linarith
      simp [h1, h2]
    · have h2 : (-1 : Rat) < q ∨ q = -1 := by
        rcases lt_or_eq_of_le (not_lt.mp h1) with h | h
        · exact Or.inl h
        · exact Or.inr h.symm
      by_cases h3 : (1 : Rat) < q
      · have : (-1 : Rat) < q := by linarith
        simp [h1, h3, this]
        intro h; linarith
      · rcases h2 with h | h
        · simp [h1, h3, h]
          intro h'; linarith
        · subst h; simp

/-- comparing two finite floats that were both scaled by the same positive factor -/
theorem fLt_scale (k : Rat) (hk : 0 < k) (a b : Rat) : Py.fLt (some (k * a)) (some (k * b)) = decide (a < b) := by
  have e : (k * a < k * b) ↔ a < b := by constructor <;> intro q <;> nlinarith
  simp [Py.fLt, Py.fcmp, e]

end RnaVerif.PyL

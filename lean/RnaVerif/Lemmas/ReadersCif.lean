import RnaVerif.Lemmas.ReadersText
import RnaVerif.Lemmas.PdbCif
/-!
# Reader v1 on the `_atom_site` token table the writer model emits (core only)

`decodeCifRows … emitCifAttrs (emitCif rows) = rows.map rawCif` (`decodeCifRows_emitCif`): every item reader v1 reads from
a row is found under its name (`rfl` on the generated attribute list and source list), integers and decimals are read
back exactly, a missing insertion code is written as a null marker and read as "none".
-/
namespace RnaVerif.Readers
open RnaVerif RnaVerif.PdbV1

/-- the record reader v1 must extract from the mmCIF row of `a` -/
def rawCif (a : Pdb.Atom) : RawTok :=
  { model := a.model, entity := some "1",
    label := some ⟨String.ofList a.chain, a.resSeq, String.ofList a.resName⟩,
    auth := some ⟨String.ofList a.chain, a.resSeq, icodeOpt a.iCode, String.ofList a.resName⟩,
    name := String.ofList a.name, alt := "", occ := some ⟨a.occ, 2⟩,
    x := ⟨a.x, 3⟩, y := ⟨a.y, 3⟩, z := ⟨a.z, 3⟩, het := false }

theorem ofList_inj {s t : List Char} (h : String.ofList s = String.ofList t) : s = t := by
  have := congrArg String.toList h
  simpa [String.toList_ofList] using this

/-- the null markers of reader v1 (texts) are the null markers of the table-level reader (character lists) -/
theorem nulls_contains (t : List Char) (h : Pdb.isNullTok t = false) :
    Gen.Parser.cifIcodeNull.contains (String.ofList t) = false ∧ Gen.Parser.cifOccNull.contains (String.ofList t) = false := by
  have h1 : t ≠ ['?'] := by intro e; subst e; exact absurd h (by decide)
  have h2 : t ≠ ['.'] := by intro e; subst e; exact absurd h (by decide)
  have e1 : String.ofList t ≠ "?" := fun e => h1 (ofList_inj (e.trans (rfl : "?" = String.ofList ['?'])))
  have e2 : String.ofList t ≠ "." := fun e => h2 (ofList_inj (e.trans (rfl : "." = String.ofList ['.'])))
  simp [Gen.Parser.cifIcodeNull, Gen.Parser.cifOccNull, e1, e2]

theorem pyInt_showInt (i : Int) : pyInt (String.ofList (Pdb.showInt i)).toList = some i := by
  rw [String.toList_ofList]
  have := pyInt_showInt_padded 0 i
  rwa [Pdb.rjust_zero] at this

theorem pyFloat_fixed {p : Nat} (hp : 0 < p) (k : Int) : pyFloat (String.ofList (Pdb.fmtFixed 0 p k)).toList = some ⟨k, p⟩ := by
  rw [String.toList_ofList]; exact pyFloat_fixed_padded 0 hp k

/-- the row loop of `parse_cif` on a row in which every item is found with the value the writer model puts there -/
theorem decodeCifRow_of_gets (fb : Bool) (a : Pdb.Atom) (hic : Pdb.isNullTok a.iCode = false) (get : String → Option String)
    (g1 : get "label_entity_id" = some "1")
    (g2 : get "label_asym_id" = some (String.ofList a.chain))
    (g3 : get "label_seq_id" = some (String.ofList (Pdb.showInt a.resSeq)))
    (g4 : get "label_comp_id" = some (String.ofList a.resName))
    (g5 : get "auth_asym_id" = some (String.ofList a.chain))
    (g6 : get "auth_seq_id" = some (String.ofList (Pdb.showInt a.resSeq)))
    (g7 : get "auth_comp_id" = some (String.ofList a.resName))
    (g8 : get "pdbx_PDB_ins_code" = some (String.ofList (if a.iCode = [] then ['.'] else a.iCode)))
    (g9 : get "pdbx_PDB_model_num" = some (String.ofList (Pdb.showInt a.model)))
    (g10 : get "label_atom_id" = some (String.ofList a.name))
    (g11 : get "Cartn_x" = some (String.ofList (Pdb.fmtFixed 0 3 a.x)))
    (g12 : get "Cartn_y" = some (String.ofList (Pdb.fmtFixed 0 3 a.y)))
    (g13 : get "Cartn_z" = some (String.ofList (Pdb.fmtFixed 0 3 a.z)))
    (g14 : get "occupancy" = some (String.ofList (Pdb.fmtFixed 0 2 a.occ))) :
    decodeCifRow Gen.Parser.cifIcodeNull Gen.Parser.cifOccNull fb get = .ok (some (rawCif a)) := by
  have hicode : (if Gen.Parser.cifIcodeNull.contains (String.ofList (if a.iCode = [] then ['.'] else a.iCode)) = true then none
      else some (String.ofList (if a.iCode = [] then ['.'] else a.iCode))) = icodeOpt a.iCode := by
    by_cases e : a.iCode = []
    · simp [e, icodeOpt, Gen.Parser.cifIcodeNull]
    · simp only [e, if_false, icodeOpt]
      rw [(nulls_contains _ hic).1]
      rfl
  have hocc : Gen.Parser.cifOccNull.contains (String.ofList (Pdb.fmtFixed 0 2 a.occ)) = false :=
    (nulls_contains _ (Pdb.isNullTok_fixed 2 a.occ)).2
  unfold decodeCifRow
  simp only [g1, g2, g3, g4, g5, g6, g7, g9, g10, g11, g12, g13, g14, tryParseInt, pyInt_showInt, Option.isNone,
    Bool.and_false, Bool.false_eq_true, if_false, Option.getD, pyFloat_fixed (by decide : 0 < 3),
    pyFloat_fixed (by decide : 0 < 2), hocc, Bool.and_self, g8]
  rw [hicode]
  rfl

theorem noNullRow_iCode {a : Pdb.Atom} (h : noNullRow a = true) : Pdb.isNullTok a.iCode = false := by
  simp only [noNullRow, List.all_cons, List.all_nil, Bool.and_true, Bool.and_eq_true, Bool.not_eq_true'] at h
  exact h.2.2.2.2.2.1

/-- one emitted row -/
theorem decodeCifRow_emit (fx fb : Bool) (a : Pdb.Atom) (hn : noNullRow a = true) :
    decodeCifRow Gen.Parser.cifIcodeNull Gen.Parser.cifOccNull fb
      (fun k => (emitCifAttrs.zip ((Pdb.toCifRow fx a).map String.ofList)).lookup k) = .ok (some (rawCif a)) :=
  decodeCifRow_of_gets fb a (noNullRow_iCode hn) _ rfl rfl rfl rfl rfl rfl rfl rfl rfl rfl rfl rfl rfl rfl

theorem decodeCifRows_map (fx fb : Bool) (rows : List Pdb.Atom) (hn : ∀ a ∈ rows, noNullRow a = true) :
    decodeCifRows Gen.Parser.cifIcodeNull Gen.Parser.cifOccNull fb emitCifAttrs
      ((rows.map (Pdb.toCifRow fx)).map (·.map String.ofList)) = .ok (rows.map rawCif) := by
  induction rows with
  | nil => rfl
  | cons a rest ih =>
    simp only [List.map_cons]
    unfold decodeCifRows
    simp only
    rw [decodeCifRow_emit fx fb a (hn a List.mem_cons_self)]
    simp only
    rw [ih (fun b hb => hn b (List.mem_cons_of_mem _ hb))]

/-- **reader v1 on the emitted mmCIF token table** -/
theorem decodeCifRows_emitCif (rows : List Pdb.Atom) (hn : ∀ a ∈ rows, noNullRow a = true) :
    decodeCifRows Gen.Parser.cifIcodeNull Gen.Parser.cifOccNull Gen.Parser.cifAuthNameFallback emitCifAttrs
      ((emitCif rows).map (·.map String.ofList)) = .ok (rows.map rawCif) :=
  decodeCifRows_map _ _ rows hn

end RnaVerif.Readers

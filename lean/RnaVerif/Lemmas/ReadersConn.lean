import RnaVerif.Model.Readers
import RnaVerif.Lemmas.ReadersMain
import RnaVerif.Lemmas.Torsion
import Mathlib.Tactic.Linarith
import Mathlib.Tactic.Positivity
import Mathlib.Tactic.NormNum
/-!
# Connectivity, segments and χ of the two generations (Mathlib tactics for the arithmetic)

* both `is_connected` are the same function; it is "O3'…P distance below 12/5 Å" (`isConnected_eq`, `isConnectedV1_iff`,
  `sqrt_lt_iff`);
* `connected_residues` is a function of the *set* of residues: two listings of the same residues (each once) give the
  same segments up to the order of the chains (`segmentsWith_perm`);
* χ: for the standard residue names both generations take the same four atoms (`chiQuad_same`), and whenever neither
  guard fires the two torsion functions return values of equal magnitude (`outMag_torsion`, `abs_torsion2`).
-/
namespace RnaVerif.Readers
open RnaVerif RnaVerif.V3 RnaVerif.Torsion

/-! ## connectivity -/

/-- the literals of the two `is_connected` methods coincide -/
theorem conn_consts_eq :
    Gen.Readers.v1ConnAtomPrev = Gen.Readers.v2ConnAtomPrev ∧ Gen.Readers.v1ConnAtomNext = Gen.Readers.v2ConnAtomNext ∧
    Gen.Readers.v1ConnStrict = Gen.Readers.v2ConnStrict ∧ Gen.Readers.v1ConnFactor = Gen.Readers.v2ConnFactor ∧
    Gen.Readers.v1ConnOP = Gen.Readers.v2ConnOP := by
  refine ⟨by decide, by decide, by decide, ?_, ?_⟩
  · simp only [Gen.Readers.v1ConnFactor, Gen.Readers.v2ConnFactor]
  · simp only [Gen.Readers.v1ConnOP, Gen.Readers.v2ConnOP]

/-- both generations: the same test on the same two atoms -/
theorem isConnected_eq : isConnectedV1 = isConnectedV2 := by
  obtain ⟨h1, h2, h3, h4, h5⟩ := conn_consts_eq
  unfold isConnectedV1 isConnectedV2
  rw [h1, h2, h3, h4, h5]

theorem conn_threshold :
    Gen.Readers.v1ConnFactor * Gen.Readers.v1ConnOP = 12 / 5 ∧ Gen.Readers.v2ConnFactor * Gen.Readers.v2ConnOP = 12 / 5 := by
  simp only [Gen.Readers.v1ConnFactor, Gen.Readers.v1ConnOP, Gen.Readers.v2ConnFactor, Gen.Readers.v2ConnOP]
  norm_num

theorem conn_atoms :
    Gen.Readers.v1ConnAtomPrev = "O3'" ∧ Gen.Readers.v1ConnAtomNext = "P" ∧
    Gen.Readers.v2ConnAtomPrev = "O3'" ∧ Gen.Readers.v2ConnAtomNext = "P" ∧
    Gen.Readers.v1ConnStrict = true ∧ Gen.Readers.v2ConnStrict = true := by decide

/-- `is_connected` = both atoms present and the squared O3'…P distance below (12/5)² -/
theorem isConnectedV1_iff (a b : Res) :
    isConnectedV1 a b = true ↔
      ∃ o p, findAtom a "O3'" = some o ∧ findAtom b "P" = some p ∧ dist2 o.pos p.pos < (12 / 5 : Rat) * (12 / 5) := by
  have ht := conn_threshold.1
  unfold isConnectedV1 isConnectedWith
  simp only [Gen.Readers.v1ConnAtomPrev, Gen.Readers.v1ConnAtomNext, Gen.Readers.v1ConnStrict, connTest, if_true]
  rw [ht]
  cases h1 : findAtom a "O3'" with
  | none => simp
  | some o =>
    cases h2 : findAtom b "P" with
    | none => simp
    | some p => simp

theorem dist2_nonneg (p q : V3 ℚ) : 0 ≤ dist2 p q := by
  simp only [dist2, norm2, dot, sub]
  nlinarith [mul_self_nonneg (p.x - q.x), mul_self_nonneg (p.y - q.y), mul_self_nonneg (p.z - q.z)]

/-- on the real line: the distance (square root of the squared distance) is below 2.4 Å -/
theorem sqrt_lt_iff (d2 : ℚ) : Real.sqrt (d2 : ℝ) < 2.4 ↔ d2 < (12 / 5 : ℚ) * (12 / 5) := by
  rw [Real.sqrt_lt' (by norm_num : (0 : ℝ) < 2.4)]
  have : ((2.4 : ℝ) ^ 2) = (((12 / 5 : ℚ) * (12 / 5) : ℚ) : ℝ) := by push_cast; norm_num
  rw [this]
  exact_mod_cast Iff.rfl

/-! ## segments -/

theorem nodup_eraseDups {α : Type} [BEq α] [LawfulBEq α] : ∀ (n : Nat) (l : List α), l.length ≤ n → l.eraseDups.Nodup := by
  intro n
  induction n with
  | zero => intro l hl; cases l with
    | nil => simp
    | cons a t => simp at hl
  | succ n ih =>
    intro l hl
    cases l with
    | nil => simp
    | cons a t =>
      rw [List.eraseDups_cons, List.nodup_cons]
      constructor
      · intro hm
        rw [List.mem_eraseDups, List.mem_filter] at hm
        simp at hm
      · apply ih
        have := List.length_filter_le (fun b => !b == a) t
        simp only [List.length_cons] at hl
        omega

theorem chainsOf_perm {r1 r2 : List Res} (h : r1.Perm r2) : (chainsOf r1).Perm (chainsOf r2) := by
  unfold chainsOf
  rw [List.perm_ext_iff_of_nodup (nodup_eraseDups _ _ (Nat.le_refl _)) (nodup_eraseDups _ _ (Nat.le_refl _))]
  intro c
  rw [List.mem_eraseDups, List.mem_eraseDups]
  exact (h.map _).mem_iff

/-- what the sort of `connected_residues` compares -/
def sortId (r : Res) : Int × String := (r.number, r.icode.getD "")

theorem sortKeyLe_iff (a b : Res) :
    sortKeyLe a b = true ↔ a.number < b.number ∨ (a.number = b.number ∧ a.icode.getD "" ≤ b.icode.getD "") := by
  simp only [sortKeyLe, Bool.or_eq_true, decide_eq_true_eq, Bool.and_eq_true, beq_iff_eq, Bool.not_eq_true',
    decide_eq_false_iff_not, String.not_lt]

theorem sortKeyLe_trans (a b c : Res) : sortKeyLe a b = true → sortKeyLe b c = true → sortKeyLe a c = true := by
  rw [sortKeyLe_iff, sortKeyLe_iff, sortKeyLe_iff]
  rintro (h1 | ⟨h1, h1'⟩) (h2 | ⟨h2, h2'⟩)
  · exact Or.inl (by omega)
  · exact Or.inl (by omega)
  · exact Or.inl (by omega)
  · exact Or.inr ⟨by omega, String.le_trans h1' h2'⟩

theorem sortKeyLe_total (a b : Res) : (sortKeyLe a b || sortKeyLe b a) = true := by
  rw [Bool.or_eq_true, sortKeyLe_iff, sortKeyLe_iff]
  rcases Int.lt_trichotomy a.number b.number with h | h | h
  · exact Or.inl (Or.inl h)
  · rcases String.le_total (a.icode.getD "") (b.icode.getD "") with h' | h'
    · exact Or.inl (Or.inr ⟨h, h'⟩)
    · exact Or.inr (Or.inr ⟨h.symm, h'⟩)
  · exact Or.inr (Or.inl h)

theorem sortKeyLe_antisymm {a b : Res} (h1 : sortKeyLe a b = true) (h2 : sortKeyLe b a = true) : sortId a = sortId b := by
  rw [sortKeyLe_iff] at h1 h2
  rcases h1 with h1 | ⟨h1, h1'⟩ <;> rcases h2 with h2 | ⟨h2, h2'⟩
  · omega
  · omega
  · omega
  · simp only [sortId, Prod.mk.injEq]
    exact ⟨h1, String.le_antisymm h1' h2'⟩

/-- the chain-wise sorted listing does not depend on the order in which the residues were listed, provided no two
residues of a chain share (number, insertion code or "") -/
theorem sorted_chain_eq {r1 r2 : List Res} (h : r1.Perm r2) (hn : (r1.map (fun r => (r.chain, sortId r))).Nodup) (c : String) :
    (r1.filter (fun r => r.chain == c)).mergeSort sortKeyLe = (r2.filter (fun r => r.chain == c)).mergeSort sortKeyLe := by
  have hp : ((r1.filter (fun r => r.chain == c)).mergeSort sortKeyLe).Perm ((r2.filter (fun r => r.chain == c)).mergeSort sortKeyLe) :=
    ((List.mergeSort_perm _ _).trans (h.filter _)).trans (List.mergeSort_perm _ _).symm
  refine List.Perm.eq_of_pairwise (le := fun a b => sortKeyLe a b = true) ?_
    (List.pairwise_mergeSort sortKeyLe_trans sortKeyLe_total _) (List.pairwise_mergeSort sortKeyLe_trans sortKeyLe_total _) hp
  intro a b ha hb hab hba
  rw [List.mem_mergeSort, List.mem_filter] at ha hb
  have hb1 : b ∈ r1 := h.symm.subset hb.1
  have hc : a.chain = b.chain := by
    have h1 := ha.2; have h2 := hb.2
    simp only [beq_iff_eq] at h1 h2
    rw [h1, h2]
  exact List.inj_on_of_nodup_map hn ha.1 hb1 (by rw [hc, sortKeyLe_antisymm hab hba])

/-- **segments are a function of the set of residues**: listings that are permutations of each other give the same
segments, up to the order in which the chains come -/
theorem segmentsWith_perm (conn : Res → Res → Bool) (k : Nat) {r1 r2 : List Res} (h : r1.Perm r2)
    (hn : (r1.map (fun r => (r.chain, sortId r))).Nodup) :
    (segmentsWith conn k r1).Perm (segmentsWith conn k r2) := by
  unfold segmentsWith
  have hf : (fun c => (runs conn ((r1.filter (fun r => r.chain == c)).mergeSort sortKeyLe)).filter (fun g => decide (k ≤ g.length))) =
      (fun c => (runs conn ((r2.filter (fun r => r.chain == c)).mergeSort sortKeyLe)).filter (fun g => decide (k ≤ g.length))) := by
    funext c
    rw [sorted_chain_eq h hn c]
  rw [hf]
  exact (chainsOf_perm h).flatMap_right _

theorem segments_eq (rs : List Res) : segmentsV1 rs = segmentsV2 rs := by
  unfold segmentsV1 segmentsV2; rw [isConnected_eq]

theorem nodup_map_of_imp {α β γ : Type} {f : α → β} {k : α → γ} {l : List α}
    (h : ∀ x ∈ l, ∀ y ∈ l, f x = f y → k x = k y) (hk : (l.map k).Nodup) : (l.map f).Nodup := by
  rw [List.nodup_iff_pairwise_ne, List.pairwise_map, List.Pairwise.and_mem] at hk
  rw [List.nodup_iff_pairwise_ne, List.pairwise_map]
  refine hk.imp ?_
  rintro a b ⟨ha, hb, hne⟩ e
  exact hne (h a ha b hb e)

/-- the residues of a table never carry an empty insertion code text -/
theorem icode_ne_empty {rows : List Pdb.Atom} {r : Res} (h : r ∈ residuesOfRows rows) : r.icode ≠ some "" := by
  obtain ⟨a, _, hr⟩ := mem_residuesOfRows.1 h
  cases hg : rows.filter (fun b => decide (key3 b = key3 a)) with
  | nil => rw [hg] at hr; simp [resOfRows] at hr
  | cons b t =>
    rw [hg] at hr
    simp only [resOfRows, Option.some.injEq] at hr
    subst hr
    simp only [icodeOpt]
    split
    · simp
    · rename_i hne
      intro e
      injection e with e
      exact hne (ofList_inj (e.trans (rfl : "" = String.ofList [])))

/-- in the residue list of a table no two residues of a chain share the sort key of `connected_residues` -/
theorem sortId_nodup_residuesOfRows (rows : List Pdb.Atom) :
    ((residuesOfRows rows).map (fun r => (r.chain, sortId r))).Nodup := by
  apply nodup_map_of_imp (k := Res.key3) _ (key3_nodup_residuesOfRows rows)
  intro x hx y hy e
  simp only [sortId, Prod.mk.injEq] at e
  have hx' := icode_ne_empty hx
  have hy' := icode_ne_empty hy
  simp only [Res.key3, Prod.mk.injEq]
  refine ⟨e.1, e.2.1, ?_⟩
  have e3 := e.2.2
  cases hxi : x.icode with
  | none =>
    cases hyi : y.icode with
    | none => rfl
    | some s => rw [hxi, hyi] at e3; simp only [Option.getD] at e3; rw [hyi, ← e3] at hy'; exact absurd rfl hy'
  | some s =>
    cases hyi : y.icode with
    | none => rw [hxi, hyi] at e3; simp only [Option.getD] at e3; rw [hxi, e3] at hx'; exact absurd rfl hx'
    | some t => rw [hxi, hyi] at e3; simp only [Option.getD] at e3; rw [e3]

/-- any listing of the residues of a table gives the segments of `residuesOfRows`, up to the order of the chains -/
theorem segments_of_listing (conn : Res → Res → Bool) (k : Nat) {rows : List Pdb.Atom} {l : List Res}
    (h : l.Perm (residuesOfRows rows)) : (segmentsWith conn k l).Perm (segmentsWith conn k (residuesOfRows rows)) := by
  refine (segmentsWith_perm conn k h.symm (sortId_nodup_residuesOfRows rows)).symm

/-! ## χ: the same four atoms -/

/-- for the residue names to which `tertiary_v2` gives a χ, reader v1's one-letter name selects the same atom list -/
theorem chi_letters :
    (∀ n ∈ Gen.Tor.v2PurineNames, ∃ l, oneLetterStd n = some l ∧ Gen.Tor.v1PurineLetters.contains (upperStr l) = true) ∧
    (∀ n ∈ Gen.Tor.v2PyrimidineNames, ∃ l, oneLetterStd n = some l ∧
      Gen.Tor.v1PurineLetters.contains (upperStr l) = false ∧ Gen.Tor.v1PyrimidineLetters.contains (upperStr l) = true) ∧
    (∀ n ∈ Gen.Tor.v2PyrimidineNames, Gen.Tor.v2PurineNames.contains n = false) ∧
    Gen.Tor.v2ChiPurine = Gen.Tor.v1ChiPurine ∧ Gen.Tor.v2ChiPyrimidine = Gen.Tor.v1ChiPyrimidine := by decide

theorem chiQuad_same (r : Res) (hn : r.name ∈ Gen.Tor.v2PurineNames ++ Gen.Tor.v2PyrimidineNames) (l : String)
    (hl : oneLetterStd r.name = some l) : chiQuadV1 l r = chiQuadV2 r := by
  obtain ⟨h1, h2, h3, e1, e2⟩ := chi_letters
  rcases List.mem_append.1 hn with hm | hm
  · obtain ⟨l', hl', hc⟩ := h1 _ hm
    rw [hl] at hl'; injection hl' with hl'; subst hl'
    have hc2 : Gen.Tor.v2PurineNames.contains r.name = true := by simpa using hm
    unfold chiQuadV1 chiQuadV2
    rw [if_pos hc, if_pos hc2, e1]
  · obtain ⟨l', hl', hc, hc'⟩ := h2 _ hm
    rw [hl] at hl'; injection hl' with hl'; subst hl'
    have hc2 : Gen.Tor.v2PurineNames.contains r.name = false := h3 _ hm
    have hc3 : Gen.Tor.v2PyrimidineNames.contains r.name = true := by simpa using hm
    unfold chiQuadV1 chiQuadV2
    rw [if_neg (by rw [hc]; decide), if_pos hc', if_neg (by rw [hc2]; decide), if_pos hc3, e2]

/-! ## χ: equal magnitudes -/

theorem sgn_mul_pos {n x : ℚ} (hn : 0 < n) : sgn (n * x) = sgn x := by
  unfold sgn
  rcases lt_trichotomy x 0 with h | h | h
  · have : n * x < 0 := mul_neg_of_pos_of_neg hn h
    simp [h, this]
  · subst h; simp
  · have : 0 < n * x := mul_pos hn h
    simp [h, this, not_lt.2 h.le, not_lt.2 this.le]

theorem sgn_neg (x : ℚ) : sgn (-x) = -sgn x := by
  unfold sgn
  rcases lt_trichotomy x 0 with h | h | h
  · have h' : ¬ (-x < 0) := by linarith
    simp [h, h']
  · subst h; simp
  · have h' : ¬ (0 < -x) := by linarith
    have h'' : ¬ (x < 0) := by linarith
    simp [h, h'']

theorem abs_sgn_neg (x : ℚ) : (if -sgn x < 0 then - -sgn x else -sgn x) = (if sgn x < 0 then -sgn x else sgn x) := by
  unfold sgn
  rcases lt_trichotomy x 0 with h | h | h
  · simp [h]
  · subst h; simp
  · have h'' : ¬ (x < 0) := by linarith
    simp [h, h'']

/-- the two `atan2` argument pairs give the same quadrant up to the sign of the sine and the same tan² -/
theorem outMag_quadTan (a : Args ℚ) (hn : 0 < a.n) :
    outMag (quadTan ⟨a.n * a.x, -(a.n * a.w), a.n⟩) = outMag (quadTan a) := by
  unfold quadTan outMag
  simp only
  rw [sgn_mul_pos hn, sgn_neg, sgn_mul_pos hn, abs_sgn_neg]
  by_cases hx : a.x = 0
  · simp [hx]
  · have hnx : a.n * a.x ≠ 0 := mul_ne_zero hn.ne' hx
    simp only [hx, hnx, if_false]
    congr 2
    field_simp

theorem lagrange_rat (a b : V3 ℚ) : norm2 (cross a b) = norm2 a * norm2 b - dot a b * dot a b := by
  simp only [norm2, cross, dot]; ring

theorem n_pos_of_not_degenerate2 {p1 p2 p3 p4 : V3 ℚ} (h : degenerate2 v2CrossEps2 p1 p2 p3 p4 = false) :
    0 < (args1 p1 p2 p3 p4).n := by
  simp only [degenerate2, Bool.or_eq_false_iff, decide_eq_false_iff_not, not_lt] at h
  have he : (0 : ℚ) < v2CrossEps2 := by
    simp only [v2CrossEps2, Gen.Tor.v2CrossEps]; norm_num
  have h1 : 0 < norm2 (cross (sub p2 p1) (sub p3 p2)) := lt_of_lt_of_le he h.1
  rw [lagrange_rat] at h1
  show 0 < dot (sub p3 p2) (sub p3 p2)
  by_contra hc
  have hz : norm2 (sub p3 p2) = 0 := le_antisymm (not_lt.1 hc) (by
    simp only [norm2, dot]
    nlinarith [mul_self_nonneg (sub p3 p2).x, mul_self_nonneg (sub p3 p2).y, mul_self_nonneg (sub p3 p2).z])
  rw [hz] at h1
  nlinarith [mul_self_nonneg (dot (sub p2 p1) (sub p3 p2))]

/-- **equal magnitudes** whenever neither implementation takes its degenerate exit -/
theorem outMag_torsion (p1 p2 p3 p4 : V3 ℚ) (h1 : degenerate1 v1NormEps2 v1CrossEps2 p1 p2 p3 p4 = false)
    (h2 : degenerate2 v2CrossEps2 p1 p2 p3 p4 = false) :
    outMag (torsion2Rat p1 p2 p3 p4) = outMag (torsion1Rat p1 p2 p3 p4) := by
  unfold torsion1Rat torsion2Rat
  rw [h1, h2]
  simp only [Bool.false_eq_true, if_false]
  have e := args2_eq_args1 (K := ℚ) ⟨p1, p2, p3, p4⟩
  simp only [Quad.args2, Quad.args1] at e
  rw [e]
  exact outMag_quadTan _ (n_pos_of_not_degenerate2 h2)

/-- over ℝ: the two torsion functions have the same absolute value on every quadruple with p₂ ≠ p₃ -/
theorem abs_torsion2 (q : Quad ℝ) (hn : 0 < norm2 (sub q.p3 q.p2)) : |torsion2 q| = |torsion1 q| := by
  rw [torsion2_eq q hn]
  split_ifs with h
  · rw [h]
  · exact abs_neg _

/-! ## the degenerate exits differ -/

/-- four collinear points: v1 answers 0.0, v2 answers nan (both take their degenerate exit) -/
def collinearQuad : Quad ℚ := ⟨⟨0, 0, 0⟩, ⟨1, 0, 0⟩, ⟨2, 0, 0⟩, ⟨3, 0, 0⟩⟩

/-- nearly collinear within PDB coordinate limits: v1 normalises before testing and gives up, v2 does not -/
def guardQuad : Quad ℚ := ⟨⟨0, 0, 0⟩, ⟨1, 0, 0⟩, ⟨5001, 1 / 1000, 0⟩, ⟨5001, 1, 1⟩⟩

theorem collinear_degenerate :
    torsion1Rat collinearQuad.p1 collinearQuad.p2 collinearQuad.p3 collinearQuad.p4 = .degenerate ∧
    torsion2Rat collinearQuad.p1 collinearQuad.p2 collinearQuad.p3 collinearQuad.p4 = .degenerate := by
  constructor
  · unfold torsion1Rat
    rw [if_pos]
    simp only [collinearQuad, degenerate1, normDiv, v1NormEps2, v1CrossEps2, Gen.Tor.v1NormEps, Gen.Tor.v1CrossEps, norm2, dot,
      cross, sub, Bool.or_eq_true, decide_eq_true_eq]
    norm_num
  · unfold torsion2Rat
    rw [if_pos]
    simp only [collinearQuad, degenerate2, v2CrossEps2, Gen.Tor.v2CrossEps, norm2, dot, cross, sub, Bool.or_eq_true,
      decide_eq_true_eq]
    norm_num

theorem guard_differs :
    torsion1Rat guardQuad.p1 guardQuad.p2 guardQuad.p3 guardQuad.p4 = .degenerate ∧
    degenerate2 v2CrossEps2 guardQuad.p1 guardQuad.p2 guardQuad.p3 guardQuad.p4 = false := by
  constructor
  · unfold torsion1Rat
    rw [if_pos]
    simp only [guardQuad, degenerate1, normDiv, v1NormEps2, v1CrossEps2, Gen.Tor.v1NormEps, Gen.Tor.v1CrossEps, norm2, dot,
      cross, sub, Bool.or_eq_true, decide_eq_true_eq]
    norm_num
  · simp only [guardQuad, degenerate2, v2CrossEps2, Gen.Tor.v2CrossEps, norm2, dot, cross, sub, Bool.or_eq_false_iff,
      decide_eq_false_iff_not, not_lt]
    norm_num

end RnaVerif.Readers

import RnaVerif.Lemmas.ReadersMain
/-! # Concrete tables for the non-vacuity examples and the counter-examples of C15 (core only) -/
namespace RnaVerif.Readers
open RnaVerif RnaVerif.PdbV1

/-- one row without alternate location, B-factor 0, no element / charge, model 1 -/
def mkRow (rec : String) (serial : Int) (name resName chain : String) (resSeq : Int) (iCode : String) (x y z occ : Int) : Pdb.Atom :=
  { record := rec.toList, serial := serial, name := name.toList, altLoc := [], resName := resName.toList, chain := chain.toList,
    resSeq := resSeq, iCode := iCode.toList, x := x, y := y, z := z, occ := occ, b := 0, element := [], charge := [], model := 1 }

/-- three residues in two chains: B.G10 (O3', P), B.DA2^A (P 2.399 Å from that O3', O4'), hetero group A.MG-5;
file order is not key order -/
def exTable : List Pdb.Atom :=
  [mkRow "ATOM" 1 "O3'" "G" "B" 10 "" 0 0 0 100, mkRow "ATOM" 2 "P" "G" "B" 10 "" 5000 0 0 100,
   mkRow "ATOM" 3 "P" "DA" "B" 2 "A" 2399 0 0 50, mkRow "ATOM" 4 "O4'" "DA" "B" 2 "A" 9000 (-1500) 0 100,
   mkRow "HETATM" 5 "MG" "MG" "A" (-5) "" 100000 0 0 100]

/-- the rows of residue A.G1 are separated by a row of A.C2 -/
def exInterleaved : List Pdb.Atom :=
  [mkRow "ATOM" 1 "P" "G" "A" 1 "" 0 0 0 100, mkRow "ATOM" 2 "P" "C" "A" 2 "" 5000 0 0 100,
   mkRow "ATOM" 3 "C1'" "G" "A" 1 "" 9000 0 0 100]

/-- two atoms of one residue 0.1 Å apart with occupancies 0.30 / 0.70 and no alternate-location flag -/
def exClash : List Pdb.Atom :=
  [mkRow "ATOM" 1 "P" "G" "A" 1 "" 0 0 0 30, mkRow "ATOM" 2 "OP1" "G" "A" 1 "" 100 0 0 70]

theorem exTable_ok : singleConformer exTable = true ∧ exTable ≠ [] ∧ (∀ a ∈ exTable, Pdb.WithinPdbLimits a) ∧
    (∀ a ∈ exTable, noNullRow a = true) := by decide

theorem exBad_limits : (∀ a ∈ exInterleaved, Pdb.WithinPdbLimits a) ∧ (∀ a ∈ exClash, Pdb.WithinPdbLimits a) ∧
    noAltLoc exInterleaved = true ∧ singleModel exInterleaved = true ∧ noAltLoc exClash = true ∧ singleModel exClash = true ∧
    contiguous key3 exInterleaved = false ∧ noClash exClash = false := by decide

/-- some residue identity (chain, number, insertion code) is listed twice -/
def dupKey3 : Except Err (List Res) → Bool
  | .ok l => !(decide (l.map Res.key3).Nodup)
  | .error _ => false

def atomCount : Except Err (List Res) → Option Nat
  | .ok l => some (l.flatMap (·.atoms)).length
  | .error _ => none

/-- reader v1 on the interleaved table lists A.G1 twice -/
theorem interleaved_v1 : dupKey3 (residuesV1Pdb (emitPdb exInterleaved)) = true := by
  unfold residuesV1Pdb
  rw [parsePdb_emitPdb _ exBad_limits.1]
  decide

/-- reader v1 on the clashing table keeps one atom, the table-level reader both -/
theorem clash_v1 : atomCount (residuesV1Pdb (emitPdb exClash)) = some 1 := by
  unfold residuesV1Pdb
  rw [parsePdb_emitPdb _ exBad_limits.2.1]
  decide

theorem clash_v2 : ((residuesV2Pdb (emitPdb exClash)).flatMap (·.atoms)).length = 2 := by
  rw [residuesV2Pdb_emitPdb _ exBad_limits.2.1]
  decide

/-- reader v1 raises on a file without atom records (`KDTree` of an empty array) -/
theorem empty_v1 : residuesV1Pdb (emitPdb []) = .error .valueError := by
  unfold residuesV1Pdb
  rw [parsePdb_emitPdb [] (fun _ h => absurd h (List.not_mem_nil))]
  rfl

end RnaVerif.Readers

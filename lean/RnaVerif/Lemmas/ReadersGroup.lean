import RnaVerif.Model.Readers
import RnaVerif.Lemmas.PdbV1
/-!
# Grouping lemmas for the comparison of the two readers (core only)

* `groupSorted` (pandas `groupby`): one group per key that occurs, each group = the rows with that key in table order,
  keys without repetition (`mem_groupSorted`, `groupSorted_keys_nodup`);
* `PdbV1.group` (maximal runs) on a table whose residues are written one after the other (`contiguous`): every run is
  the list of *all* rows with its key, and no key comes twice (`mem_group_of_contiguous`, `group_keys_pairwise`);
* the filters of reader v1 are the identity on a table without repeated atom keys and without close pairs
  (`filterDup_of_distinct`, `filterClash_of_far`, `read_eq_group`).
-/
namespace RnaVerif.Readers
open RnaVerif

/-! ## `groupSorted` -/
section group
variable {κ α : Type}

theorem mem_insertNew {lt : κ → κ → Bool} {k : κ} {a : α} {gs : List (κ × List α)} {p : κ × List α} :
    p ∈ insertNew lt k a gs ↔ p = (k, [a]) ∨ p ∈ gs := by
  induction gs with
  | nil => simp [insertNew]
  | cons q rest ih =>
    unfold insertNew
    split
    · simp
    · simp only [List.mem_cons, ih]
      constructor
      · rintro (h | h | h)
        · exact Or.inr (Or.inl h)
        · exact Or.inl h
        · exact Or.inr (Or.inr h)
      · rintro (h | h | h)
        · exact Or.inr (Or.inl h)
        · exact Or.inl h
        · exact Or.inr (Or.inr h)

theorem insertNew_keys_perm (lt : κ → κ → Bool) (k : κ) (a : α) (gs : List (κ × List α)) :
    ((insertNew lt k a gs).map (·.1)).Perm (k :: gs.map (·.1)) := by
  induction gs with
  | nil => simp [insertNew]
  | cons q rest ih =>
    unfold insertNew
    split
    · simp
    · simp only [List.map_cons]
      exact (List.Perm.cons _ ih).trans (List.Perm.swap _ _ _)

variable [DecidableEq κ]

theorem appendTo_keys (k : κ) (a : α) (gs : List (κ × List α)) :
    (appendTo k a gs).map (·.1) = gs.map (·.1) := by
  unfold appendTo
  rw [List.map_map]
  apply List.map_congr_left
  intro p _
  simp only [Function.comp]
  split <;> rfl

/-- the invariant of the row loop: `pre` = rows seen so far -/
structure GInv (key : α → κ) (pre : List α) (gs : List (κ × List α)) : Prop where
  nodup : (gs.map (·.1)).Nodup
  group : ∀ p ∈ gs, p.2 = pre.filter (fun a => decide (key a = p.1)) ∧ p.2 ≠ []
  cover : ∀ a ∈ pre, ∃ p ∈ gs, p.1 = key a

theorem ginv_nil (key : α → κ) : GInv key [] [] :=
  ⟨List.nodup_nil, fun _ h => absurd h (List.not_mem_nil), fun _ h => absurd h (List.not_mem_nil)⟩

theorem ginv_step {key : α → κ} (lt : κ → κ → Bool) {pre : List α} {gs : List (κ × List α)} (h : GInv key pre gs) (a : α) :
    GInv key (pre ++ [a]) (insertRow lt (key a) a gs) := by
  unfold insertRow
  split
  · -- the key is known
    rename_i hk
    refine ⟨by rw [appendTo_keys]; exact h.nodup, ?_, ?_⟩
    · intro p' hp'
      unfold appendTo at hp'
      obtain ⟨p, hp, rfl⟩ := List.mem_map.1 hp'
      obtain ⟨hg, hne⟩ := h.group p hp
      by_cases e : p.1 = key a
      · simp only [e, if_true]
        refine ⟨?_, by simp⟩
        rw [List.filter_append, ← e, ← hg]
        simp [e]
      · simp only [e, if_false]
        refine ⟨?_, hne⟩
        rw [List.filter_append, ← hg]
        have : decide (key a = p.1) = false := by simp; exact fun h => e h.symm
        simp [this]
    · intro b hb
      rw [List.mem_append] at hb
      have : ∃ p ∈ gs, p.1 = key b := by
        rcases hb with hb | hb
        · exact h.cover b hb
        · simp only [List.mem_singleton] at hb
          subst hb
          simp only [List.any_eq_true, decide_eq_true_eq] at hk
          exact hk
      obtain ⟨p, hp, e⟩ := this
      refine ⟨if p.1 = key a then (p.1, p.2 ++ [a]) else p, ?_, ?_⟩
      · unfold appendTo
        exact List.mem_map.2 ⟨p, hp, rfl⟩
      · split <;> exact e
  · -- a new key
    rename_i hk
    have hnew : ∀ p ∈ gs, p.1 ≠ key a := by
      intro p hp e
      apply hk
      simp only [List.any_eq_true, decide_eq_true_eq]
      exact ⟨p, hp, e⟩
    have hnone : pre.filter (fun b => decide (key b = key a)) = [] := by
      rw [List.filter_eq_nil_iff]
      intro b hb
      obtain ⟨p, hp, e⟩ := h.cover b hb
      simp only [decide_eq_true_eq]
      intro e'
      exact hnew p hp (e.trans e')
    refine ⟨?_, ?_, ?_⟩
    · rw [(insertNew_keys_perm lt (key a) a gs).nodup_iff, List.nodup_cons]
      refine ⟨?_, h.nodup⟩
      intro hm
      obtain ⟨p, hp, e⟩ := List.mem_map.1 hm
      exact hnew p hp e
    · intro p hp
      rcases mem_insertNew.1 hp with rfl | hp
      · refine ⟨?_, by simp⟩
        rw [List.filter_append, hnone]
        simp
      · obtain ⟨hg, hne⟩ := h.group p hp
        refine ⟨?_, hne⟩
        rw [List.filter_append, ← hg]
        have : decide (key a = p.1) = false := by simp; exact fun e => hnew p hp e.symm
        simp [this]
    · intro b hb
      rw [List.mem_append] at hb
      rcases hb with hb | hb
      · obtain ⟨p, hp, e⟩ := h.cover b hb
        exact ⟨p, mem_insertNew.2 (Or.inr hp), e⟩
      · simp only [List.mem_singleton] at hb
        subst hb
        exact ⟨(key b, [b]), mem_insertNew.2 (Or.inl rfl), rfl⟩

theorem ginv_foldl {key : α → κ} (lt : κ → κ → Bool) (rows : List α) :
    ∀ {pre : List α} {gs : List (κ × List α)}, GInv key pre gs →
      GInv key (pre ++ rows) (rows.foldl (fun acc a => insertRow lt (key a) a acc) gs) := by
  induction rows with
  | nil => intro pre gs h; simpa using h
  | cons a rest ih =>
    intro pre gs h
    have := ih (ginv_step lt h a)
    simpa [List.append_assoc] using this

theorem ginv_groupSorted (lt : κ → κ → Bool) (key : α → κ) (rows : List α) :
    GInv key rows (groupSorted lt key rows) := by
  have := ginv_foldl lt rows (ginv_nil key)
  simpa [groupSorted] using this

theorem groupSorted_keys_nodup (lt : κ → κ → Bool) (key : α → κ) (rows : List α) :
    ((groupSorted lt key rows).map (·.1)).Nodup := (ginv_groupSorted lt key rows).nodup

/-- one group per key that occurs, holding exactly the rows with that key in table order -/
theorem mem_groupSorted {lt : κ → κ → Bool} {key : α → κ} {rows : List α} {p : κ × List α} :
    p ∈ groupSorted lt key rows ↔
      (∃ a ∈ rows, key a = p.1) ∧ p.2 = rows.filter (fun a => decide (key a = p.1)) := by
  have inv := ginv_groupSorted lt key rows
  constructor
  · intro hp
    obtain ⟨hg, hne⟩ := inv.group p hp
    refine ⟨?_, hg⟩
    cases h2 : p.2 with
    | nil => exact absurd h2 hne
    | cons b t =>
      have hb : b ∈ rows.filter (fun a => decide (key a = p.1)) := by rw [← hg, h2]; exact List.mem_cons_self
      rw [List.mem_filter] at hb
      exact ⟨b, hb.1, by simpa using hb.2⟩
  · rintro ⟨⟨a, ha, e⟩, hg⟩
    obtain ⟨q, hq, eq⟩ := inv.cover a ha
    have : q = p := by
      apply Prod.ext
      · exact eq.trans e
      · rw [(inv.group q hq).1, hg, eq.trans e]
    exact this ▸ hq

end group

/-! ## a list of homogeneous groups with pairwise different keys -/
section parts
variable {β κ : Type} [DecidableEq κ]

/-- every element of `g` carries the key `k` -/
def Homog (key : β → κ) (g : List β) : Prop := ∀ x ∈ g, ∀ y ∈ g, key x = key y

/-- no key is shared between two groups -/
def KeyDisjoint (key : β → κ) (gs : List (List β)) : Prop :=
  gs.Pairwise (fun g h => ∀ x ∈ g, ∀ y ∈ h, key x ≠ key y)

theorem filter_flatten_of_parts {key : β → κ} {gs : List (List β)} (hh : ∀ g ∈ gs, Homog key g) (hd : KeyDisjoint key gs)
    {g : List β} (hg : g ∈ gs) {x : β} (hx : x ∈ g) :
    gs.flatten.filter (fun y => decide (key y = key x)) = g := by
  induction gs with
  | nil => exact absurd hg (List.not_mem_nil)
  | cons h rest ih =>
    have hd' := List.pairwise_cons.1 hd
    rw [List.flatten_cons, List.filter_append]
    rcases List.mem_cons.1 hg with rfl | hg'
    · have h1 : g.filter (fun y => decide (key y = key x)) = g := by
        rw [List.filter_eq_self]
        intro y hy
        simpa using hh g List.mem_cons_self y hy x hx
      have h2 : rest.flatten.filter (fun y => decide (key y = key x)) = [] := by
        rw [List.filter_eq_nil_iff]
        intro y hy
        obtain ⟨h', hh', hy'⟩ := List.mem_flatten.1 hy
        simpa using fun e : key y = key x => hd'.1 h' hh' x hx y hy' e.symm
      rw [h1, h2, List.append_nil]
    · have h1 : h.filter (fun y => decide (key y = key x)) = [] := by
        rw [List.filter_eq_nil_iff]
        intro y hy
        simpa using fun e : key y = key x => hd'.1 g hg' y hy x hx e
      rw [h1, List.nil_append]
      exact ih (fun g' hg'' => hh g' (List.mem_cons_of_mem _ hg'')) hd'.2 hg'

end parts

/-! ## `contiguous` -/
section contig
variable {α κ : Type} [BEq κ] [LawfulBEq κ]

omit [LawfulBEq κ] in
theorem contiguous_cons {key : α → κ} {a : α} {rest : List α} (h : contiguous key (a :: rest) = true) :
    contiguous key rest = true := by
  simp only [contiguous, Bool.and_eq_true] at h
  exact h.2

/-- when the run of `a`'s key stops right after `a`, the key is gone for good -/
theorem contiguous_head_ne {key : α → κ} {a b : α} {rest : List α} (h : contiguous key (a :: b :: rest) = true)
    (hne : key b ≠ key a) : ∀ y ∈ b :: rest, key y ≠ key a := by
  simp only [contiguous, Bool.and_eq_true] at h
  have h1 := h.1
  have hb : (key b == key a) = false := by simpa using hne
  rw [List.dropWhile_cons, hb] at h1
  simp only [Bool.false_eq_true, if_false, List.all_eq_true] at h1
  intro y hy
  have := h1 y hy
  simpa using this

end contig

/-! ## `PdbV1.group` on a contiguous table -/
open PdbV1 in
theorem group_cons_head (b : Tok) (r : List Tok) : ∃ g gs, group (b :: r) = (b :: g) :: gs := by
  unfold group
  split
  · rename_i c g gs _
    split
    · exact ⟨c :: g, gs, rfl⟩
    · exact ⟨[], (c :: g) :: gs, rfl⟩
  · rename_i gs _; exact ⟨[], gs, rfl⟩
  · exact ⟨[], [], rfl⟩

open PdbV1 in
theorem group_homog (l : List Tok) : ∀ g ∈ group l, Homog resKey g := by
  intro g hg x hx y hy
  have hok := (group_ok l).1
  rw [List.all_eq_true] at hok
  have := hok g hg
  unfold groupOk at this
  cases g with
  | nil => exact absurd hx (List.not_mem_nil)
  | cons h t =>
    simp only [List.all_eq_true] at this
    have key : ∀ z ∈ h :: t, resKey h = resKey z := by
      intro z hz
      rcases List.mem_cons.1 hz with rfl | hz
      · rfl
      · exact (sameRes_iff h z).1 (this z hz)
    exact (key x hx).symm.trans (key y hy)

open PdbV1 in
theorem group_ne_nil (l : List Tok) : ∀ g ∈ group l, g ≠ [] := by
  intro g hg
  have hok := (group_ok l).1
  rw [List.all_eq_true] at hok
  have := hok g hg
  unfold groupOk at this
  cases g with
  | nil => exact absurd this (by decide)
  | cons h t => exact List.cons_ne_nil _ _

open PdbV1 in
theorem mem_of_mem_group {l : List Tok} {g : List Tok} (hg : g ∈ group l) {y : Tok} (hy : y ∈ g) : y ∈ l := by
  rw [← group_flatten l]
  exact List.mem_flatten.2 ⟨g, hg, hy⟩

open PdbV1 in
/-- on a contiguous table no residue identity is shared between two runs -/
theorem group_keys_pairwise (l : List Tok) (h : contiguous resKey l = true) : KeyDisjoint resKey (group l) := by
  induction l with
  | nil => simp [group, KeyDisjoint]
  | cons a rest ih =>
    have ih' := ih (contiguous_cons h)
    cases rest with
    | nil => simp [group, KeyDisjoint]
    | cons b r =>
      obtain ⟨g, gs, e⟩ := group_cons_head b r
      have hp := List.pairwise_cons.1 (by rw [KeyDisjoint, e] at ih'; exact ih')
      have hb : ∀ z ∈ b :: g, resKey z = resKey b := by
        intro z hz
        exact group_homog (b :: r) (b :: g) (by rw [e]; exact List.mem_cons_self) z hz b List.mem_cons_self
      unfold group
      rw [e]
      simp only
      by_cases hs : sameRes a b = true
      · rw [if_pos hs]
        have hab : resKey a = resKey b := (sameRes_iff a b).1 hs
        refine List.pairwise_cons.2 ⟨?_, hp.2⟩
        intro h' hh' x hx y hy
        rcases List.mem_cons.1 hx with rfl | hx
        · rw [hab]; exact hp.1 h' hh' b List.mem_cons_self y hy
        · exact hp.1 h' hh' x hx y hy
      · rw [if_neg hs]
        have hab : resKey b ≠ resKey a := fun e' => hs ((sameRes_iff a b).2 e'.symm)
        have hall := contiguous_head_ne h hab
        refine List.pairwise_cons.2 ⟨?_, by rw [KeyDisjoint, e] at ih'; exact ih'⟩
        intro h' hh' x hx y hy
        simp only [List.mem_singleton] at hx
        subst hx
        have hy' : y ∈ b :: r := by
          apply mem_of_mem_group (l := b :: r) (g := h') _ hy
          rw [e]; exact hh'
        exact fun e' => hall y hy' e'.symm

open PdbV1 in
/-- on a contiguous table the runs are exactly the lists of all rows of one identity -/
theorem mem_group_of_contiguous {l : List Tok} (h : contiguous resKey l = true) {g : List Tok} :
    g ∈ group l ↔ ∃ a ∈ l, g = l.filter (fun t => decide (resKey t = resKey a)) := by
  constructor
  · intro hg
    cases hgl : g with
    | nil => exact absurd hgl (group_ne_nil l g hg)
    | cons x t =>
      have hx : x ∈ g := by rw [hgl]; exact List.mem_cons_self
      refine ⟨x, mem_of_mem_group hg hx, ?_⟩
      have := filter_flatten_of_parts (group_homog l) (group_keys_pairwise l h) hg hx
      rw [group_flatten] at this
      rw [← hgl]; exact this.symm
  · rintro ⟨a, ha, rfl⟩
    rw [← group_flatten l] at ha
    obtain ⟨g, hg, hag⟩ := List.mem_flatten.1 ha
    have := filter_flatten_of_parts (group_homog l) (group_keys_pairwise l h) hg hag
    rw [group_flatten] at this
    rw [this]; exact hg

/-! ## the filters of reader v1 on a clean table -/

open PdbV1 in
theorem upsertE_new {cfg : Cfg} {a : Tok} {acc : List Tok} (h : ∀ c ∈ acc, sameKey cfg c a = false) :
    upsertE cfg a acc = .ok (acc ++ [a]) := by
  induction acc with
  | nil => rfl
  | cons c rest ih =>
    have hc : sameKey cfg c a = false := h c List.mem_cons_self
    unfold upsertE
    rw [if_neg (by rw [hc]; decide), ih (fun d hd => h d (List.mem_cons_of_mem _ hd))]
    rfl

open PdbV1 in
theorem filterDupFrom_of_distinct {cfg : Cfg} (l : List Tok) : ∀ (acc : List Tok), KeysDistinct cfg (acc ++ l) →
    filterDupFrom cfg acc l = .ok (acc ++ l) := by
  induction l with
  | nil => intro acc _; simp [filterDupFrom]
  | cons a rest ih =>
    intro acc h
    have hnew : ∀ c ∈ acc, sameKey cfg c a = false := by
      intro c hc
      have := List.pairwise_append.1 h
      exact this.2.2 c hc a List.mem_cons_self
    unfold filterDupFrom
    rw [upsertE_new hnew]
    simp only
    have := ih (acc ++ [a]) (by simpa [List.append_assoc] using h)
    simpa [List.append_assoc] using this

open PdbV1 in
/-- no two records with the same (model, identity, atom name): the duplicate filter keeps every record -/
theorem filterDup_of_distinct {cfg : Cfg} {l : List Tok} (h : KeysDistinct cfg l) : filterDup cfg l = .ok l := by
  have := filterDupFrom_of_distinct (cfg := cfg) l [] (by simpa using h)
  simpa [filterDup] using this

open PdbV1 in
theorem filterClashAux_of_far (cfg : Cfg) (u : Nat) (l : List Tok) : ∀ (pre : List Tok),
    (∀ a ∈ l, ∀ b ∈ pre, closeB u a b = false) → l.Pairwise (fun a b => closeB u a b = false) →
    filterClashAux cfg u pre l = l := by
  induction l with
  | nil => intro _ _ _; rfl
  | cons a rest ih =>
    intro pre hpre hpw
    have hp := List.pairwise_cons.1 hpw
    have h1 : pre.any (beatenByEarlier cfg u a) = false := by
      rw [any_false_iff]
      intro b hb
      simp [beatenByEarlier, clashes, hpre a List.mem_cons_self b hb]
    have h2 : rest.any (beatenByLater cfg u a) = false := by
      rw [any_false_iff]
      intro b hb
      simp [beatenByLater, clashes, hp.1 b hb]
    unfold filterClashAux
    rw [h1, h2]
    simp only [Bool.or_self, Bool.false_eq_true, if_false]
    rw [ih (a :: pre) ?_ hp.2]
    intro c hc b hb
    rcases List.mem_cons.1 hb with rfl | hb
    · rw [closeB_symm]; exact hp.1 c hc
    · exact hpre c (List.mem_cons_of_mem _ hc) b hb

open PdbV1 in
/-- no two records within the clash distance: the clash filter keeps every record -/
theorem filterClash_of_far {cfg : Cfg} {u : Nat} {l : List Tok} (hne : l ≠ [])
    (h : l.Pairwise (fun a b => closeB u a b = false)) : filterClash cfg u l = .ok l := by
  unfold filterClash
  have : l.isEmpty = false := by cases l <;> simp_all
  rw [this]
  simp only [Bool.false_eq_true, if_false]
  rw [filterClashAux_of_far cfg u l [] (fun _ _ b hb => absurd hb (List.not_mem_nil)) h]

open PdbV1 in
theorem selectModel_single {l : List Tok} {m : Int} (h : ∀ t ∈ l, t.model = m) : selectModel none l = l := by
  cases l with
  | nil => rfl
  | cons a rest =>
    rw [select_default a rest, List.filter_eq_self]
    intro t ht
    simp [h t ht, h a List.mem_cons_self]

open PdbV1 in
/-- **the pipeline of reader v1 on a clean single-model table is the grouping alone** (every configuration of the
three switches) -/
theorem read_eq_group (cfg : Cfg) (u : Nat) {l : List Tok} {m : Int} (hne : l ≠ []) (hm : ∀ t ∈ l, t.model = m)
    (hk : KeysDistinct cfg l) (hf : l.Pairwise (fun a b => closeB u a b = false)) :
    PdbV1.read cfg u none l = .ok (group l) := by
  unfold PdbV1.read
  rw [filterDup_of_distinct hk]
  simp only
  rw [filterClash_of_far hne hf]
  simp only
  rw [selectModel_single hm]

end RnaVerif.Readers

import RnaVerif.Lemmas.ReadersGroup
import RnaVerif.Lemmas.ReadersCif
import RnaVerif.Lemmas.PdbDoc
import RnaVerif.Lemmas.PdbCif
/-!
# The four readings of one table (core only)

For a table `rows` (single conformer, within PDB limits) all four of

    residue-level reader on the emitted PDB text      residuesV1Pdb (emitPdb rows)
    table-level reader on the emitted PDB lines       residuesV2Pdb (emitPdb rows)
    residue-level reader on the emitted mmCIF table   residuesV1Cif emitCifAttrs (emitCif rows)
    table-level reader on the emitted mmCIF table     residuesV2Cif emitCifAttrs (emitCif rows)

are lists without repetition with the same members: the residues `resOfRows (rows.filter (key3 · = key3 a))`, `a ∈ rows`
(`Canon`).  Hence each is a permutation of `residuesOfRows rows`.
-/
namespace RnaVerif.Readers
open RnaVerif RnaVerif.PdbV1

/-! ## the canonical residue set of a table -/

/-- `r` is the residue made of all rows that share (chain, number, insertion code) with some row `a` -/
def Canon (rows : List Pdb.Atom) (r : Res) : Prop :=
  ∃ a ∈ rows, resOfRows (rows.filter (fun b => decide (key3 b = key3 a))) = some r

section generic
variable {κ α : Type} [DecidableEq κ]

theorem mem_filterMap_groupSorted {ρ : Type} {lt : κ → κ → Bool} {key : α → κ} {rows : List α} {f : List α → Option ρ} {r : ρ} :
    r ∈ (groupSorted lt key rows).filterMap (fun p => f p.2) ↔
      ∃ a ∈ rows, f (rows.filter (fun b => decide (key b = key a))) = some r := by
  rw [List.mem_filterMap]
  constructor
  · rintro ⟨p, hp, hf⟩
    obtain ⟨⟨a, ha, e⟩, hg⟩ := mem_groupSorted.1 hp
    exact ⟨a, ha, by rw [e, ← hg]; exact hf⟩
  · rintro ⟨a, ha, hf⟩
    exact ⟨(key a, rows.filter (fun b => decide (key b = key a))), mem_groupSorted.2 ⟨⟨a, ha, rfl⟩, rfl⟩, hf⟩

/-- when the result remembers the key of its group, the list of results has no repetition -/
theorem nodup_filterMap_groupSorted {ρ : Type} (lt : κ → κ → Bool) (key : α → κ) (rows : List α) (f : List α → Option ρ)
    (kr : ρ → κ) (h : ∀ p ∈ groupSorted lt key rows, ∀ r, f p.2 = some r → kr r = p.1) :
    ((groupSorted lt key rows).filterMap (fun p => f p.2)).Nodup := by
  rw [List.nodup_iff_pairwise_ne, List.pairwise_filterMap]
  have hk := groupSorted_keys_nodup lt key rows
  rw [List.nodup_iff_pairwise_ne, List.pairwise_map] at hk
  rw [List.Pairwise.and_mem] at hk
  refine hk.imp ?_
  rintro p q ⟨hp, hq, hne⟩ r hr r' hr' e
  apply hne
  rw [← h p hp r hr, ← h q hq r' hr', e]

end generic

theorem resOfRows_key3 {g : List Pdb.Atom} {r : Res} (h : resOfRows g = some r) :
    ∃ a t, g = a :: t ∧ r.key3 = key3 a ∧ r.name = String.ofList a.resName ∧ r.atoms = g.map atomV2 := by
  cases g with
  | nil => simp [resOfRows] at h
  | cons a t =>
    simp only [resOfRows, Option.some.injEq] at h
    subst h
    exact ⟨a, t, rfl, rfl, rfl, rfl⟩

theorem head_of_filter {α : Type} {p : α → Bool} {l : List α} {a : α} {t : List α} (h : l.filter p = a :: t) : p a = true := by
  have : a ∈ l.filter p := by rw [h]; exact List.mem_cons_self
  exact (List.mem_filter.1 this).2

/-- `Structure(frame).residues` of a PDB-derived frame: the canonical residues, each once -/
theorem mem_residuesOfRows {rows : List Pdb.Atom} {r : Res} : r ∈ residuesOfRows rows ↔ Canon rows r :=
  mem_filterMap_groupSorted

theorem nodup_residuesOfRows (rows : List Pdb.Atom) : (residuesOfRows rows).Nodup := by
  apply nodup_filterMap_groupSorted ltKeyPdb key3 rows resOfRows Res.key3
  intro p hp r hr
  obtain ⟨⟨_, _, _⟩, hg⟩ := mem_groupSorted.1 hp
  obtain ⟨a, t, e, hk, _, _⟩ := resOfRows_key3 hr
  rw [hk]
  rw [hg] at e
  simpa using head_of_filter e

theorem key3_nodup_residuesOfRows (rows : List Pdb.Atom) : ((residuesOfRows rows).map Res.key3).Nodup := by
  rw [List.nodup_iff_pairwise_ne, List.pairwise_map]
  unfold residuesOfRows
  rw [List.pairwise_filterMap]
  have hk := groupSorted_keys_nodup ltKeyPdb key3 rows
  rw [List.nodup_iff_pairwise_ne, List.pairwise_map, List.Pairwise.and_mem] at hk
  refine hk.imp ?_
  rintro p q ⟨hp, hq, hne⟩ r hr r' hr' e
  apply hne
  have key : ∀ p ∈ groupSorted ltKeyPdb key3 rows, ∀ r, resOfRows p.2 = some r → r.key3 = p.1 := by
    intro p hp r hr
    obtain ⟨⟨_, _, _⟩, hg⟩ := mem_groupSorted.1 hp
    obtain ⟨a, t, e, hk, _, _⟩ := resOfRows_key3 hr
    rw [hk]
    rw [hg] at e
    simpa using head_of_filter e
  rw [← key p hp r hr, ← key q hq r' hr', e]

/-! ## table-level reader, PDB -/

/-- reading back the emitted PDB lines gives the frame of the table itself (C09 round trip) -/
theorem residuesV2Pdb_emitPdb (rows : List Pdb.Atom) (h : ∀ a ∈ rows, Pdb.WithinPdbLimits a) :
    residuesV2Pdb (emitPdb rows) = residuesOfRows rows := by
  unfold residuesV2Pdb emitPdb Pdb.writePdb Pdb.writePdbLines
  rw [Pdb.pdb_pdb_roundtrip_with _ rows h]
  simp [List.reduceOption]


/-! ## residue-level reader: the token of a row -/

/-- the atom record of reader v1 for row `a` (units: 1/1000 Å, 1/100 occupancy); `cif`: read from the mmCIF table (label
identity and entity present, no ATOM/HETATM distinction) -/
def tokOf (cif : Bool) (a : Pdb.Atom) : Tok :=
  { model := a.model, entity := if cif then some "1" else none,
    label := if cif then some ⟨String.ofList a.chain, a.resSeq, String.ofList a.resName⟩ else none,
    auth := some ⟨String.ofList a.chain, a.resSeq, icodeOpt a.iCode, String.ofList a.resName⟩,
    name := String.ofList a.name, alt := "", occ := some a.occ, x := a.x, y := a.y, z := a.z,
    het := !cif && decide (a.record = ['H', 'E', 'T', 'A', 'T', 'M']) }

theorem toTok_rawPdb (a : Pdb.Atom) : (rawPdb a.model a).toTok 3 2 = tokOf false a := by
  simp [RawTok.toTok, rawPdb, tokOf, Dec.scaleTo]

theorem toTok_rawCif (a : Pdb.Atom) : (rawCif a).toTok 3 2 = tokOf true a := by
  simp [RawTok.toTok, rawCif, tokOf, Dec.scaleTo]

theorem foldl_max_const {α : Type} (f : α → Nat) (c : Nat) (l : List α) (h : ∀ t ∈ l, f t = c) :
    ∀ m, m ≤ c → l ≠ [] → l.foldl (fun m t => max m (f t)) m = c := by
  induction l with
  | nil => intro m _ hne; exact absurd rfl hne
  | cons a rest ih =>
    intro m hm _
    simp only [List.foldl_cons]
    have ha : f a = c := h a List.mem_cons_self
    have e : max m (f a) = c := by rw [ha]; omega
    rw [e]
    cases rest with
    | nil => rfl
    | cons b r => exact ih (fun t ht => h t (List.mem_cons_of_mem _ ht)) c (Nat.le_refl _) (by simp)

theorem toToks_of_decs {l : List RawTok} (hne : l ≠ [])
    (hx : ∀ t ∈ l, t.x.dec = 3 ∧ t.y.dec = 3 ∧ t.z.dec = 3) (ho : ∀ t ∈ l, ∃ o, t.occ = some ⟨o, 2⟩) :
    toToks l = (3, 2, l.map (RawTok.toTok 3 2)) := by
  have h1 : maxDec l = 3 := by
    unfold maxDec
    exact foldl_max_const (fun t => max t.x.dec (max t.y.dec t.z.dec)) 3 l
      (fun t ht => by obtain ⟨a, b, c⟩ := hx t ht; simp [a, b, c]) 0 (by decide) hne
  have h2 : maxOccDec l = 2 := by
    unfold maxOccDec
    exact foldl_max_const (fun t => match t.occ with | some o => o.dec | none => 0) 2 l
      (fun t ht => by obtain ⟨o, e⟩ := ho t ht; simp [e]) 0 (by decide) hne
  simp only [toToks, h1, h2]

theorem toToks_rawPdb {rows : List Pdb.Atom} (hne : rows ≠ []) :
    toToks (rows.map (fun a => rawPdb a.model a)) = (3, 2, rows.map (tokOf false)) := by
  rw [toToks_of_decs (by simpa using hne)]
  · simp only [List.map_map]
    congr 2
    apply List.map_congr_left
    intro a _
    exact toTok_rawPdb a
  · intro t ht
    obtain ⟨a, _, rfl⟩ := List.mem_map.1 ht
    exact ⟨rfl, rfl, rfl⟩
  · intro t ht
    obtain ⟨a, _, rfl⟩ := List.mem_map.1 ht
    exact ⟨a.occ, rfl⟩

theorem toToks_rawCif {rows : List Pdb.Atom} (hne : rows ≠ []) :
    toToks (rows.map rawCif) = (3, 2, rows.map (tokOf true)) := by
  rw [toToks_of_decs (by simpa using hne)]
  · simp only [List.map_map]
    congr 2
    apply List.map_congr_left
    intro a _
    exact toTok_rawCif a
  · intro t ht
    obtain ⟨a, _, rfl⟩ := List.mem_map.1 ht
    exact ⟨rfl, rfl, rfl⟩
  · intro t ht
    obtain ⟨a, _, rfl⟩ := List.mem_map.1 ht
    exact ⟨a.occ, rfl⟩

/-! ## the hypotheses on the table, unpacked -/

theorem pairwiseB_iff {α} (p : α → α → Bool) (l : List α) :
    Readers.pairwiseB p l = true ↔ l.Pairwise (fun a b => p a b = true) := by
  induction l with
  | nil => simp [Readers.pairwiseB]
  | cons a rest ih => simp [Readers.pairwiseB, List.pairwise_cons, ih, List.all_eq_true]

theorem resKey_tokOf (c : Bool) (a b : Pdb.Atom) :
    resKey (tokOf c a) = resKey (tokOf c b) ↔ key4 a = key4 b ∧ a.model = b.model := by
  cases c
  · simp [resKey, tokOf, key4]
  · simp only [resKey, tokOf, key4, if_true, Prod.mk.injEq, Option.some.injEq, Label.mk.injEq, Auth.mk.injEq]
    constructor
    · rintro ⟨_, ⟨h1, h2, h3, h4⟩, h5⟩; exact ⟨⟨h1, h2, h3, h4⟩, h5⟩
    · rintro ⟨⟨h1, h2, h3, h4⟩, h5⟩; exact ⟨⟨h1, h2, h4⟩, ⟨h1, h2, h3, h4⟩, h5⟩

theorem singleModel_iff {rows : List Pdb.Atom} (h : singleModel rows = true) :
    ∀ a ∈ rows, ∀ b ∈ rows, a.model = b.model := by
  cases rows with
  | nil => intro a ha; exact absurd ha (List.not_mem_nil)
  | cons c rest =>
    simp only [singleModel, List.all_eq_true, beq_iff_eq] at h
    have hc : ∀ a ∈ c :: rest, a.model = c.model := by
      intro a ha
      rcases List.mem_cons.1 ha with rfl | ha
      · rfl
      · exact h a ha
    intro a ha b hb
    rw [hc a ha, hc b hb]

/-- in a name-consistent table rows with equal (chain, number, insertion code) are rows of one residue of reader v1 -/
theorem key4_of_key3 {rows : List Pdb.Atom} (hn : nameConsistent rows = true) {a b : Pdb.Atom} (ha : a ∈ rows) (hb : b ∈ rows)
    (h : key3 a = key3 b) : key4 a = key4 b := by
  have hres : a.resName = b.resName := by
    by_cases e : a = b
    · rw [e]
    · have hp := (pairwiseB_iff _ _).1 hn
      have := PdbV1.pairwise_mem_symm (R := fun a b => (!(key3 a == key3 b) || a.resName == b.resName) = true)
        (by intro x y hxy
            simp only [Bool.or_eq_true, Bool.not_eq_true', beq_eq_false_iff_ne, ne_eq, beq_iff_eq] at hxy ⊢
            rcases hxy with h1 | h1
            · exact Or.inl (fun e => h1 e.symm)
            · exact Or.inr h1.symm) hp ha hb e
      simp only [Bool.or_eq_true, Bool.not_eq_true', beq_eq_false_iff_ne, ne_eq, beq_iff_eq] at this
      rcases this with h1 | h1
      · exact absurd h h1
      · exact h1
  simp only [key3, Prod.mk.injEq] at h
  simp [key4, h.1, h.2.1, h.2.2, hres]

theorem key3_of_key4 {a b : Pdb.Atom} (h : key4 a = key4 b) : key3 a = key3 b := by
  simp only [key4, Prod.mk.injEq] at h
  simp [key3, h.1, h.2.1, h.2.2.1]

section contig2
variable {α β κ : Type} [BEq κ]

theorem contiguous_map (key : β → κ) (f : α → β) (l : List α) : contiguous key (l.map f) = contiguous (key ∘ f) l := by
  induction l with
  | nil => rfl
  | cons a rest ih =>
    simp only [List.map_cons, contiguous, ih, List.dropWhile_map, List.all_map]
    rfl

theorem dropWhile_congr_mem {p q : α → Bool} {l : List α} (h : ∀ x ∈ l, p x = q x) : l.dropWhile p = l.dropWhile q := by
  induction l with
  | nil => rfl
  | cons a rest ih =>
    simp only [List.dropWhile_cons, h a List.mem_cons_self]
    split
    · exact ih (fun x hx => h x (List.mem_cons_of_mem _ hx))
    · rfl

theorem all_congr_mem {p q : α → Bool} {l : List α} (h : ∀ x ∈ l, p x = q x) : l.all p = l.all q := by
  induction l with
  | nil => rfl
  | cons a rest ih =>
    simp only [List.all_cons, h a List.mem_cons_self, ih (fun x hx => h x (List.mem_cons_of_mem _ hx))]

theorem mem_of_mem_dropWhile {p : α → Bool} {l : List α} {x : α} (h : x ∈ l.dropWhile p) : x ∈ l :=
  (List.dropWhile_sublist p).subset h

variable {κ' : Type} [BEq κ']

/-- contiguity only depends on which rows of the table have equal keys -/
theorem contiguous_congr {k1 : α → κ} {k2 : α → κ'} {l : List α}
    (h : ∀ a ∈ l, ∀ b ∈ l, (k1 b == k1 a) = (k2 b == k2 a)) : contiguous k1 l = contiguous k2 l := by
  induction l with
  | nil => rfl
  | cons a rest ih =>
    have hd : rest.dropWhile (fun b => k1 b == k1 a) = rest.dropWhile (fun b => k2 b == k2 a) :=
      dropWhile_congr_mem (fun x hx => h a List.mem_cons_self x (List.mem_cons_of_mem _ hx))
    have ha : (rest.dropWhile (fun b => k2 b == k2 a)).all (fun b => !(k1 b == k1 a)) =
        (rest.dropWhile (fun b => k2 b == k2 a)).all (fun b => !(k2 b == k2 a)) :=
      all_congr_mem (fun x hx => by
        rw [h a List.mem_cons_self x (List.mem_cons_of_mem _ (mem_of_mem_dropWhile hx))])
    simp only [contiguous, hd, ha, ih (fun x hx y hy => h x (List.mem_cons_of_mem _ hx) y (List.mem_cons_of_mem _ hy))]

end contig2

/-- the well-formedness of the table as propositions about the tokens of reader v1 -/
theorem tokens_clean (c : Bool) (cfg : Cfg) {rows : List Pdb.Atom} (h : singleConformer rows = true) :
    (∀ a ∈ rows, ∀ b ∈ rows, a.model = b.model) ∧
    KeysDistinct cfg (rows.map (tokOf c)) ∧
    (rows.map (tokOf c)).Pairwise (fun a b => closeB (10 ^ 3) a b = false) ∧
    contiguous resKey (rows.map (tokOf c)) = true := by
  simp only [singleConformer, Bool.and_eq_true] at h
  obtain ⟨⟨⟨⟨⟨_, hm⟩, hd⟩, hc⟩, hg⟩, hn⟩ := h
  have hmod := singleModel_iff hm
  refine ⟨hmod, ?_, ?_, ?_⟩
  · unfold KeysDistinct
    rw [List.pairwise_map]
    refine ((pairwiseB_iff _ _).1 hd).imp ?_
    intro a b hab
    simp only [Bool.not_eq_true', Bool.and_eq_false_imp, beq_iff_eq, beq_eq_false_iff_ne, ne_eq] at hab
    rw [Bool.eq_false_iff]
    intro hs
    simp only [sameKey, Bool.and_eq_true, beq_iff_eq] at hs
    have hname : a.name = b.name := ofList_inj (by simpa [tokOf] using hs.1.1.1)
    have hauth : (tokOf c a).auth = (tokOf c b).auth := hs.1.1.2
    have hk : key4 a = key4 b := by
      simp only [tokOf, Option.some.injEq, Auth.mk.injEq] at hauth
      simp [key4, hauth.1, hauth.2.1, hauth.2.2.1, hauth.2.2.2]
    exact hab hk hname
  · rw [List.pairwise_map]
    refine ((pairwiseB_iff _ _).1 hc).imp ?_
    intro a b hab
    simp only [decide_eq_true_eq] at hab
    simp only [closeB, decide_eq_false_iff_not, Int.not_le]
    have e : PdbV1.dist2 (tokOf c a) (tokOf c b) = rowDist2 a b := rfl
    rw [e]
    simp only [clashNum, clashDen]
    exact hab
  · rw [contiguous_map, ← hg]
    apply contiguous_congr
    intro a ha b hb
    by_cases e : key3 b = key3 a
    · have e4 := key4_of_key3 hn hb ha e
      have : resKey (tokOf c b) = resKey (tokOf c a) := (resKey_tokOf c b a).2 ⟨e4, hmod b hb a ha⟩
      simp only [Function.comp, this, e, beq_self_eq_true]
    · have : resKey (tokOf c b) ≠ resKey (tokOf c a) := by
        intro e'
        exact e (key3_of_key4 ((resKey_tokOf c b a).1 e').1)
      simp only [Function.comp]
      rw [beq_eq_false_iff_ne.2 this, beq_eq_false_iff_ne.2 e]


/-! ## residue-level reader on a clean table -/

theorem atomV1_tokOf (c : Bool) (a : Pdb.Atom) : atomV1 (10 ^ 3) (tokOf c a) = atomV2 a := rfl

theorem resV1_map_tokOf (c : Bool) (g : List Pdb.Atom) : resV1 (10 ^ 3) (g.map (tokOf c)) = resOfRows g := by
  cases g with
  | nil => rfl
  | cons a t =>
    simp only [List.map_cons, resV1, resOfRows, tokOf, List.map_map]
    congr 2

/-- the pipeline of reader v1 on the records of a clean table: the runs of the table, as residues -/
theorem readV1_clean (c : Bool) (cfg : Cfg) {rows : List Pdb.Atom} (hne : rows ≠ []) (h : singleConformer rows = true)
    (raw : Pdb.Atom → RawTok) (htoks : toToks (rows.map raw) = (3, 2, rows.map (tokOf c))) :
    readV1 cfg (.ok (rows.map raw)) = .ok (residuesV1 (10 ^ 3) (group (rows.map (tokOf c)))) := by
  obtain ⟨hmod, hk, hf, _⟩ := tokens_clean c cfg h
  obtain ⟨a0, ha0⟩ := List.exists_mem_of_ne_nil rows hne
  have hm : ∀ t ∈ rows.map (tokOf c), t.model = a0.model := by
    intro t ht
    obtain ⟨a, ha, rfl⟩ := List.mem_map.1 ht
    exact hmod a ha a0 ha0
  unfold readV1
  simp only [htoks]
  rw [read_eq_group cfg (10 ^ 3) (by simpa using hne) hm hk hf]

theorem mem_residuesV1_clean (c : Bool) {rows : List Pdb.Atom} (h : singleConformer rows = true) {r : Res} :
    r ∈ residuesV1 (10 ^ 3) (group (rows.map (tokOf c))) ↔ Canon rows r := by
  obtain ⟨hmod, _, _, hcont⟩ := tokens_clean c cfgFixed h
  have hn : nameConsistent rows = true := by
    simp only [singleConformer, Bool.and_eq_true] at h; exact h.2
  have filt : ∀ a ∈ rows, (rows.map (tokOf c)).filter (fun t => decide (resKey t = resKey (tokOf c a))) =
      (rows.filter (fun b => decide (key3 b = key3 a))).map (tokOf c) := by
    intro a ha
    rw [List.filter_map]
    congr 1
    apply List.filter_congr
    intro b hb
    simp only [Function.comp]
    by_cases e : key3 b = key3 a
    · have := (resKey_tokOf c b a).2 ⟨key4_of_key3 hn hb ha e, hmod b hb a ha⟩
      simp [e, this]
    · have : resKey (tokOf c b) ≠ resKey (tokOf c a) := fun e' => e (key3_of_key4 ((resKey_tokOf c b a).1 e').1)
      simp [e, this]
  unfold residuesV1 Canon
  rw [List.mem_filterMap]
  constructor
  · rintro ⟨g, hg, hr⟩
    obtain ⟨t, ht, rfl⟩ := (mem_group_of_contiguous hcont).1 hg
    obtain ⟨a, ha, rfl⟩ := List.mem_map.1 ht
    refine ⟨a, ha, ?_⟩
    rw [filt a ha, resV1_map_tokOf] at hr
    exact hr
  · rintro ⟨a, ha, hr⟩
    refine ⟨_, (mem_group_of_contiguous hcont).2 ⟨tokOf c a, List.mem_map.2 ⟨a, ha, rfl⟩, rfl⟩, ?_⟩
    rw [filt a ha, resV1_map_tokOf]
    exact hr

theorem nodup_residuesV1_clean (c : Bool) {rows : List Pdb.Atom} (h : singleConformer rows = true) :
    (residuesV1 (10 ^ 3) (group (rows.map (tokOf c)))).Nodup := by
  obtain ⟨hmod, _, _, hcont⟩ := tokens_clean c cfgFixed h
  unfold residuesV1
  rw [List.nodup_iff_pairwise_ne, List.pairwise_filterMap]
  have hd := group_keys_pairwise _ hcont
  unfold KeyDisjoint at hd
  rw [List.Pairwise.and_mem] at hd
  refine hd.imp ?_
  rintro g k ⟨hg, hk, hne⟩ r hr r' hr' e
  -- heads of the two runs
  have head : ∀ g ∈ group (rows.map (tokOf c)), ∀ r, resV1 (10 ^ 3) g = some r →
      ∃ a ∈ rows, tokOf c a ∈ g ∧ r.key = key4 a := by
    intro g hg r hr
    cases g with
    | nil => simp [resV1] at hr
    | cons t rest =>
      have ht : t ∈ rows.map (tokOf c) := mem_of_mem_group hg List.mem_cons_self
      obtain ⟨a, ha, rfl⟩ := List.mem_map.1 ht
      refine ⟨a, ha, List.mem_cons_self, ?_⟩
      simp only [resV1, tokOf, Option.some.injEq] at hr
      subst hr
      rfl
  obtain ⟨a, ha, hag, hka⟩ := head g hg r hr
  obtain ⟨b, hb, hbk, hkb⟩ := head k hk r' hr'
  have : key4 a = key4 b := by rw [← hka, ← hkb, e]
  exact hne _ hag _ hbk ((resKey_tokOf c a b).2 ⟨this, hmod a ha b hb⟩)

/-- two lists without repetition and with the canonical members are permutations of each other -/
theorem perm_of_canon {rows : List Pdb.Atom} {l1 l2 : List Res} (n1 : l1.Nodup) (n2 : l2.Nodup)
    (m1 : ∀ r, r ∈ l1 ↔ Canon rows r) (m2 : ∀ r, r ∈ l2 ↔ Canon rows r) : l1.Perm l2 :=
  (List.perm_ext_iff_of_nodup n1 n2).2 (fun r => (m1 r).trans (m2 r).symm)

/-- **residue-level reader, PDB** -/
theorem residuesV1Pdb_emitPdb {rows : List Pdb.Atom} (hne : rows ≠ []) (hw : ∀ a ∈ rows, Pdb.WithinPdbLimits a)
    (h : singleConformer rows = true) :
    ∃ r1, residuesV1Pdb (emitPdb rows) = .ok r1 ∧ r1.Perm (residuesOfRows rows) ∧ r1.Nodup := by
  refine ⟨_, ?_, perm_of_canon (nodup_residuesV1_clean false h) (nodup_residuesOfRows rows)
    (fun r => mem_residuesV1_clean false h) (fun r => mem_residuesOfRows), nodup_residuesV1_clean false h⟩
  unfold residuesV1Pdb
  rw [parsePdb_emitPdb rows hw]
  exact readV1_clean false codeCfg hne h _ (toToks_rawPdb hne)

/-- **residue-level reader, mmCIF** -/
theorem residuesV1Cif_emitCif {rows : List Pdb.Atom} (hne : rows ≠ []) (hn : ∀ a ∈ rows, noNullRow a = true)
    (h : singleConformer rows = true) :
    ∃ r1, residuesV1Cif emitCifAttrs (emitCif rows) = .ok r1 ∧ r1.Perm (residuesOfRows rows) ∧ r1.Nodup := by
  refine ⟨_, ?_, perm_of_canon (nodup_residuesV1_clean true h) (nodup_residuesOfRows rows)
    (fun r => mem_residuesV1_clean true h) (fun r => mem_residuesOfRows), nodup_residuesV1_clean true h⟩
  unfold residuesV1Cif
  rw [decodeCifRows_emitCif rows hn]
  exact readV1_clean true codeCfg hne h _ (toToks_rawCif hne)


/-! ## table-level reader, mmCIF -/

theorem noNullTokens_of_noNullRow {a : Pdb.Atom} (h : noNullRow a = true) : Pdb.noNullTokens a = true := by
  simp only [noNullRow, List.all_cons, List.all_nil, Bool.and_true, Bool.and_eq_true, Bool.not_eq_true'] at h
  simp only [Pdb.noNullTokens, Pdb.isNullTok, Bool.and_eq_true, Bool.not_eq_true']
  exact ⟨⟨⟨⟨⟨⟨h.1, h.2.1⟩, h.2.2.1⟩, h.2.2.2.1⟩, h.2.2.2.2.1⟩, h.2.2.2.2.2.1⟩, h.2.2.2.2.2.2⟩

/-- the typed row of the mmCIF-derived frame for table row `a`: every field but the charge text is kept -/
def cifRowOf (a : Pdb.Atom) : String × Pdb.Atom :=
  (String.ofList (Pdb.showInt a.resSeq), { a with charge := Pdb.cifRoundCharge Gen.ParserV2.cifChargeSigned a.charge })

theorem cifFrame_emitCif (rows : List Pdb.Atom) (hn : ∀ a ∈ rows, noNullRow a = true) :
    cifFrame emitCifAttrs (emitCif rows) = rows.map cifRowOf := by
  unfold cifFrame emitCif
  rw [List.filterMap_map]
  induction rows with
  | nil => rfl
  | cons a rest ih =>
    have ha := noNullTokens_of_noNullRow (hn a List.mem_cons_self)
    simp only [List.filterMap_cons, Function.comp, List.map_cons]
    have e1 : Pdb.ofCifRow emitCifAttrs (Pdb.toCifRowCode a) = some (cifRowOf a).2 := Pdb.ofCifRow_toCifRow _ a ha
    have e2 : Pdb.cifOptText emitCifAttrs (Pdb.toCifRowCode a) .resSeq = Pdb.showInt a.resSeq :=
      Pdb.optText_of_not_null _ _ _ _ (Pdb.get_resSeq _ a) (Pdb.isNullTok_showInt _)
    rw [e1, e2]
    simp only [Option.map_some]
    rw [ih (fun b hb => hn b (List.mem_cons_of_mem _ hb))]
    rfl

theorem showInt_inj {i j : Int} (h : String.ofList (Pdb.showInt i) = String.ofList (Pdb.showInt j)) : i = j := by
  have := congrArg Pdb.parseInt (ofList_inj h)
  simpa [Pdb.parseInt_showInt] using this

theorem keyCif_cifRowOf (a b : Pdb.Atom) : keyCif (cifRowOf b) = keyCif (cifRowOf a) ↔ key3 b = key3 a := by
  simp only [keyCif, cifRowOf, key3, Prod.mk.injEq]
  constructor
  · rintro ⟨h1, h2, h3⟩; exact ⟨h1, showInt_inj h2, h3⟩
  · rintro ⟨h1, h2, h3⟩; exact ⟨h1, by rw [h2], h3⟩

theorem resOfRows_cifRowOf (g : List Pdb.Atom) : resOfRows ((g.map cifRowOf).map (·.2)) = resOfRows g := by
  cases g with
  | nil => rfl
  | cons a t =>
    simp only [List.map_cons, resOfRows, List.map_map, cifRowOf]
    congr 2

theorem filter_cifRowOf (rows : List Pdb.Atom) (a : Pdb.Atom) :
    (rows.map cifRowOf).filter (fun p => decide (keyCif p = keyCif (cifRowOf a))) =
      (rows.filter (fun b => decide (key3 b = key3 a))).map cifRowOf := by
  rw [List.filter_map]
  congr 1
  apply List.filter_congr
  intro b _
  simp only [Function.comp]
  by_cases e : key3 b = key3 a
  · simp [e, (keyCif_cifRowOf a b).2 e]
  · have : keyCif (cifRowOf b) ≠ keyCif (cifRowOf a) := fun e' => e ((keyCif_cifRowOf a b).1 e')
    simp [e, this]

theorem mem_residuesV2Cif {rows : List Pdb.Atom} (hn : ∀ a ∈ rows, noNullRow a = true) {r : Res} :
    r ∈ residuesV2Cif emitCifAttrs (emitCif rows) ↔ Canon rows r := by
  unfold residuesV2Cif
  rw [cifFrame_emitCif rows hn]
  have key := mem_filterMap_groupSorted (lt := ltKeyCif) (key := keyCif) (rows := rows.map cifRowOf)
    (f := fun g : List (String × Pdb.Atom) => resOfRows (g.map (·.2))) (r := r)
  rw [key]
  unfold Canon
  constructor
  · rintro ⟨p, hp, hr⟩
    obtain ⟨a, ha, rfl⟩ := List.mem_map.1 hp
    refine ⟨a, ha, ?_⟩
    rw [filter_cifRowOf, resOfRows_cifRowOf] at hr
    exact hr
  · rintro ⟨a, ha, hr⟩
    refine ⟨cifRowOf a, List.mem_map.2 ⟨a, ha, rfl⟩, ?_⟩
    rw [filter_cifRowOf, resOfRows_cifRowOf]
    exact hr

theorem nodup_residuesV2Cif {rows : List Pdb.Atom} (hn : ∀ a ∈ rows, noNullRow a = true) :
    (residuesV2Cif emitCifAttrs (emitCif rows)).Nodup := by
  unfold residuesV2Cif
  rw [cifFrame_emitCif rows hn]
  apply nodup_filterMap_groupSorted ltKeyCif keyCif (rows.map cifRowOf) (fun g => resOfRows (g.map (·.2)))
    (fun r => (r.chain, String.ofList (Pdb.showInt r.number), r.icode))
  intro p hp r hr
  obtain ⟨⟨q, hq, hqk⟩, hg⟩ := mem_groupSorted.1 hp
  obtain ⟨a, ha, rfl⟩ := List.mem_map.1 hq
  rw [hg, ← hqk, filter_cifRowOf, resOfRows_cifRowOf] at hr
  obtain ⟨b, t, e, hk, _, _⟩ := resOfRows_key3 hr
  have hb : key3 b = key3 a := by simpa using head_of_filter e
  rw [← hqk]
  simp only [Res.key3, key3, Prod.mk.injEq] at hk hb
  simp only [keyCif, cifRowOf, Prod.mk.injEq]
  exact ⟨hk.1.trans hb.1, by rw [hk.2.1, hb.2.1], hk.2.2.trans hb.2.2⟩

/-- **table-level reader, mmCIF** (groups come in the order of the *texts* of the numbers, hence a permutation) -/
theorem residuesV2Cif_emitCif {rows : List Pdb.Atom} (hn : ∀ a ∈ rows, noNullRow a = true) :
    (residuesV2Cif emitCifAttrs (emitCif rows)).Perm (residuesOfRows rows) :=
  perm_of_canon (nodup_residuesV2Cif hn) (nodup_residuesOfRows rows) (fun _ => mem_residuesV2Cif hn)
    (fun _ => mem_residuesOfRows)

end RnaVerif.Readers

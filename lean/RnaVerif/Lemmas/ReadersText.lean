import RnaVerif.Model.Readers
import RnaVerif.Lemmas.Pdb
import RnaVerif.Lemmas.PdbDoc
import RnaVerif.Lemmas.PdbV1Text
/-!
# Reader v1 on what the table-level writer model emits (core only)

`parseLineV1 cur (Pdb.formatAtom a ++ "\n") = atom (rawPdb cur a)` for every row within the PDB limits
(`parseLineV1_formatAtom`): Python `int()` / `float()` / `strip()` of reader v1 (`PdbV1.pyInt`, `pyFloat`, `strip`) on the
fields `Pdb.formatAtom` prints (`showInt`, `fixedBody`, blank padding), through the column slicer theorem
`PdbV1.parseLine_fields`.  Then the whole document `Pdb.writePdb rows` (`parsePdb_docText_writePdb`).
-/
namespace RnaVerif.Readers
open RnaVerif RnaVerif.PdbV1

/-! ## Python `strip` of reader v1 on blank-padded text -/

def NoPyWs (s : List Char) : Prop := ∀ c ∈ s, isPyWs c = false

theorem isPyWs_space : isPyWs ' ' = true := by decide

theorem isPyWs_of_range {c : Char} (h1 : 33 ≤ c.toNat) : isPyWs c = false := by
  have hc : ∀ d : Char, d.toNat < 33 → c ≠ d := by
    intro d hd e; subst e; omega
  simp only [isPyWs, Bool.or_eq_false_iff, beq_eq_false_iff_ne, ne_eq, Bool.and_eq_false_imp, decide_eq_true_eq,
    decide_eq_false_iff_not]
  refine ⟨⟨⟨⟨⟨⟨hc ' ' (by decide), hc '\t' (by decide)⟩, hc '\n' (by decide)⟩, hc '\r' (by decide)⟩, by omega⟩, by omega⟩, by omega⟩

theorem isPyWs_of_not_ws {c : Char} (h : Pdb.isWs c = false) : isPyWs c = false := by
  by_cases h1 : 33 ≤ c.toNat
  · exact isPyWs_of_range h1
  · -- below 33 every `isPyWs` character is an `isWs` character
    simp only [Pdb.isWs, Bool.or_eq_false_iff, Bool.and_eq_false_imp, decide_eq_true_eq, decide_eq_false_iff_not,
      beq_eq_false_iff_ne, ne_eq] at h
    have h9 : ¬ (9 ≤ c.toNat ∧ c.toNat ≤ 13) := by
      intro hh; exact h.1.1.1.1.1.1.1.1.1.1 hh.1 hh.2
    have h28 : ¬ (28 ≤ c.toNat ∧ c.toNat ≤ 32) := by
      intro hh; exact h.1.1.1.1.1.1.1.1.1.2 hh.1 hh.2
    have hc : ∀ d : Char, (9 ≤ d.toNat ∧ d.toNat ≤ 13) ∨ (28 ≤ d.toNat ∧ d.toNat ≤ 32) → c ≠ d := by
      intro d hd e; subst e; rcases hd with hd | hd
      · exact h9 hd
      · exact h28 hd
    simp only [isPyWs, Bool.or_eq_false_iff, beq_eq_false_iff_ne, ne_eq, Bool.and_eq_false_imp, decide_eq_true_eq,
      decide_eq_false_iff_not]
    refine ⟨⟨⟨⟨⟨⟨hc ' ' (by decide), hc '\t' (by decide)⟩, hc '\n' (by decide)⟩, hc '\r' (by decide)⟩, by omega⟩, by omega⟩, by omega⟩

theorem NoPyWs.of_noWs {s : List Char} (h : Pdb.NoWs s) : NoPyWs s := fun c hc => isPyWs_of_not_ws (h c hc)

theorem NoPyWs.reverse {s : List Char} (h : NoPyWs s) : NoPyWs s.reverse := fun c hc => h c (List.mem_reverse.1 hc)

theorem dropWhile_pyBlank_append (n : Nat) (t : List Char) :
    (List.replicate n ' ' ++ t).dropWhile isPyWs = t.dropWhile isPyWs := by
  induction n with
  | zero => simp
  | succ n ih => simp [List.replicate_succ, isPyWs_space, ih]

theorem dropWhile_noPyWs_append {s : List Char} (hs : NoPyWs s) (hne : s ≠ []) (t : List Char) :
    (s ++ t).dropWhile isPyWs = s ++ t := by
  cases s with
  | nil => exact absurd rfl hne
  | cons c s' =>
    have : isPyWs c = false := hs c List.mem_cons_self
    simp [this]

theorem pyStrip_pad (n m : Nat) {s : List Char} (hs : NoPyWs s) :
    PdbV1.strip (List.replicate n ' ' ++ s ++ List.replicate m ' ') = s := by
  unfold PdbV1.strip stripL
  rw [List.append_assoc, dropWhile_pyBlank_append]
  by_cases hne : s = []
  · subst hne
    have h1 : (List.replicate m ' ').dropWhile isPyWs = [] := by
      have := dropWhile_pyBlank_append m []
      simpa using this
    simp [h1]
  · have h2 := dropWhile_noPyWs_append (t := []) hs.reverse (by simpa using hne)
    rw [List.append_nil] at h2
    rw [dropWhile_noPyWs_append hs hne, List.reverse_append, List.reverse_replicate,
      dropWhile_pyBlank_append, h2, List.reverse_reverse]

theorem pyStrip_rjust (w : Nat) {s : List Char} (hs : NoPyWs s) : PdbV1.strip (Pdb.rjust w s) = s := by
  have := pyStrip_pad (w - s.length) 0 hs
  simpa [Pdb.rjust] using this

theorem pyStrip_ljust (w : Nat) {s : List Char} (hs : NoPyWs s) : PdbV1.strip (Pdb.ljust w s) = s := by
  have := pyStrip_pad 0 (w - s.length) hs
  simpa [Pdb.ljust] using this

theorem pyStrip_blank_cons_ljust (w : Nat) {s : List Char} (hs : NoPyWs s) : PdbV1.strip (Pdb.ljust w (' ' :: s)) = s := by
  have := pyStrip_pad 1 (w - (s.length + 1)) hs
  simpa [Pdb.ljust] using this

theorem pyStrip_atomNameFmt {s : List Char} (h : NoPyWs s) : PdbV1.strip (Pdb.atomNameFmt 4 4 s) = s := by
  unfold Pdb.atomNameFmt
  split
  · split
    · exact pyStrip_blank_cons_ljust _ h
    · exact pyStrip_ljust _ h
  · exact pyStrip_ljust _ h

/-! ## Python `int()` / `float()` of reader v1 on printed numbers -/

theorem natOfDigits_eq {l : List Char} (h : l.all Char.isDigit = true) (acc : Nat) :
    natOfDigits acc l = some (Nat.ofDigitChars 10 l acc) := by
  induction l generalizing acc with
  | nil => simp [natOfDigits]
  | cons c rest ih =>
    simp only [List.all_cons, Bool.and_eq_true] at h
    simp only [natOfDigits, digitVal, h.1, if_true, Nat.ofDigitChars_cons]
    rw [ih h.2, Nat.mul_comm]
    rfl

theorem natOfDigits_showNat (n : Nat) : natOfDigits 0 (Pdb.showNat n) = some n := by
  rw [natOfDigits_eq (Pdb.showNat_all_digit n)]
  simp [Pdb.showNat]

theorem pyInt_showInt_padded (w : Nat) (i : Int) : pyInt (Pdb.rjust w (Pdb.showInt i)) = some i := by
  unfold pyInt
  rw [pyStrip_rjust w (NoPyWs.of_noWs (Pdb.showInt_noWs i))]
  unfold Pdb.showInt
  by_cases hi : i < 0
  · rw [if_pos hi]
    simp only
    have hne : (Pdb.showNat i.natAbs).isEmpty = false := by
      cases h : Pdb.showNat i.natAbs with
      | nil => exact absurd h (Pdb.showNat_ne_nil _)
      | cons _ _ => rfl
    rw [hne, natOfDigits_showNat]
    simp; omega
  · rw [if_neg hi]
    obtain ⟨c, r, hc, hd⟩ := Pdb.showNat_eq_cons i.natAbs
    have h1 : c ≠ '-' := by intro e; subst e; exact absurd hd (by decide)
    have h2 : c ≠ '+' := by intro e; subst e; exact absurd hd (by decide)
    have := natOfDigits_showNat i.natAbs
    rw [hc] at this ⊢
    split
    · rename_i heq; exact absurd heq (by simp)
    · rename_i heq; injection heq with e _; exact absurd e h1
    · rename_i heq; injection heq with e _; exact absurd e h2
    · rw [this]; simp; omega

theorem decBody_fixedAbsBody {p : Nat} (hp : 0 < p) (m : Nat) : decBody (Pdb.fixedAbsBody p m) = some (m, p) := by
  have hl : (Pdb.padZeros p (Pdb.showNat (m % 10 ^ p))).length = p :=
    Pdb.length_padZeros _ _ (Pdb.length_showNat_mod p m hp)
  have hdig : (Pdb.showNat (m / 10 ^ p) ++ Pdb.padZeros p (Pdb.showNat (m % 10 ^ p))).all Char.isDigit = true := by
    rw [List.all_append, Pdb.showNat_all_digit, Pdb.padZeros_all_digit p (Pdb.showNat_all_digit _)]; rfl
  have hne : (Pdb.showNat (m / 10 ^ p)).isEmpty = false := by
    cases h : Pdb.showNat (m / 10 ^ p) with
    | nil => exact absurd h (Pdb.showNat_ne_nil _)
    | cons _ _ => rfl
  unfold decBody Pdb.fixedAbsBody
  rw [if_neg (Nat.ne_of_gt hp)]
  simp only [Pdb.takeWhile_digits_dot (Pdb.showNat_all_digit _), Pdb.dropWhile_digits_dot (Pdb.showNat_all_digit _)]
  rw [hne]
  simp only [Bool.false_and, Bool.false_eq_true, if_false]
  rw [natOfDigits_eq hdig, Nat.ofDigitChars_append, Nat.ofDigitChars_eq_ofDigitChars_zero, hl,
    Pdb.ofDigitChars_padZeros]
  simp only [Pdb.showNat, Nat.ofDigitChars_ten_toDigits]
  rw [Nat.div_add_mod]

theorem pyFloat_fixed_padded (w : Nat) {p : Nat} (hp : 0 < p) (k : Int) :
    pyFloat (Pdb.fmtFixed w p k) = some ⟨k, p⟩ := by
  unfold pyFloat Pdb.fmtFixed
  rw [pyStrip_rjust w (NoPyWs.of_noWs (Pdb.fixedBody_noWs p k)), Pdb.fixedBody_eq]
  by_cases hk : k < 0
  · rw [if_pos hk]
    simp only [List.cons_append, List.nil_append]
    rw [decBody_fixedAbsBody hp]
    simp; omega
  · rw [if_neg hk, List.nil_append]
    obtain ⟨c, r, hc, hd⟩ := Pdb.fixedAbsBody_eq_cons p k.natAbs
    have h1 : c ≠ '-' := by intro e; subst e; exact absurd hd (by decide)
    have h2 : c ≠ '+' := by intro e; subst e; exact absurd hd (by decide)
    have := decBody_fixedAbsBody hp k.natAbs
    rw [hc] at this ⊢
    split
    · rename_i heq; exact absurd heq (by simp)
    · rename_i heq; injection heq with e _; exact absurd e h1
    · rename_i heq; injection heq with e _; exact absurd e h2
    · rw [this]; simp; omega


/-! ## one ATOM/HETATM line -/

/-- the record reader v1 must extract from the PDB line of row `a` while its current model number is `cur` -/
def rawPdb (cur : Int) (a : Pdb.Atom) : RawTok :=
  { model := cur, entity := none, label := none,
    auth := some ⟨String.ofList a.chain, a.resSeq, icodeOpt a.iCode, String.ofList a.resName⟩,
    name := String.ofList a.name, alt := "", occ := some ⟨a.occ, 2⟩,
    x := ⟨a.x, 3⟩, y := ⟨a.y, 3⟩, z := ⟨a.z, 3⟩, het := decide (a.record = ['H', 'E', 'T', 'A', 'T', 'M']) }

/-- the fixed-width fields of the line `Pdb.formatAtom a` followed by a newline -/
def fieldsOf (a : Pdb.Atom) : PdbFields :=
  { het := decide (a.record = ['H', 'E', 'T', 'A', 'T', 'M']), serial := Pdb.rjust 5 (Pdb.showInt a.serial),
    name := Pdb.atomNameFmt 4 4 a.name, alt := a.altLoc.headD ' ', resName := Pdb.rjust 3 a.resName,
    chain := a.chain.headD ' ', num := Pdb.rjust 4 (Pdb.showInt a.resSeq), icode := a.iCode.headD ' ',
    x := Pdb.fmtFixed 8 3 a.x, y := Pdb.fmtFixed 8 3 a.y, z := Pdb.fmtFixed 8 3 a.z, occ := Pdb.fmtFixed 6 2 a.occ,
    tail := Pdb.fmtFixed 6 2 a.b ++ (List.replicate 10 ' ' ++ (Pdb.rjust 2 a.element ++ (Pdb.chargeFmt 2 2 a.charge ++ ['\n']))) }

theorem ljust_one {s : List Char} (h : s.length ≤ 1) : Pdb.ljust 1 s = [s.headD ' '] := by
  match s, h with
  | [], _ => rfl
  | [c], _ => rfl

/-- under the limits the line is the plain concatenation of its segments -/
theorem formatAtom_plain (a : Pdb.Atom) (h : Pdb.Lim a) :
    Pdb.formatAtom a =
      Pdb.ljust 6 a.record ++ (Pdb.rjust 5 (Pdb.showInt a.serial) ++ ([' '] ++ (Pdb.atomNameFmt 4 4 a.name ++
      (Pdb.ljust 1 a.altLoc ++ (Pdb.rjust 3 a.resName ++ ([' '] ++ (Pdb.ljust 1 a.chain ++
      (Pdb.rjust 4 (Pdb.showInt a.resSeq) ++ (Pdb.ljust 1 a.iCode ++ ([' ', ' ', ' '] ++
      (Pdb.fmtFixed 8 3 a.x ++ (Pdb.fmtFixed 8 3 a.y ++ (Pdb.fmtFixed 8 3 a.z ++ (Pdb.fmtFixed 6 2 a.occ ++
      (Pdb.fmtFixed 6 2 a.b ++ (List.replicate 10 ' ' ++ (Pdb.rjust 2 a.element ++
      (Pdb.chargeFmt 2 2 a.charge ++ [])))))))))))))))))) := by
  have h0 : (Pdb.ljust 6 a.record).length = 6 := by
    rcases h.record with e | e <;> rw [e] <;> rfl
  have h1 : (Pdb.rjust 5 (Pdb.showInt a.serial)).length = 5 :=
    Pdb.length_rjust _ _ (Pdb.length_showInt_le 4 _ (by decide) (by have := h.serial_hi; omega)
      (by have := h.serial_lo; omega))
  have h2 : [' '].length = 1 := rfl
  have h3 := Pdb.length_atomNameFmt h.name_hi
  have h4 : (Pdb.ljust 1 a.altLoc).length = 1 := Pdb.length_ljust _ _ h.altLoc_hi
  have h5 : (Pdb.rjust 3 a.resName).length = 3 := Pdb.length_rjust _ _ h.resName_hi
  have h7 : (Pdb.ljust 1 a.chain).length = 1 := Pdb.length_ljust _ _ (Nat.le_of_eq h.chain_len)
  have h8 : (Pdb.rjust 4 (Pdb.showInt a.resSeq)).length = 4 :=
    Pdb.length_rjust _ _ (Pdb.length_showInt_le 3 _ (by decide) (by have := h.resSeq_hi; omega)
      (by have := h.resSeq_lo; omega))
  have h9 : (Pdb.ljust 1 a.iCode).length = 1 := Pdb.length_ljust _ _ h.iCode_hi
  have h10 : [' ', ' ', ' '].length = 3 := rfl
  have h11 := Pdb.length_fmtFixed83 h.x_lo h.x_hi
  have h12 := Pdb.length_fmtFixed83 h.y_lo h.y_hi
  have h13 := Pdb.length_fmtFixed83 h.z_lo h.z_hi
  have h14 := Pdb.length_fmtFixed62 h.occ_lo h.occ_hi
  have h15 := Pdb.length_fmtFixed62 h.b_lo h.b_hi
  have h16 : (List.replicate 10 ' ').length = 10 := List.length_replicate
  have h17 : (Pdb.rjust 2 a.element).length = 2 := Pdb.length_rjust _ _ h.element_hi
  have h18 := (Pdb.charge_facts _ h.charge).1
  have key := Pdb.slices_of_segments _ _ _ _ _ _ _ _ _ _ _ _ _ _ _ _ _ _ _
    h0 h1 h2 h3 h4 h5 h2 h7 h8 h9 h10 h11 h12 h13 h14 h15 h16 h17 h18 _ rfl
  rw [Pdb.formatAtom_explicit, Pdb.take_of_length_le h.altLoc_hi, Pdb.take_of_length_le (Nat.le_of_eq h.chain_len),
    Pdb.take_of_length_le h.iCode_hi, Pdb.ljust_of_length_ge _ _ (Nat.le_of_eq key.1.symm)]

theorem fieldsOf_line (a : Pdb.Atom) (h : Pdb.Lim a) : (fieldsOf a).line = Pdb.formatAtom a ++ ['\n'] := by
  rw [formatAtom_plain a h, ljust_one h.altLoc_hi, ljust_one (Nat.le_of_eq h.chain_len), ljust_one h.iCode_hi]
  rcases h.record with e | e <;>
    simp [PdbFields.line, fieldsOf, e, Pdb.ljust, List.append_assoc]

theorem fieldsOf_wellSized (a : Pdb.Atom) (h : Pdb.Lim a) : (fieldsOf a).WellSized := by
  refine ⟨?_, ?_, ?_, ?_, ?_, ?_, ?_, ?_⟩
  · exact Pdb.length_rjust _ _ (Pdb.length_showInt_le 4 _ (by decide) (by have := h.serial_hi; omega)
      (by have := h.serial_lo; omega))
  · exact Pdb.length_atomNameFmt h.name_hi
  · exact Pdb.length_rjust _ _ h.resName_hi
  · exact Pdb.length_rjust _ _ (Pdb.length_showInt_le 3 _ (by decide) (by have := h.resSeq_hi; omega)
      (by have := h.resSeq_lo; omega))
  · exact Pdb.length_fmtFixed83 h.x_lo h.x_hi
  · exact Pdb.length_fmtFixed83 h.y_lo h.y_hi
  · exact Pdb.length_fmtFixed83 h.z_lo h.z_hi
  · exact Pdb.length_fmtFixed62 h.occ_lo h.occ_hi

theorem singleton_headD {s : List Char} (h : s.length = 1) : String.singleton (s.headD ' ') = String.ofList s := by
  match s, h with
  | [c], _ => exact String.singleton_eq_ofList

theorem graphic_ne_space {c : Char} (h : Pdb.graphic c = true) : c ≠ ' ' := by
  intro e; subst e; exact absurd h (by decide)

theorem icode_headD {s : List Char} (h : s.length ≤ 1) (hg : s.all Pdb.graphic = true) :
    (if String.singleton (s.headD ' ') == " " then none else some (String.singleton (s.headD ' '))) = icodeOpt s := by
  match s, h with
  | [], _ => rfl
  | [c], _ =>
    have hc : c ≠ ' ' := graphic_ne_space (by simpa using hg)
    have : (String.singleton c == " ") = false := by
      rw [beq_eq_false_iff_ne, String.singleton_eq_ofList]
      intro e
      have := congrArg String.toList e
      rw [String.toList_ofList] at this
      exact hc (by simpa using this)
    show (if (String.singleton c == " ") = true then none else some (String.singleton c)) = icodeOpt [c]
    rw [this, String.singleton_eq_ofList]
    rfl

/-- **reader v1 on a line written for row `a`**: it extracts exactly the fields of `a` -/
theorem parseLineV1_formatAtom (cur : Int) (a : Pdb.Atom) (hw : Pdb.WithinPdbLimits a) :
    parseLineV1 cur (Pdb.formatAtom a ++ ['\n']) = .ok (.atom (rawPdb cur a)) := by
  have h := Pdb.Lim.of_within hw
  rw [← fieldsOf_line a h, parseLine_fields cur (fieldsOf a) (fieldsOf_wellSized a h)]
  have e1 : pyInt (fieldsOf a).num = some a.resSeq := pyInt_showInt_padded 4 a.resSeq
  have e2 : pyFloat (fieldsOf a).x = some ⟨a.x, 3⟩ := pyFloat_fixed_padded 8 (by decide) a.x
  have e3 : pyFloat (fieldsOf a).y = some ⟨a.y, 3⟩ := pyFloat_fixed_padded 8 (by decide) a.y
  have e4 : pyFloat (fieldsOf a).z = some ⟨a.z, 3⟩ := pyFloat_fixed_padded 8 (by decide) a.z
  have e5 : pyFloat (fieldsOf a).occ = some ⟨a.occ, 2⟩ := pyFloat_fixed_padded 6 (by decide) a.occ
  have e6 : PdbV1.strip (fieldsOf a).resName = a.resName :=
    pyStrip_rjust 3 (NoPyWs.of_noWs (Pdb.NoWs.of_graphic h.resName_g))
  have e7 : PdbV1.strip (fieldsOf a).name = a.name :=
    pyStrip_atomNameFmt (NoPyWs.of_noWs (Pdb.NoWs.of_graphic h.name_g))
  have e8 : String.singleton (fieldsOf a).chain = String.ofList a.chain := singleton_headD h.chain_len
  have e9 := icode_headD h.iCode_hi h.iCode_g
  unfold PdbFields.expected
  rw [e1]
  simp only [e2, e3, e4, e5, e6, e7, e8]
  show Except.ok (LineV1.atom _) = _
  congr 2
  unfold rawPdb
  have e9' : (if String.singleton (fieldsOf a).icode == " " then none else some (String.singleton (fieldsOf a).icode))
      = icodeOpt a.iCode := e9
  rw [e9']
  rfl


/-! ## lines without a newline character; `readlines()` -/

def Clean (s : List Char) : Prop := ∀ c ∈ s, c ≠ '\n'

theorem Clean.nil : Clean [] := fun _ h => absurd h (List.not_mem_nil)

theorem Clean.append {s t : List Char} (hs : Clean s) (ht : Clean t) : Clean (s ++ t) := by
  intro c hc
  rcases List.mem_append.1 hc with h | h
  · exact hs c h
  · exact ht c h

theorem Clean.of_noWs {s : List Char} (h : Pdb.NoWs s) : Clean s := by
  intro c hc e
  subst e
  exact absurd (h _ hc) (by decide)

theorem Clean.blanks (n : Nat) : Clean (List.replicate n ' ') := by
  intro c hc
  rw [(List.mem_replicate.1 hc).2]
  decide

theorem Clean.ljust (w : Nat) {s : List Char} (h : Clean s) : Clean (Pdb.ljust w s) := h.append (Clean.blanks _)
theorem Clean.rjust (w : Nat) {s : List Char} (h : Clean s) : Clean (Pdb.rjust w s) := (Clean.blanks _).append h

theorem Clean.of_literal {s : List Char} (h : s.all (· != '\n') = true) : Clean s := by
  intro c hc
  have := List.all_eq_true.1 h c hc
  simpa using this

theorem clean_atomNameFmt {s : List Char} (h : Pdb.NoWs s) : Clean (Pdb.atomNameFmt 4 4 s) := by
  unfold Pdb.atomNameFmt
  have hs := Clean.of_noWs h
  have hb : Clean (' ' :: s) := by
    intro c hc
    rcases List.mem_cons.1 hc with rfl | hc
    · decide
    · exact hs c hc
  split
  · split
    · exact hb.ljust _
    · exact hs.ljust _
  · exact hs.ljust _

theorem clean_charge : ∀ c ∈ Pdb.chargeTexts, (Pdb.chargeFmt 2 2 c).all (· != '\n') = true := by decide

theorem clean_formatAtom (a : Pdb.Atom) (hw : Pdb.WithinPdbLimits a) : Clean (Pdb.formatAtom a) := by
  have h := Pdb.Lim.of_within hw
  rw [formatAtom_plain a h]
  have hrec : Clean (Pdb.ljust 6 a.record) := by
    rcases h.record with e | e <;> rw [e] <;> exact Clean.of_literal (by decide)
  have g : ∀ {s : List Char}, s.all Pdb.graphic = true → Clean s := fun hg => Clean.of_noWs (Pdb.NoWs.of_graphic hg)
  have fx : ∀ w p k, Clean (Pdb.fmtFixed w p k) := fun w p k => (Clean.of_noWs (Pdb.fixedBody_noWs p k)).rjust w
  have sp1 : Clean [' '] := Clean.of_literal (by decide)
  have sp3 : Clean [' ', ' ', ' '] := Clean.of_literal (by decide)
  exact hrec.append (((Clean.of_noWs (Pdb.showInt_noWs _)).rjust 5).append (sp1.append
    ((clean_atomNameFmt (Pdb.NoWs.of_graphic h.name_g)).append (((g h.altLoc_g).ljust 1).append (((g h.resName_g).rjust 3).append
    (sp1.append (((g h.chain_g).ljust 1).append (((Clean.of_noWs (Pdb.showInt_noWs _)).rjust 4).append (((g h.iCode_g).ljust 1).append
    (sp3.append ((fx 8 3 a.x).append ((fx 8 3 a.y).append ((fx 8 3 a.z).append ((fx 6 2 a.occ).append ((fx 6 2 a.b).append
    ((Clean.blanks 10).append (((g h.element_g).rjust 2).append
    ((Clean.of_literal (clean_charge _ h.charge)).append Clean.nil))))))))))))))))))

theorem clean_formatTer (a : Pdb.Atom) (hw : Pdb.WithinPdbLimits a) : Clean (Pdb.formatTer a) := by
  have h := Pdb.Lim.of_within hw
  have g : ∀ {s : List Char}, s.all Pdb.graphic = true → Clean s := fun hg => Clean.of_noWs (Pdb.NoWs.of_graphic hg)
  rw [Pdb.formatTer_explicit, Pdb.strip_noWs (Pdb.NoWs.of_graphic h.resName_g)]
  exact Clean.ljust 80 ((Clean.of_literal (by decide)).append (((Clean.of_noWs (Pdb.showInt_noWs _)).rjust 5).append
    ((Clean.blanks 6).append (((g h.resName_g).rjust 3).append ((Clean.of_literal (s := [' ']) (by decide)).append
    (((g h.chain_g).ljust 0).append (((Clean.of_noWs (Pdb.showInt_noWs _)).rjust 4).append
    (((g h.iCode_g).ljust 0).append Clean.nil))))))))

theorem clean_formatModel (m : Int) : Clean (Pdb.formatModel m) :=
  (Clean.of_literal (by decide)).append ((Clean.of_noWs (Pdb.showInt_noWs m)).rjust _)

theorem splitLines_line (l : List Char) (hl : Clean l) (cur rest : List Char) :
    splitLines cur (l ++ '\n' :: rest) = (cur.reverse ++ l ++ ['\n']) :: splitLines [] rest := by
  induction l generalizing cur with
  | nil => simp [splitLines]
  | cons c l ih =>
    have hc : (c == '\n') = false := by
      have := hl c List.mem_cons_self
      simpa using this
    rw [List.cons_append, splitLines]
    simp only [hc, Bool.false_eq_true, if_false]
    rw [ih (fun d hd => hl d (List.mem_cons_of_mem _ hd))]
    simp

/-- `readlines()` of a file made of newline-free lines gives the lines back, each with its newline -/
theorem splitLines_docText (lines : List Pdb.Str) (h : ∀ l ∈ lines, Clean l) :
    splitLines [] (docText lines) = lines.map (· ++ ['\n']) := by
  induction lines with
  | nil => simp [docText, splitLines]
  | cons l rest ih =>
    have e : docText (l :: rest) = l ++ '\n' :: docText rest := by simp [docText]
    rw [e, splitLines_line l (h l List.mem_cons_self), ih (fun x hx => h x (List.mem_cons_of_mem _ hx))]
    simp

/-! ## the other records of a written document -/

theorem parseLines_skip {cur : Int} {l : List Char} (h : parseLineV1 cur l = .ok .skip) (rest : List (List Char)) :
    parseLines cur (l :: rest) = parseLines cur rest := by
  rw [parseLines, h]

theorem parseLines_model {cur m : Int} {l : List Char} (h : parseLineV1 cur l = .ok (.model m)) (rest : List (List Char)) :
    parseLines cur (l :: rest) = parseLines m rest := by
  rw [parseLines, h]

theorem parseLines_atom {cur : Int} {l : List Char} {t : RawTok} (h : parseLineV1 cur l = .ok (.atom t))
    {rest : List (List Char)} {ts : List RawTok} (hr : parseLines cur rest = .ok ts) :
    parseLines cur (l :: rest) = .ok (t :: ts) := by
  rw [parseLines, h]
  simp only
  rw [hr]

theorem parseLineV1_endmdl (cur : Int) : parseLineV1 cur ("ENDMDL".toList ++ ['\n']) = .ok .skip := by
  simp [parseLineV1, Gen.Parser.pdbRecordTests, startsWith, List.isPrefixOf]

theorem parseLineV1_end (cur : Int) : parseLineV1 cur ("END".toList ++ ['\n']) = .ok .skip := by
  simp [parseLineV1, Gen.Parser.pdbRecordTests, startsWith, List.isPrefixOf]

theorem parseLineV1_ter (cur : Int) (p : Pdb.Atom) : parseLineV1 cur (Pdb.formatTer p ++ ['\n']) = .ok .skip := by
  have e : ∃ r, Pdb.formatTer p ++ ['\n'] = 'T' :: 'E' :: 'R' :: r := by
    rw [Pdb.formatTer_explicit]
    exact ⟨_, rfl⟩
  obtain ⟨r, hr⟩ := e
  rw [hr]
  simp [parseLineV1, Gen.Parser.pdbRecordTests, startsWith, List.isPrefixOf]

theorem parseLineV1_model (cur m : Int) (h1 : -999 ≤ m) (h2 : m ≤ 9999) :
    parseLineV1 cur (Pdb.formatModel m ++ ['\n']) = .ok (.model m) := by
  have hl : (Pdb.rjust 4 (Pdb.showInt m)).length = 4 :=
    Pdb.length_rjust _ _ (Pdb.length_showInt_le 3 _ (by decide) (by omega) (by omega))
  obtain ⟨a, b, c, d, habcd⟩ := len4 hl
  have hp := pyInt_showInt_padded 4 m
  have e : Pdb.formatModel m ++ ['\n'] =
      'M' :: 'O' :: 'D' :: 'E' :: 'L' :: ' ' :: ' ' :: ' ' :: ' ' :: ' ' :: (Pdb.rjust 4 (Pdb.showInt m) ++ ['\n']) := rfl
  rw [e]
  rw [habcd] at hp ⊢
  simp [parseLineV1, Gen.Parser.pdbRecordTests, startsWith, List.isPrefixOf, PdbV1.slice, Gen.Parser.pdbModelNum, hp]


/-! ## the whole document `Pdb.writePdb rows` -/

/-- a rendered line as `readlines()` delivers it -/
def nl (l : Pdb.Line) : List Char := l.render ++ ['\n']

theorem nl_endmdl (cur : Int) : parseLineV1 cur (nl .endmdl) = .ok .skip := parseLineV1_endmdl cur
theorem nl_fin (cur : Int) : parseLineV1 cur (nl .fin) = .ok .skip := parseLineV1_end cur
theorem nl_ter (cur : Int) (p : Pdb.Atom) : parseLineV1 cur (nl (.ter p)) = .ok .skip := parseLineV1_ter cur p
theorem nl_model (cur m : Int) (h1 : -999 ≤ m) (h2 : m ≤ 9999) : parseLineV1 cur (nl (.model m)) = .ok (.model m) :=
  parseLineV1_model cur m h1 h2
theorem nl_atom (a : Pdb.Atom) (ha : Pdb.WithinPdbLimits a) :
    parseLineV1 a.model (nl (.atom a)) = .ok (.atom (rawPdb a.model a)) := parseLineV1_formatAtom a.model a ha

theorem parseLines_between (fixed : Bool) (p a : Pdb.Atom) (ha : Pdb.WithinPdbLimits a) (tail : List (List Char)) :
    parseLines p.model ((Pdb.between fixed p a).map nl ++ tail) = parseLines a.model tail := by
  have hm := Pdb.limits_model a ha
  by_cases hmod : a.model = p.model
  · by_cases hc : a.chain = p.chain
    · simp [Pdb.between, hmod, hc]
    · simp only [Pdb.between, hmod, hc, ne_eq, not_true_eq_false, if_false, not_false_eq_true, if_true, List.map_cons,
        List.map_nil, List.cons_append, List.nil_append]
      rw [parseLines_skip (nl_ter _ p)]
  · cases fixed
    · simp only [Pdb.between, hmod, ne_eq, not_false_eq_true, if_true, Bool.false_eq_true, if_false, List.nil_append,
        List.map_cons, List.map_nil, List.cons_append]
      rw [parseLines_skip (nl_endmdl _), parseLines_model (nl_model _ a.model hm.1 hm.2)]
    · simp only [Pdb.between, hmod, ne_eq, not_false_eq_true, if_true, List.cons_append, List.nil_append,
        List.map_cons, List.map_nil]
      rw [parseLines_skip (nl_ter _ p), parseLines_skip (nl_endmdl _),
        parseLines_model (nl_model _ a.model hm.1 hm.2)]

/-- invariant: the reader's current model is the model of the previous row -/
theorem parseLines_emitFrom (fixed : Bool) (p : Pdb.Atom) (rest : List Pdb.Atom) (h : ∀ a ∈ rest, Pdb.WithinPdbLimits a) :
    parseLines p.model ((Pdb.emitFrom fixed p rest).map nl) = .ok (rest.map (fun a => rawPdb a.model a)) := by
  induction rest generalizing p with
  | nil =>
    simp only [Pdb.emitFrom, List.map_cons, List.map_nil]
    rw [parseLines_skip (nl_ter _ p), parseLines_skip (nl_endmdl _), parseLines_skip (nl_fin _)]
    rfl
  | cons a rest ih =>
    have ha : Pdb.WithinPdbLimits a := h a (by simp)
    have hrest : ∀ b ∈ rest, Pdb.WithinPdbLimits b := fun b hb => h b (by simp [hb])
    simp only [Pdb.emitFrom, List.map_append, List.map_cons]
    rw [parseLines_between fixed p a ha, parseLines_atom (nl_atom a ha) (ih a hrest)]

theorem parseLines_writeAux (fixed : Bool) (rows : List Pdb.Atom) (hne : rows ≠ []) (h : ∀ a ∈ rows, Pdb.WithinPdbLimits a) :
    parseLines 1 ((Pdb.writeAux fixed {} rows).map nl) = .ok (rows.map (fun a => rawPdb a.model a)) := by
  cases rows with
  | nil => exact absurd rfl hne
  | cons a rest =>
    have ha : Pdb.WithinPdbLimits a := h a (by simp)
    have hrest : ∀ b ∈ rest, Pdb.WithinPdbLimits b := fun b hb => h b (by simp [hb])
    have hm := Pdb.limits_model a ha
    simp only [Pdb.writeAux_eq_emit, List.map_cons]
    rw [parseLines_model (nl_model _ a.model hm.1 hm.2),
      parseLines_atom (nl_atom a ha) (parseLines_emitFrom fixed a rest hrest)]

theorem parseLines_writePdbLinesWith (fixed : Bool) (rows : List Pdb.Atom) (h : ∀ a ∈ rows, Pdb.WithinPdbLimits a) :
    parseLines 1 ((Pdb.writePdbLinesWith fixed rows).map nl) = .ok (rows.map (fun a => rawPdb a.model a)) := by
  cases rows with
  | nil =>
    cases fixed <;>
      (simp only [Pdb.writePdbLinesWith, Pdb.writePdbLinesOld, Pdb.writePdbLinesFixed, List.isEmpty_nil, if_true,
        Bool.false_eq_true, if_false, List.map_cons, List.map_nil]
       rw [parseLines_skip (nl_fin _)]; rfl)
  | cons a rest =>
    have := parseLines_writeAux fixed (a :: rest) (by simp) h
    cases fixed <;> simpa [Pdb.writePdbLinesWith, Pdb.writePdbLinesOld, Pdb.writePdbLinesFixed] using this

theorem clean_render (fixed : Bool) (rows : List Pdb.Atom) (h : ∀ a ∈ rows, Pdb.WithinPdbLimits a) :
    ∀ l ∈ (Pdb.writePdbLinesWith fixed rows).map Pdb.Line.render, Clean l := by
  -- every line is MODEL / ENDMDL / TER p / ATOM a / END with p, a rows of the table
  have key : ∀ l ∈ Pdb.writePdbLinesWith fixed rows,
      (∃ m, l = .model m) ∨ l = .endmdl ∨ l = .fin ∨ (∃ a ∈ rows, l = .atom a) ∨ (∃ a ∈ rows, l = .ter a) := by
    have emit : ∀ (rest : List Pdb.Atom) (p : Pdb.Atom), ∀ l ∈ Pdb.emitFrom fixed p rest,
        (∃ m, l = .model m) ∨ l = .endmdl ∨ l = .fin ∨ (∃ a ∈ p :: rest, l = .atom a) ∨ (∃ a ∈ p :: rest, l = .ter a) := by
      intro rest
      induction rest with
      | nil =>
        intro p l hl
        simp only [Pdb.emitFrom, List.mem_cons, List.not_mem_nil, or_false] at hl
        rcases hl with rfl | rfl | rfl
        · exact Or.inr (Or.inr (Or.inr (Or.inr ⟨p, by simp, rfl⟩)))
        · exact Or.inr (Or.inl rfl)
        · exact Or.inr (Or.inr (Or.inl rfl))
      | cons a rest ih =>
        intro p l hl
        simp only [Pdb.emitFrom, List.mem_append, List.mem_cons] at hl
        rcases hl with hl | rfl | hl
        · unfold Pdb.between at hl
          split at hl
          · simp only [List.mem_append, List.mem_cons, List.not_mem_nil, or_false] at hl
            rcases hl with hl | rfl | rfl
            · split at hl
              · simp only [List.mem_cons, List.not_mem_nil, or_false] at hl
                subst hl
                exact Or.inr (Or.inr (Or.inr (Or.inr ⟨p, by simp, rfl⟩)))
              · exact absurd hl (List.not_mem_nil)
            · exact Or.inr (Or.inl rfl)
            · exact Or.inl ⟨_, rfl⟩
          · split at hl
            · simp only [List.mem_cons, List.not_mem_nil, or_false] at hl
              subst hl
              exact Or.inr (Or.inr (Or.inr (Or.inr ⟨p, by simp, rfl⟩)))
            · exact absurd hl (List.not_mem_nil)
        · exact Or.inr (Or.inr (Or.inr (Or.inl ⟨a, by simp, rfl⟩)))
        · rcases ih a l hl with h1 | h1 | h1 | ⟨b, hb, h1⟩ | ⟨b, hb, h1⟩
          · exact Or.inl h1
          · exact Or.inr (Or.inl h1)
          · exact Or.inr (Or.inr (Or.inl h1))
          · exact Or.inr (Or.inr (Or.inr (Or.inl ⟨b, List.mem_cons_of_mem _ hb, h1⟩)))
          · exact Or.inr (Or.inr (Or.inr (Or.inr ⟨b, List.mem_cons_of_mem _ hb, h1⟩)))
    intro l hl
    cases rows with
    | nil =>
      have : l = .fin := by
        cases fixed <;> simpa [Pdb.writePdbLinesWith, Pdb.writePdbLinesOld, Pdb.writePdbLinesFixed] using hl
      exact Or.inr (Or.inr (Or.inl this))
    | cons a rest =>
      have hl' : l ∈ Pdb.Line.model a.model :: Pdb.Line.atom a :: Pdb.emitFrom fixed a rest := by
        cases fixed <;>
          simpa [Pdb.writePdbLinesWith, Pdb.writePdbLinesOld, Pdb.writePdbLinesFixed, Pdb.writeAux_eq_emit] using hl
      rcases List.mem_cons.1 hl' with rfl | hl'
      · exact Or.inl ⟨_, rfl⟩
      rcases List.mem_cons.1 hl' with rfl | hl'
      · exact Or.inr (Or.inr (Or.inr (Or.inl ⟨a, by simp, rfl⟩)))
      · exact emit rest a l hl'
  intro s hs
  obtain ⟨l, hl, rfl⟩ := List.mem_map.1 hs
  rcases key l hl with ⟨m, rfl⟩ | rfl | rfl | ⟨a, ha, rfl⟩ | ⟨a, ha, rfl⟩
  · exact clean_formatModel m
  · exact Clean.of_literal (by decide)
  · exact Clean.of_literal (by decide)
  · exact clean_formatAtom a (h a ha)
  · exact clean_formatTer a (h a ha)

/-- **reader v1 on the emitted PDB document**: `parse_pdb` (up to the filters) delivers one record per row, in order,
with exactly the fields of the row -/
theorem parsePdb_emitPdb (rows : List Pdb.Atom) (h : ∀ a ∈ rows, Pdb.WithinPdbLimits a) :
    PdbV1.parsePdb (docText (emitPdb rows)) = .ok (rows.map (fun a => rawPdb a.model a)) := by
  unfold PdbV1.parsePdb emitPdb Pdb.writePdb Pdb.writePdbLines
  rw [splitLines_docText _ (clean_render _ rows h), List.map_map]
  exact parseLines_writePdbLinesWith _ rows h

end RnaVerif.Readers

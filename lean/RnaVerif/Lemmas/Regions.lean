import RnaVerif.Model.SecStr
/-!
# Validity, stems and regions of a BPSEQ (helper lemmas for C01)

* `ValidP` — Prop-level reading of the decidable `valid`;
* `groupStems` partitions its input, in order, into non-empty runs of directly stacked pairs;
* `StemFacts` — what every region of a valid BPSEQ satisfies;
* `regions_cover` — expanding the regions gives back exactly the 5'→3' pairs, in order;
* `cross_uniform` — the outer-pair conflict test decides crossing of whole stems.
-/
namespace RnaVerif.SecStr

/-! ### validity -/

/-- Prop-level reading of `valid`: indices are `1..N` in order; every partner is `0` or in range,
not the entry itself, and the partner's partner is the entry (symmetry). -/
structure ValidP (es : List Entry) : Prop where
  idx_get : ∀ k (h : k < es.length), es[k].idx = k + 1
  pair_get : ∀ k (h : k < es.length), es[k].pair = 0 ∨
      (es[k].pair ≤ es.length ∧ es[k].pair ≠ k + 1 ∧ partnerOf es es[k].pair = k + 1)

theorem valid_iff (es : List Entry) : valid es = true ↔ ValidP es := by
  unfold valid
  rw [List.all_eq_true]
  constructor
  · intro h
    refine ⟨fun k hk => ?_, fun k hk => ?_⟩
    · have := h k (List.mem_range.mpr hk)
      simp only [List.getD_eq_getElem?_getD, List.getElem?_eq_getElem hk, Option.getD_some,
        Bool.and_eq_true, beq_iff_eq] at this
      exact this.1
    · have := h k (List.mem_range.mpr hk)
      simp only [List.getD_eq_getElem?_getD, List.getElem?_eq_getElem hk, Option.getD_some,
        Bool.and_eq_true, Bool.or_eq_true, beq_iff_eq, decide_eq_true_eq, bne_iff_ne] at this
      rcases this.2 with h0 | ⟨⟨h1, h2⟩, h3⟩
      · exact Or.inl h0
      · exact Or.inr ⟨h1, by rw [this.1] at h2; exact h2, by rw [this.1] at h3; exact h3⟩
  · intro v k hk
    have hk := List.mem_range.mp hk
    have h1 := v.idx_get k hk
    have h2 := v.pair_get k hk
    simp only [List.getD_eq_getElem?_getD, List.getElem?_eq_getElem hk, Option.getD_some,
      Bool.and_eq_true, Bool.or_eq_true, beq_iff_eq, decide_eq_true_eq, bne_iff_ne]
    refine ⟨h1, ?_⟩
    rcases h2 with h0 | ⟨a, b, c⟩
    · exact Or.inl h0
    · exact Or.inr ⟨⟨a, by rw [h1]; exact b⟩, by rw [h1]; exact c⟩

theorem partnerOf_eq {es : List Entry} {k : Nat} (hk : k < es.length) :
    partnerOf es (k + 1) = es[k].pair := by
  simp [partnerOf, List.getD_eq_getElem?_getD, List.getElem?_eq_getElem hk]

namespace ValidP
variable {es : List Entry}

theorem idx_pos (v : ValidP es) {e : Entry} (he : e ∈ es) : 1 ≤ e.idx ∧ e.idx ≤ es.length := by
  obtain ⟨k, hk, rfl⟩ := List.mem_iff_getElem.mp he
  rw [v.idx_get k hk]; omega

theorem partner_idx (v : ValidP es) {e : Entry} (he : e ∈ es) : partnerOf es e.idx = e.pair := by
  obtain ⟨k, hk, rfl⟩ := List.mem_iff_getElem.mp he
  rw [v.idx_get k hk, partnerOf_eq hk]

theorem pair_ok (v : ValidP es) {e : Entry} (he : e ∈ es) (hp : e.pair ≠ 0) :
    e.pair ≤ es.length ∧ e.pair ≠ e.idx ∧ partnerOf es e.pair = e.idx := by
  obtain ⟨k, hk, rfl⟩ := List.mem_iff_getElem.mp he
  rcases v.pair_get k hk with h0 | h
  · exact absurd h0 hp
  · rw [v.idx_get k hk]; exact h

/-- two entries with the same index are the same entry -/
theorem idx_inj (v : ValidP es) {e e' : Entry} (he : e ∈ es) (he' : e' ∈ es)
    (h : e.idx = e'.idx) : e = e' := by
  obtain ⟨k, hk, rfl⟩ := List.mem_iff_getElem.mp he
  obtain ⟨k', hk', rfl⟩ := List.mem_iff_getElem.mp he'
  rw [v.idx_get k hk, v.idx_get k' hk'] at h
  have : k = k' := by omega
  subst this; rfl

/-- two paired entries with the same partner are the same entry -/
theorem pair_inj (v : ValidP es) {e e' : Entry} (he : e ∈ es) (he' : e' ∈ es)
    (hp : e.pair ≠ 0) (h : e.pair = e'.pair) : e = e' := by
  apply v.idx_inj he he'
  rw [← (v.pair_ok he hp).2.2, ← (v.pair_ok he' (h ▸ hp)).2.2, h]

/-- a 5' end is never the 3' end of another 5'→3' pair -/
theorem idx_ne_pair (v : ValidP es) {e e' : Entry} (he : e ∈ es) (he' : e' ∈ es)
    (h5 : e.idx < e.pair) (h5' : e'.idx < e'.pair) : e.idx ≠ e'.pair := by
  intro h
  have h1 : e.pair = e'.idx := by
    rw [← v.partner_idx he, h, (v.pair_ok he' (by omega)).2.2]
  omega

/-- the entries are strictly sorted by index -/
theorem sorted (v : ValidP es) : es.Pairwise (fun a b => a.idx < b.idx) := by
  rw [List.pairwise_iff_getElem]
  intro i j hi hj hij
  rw [v.idx_get i hi, v.idx_get j hj]; omega

end ValidP

theorem mem_paired5to3 {es : List Entry} {e : Entry} :
    e ∈ paired5to3 es ↔ e ∈ es ∧ e.pair ≠ 0 ∧ e.idx < e.pair := by
  simp [paired5to3, List.mem_filter]

/-! ### stems -/

/-- a non-empty run of directly stacked pairs: the `t`-th entry is `(e.idx + t, e.pair - t)` -/
def IsStem (g : List Entry) : Prop :=
  ∃ e rest, g = e :: rest ∧ ∀ t (h : t < g.length), g[t].idx = e.idx + t ∧ g[t].pair + t = e.pair

theorem isStem_singleton (e : Entry) : IsStem [e] := by
  refine ⟨e, [], rfl, ?_⟩
  intro t h
  have : t = 0 := by simpa using h
  subst this; simp

theorem isStem_cons {e f : Entry} {g : List Entry} (h : IsStem (f :: g))
    (h1 : f.idx = e.idx + 1) (h2 : f.pair + 1 = e.pair) : IsStem (e :: f :: g) := by
  obtain ⟨f', rest, heq, hs⟩ := h
  have hf : f' = f := by injection heq with a _; exact a.symm
  subst hf
  refine ⟨e, f' :: g, rfl, ?_⟩
  intro t ht
  cases t with
  | zero => simp
  | succ t =>
    have ht' : t < (f' :: g).length := by simpa using ht
    have := hs t ht'
    simp only [List.getElem_cons_succ]
    omega

theorem groupStems_spec (l : List Entry) :
    (groupStems l).flatten = l ∧ ∀ g ∈ groupStems l, IsStem g := by
  induction l with
  | nil => simp [groupStems]
  | cons e rest ih =>
    obtain ⟨ih1, ih2⟩ := ih
    rw [groupStems]
    cases hgs : groupStems rest with
    | nil =>
      rw [hgs] at ih1
      simp only [List.flatten_nil] at ih1
      subst ih1
      simp only [List.flatten_cons, List.flatten_nil, List.append_nil, List.mem_singleton,
        forall_eq, true_and]
      exact isStem_singleton e
    | cons g0 gs =>
      rw [hgs] at ih1 ih2
      cases g0 with
      | nil =>
        obtain ⟨_, _, h, _⟩ := ih2 [] (by simp)
        cases h
      | cons f g =>
        simp only
        split
        · rename_i hc
          simp only [Bool.and_eq_true, beq_iff_eq] at hc
          refine ⟨by rw [← ih1]; simp, ?_⟩
          intro g' hg'
          rcases List.mem_cons.mp hg' with rfl | hg'
          · exact isStem_cons (ih2 _ (by simp)) hc.1 hc.2
          · exact ih2 _ (List.mem_cons_of_mem _ hg')
        · refine ⟨by rw [← ih1]; simp, ?_⟩
          intro g' hg'
          rcases List.mem_cons.mp hg' with rfl | hg'
          · exact isStem_singleton e
          · exact ih2 _ hg'

theorem stemsEntries_flatten (es : List Entry) : (stemsEntries es).flatten = paired5to3 es :=
  (groupStems_spec _).1

theorem stemsEntries_isStem (es : List Entry) : ∀ g ∈ stemsEntries es, IsStem g :=
  (groupStems_spec _).2

/-! ### regions of a valid BPSEQ -/

/-- what every region `(i, j, len)` of a valid BPSEQ satisfies: it is non-empty and its `t`-th pair
`(i + t, j - t)` is a 5'→3' pair of the structure -/
structure StemFacts (es : List Entry) (r : Region) : Prop where
  len_pos : 0 < r.len
  pairs : ∀ t, t < r.len → ∃ e ∈ es, e.idx = r.i + t ∧ e.pair + t = r.j ∧ e.idx < e.pair ∧
    1 ≤ e.idx ∧ e.pair ≤ es.length

theorem regions_length (es : List Entry) : (regions es).length = (stemsEntries es).length := by
  simp [regions]

theorem regions_getElem (es : List Entry) (u : Nat) (h : u < (regions es).length) :
    (regions es)[u] = regionOf ((stemsEntries es)[u]'(by simpa [regions] using h)) := by
  simp [regions]

theorem mem_of_mem_stem {es : List Entry} {g : List Entry} (hg : g ∈ stemsEntries es)
    {e : Entry} (he : e ∈ g) : e ∈ paired5to3 es := by
  rw [← stemsEntries_flatten]
  exact List.mem_flatten.mpr ⟨g, hg, he⟩

theorem stemFacts_of_stem {es : List Entry} (v : ValidP es) {g : List Entry}
    (hg : g ∈ stemsEntries es) : StemFacts es (regionOf g) := by
  obtain ⟨e, rest, rfl, hs⟩ := stemsEntries_isStem es g hg
  refine ⟨by simp [regionOf], ?_⟩
  intro t ht
  have ht' : t < (e :: rest).length := by simpa [regionOf] using ht
  have hmem : (e :: rest)[t] ∈ paired5to3 es := mem_of_mem_stem hg (List.getElem_mem ht')
  obtain ⟨h1, h2, h3⟩ := mem_paired5to3.mp hmem
  refine ⟨_, h1, ?_, ?_, h3, (v.idx_pos h1).1, (v.pair_ok h1 h2).1⟩
  · exact (hs t ht').1
  · exact (hs t ht').2

theorem stemFacts_regions {es : List Entry} (v : ValidP es) {r : Region} (hr : r ∈ regions es) :
    StemFacts es r := by
  obtain ⟨g, hg, rfl⟩ := List.mem_map.mp hr
  exact stemFacts_of_stem v hg

theorem regionOf_lt {g h : List Entry} (hg : IsStem g) (hh : IsStem h)
    (hlt : ∀ x ∈ g, ∀ y ∈ h, x.idx < y.idx) :
    (regionOf g).i + (regionOf g).len ≤ (regionOf h).i := by
  obtain ⟨e, rest, rfl, hse⟩ := hg
  obtain ⟨f, rest', rfl, _⟩ := hh
  have hlast := hse rest.length (by simp)
  have := hlt ((e :: rest)[rest.length]'(by simp)) (List.getElem_mem _) f (by simp)
  simp only [regionOf, List.length_cons]
  omega

/-- regions are listed by increasing 5' end, and the 5' strands of different stems do not overlap -/
theorem regions_sorted {es : List Entry} (v : ValidP es) (u w : Nat)
    (hu : u < (regions es).length) (hw : w < (regions es).length) (huw : u < w) :
    (regions es)[u].i + (regions es)[u].len ≤ (regions es)[w].i := by
  have hs : (stemsEntries es).flatten.Pairwise (fun a b => a.idx < b.idx) := by
    rw [stemsEntries_flatten]; exact v.sorted.filter _
  have hp := (List.pairwise_flatten.mp hs).2
  rw [List.pairwise_iff_getElem] at hp
  have hu' : u < (stemsEntries es).length := by simpa [regions] using hu
  have hw' : w < (stemsEntries es).length := by simpa [regions] using hw
  rw [regions_getElem es u hu, regions_getElem es w hw]
  exact regionOf_lt (stemsEntries_isStem es _ (List.getElem_mem hu'))
    (stemsEntries_isStem es _ (List.getElem_mem hw')) (hp u w hu' hw' huw)

/-! ### crossing of whole stems -/

/-- two 0-based pairs cross (in either order) -/
def crosses (p q : Nat × Nat) : Prop :=
  (p.1 < q.1 ∧ q.1 < p.2 ∧ p.2 < q.2) ∨ (q.1 < p.1 ∧ p.1 < q.2 ∧ q.2 < p.2)

instance (p q : Nat × Nat) : Decidable (crosses p q) := by unfold crosses; infer_instance

theorem crosses_comm (p q : Nat × Nat) : crosses p q ↔ crosses q p := by
  unfold crosses; omega

theorem conflictSpec_comm (k l m n : Nat) : conflictSpec k l m n = conflictSpec m n k l := by
  simp only [conflictSpec]
  rw [Bool.or_comm]

theorem conflictSpec_iff (k l m n : Nat) :
    conflictSpec k l m n = true ↔ (k < m ∧ m < l ∧ l < n) ∨ (m < k ∧ k < n ∧ n < l) := by
  simp only [conflictSpec, Bool.or_eq_true, Bool.and_eq_true, decide_eq_true_eq, and_assoc]

/-- the 0-based pairs of a region, outermost first -/
def stemPairs (r : Region) : List (Nat × Nat) :=
  (List.range r.len).map (fun t => (r.i - 1 + t, r.j - 1 - t))

theorem mem_stemPairs {r : Region} {p : Nat × Nat} :
    p ∈ stemPairs r ↔ ∃ t, t < r.len ∧ p = (r.i - 1 + t, r.j - 1 - t) := by
  simp only [stemPairs, List.mem_map, List.mem_range]
  constructor
  · rintro ⟨t, ht, rfl⟩; exact ⟨t, ht, rfl⟩
  · rintro ⟨t, ht, rfl⟩; exact ⟨t, ht, rfl⟩

theorem expandRegion_eq (r : Region) (lv : Nat) :
    expandRegion r lv = (stemPairs r).map (fun p => (p.1, p.2, lv)) := by
  simp [expandRegion, stemPairs]

/-- pointwise separation of the strands of two stems, the first lying entirely before the second
on the 5' side -/
theorem stems_pointwise {es : List Entry} (v : ValidP es) {r s : Region}
    (hr : StemFacts es r) (hs : StemFacts es s) (hlt : r.i + r.len ≤ s.i)
    {t t' : Nat} (ht : t < r.len) (ht' : t' < s.len) :
    r.j - t ≠ s.j - t' ∧ r.j - t ≠ s.i + t' ∧ r.i + t ≠ s.j - t' ∧
    1 ≤ r.i ∧ 1 ≤ s.i ∧ r.i + t < r.j - t ∧ s.i + t' < s.j - t' ∧ t < r.j ∧ t' < s.j ∧
    r.j ≤ es.length + t ∧ s.j ≤ es.length + t' := by
  obtain ⟨e, he, e1, e2, e3, e4, e5⟩ := hr.pairs t ht
  obtain ⟨f, hf, f1, f2, f3, f4, f5⟩ := hs.pairs t' ht'
  have hne : e ≠ f := by intro h; subst h; omega
  have h1 : e.pair ≠ f.pair := fun h => hne (v.pair_inj he hf (by omega) h)
  have h2 : e.pair ≠ f.idx := fun h => v.idx_ne_pair hf he f3 e3 h.symm
  have h3 : e.idx ≠ f.pair := v.idx_ne_pair he hf e3 f3
  have hr0 := hr.pairs 0 hr.len_pos
  have hs0 := hs.pairs 0 hs.len_pos
  obtain ⟨_, _, a1, _, _, a4, _⟩ := hr0
  obtain ⟨_, _, b1, _, _, b4, _⟩ := hs0
  omega

/-- interval form of `stems_pointwise`: the four strands of two stems are disjoint intervals -/
theorem stems_disjoint {es : List Entry} (v : ValidP es) {r s : Region}
    (hr : StemFacts es r) (hs : StemFacts es s) (hlt : r.i + r.len ≤ s.i) :
    (r.j + s.len ≤ s.j ∨ s.j + r.len ≤ r.j) ∧ (r.j < s.i ∨ s.i + s.len + r.len ≤ r.j + 1) ∧
    r.i + 2 * r.len ≤ r.j + 1 ∧ s.i + 2 * s.len ≤ s.j + 1 ∧ 1 ≤ r.i ∧ 1 ≤ s.i := by
  have hl := hr.len_pos
  have hl' := hs.len_pos
  have pw := fun t t' (ht : t < r.len) (ht' : t' < s.len) => stems_pointwise v hr hs hlt ht ht'
  have plast := pw (r.len - 1) (s.len - 1) (by omega) (by omega)
  refine ⟨?_, ?_, by omega, by omega, by omega, by omega⟩
  · -- 3' strands
    apply Decidable.byContradiction
    intro hc
    rcases Nat.le_total r.j s.j with hle | hle
    · have := pw 0 (s.j - r.j) hl (by omega); omega
    · have := pw (r.j - s.j) 0 (by omega) hl'; omega
  · -- 3' strand of r against 5' strand of s
    apply Decidable.byContradiction
    intro hc
    rcases Nat.le_total s.i (r.j - (r.len - 1)) with hle | hle
    · have := pw (r.len - 1) (r.j - (r.len - 1) - s.i) (by omega) (by omega); omega
    · have := pw (r.j - s.i) 0 (by omega) hl'; omega

/-- the outer-pair conflict test decides crossing of *every* pair of `r` with *every* pair of `s`
(`r` before `s`) -/
theorem cross_iff_of_lt {es : List Entry} (v : ValidP es) {r s : Region}
    (hr : StemFacts es r) (hs : StemFacts es s) (hlt : r.i + r.len ≤ s.i)
    {t t' : Nat} (ht : t < r.len) (ht' : t' < s.len) :
    conflictSpec r.i r.j s.i s.j = true ↔
      crosses (r.i - 1 + t, r.j - 1 - t) (s.i - 1 + t', s.j - 1 - t') := by
  have hd := stems_disjoint v hr hs hlt
  rw [conflictSpec_iff]
  unfold crosses
  simp only
  omega

/-- index form: for two different positions of the region list the conflict test on the outer
pairs is equivalent to crossing of any chosen pair of the one with any chosen pair of the other -/
theorem cross_iff_index {es : List Entry} (v : ValidP es) {u w : Nat}
    (hu : u < (regions es).length) (hw : w < (regions es).length) (hne : u ≠ w)
    {t t' : Nat} (ht : t < (regions es)[u].len) (ht' : t' < (regions es)[w].len) :
    conflictSpec (regions es)[u].i (regions es)[u].j (regions es)[w].i (regions es)[w].j = true ↔
      crosses ((regions es)[u].i - 1 + t, (regions es)[u].j - 1 - t)
              ((regions es)[w].i - 1 + t', (regions es)[w].j - 1 - t') := by
  have fu := stemFacts_regions v (List.getElem_mem hu)
  have fw := stemFacts_regions v (List.getElem_mem hw)
  rcases Nat.lt_or_gt_of_ne hne with h | h
  · exact cross_iff_of_lt v fu fw (regions_sorted v u w hu hw h) ht ht'
  · rw [conflictSpec_comm, crosses_comm]
    exact cross_iff_of_lt v fw fu (regions_sorted v w u hw hu h) ht' ht

/-- **cross_uniform**: for two distinct regions of a valid BPSEQ the conflict test on the outer
pairs holds iff *some* pair of the one crosses some pair of the other iff *every* pair of the one
crosses every pair of the other. -/
theorem cross_uniform {es : List Entry} (v : ValidP es) {r s : Region}
    (hr : r ∈ regions es) (hs : s ∈ regions es) (hne : r ≠ s) :
    (conflictSpec r.i r.j s.i s.j = true ↔ ∃ a ∈ stemPairs r, ∃ b ∈ stemPairs s, crosses a b) ∧
    (conflictSpec r.i r.j s.i s.j = true ↔ ∀ a ∈ stemPairs r, ∀ b ∈ stemPairs s, crosses a b) := by
  obtain ⟨u, hu, rfl⟩ := List.mem_iff_getElem.mp hr
  obtain ⟨w, hw, rfl⟩ := List.mem_iff_getElem.mp hs
  have huw : u ≠ w := by intro h; subst h; exact hne rfl
  have fu := stemFacts_regions v (List.getElem_mem hu)
  have fw := stemFacts_regions v (List.getElem_mem hw)
  have key := fun t t' (ht : t < (regions es)[u].len) (ht' : t' < (regions es)[w].len) =>
    cross_iff_index v hu hw huw ht ht'
  refine ⟨⟨?_, ?_⟩, ⟨?_, ?_⟩⟩
  · intro hc
    exact ⟨_, mem_stemPairs.mpr ⟨0, fu.len_pos, rfl⟩, _, mem_stemPairs.mpr ⟨0, fw.len_pos, rfl⟩,
      (key 0 0 fu.len_pos fw.len_pos).mp hc⟩
  · rintro ⟨a, ha, b, hb, hab⟩
    obtain ⟨t, ht, rfl⟩ := mem_stemPairs.mp ha
    obtain ⟨t', ht', rfl⟩ := mem_stemPairs.mp hb
    exact (key t t' ht ht').mpr hab
  · intro hc a ha b hb
    obtain ⟨t, ht, rfl⟩ := mem_stemPairs.mp ha
    obtain ⟨t', ht', rfl⟩ := mem_stemPairs.mp hb
    exact (key t t' ht ht').mp hc
  · intro h
    exact (key 0 0 fu.len_pos fw.len_pos).mpr
      (h _ (mem_stemPairs.mpr ⟨0, fu.len_pos, rfl⟩) _ (mem_stemPairs.mpr ⟨0, fw.len_pos, rfl⟩))

/-! ### the stems partition the 5'→3' pairs -/

theorem stemPairs_regionOf {g : List Entry} (h : IsStem g) (hpos : ∀ e ∈ g, 1 ≤ e.idx) :
    stemPairs (regionOf g) = g.map (fun e => (e.idx - 1, e.pair - 1)) := by
  obtain ⟨e, rest, rfl, hs⟩ := h
  apply List.ext_getElem
  · simp [stemPairs, regionOf]
  · intro t h1 h2
    have ht : t < (e :: rest).length := by simpa using h2
    have := hs t ht
    have := hpos e (by simp)
    simp only [stemPairs, regionOf, List.getElem_map, List.getElem_range, Prod.mk.injEq]
    omega

theorem flatMap_stemPairs (G : List (List Entry))
    (h : ∀ g ∈ G, IsStem g ∧ ∀ e ∈ g, 1 ≤ e.idx) :
    (G.map regionOf).flatMap stemPairs = G.flatten.map (fun e => (e.idx - 1, e.pair - 1)) := by
  induction G with
  | nil => simp
  | cons g G ih =>
    have hg := h g (by simp)
    simp only [List.map_cons, List.flatMap_cons, List.flatten_cons, List.map_append]
    rw [stemPairs_regionOf hg.1 hg.2, ih (fun g' hg' => h g' (List.mem_cons_of_mem _ hg'))]

/-- **regions_cover** (level-free form): concatenating the pairs of all regions, in order, gives
exactly the list of 5'→3' pairs of the structure — every pair lies in exactly one stem. -/
theorem regions_cover {es : List Entry} (v : ValidP es) :
    (regions es).flatMap stemPairs = pairs0 es := by
  unfold regions pairs0
  rw [flatMap_stemPairs, stemsEntries_flatten]
  intro g hg
  refine ⟨stemsEntries_isStem es g hg, fun e he => ?_⟩
  exact (v.idx_pos (mem_paired5to3.mp (mem_of_mem_stem hg he)).1).1

/-- projecting the levelled triples to pairs forgets only the levels -/
theorem triples_proj (regs : List Region) (lvs : List Nat) (h : regs.length ≤ lvs.length) :
    (triples regs lvs).map (fun m => (m.1, m.2.1)) = regs.flatMap stemPairs := by
  induction regs generalizing lvs with
  | nil => simp [triples]
  | cons r regs ih =>
    cases lvs with
    | nil => simp at h
    | cons lv lvs =>
      have h' : regs.length ≤ lvs.length := by simpa using h
      have := ih lvs h'
      simp only [triples, List.zip_cons_cons, List.flatMap_cons, List.map_append] at this ⊢
      rw [this, expandRegion_eq, List.map_map]
      have hid : ((fun m : Tr => (m.1, m.2.1)) ∘ fun p : Nat × Nat => (p.1, p.2, lv)) = id := by
        funext p; rfl
      rw [hid, List.map_id]

/-- **regions_cover** (levelled form used by the writer) -/
theorem regions_cover_triples {es : List Entry} (v : ValidP es) (lvs : List Nat)
    (h : (regions es).length ≤ lvs.length) :
    (triples (regions es) lvs).map (fun m => (m.1, m.2.1)) = pairs0 es := by
  rw [triples_proj _ _ h, regions_cover v]

/-- the pairs of a valid BPSEQ are pairwise different -/
theorem pairs0_nodup {es : List Entry} (v : ValidP es) : (pairs0 es).Nodup := by
  unfold pairs0
  have hs : (paired5to3 es).Pairwise (fun a b => a.idx < b.idx) := v.sorted.filter _
  have hpos : ∀ e ∈ paired5to3 es, 1 ≤ e.idx := fun e he => (v.idx_pos (mem_paired5to3.mp he).1).1
  generalize paired5to3 es = l at hs hpos
  induction l with
  | nil => simp
  | cons e l ih =>
    rw [List.pairwise_cons] at hs
    simp only [List.map_cons, List.nodup_cons]
    refine ⟨?_, ih hs.2 (fun e' he' => hpos e' (List.mem_cons_of_mem _ he'))⟩
    intro hm
    obtain ⟨f, hf, hfe⟩ := List.mem_map.mp hm
    have := hs.1 f hf
    have := hpos e (by simp)
    have := hpos f (List.mem_cons_of_mem _ hf)
    simp only [Prod.mk.injEq] at hfe
    omega

end RnaVerif.SecStr

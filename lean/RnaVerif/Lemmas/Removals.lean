import RnaVerif.Lemmas.Decode
import RnaVerif.Lemmas.Regions
import RnaVerif.Lemmas.MkDB
import RnaVerif.Lemmas.FromDB
/-!
# The two removal operations (helper lemmas for C12, core Lean only)

* `withoutIsolated` keeps exactly the pairs of the stems of length two or more;
* `stripPk` of a string written by `mkDB` is the token string of the level-0 sub-matching, so
  `withoutPseudoknots` keeps exactly the pairs written with round brackets.
-/
namespace RnaVerif.SecStr.Removals
open RnaVerif RnaVerif.SecStr

/-! ### the stems of a valid BPSEQ never share a position -/

theorem properP_range (regs : List Region) : ProperP regs (List.range regs.length) := by
  intro u w hu hw hlu hlw hc
  simp only [List.getElem_range]
  intro e; subst e
  rw [conflictSpec_iff] at hc; omega

/-- the matching whose "level" is the index of the stem: well-formed for every valid BPSEQ -/
theorem wf_indexed {es : List Entry} (v : ValidP es) :
    WF (triples (regions es) (List.range (regions es).length)) es.length :=
  wf_triples v _ (properP_range _)

theorem mem_indexed {es : List Entry} {u t : Nat} (hu : u < (regions es).length)
    (ht : t < (regions es)[u].len) :
    ((regions es)[u].i - 1 + t, (regions es)[u].j - 1 - t, u) ∈
      triples (regions es) (List.range (regions es).length) :=
  mem_triples.mpr ⟨u, hu, by simpa using hu, t, ht, by simp⟩

/-- a 5' position belongs to one stem only -/
theorem open_unique {es : List Entry} (v : ValidP es) {u w t t' : Nat}
    (hu : u < (regions es).length) (hw : w < (regions es).length)
    (ht : t < (regions es)[u].len) (ht' : t' < (regions es)[w].len)
    (h : (regions es)[u].i - 1 + t = (regions es)[w].i - 1 + t') : u = w := by
  have := (wf_indexed v).injO _ (mem_indexed hu ht) _ (mem_indexed hw ht') h
  simp only [Prod.mk.injEq] at this
  exact this.2.2

/-- a 5' position of one stem is never a 3' position of a stem -/
theorem open_ne_close {es : List Entry} (v : ValidP es) {u w t t' : Nat}
    (hu : u < (regions es).length) (hw : w < (regions es).length)
    (ht : t < (regions es)[u].len) (ht' : t' < (regions es)[w].len) :
    (regions es)[u].i - 1 + t ≠ (regions es)[w].j - 1 - t' :=
  (wf_indexed v).oc _ (mem_indexed hu ht) _ (mem_indexed hw ht')

/-! ### `withoutIsolated` -/

/-- 1-based positions unpaired by `without_isolated`: both ends of every stem of length one -/
def isoEnds (es : List Entry) : List Nat :=
  ((regions es).filter (fun r => r.len == 1)).flatMap (fun r => [r.i, r.j])

theorem withoutIsolated_eq (es : List Entry) :
    withoutIsolated es =
      es.map (fun e => if (isoEnds es).contains e.idx then { e with pair := 0 } else e) := rfl

theorem mem_isoEnds {es : List Entry} {x : Nat} :
    x ∈ isoEnds es ↔ ∃ r ∈ regions es, r.len = 1 ∧ (x = r.i ∨ x = r.j) := by
  simp only [isoEnds, List.mem_flatMap, List.mem_filter, beq_iff_eq, List.mem_cons,
    List.not_mem_nil, or_false]
  constructor
  · rintro ⟨r, ⟨hr, hl⟩, hx⟩; exact ⟨r, hr, hl, hx⟩
  · rintro ⟨r, hr, hl, hx⟩; exact ⟨r, ⟨hr, hl⟩, hx⟩

theorem withoutIsolated_length (es : List Entry) : (withoutIsolated es).length = es.length := by
  simp [withoutIsolated_eq]

theorem withoutIsolated_getElem (es : List Entry) (k : Nat) (h : k < (withoutIsolated es).length) :
    (withoutIsolated es)[k] =
      if (isoEnds es).contains (es[k]'(by simpa [withoutIsolated_length] using h)).idx
      then { es[k]'(by simpa [withoutIsolated_length] using h) with pair := 0 }
      else es[k]'(by simpa [withoutIsolated_length] using h) := by
  simp [withoutIsolated_eq]

theorem withoutIsolated_sequence (es : List Entry) :
    sequence (withoutIsolated es) = sequence es := by
  simp only [sequence, withoutIsolated_eq, List.map_map]
  apply List.map_congr_left
  intro e _
  simp only [Function.comp]
  split <;> rfl

theorem withoutIsolated_idx (es : List Entry) :
    (withoutIsolated es).map (·.idx) = es.map (·.idx) := by
  simp only [withoutIsolated_eq, List.map_map]
  apply List.map_congr_left
  intro e _
  simp only [Function.comp]
  split <;> rfl

/-- the unpaired set is closed under taking the partner -/
theorem isoEnds_partner {es : List Entry} (v : ValidP es) {x : Nat} (hx : x ∈ isoEnds es) :
    partnerOf es x ∈ isoEnds es := by
  obtain ⟨r, hr, hl, hx⟩ := mem_isoEnds.mp hx
  have sf := stemFacts_regions v hr
  obtain ⟨e, he, e1, e2, e3, _, _⟩ := sf.pairs 0 sf.len_pos
  have e1' : e.idx = r.i := by omega
  have e2' : e.pair = r.j := by omega
  rcases hx with rfl | rfl
  · rw [← e1', v.partner_idx he, e2']
    exact mem_isoEnds.mpr ⟨r, hr, hl, Or.inr rfl⟩
  · rw [← e2', (v.pair_ok he (by omega)).2.2, e1']
    exact mem_isoEnds.mpr ⟨r, hr, hl, Or.inl rfl⟩

theorem withoutIsolated_valid {es : List Entry} (v : ValidP es) : ValidP (withoutIsolated es) := by
  have hlen := withoutIsolated_length es
  refine ⟨fun k hk => ?_, fun k hk => ?_⟩
  · have hk' : k < es.length := by omega
    rw [withoutIsolated_getElem]
    split
    · exact v.idx_get k hk'
    · exact v.idx_get k hk'
  · have hk' : k < es.length := by omega
    rw [withoutIsolated_getElem]
    split
    · exact Or.inl rfl
    · rename_i hnot
      rcases v.pair_get k hk' with h0 | ⟨a, b, c⟩
      · exact Or.inl h0
      · by_cases h0 : es[k].pair = 0
        · exact Or.inl h0
        · right
          refine ⟨by omega, b, ?_⟩
          have hp : es[k].pair - 1 < es.length := by omega
          have hp' : es[k].pair - 1 < (withoutIsolated es).length := by omega
          have hpe : es[k].pair = (es[k].pair - 1) + 1 := by omega
          have c' : es[es[k].pair - 1].pair = k + 1 := by
            rw [← partnerOf_eq hp, ← hpe]; exact c
          rw [hpe, partnerOf_eq hp', withoutIsolated_getElem]
          split
          · rename_i hin
            exfalso
            apply hnot
            rw [v.idx_get _ hp, ← hpe] at hin
            have hin' : es[k].pair ∈ isoEnds es := by simpa using hin
            have := isoEnds_partner v hin'
            rw [c, ← v.idx_get k hk'] at this
            simpa using this
          · exact c'

theorem mem_pairs0 {es : List Entry} {p : Nat × Nat} :
    p ∈ pairs0 es ↔ ∃ e ∈ es, e.pair ≠ 0 ∧ e.idx < e.pair ∧ p = (e.idx - 1, e.pair - 1) := by
  simp only [pairs0, List.mem_map, mem_paired5to3]
  constructor
  · rintro ⟨e, ⟨h1, h2, h3⟩, rfl⟩; exact ⟨e, h1, h2, h3, rfl⟩
  · rintro ⟨e, h1, h2, h3, rfl⟩; exact ⟨e, ⟨h1, h2, h3⟩, rfl⟩

theorem mem_pairs0_withoutIsolated {es : List Entry} {p : Nat × Nat} :
    p ∈ pairs0 (withoutIsolated es) ↔
      ∃ e ∈ es, e.idx ∉ isoEnds es ∧ e.pair ≠ 0 ∧ e.idx < e.pair ∧ p = (e.idx - 1, e.pair - 1) := by
  rw [mem_pairs0]
  simp only [withoutIsolated_eq, List.mem_map]
  constructor
  · rintro ⟨e', ⟨e, he, rfl⟩, h2, h3, rfl⟩
    by_cases hin : (isoEnds es).contains e.idx = true
    · rw [if_pos hin] at h2
      exact absurd rfl h2
    · simp only [hin] at h2 h3 ⊢
      exact ⟨e, he, by simpa using hin, h2, h3, rfl⟩
  · rintro ⟨e, he, hnot, h2, h3, rfl⟩
    have hin : ¬ (isoEnds es).contains e.idx = true := by simpa using hnot
    exact ⟨_, ⟨e, he, rfl⟩, by simp only [hin]; exact h2, by simp only [hin]; exact h3,
      by simp only [hin]; rfl⟩

/-- `p` is a pair of a stem of length two or more -/
def InLongStem (es : List Entry) (p : Nat × Nat) : Prop :=
  ∃ r ∈ regions es, 2 ≤ r.len ∧ p ∈ stemPairs r

theorem mem_pairs0_region {es : List Entry} (v : ValidP es) {p : Nat × Nat} :
    p ∈ pairs0 es ↔ ∃ r ∈ regions es, p ∈ stemPairs r := by
  rw [← regions_cover v, List.mem_flatMap]

/-- **`without_isolated` keeps exactly the pairs of stems of length ≥ 2** -/
theorem pairs0_withoutIsolated {es : List Entry} (v : ValidP es) (p : Nat × Nat) :
    p ∈ pairs0 (withoutIsolated es) ↔ p ∈ pairs0 es ∧ InLongStem es p := by
  rw [mem_pairs0_withoutIsolated]
  constructor
  · rintro ⟨e, he, hnot, h2, h3, rfl⟩
    have hp : (e.idx - 1, e.pair - 1) ∈ pairs0 es := mem_pairs0.mpr ⟨e, he, h2, h3, rfl⟩
    refine ⟨hp, ?_⟩
    obtain ⟨r, hr, hpr⟩ := (mem_pairs0_region v).mp hp
    refine ⟨r, hr, ?_, hpr⟩
    have sf := stemFacts_regions v hr
    apply Decidable.byContradiction
    intro hlt
    have hl : r.len = 1 := by have := sf.len_pos; omega
    obtain ⟨t, ht, hpt⟩ := mem_stemPairs.mp hpr
    obtain ⟨_, _, a1, _, _, a4, _⟩ := sf.pairs 0 sf.len_pos
    have := (v.idx_pos he).1
    simp only [Prod.mk.injEq] at hpt
    exact hnot (mem_isoEnds.mpr ⟨r, hr, hl, Or.inl (by omega)⟩)
  · rintro ⟨hp, r, hr, hl, hpr⟩
    obtain ⟨e, he, h2, h3, rfl⟩ := mem_pairs0.mp hp
    refine ⟨e, he, ?_, h2, h3, rfl⟩
    intro hin
    obtain ⟨s, hs, hsl, hx⟩ := mem_isoEnds.mp hin
    obtain ⟨u, hu, rfl⟩ := List.mem_iff_getElem.mp hr
    obtain ⟨w, hw, rfl⟩ := List.mem_iff_getElem.mp hs
    obtain ⟨t, ht, hpt⟩ := mem_stemPairs.mp hpr
    simp only [Prod.mk.injEq] at hpt
    have hpos := (v.idx_pos he).1
    have sfw := stemFacts_regions v (List.getElem_mem hw)
    obtain ⟨_, _, a1, _, _, a4, _⟩ := sfw.pairs 0 sfw.len_pos
    rcases hx with hx | hx
    · have : u = w := open_unique v hu hw ht sfw.len_pos (by omega)
      subst this; omega
    · exact open_ne_close v hu hw ht sfw.len_pos (by omega)

/-! ### `stripPk` on a written string -/

/-- what the `re.sub` of `DotBracket.without_pseudoknots` does to one character -/
def stripChar (c : Char) : Char := if Gen.pkStripped.contains c then '.' else c

theorem stripPk_eq_map (s : List Char) : stripPk s = s.map stripChar := by
  induction s with
  | nil => rfl
  | cons c s ih =>
    have hc : stripPk (c :: s) = (if Gen.pkStripped.contains c then Gen.pkRepl else [c]) ++ stripPk s := by
      simp [stripPk]
    rw [hc, ih, List.map_cons]
    unfold stripChar
    split <;> rfl

theorem stripPk_length (s : List Char) : (stripPk s).length = s.length := by
  rw [stripPk_eq_map, List.length_map]

/-- what stripping does on the level of tokens: levels `≥ 1` become dots -/
def stripTok : Tok → Tok
  | .dot => .dot
  | .op t => if t = 0 then .op 0 else .dot
  | .cl t => if t = 0 then .cl 0 else .dot

theorem stripChar_op : ∀ l, l < Gen.encBrackets.length →
    stripChar (charOfTok Gen.encBrackets (.op l)) = charOfTok Gen.encBrackets (stripTok (.op l)) := by
  decide

theorem stripChar_cl : ∀ l, l < Gen.encBrackets.length →
    stripChar (charOfTok Gen.encBrackets (.cl l)) = charOfTok Gen.encBrackets (stripTok (.cl l)) := by
  decide

theorem stripChar_dot :
    stripChar (charOfTok Gen.encBrackets .dot) = charOfTok Gen.encBrackets (stripTok .dot) := by
  decide

theorem stripTok_levelLt {B : Nat} {t : Tok} (h : t.levelLt B) : (stripTok t).levelLt B := by
  cases t with
  | dot => trivial
  | op l =>
    by_cases h0 : l = 0
    · subst h0; exact h
    · simp only [stripTok, h0, if_false]; trivial
  | cl l =>
    by_cases h0 : l = 0
    · subst h0; exact h
    · simp only [stripTok, h0, if_false]; trivial

/-- **alphabet bridge for the removal**: stripping the character written for a token of level below
the number of bracket types and reading it back gives the stripped token -/
theorem tokOfChar_stripChar {t : Tok} (h : t.levelLt Gen.encBrackets.length) :
    tokOfChar (stripChar (charOfTok Gen.encBrackets t)) = stripTok t := by
  have : stripChar (charOfTok Gen.encBrackets t) = charOfTok Gen.encBrackets (stripTok t) := by
    cases t with
    | dot => exact stripChar_dot
    | op l => exact stripChar_op l h
    | cl l => exact stripChar_cl l h
  rw [this]
  exact tok_roundtrip (stripTok_levelLt h)

/-! ### the level-0 sub-matching -/

def level0 (M : List Tr) : List Tr := M.filter (fun m => m.2.2 == 0)

theorem mem_level0 {M : List Tr} {m : Tr} : m ∈ level0 M ↔ m ∈ M ∧ m.2.2 = 0 := by
  simp [level0, List.mem_filter]

theorem wf_sub {M M' : List Tr} {n : Nat} (wf : WF M n) (h : ∀ m ∈ M', m ∈ M) : WF M' n :=
  ⟨fun m hm => wf.bnd m (h m hm),
   fun m hm m' hm' => wf.injO m (h m hm) m' (h m' hm'),
   fun m hm m' hm' => wf.injC m (h m hm) m' (h m' hm'),
   fun m hm m' hm' => wf.oc m (h m hm) m' (h m' hm'),
   fun m hm m' hm' => wf.nocross m (h m hm) m' (h m' hm')⟩

theorem wf_level0 {M : List Tr} {n : Nat} (wf : WF M n) : WF (level0 M) n :=
  wf_sub wf (fun _ hm => (mem_level0.mp hm).1)

theorem tokOf_open {M : List Tr} {n : Nat} (wf : WF M n) {m : Tr} (hm : m ∈ M) :
    tokOf M m.1 = .op m.2.2 := by
  unfold tokOf
  cases hf : M.find? (fun x => x.1 == m.1) with
  | none => exact absurd rfl (find_open_none hf m hm)
  | some x =>
    obtain ⟨h1, h2⟩ := find_open_some hf
    rw [wf.injO x h1 m hm h2]

theorem tokOf_close {M : List Tr} {n : Nat} (wf : WF M n) {m : Tr} (hm : m ∈ M) :
    tokOf M m.2.1 = .cl m.2.2 := by
  unfold tokOf
  cases hf : M.find? (fun x => x.1 == m.2.1) with
  | some x =>
    obtain ⟨h1, h2⟩ := find_open_some hf
    exact absurd h2 (wf.oc x h1 m hm)
  | none =>
    simp only
    cases hc : M.find? (fun x => x.2.1 == m.2.1) with
    | none => exact absurd rfl (find_close_none hc m hm)
    | some x =>
      obtain ⟨h1, h2⟩ := find_close_some hc
      rw [wf.injC x h1 m hm h2]

theorem tokOf_dot {M : List Tr} {k : Nat} (ho : ∀ m ∈ M, m.1 ≠ k) (hc : ∀ m ∈ M, m.2.1 ≠ k) :
    tokOf M k = .dot := by
  unfold tokOf
  cases hf : M.find? (fun x => x.1 == k) with
  | some x => obtain ⟨h1, h2⟩ := find_open_some hf; exact absurd h2 (ho x h1)
  | none =>
    simp only
    cases hf' : M.find? (fun x => x.2.1 == k) with
    | some x => obtain ⟨h1, h2⟩ := find_close_some hf'; exact absurd h2 (hc x h1)
    | none => rfl

/-- every position opens one pair, closes one pair, or is a dot -/
theorem pos_cases (M : List Tr) (k : Nat) :
    (∃ m ∈ M, m.1 = k) ∨ (∃ m ∈ M, m.2.1 = k) ∨ ((∀ m ∈ M, m.1 ≠ k) ∧ (∀ m ∈ M, m.2.1 ≠ k)) := by
  cases hf : M.find? (fun x => x.1 == k) with
  | some x => exact Or.inl ⟨x, find_open_some hf⟩
  | none =>
    cases hf' : M.find? (fun x => x.2.1 == k) with
    | some x => exact Or.inr (Or.inl ⟨x, find_close_some hf'⟩)
    | none => exact Or.inr (Or.inr ⟨find_open_none hf, find_close_none hf'⟩)

/-- stripping the tokens of a well-formed matching gives the tokens of its level-0 part -/
theorem stripTok_tokOf {M : List Tr} {n : Nat} (wf : WF M n) (k : Nat) :
    stripTok (tokOf M k) = tokOf (level0 M) k := by
  have wf0 := wf_level0 wf
  rcases pos_cases M k with ⟨m, hm, rfl⟩ | ⟨m, hm, rfl⟩ | ⟨ho, hc⟩
  · rw [tokOf_open wf hm]
    by_cases h0 : m.2.2 = 0
    · have hm0 : m ∈ level0 M := mem_level0.mpr ⟨hm, h0⟩
      rw [tokOf_open wf0 hm0, h0]; rfl
    · simp only [stripTok, h0, if_false]
      symm
      apply tokOf_dot
      · intro m' hm' e
        obtain ⟨h1, h2⟩ := mem_level0.mp hm'
        exact h0 (wf.injO m' h1 m hm e ▸ h2)
      · intro m' hm' e
        exact wf.oc m hm m' (mem_level0.mp hm').1 e.symm
  · rw [tokOf_close wf hm]
    by_cases h0 : m.2.2 = 0
    · have hm0 : m ∈ level0 M := mem_level0.mpr ⟨hm, h0⟩
      rw [tokOf_close wf0 hm0, h0]; rfl
    · simp only [stripTok, h0, if_false]
      symm
      apply tokOf_dot
      · intro m' hm' e
        exact wf.oc m' (mem_level0.mp hm').1 m hm e
      · intro m' hm' e
        obtain ⟨h1, h2⟩ := mem_level0.mp hm'
        exact h0 (wf.injC m' h1 m hm e ▸ h2)
  · rw [tokOf_dot ho hc]
    symm
    exact tokOf_dot (fun m hm => ho m (mem_level0.mp hm).1) (fun m hm => hc m (mem_level0.mp hm).1)

/-- decoding the stripped string = decoding the token string of the level-0 part -/
theorem decodeChars_stripPk_written {n : Nat} {M : List Tr} (wf : WF M n)
    (hlv : ∀ m ∈ M, m.2.2 < Gen.encBrackets.length) :
    decodeChars (stripPk ((List.range n).map (fun k => charOfTok Gen.encBrackets (tokOf M k)))) =
      decodeFrom (tokOf (level0 M)) (List.range n) St.init := by
  unfold decodeChars
  rw [stripPk_length, List.length_map, List.length_range]
  apply decodeFrom_congr
  intro k hk
  have hk' : k < n := List.mem_range.mp hk
  simp only [stripPk_eq_map, List.getD_eq_getElem?_getD, List.getElem?_map, List.getElem?_range hk',
    Option.map_some, Option.getD_some]
  rw [tokOfChar_stripChar (tokOf_levelLt hlv k)]
  exact stripTok_tokOf wf k

/-- **`stripPk` of a written string decodes to exactly the level-0 pairs** -/
theorem decode_stripPk_written {n : Nat} {M : List Tr} (wf : WF M n)
    (hlv : ∀ m ∈ M, m.2.2 < Gen.encBrackets.length) :
    ∃ st, decodeChars (stripPk ((List.range n).map (fun k => charOfTok Gen.encBrackets (tokOf M k))))
        = some st ∧ (∀ t, st.stacks t = []) ∧ st.out.Nodup ∧
      ∀ p, p ∈ st.out ↔ (p.1, p.2, 0) ∈ M := by
  obtain ⟨st, h1, h2, h3, h4⟩ := decode_correct (wf_level0 wf)
  refine ⟨st, by rw [decodeChars_stripPk_written wf hlv]; exact h1, h2, h3, ?_⟩
  intro p
  rw [h4]
  constructor
  · rintro ⟨t, ht⟩
    obtain ⟨a, b⟩ := mem_level0.mp ht
    simp only at b
    subst b; exact a
  · intro h; exact ⟨0, mem_level0.mpr ⟨h, rfl⟩⟩

/-! ### `withoutPseudoknots` -/

theorem withoutPseudoknots_of_decode {es : List Entry} {db : List Char} {st : St}
    (h : decodeChars (stripPk db) = some st) :
    withoutPseudoknots es db = .ok (fromDB (sequence es) st.out) := by
  simp only [withoutPseudoknots, decodePairs, h]

/-- whatever it returns has the receiver's sequence (no hypothesis at all) -/
theorem withoutPseudoknots_sequence {es es' : List Entry} {db : List Char}
    (h : withoutPseudoknots es db = .ok es') : sequence es' = sequence es := by
  unfold withoutPseudoknots at h
  split at h
  · injection h with h; subst h; exact fromDB_sequence _ _
  · cases h

theorem sequence_length (es : List Entry) : (sequence es).length = es.length := by
  simp [sequence]

/-- **`without_pseudoknots` on the structure's own dot-bracket** (Prop-level hypotheses): it
succeeds, the result is a valid BPSEQ over the same sequence, and its pairs are exactly the level-0
triples of the writer -/
theorem withoutPseudoknots_spec {es : List Entry} {lvs : List Nat} {db : List Char} (v : ValidP es)
    (hlen : lvs.length = (regions es).length) (hlv : ∀ l ∈ lvs, l < Gen.encBrackets.length)
    (hp : ProperP (regions es) lvs) (hdb : mkDB es.length (regions es) lvs = .ok db) :
    ∃ es', withoutPseudoknots es db = .ok es' ∧ sequence es' = sequence es ∧
      es'.length = es.length ∧ ValidP es' ∧ (pairs0 es').Nodup ∧
      ∀ p, p ∈ pairs0 es' ↔ (p.1, p.2, 0) ∈ triples (regions es) lvs := by
  have hM : ∀ m ∈ triples (regions es) lvs, m.2.2 < Gen.encBrackets.length :=
    fun m hm => hlv _ (triples_level_mem hm)
  have wf := wf_triples v lvs hp
  rw [mkDB_ok (by omega) hlv] at hdb
  injection hdb with hdb
  subst hdb
  obtain ⟨st, h1, _, _, h4⟩ := decode_stripPk_written wf hM
  have hl : (sequence es).length =
      (stripPk ((List.range es.length).map
        (fun k => charOfTok Gen.encBrackets (tokOf (triples (regions es) lvs) k)))).length := by
    rw [stripPk_length, List.length_map, List.length_range, sequence_length]
  have ok : PairsOK (sequence es).length st.out := hl ▸ decodeChars_pairsOK h1
  have v' := fromDB_valid ok
  refine ⟨_, withoutPseudoknots_of_decode h1, fromDB_sequence _ _,
    by rw [fromDB_length, sequence_length], v', pairs0_nodup v', ?_⟩
  intro p
  rw [pairs0_fromDB ok, h4]

/-- the level-0 triples are the pairs of the stems whose level is 0 -/
theorem mem_triples_level0 {regs : List Region} {lvs : List Nat} {p : Nat × Nat} :
    (p.1, p.2, 0) ∈ triples regs lvs ↔ ∃ q ∈ regs.zip lvs, q.2 = 0 ∧ p ∈ stemPairs q.1 := by
  simp only [triples, List.mem_flatMap, expandRegion_eq, List.mem_map]
  constructor
  · rintro ⟨q, hq, a, ha, e⟩
    simp only [Prod.mk.injEq] at e
    refine ⟨q, hq, e.2.2, ?_⟩
    have : a = p := Prod.ext e.1 e.2.1
    exact this ▸ ha
  · rintro ⟨q, hq, h0, hp⟩
    exact ⟨q, hq, p, hp, by rw [h0]⟩

/-! ### "written with round brackets" -/

theorem op_round : ∀ l, l < Gen.encBrackets.length →
    (charOfTok Gen.encBrackets (.op l) = '(' ↔ l = 0) := by decide

theorem cl_round : ∀ l, l < Gen.encBrackets.length →
    (charOfTok Gen.encBrackets (.cl l) = ')' ↔ l = 0) := by decide

theorem written_getElem? {n : Nat} {M : List Tr} {k : Nat} (hk : k < n) :
    ((List.range n).map (fun k => charOfTok Gen.encBrackets (tokOf M k)))[k]? =
      some (charOfTok Gen.encBrackets (tokOf M k)) := by
  simp [List.getElem?_map, List.getElem?_range hk]

/-- in the string written for a well-formed matching with levels `< 30`, a pair of the matching has
`(` at its 5' end iff it has `)` at its 3' end iff its level is 0 -/
theorem written_round {n : Nat} {M : List Tr} (wf : WF M n)
    (hlv : ∀ m ∈ M, m.2.2 < Gen.encBrackets.length) {m : Tr} (hm : m ∈ M) :
    let s := (List.range n).map (fun k => charOfTok Gen.encBrackets (tokOf M k))
    (s[m.1]? = some '(' ↔ m.2.2 = 0) ∧ (s[m.2.1]? = some ')' ↔ m.2.2 = 0) := by
  have hb := wf.bnd m hm
  intro s
  constructor
  · show ((List.range n).map _)[m.1]? = _ ↔ _
    rw [written_getElem? (by omega), tokOf_open wf hm, Option.some.injEq]
    exact op_round _ (hlv m hm)
  · show ((List.range n).map _)[m.2.1]? = _ ↔ _
    rw [written_getElem? hb.2, tokOf_close wf hm, Option.some.injEq]
    exact cl_round _ (hlv m hm)

/-- **the pairs kept by `without_pseudoknots` are exactly the pairs of the structure that its own
dot-bracket writes with round brackets** -/
theorem withoutPseudoknots_round {es : List Entry} {lvs : List Nat} {db : List Char} (v : ValidP es)
    (hlen : lvs.length = (regions es).length) (hlv : ∀ l ∈ lvs, l < Gen.encBrackets.length)
    (hp : ProperP (regions es) lvs) (hdb : mkDB es.length (regions es) lvs = .ok db)
    (p : Nat × Nat) :
    (p.1, p.2, 0) ∈ triples (regions es) lvs ↔
      p ∈ pairs0 es ∧ db[p.1]? = some '(' ∧ db[p.2]? = some ')' := by
  have hM : ∀ m ∈ triples (regions es) lvs, m.2.2 < Gen.encBrackets.length :=
    fun m hm => hlv _ (triples_level_mem hm)
  have wf := wf_triples v lvs hp
  rw [mkDB_ok (by omega) hlv] at hdb
  injection hdb with hdb
  subst hdb
  have hcov := regions_cover_triples v lvs (by omega)
  constructor
  · intro h
    have r := written_round wf hM h
    refine ⟨?_, r.1.mpr rfl, r.2.mpr rfl⟩
    rw [← hcov]
    exact List.mem_map.mpr ⟨_, h, rfl⟩
  · rintro ⟨h, ho, _⟩
    rw [← hcov] at h
    obtain ⟨m, hm, rfl⟩ := List.mem_map.mp h
    have r := written_round wf hM hm
    have h0 : m.2.2 = 0 := r.1.mp ho
    have : (m.1, m.2.1, 0) = m := by rw [← h0]
    simp only
    rw [this]; exact hm

/-! ### a valid BPSEQ is determined by its length, sequence and set of pairs -/

theorem entry_ext {x y : Entry} (h1 : x.idx = y.idx) (h2 : x.ch = y.ch) (h3 : x.pair = y.pair) :
    x = y := by
  cases x; cases y
  simp only at h1 h2 h3
  subst h1; subst h2; subst h3; rfl

theorem pair_determined {a b : List Entry} (va : ValidP a) (vb : ValidP b)
    (hp : ∀ p, p ∈ pairs0 a → p ∈ pairs0 b) (k : Nat) (hk : k < a.length) (hk' : k < b.length)
    (h0 : a[k].pair ≠ 0) : b[k].pair = a[k].pair := by
  rcases va.pair_get k hk with h | ⟨h1, h2, h3⟩
  · exact absurd h h0
  · have hidx := va.idx_get k hk
    rcases Nat.lt_or_gt_of_ne h2 with hlt | hgt
    · -- the partner lies before `k`: the pair is listed at the partner
      have hx : a[k].pair - 1 < a.length := by omega
      have hxe : a[k].pair = (a[k].pair - 1) + 1 := by omega
      have hpp : a[a[k].pair - 1].pair = k + 1 := by rw [← partnerOf_eq hx, ← hxe]; exact h3
      have hxi := va.idx_get _ hx
      have hin : (a[k].pair - 1, k) ∈ pairs0 a :=
        mem_pairs0.mpr ⟨a[a[k].pair - 1], List.getElem_mem hx, by omega, by omega,
          by rw [hxi, hpp]; rfl⟩
      obtain ⟨e, he, e2, e3, heq⟩ := mem_pairs0.mp (hp _ hin)
      obtain ⟨j, hj, rfl⟩ := List.mem_iff_getElem.mp he
      have hji := vb.idx_get j hj
      simp only [Prod.mk.injEq] at heq
      have hjx : j = a[k].pair - 1 := by omega
      subst hjx
      have hbp : b[a[k].pair - 1].pair = k + 1 := by omega
      rcases vb.pair_get _ hj with h | ⟨_, _, c⟩
      · omega
      · rw [hbp, partnerOf_eq hk'] at c
        omega
    · have hin : (k, a[k].pair - 1) ∈ pairs0 a :=
        mem_pairs0.mpr ⟨a[k], List.getElem_mem hk, h0, by omega, by rw [hidx]; rfl⟩
      obtain ⟨e, he, e2, e3, heq⟩ := mem_pairs0.mp (hp _ hin)
      obtain ⟨j, hj, rfl⟩ := List.mem_iff_getElem.mp he
      have hji := vb.idx_get j hj
      simp only [Prod.mk.injEq] at heq
      have hjk : j = k := by omega
      subst hjk
      omega

/-- **two valid BPSEQs of the same length with the same sequence and the same set of 5'→3' pairs
are the same list of entries** — so describing the result of a removal by its sequence and its
pairs describes it completely -/
theorem valid_ext {a b : List Entry} (va : ValidP a) (vb : ValidP b) (hl : a.length = b.length)
    (hs : sequence a = sequence b) (hp : ∀ p, p ∈ pairs0 a ↔ p ∈ pairs0 b) : a = b := by
  apply List.ext_getElem hl
  intro k hk hk'
  apply entry_ext
  · rw [va.idx_get k hk, vb.idx_get k hk']
  · have h1 : (sequence a)[k]'(by simpa [sequence] using hk) = a[k].ch := by simp [sequence]
    have h2 : (sequence b)[k]'(by simpa [sequence] using hk') = b[k].ch := by simp [sequence]
    rw [← h1, ← h2]
    simp only [hs]
  · by_cases h0 : a[k].pair = 0
    · by_cases h0' : b[k].pair = 0
      · rw [h0, h0']
      · have := pair_determined vb va (fun p => (hp p).mpr) k hk' hk h0'
        omega
    · exact (pair_determined va vb (fun p => (hp p).mp) k hk hk' h0).symm

/-- a structure written with round brackets only is returned unchanged by `without_pseudoknots` -/
theorem withoutPseudoknots_all_zero {es : List Entry} {lvs : List Nat} {db : List Char}
    (v : ValidP es) (hlen : lvs.length = (regions es).length) (hz : ∀ l ∈ lvs, l = 0)
    (hp : ProperP (regions es) lvs) (hdb : mkDB es.length (regions es) lvs = .ok db) :
    withoutPseudoknots es db = .ok es := by
  have hlv : ∀ l ∈ lvs, l < Gen.encBrackets.length := by
    intro l hl; rw [hz l hl]; decide
  obtain ⟨es', h1, h2, h3, h4, _, h6⟩ := withoutPseudoknots_spec v hlen hlv hp hdb
  rw [h1]
  congr 1
  apply valid_ext h4 v h3 h2
  intro p
  rw [h6, ← regions_cover_triples v lvs (by omega)]
  constructor
  · intro h; exact List.mem_map.mpr ⟨_, h, rfl⟩
  · intro h
    obtain ⟨m, hm, rfl⟩ := List.mem_map.mp h
    have h0 : m.2.2 = 0 := hz _ (triples_level_mem hm)
    have : (m.1, m.2.1, 0) = m := by rw [← h0]
    simp only
    rw [this]; exact hm

/-- a structure without stems of length one is returned unchanged by `without_isolated` -/
theorem withoutIsolated_no_isolated {es : List Entry} (h : ∀ r ∈ regions es, r.len ≠ 1) :
    withoutIsolated es = es := by
  have hnil : isoEnds es = [] := by
    apply List.eq_nil_iff_forall_not_mem.mpr
    intro x hx
    obtain ⟨r, hr, hl, _⟩ := mem_isoEnds.mp hx
    exact h r hr hl
  rw [withoutIsolated_eq, hnil]
  simp

end RnaVerif.SecStr.Removals

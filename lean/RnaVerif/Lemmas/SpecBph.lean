import RnaVerif.Lemmas.Prefilter
import RnaVerif.Lemmas.FindPairsMerge
/-!
# The executable checker `Pairs.specBph` on lists whose entries are backed by donor → oxygen contacts (C11)

* `mem_bcontacts_of`   a donor → oxygen contact between two different positions, not answered `no`, is listed by
                       `Pairs.bcontacts` (through the pre-filter, proved complete in Lemmas/Prefilter.lean);
* `recorded_in_bcontacts`  every contact recorded by the functional loop is such a contact;
* `specBph_no_fail`    `specBph` reports no failure on a list without self entries, without repeated residue pairs,
                       each entry backed by listed contacts whose classes imply its class.
-/
namespace RnaVerif.Pairs
open RnaVerif

variable {P : Params}

/-! ## membership in `bcontacts` -/

theorem mem_donorPoints {r : Res} {n : String} {p : Q3} (h1 : n ∈ pointNames P r.base)
    (h2 : kindOf P r.base n = .donor) (h3 : findAtom r n = some p) : (n, p) ∈ donorPoints P r := by
  unfold donorPoints
  refine List.mem_filterMap.mpr ⟨n, h1, ?_⟩
  simp [h2, h3]

theorem mem_oxygenPoints {r : Res} {names : List String} {n : String} {p : Q3} (h1 : n ∈ names)
    (h3 : findAtom r n = some p) : (n, p) ∈ oxygenPoints r names := by
  unfold oxygenPoints
  refine List.mem_filterMap.mpr ⟨n, h1, ?_⟩
  simp [h3]

theorem mem_bcontactsBetween_of {names : List String} {d a : Nat} {rd ra : Res} {dn an : String} {dp ap : Q3}
    (hs : sameResidue rd ra = false) (hd : (dn, dp) ∈ donorPoints P rd) (ha : (an, ap) ∈ oxygenPoints ra names)
    (ht : distTri P (V3.dist2 dp ap) ≠ .no) :
    ∃ bc ∈ bcontactsBetween P names d a rd ra, bc.d = d ∧ bc.a = a ∧ bc.dn = dn ∧ bc.an = an ∧
      bc.classes = bphClasses P rd dn dp ap := by
  unfold bcontactsBetween
  simp only [hs, Bool.false_eq_true, ↓reduceIte, List.mem_flatMap, List.mem_filterMap]
  cases htri : distTri P (V3.dist2 dp ap) with
  | no => exact absurd htri ht
  | yes =>
    exact ⟨⟨d, a, dn, an, .yes, bphClasses P rd dn dp ap⟩, ⟨(dn, dp), hd, (an, ap), ha, by simp [htri]⟩,
      rfl, rfl, rfl, rfl, rfl⟩
  | undecided =>
    exact ⟨⟨d, a, dn, an, .undecided, bphClasses P rd dn dp ap⟩, ⟨(dn, dp), hd, (an, ap), ha, by simp [htri]⟩,
      rfl, rfl, rfl, rfl, rfl⟩

theorem mem_nearPairs {s : Array Res} {i j : Nat} :
    (i, j) ∈ nearPairs P s ↔ i < s.size ∧ j < s.size ∧ i < j ∧
      near ((s.map (ball P)).getD i none) ((s.map (ball P)).getD j none) (reach P) = true := by
  unfold nearPairs
  simp only [List.mem_flatMap, List.mem_range, List.mem_map, List.mem_filter, Bool.and_eq_true, decide_eq_true_eq,
    Prod.mk.injEq]
  constructor
  · rintro ⟨i', hi', j', ⟨hj', hlt, hn⟩, rfl, rfl⟩
    exact ⟨hi', hj', hlt, hn⟩
  · rintro ⟨hi, hj, hlt, hn⟩
    exact ⟨i, hi, j, ⟨hj, hlt, hn⟩, rfl, rfl⟩

/-- **mem_bcontacts_of**: a donor → oxygen contact between residues at two different positions is listed -/
theorem mem_bcontacts_of (hpos : 0 ≤ P.maxDist) {names : List String} {s : Array Res} {d a : Nat} {rd ra : Res}
    {dn an : String} {dp ap : Q3} (hda : d ≠ a) (ed : s[d]? = some rd) (ea : s[a]? = some ra)
    (hs : sameResidue rd ra = false)
    (hdn : dn ∈ pointNames P rd.base) (hk : kindOf P rd.base dn = .donor) (hfd : findAtom rd dn = some dp)
    (han : an ∈ names) (han' : an ∈ pointNames P ra.base) (hfa : findAtom ra an = some ap)
    (ht : distTri P (V3.dist2 dp ap) ≠ .no) :
    ∃ bc ∈ bcontacts P names s, bc.d = d ∧ bc.a = a ∧ bc.dn = dn ∧ bc.an = an ∧
      bc.classes = bphClasses P rd dn dp ap := by
  have hdsz : d < s.size := by
    rcases Nat.lt_or_ge d s.size with h | h
    · exact h
    · rw [Array.getElem?_eq_none h] at ed; cases ed
  have hasz : a < s.size := by
    rcases Nat.lt_or_ge a s.size with h | h
    · exact h
    · rw [Array.getElem?_eq_none h] at ea; cases ea
  have hpd : dp ∈ allPoints P rd := by
    unfold allPoints; exact List.mem_filterMap.mpr ⟨dn, hdn, hfd⟩
  have hpa : ap ∈ allPoints P ra := by
    unfold allPoints; exact List.mem_filterMap.mpr ⟨an, han', hfa⟩
  obtain ⟨bc, hbc, hprops⟩ := mem_bcontactsBetween_of (P := P) (names := names) (d := d) (a := a) hs
    (mem_donorPoints hdn hk hfd) (mem_oxygenPoints han hfa) ht
  refine ⟨bc, ?_, hprops⟩
  unfold bcontacts
  rcases Nat.lt_or_gt_of_ne hda with hlt | hgt
  · have hnear : near ((s.map (ball P)).getD d none) ((s.map (ball P)).getD a none) (reach P) = true := by
      rw [ballAt, ballAt, ed, ea]
      exact near_of_close hpos hpd hpa ht
    refine List.mem_flatMap.mpr ⟨(d, a), mem_nearPairs.mpr ⟨hdsz, hasz, hlt, hnear⟩, ?_⟩
    simp only [ed, ea]
    exact List.mem_append_left _ hbc
  · have ht' : distTri P (V3.dist2 ap dp) ≠ .no := by
      rw [FindPairs.dist2_comm]; exact ht
    have hnear : near ((s.map (ball P)).getD a none) ((s.map (ball P)).getD d none) (reach P) = true := by
      rw [ballAt, ballAt, ed, ea]
      exact near_of_close hpos hpa hpd ht'
    refine List.mem_flatMap.mpr ⟨(a, d), mem_nearPairs.mpr ⟨hasz, hdsz, hgt, hnear⟩, ?_⟩
    simp only [ed, ea]
    exact List.mem_append_right _ hbc

/-! ## `specBph` reports no failure on well-backed lists -/

theorem fail_fails (v : Verdict) (m : String) : (v.fail m).fails = v.fails ++ [m] := rfl
theorem und_fails (v : Verdict) : v.und.fails = v.fails := rfl

theorem specBph_dup_ok (kind : String) :
    ∀ (l : List RepB) (v : Verdict), (l.map (fun p => (p.d, p.a))).Nodup → (specBph.dup kind l v).fails = v.fails
  | [], v, _ => rfl
  | p :: rest, v, h => by
    simp only [List.map_cons, List.nodup_cons] at h
    unfold specBph.dup
    have hnot : rest.any (fun q => q.d == p.d && q.a == p.a) = false := by
      rw [List.any_eq_false]
      intro q hq
      simp only [Bool.and_eq_true, beq_iff_eq, not_and]
      intro e1 e2
      apply h.1
      exact List.mem_map.mpr ⟨q, hq, by rw [e1, e2]⟩
    simp only [hnot, Bool.false_eq_true, ↓reduceIte]
    exact specBph_dup_ok kind rest v h.2

/-- an entry of a reported list is backed by listed contacts -/
def Backed (P : Params) (bc : List BContact) (p : RepB) : Prop :=
  p.d ≠ p.a ∧ (∃ c ∈ bc, c.d = p.d ∧ c.a = p.a) ∧
    impliedBy P ((bc.filter (fun c => c.d == p.d && c.a == p.a)).flatMap (·.classes)) p.k = true

/-- **specBph_no_fail** -/
theorem specBph_no_fail (kind : String) (names : List String) (s : Array Res) (rep : List RepB)
    (hb : ∀ p ∈ rep, Backed P (bcontacts P names s) p) (hnd : (rep.map (fun p => (p.d, p.a))).Nodup) :
    (specBph P kind names s rep).fails = [] := by
  unfold specBph
  simp only
  rw [specBph_dup_ok kind rep _ hnd]
  suffices h : ∀ (l : List RepB) (v : Verdict), (∀ p ∈ l, Backed P (bcontacts P names s) p) → v.fails = [] →
      (l.foldl (fun v p =>
        if (p.d == p.a) = true then v.fail (toString kind ++ toString "-self " ++ toString p.d)
        else
          if ((bcontacts P names s).filter (fun c => c.d == p.d && c.a == p.a)).isEmpty = true then
            v.fail (toString kind ++ toString "-without-contact " ++ toString p.d ++ toString ">" ++ toString p.a ++
              toString ":" ++ toString p.k)
          else
            if (!impliedBy P (((bcontacts P names s).filter (fun c => c.d == p.d && c.a == p.a)).flatMap (·.classes)) p.k) = true then
              v.fail (toString kind ++ toString "-class-not-implied " ++ toString p.d ++ toString ">" ++ toString p.a ++
                toString ":" ++ toString p.k ++ toString " contacts=" ++
                toString (((bcontacts P names s).filter (fun c => c.d == p.d && c.a == p.a)).flatMap (·.classes)))
            else if (!impliedBy P ((((bcontacts P names s).filter (fun c => c.d == p.d && c.a == p.a)).filter
                (fun c => c.tri == .yes && c.classes.length == 1)).flatMap (·.classes)) p.k) = true then v.und else v)
        v).fails = [] from h rep {} hb rfl
  intro l
  induction l with
  | nil => intro v _ hv; exact hv
  | cons p rest ih =>
    intro v hl hv
    simp only [List.foldl_cons]
    apply ih _ (fun q hq => hl q (List.mem_cons_of_mem _ hq))
    obtain ⟨h1, ⟨c, hc, hcd, hca⟩, h3⟩ := hl p List.mem_cons_self
    have e1 : (p.d == p.a) = false := by simpa using h1
    have e2 : ((bcontacts P names s).filter (fun c => c.d == p.d && c.a == p.a)).isEmpty = false := by
      rw [List.isEmpty_eq_false_iff]
      intro e
      have : c ∈ (bcontacts P names s).filter (fun c => c.d == p.d && c.a == p.a) :=
        List.mem_filter.mpr ⟨hc, by simp [hcd, hca]⟩
      rw [e] at this; cases this
    simp only [e1, e2, h3, Bool.false_eq_true, ↓reduceIte, Bool.not_true]
    split
    · exact hv
    · exact hv

/-! ## the contacts recorded by the functional loop are listed contacts -/

theorem branchName_mem_pointNames (phos : Bool) (base n : String) (h : (FindPairs.branchNames P phos).contains n = true) :
    n ∈ pointNames P base := by
  unfold pointNames
  rw [FindPairs.mem_dedup]
  unfold rawPointNames acceptorsOf
  simp only [List.mem_append]
  left
  cases phos
  · simp only [FindPairs.branchNames, Bool.false_eq_true, ↓reduceIte, List.contains_eq_mem, decide_eq_true_eq] at h
    exact Or.inl (Or.inr h)
  · simp only [FindPairs.branchNames, ↓reduceIte, List.contains_eq_mem, decide_eq_true_eq] at h
    exact Or.inr h

/-- **recorded_in_bcontacts**: every `(donor residue, acceptor residue, class)` recorded by the loop is a class of a
donor → oxygen contact listed by `bcontacts` for that ordered residue pair -/
theorem recorded_in_bcontacts (hpos : 0 ≤ P.maxDist) (hd : P.dedupPoints = true) (model : Option Int) (s : Array Res)
    (hid : ∀ r ∈ s.toList, sameResidue r r = true) (phos : Bool) {t : Nat × Nat × Nat}
    (ht : t ∈ (FindPairs.loop P model s).triples phos) :
    t.1 ≠ t.2.1 ∧ ∃ bc ∈ bcontacts P (FindPairs.branchNames P phos) s, bc.d = t.1 ∧ bc.a = t.2.1 ∧ t.2.2 ∈ bc.classes := by
  obtain ⟨r, hr, hph, rfl⟩ := FindPairs.mem_triples.mp ht
  obtain ⟨rd, ra, dpos, apos, ed, ea, _, _, hdn, hfd, hfa, hk, hnm, hs, hdist, hcls⟩ := FindPairs.recs_sound P model s r hr
  have hne : r.d ≠ r.a := by
    intro e
    rw [e] at ed
    rw [ed] at ea
    cases ea
    rw [hid rd (Array.mem_toList_iff.mpr (Array.mem_of_getElem? ed))] at hs
    cases hs
  rw [hph] at hnm
  rw [FindPairs.codePointNames_eq hd] at hdn
  have han : r.an ∈ FindPairs.branchNames P phos := by simpa using hnm
  obtain ⟨bc, hbc, h1, h2, _, _, h5⟩ := mem_bcontacts_of (P := P) hpos (names := FindPairs.branchNames P phos) hne ed ea hs
    hdn hk hfd han (branchName_mem_pointNames phos ra.base r.an hnm) hfa hdist
  exact ⟨hne, bc, hbc, h1, h2, by rw [h5]; exact hcls⟩

end RnaVerif.Pairs
